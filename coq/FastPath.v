(* FastPath.v — property C19: "specialised fast paths are exact on every pattern they accept".

   Subject (coregex @ /repo):
     nfa/charclass_extract.go   ExtractCharClassRanges, IsSimpleCharClassPlus
     nfa/charclass_searcher.go  NewCharClassSearcher, SearchAt, Search, IsMatch
     nfa/composite.go           IsCompositeCharClassPattern, extractSinglePart, NewCompositeSearcher,
                                matchAtWithBacktrack, SearchAt
     nfa/composite_dfa.go       IsCompositeSequenceDFAPattern, computeNextConfigs, SearchAt
     nfa/branch_dispatch.go     IsBranchDispatchPattern, isExactBranch, NewBranchDispatcher,
                                buildBranchMatcher, Search
     nfa/firstbytes.go          ExtractFirstBytes
     meta/anchored_literal.go   DetectAnchoredLiteral, MatchAnchoredLiteral
     meta/strategy.go           isDigitOnlyClass, isAllDigitsClass, isDigitRunSkipSafe, SelectStrategy;
     meta/find_indices.go       findIndicesDigitPrefilter;  nfa/compile.go isPatternAnchored, isEndAnchored

   Regex AST: the operators of regexp/syntax that occur in these fragments.  Literals carry
   RUNES (the Go predicates test r > 255 / r > 127 on runes) and a FoldCase flag; classes carry
   RUNE ranges.  The reference semantics [m] / [bt] / [first_match] is the textbook
   Perl-priority (leftmost-first) backtracking matcher in continuation-passing style, on BYTES:
     - a literal rune matches its UTF-8 encoding; FoldCase is ASCII case folding;
     - a class matches one byte b < 128 that lies in one of its ranges (non-ASCII members never
       match on the byte level), `.` matches one byte (<> 10 for AnyNotNL);
   i.e. it is Go's regexp semantics for ASCII haystacks, and for arbitrary byte haystacks when
   the pattern has no `.` and no non-ASCII class member.  It is the SPECIFICATION here; the
   harness (c19, list spec_cases) validates it against Go's regexp on the same (AST, haystack).
   Star loops reject empty iterations (every loop of these fragments consumes input).

   Layout.
     A-G  definitions with the suffix _original: the code BEFORE the fixes fb3838d, 3a29455,
          ef62930, fdea5a8, d884383, 22419a2, 59ae723 (and, in H7, f33db41), with their X_original_refuted lemmas
          (vm_compute witnesses) and the partial results they admit, X_original_partial.
     H    the CURRENT code (repaired tree) and the positive theorems, each for EVERY pattern the
          current applicability test accepts, every haystack and offset:
            charclass_exact, charclass_is_match_exact, composite_exact, branch_dispatch_exact,
            anchored_literal_exact, first_bytes_sound (+ first_bytes_filter_sound),
            digit_skip_sound;
            composite_dfa_exact (after fix f33db41: every part must have minimum exactly 1;
            composite_dfa_original_refuted is the code before it: x{n,}, n >= 2, was run as x+,
            `[a-z]{2,}[0-9]+` on "a1" gave [0,2]).
          Hypotheses besides the predicate itself: wf_re (parser invariant: x{n,m} has n <= m);
          is_pattern_anchored / is_end_anchored (the conditions under which SelectStrategy
          consults IsBranchDispatchPattern / DetectAnchoredLiteral).
     Z    case checker on the models of the current code.

   Not modelled: the reverse-* searchers (ReverseAnchored/Suffix/SuffixSet/Inner/Multiline) and
   the DFA engine behind UseDigitPrefilter: differential testing only (harness c19).          *)
From Coq Require Import List NArith ZArith Lia Bool Arith PeanoNat.
From Coq Require Import ZifyBool ZifyNat ZifyN.
Import ListNotations.

(* ================================================================== A. AST and reference *)

Inductive re : Type :=
| Lit (fold : bool) (rs : list N)            (* OpLiteral: runes, Flags&FoldCase; Lit _ [] = OpEmptyMatch *)
| Class (rs : list (N * N))                  (* OpCharClass: rune ranges lo,hi *)
| Star (g : bool) (r : re)                   (* g = greedy (Flags&NonGreedy == 0) *)
| Plus (g : bool) (r : re)
| Quest (g : bool) (r : re)
| Repeat (g : bool) (mn : nat) (mx : option nat) (r : re)   (* mx = None: Max == -1 *)
| Concat (l : list re)
| Alt (l : list re)
| BeginText | EndText | BeginLine | EndLine
| AnyNotNL | AnyChar
| Capture (r : re).

(* Induction principle for the nested type. *)
Section ReInd.
  Variable P : re -> Prop.
  Hypothesis HLit : forall f rs, P (Lit f rs).
  Hypothesis HClass : forall rs, P (Class rs).
  Hypothesis HStar : forall g r, P r -> P (Star g r).
  Hypothesis HPlus : forall g r, P r -> P (Plus g r).
  Hypothesis HQuest : forall g r, P r -> P (Quest g r).
  Hypothesis HRepeat : forall g mn mx r, P r -> P (Repeat g mn mx r).
  Hypothesis HConcat : forall l, Forall P l -> P (Concat l).
  Hypothesis HAlt : forall l, Forall P l -> P (Alt l).
  Hypothesis HBT : P BeginText.
  Hypothesis HET : P EndText.
  Hypothesis HBL : P BeginLine.
  Hypothesis HEL : P EndLine.
  Hypothesis HANL : P AnyNotNL.
  Hypothesis HAC : P AnyChar.
  Hypothesis HCap : forall r, P r -> P (Capture r).

  Fixpoint re_ind2 (r : re) : P r :=
    match r with
    | Lit f rs => HLit f rs
    | Class rs => HClass rs
    | Star g r => HStar g r (re_ind2 r)
    | Plus g r => HPlus g r (re_ind2 r)
    | Quest g r => HQuest g r (re_ind2 r)
    | Repeat g mn mx r => HRepeat g mn mx r (re_ind2 r)
    | Concat l => HConcat l ((fix go (l : list re) : Forall P l :=
                                match l with [] => Forall_nil P | x :: t => Forall_cons x (re_ind2 x) (go t) end) l)
    | Alt l => HAlt l ((fix go (l : list re) : Forall P l :=
                          match l with [] => Forall_nil P | x :: t => Forall_cons x (re_ind2 x) (go t) end) l)
    | BeginText => HBT | EndText => HET | BeginLine => HBL | EndLine => HEL
    | AnyNotNL => HANL | AnyChar => HAC
    | Capture r => HCap r (re_ind2 r)
    end.
End ReInd.

Definition cont := nat -> option nat.
Definition matcher := cont -> cont.

Definition orelse (a b : option nat) : option nat := match a with Some x => Some x | None => b end.

(* unicode/utf8.EncodeRune (surrogates/out of range are not produced by the parser here). *)
Definition utf8_encode (r : N) : list N :=
  if (r <? 128)%N then [r]
  else if (r <? 2048)%N then [192 + r / 64; 128 + r mod 64]%N
  else if (r <? 65536)%N then [224 + r / 4096; 128 + (r / 64) mod 64; 128 + r mod 64]%N
  else [240 + r / 262144; 128 + (r / 4096) mod 64; 128 + (r / 64) mod 64; 128 + r mod 64]%N.

Definition lit_bytes (rs : list N) : list N := flat_map utf8_encode rs.

Definition in_ranges (rs : list (N * N)) (b : N) : bool :=
  existsb (fun p => (fst p <=? b)%N && (b <=? snd p)%N) rs.

(* byte-level class test: ASCII members only *)
Definition cls_byte (rs : list (N * N)) (b : N) : bool := (b <? 128)%N && in_ranges rs b.

Definition is_upper (b : N) := (65 <=? b)%N && (b <=? 90)%N.
Definition is_lower (b : N) := (97 <=? b)%N && (b <=? 122)%N.
Definition eqb_fold (a b : N) : bool :=
  (a =? b)%N || (is_upper a && (a + 32 =? b)%N) || (is_lower a && (a =? b + 32)%N).

Section Sem.
  Variable h : list N.

  Definition step1 (f : N -> bool) : matcher :=
    fun k pos => match nth_error h pos with
                 | Some b => if f b then k (S pos) else None
                 | None => None
                 end.

  Fixpoint lit_m (eq : N -> N -> bool) (bs : list N) (k : cont) (pos : nat) {struct bs} : option nat :=
    match bs with
    | [] => k pos
    | b :: t => step1 (eq b) (lit_m eq t k) pos
    end.

  (* x* : at most [fuel] iterations, each must advance *)
  Fixpoint star_loop (fuel : nat) (g : bool) (body : matcher) (k : cont) (pos : nat) : option nat :=
    match fuel with
    | 0 => k pos
    | S f =>
        let iter := body (fun p => if pos <? p then star_loop f g body k p else None) pos in
        if g then orelse iter (k pos) else orelse (k pos) iter
    end.

  Fixpoint rep_min (n : nat) (body : matcher) (k : cont) : cont :=
    match n with 0 => k | S n' => body (rep_min n' body k) end.

  Fixpoint rep_opt (n : nat) (g : bool) (body : matcher) (k : cont) (pos : nat) : option nat :=
    match n with
    | 0 => k pos
    | S n' => let iter := body (rep_opt n' g body k) pos in
              if g then orelse iter (k pos) else orelse (k pos) iter
    end.

  Definition fuel0 : nat := S (length h).

  Definition at_line_start (pos : nat) : bool :=
    match pos with 0 => true | S p => match nth_error h p with Some b => (b =? 10)%N | None => false end end.
  Definition at_line_end (pos : nat) : bool :=
    (pos =? length h) || match nth_error h pos with Some b => (b =? 10)%N | None => false end.

  Fixpoint m (r : re) : matcher :=
    match r with
    | Lit fold rs => lit_m (if fold then eqb_fold else N.eqb) (lit_bytes rs)
    | Class rs => step1 (cls_byte rs)
    | Star g r => star_loop fuel0 g (m r)
    | Plus g r => fun k => m r (star_loop fuel0 g (m r) k)
    | Quest g r => rep_opt 1 g (m r)
    | Repeat g mn mx r =>
        fun k => rep_min mn (m r)
                   (match mx with
                    | None => star_loop fuel0 g (m r) k
                    | Some x => rep_opt (x - mn) g (m r) k
                    end)
    | Concat l => (fix go (l : list re) : matcher :=
                     match l with [] => fun k => k | x :: t => fun k => m x (go t k) end) l
    | Alt l => (fix go (l : list re) : matcher :=
                  match l with [] => fun _ _ => None | x :: t => fun k pos => orelse (m x k pos) (go t k pos) end) l
    | BeginText => fun k pos => if pos =? 0 then k pos else None
    | EndText => fun k pos => if pos =? length h then k pos else None
    | BeginLine => fun k pos => if at_line_start pos then k pos else None
    | EndLine => fun k pos => if at_line_end pos then k pos else None
    | AnyNotNL => step1 (fun b => negb (b =? 10)%N)
    | AnyChar => step1 (fun _ => true)
    | Capture r => m r
    end.

  Fixpoint m_concat (l : list re) : matcher :=
    match l with [] => fun k => k | x :: t => fun k => m x (m_concat t k) end.
  Fixpoint m_alt (l : list re) : matcher :=
    match l with [] => fun _ _ => None | x :: t => fun k pos => orelse (m x k pos) (m_alt t k pos) end.

  Lemma m_Concat l : m (Concat l) = m_concat l.
  Proof. cbn [m]. induction l as [|x t IH]; cbn [m_concat]; [reflexivity|]. now rewrite <- IH. Qed.
  Lemma m_Alt l : m (Alt l) = m_alt l.
  Proof. cbn [m]. induction l as [|x t IH]; cbn [m_alt]; [reflexivity|]. now rewrite <- IH. Qed.

  (* leftmost-first end of a match that starts at [pos] *)
  Definition bt (r : re) (pos : nat) : option nat := m r (fun e => Some e) pos.

  Fixpoint find_from (r : re) (n : nat) (s : nat) : option (nat * nat) :=
    match n with
    | 0 => None
    | S n' => match bt r s with
              | Some e => Some (s, e)
              | None => find_from r n' (S s)
              end
    end.

  (* leftmost start >= at that has a match, with its leftmost-first end *)
  Definition first_match (r : re) (at_ : nat) : option (nat * nat) :=
    find_from r (S (length h) - at_) at_.
End Sem.

(* quick sanity checks of the reference *)
Definition bytes_of_ascii (l : list nat) : list N := map N.of_nat l.
Example spec_ex1 : first_match [120;97;97;98]%N (Concat [Plus true (Lit false [97%N]); Lit false [98%N]]) 0 = Some (1, 4).
Proof. vm_compute. reflexivity. Qed.
Example spec_ex2 : first_match [97;98]%N (Plus false (Class [(97,122)%N])) 0 = Some (0, 1).
Proof. vm_compute. reflexivity. Qed.
Example spec_ex3 : first_match [97;98]%N (Alt [Lit false [97%N]; Lit false [97;98]%N]) 0 = Some (0, 1).
Proof. vm_compute. reflexivity. Qed.

(* ================================================================== B. class loops, tables *)

Fixpoint scan (f : N -> bool) (l : list N) : nat :=
  match l with b :: t => if f b then S (scan f t) else 0 | [] => 0 end.
Definition scan_at (f : N -> bool) (h : list N) (pos : nat) : nat := scan f (skipn pos h).

Fixpoint try_list (k : cont) (l : list nat) : option nat :=
  match l with [] => None | x :: t => orelse (k x) (try_list k t) end.

(* n, n-1, ..., lo  (empty when n < lo): the loop `for tryLen := n; tryLen >= lo; tryLen--` *)
Fixpoint range_down (lo n : nat) : list nat :=
  if n <? lo then [] else
  match n with 0 => [0] | S n' => n :: range_down lo n' end.

Definition try_down (k : cont) (pos lo n : nat) : option nat :=
  try_list k (map (Nat.add pos) (range_down lo n)).

Lemma orelse_assoc a b c : orelse (orelse a b) c = orelse a (orelse b c).
Proof. destruct a; reflexivity. Qed.
Lemma orelse_none_r a : orelse a None = a.
Proof. destruct a; reflexivity. Qed.

Lemma try_list_app k a b : try_list k (a ++ b) = orelse (try_list k a) (try_list k b).
Proof. induction a as [|x t IH]; cbn [app try_list]; [reflexivity|]. now rewrite IH, orelse_assoc. Qed.

Lemma range_down_lt lo n : n < lo -> range_down lo n = [].
Proof.
  intros H. destruct n as [|n']; cbn [range_down].
  - destruct (Nat.ltb_spec0 0 lo); [reflexivity|lia].
  - destruct (Nat.ltb_spec0 (S n') lo); [reflexivity|lia].
Qed.

Lemma range_down_S lo n : lo <= S n -> range_down lo (S n) = S n :: range_down lo n.
Proof. intros H. cbn [range_down]. destruct (Nat.ltb_spec0 (S n) lo); [lia|reflexivity]. Qed.

Lemma range_down_0_0 : range_down 0 0 = [0].
Proof. reflexivity. Qed.

Lemma range_down_SS lo c : range_down (S lo) (S c) = map S (range_down lo c).
Proof.
  induction c as [|c IH].
  - destruct lo as [|lo]; [reflexivity|]. rewrite !range_down_lt by lia. reflexivity.
  - destruct (Nat.le_gt_cases lo (S c)) as [Hle|Hgt].
    + rewrite (range_down_S (S lo) (S c)) by lia. rewrite (range_down_S lo c) by lia.
      cbn [map]. now rewrite IH.
    + rewrite !range_down_lt by lia. reflexivity.
Qed.

Lemma range_down_0_S c : range_down 0 (S c) = map S (range_down 0 c) ++ [0].
Proof.
  induction c as [|c IH]; [reflexivity|].
  rewrite (range_down_S 0 (S c)) by lia. rewrite IH at 1.
  rewrite (range_down_S 0 c) by lia. reflexivity.
Qed.

Lemma range_down_add a c : range_down a (a + c) = map (Nat.add a) (range_down 0 c).
Proof.
  induction c as [|c IH].
  - rewrite Nat.add_0_r. destruct a as [|a]; [reflexivity|].
    rewrite range_down_S by lia. rewrite range_down_lt by lia. cbn. now rewrite Nat.add_0_r.
  - replace (a + S c) with (S (a + c)) by lia. rewrite range_down_S by lia.
    rewrite (range_down_S 0 c) by lia. cbn [map]. rewrite IH. f_equal. lia.
Qed.

Lemma map_add_S pos l : map (Nat.add pos) (map S l) = map (Nat.add (S pos)) l.
Proof. rewrite map_map. apply map_ext. intros; lia. Qed.

Lemma try_down_lt k pos lo n : n < lo -> try_down k pos lo n = None.
Proof. intros H. unfold try_down. now rewrite range_down_lt. Qed.

Lemma try_down_0_0 k pos : try_down k pos 0 0 = k pos.
Proof. unfold try_down. cbn. rewrite Nat.add_0_r. now rewrite orelse_none_r. Qed.

(* peel the first byte of a run: lengths c+1..1 from pos are lengths c..0 from pos+1 *)
Lemma try_down_0_S k pos c : try_down k pos 0 (S c) = orelse (try_down k (S pos) 0 c) (k pos).
Proof.
  unfold try_down. rewrite range_down_0_S, map_app, try_list_app, map_add_S.
  cbn. now rewrite Nat.add_0_r, orelse_none_r.
Qed.

Lemma try_down_SS k pos lo c : try_down k pos (S lo) (S c) = try_down k (S pos) lo c.
Proof. unfold try_down. now rewrite range_down_SS, map_add_S. Qed.

Lemma try_down_shift k pos a c : try_down k (pos + a) 0 c = try_down k pos a (a + c).
Proof.
  unfold try_down. rewrite range_down_add, map_map. f_equal. apply map_ext. intros; lia.
Qed.

Lemma try_down_ext k1 k2 pos lo n : (forall p, k1 p = k2 p) -> try_down k1 pos lo n = try_down k2 pos lo n.
Proof.
  intros H. unfold try_down. induction (map (Nat.add pos) (range_down lo n)) as [|x t IH]; cbn; [reflexivity|].
  now rewrite H, IH.
Qed.

Lemma skipn_nth_error {T} (l : list T) pos b : nth_error l pos = Some b -> skipn pos l = b :: skipn (S pos) l.
Proof.
  revert pos. induction l as [|x t IH]; intros [|pos] H; cbn in *; try discriminate.
  - now inversion H.
  - now apply IH.
Qed.

Lemma skipn_nth_error_none {T} (l : list T) pos : nth_error l pos = None -> skipn pos l = [].
Proof. intros H. apply nth_error_None in H. now apply skipn_all2. Qed.

Lemma scan_at_hit f h pos b : nth_error h pos = Some b -> f b = true -> scan_at f h pos = S (scan_at f h (S pos)).
Proof. intros Hb Hf. unfold scan_at. rewrite (skipn_nth_error _ _ _ Hb). cbn [scan]. now rewrite Hf. Qed.

Lemma scan_at_miss f h pos b : nth_error h pos = Some b -> f b = false -> scan_at f h pos = 0.
Proof. intros Hb Hf. unfold scan_at. rewrite (skipn_nth_error _ _ _ Hb). cbn [scan]. now rewrite Hf. Qed.

Lemma scan_at_end f h pos : nth_error h pos = None -> scan_at f h pos = 0.
Proof. intros Hb. unfold scan_at. now rewrite (skipn_nth_error_none _ _ Hb). Qed.

Lemma scan_le f l : scan f l <= length l.
Proof. induction l as [|b t IH]; cbn; [lia|]. destruct (f b); lia. Qed.

Lemma scan_at_le f h pos : scan_at f h pos <= length h - pos.
Proof. unfold scan_at. etransitivity; [apply scan_le|]. rewrite skipn_length. lia. Qed.

Lemma scan_ext f g l : (forall b, f b = g b) -> scan f l = scan g l.
Proof. intros H. induction l as [|b t IH]; cbn; [reflexivity|]. now rewrite H, IH. Qed.

Lemma scan_at_ext f g h pos : (forall b, f b = g b) -> scan_at f h pos = scan_at g h pos.
Proof. intros H. unfold scan_at. now apply scan_ext. Qed.

Lemma scan_at_add f h pos n : n <= scan_at f h pos -> scan_at f h (pos + n) = scan_at f h pos - n.
Proof.
  revert pos. induction n as [|n IH]; intros pos Hn.
  - now rewrite Nat.add_0_r, Nat.sub_0_r.
  - destruct (nth_error h pos) as [b|] eqn:Hb.
    + destruct (f b) eqn:Hf.
      * rewrite (scan_at_hit _ _ _ _ Hb Hf) in *. replace (pos + S n) with (S pos + n) by lia.
        rewrite IH by lia. lia.
      * rewrite (scan_at_miss _ _ _ _ Hb Hf) in Hn. lia.
    + rewrite (scan_at_end _ _ _ Hb) in Hn. lia.
Qed.

Section ClassLoops.
  Variable h : list N.
  Variable f : N -> bool.

  (* greedy star over a one-byte test = try the run lengths from longest to 0 *)
  Lemma star_greedy k : forall fuel pos, scan_at f h pos < fuel ->
    star_loop fuel true (step1 h f) k pos = try_down k pos 0 (scan_at f h pos).
  Proof.
    induction fuel as [|fu IH]; intros pos Hf; [lia|].
    cbn [star_loop]. unfold step1 at 1.
    destruct (nth_error h pos) as [b|] eqn:Hb.
    - destruct (f b) eqn:Hfb.
      + rewrite (scan_at_hit _ _ _ _ Hb Hfb) in *.
        destruct (Nat.ltb_spec0 pos (S pos)) as [_|]; [|lia].
        rewrite IH by lia. now rewrite try_down_0_S.
      + rewrite (scan_at_miss _ _ _ _ Hb Hfb). now rewrite try_down_0_0.
    - rewrite (scan_at_end _ _ _ Hb). now rewrite try_down_0_0.
  Qed.

  Lemma fuel0_enough pos : scan_at f h pos < fuel0 h.
  Proof. unfold fuel0. pose proof (scan_at_le f h pos). lia. Qed.

  Lemma plus_greedy k pos :
    step1 h f (star_loop (fuel0 h) true (step1 h f) k) pos = try_down k pos 1 (scan_at f h pos).
  Proof.
    unfold step1 at 1. destruct (nth_error h pos) as [b|] eqn:Hb.
    - destruct (f b) eqn:Hfb.
      + rewrite (scan_at_hit _ _ _ _ Hb Hfb). rewrite star_greedy by apply fuel0_enough.
        now rewrite try_down_SS.
      + rewrite (scan_at_miss _ _ _ _ Hb Hfb). now rewrite try_down_lt by lia.
    - rewrite (scan_at_end _ _ _ Hb). now rewrite try_down_lt by lia.
  Qed.

  Lemma rep_opt_greedy k : forall n pos,
    rep_opt n true (step1 h f) k pos = try_down k pos 0 (Nat.min (scan_at f h pos) n).
  Proof.
    induction n as [|n IH]; intros pos.
    - cbn [rep_opt]. now rewrite Nat.min_0_r, try_down_0_0.
    - cbn [rep_opt]. unfold step1 at 1. destruct (nth_error h pos) as [b|] eqn:Hb.
      + destruct (f b) eqn:Hfb.
        * rewrite (scan_at_hit _ _ _ _ Hb Hfb). rewrite IH.
          rewrite <- Nat.succ_min_distr. now rewrite try_down_0_S.
        * rewrite (scan_at_miss _ _ _ _ Hb Hfb). cbn [Nat.min]. now rewrite try_down_0_0.
      + rewrite (scan_at_end _ _ _ Hb). cbn [Nat.min]. now rewrite try_down_0_0.
  Qed.

  Lemma rep_min_class K : forall n pos,
    rep_min n (step1 h f) K pos = if n <=? scan_at f h pos then K (pos + n) else None.
  Proof.
    induction n as [|n IH]; intros pos.
    - cbn [rep_min]. now rewrite Nat.add_0_r.
    - cbn [rep_min]. unfold step1 at 1. destruct (nth_error h pos) as [b|] eqn:Hb.
      + destruct (f b) eqn:Hfb.
        * rewrite (scan_at_hit _ _ _ _ Hb Hfb). rewrite IH.
          replace (S pos + n) with (pos + S n) by lia.
          destruct (Nat.leb_spec0 n (scan_at f h (S pos))); destruct (Nat.leb_spec0 (S n) (S (scan_at f h (S pos)))); try lia; reflexivity.
        * rewrite (scan_at_miss _ _ _ _ Hb Hfb). reflexivity.
      + rewrite (scan_at_end _ _ _ Hb). reflexivity.
  Qed.
End ClassLoops.

(* 256-entry membership tables *)
Definition mk_table (f : N -> bool) : list bool := map (fun i => f (N.of_nat i)) (seq 0 256).
Definition tbl_get (t : list bool) (b : N) : bool := nth (N.to_nat b) t false.

Lemma tbl_get_mk f b : tbl_get (mk_table f) b = if (b <? 256)%N then f b else false.
Proof.
  unfold tbl_get, mk_table. destruct (N.ltb_spec0 b 256) as [Hlt|Hge].
  - rewrite (nth_indep _ false (f (N.of_nat 0))) by (rewrite map_length, seq_length; lia).
    rewrite (map_nth (fun i => f (N.of_nat i))). rewrite seq_nth by lia. cbn [Nat.add]. now rewrite N2Nat.id.
  - apply nth_overflow. rewrite map_length, seq_length. lia.
Qed.

Lemma in_ranges_bound rs bnd b : forallb (fun p => (snd p <=? bnd)%N) rs = true -> in_ranges rs b = true -> (b <= bnd)%N.
Proof.
  unfold in_ranges. induction rs as [|[lo hi] t IH]; cbn [forallb existsb fst snd]; intros Hall Hin; [discriminate|].
  apply andb_true_iff in Hall as [Hhi Ht]. apply orb_true_iff in Hin as [Hin|Hin]; [lia|auto].
Qed.

Definition isSome {T} (o : option T) : bool := match o with Some _ => true | None => false end.

Fixpoint find_first (f : N -> bool) (l : list N) : option nat :=
  match l with [] => None | b :: t => if f b then Some 0 else option_map S (find_first f t) end.

Lemma find_first_ext f g l : (forall b, f b = g b) -> find_first f l = find_first g l.
Proof. intros H. induction l as [|b t IH]; cbn; [reflexivity|]. now rewrite H, IH. Qed.

Lemma try_down_some pos lo n : try_down (fun e => Some e) pos lo n = if n <? lo then None else Some (pos + n).
Proof.
  unfold try_down. destruct (Nat.ltb_spec0 n lo) as [Hlt|Hge].
  - now rewrite range_down_lt.
  - destruct n as [|n]; [replace lo with 0 by lia; reflexivity|].
    rewrite range_down_S by lia. reflexivity.
Qed.

(* generic shape of the leftmost search when "matches at s" is "h[s] passes f" *)
Lemma find_from_first h r (f : N -> bool) (E : nat -> nat) :
  (forall s, bt h r s = match nth_error h s with
                        | Some b => if f b then Some (E s) else None
                        | None => None end) ->
  forall n s, s + n = S (length h) ->
  find_from h r n s = match find_first f (skipn s h) with
                      | Some i => Some (s + i, E (s + i))
                      | None => None end.
Proof.
  intros Hbt. induction n as [|n IH]; intros s Hs.
  - cbn [find_from]. rewrite skipn_all2 by lia. reflexivity.
  - cbn [find_from]. rewrite Hbt. destruct (nth_error h s) as [b|] eqn:Hb.
    + rewrite (skipn_nth_error _ _ _ Hb). cbn [find_first]. destruct (f b).
      * now rewrite Nat.add_0_r.
      * rewrite IH by lia. destruct (find_first f (skipn (S s) h)); cbn [option_map]; [|reflexivity].
        do 2 f_equal; try lia. f_equal; lia.
    + rewrite (skipn_nth_error_none _ _ Hb). cbn [find_first].
      destruct n as [|n]; [reflexivity|]. apply nth_error_None in Hb. lia.
Qed.

Lemma first_match_first h r (f : N -> bool) (E : nat -> nat) at_ :
  (forall s, bt h r s = match nth_error h s with
                        | Some b => if f b then Some (E s) else None
                        | None => None end) ->
  first_match h r at_ = match find_first f (skipn at_ h) with
                        | Some i => Some (at_ + i, E (at_ + i))
                        | None => None end.
Proof.
  intros Hbt. unfold first_match. destruct (Nat.le_gt_cases at_ (S (length h))) as [Hle|Hgt].
  - apply (find_from_first h r f E Hbt). lia.
  - replace (S (length h) - at_) with 0 by lia. cbn [find_from]. rewrite skipn_all2 by lia. reflexivity.
Qed.

Lemma find_first_some f l i : find_first f l = Some i -> exists b, nth_error l i = Some b /\ f b = true.
Proof.
  revert i. induction l as [|x t IH]; intros i H; cbn in H; [discriminate|].
  destruct (f x) eqn:Hx.
  - inversion H; subst. exists x. auto.
  - destruct (find_first f t) as [j|]; cbn in H; [|discriminate]. inversion H; subst.
    cbn [nth_error]. now apply IH.
Qed.

Lemma nth_error_skipn' {T} (l : list T) a i : nth_error (skipn a l) i = nth_error l (a + i).
Proof.
  revert l. induction a as [|a IH]; intros l; [reflexivity|].
  destruct l as [|x t]; cbn [skipn Nat.add nth_error]; [now destruct i|]. apply IH.
Qed.

(* ================================================================== C. CharClassSearcher *)

(* nfa/charclass_extract.go:ExtractCharClassRanges — OpPlus of OpCharClass, every range ASCII,
   at least one range.  The NonGreedy flag of the OpPlus is not consulted. *)
Definition cc_ranges_original (r : re) : option (list (N * N)) :=
  match r with
  | Plus _ (Class rs) =>
      if forallb (fun p => negb ((127 <? fst p)%N || (127 <? snd p)%N)) rs
      then match rs with [] => None | _ => Some rs end
      else None
  | _ => None
  end.

(* nfa/charclass_extract.go:IsSimpleCharClassPlus *)
Definition cc_applicable_original (r : re) : bool := isSome (cc_ranges_original r).

Record ccs := mkCcs { cc_tbl : list bool; cc_min : nat }.

(* nfa/charclass_searcher.go:NewCharClassSearcher; meta/compile.go:buildCharClassSearchers passes
   minMatch = 1 (re.Op == OpStar cannot happen after ExtractCharClassRanges). *)
Definition cc_new (ranges : list (N * N)) (minMatch : nat) : ccs :=
  mkCcs (mk_table (in_ranges ranges)) minMatch.

Definition cc_build_original (r : re) : option ccs :=
  match cc_ranges_original r with Some rs => Some (cc_new rs 1) | None => None end.

(* nfa/charclass_searcher.go:SearchAt.  The tail call "match too short, try from start+1" is
   modelled with fuel; it is dead code for minMatch <= 1. *)
Fixpoint cc_search_fuel (fuel : nat) (s : ccs) (h : list N) (at_ : nat) : option (nat * nat) :=
  match fuel with
  | 0 => None
  | S fu =>
      if length h <=? at_ then None else
      match find_first (tbl_get (cc_tbl s)) (skipn at_ h) with
      | None => None
      | Some i =>
          let start := at_ + i in
          let e := S start + scan_at (tbl_get (cc_tbl s)) h (S start) in
          if e - start <? cc_min s then cc_search_fuel fu s h (S start) else Some (start, e)
      end
  end.
Definition cc_search_at (s : ccs) (h : list N) (at_ : nat) : option (nat * nat) :=
  cc_search_fuel (S (length h)) s h at_.
(* Search(h) = SearchAt(h, 0) *)
Definition cc_search (s : ccs) (h : list N) := cc_search_at s h 0.

(* nfa/charclass_searcher.go:IsMatch *)
Fixpoint cc_is_match_loop (s : ccs) (l : list N) (matchLen : nat) : bool :=
  match l with
  | [] => false
  | b :: t => if tbl_get (cc_tbl s) b
              then (if cc_min s <=? S matchLen then true else cc_is_match_loop s t (S matchLen))
              else cc_is_match_loop s t 0
  end.
Definition cc_is_match (s : ccs) (h : list N) : bool := cc_is_match_loop s h 0.

Definition cc_original_exact_statement : Prop :=
  forall r s, cc_build_original r = Some s -> forall h at_, cc_search_at s h at_ = first_match h r at_.

(* `[a-z]+?` on "ab": the searcher is greedy, the reference is not. *)
Theorem cc_original_refuted :
  exists r s h at_, cc_applicable_original r = true /\ cc_build_original r = Some s /\ cc_search_at s h at_ <> first_match h r at_.
Proof.
  exists (Plus false (Class [(97, 122)%N])), (cc_new [(97, 122)%N] 1), [97; 98]%N, 0.
  split; [reflexivity|]. split; [reflexivity|]. vm_compute. discriminate.
Qed.

Fixpoint all_greedy (r : re) : bool :=
  match r with
  | Star g r | Plus g r | Quest g r | Repeat g _ _ r => g && all_greedy r
  | Concat l | Alt l => (fix go (l : list re) : bool := match l with [] => true | x :: t => all_greedy x && go t end) l
  | Capture r => all_greedy r
  | _ => true
  end.

Lemma tbl_ascii rs :
  forallb (fun p => negb ((127 <? fst p)%N || (127 <? snd p)%N)) rs = true ->
  forall b, tbl_get (mk_table (in_ranges rs)) b = cls_byte rs b.
Proof.
  intros Hall b. rewrite tbl_get_mk. unfold cls_byte.
  assert (Hb : in_ranges rs b = true -> (b <= 127)%N).
  { apply in_ranges_bound. rewrite forallb_forall in *. intros p Hp. specialize (Hall p Hp). lia. }
  destruct (in_ranges rs b); [specialize (Hb eq_refl)|];
    destruct (N.ltb_spec0 b 256); destruct (N.ltb_spec0 b 128); try lia; reflexivity.
Qed.

Lemma bt_plus_greedy_class h rs s :
  bt h (Plus true (Class rs)) s =
  match nth_error h s with
  | Some b => if cls_byte rs b then Some (s + scan_at (cls_byte rs) h s) else None
  | None => None end.
Proof.
  unfold bt. cbn [m]. rewrite plus_greedy, try_down_some.
  destruct (nth_error h s) as [b|] eqn:Hb.
  - destruct (cls_byte rs b) eqn:Hf.
    + rewrite (scan_at_hit _ _ _ _ Hb Hf). reflexivity.
    + rewrite (scan_at_miss _ _ _ _ Hb Hf). reflexivity.
  - rewrite (scan_at_end _ _ _ Hb). reflexivity.
Qed.

(* exact whenever the quantifier is greedy *)
Theorem cc_original_partial :
  forall r s, cc_build_original r = Some s -> all_greedy r = true ->
  forall h at_, cc_search_at s h at_ = first_match h r at_.
Proof.
  intros r s Hb Hg h at_. unfold cc_build_original in Hb.
  destruct (cc_ranges_original r) as [rs|] eqn:Hr; [|discriminate]. inversion Hb; subst s; clear Hb.
  destruct r as [| | |g r0| | | | | | | | | | |]; try discriminate. destruct r0; try discriminate.
  cbn [cc_ranges_original] in Hr.
  match type of Hr with (if ?c then _ else _) = _ => destruct c eqn:Hall end; [|discriminate].
  destruct rs0 as [|p0 t0]; [discriminate|]. inversion Hr; subst rs; clear Hr.
  cbn [all_greedy] in Hg. apply andb_true_iff in Hg as [Hg _]. subst g.
  pose proof (tbl_ascii _ Hall) as Ht.
  rewrite (first_match_first h _ (cls_byte (p0 :: t0)) (fun s => s + scan_at (cls_byte (p0 :: t0)) h s))
    by apply bt_plus_greedy_class.
  unfold cc_search_at. cbn [cc_search_fuel cc_new cc_tbl cc_min].
  rewrite (find_first_ext _ _ _ Ht).
  destruct (Nat.leb_spec0 (length h) at_) as [Hge|Hlt].
  - rewrite skipn_all2 by lia. reflexivity.
  - destruct (find_first (cls_byte (p0 :: t0)) (skipn at_ h)) as [i|] eqn:Hi; [|reflexivity].
    apply find_first_some in Hi as (b & Hnb & Hfb). rewrite nth_error_skipn' in Hnb.
    rewrite !(scan_at_ext _ _ h _ Ht).
    rewrite (scan_at_hit _ _ _ _ Hnb Hfb).
    destruct (Nat.ltb_spec0 (S (at_ + i) + scan_at (cls_byte (p0 :: t0)) h (S (at_ + i)) - (at_ + i)) 1); [lia|].
    f_equal. apply injective_projections; cbn [fst snd]; lia.
Qed.

(* IsMatch does not depend on greediness: exact on every accepted pattern. *)
Lemma bt_plus_lazy_class h rs s :
  bt h (Plus false (Class rs)) s =
  match nth_error h s with
  | Some b => if cls_byte rs b then Some (S s) else None
  | None => None end.
Proof.
  unfold bt. cbn [m]. unfold step1 at 1. destruct (nth_error h s) as [b|]; [|reflexivity].
  destruct (cls_byte rs b); reflexivity.
Qed.

Lemma cc_is_match_loop_1 t l n : cc_is_match_loop (mkCcs t 1) l n = isSome (find_first (tbl_get t) l).
Proof.
  revert n. induction l as [|b tl IH]; intros n; cbn [cc_is_match_loop find_first cc_tbl cc_min]; [reflexivity|].
  destruct (tbl_get t b); [reflexivity|]. rewrite IH. now destruct (find_first (tbl_get t) tl).
Qed.

Theorem cc_original_is_match_exact :
  forall r s, cc_build_original r = Some s -> forall h, cc_is_match s h = isSome (first_match h r 0).
Proof.
  intros r s Hb h. unfold cc_build_original in Hb.
  destruct (cc_ranges_original r) as [rs|] eqn:Hr; [|discriminate]. inversion Hb; subst s; clear Hb.
  destruct r as [| | |g r0| | | | | | | | | | |]; try discriminate. destruct r0; try discriminate.
  cbn [cc_ranges_original] in Hr.
  match type of Hr with (if ?c then _ else _) = _ => destruct c eqn:Hall end; [|discriminate].
  destruct rs0 as [|p0 t0]; [discriminate|]. inversion Hr; subst rs; clear Hr.
  pose proof (tbl_ascii _ Hall) as Ht.
  unfold cc_is_match, cc_new. rewrite cc_is_match_loop_1, (find_first_ext _ _ _ Ht).
  destruct g.
  - rewrite (first_match_first h _ (cls_byte (p0 :: t0)) (fun s => s + scan_at (cls_byte (p0 :: t0)) h s))
      by apply bt_plus_greedy_class.
    cbn [skipn]. now destruct (find_first (cls_byte (p0 :: t0)) h).
  - rewrite (first_match_first h _ (cls_byte (p0 :: t0)) S) by apply bt_plus_lazy_class.
    cbn [skipn]. now destruct (find_first (cls_byte (p0 :: t0)) h).
Qed.

(* ================================================================== D. CompositeSearcher *)

Definition ascii_ranges (rs : list (N * N)) : bool :=
  forallb (fun p => negb ((127 <? fst p)%N || (127 <? snd p)%N)) rs.

(* p_max = 0 means "unlimited": the Go code tests `part.maxMatch > 0`, so both re.Max = -1
   ({n,}) and re.Max = 0 ({0}, {0,0}) are treated as unlimited. *)
Record part := mkPart { p_tbl : list bool; p_min : nat; p_max : nat }.

(* nfa/composite.go:extractSinglePart *)
Definition comp_part_original (r : re) : option part :=
  let mk := fun (rs : list (N * N)) (mn mx : nat) =>
    if forallb (fun p => negb ((255 <? fst p)%N || (255 <? snd p)%N)) rs
    then Some (mkPart (mk_table (in_ranges rs)) mn mx) else None in
  match r with
  | Plus _ (Class rs) => mk rs 1 0
  | Star _ (Class rs) => mk rs 0 0
  | Quest _ (Class rs) => mk rs 0 1
  | Repeat _ mn mx (Class rs) => mk rs mn (match mx with Some x => x | None => 0 end)
  | Class rs => mk rs 1 1
  | _ => None
  end.

Fixpoint comp_parts_list_original (l : list re) : option (list part) :=
  match l with
  | [] => Some []
  | x :: t => match comp_part_original x with
              | None => None
              | Some p => match comp_parts_list_original t with None => None | Some ps => Some (p :: ps) end
              end
  end.

(* nfa/composite.go:extractCompositeCharClassParts / NewCompositeSearcher *)
Definition comp_build_original (r : re) : option (list part) :=
  match r with
  | Concat l => match comp_parts_list_original l with
                | Some ps => if length ps <? 2 then None else Some ps
                | None => None
                end
  | _ => None
  end.

(* nfa/composite.go:isValidCompositePart, IsCompositeCharClassPattern (does not look at the
   runes: a pattern it accepts may still make NewCompositeSearcher return nil, in which case
   meta/compile.go falls back to the bounded backtracker) *)
Definition is_valid_composite_part_original (r : re) : bool :=
  match r with
  | Plus _ (Class _) | Star _ (Class _) | Quest _ (Class _) | Repeat _ _ _ (Class _) | Class _ => true
  | _ => false
  end.
Definition is_composite_original (r : re) : bool :=
  match r with Concat l => (2 <=? length l) && forallb is_valid_composite_part_original l | _ => false end.

(* selected AND built: the searcher really runs *)
Definition comp_applicable_original (r : re) : bool := is_composite_original r && isSome (comp_build_original r).

(* nfa/composite.go:matchAtWithBacktrack — canConsume *)
Definition comp_can (p : part) (h : list N) (pos : nat) : nat :=
  let c := scan_at (tbl_get (p_tbl p)) h pos in
  if 0 <? p_max p then Nat.min c (p_max p) else c.

Fixpoint comp_match (h : list N) (ps : list part) (k : cont) : cont :=
  match ps with
  | [] => k
  | p :: t => fun pos => try_down (comp_match h t k) pos (p_min p) (comp_can p h pos)
  end.

(* nfa/composite.go:SearchAt — `for pos := at; pos <= n; pos++` *)
Fixpoint comp_loop (h : list N) (ps : list part) (n s : nat) : option (nat * nat) :=
  match n with
  | 0 => None
  | S n' => match comp_match h ps (fun e => Some e) s with
            | Some e => Some (s, e)
            | None => comp_loop h ps n' (S s)
            end
  end.
Definition comp_search_at (ps : list part) (h : list N) (at_ : nat) : option (nat * nat) :=
  comp_loop h ps (S (length h) - at_) at_.

(* lazy quantifier: `[a-z]+[0-9]+?` on "a12" *)
Theorem comp_original_refuted :
  exists r ps h at_, comp_applicable_original r = true /\ comp_build_original r = Some ps /\ comp_search_at ps h at_ <> first_match h r at_.
Proof.
  exists (Concat [Plus true (Class [(97, 122)%N]); Plus false (Class [(48, 57)%N])]).
  eexists. exists [97; 49; 50]%N, 0. split; [reflexivity|]. split; [reflexivity|]. vm_compute. discriminate.
Qed.

(* `[a-z]{0}[0-9]+` on "ab1": all greedy, ASCII; max = 0 is read as "unlimited" *)
Theorem comp_original_repeat0_refuted :
  exists r ps h at_, comp_applicable_original r = true /\ all_greedy r = true /\ comp_build_original r = Some ps /\
                     comp_search_at ps h at_ <> first_match h r at_.
Proof.
  exists (Concat [Repeat true 0 (Some 0) (Class [(97, 122)%N]); Plus true (Class [(48, 57)%N])]).
  eexists. exists [97; 98; 49]%N, 0. split; [reflexivity|]. split; [reflexivity|]. split; [reflexivity|].
  vm_compute. discriminate.
Qed.

(* `[à-ÿ]+[0-9]+` on the bytes E0 31: runes 128..255 are used as byte values *)
Theorem comp_original_latin1_refuted :
  exists r ps h at_, comp_applicable_original r = true /\ all_greedy r = true /\ comp_build_original r = Some ps /\
                     comp_search_at ps h at_ <> first_match h r at_.
Proof.
  exists (Concat [Plus true (Class [(224, 255)%N]); Plus true (Class [(48, 57)%N])]).
  eexists. exists [224; 49]%N, 0. split; [reflexivity|]. split; [reflexivity|]. split; [reflexivity|].
  vm_compute. discriminate.
Qed.

(* the guard under which the composite searcher is exact: greedy quantifiers, ASCII classes,
   {n,m} with 0 < m and n <= m *)
Definition comp_guard_part (r : re) : bool :=
  match r with
  | Plus true (Class rs) | Star true (Class rs) | Quest true (Class rs) | Class rs => ascii_ranges rs
  | Repeat true mn mx (Class rs) =>
      ascii_ranges rs && match mx with None => true | Some x => (0 <? x) && (mn <=? x) end
  | _ => false
  end.
Definition comp_guard (r : re) : bool :=
  match r with Concat l => forallb comp_guard_part l | _ => false end.

Lemma comp_part_original_sem h r p :
  comp_part_original r = Some p -> comp_guard_part r = true ->
  forall k pos, m h r k pos = try_down k pos (p_min p) (comp_can p h pos).
Proof.
  intros Hp Hg k pos.
  assert (Hmk : forall rs mn mx,
    (if forallb (fun p => negb ((255 <? fst p)%N || (255 <? snd p)%N)) rs
     then Some (mkPart (mk_table (in_ranges rs)) mn mx) else None) = Some p ->
    ascii_ranges rs = true ->
    p_min p = mn /\ p_max p = mx /\ (forall q, scan_at (tbl_get (p_tbl p)) h q = scan_at (cls_byte rs) h q)).
  { intros rs mn mx H Ha. destruct (forallb _ rs); [|discriminate]. inversion H; subst p; cbn.
    repeat split. intros q. apply scan_at_ext. now apply tbl_ascii. }
  destruct r as [| rs | g r0 | g r0 | g r0 | g mn mx r0 | | | | | | | | |]; try discriminate.
  - (* bare class *)
    cbn [comp_part_original] in Hp. cbn [comp_guard_part] in Hg. destruct (Hmk _ _ _ Hp Hg) as (Hmin & Hmax & Hs).
    unfold comp_can. rewrite Hmin, Hmax, Hs. cbn [m Nat.ltb Nat.leb].
    unfold step1. destruct (nth_error h pos) as [b|] eqn:Hb.
    + destruct (cls_byte rs b) eqn:Hf.
      * rewrite (scan_at_hit _ _ _ _ Hb Hf). cbn [Nat.min]. rewrite try_down_SS.
        rewrite Nat.min_0_r. now rewrite try_down_0_0.
      * rewrite (scan_at_miss _ _ _ _ Hb Hf). cbn [Nat.min]. now rewrite try_down_lt by lia.
    + rewrite (scan_at_end _ _ _ Hb). cbn [Nat.min]. now rewrite try_down_lt by lia.
  - (* star *)
    destruct r0; try discriminate. destruct g; try discriminate.
    cbn [comp_part_original] in Hp. cbn [comp_guard_part] in Hg. destruct (Hmk _ _ _ Hp Hg) as (Hmin & Hmax & Hs).
    unfold comp_can. rewrite Hmin, Hmax, Hs. cbn [m Nat.ltb Nat.leb].
    apply star_greedy, fuel0_enough.
  - (* plus *)
    destruct r0; try discriminate. destruct g; try discriminate.
    cbn [comp_part_original] in Hp. cbn [comp_guard_part] in Hg. destruct (Hmk _ _ _ Hp Hg) as (Hmin & Hmax & Hs).
    unfold comp_can. rewrite Hmin, Hmax, Hs. cbn [m Nat.ltb Nat.leb].
    apply plus_greedy.
  - (* quest *)
    destruct r0; try discriminate. destruct g; try discriminate.
    cbn [comp_part_original] in Hp. cbn [comp_guard_part] in Hg. destruct (Hmk _ _ _ Hp Hg) as (Hmin & Hmax & Hs).
    unfold comp_can. rewrite Hmin, Hmax, Hs. cbn [m Nat.ltb Nat.leb].
    apply rep_opt_greedy.
  - (* repeat *)
    destruct r0; try discriminate. destruct g; try discriminate.
    cbn [comp_part_original] in Hp. cbn [comp_guard_part] in Hg. apply andb_true_iff in Hg as [Ha Hx].
    destruct (Hmk _ _ _ Hp Ha) as (Hmin & Hmax & Hs).
    unfold comp_can. rewrite Hmin, Hmax, Hs. cbn [m]. rewrite rep_min_class.
    set (sc := scan_at (cls_byte rs) h pos).
    destruct mx as [x|].
    + apply andb_true_iff in Hx as [Hx0 Hxm].
      destruct (Nat.ltb_spec0 0 x) as [_|]; [|lia].
      destruct (Nat.leb_spec0 mn sc) as [Hle|Hgt].
      * rewrite rep_opt_greedy. rewrite scan_at_add by exact Hle. fold sc.
        rewrite try_down_shift. f_equal. lia.
      * rewrite try_down_lt by lia. reflexivity.
    + cbn [Nat.ltb Nat.leb].
      destruct (Nat.leb_spec0 mn sc) as [Hle|Hgt].
      * rewrite star_greedy by apply fuel0_enough. rewrite scan_at_add by exact Hle. fold sc.
        rewrite try_down_shift. f_equal. lia.
      * rewrite try_down_lt by lia. reflexivity.
Qed.

Lemma comp_concat_original_sem h : forall l ps,
  comp_parts_list_original l = Some ps -> forallb comp_guard_part l = true ->
  forall k pos, m_concat h l k pos = comp_match h ps k pos.
Proof.
  induction l as [|x t IH]; intros ps Hps Hg k pos.
  - inversion Hps; subst. reflexivity.
  - cbn [comp_parts_list_original] in Hps. destruct (comp_part_original x) as [p|] eqn:Hp; [|discriminate].
    destruct (comp_parts_list_original t) as [pt|] eqn:Hpt; [|discriminate]. inversion Hps; subst ps; clear Hps.
    cbn [forallb] in Hg. apply andb_true_iff in Hg as [Hgx Hgt].
    cbn [m_concat comp_match]. rewrite (comp_part_original_sem h x p Hp Hgx).
    apply try_down_ext. intros q. now apply IH.
Qed.

Lemma find_from_loop h r ps :
  (forall s, bt h r s = comp_match h ps (fun e => Some e) s) ->
  forall n s, find_from h r n s = comp_loop h ps n s.
Proof.
  intros H. induction n as [|n IH]; intros s; cbn [find_from comp_loop]; [reflexivity|].
  rewrite H. destruct (comp_match h ps (fun e => Some e) s); [reflexivity|apply IH].
Qed.

Theorem comp_original_partial :
  forall r ps, comp_build_original r = Some ps -> comp_guard r = true ->
  forall h at_, comp_search_at ps h at_ = first_match h r at_.
Proof.
  intros r ps Hb Hg h at_. destruct r; try discriminate. cbn [comp_build_original] in Hb. cbn [comp_guard] in Hg.
  destruct (comp_parts_list_original l) as [ps'|] eqn:Hl; [|discriminate].
  destruct (length ps' <? 2); [discriminate|]. inversion Hb; subst ps'; clear Hb.
  unfold comp_search_at, first_match. symmetry. apply find_from_loop.
  intros s. unfold bt. rewrite m_Concat. now apply comp_concat_original_sem.
Qed.

(* ------------------------------------------------------------------ D'. CompositeSequenceDFA *)

(* nfa/composite_dfa.go.  A DFA state is a set of configurations (part, metMin); every part has
   minMatch = 1 and no maximum (IsCompositeSequenceDFAPattern), so metMin is always true and a
   state is the set of active parts.  The table built by buildDFASubsetConstruction is the
   memoisation of computeNextConfigs over byte classes; the model applies computeNextConfigs to
   the byte directly (bytes of one class have the same memberships). *)
Definition cdfa_applicable_original (r : re) : bool :=
  match comp_build_original r with
  | Some ps => (length ps <=? 8) && forallb (fun p => negb (p_min p =? 0) && (p_max p =? 0)) ps
  | None => false
  end.

(* computeNextConfigs: part i is active after byte b iff b is in part i and part i or part i-1
   was active *)
Fixpoint cdfa_step (ps : list part) (prev : bool) (cfg : list bool) (b : N) : list bool :=
  match ps, cfg with
  | p :: pt, c :: ct => (tbl_get (p_tbl p) b && (c || prev)) :: cdfa_step pt c ct b
  | _, _ => []
  end.
Definition cdfa_dead (cfg : list bool) : bool := negb (existsb (fun x => x) cfg).
Definition cdfa_accepting (cfg : list bool) : bool := last cfg false.
Definition cdfa_first (ps : list part) : list bool :=
  match ps with [] => [] | _ :: t => true :: map (fun _ => false) t end.

(* inner scan of SearchAt: returns (lastAcceptEnd, position of the dead byte or n) *)
Fixpoint cdfa_inner (ps : list part) (l : list N) (cfg : list bool) (pos : nat) (lastAcc : option nat)
  : option nat * nat :=
  match l with
  | [] => (lastAcc, pos)
  | b :: t => let nx := cdfa_step ps false cfg b in
              if cdfa_dead nx then (lastAcc, pos)
              else cdfa_inner ps t nx (S pos) (if cdfa_accepting nx then Some (S pos) else lastAcc)
  end.

(* outer loop of SearchAt: after a dead end without an accepting position the next start is the
   position of the dead byte (`start = pos - 1` followed by `start++`) *)
Fixpoint cdfa_outer_original (fuel : nat) (ps : list part) (h : list N) (start : nat) : option (nat * nat) :=
  match fuel with
  | 0 => None
  | S fu =>
      match nth_error h start with
      | None => None
      | Some b =>
          match ps with
          | [] => None
          | p0 :: _ =>
              if tbl_get (p_tbl p0) b then
                let cfg0 := cdfa_first ps in
                let '(lastAcc, stop) := cdfa_inner ps (skipn (S start) h) cfg0 (S start)
                                          (if cdfa_accepting cfg0 then Some (S start) else None) in
                match lastAcc with
                | Some e => Some (start, e)
                | None => cdfa_outer_original fu ps h stop
                end
              else cdfa_outer_original fu ps h (S start)
          end
      end
  end.
Definition cdfa_search_at_original (ps : list part) (h : list N) (at_ : nat) : option (nat * nat) :=
  cdfa_outer_original (S (length h)) ps h at_.

(* `[ax]+[by]+[ax]+[cz]+` on "abaabac": greedy, ASCII, inside every documented restriction.  The
   attempt from 0 dies at byte 4; starts 1..3 are skipped, but the match starts at 2. *)
Theorem cdfa_original_refuted :
  exists r ps h at_, cdfa_applicable_original r = true /\ comp_guard r = true /\ comp_build_original r = Some ps /\
                     cdfa_search_at_original ps h at_ <> first_match h r at_.
Proof.
  exists (Concat [Plus true (Class [(97,97);(120,120)]%N); Plus true (Class [(98,98);(121,121)]%N);
                  Plus true (Class [(97,97);(120,120)]%N); Plus true (Class [(99,99);(122,122)]%N)]).
  eexists. exists [97;98;97;97;98;97;99]%N, 0.
  split; [reflexivity|]. split; [reflexivity|]. split; [reflexivity|]. vm_compute. discriminate.
Qed.

(* ================================================================== E. first bytes, BranchDispatcher *)

Definition bytes256 : list N := map N.of_nat (seq 0 256).
Definition bset := N -> bool.
Definition bset_nonempty (fs : bset) : bool := existsb fs bytes256.          (* FirstByteSet.count > 0 *)

Definition is_begin (r : re) : bool := match r with BeginLine | BeginText => true | _ => false end.
Definition utf8_lead (r : N) : N := hd 0%N (utf8_encode r).

(* first bytes contributed by one class range (nfa/firstbytes.go, case OpCharClass): a range
   that reaches beyond ASCII contributes every byte >= 0x80 plus its ASCII part *)
Definition class_first (rs : list (N * N)) (b : N) : bool :=
  existsb (fun p => if (128 <=? snd p)%N
                    then ((128 <=? b)%N && (b <? 256)%N) || ((fst p <? 128)%N && (fst p <=? b)%N && (b <=? 127)%N)
                    else (fst p <=? b)%N && (b <=? snd p)%N) rs.

(* nfa/firstbytes.go:extractFirstBytesRecursive.  [acc] is the FirstByteSet accumulated so far
   (the Go code mutates one set); None = "return false" (ExtractFirstBytes returns nil).  The
   `complete` flag is only ever cleared on paths that return false, so a non-nil result is
   always complete. *)
Fixpoint fb_original (depth : nat) (r : re) (acc : bset) {struct r} : option bset :=
  if 20 <? depth then None else
  match r with
  | Lit fold rs => match rs with
                   | [] => None
                   | r0 :: _ => if fold then None else Some (fun b => acc b || (b =? utf8_lead r0)%N)
                   end
  | Class rs => let acc' := fun b => acc b || class_first rs b in
                if bset_nonempty acc' then Some acc' else None
  | AnyNotNL => Some (fun b => acc b || ((b <? 256)%N && negb (b =? 10)%N))
  | AnyChar => Some (fun b => acc b || (b <? 256)%N)
  | BeginLine | BeginText | EndLine | EndText => Some acc
  | Capture x => fb_original (S depth) x acc
  | Concat l => (fix go (l : list re) : option bset :=
                   match l with
                   | [] => None
                   | x :: t => if is_begin x then go t else fb_original (S depth) x acc
                   end) l
  | Alt l => (fix go (l : list re) (acc : bset) : option bset :=
                match l with
                | [] => Some acc
                | x :: t => match fb_original (S depth) x acc with None => None | Some a => go t a end
                end) l acc
  | Star _ _ | Quest _ _ => None
  | Plus _ x => fb_original (S depth) x acc
  | Repeat _ mn _ x => if mn =? 0 then None else fb_original (S depth) x acc
  end.

(* nfa/firstbytes.go:ExtractFirstBytes *)
Definition first_bytes_original (r : re) : option bset := fb_original 0 r (fun _ => false).

(* meta/find_indices.go:743, meta/ismatch.go:201 — the rejection filter: on a non-empty
   haystack whose first byte is outside the set the search reports "no match" *)
Definition fb_filter_rejects (fs : bset) (h : list N) : bool :=
  match h with [] => false | b :: _ => negb (fs b) end.

(* `(?:^|x)a` on "a": the alternation contributes {x} only, the anchor branch contributes
   nothing, and the concatenation stops at its first non-anchor element. *)
Theorem first_bytes_original_refuted :
  exists r fs h e, first_bytes_original r = Some fs /\ bt h r 0 = Some e /\ e > 0 /\ fb_filter_rejects fs h = true.
Proof.
  exists (Concat [Alt [BeginText; Lit false [120%N]]; Lit false [97%N]]).
  eexists. exists [97%N], 1. split; [reflexivity|]. split; [reflexivity|]. split; [lia|]. reflexivity.
Qed.

Record bmatcher := mkBM { bm_lit : list N; bm_tbl : list bool; bm_min : nat; bm_has : bool }.
Definition bm_zero : bmatcher := mkBM [] (mk_table (fun _ => false)) 0 false.

(* byte(r) for r <= 255; at the first r > 255 the Go code returns with the remaining (already
   allocated) bytes still zero *)
Fixpoint lit_conv (rs : list N) : list N :=
  match rs with
  | [] => []
  | r :: t => if (255 <? r)%N then repeat 0%N (length rs) else r :: lit_conv t
  end.

Definition clip_tbl (rs : list (N * N)) : list bool :=
  mk_table (fun b => existsb (fun p => negb (255 <? fst p)%N && (fst p <=? b)%N && (b <=? N.min (snd p) 255)%N) rs).

(* nfa/branch_dispatch.go:buildBranchMatcher *)
Definition build_matcher (r : re) : bmatcher :=
  let r := match r with Capture x => x | _ => r end in
  match r with
  | Lit _ rs => mkBM (lit_conv rs) (mk_table (fun _ => false)) 0 false
  | Plus _ (Class rs) => mkBM [] (clip_tbl rs) 1 true
  | Star _ (Class rs) => mkBM [] (clip_tbl rs) 0 true
  | Concat (Lit _ rs :: _) =>
      if existsb (fun x => (255 <? x)%N) rs then bm_zero
      else mkBM rs (mk_table (fun _ => false)) 0 false          (* the rest of the concatenation is dropped *)
  | _ => bm_zero
  end.

Record bdisp := mkBD { bd_dispatch : list Z; bd_matchers : list bmatcher; bd_empty : bool }.

(* the loop over the branches of NewBranchDispatcher; [disp] is the dispatch table so far *)
Fixpoint bd_loop_original (i : nat) (bs : list re) (disp : N -> option nat)
  : option ((N -> option nat) * list bmatcher * bool) :=
  match bs with
  | [] => Some (disp, [], false)
  | x :: t =>
      match first_bytes_original x with
      | None => None
      | Some fs =>
          if negb (bset_nonempty fs) then
            match bd_loop_original (Datatypes.S i) t disp with
            | Some (d, ms, _) => Some (d, bm_zero :: ms, true)
            | None => None
            end
          else if existsb (fun b => fs b && isSome (disp b)) bytes256 then None
          else match bd_loop_original (Datatypes.S i) t (fun b => if fs b && (b <? 256)%N then Some i else disp b) with
               | Some (d, ms, e) => Some (d, build_matcher x :: ms, e)
               | None => None
               end
      end
  end.

(* nfa/branch_dispatch.go:NewBranchDispatcher *)
Definition bd_new_original (r : re) : option bdisp :=
  let inner := match r with Capture x => x | _ => r end in
  match inner with
  | Alt bs =>
      if (length bs <? 2) || (127 <? length bs) then None else
      match bd_loop_original 0 bs (fun _ => None) with
      | Some (d, ms, e) =>
          Some (mkBD (map (fun b => match d b with Some j => Z.of_nat j | None => (-1)%Z end) bytes256) ms e)
      | None => None
      end
  | _ => None
  end.

Definition is_alt_or_cap_alt (r : re) : bool :=
  match r with Alt _ => true | Capture (Alt _) => true | _ => false end.

(* nfa/branch_dispatch.go:IsBranchDispatchPattern *)
Definition bd_applicable_original (r : re) : bool :=
  match r with
  | Concat (a :: rest) =>
      (1 <=? length rest) && is_begin a &&
      match find is_alt_or_cap_alt rest with
      | Some sub => isSome (bd_new_original sub)
      | None => false
      end
  | _ => false
  end.

(* meta/compile.go:buildCharClassSearchers, strategy == UseBranchDispatch: the first element
   after the anchor that is an alternation or ANY capture *)
Definition bd_build_original (r : re) : option bdisp :=
  match r with
  | Concat (a :: rest) =>
      match find (fun x => match x with Alt _ | Capture _ => true | _ => false end) rest with
      | Some sub => bd_new_original sub
      | None => bd_new_original r
      end
  | _ => bd_new_original r
  end.

Fixpoint prefix_eqb (p l : list N) : bool :=
  match p, l with
  | [], _ => true
  | a :: p', b :: l' => (a =? b)%N && prefix_eqb p' l'
  | _ :: _, [] => false
  end.

(* nfa/branch_dispatch.go:Search *)
Definition bd_search (d : bdisp) (h : list N) : option (nat * nat) :=
  match h with
  | [] => if bd_empty d then Some (0, 0) else None
  | b0 :: _ =>
      let idx := nth (N.to_nat b0) (bd_dispatch d) (-1)%Z in
      if (idx <? 0)%Z then None else
      let mt := nth (Z.to_nat idx) (bd_matchers d) bm_zero in
      if 0 <? length (bm_lit mt) then
        (if length h <? length (bm_lit mt) then None
         else if prefix_eqb (bm_lit mt) h then Some (0, length (bm_lit mt)) else None)
      else if bm_has mt then
        (let count := scan (tbl_get (bm_tbl mt)) h in
         if bm_min mt <=? count then Some (0, count) else None)
      else Some (0, 1)
  end.

(* meta/find_indices.go:findIndicesBranchDispatchAt *)
Definition bd_search_at (d : bdisp) (h : list N) (at_ : nat) : option (nat * nat) :=
  if at_ =? 0 then bd_search d h else None.

(* `^(abc|\d+)x` on "abcy": what follows the dispatched alternation is ignored *)
Theorem bd_original_refuted :
  exists r d h at_, bd_applicable_original r = true /\ all_greedy r = true /\ bd_build_original r = Some d /\
                    bd_search_at d h at_ <> first_match h r at_.
Proof.
  exists (Concat [BeginText; Capture (Alt [Lit false [97;98;99]%N; Plus true (Class [(48,57)%N])]); Lit false [120%N]]).
  eexists. exists [97;98;99;121]%N, 0.
  split; [reflexivity|]. split; [reflexivity|]. split; [reflexivity|]. vm_compute. discriminate.
Qed.

(* `^(a+|b)` on "aaa": a branch that is neither a literal nor class+ gets the "conservative"
   fallback (0, 1) *)
Theorem bd_original_fallback_refuted :
  exists r d h at_, bd_applicable_original r = true /\ all_greedy r = true /\ bd_build_original r = Some d /\
                    bd_search_at d h at_ <> first_match h r at_.
Proof.
  exists (Concat [BeginText; Capture (Alt [Plus true (Lit false [97%N]); Lit false [98%N]])]).
  eexists. exists [97;97;97]%N, 0.
  split; [reflexivity|]. split; [reflexivity|]. split; [reflexivity|]. vm_compute. discriminate.
Qed.

(* `^(abc|\d+?)` on "12": lazy quantifier inside a branch *)
Theorem bd_original_lazy_refuted :
  exists r d h at_, bd_applicable_original r = true /\ bd_build_original r = Some d /\ bd_search_at d h at_ <> first_match h r at_.
Proof.
  exists (Concat [BeginText; Capture (Alt [Lit false [97;98;99]%N; Plus false (Class [(48,57)%N])])]).
  eexists. exists [49;50]%N, 0.
  split; [reflexivity|]. split; [reflexivity|]. vm_compute. discriminate.
Qed.

(* `^(?:a|^)b` on "b": a branch that can match empty makes non-empty haystacks fail *)
Theorem bd_original_empty_branch_refuted :
  exists r d h at_, bd_applicable_original r = true /\ all_greedy r = true /\ bd_build_original r = Some d /\
                    bd_search_at d h at_ <> first_match h r at_.
Proof.
  exists (Concat [BeginText; Alt [Lit false [97%N]; BeginText]; Lit false [98%N]]).
  eexists. exists [98]%N, 0.
  split; [reflexivity|]. split; [reflexivity|]. split; [reflexivity|]. vm_compute. discriminate.
Qed.

(* ================================================================== F. anchored literal *)

Record alinfo := mkAL { al_prefix : list N; al_suffix : list N; al_tbl : option (list bool);
                        al_ccmin : nat; al_wmin : nat; al_minlen : nat }.

(* meta/anchored_literal.go:extractLiteral — runes <= 255 are copied as BYTES (so U+00E9 becomes
   E9, not C3 A9), larger runes are UTF-8 encoded; Flags (FoldCase) are not consulted.
   Lit _ [] stands for OpEmptyMatch, which is not an OpLiteral. *)
Definition extract_literal_original (r : re) : option (list N) :=
  match r with
  | Lit _ [] => None
  | Lit _ rs => Some (flat_map (fun x => if (255 <? x)%N then utf8_encode x else [x]) rs)
  | _ => None
  end.

(* isGreedyWildcard: OpStar/OpPlus of OpAnyChar/OpAnyCharNotNL (NonGreedy flag not consulted) *)
Definition is_wildcard (r : re) : bool :=
  match r with Star _ AnyChar | Star _ AnyNotNL | Plus _ AnyChar | Plus _ AnyNotNL => true | _ => false end.
Definition wildcard_min (r : re) : nat := match r with Plus _ _ => 1 | _ => 0 end.
Definition is_class_plus (r : re) : bool := match r with Plus _ (Class _) => true | _ => false end.
Definition is_end_anchor (r : re) : bool := match r with EndText | EndLine => true | _ => false end.

(* the scan `for i := 1; i < suffixIdx; i++` of DetectAnchoredLiteral; [lastp] tells whether the
   current element is the one right before the suffix *)
Fixpoint al_scan_original (mid : list re) (prefix : list N) (wild : option nat) (tbl : option (list bool))
  : option (list N * nat * option (list bool)) :=
  match mid with
  | [] => match wild with Some w => Some (prefix, w, tbl) | None => None end
  | x :: t =>
      if is_wildcard x then
        match wild with Some _ => None | None => al_scan_original t prefix (Some (wildcard_min x)) tbl end
      else match wild with
           | None => match extract_literal_original x with
                     | Some lit => al_scan_original t (prefix ++ lit) wild tbl
                     | None => None
                     end
           | Some _ =>
               match x, t with
               | Plus _ (Class rs), [] => al_scan_original t prefix wild (Some (clip_tbl rs))
               | _, _ => None
               end
           end
  end.

(* meta/anchored_literal.go:DetectAnchoredLiteral *)
Definition al_detect_original (r : re) : option alinfo :=
  match r with
  | Concat (a :: rest) =>
      if (length rest <? 2) || negb (is_begin a) then None else
      let z := last rest EndText in
      let body := removelast rest in
      let sfx := last body EndText in
      let mid := removelast body in
      if negb (is_end_anchor z) then None else
      match extract_literal_original sfx with
      | None => None
      | Some suffix =>
          match al_scan_original mid [] None None with
          | None => None
          | Some (prefix, w, tbl) =>
              let ccmin := match tbl with Some _ => 1 | None => 0 end in
              Some (mkAL prefix suffix tbl ccmin w (length prefix + w + ccmin + length suffix))
          end
      end
  | _ => None
  end.

Definition al_applicable_original (r : re) : bool := isSome (al_detect_original r).

(* meta/anchored_literal.go:MatchAnchoredLiteral *)
Definition al_match (a : alinfo) (h : list N) : bool :=
  if length h <? al_minlen a then false else
  if negb (prefix_eqb (al_prefix a) h) then false else
  let suffixStart := length h - length (al_suffix a) in
  if negb (prefix_eqb (al_suffix a) (skipn suffixStart h)) then false else
  match al_tbl a with
  | None => al_wmin a <=? suffixStart - length (al_prefix a)
  | Some t =>
      let ccStart := length (al_prefix a) + al_wmin a in
      let window := firstn (suffixStart - ccStart) (skipn ccStart h) in
      al_ccmin a <=? scan (tbl_get t) (rev window)
  end.

(* meta/find_indices.go:findIndicesAnchoredLiteralAt *)
Definition al_search_at (a : alinfo) (h : list N) (at_ : nat) : option (nat * nat) :=
  if (at_ =? 0) && al_match a h then Some (0, length h) else None.

(* `^.*z$` on "\nz": the wildcard is taken to match anything, but `.` stops at a newline *)
Theorem al_original_refuted :
  exists r a h at_, al_applicable_original r = true /\ all_greedy r = true /\ al_detect_original r = Some a /\
                    al_search_at a h at_ <> first_match h r at_.
Proof.
  exists (Concat [BeginText; Star true AnyNotNL; Lit false [122%N]; EndText]).
  eexists. exists [10; 122]%N, 0.
  split; [reflexivity|]. split; [reflexivity|]. split; [reflexivity|]. vm_compute. discriminate.
Qed.

(* `^(?s:.)*é$` on "é" (C3 A9): the suffix is taken to be the single byte E9 *)
Theorem al_original_latin1_refuted :
  exists r a h at_, al_applicable_original r = true /\ all_greedy r = true /\ al_detect_original r = Some a /\
                    al_search_at a h at_ <> first_match h r at_.
Proof.
  exists (Concat [BeginText; Star true AnyChar; Lit false [233%N]; EndText]).
  eexists. exists [195; 169]%N, 0.
  split; [reflexivity|]. split; [reflexivity|]. split; [reflexivity|]. vm_compute. discriminate.
Qed.

(* `(?is)^.*z$` on "Z": FoldCase of the literal is ignored *)
Theorem al_original_fold_refuted :
  exists r a h at_, al_applicable_original r = true /\ all_greedy r = true /\ al_detect_original r = Some a /\
                    al_search_at a h at_ <> first_match h r at_.
Proof.
  exists (Concat [BeginText; Star true AnyChar; Lit true [122%N]; EndText]).
  eexists. exists [90]%N, 0.
  split; [reflexivity|]. split; [reflexivity|]. split; [reflexivity|]. vm_compute. discriminate.
Qed.

(* ================================================================== G. digit-run skipping *)

(* meta/strategy.go:isDigitOnlyClass *)
Definition is_digit_only_class (rs : list (N * N)) : bool :=
  negb (length rs =? 0) && forallb (fun p => (48 <=? fst p)%N && (snd p <=? 57)%N) rs.

(* meta/strategy.go:isDigitRunSkipSafe *)
Fixpoint digit_run_skip_safe_original (r : re) : bool :=
  match r with
  | Concat l => match l with [] => false | x :: _ => digit_run_skip_safe_original x end
  | Capture x => digit_run_skip_safe_original x
  | Plus _ (Class rs) | Star _ (Class rs) => is_digit_only_class rs
  | Repeat _ _ None (Class rs) => is_digit_only_class rs
  | _ => false
  end.

Definition is_digit (b : N) : bool := (48 <=? b)%N && (b <=? 57)%N.

(* the claim in the comment of isDigitRunSkipSafe, as used by findIndicesDigitPrefilter: when
   the anchored attempt at a digit position i fails, the attempts at the later positions of the
   same digit run fail too *)
Definition digit_skip_claim (r : re) : Prop :=
  forall h i j, i <= j ->
    (forall p, i <= p -> p <= j -> exists b, nth_error h p = Some b /\ is_digit b = true) ->
    bt h r i = None -> bt h r j = None.

(* `[0-5]+\.` on "61.": the class is digit-ONLY, not "every digit"; 6 belongs to the run that is
   skipped but not to the class *)
Theorem digit_skip_original_refuted : exists r, digit_run_skip_safe_original r = true /\ all_greedy r = true /\ ~ digit_skip_claim r.
Proof.
  exists (Concat [Plus true (Class [(48, 53)%N]); Lit false [46%N]]).
  split; [reflexivity|]. split; [reflexivity|]. intros H.
  specialize (H [54; 49; 46]%N 0 1 (Nat.le_0_l _)).
  assert (Hrun : forall p, 0 <= p -> p <= 1 -> exists b, nth_error [54; 49; 46]%N p = Some b /\ is_digit b = true).
  { intros p _ Hp. destruct p as [|[|p]]; [eexists; split; reflexivity..|lia]. }
  specialize (H Hrun eq_refl). vm_compute in H. discriminate.
Qed.

(* meta/find_indices.go:findIndicesDigitPrefilterAt over an oracle for the anchored DFA
   (`anch s` = end of the match starting exactly at s): next digit, anchored attempt, on failure
   step one byte or — digitRunSkipSafe — to the end of the digit run. *)
Fixpoint dp_loop (fuel : nat) (anch : nat -> option nat) (skip : bool) (h : list N) (pos : nat) : option (nat * nat) :=
  match fuel with
  | 0 => None
  | S fu =>
      if length h <=? pos then None else
      match find_first is_digit (skipn pos h) with
      | None => None
      | Some i =>
          let d := pos + i in
          match anch d with
          | Some e => Some (d, e)
          | None => dp_loop fu anch skip h (if skip then S d + scan_at is_digit h (S d) else S d)
          end
      end
  end.
Definition dp_search_at_original (r : re) (h : list N) (at_ : nat) : option (nat * nat) :=
  dp_loop (S (length h)) (bt h r) (digit_run_skip_safe_original r) h at_.

(* even with an exact anchored engine the loop misses `[0-5]+\.` on "61." *)
Theorem dp_original_refuted :
  exists r h at_, digit_run_skip_safe_original r = true /\ all_greedy r = true /\ dp_search_at_original r h at_ <> first_match h r at_.
Proof.
  exists (Concat [Plus true (Class [(48, 53)%N]); Lit false [46%N]]), [54; 49; 46]%N, 0.
  split; [reflexivity|]. split; [reflexivity|]. vm_compute. discriminate.
Qed.

(* ------------------------------------------------------------------ G'. the claim, repaired *)

(* the class isDigitRunSkipSafe's walk ends in *)
Fixpoint lead_class (r : re) : option (list (N * N)) :=
  match r with
  | Concat l => match l with [] => None | x :: _ => lead_class x end
  | Capture x => lead_class x
  | Plus _ (Class rs) | Star _ (Class rs) => Some rs
  | Repeat _ _ None (Class rs) => Some rs
  | _ => None
  end.

Lemma orelse_isSome a b : isSome (orelse a b) = isSome a || isSome b.
Proof. destruct a, b; reflexivity. Qed.
Lemma either_isSome (g : bool) a b : isSome (if g then orelse a b else orelse b a) = isSome a || isSome b.
Proof. destruct g, a, b; reflexivity. Qed.

Section StarOk.
  Variable h : list N.
  Variable f : N -> bool.

  (* existence of a match does not depend on greediness *)
  Lemma star_ok_intro g K : forall n fuel pos,
    n <= scan_at f h pos -> scan_at f h pos < fuel -> isSome (K (pos + n)) = true ->
    isSome (star_loop fuel g (step1 h f) K pos) = true.
  Proof.
    induction n as [|n IH]; intros fuel pos Hn Hf HK; (destruct fuel as [|fu]; [lia|]); cbn [star_loop]; cbv zeta.
    - rewrite Nat.add_0_r in HK. rewrite either_isSome, HK. apply orb_true_r.
    - destruct (nth_error h pos) as [b|] eqn:Hb.
      + destruct (f b) eqn:Hfb.
        * rewrite (scan_at_hit _ _ _ _ Hb Hfb) in Hn, Hf.
          rewrite either_isSome.
          unfold step1 at 1. rewrite Hb, Hfb.
          destruct (Nat.ltb_spec0 pos (S pos)) as [_|]; [|lia].
          assert (Hi : isSome (star_loop fu g (step1 h f) K (S pos)) = true).
          { apply (IH fu (S pos)); try lia. now replace (S pos + n) with (pos + S n) by lia. }
          rewrite Hi. reflexivity.
        * rewrite (scan_at_miss _ _ _ _ Hb Hfb) in Hn. lia.
      + rewrite (scan_at_end _ _ _ Hb) in Hn. lia.
  Qed.

  Lemma star_ok_elim g K : forall fuel pos,
    isSome (star_loop fuel g (step1 h f) K pos) = true ->
    exists n, n <= scan_at f h pos /\ isSome (K (pos + n)) = true.
  Proof.
    induction fuel as [|fu IH]; intros pos H.
    - cbn [star_loop] in H. exists 0. split; [lia|]. now rewrite Nat.add_0_r.
    - cbn [star_loop] in H; cbv zeta in H.
      assert (H' : isSome (step1 h f (fun p => if pos <? p then star_loop fu g (step1 h f) K p else None) pos) = true
                   \/ isSome (K pos) = true).
      { rewrite either_isSome in H. apply orb_true_iff in H. exact H. }
      destruct H' as [Hi|Hk].
      + unfold step1 at 1 in Hi. destruct (nth_error h pos) as [b|] eqn:Hb; [|discriminate].
        destruct (f b) eqn:Hfb; [|discriminate].
        destruct (Nat.ltb_spec0 pos (S pos)) as [_|]; [|lia].
        apply IH in Hi as (n & Hn & HK). exists (S n). rewrite (scan_at_hit _ _ _ _ Hb Hfb).
        split; [lia|]. now replace (pos + S n) with (S pos + n) by lia.
      + exists 0. split; [lia|]. now rewrite Nat.add_0_r.
  Qed.

  Lemma scan_at_run : forall d a b, b - a = d -> a <= b ->
    (forall p, a <= p -> p < b -> exists x, nth_error h p = Some x /\ f x = true) ->
    scan_at f h a = (b - a) + scan_at f h b.
  Proof.
    induction d as [|d IH]; intros a b Hd Hab Hrun.
    - replace b with a by lia. lia.
    - destruct (Hrun a) as (x & Hx & Hfx); try lia.
      rewrite (scan_at_hit _ _ _ _ Hx Hfx). rewrite (IH (S a) b); try lia.
      intros p Hp1 Hp2. apply Hrun; lia.
  Qed.
End StarOk.

Lemma skip_gen : forall r rs,
  digit_run_skip_safe_original r = true -> lead_class r = Some rs -> (forall b, cls_byte rs b = is_digit b) ->
  forall h k i j, i <= j ->
    (forall p, i <= p -> p < j -> exists b, nth_error h p = Some b /\ is_digit b = true) ->
    isSome (m h r k j) = true -> isSome (m h r k i) = true.
Proof.
  induction r using re_ind2; intros rs0 Hs Hl Hd h k i j Hij Hrun Hj; cbn [digit_run_skip_safe_original] in Hs; try discriminate.
  - (* Star *)
    destruct r; try discriminate. cbn [lead_class] in Hl. inversion Hl; subst rs0; clear Hl.
    cbn [m] in *. apply star_ok_elim in Hj as (n & Hn & HK).
    assert (Hr : scan_at (cls_byte rs) h i = (j - i) + scan_at (cls_byte rs) h j).
    { apply (scan_at_run h (cls_byte rs) (j - i)); try lia. intros p Hp1 Hp2.
      destruct (Hrun p Hp1 Hp2) as (b & Hb & Hdb). exists b. now rewrite Hd. }
    apply (star_ok_intro h (cls_byte rs) g k (j - i + n)); try lia.
    + apply fuel0_enough.
    + now replace (i + (j - i + n)) with (j + n) by lia.
  - (* Plus *)
    destruct r; try discriminate. cbn [lead_class] in Hl. inversion Hl; subst rs0; clear Hl.
    destruct (Nat.eq_dec i j) as [->|Hne]; [exact Hj|].
    cbn [m] in *. unfold step1 at 1 in Hj.
    destruct (nth_error h j) as [bj|] eqn:Hbj; [|discriminate].
    destruct (cls_byte rs bj) eqn:Hfj; [|discriminate].
    apply star_ok_elim in Hj as (n & Hn & HK).
    destruct (Hrun i) as (bi & Hbi & Hdi); try lia.
    unfold step1 at 1. rewrite Hbi, Hd, Hdi.
    assert (Hr : scan_at (cls_byte rs) h (S i) = (S j - S i) + scan_at (cls_byte rs) h (S j)).
    { apply (scan_at_run h (cls_byte rs) (S j - S i)); try lia. intros p Hp1 Hp2.
      destruct (Nat.eq_dec p j) as [->|Hpj]; [exists bj; auto|].
      destruct (Hrun p) as (b & Hb & Hdb); try lia. exists b. now rewrite Hd. }
    apply (star_ok_intro h (cls_byte rs) g k (j - i + n)); try lia.
    + apply fuel0_enough.
    + now replace (S i + (j - i + n)) with (S j + n) by lia.
  - (* Repeat *)
    destruct mx; try discriminate. destruct r; try discriminate.
    cbn [lead_class] in Hl. inversion Hl; subst rs0; clear Hl.
    cbn [m] in *. rewrite rep_min_class in *.
    assert (Hr : scan_at (cls_byte rs) h i = (j - i) + scan_at (cls_byte rs) h j).
    { apply (scan_at_run h (cls_byte rs) (j - i)); try lia. intros p Hp1 Hp2.
      destruct (Hrun p Hp1 Hp2) as (b & Hb & Hdb). exists b. now rewrite Hd. }
    destruct (Nat.leb_spec0 mn (scan_at (cls_byte rs) h j)) as [Hle|]; [|discriminate].
    destruct (Nat.leb_spec0 mn (scan_at (cls_byte rs) h i)) as [_|]; [|lia].
    apply star_ok_elim in Hj as (n & Hn & HK).
    rewrite scan_at_add in Hn by lia.
    apply (star_ok_intro h (cls_byte rs) g k (j - i + n)).
    + rewrite scan_at_add by lia. lia.
    + apply fuel0_enough.
    + now replace (i + mn + (j - i + n)) with (j + mn + n) by lia.
  - (* Concat *)
    destruct l as [|x t]; [discriminate|]. cbn [lead_class] in Hl.
    rewrite m_Concat in *. cbn [m_concat] in *.
    inversion H as [|? ? Hx Ht]; subst. eapply Hx; eauto.
  - (* Capture *)
    cbn [lead_class] in Hl. cbn [m] in *. eapply IHr; eauto.
Qed.

(* the claim holds when the leading class is the FULL digit class (`\d`, `[0-9]`), for every
   greediness and whatever follows *)
Theorem digit_skip_partial :
  forall r rs, digit_run_skip_safe_original r = true -> lead_class r = Some rs ->
  (forall b, cls_byte rs b = is_digit b) -> digit_skip_claim r.
Proof.
  intros r rs Hs Hl Hd h i j Hij Hrun Hi.
  destruct (bt h r j) as [e|] eqn:Hj; [|reflexivity]. exfalso.
  assert (H : isSome (m h r (fun e => Some e) i) = true).
  { apply (skip_gen r rs Hs Hl Hd h _ i j Hij).
    - intros p Hp1 Hp2. apply Hrun; lia.
    - unfold bt in Hj. now rewrite Hj. }
  unfold bt in Hi. rewrite Hi in H. discriminate.
Qed.

Example digit_skip_partial_d : digit_skip_claim (Concat [Plus true (Class [(48,57)%N]); Lit false [46%N]; Plus false (Class [(48,57)%N])]).
Proof. apply (digit_skip_partial _ [(48,57)%N]); try reflexivity. intros b. unfold cls_byte, in_ranges, is_digit. cbn [existsb fst snd]. lia. Qed.

(* ================================================================== H. the CURRENT code (repaired tree)

   Everything above with the suffix _original models the code BEFORE the fixes
     fb3838d (charclass-nongreedy)  3a29455 (composite-guards)  ef62930 (composite-dfa-restart)
     fdea5a8 (branch-dispatch-whitelist)  d884383 (firstbytes-nested-anchor)
     22419a2 (digit-run-skip)  59ae723 (anchored-literal);
   the *_original_*refuted lemmas are about that code.  The definitions below model the code of
   the current tree; the searchers themselves (cc_search_at, comp_search_at, bd_search, ...) did
   not change except CompositeSequenceDFA.SearchAt and MatchAnchoredLiteral.

   Parser invariant used by the positive theorems: regexp/syntax never produces x{n,m} with
   n > m ("invalid repeat count"), [wf_re]. *)

Fixpoint wf_re (r : re) : bool :=
  match r with
  | Star _ x | Plus _ x | Quest _ x | Capture x => wf_re x
  | Repeat _ mn mx x => (match mx with Some v => mn <=? v | None => true end) && wf_re x
  | Concat l | Alt l => (fix go (l : list re) : bool := match l with [] => true | x :: t => wf_re x && go t end) l
  | _ => true
  end.

Lemma wf_re_list_forallb l :
  (fix go (l : list re) : bool := match l with [] => true | x :: t => wf_re x && go t end) l = forallb wf_re l.
Proof. induction l as [|x t IH]; cbn [forallb]; [reflexivity|]. now rewrite IH. Qed.

(* ------------------------------------------------------------------ H1. CharClassSearcher *)

(* nfa/charclass_extract.go:ExtractCharClassRanges (current): OpPlus, not NonGreedy, one
   OpCharClass sub, every range ASCII, at least one range *)
Definition cc_ranges (r : re) : option (list (N * N)) :=
  match r with
  | Plus g (Class rs) =>
      if negb g then None else
      if forallb (fun p => negb ((127 <? fst p)%N || (127 <? snd p)%N)) rs
      then match rs with [] => None | _ => Some rs end
      else None
  | _ => None
  end.
Definition cc_applicable (r : re) : bool := isSome (cc_ranges r).
Definition cc_build (r : re) : option ccs :=
  match cc_ranges r with Some rs => Some (cc_new rs 1) | None => None end.

Lemma cc_build_current_original r s :
  cc_build r = Some s -> cc_build_original r = Some s /\ all_greedy r = true.
Proof.
  unfold cc_build, cc_build_original. destruct r as [| | |g r0| | | | | | | | | | |]; try discriminate.
  destruct r0; try discriminate. cbn [cc_ranges cc_ranges_original all_greedy].
  destruct g; cbn [negb]; [|discriminate]. intros H. split; [exact H|reflexivity].
Qed.

Theorem charclass_exact :
  forall r s, cc_build r = Some s -> forall h at_, cc_search_at s h at_ = first_match h r at_.
Proof.
  intros r s Hb h at_. apply cc_build_current_original in Hb as [Hb Hg]. now apply cc_original_partial.
Qed.

Theorem charclass_is_match_exact :
  forall r s, cc_build r = Some s -> forall h, cc_is_match s h = isSome (first_match h r 0).
Proof.
  intros r s Hb h. apply cc_build_current_original in Hb as [Hb _]. now apply cc_original_is_match_exact.
Qed.

(* ------------------------------------------------------------------ H2. CompositeSearcher *)

(* nfa/composite.go:extractSinglePart (current): NonGreedy rejected, OpRepeat with Max == 0
   rejected, runes > 127 rejected *)
Definition comp_part (r : re) : option part :=
  let mk := fun (rs : list (N * N)) (mn mx : nat) =>
    if ascii_ranges rs then Some (mkPart (mk_table (in_ranges rs)) mn mx) else None in
  match r with
  | Plus g (Class rs) => if g then mk rs 1 0 else None
  | Star g (Class rs) => if g then mk rs 0 0 else None
  | Quest g (Class rs) => if g then mk rs 0 1 else None
  | Repeat g mn mx (Class rs) =>
      if g then match mx with
                | Some 0 => None
                | Some x => mk rs mn x
                | None => mk rs mn 0
                end
      else None
  | Class rs => mk rs 1 1
  | _ => None
  end.

Fixpoint comp_parts_list (l : list re) : option (list part) :=
  match l with
  | [] => Some []
  | x :: t => match comp_part x with
              | None => None
              | Some p => match comp_parts_list t with None => None | Some ps => Some (p :: ps) end
              end
  end.

Definition comp_build (r : re) : option (list part) :=
  match r with
  | Concat l => match comp_parts_list l with
                | Some ps => if length ps <? 2 then None else Some ps
                | None => None
                end
  | _ => None
  end.

(* nfa/composite.go:isValidCompositePart (current) = extractSinglePart != nil && shape *)
Definition is_valid_composite_part (r : re) : bool :=
  isSome (comp_part r) && is_valid_composite_part_original r.
Definition is_composite (r : re) : bool :=
  match r with Concat l => (2 <=? length l) && forallb is_valid_composite_part l | _ => false end.
Definition comp_applicable (r : re) : bool := is_composite r && isSome (comp_build r).

Lemma ascii_255 rs : ascii_ranges rs = true ->
  forallb (fun p => negb ((255 <? fst p)%N || (255 <? snd p)%N)) rs = true.
Proof.
  unfold ascii_ranges. rewrite !forallb_forall. intros H p Hp. specialize (H p Hp). lia.
Qed.

Lemma comp_part_current_original r p :
  comp_part r = Some p -> wf_re r = true ->
  comp_part_original r = Some p /\ comp_guard_part r = true.
Proof.
  intros Hp Hw.
  assert (Hmk : forall rs mn mx,
    (if ascii_ranges rs then Some (mkPart (mk_table (in_ranges rs)) mn mx) else None) = Some p ->
    ascii_ranges rs = true /\
    (if forallb (fun p => negb ((255 <? fst p)%N || (255 <? snd p)%N)) rs
     then Some (mkPart (mk_table (in_ranges rs)) mn mx) else None) = Some p).
  { intros rs mn mx H. destruct (ascii_ranges rs) eqn:Ha; [|discriminate]. split; [reflexivity|].
    now rewrite (ascii_255 _ Ha). }
  destruct r as [| rs | g r0 | g r0 | g r0 | g mn mx r0 | | | | | | | | |]; try discriminate.
  - cbn [comp_part comp_part_original comp_guard_part] in *. now destruct (Hmk _ _ _ Hp).
  - destruct r0; try discriminate. destruct g; try discriminate.
    cbn [comp_part comp_part_original comp_guard_part] in *. now destruct (Hmk _ _ _ Hp).
  - destruct r0; try discriminate. destruct g; try discriminate.
    cbn [comp_part comp_part_original comp_guard_part] in *. now destruct (Hmk _ _ _ Hp).
  - destruct r0; try discriminate. destruct g; try discriminate.
    cbn [comp_part comp_part_original comp_guard_part] in *. now destruct (Hmk _ _ _ Hp).
  - destruct r0; try discriminate. destruct g; try discriminate.
    cbn [wf_re] in Hw. apply andb_true_iff in Hw as [Hw _].
    cbn [comp_part comp_part_original comp_guard_part] in *.
    destruct mx as [[|x]|].
    + discriminate.
    + destruct (Hmk _ _ _ Hp) as [Ha Ho]. rewrite Ha. split; [exact Ho|].
      cbn [andb]. apply andb_true_iff. split; [reflexivity|exact Hw].
    + destruct (Hmk _ _ _ Hp) as [Ha Ho]. rewrite Ha. split; [exact Ho|reflexivity].
Qed.

Lemma comp_parts_list_current_original l ps :
  comp_parts_list l = Some ps -> forallb wf_re l = true ->
  comp_parts_list_original l = Some ps /\ forallb comp_guard_part l = true.
Proof.
  revert ps. induction l as [|x t IH]; intros ps Hp Hw.
  - inversion Hp. split; reflexivity.
  - cbn [comp_parts_list] in Hp. destruct (comp_part x) as [p|] eqn:Hx; [|discriminate].
    destruct (comp_parts_list t) as [pt|] eqn:Ht; [|discriminate]. inversion Hp; subst ps; clear Hp.
    cbn [forallb] in Hw. apply andb_true_iff in Hw as [Hwx Hwt].
    destruct (comp_part_current_original _ _ Hx Hwx) as [Hox Hgx].
    destruct (IH pt eq_refl Hwt) as [Hot Hgt].
    cbn [comp_parts_list_original forallb]. now rewrite Hox, Hot, Hgx, Hgt.
Qed.

Lemma comp_build_current_original r ps :
  comp_build r = Some ps -> wf_re r = true -> comp_build_original r = Some ps /\ comp_guard r = true.
Proof.
  intros Hb Hw. destruct r; try discriminate. cbn [comp_build] in Hb. cbn [wf_re] in Hw.
  rewrite wf_re_list_forallb in Hw.
  destruct (comp_parts_list l) as [ps'|] eqn:Hl; [|discriminate].
  destruct (comp_parts_list_current_original _ _ Hl Hw) as [Ho Hg].
  cbn [comp_build_original comp_guard]. rewrite Ho. split; [exact Hb|exact Hg].
Qed.

(* every pattern the current constructor accepts (ASCII, greedy, max <> 0 are now enforced by
   it), every haystack, every offset *)
Theorem composite_exact :
  forall r ps, comp_build r = Some ps -> wf_re r = true ->
  forall h at_, comp_search_at ps h at_ = first_match h r at_.
Proof.
  intros r ps Hb Hw h at_. destruct (comp_build_current_original _ _ Hb Hw) as [Ho Hg].
  now apply comp_original_partial.
Qed.

(* ------------------------------------------------------------------ H3. digit-run skipping *)

(* meta/strategy.go:isAllDigitsClass *)
Definition is_all_digits_class (rs : list (N * N)) : bool :=
  match rs with [(lo, hi)] => (lo =? 48)%N && (hi =? 57)%N | _ => false end.

(* meta/strategy.go:isDigitRunSkipSafe (current) *)
Fixpoint digit_run_skip_safe (r : re) : bool :=
  match r with
  | Concat l => match l with [] => false | x :: _ => digit_run_skip_safe x end
  | Capture x => digit_run_skip_safe x
  | Plus _ (Class rs) | Star _ (Class rs) => is_all_digits_class rs
  | Repeat _ _ None (Class rs) => is_all_digits_class rs
  | _ => false
  end.

Lemma all_digits_spec rs : is_all_digits_class rs = true -> rs = [(48, 57)%N].
Proof.
  destruct rs as [|[lo hi] [|? ?]]; cbn; try discriminate. intros H.
  apply andb_true_iff in H as [H1 H2]. apply N.eqb_eq in H1, H2. now subst.
Qed.

Lemma skip_safe_current r :
  digit_run_skip_safe r = true ->
  digit_run_skip_safe_original r = true /\ lead_class r = Some [(48, 57)%N].
Proof.
  induction r using re_ind2; cbn [digit_run_skip_safe digit_run_skip_safe_original lead_class]; try discriminate.
  - destruct r; try discriminate. intros Hs. apply all_digits_spec in Hs. subst. split; reflexivity.
  - destruct r; try discriminate. intros Hs. apply all_digits_spec in Hs. subst. split; reflexivity.
  - destruct mx; try discriminate. destruct r; try discriminate.
    intros Hs. apply all_digits_spec in Hs. subst. split; reflexivity.
  - destruct l as [|x t]; [discriminate|]. inversion H; subst. auto.
  - auto.
Qed.

(* the claim behind the run skip holds for everything the current test accepts: any greediness,
   any continuation *)
Theorem digit_skip_sound : forall r, digit_run_skip_safe r = true -> digit_skip_claim r.
Proof.
  intros r Hs. destruct (skip_safe_current r Hs) as [Ho Hl].
  apply (digit_skip_partial r [(48, 57)%N] Ho Hl).
  intros b. unfold cls_byte, in_ranges, is_digit. cbn [existsb fst snd]. lia.
Qed.

(* ------------------------------------------------------------------ H4. first bytes *)

(* nfa/firstbytes.go:extractFirstBytesRecursive (current): an assertion that the walk REACHES
   (the leading ^ of a concatenation is still skipped by the OpConcat case) makes it give up. *)
Fixpoint fb (depth : nat) (r : re) (acc : bset) {struct r} : option bset :=
  if 20 <? depth then None else
  match r with
  | Lit fold rs => match rs with
                   | [] => None
                   | r0 :: _ => if fold then None else Some (fun b => acc b || (b =? utf8_lead r0)%N)
                   end
  | Class rs => let acc' := fun b => acc b || class_first rs b in
                if bset_nonempty acc' then Some acc' else None
  | AnyNotNL => Some (fun b => acc b || negb (b =? 10)%N)
  | AnyChar => Some (fun _ => true)
  | BeginLine | BeginText | EndLine | EndText => None
  | Capture x => fb (S depth) x acc
  | Concat l => (fix go (l : list re) : option bset :=
                   match l with
                   | [] => None
                   | x :: t => if is_begin x then go t else fb (S depth) x acc
                   end) l
  | Alt l => (fix go (l : list re) (acc : bset) : option bset :=
                match l with
                | [] => Some acc
                | x :: t => match fb (S depth) x acc with None => None | Some a => go t a end
                end) l acc
  | Star _ _ | Quest _ _ => None
  | Plus _ x => fb (S depth) x acc
  | Repeat _ mn _ x => if mn =? 0 then None else fb (S depth) x acc
  end.

Definition first_bytes (r : re) : option bset := fb 0 r (fun _ => false).

Lemma utf8_encode_cons r : exists tl, utf8_encode r = utf8_lead r :: tl.
Proof.
  unfold utf8_lead, utf8_encode. destruct (r <? 128)%N; [eexists; reflexivity|].
  destruct (r <? 2048)%N; [eexists; reflexivity|]. destruct (r <? 65536)%N; eexists; reflexivity.
Qed.

Lemma cls_class_first rs b : cls_byte rs b = true -> class_first rs b = true.
Proof.
  unfold cls_byte, in_ranges, class_first. intros H. apply andb_true_iff in H as [Hb H].
  apply existsb_exists in H as (p & Hp & Hr). apply existsb_exists. exists p. split; [exact Hp|].
  destruct (128 <=? snd p)%N eqn:Hhi; lia.
Qed.

Lemma fb_sound_gen : forall r depth acc fs, fb depth r acc = Some fs ->
  (forall b, acc b = true -> fs b = true) /\
  (forall h k pos e, m h r k pos = Some e -> exists b, nth_error h pos = Some b /\ fs b = true).
Proof.
  induction r using re_ind2; intros depth acc fs Hfb; cbn [fb] in Hfb;
    (destruct (20 <? depth); [discriminate|]); try discriminate.
  - (* Lit *)
    destruct rs as [|r0 rs]; [discriminate|]. destruct f; [discriminate|]. inversion Hfb; subst fs; clear Hfb.
    split; [intros b Hb; now rewrite Hb|].
    intros h k pos e Hm. cbn [m lit_bytes flat_map] in Hm.
    destruct (utf8_encode_cons r0) as (tl & Htl). rewrite Htl in Hm. cbn [app lit_m] in Hm.
    unfold step1 in Hm. destruct (nth_error h pos) as [b|]; [|discriminate].
    destruct (utf8_lead r0 =? b)%N eqn:Hb; [|discriminate]. exists b. split; [reflexivity|].
    apply N.eqb_eq in Hb. subst b. rewrite N.eqb_refl. apply orb_true_r.
  - (* Class *)
    cbv zeta in Hfb. destruct (bset_nonempty _); [|discriminate]. inversion Hfb; subst fs; clear Hfb.
    split; [intros b Hb; now rewrite Hb|].
    intros h k pos e Hm. cbn [m] in Hm. unfold step1 in Hm.
    destruct (nth_error h pos) as [b|]; [|discriminate]. destruct (cls_byte rs b) eqn:Hc; [|discriminate].
    exists b. split; [reflexivity|]. rewrite (cls_class_first _ _ Hc). apply orb_true_r.
  - (* Plus *)
    destruct (IHr _ _ _ Hfb) as [Hmono Hs]. split; [exact Hmono|].
    intros h k pos e Hm. cbn [m] in Hm. eapply Hs; eauto.
  - (* Repeat *)
    destruct mn as [|mn]; [discriminate|]. cbn [Nat.eqb] in Hfb.
    destruct (IHr _ _ _ Hfb) as [Hmono Hs]. split; [exact Hmono|].
    intros h k pos e Hm. cbn [m rep_min] in Hm. eapply Hs; eauto.
  - (* Concat *)
    induction H as [|x t Hx Ht IH]; [discriminate|].
    destruct (is_begin x) eqn:Hbx.
    + destruct (IH Hfb) as [Hmono Hs]. split; [exact Hmono|].
      intros h k pos e Hm. rewrite m_Concat in Hm. cbn [m_concat] in Hm.
      apply (Hs h k pos e). rewrite m_Concat.
      destruct x; try discriminate; cbn [m] in Hm.
      * destruct (pos =? 0); [exact Hm|discriminate].
      * destruct (at_line_start h pos); [exact Hm|discriminate].
    + destruct (Hx _ _ _ Hfb) as [Hmono Hs]. split; [exact Hmono|].
      intros h k pos e Hm. rewrite m_Concat in Hm. cbn [m_concat] in Hm. eapply Hs; eauto.
  - (* Alt *)
    revert acc Hfb. induction H as [|x t Hx Ht IH]; intros acc Hfb.
    + inversion Hfb; subst fs. split; [auto|]. intros h k pos e Hm. rewrite m_Alt in Hm. discriminate.
    + destruct (fb (S depth) x acc) as [a|] eqn:Ha; [|discriminate].
      destruct (Hx _ _ _ Ha) as [Hmx Hsx]. destruct (IH a Hfb) as [Hmt Hst].
      split; [intros b Hb; auto|].
      intros h k pos e Hm. rewrite m_Alt in Hm. cbn [m_alt] in Hm.
      destruct (m h x k pos) as [e'|] eqn:Hx1.
      * destruct (Hsx h k pos e' Hx1) as (b & Hb & Hab). exists b. split; [exact Hb|auto].
      * cbn [orelse] in Hm. apply (Hst h k pos e). now rewrite m_Alt.
  - (* AnyNotNL *)
    inversion Hfb; subst fs; clear Hfb. split; [intros b Hb; now rewrite Hb|].
    intros h k pos e Hm. cbn [m] in Hm. unfold step1 in Hm.
    destruct (nth_error h pos) as [b|]; [|discriminate]. destruct (negb (b =? 10)%N) eqn:Hc; [|discriminate].
    exists b. split; [reflexivity|]. rewrite Hc. apply orb_true_r.
  - (* AnyChar *)
    inversion Hfb; subst fs; clear Hfb. split; [reflexivity|].
    intros h k pos e Hm. cbn [m] in Hm. unfold step1 in Hm.
    destruct (nth_error h pos) as [b|]; [|discriminate]. exists b. split; reflexivity.
  - (* Capture *)
    destruct (IHr _ _ _ Hfb) as [Hmono Hs]. split; [exact Hmono|].
    intros h k pos e Hm. cbn [m] in Hm. eapply Hs; eauto.
Qed.

(* every pattern for which the current ExtractFirstBytes returns a set: a match that starts at
   position 0 exists only on a non-empty haystack whose first byte is in the set (so the
   rejection filter never rejects a matching input; in particular such a pattern has no empty
   match) *)
Theorem first_bytes_sound :
  forall r fs, first_bytes r = Some fs ->
  forall h e, bt h r 0 = Some e -> exists b, nth_error h 0 = Some b /\ fs b = true.
Proof.
  intros r fs Hf h e Hb. destruct (fb_sound_gen r 0 _ fs Hf) as [_ Hs]. exact (Hs h _ 0 e Hb).
Qed.

Corollary first_bytes_filter_sound :
  forall r fs, first_bytes r = Some fs ->
  forall h e, bt h r 0 = Some e -> fb_filter_rejects fs h = false.
Proof.
  intros r fs Hf h e Hb. destruct (first_bytes_sound r fs Hf h e Hb) as (b & Hn & Hfs).
  destruct h as [|b0 t]; [discriminate|]. cbn in Hn. inversion Hn; subst. cbn. now rewrite Hfs.
Qed.

(* ------------------------------------------------------------------ H5. BranchDispatcher *)

(* nfa/branch_dispatch.go:isExactBranch *)
Definition is_exact_branch (r : re) : bool :=
  let r := match r with Capture x => x | _ => r end in
  match r with
  | Lit fold rs => negb (length rs =? 0) && negb fold && forallb (fun x => negb (127 <? x)%N) rs
  | Plus g (Class rs) => g && negb (length rs =? 0) && ascii_ranges rs
  | _ => false
  end.

(* NewBranchDispatcher is unchanged; it calls the current ExtractFirstBytes *)
Fixpoint bd_loop (i : nat) (bs : list re) (disp : N -> option nat)
  : option ((N -> option nat) * list bmatcher * bool) :=
  match bs with
  | [] => Some (disp, [], false)
  | x :: t =>
      match first_bytes x with
      | None => None
      | Some fs =>
          if negb (bset_nonempty fs) then
            match bd_loop (Datatypes.S i) t disp with
            | Some (d, ms, _) => Some (d, bm_zero :: ms, true)
            | None => None
            end
          else if existsb (fun b => fs b && isSome (disp b)) bytes256 then None
          else match bd_loop (Datatypes.S i) t (fun b => if fs b && (b <? 256)%N then Some i else disp b) with
               | Some (d, ms, e) => Some (d, build_matcher x :: ms, e)
               | None => None
               end
      end
  end.

Definition bd_new (r : re) : option bdisp :=
  let inner := match r with Capture x => x | _ => r end in
  match inner with
  | Alt bs =>
      if (length bs <? 2) || (127 <? length bs) then None else
      match bd_loop 0 bs (fun _ => None) with
      | Some (d, ms, e) =>
          Some (mkBD (map (fun b => match d b with Some j => Z.of_nat j | None => (-1)%Z end) bytes256) ms e)
      | None => None
      end
  | _ => None
  end.

(* nfa/branch_dispatch.go:IsBranchDispatchPattern (current): exactly ^ and one alternation
   (possibly captured) whose branches are all exact *)
Definition bd_applicable (r : re) : bool :=
  match r with
  | Concat [a; sub] =>
      is_begin a &&
      match (match sub with Capture x => x | _ => sub end) with
      | Alt bs => forallb is_exact_branch bs && isSome (bd_new sub)
      | _ => false
      end
  | _ => false
  end.

(* meta/compile.go:buildCharClassSearchers (unchanged) *)
Definition bd_build (r : re) : option bdisp :=
  match r with
  | Concat (a :: rest) =>
      match find (fun x => match x with Alt _ | Capture _ => true | _ => false end) rest with
      | Some sub => bd_new sub
      | None => bd_new r
      end
  | _ => bd_new r
  end.

(* nfa/compile.go:isPatternAnchored — what makes NFA.IsAlwaysAnchored true; SelectStrategy only
   considers UseBranchDispatch / UseAnchoredLiteral under it *)
Fixpoint is_pattern_anchored (r : re) : bool :=
  match r with
  | BeginText => true
  | Concat l => match l with [] => false | x :: _ => is_pattern_anchored x end
  | Capture x => is_pattern_anchored x
  | _ => false
  end.

(* -- small facts -- *)
Lemma In_bytes256 b : (b < 256)%N -> In b bytes256.
Proof.
  intros H. unfold bytes256. apply in_map_iff. exists (N.to_nat b). split; [apply N2Nat.id|].
  apply in_seq. lia.
Qed.

Lemma bytes256_nth {A} (g : N -> A) (d : A) b :
  nth (N.to_nat b) (map g bytes256) d = if (b <? 256)%N then g b else d.
Proof.
  unfold bytes256. rewrite map_map. destruct (N.ltb_spec0 b 256) as [Hlt|Hge].
  - rewrite (nth_indep _ d (g (N.of_nat 0))) by (rewrite map_length, seq_length; lia).
    rewrite (map_nth (fun i => g (N.of_nat i))). rewrite seq_nth by lia. cbn [Nat.add]. now rewrite N2Nat.id.
  - apply nth_overflow. rewrite map_length, seq_length. lia.
Qed.

Lemma utf8_ascii x : (x <= 127)%N -> utf8_encode x = [x].
Proof. intros H. unfold utf8_encode. destruct (N.ltb_spec0 x 128); [reflexivity|lia]. Qed.

Lemma lit_bytes_ascii rs : forallb (fun x => negb (127 <? x)%N) rs = true -> lit_bytes rs = rs.
Proof.
  induction rs as [|x t IH]; cbn [forallb lit_bytes flat_map]; [reflexivity|]. intros H.
  apply andb_true_iff in H as [Hx Ht]. rewrite utf8_ascii by lia. cbn [app]. f_equal. now apply IH.
Qed.

Lemma lit_conv_ascii rs : forallb (fun x => negb (127 <? x)%N) rs = true -> lit_conv rs = rs.
Proof.
  induction rs as [|x t IH]; cbn [forallb lit_conv]; [reflexivity|]. intros H.
  apply andb_true_iff in H as [Hx Ht]. destruct (N.ltb_spec0 255 x); [lia|]. f_equal. now apply IH.
Qed.

Lemma lit_m_prefix h bs k : forall pos,
  lit_m h N.eqb bs k pos = if prefix_eqb bs (skipn pos h) then k (pos + length bs) else None.
Proof.
  induction bs as [|b t IH]; intros pos.
  - cbn [lit_m prefix_eqb length]. now rewrite Nat.add_0_r.
  - cbn [lit_m length]. unfold step1. destruct (nth_error h pos) as [x|] eqn:Hx.
    + rewrite (skipn_nth_error _ _ _ Hx). cbn [prefix_eqb]. destruct (b =? x)%N; cbn [andb]; [|reflexivity].
      rewrite IH. now replace (S pos + length t) with (pos + S (length t)) by lia.
    + rewrite (skipn_nth_error_none _ _ Hx). reflexivity.
Qed.

Lemma prefix_eqb_length p l : prefix_eqb p l = true -> length p <= length l.
Proof.
  revert l. induction p as [|a p IH]; intros l H; cbn [length]; [lia|].
  destruct l as [|b l]; [discriminate|]. cbn [prefix_eqb] in H. apply andb_true_iff in H as [_ H].
  apply IH in H. cbn [length]. lia.
Qed.

Lemma clip_ascii rs : ascii_ranges rs = true -> forall b, tbl_get (clip_tbl rs) b = cls_byte rs b.
Proof.
  intros Ha b. unfold clip_tbl. rewrite tbl_get_mk. unfold cls_byte, in_ranges.
  assert (Hex : existsb (fun p => negb (255 <? fst p)%N && (fst p <=? b)%N && (b <=? N.min (snd p) 255)%N) rs
                = existsb (fun p => (fst p <=? b)%N && (b <=? snd p)%N) rs).
  { unfold ascii_ranges in Ha. induction rs as [|p t IH]; [reflexivity|]. cbn [forallb existsb] in *.
    apply andb_true_iff in Ha as [Hp Ht]. rewrite (IH Ht). f_equal. lia. }
  rewrite Hex. clear Hex.
  assert (Hb : existsb (fun p => (fst p <=? b)%N && (b <=? snd p)%N) rs = true -> (b <= 127)%N).
  { apply (in_ranges_bound rs 127 b). unfold ascii_ranges in Ha. rewrite forallb_forall in *.
    intros p Hp. specialize (Ha p Hp). lia. }
  set (E := existsb (fun p => (fst p <=? b)%N && (b <=? snd p)%N) rs) in *.
  destruct E; [specialize (Hb eq_refl)|];
    destruct (N.ltb_spec0 b 256); destruct (N.ltb_spec0 b 128); try lia; reflexivity.
Qed.

(* what an exact branch does at position 0, and what its matcher does *)
Definition matcher_run (mt : bmatcher) (h : list N) : option (nat * nat) :=
  if 0 <? length (bm_lit mt) then
    (if length h <? length (bm_lit mt) then None
     else if prefix_eqb (bm_lit mt) h then Some (0, length (bm_lit mt)) else None)
  else if bm_has mt then
    (let count := scan (tbl_get (bm_tbl mt)) h in
     if bm_min mt <=? count then Some (0, count) else None)
  else Some (0, 1).

Lemma exact_branch_run x h : is_exact_branch x = true ->
  matcher_run (build_matcher x) h = match bt h x 0 with Some e => Some (0, e) | None => None end.
Proof.
  intros Hx. unfold is_exact_branch, build_matcher in *.
  assert (Hbt : bt h x 0 = bt h (match x with Capture y => y | _ => x end) 0) by (destruct x; reflexivity).
  rewrite Hbt. clear Hbt. set (y := match x with Capture y => y | _ => x end) in *. clearbody y. clear x.
  destruct y as [f rs| | |g r0| | | | | | | | | | |]; try discriminate.
  - (* literal *)
    apply andb_true_iff in Hx as [Hx Hasc]. apply andb_true_iff in Hx as [Hne Hf].
    destruct f; [discriminate|]. unfold matcher_run. cbn [bm_lit bm_has].
    rewrite (lit_conv_ascii _ Hasc). unfold bt. cbn [m]. rewrite (lit_bytes_ascii _ Hasc), lit_m_prefix.
    cbn [skipn Nat.add].
    destruct (Nat.ltb_spec0 0 (length rs)) as [_|]; [|destruct rs; cbn in *; [discriminate|lia]].
    destruct (prefix_eqb rs h) eqn:Hp.
    + apply prefix_eqb_length in Hp. destruct (Nat.ltb_spec0 (length h) (length rs)); [lia|reflexivity].
    + destruct (length h <? length rs); reflexivity.
  - (* class+ *)
    destruct r0; try discriminate. apply andb_true_iff in Hx as [Hx Hasc]. apply andb_true_iff in Hx as [Hg Hne].
    subst g. unfold matcher_run. cbn [bm_lit bm_has bm_tbl bm_min length Nat.ltb Nat.leb].
    rewrite (scan_ext _ _ h (clip_ascii _ Hasc)). rewrite bt_plus_greedy_class.
    unfold scan_at. cbn [skipn Nat.add]. destruct h as [|b t]; [reflexivity|].
    cbn [nth_error scan]. destruct (cls_byte rs b); reflexivity.
Qed.

(* first bytes of an exact branch: non-empty, below 256 *)
Lemma exact_inner_fb y d fs :
  d <= 1 ->
  (match y with
   | Lit fold rs => negb (length rs =? 0) && negb fold && forallb (fun x => negb (127 <? x)%N) rs
   | Plus g (Class rs) => g && negb (length rs =? 0) && ascii_ranges rs
   | _ => false
   end) = true ->
  fb d y (fun _ => false) = Some fs ->
  bset_nonempty fs = true /\ (forall b, fs b = true -> (b < 256)%N).
Proof.
  intros Hd Hy Hfb.
  destruct y as [f rs| | |g r0| | | | | | | | | | |]; try discriminate.
  - apply andb_true_iff in Hy as [Hy Hasc]. apply andb_true_iff in Hy as [Hne Hf].
    destruct f; [discriminate|]. destruct rs as [|r0 rs]; [discriminate|].
    cbn [forallb] in Hasc. apply andb_true_iff in Hasc as [H0 _].
    cbn [fb] in Hfb. destruct (Nat.ltb_spec0 20 d); [lia|]. inversion Hfb; subst fs; clear Hfb.
    assert (Hl : utf8_lead r0 = r0) by (unfold utf8_lead; rewrite utf8_ascii by lia; reflexivity).
    split.
    + unfold bset_nonempty. apply existsb_exists. exists r0. split; [apply In_bytes256; lia|].
      rewrite Hl, N.eqb_refl. reflexivity.
    + intros b Hb. cbn [orb] in Hb. rewrite Hl in Hb. lia.
  - destruct r0; try discriminate. apply andb_true_iff in Hy as [Hy Hasc]. apply andb_true_iff in Hy as [Hg Hne].
    cbn [fb] in Hfb. destruct (Nat.ltb_spec0 20 d); [lia|]. destruct (Nat.ltb_spec0 20 (S d)); [lia|].
    cbv zeta in Hfb.
    destruct (bset_nonempty (fun b => false || class_first rs b)) eqn:Hn; [|discriminate].
    inversion Hfb; subst fs; clear Hfb. split; [exact Hn|].
    intros b Hb. cbn [orb] in Hb. unfold class_first in Hb. apply existsb_exists in Hb as (p & Hp & Hr).
    destruct (128 <=? snd p)%N eqn:Hhi; lia.
Qed.

Lemma exact_branch_fb x fs : is_exact_branch x = true -> first_bytes x = Some fs ->
  bset_nonempty fs = true /\ (forall b, fs b = true -> (b < 256)%N).
Proof.
  intros Hx Hf. unfold is_exact_branch, first_bytes in *.
  destruct x as [f rs|rs|g y|g y|g y|g mn mx y|l|l| | | | | | |y]; try discriminate.
  - apply (exact_inner_fb (Lit f rs) 0 fs (Nat.le_0_l _) Hx Hf).
  - apply (exact_inner_fb (Plus g y) 0 fs (Nat.le_0_l _) Hx Hf).
  - cbn [fb Nat.ltb Nat.leb] in Hf. apply (exact_inner_fb y 1 fs (le_n _) Hx Hf).
Qed.

(* a branch matches at 0 only on a haystack whose first byte is in its first-byte set *)
Lemma branch_needs_fb x fs h : first_bytes x = Some fs ->
  match h with
  | [] => bt h x 0 = None
  | b0 :: _ => fs b0 = false -> bt h x 0 = None
  end.
Proof.
  intros Hf. destruct (bt h x 0) as [e|] eqn:Hb.
  - destruct (first_bytes_sound x fs Hf h e Hb) as (b & Hn & Hfs). destruct h as [|b0 t]; [discriminate|].
    cbn in Hn. inversion Hn; subst. intros H. congruence.
  - destruct h; auto.
Qed.

Lemma bd_loop_dom : forall bs i disp d ms e, bd_loop i bs disp = Some (d, ms, e) ->
  (forall b v, disp b = Some v -> (b < 256)%N) -> forall b v, d b = Some v -> (b < 256)%N.
Proof.
  induction bs as [|x t IH]; intros i disp d ms e H Hdisp b v Hd.
  - cbn [bd_loop] in H. inversion H; subst. eauto.
  - cbn [bd_loop] in H. destruct (first_bytes x) as [fs|]; [|discriminate].
    destruct (negb (bset_nonempty fs)).
    + destruct (bd_loop (S i) t disp) as [[[d' ms'] e']|] eqn:Hrec; [|discriminate]. inversion H; subst.
      eapply IH; eauto.
    + destruct (existsb _ bytes256); [discriminate|].
      destruct (bd_loop (S i) t _) as [[[d' ms'] e']|] eqn:Hrec; [|discriminate]. inversion H; subst.
      eapply (IH _ _ _ _ _ Hrec); [|exact Hd]. intros b' v' Hb'. cbn beta in Hb'.
      destruct (fs b' && (b' <? 256)%N) eqn:Hc; [lia|eauto].
Qed.

Lemma bd_loop_correct h b0 t : h = b0 :: t -> forall bs i disp d ms e,
  bd_loop i bs disp = Some (d, ms, e) -> forallb is_exact_branch bs = true ->
  (forall v, disp b0 = Some v -> v < i) ->
  e = false /\ length ms = length bs /\
  match d b0 with
  | None => disp b0 = None /\ m_alt h bs (fun e => Some e) 0 = None
  | Some v =>
      (v < i /\ disp b0 = Some v /\ m_alt h bs (fun e => Some e) 0 = None) \/
      (i <= v /\ v < i + length bs /\ disp b0 = None /\
       m_alt h bs (fun e => Some e) 0 = bt h (nth (v - i) bs BeginText) 0 /\
       nth (v - i) ms bm_zero = build_matcher (nth (v - i) bs BeginText) /\
       is_exact_branch (nth (v - i) bs BeginText) = true)
  end.
Proof.
  intros Hh. induction bs as [|x tl IH]; intros i disp d ms e H Hex Hpre.
  - cbn [bd_loop] in H. inversion H; subst d ms e. split; [reflexivity|]. split; [reflexivity|].
    destruct (disp b0) as [v|] eqn:Hd.
    + left. split; [auto|]. split; reflexivity.
    + split; reflexivity.
  - cbn [forallb] in Hex. apply andb_true_iff in Hex as [Hx Htl].
    cbn [bd_loop] in H. destruct (first_bytes x) as [fs|] eqn:Hf; [|discriminate].
    destruct (exact_branch_fb x fs Hx Hf) as [Hne Hsmall]. rewrite Hne in H. cbn [negb] in H.
    destruct (existsb (fun b => fs b && isSome (disp b)) bytes256) eqn:Hov; [discriminate|].
    destruct (bd_loop (S i) tl (fun b => if fs b && (b <? 256)%N then Some i else disp b))
      as [[[d' ms'] e']|] eqn:Hrec; [|discriminate].
    inversion H; subst d' ms e'; clear H.
    assert (Hpre' : forall v, (if fs b0 && (b0 <? 256)%N then Some i else disp b0) = Some v -> v < S i).
    { intros v Hv. destruct (fs b0 && (b0 <? 256)%N); [inversion Hv; lia|]. apply Hpre in Hv. lia. }
    destruct (IH (S i) _ d ms' e Hrec Htl Hpre') as (He & Hlen & Hd). clear IH.
    split; [exact He|]. split; [cbn [length]; lia|].
    pose proof (branch_needs_fb x fs h Hf) as Hneed. rewrite Hh in Hneed. rewrite <- Hh in Hneed.
    cbn [m_alt]. fold (bt h x 0).
    destruct (fs b0) eqn:Hfs0.
    + (* the first byte dispatches to x *)
      assert (Hb0 : (b0 < 256)%N) by auto.
      assert (Hdn : disp b0 = None).
      { destruct (disp b0) as [w|] eqn:Hw; [|reflexivity]. exfalso.
        assert (Hc : existsb (fun b => fs b && isSome (disp b)) bytes256 = true).
        { apply existsb_exists. exists b0. split; [apply In_bytes256; exact Hb0|]. now rewrite Hfs0, Hw. }
        congruence. }
      destruct (N.ltb_spec0 b0 256) as [_|]; [|lia]. cbn [andb] in Hd.
      destruct (d b0) as [v|].
      * destruct Hd as [(Hv & Hdv & Hm)|(Hv & _ & Hdv & _)]; [|discriminate].
        inversion Hdv; subst v. right. split; [lia|]. split; [cbn [length]; lia|]. split; [exact Hdn|].
        replace (i - i) with 0 by lia. cbn [nth]. rewrite Hm, orelse_none_r. auto.
      * destruct Hd as [Hdv _]. discriminate.
    + (* x cannot match *)
      rewrite (Hneed eq_refl). cbn [orelse andb] in *.
      destruct (d b0) as [v|].
      * destruct Hd as [(Hv & Hdv & Hm)|(Hv & Hv2 & Hdv & Hm & Hms & Hexv)].
        -- left. split; [apply Hpre; exact Hdv|]. split; [exact Hdv|exact Hm].
        -- right. split; [lia|]. split; [cbn [length]; lia|]. split; [exact Hdv|].
           replace (v - i) with (S (v - S i)) by lia. cbn [nth]. auto.
      * exact Hd.
Qed.

Lemma find_from_none h r : forall n s, (forall s', s <= s' -> bt h r s' = None) -> find_from h r n s = None.
Proof.
  induction n as [|n IH]; intros s H; cbn [find_from]; [reflexivity|].
  rewrite H by lia. apply IH. intros s' Hs'. apply H. lia.
Qed.

Lemma m_Capture h x : m h (Capture x) = m h x.
Proof. reflexivity. Qed.
Lemma m_BeginText h k pos : m h BeginText k pos = if pos =? 0 then k pos else None.
Proof. reflexivity. Qed.

(* leftmost search for a \A-anchored pattern *)
Lemma first_match_anchored h r at_ :
  (forall s, 0 < s -> bt h r s = None) ->
  first_match h r at_ = if at_ =? 0 then match bt h r 0 with Some e => Some (0, e) | None => None end else None.
Proof.
  intros H. unfold first_match. destruct at_ as [|a]; cbn [Nat.eqb].
  - rewrite Nat.sub_0_r. cbn [find_from]. destruct (bt h r 0); [reflexivity|].
    apply find_from_none. intros s' Hs'. apply H. lia.
  - apply find_from_none. intros s' Hs'. apply H. lia.
Qed.

Lemma bd_search_run d h b0 t v : h = b0 :: t ->
  nth (N.to_nat b0) (bd_dispatch d) (-1)%Z = Z.of_nat v ->
  bd_search d h = matcher_run (nth v (bd_matchers d) bm_zero) h.
Proof.
  intros Hh Hn. subst h. unfold bd_search, matcher_run. rewrite Hn.
  destruct (Z.ltb_spec0 (Z.of_nat v) 0); [lia|]. now rewrite Nat2Z.id.
Qed.

(* every pattern the current predicate accepts under the start-anchor condition of
   SelectStrategy: `\A` followed by one (possibly captured) alternation of ASCII literals and
   greedy ASCII class repetitions with pairwise disjoint first bytes *)
Theorem branch_dispatch_exact :
  forall r d, is_pattern_anchored r = true -> bd_applicable r = true -> bd_build r = Some d ->
  forall h at_, bd_search_at d h at_ = first_match h r at_.
Proof.
  intros r d Hanch Happ Hbuild h at_.
  destruct r as [| | | | | |l| | | | | | | |]; try discriminate.
  destruct l as [|a [|sub [|? ?]]]; try discriminate.
  cbn [bd_applicable] in Happ. apply andb_true_iff in Happ as [Ha Happ].
  cbn [is_pattern_anchored] in Hanch. destruct a; try discriminate. clear Ha Hanch.
  (* the alternation *)
  assert (Hsub : exists bs, (sub = Alt bs \/ sub = Capture (Alt bs)) /\ forallb is_exact_branch bs = true /\
                            bd_new sub = Some d).
  { destruct sub as [| | | | | | |bs| | | | | | |y]; try discriminate.
    - apply andb_true_iff in Happ as [He _]. exists bs. split; [auto|]. split; [exact He|exact Hbuild].
    - destruct y; try discriminate. apply andb_true_iff in Happ as [He _]. exists l. split; [auto|].
      split; [exact He|exact Hbuild]. }
  destruct Hsub as (bs & Hshape & Hex & Hnew). clear Happ Hbuild.
  assert (Hnew' : exists df ms e, bd_loop 0 bs (fun _ => None) = Some (df, ms, e) /\
            d = mkBD (map (fun b => match df b with Some j => Z.of_nat j | None => (-1)%Z end) bytes256) ms e).
  { unfold bd_new in Hnew.
    assert (Hin : (match sub with Capture x => x | _ => sub end) = Alt bs) by (destruct Hshape; subst; reflexivity).
    rewrite Hin in Hnew. destruct ((length bs <? 2) || (127 <? length bs)); [discriminate|].
    destruct (bd_loop 0 bs (fun _ => None)) as [[[df ms] e]|]; [|discriminate].
    inversion Hnew. eauto. }
  destruct Hnew' as (df & ms & e & Hloop & Hd).
  (* the reference *)
  assert (Hbt : forall s, bt h (Concat [BeginText; sub]) s = if s =? 0 then m_alt h bs (fun e => Some e) s else None).
  { intros s. unfold bt. rewrite m_Concat. cbn [m_concat]. rewrite m_BeginText.
    destruct (s =? 0); [|reflexivity]. destruct Hshape; subst sub; [|rewrite m_Capture]; now rewrite m_Alt. }
  rewrite first_match_anchored by (intros s Hs; rewrite Hbt; destruct s; [lia|reflexivity]).
  unfold bd_search_at. destruct (at_ =? 0); [|reflexivity]. rewrite Hbt. cbn [Nat.eqb].
  destruct h as [|b0 t].
  - (* empty haystack: no exact branch matches, canMatchEmpty is false *)
    assert (Hnone : forall l, forallb is_exact_branch l = true ->
              (forall x, In x l -> exists fs, first_bytes x = Some fs) -> m_alt [] l (fun e => Some e) 0 = None).
    { induction l as [|x tl IHl]; intros Hl Hfs; [reflexivity|]. cbn [m_alt].
      destruct (Hfs x (or_introl eq_refl)) as (fs & Hf). pose proof (branch_needs_fb x fs [] Hf) as Hn.
      cbn in Hn. unfold bt in Hn. rewrite Hn. cbn [orelse]. cbn [forallb] in Hl.
      apply andb_true_iff in Hl as [_ Hl]. apply IHl; [exact Hl|]. intros y Hy. apply Hfs. now right. }
    assert (Hall : forall l i disp df ms e, bd_loop i l disp = Some (df, ms, e) ->
              forall x, In x l -> exists fs, first_bytes x = Some fs).
    { induction l as [|x tl IHl]; intros i disp df' ms' e' Hl y Hy; [destruct Hy|].
      cbn [bd_loop] in Hl. destruct (first_bytes x) as [fs|] eqn:Hf; [|discriminate].
      destruct Hy as [<-|Hy]; [eauto|].
      destruct (negb (bset_nonempty fs)).
      - destruct (bd_loop (S i) tl disp) as [[[d2 m2] e2]|] eqn:Hr; [|discriminate]. eapply IHl; eauto.
      - destruct (existsb _ bytes256); [discriminate|].
        destruct (bd_loop (S i) tl _) as [[[d2 m2] e2]|] eqn:Hr; [|discriminate]. eapply IHl; eauto. }
    rewrite (Hnone bs Hex (Hall bs 0 _ df ms e Hloop)).
    (* canMatchEmpty = false: run the loop lemma on any one-byte haystack *)
    destruct (bd_loop_correct [0%N] 0%N [] eq_refl bs 0 _ df ms e Hloop Hex) as (He & _); [discriminate|].
    subst d e. reflexivity.
  - destruct (bd_loop_correct (b0 :: t) b0 t eq_refl bs 0 _ df ms e Hloop Hex) as (He & Hlen & Hdisp); [discriminate|].
    assert (Hdom : forall b v, df b = Some v -> (b < 256)%N).
    { apply (bd_loop_dom bs 0 _ df ms e Hloop). discriminate. }
    assert (Hidx : nth (N.to_nat b0) (bd_dispatch d) (-1)%Z =
                   match df b0 with Some j => Z.of_nat j | None => (-1)%Z end).
    { subst d. cbn [bd_dispatch]. rewrite bytes256_nth. destruct (N.ltb_spec0 b0 256) as [|Hge]; [reflexivity|].
      destruct (df b0) as [j|] eqn:Hj; [|reflexivity]. apply Hdom in Hj. lia. }
    destruct (df b0) as [v|] eqn:Hv.
    + destruct Hdisp as [(Hlt & _)|(_ & Hv2 & _ & Hm & Hms & Hexv)]; [lia|].
      rewrite Nat.sub_0_r in *. rewrite Hm.
      rewrite (bd_search_run d (b0 :: t) b0 t v eq_refl Hidx).
      assert (Hmsd : bd_matchers d = ms) by (subst d; reflexivity). rewrite Hmsd, Hms.
      now apply exact_branch_run.
    + destruct Hdisp as [_ Hm]. rewrite Hm. unfold bd_search. rewrite Hidx. reflexivity.
Qed.

(* ------------------------------------------------------------------ H6. anchored literal *)

Record alinfo_c := mkALc { alc_prefix : list N; alc_suffix : list N; alc_tbl : option (list bool);
                           alc_ccmin : nat; alc_wmin : nat; alc_minlen : nat; alc_nonl : bool }.

(* meta/anchored_literal.go:extractLiteral (current): no FoldCase; every rune UTF-8 encoded *)
Definition extract_literal (r : re) : option (list N) :=
  match r with
  | Lit _ [] => None
  | Lit fold rs => if fold then None else Some (lit_bytes rs)
  | _ => None
  end.

Definition wild_nonl (r : re) : bool :=
  match r with Star _ AnyNotNL | Plus _ AnyNotNL => true | _ => false end.

(* the scan of DetectAnchoredLiteral (current): the bridge class must be ASCII; the wildcard
   remembers whether it is `.` without (?s) *)
Fixpoint al_scan (mid : list re) (prefix : list N) (wild : option (nat * bool)) (tbl : option (list bool))
  : option (list N * nat * bool * option (list bool)) :=
  match mid with
  | [] => match wild with Some (w, nl) => Some (prefix, w, nl, tbl) | None => None end
  | x :: t =>
      if is_wildcard x then
        match wild with Some _ => None | None => al_scan t prefix (Some (wildcard_min x, wild_nonl x)) tbl end
      else match wild with
           | None => match extract_literal x with
                     | Some lit => al_scan t (prefix ++ lit) wild tbl
                     | None => None
                     end
           | Some _ =>
               match x, t with
               | Plus _ (Class rs), [] => if ascii_ranges rs then al_scan t prefix wild (Some (clip_tbl rs)) else None
               | _, _ => None
               end
           end
  end.

(* subs[1:len-2], subs[len-2], subs[len-1] *)
Fixpoint split_last2 (l : list re) : option (list re * re * re) :=
  match l with
  | [] => None
  | x :: t => match t with
              | [] => None
              | [z] => Some ([], x, z)
              | _ => match split_last2 t with Some (md, s, z) => Some (x :: md, s, z) | None => None end
              end
  end.

(* meta/anchored_literal.go:DetectAnchoredLiteral (current) *)
Definition al_detect (r : re) : option alinfo_c :=
  match r with
  | Concat (a :: rest) =>
      if negb (is_begin a) then None else
      match split_last2 rest with
      | None => None
      | Some (mid, sfx, z) =>
          if negb (is_end_anchor z) then None else
          match extract_literal sfx with
          | None => None
          | Some suffix =>
              match al_scan mid [] None None with
              | None => None
              | Some (prefix, w, nl, tbl) =>
                  let ccmin := match tbl with Some _ => 1 | None => 0 end in
                  Some (mkALc prefix suffix tbl ccmin w (length prefix + w + ccmin + length suffix) nl)
              end
          end
      end
  | _ => None
  end.

(* nfa/compile.go:isEndAnchored (IsPatternEndAnchored additionally excludes internal end
   anchors, which cannot occur in the shapes DetectAnchoredLiteral accepts) *)
Fixpoint is_end_anchored (r : re) : bool :=
  match r with
  | EndText => true
  | Concat l => (fix go (l : list re) : bool :=
                   match l with [] => false | x :: t => match t with [] => is_end_anchored x | _ => go t end end) l
  | Capture x => is_end_anchored x
  | Alt l => negb (length l =? 0) &&
             (fix go (l : list re) : bool := match l with [] => true | x :: t => is_end_anchored x && go t end) l
  | _ => false
  end.

(* meta/strategy.go:SelectStrategy: isStartAnchored && isEndAnchored && DetectAnchoredLiteral != nil *)
Definition al_selected (r : re) : bool :=
  is_pattern_anchored r && is_end_anchored r && isSome (al_detect r).

Definition has_nl (l : list N) : bool := existsb (fun b => (b =? 10)%N) l.

(* the loop `for i := charClassEnd-1; i >= charClassStart; i--` of MatchAnchoredLiteral:
   [e] = i+1, [fuel] = number of positions left in the window *)
Fixpoint back_scan (f : N -> bool) (h : list N) (e fuel : nat) {struct fuel} : nat :=
  match fuel with
  | 0 => 0
  | S k => match e with
           | 0 => 0
           | S i => match nth_error h i with
                    | Some b => if f b then S (back_scan f h i k) else 0
                    | None => 0
                    end
           end
  end.

(* meta/anchored_literal.go:MatchAnchoredLiteral (current) *)
Definition al_match_c (a : alinfo_c) (h : list N) : bool :=
  if length h <? alc_minlen a then false else
  if negb (prefix_eqb (alc_prefix a) h) then false else
  let pl := length (alc_prefix a) in
  let ss := length h - length (alc_suffix a) in
  if negb (prefix_eqb (alc_suffix a) (skipn ss h)) then false else
  match alc_tbl a with
  | None =>
      if ss - pl <? alc_wmin a then false
      else negb (alc_nonl a) || negb (has_nl (firstn (ss - pl) (skipn pl h)))
  | Some t =>
      let ccStart := pl + alc_wmin a in
      let found := back_scan (tbl_get t) h ss (ss - ccStart) in
      if found <? alc_ccmin a then false
      else negb (alc_nonl a) || negb (has_nl (firstn (ss - found - pl) (skipn pl h)))
  end.

Definition al_search_at_c (a : alinfo_c) (h : list N) (at_ : nat) : option (nat * nat) :=
  if (at_ =? 0) && al_match_c a h then Some (0, length h) else None.

(* ---- runs ---- *)
Definition run (f : N -> bool) (h : list N) (a b : nat) : Prop :=
  forall q, a <= q -> q < b -> exists x, nth_error h q = Some x /\ f x = true.

Lemma run_mono f h a b a' b' : run f h a b -> a <= a' -> b' <= b -> run f h a' b'.
Proof. intros H Ha Hb q H1 H2. apply H; lia. Qed.

Lemma run_ext f g h a b : (forall x, f x = g x) -> run f h a b -> run g h a b.
Proof. intros He H q H1 H2. destruct (H q H1 H2) as (x & Hx & Hf). exists x. now rewrite <- He. Qed.

Lemma scan_at_ge_iff f h p n : n <= scan_at f h p <-> run f h p (p + n).
Proof.
  revert p. induction n as [|n IH]; intros p.
  - split; [intros _ q H1 H2; lia|lia].
  - split.
    + intros Hn. destruct (nth_error h p) as [x|] eqn:Hx.
      * destruct (f x) eqn:Hf.
        -- rewrite (scan_at_hit _ _ _ _ Hx Hf) in Hn. intros q H1 H2.
           destruct (Nat.eq_dec q p) as [->|Hne]; [eauto|]. apply (proj1 (IH (S p))); lia.
        -- rewrite (scan_at_miss _ _ _ _ Hx Hf) in Hn. lia.
      * rewrite (scan_at_end _ _ _ Hx) in Hn. lia.
    + intros Hr. destruct (Hr p) as (x & Hx & Hf); try lia.
      rewrite (scan_at_hit _ _ _ _ Hx Hf). apply le_n_S. apply IH. eapply run_mono; eauto; lia.
Qed.

Lemma back_scan_ge_iff f h : forall fuel e k,
  k <= back_scan f h e fuel <-> k <= fuel /\ k <= e /\ run f h (e - k) e.
Proof.
  induction fuel as [|fu IH]; intros e k.
  - cbn [back_scan]. split.
    + intros Hk. assert (k = 0) by lia. subst k. split; [lia|]. split; [lia|]. intros q H1 H2. lia.
    + intros (H & _). lia.
  - cbn [back_scan]. destruct e as [|i].
    + split.
      * intros Hk. assert (k = 0) by lia. subst k. split; [lia|]. split; [lia|]. intros q H1 H2. lia.
      * intros (_ & H & _). lia.
    + destruct k as [|k].
      { split; [intros _; split; [lia|]; split; [lia|]; intros q H1 H2; lia|lia]. }
      destruct (nth_error h i) as [x|] eqn:Hx.
      * destruct (f x) eqn:Hf.
        -- split.
           ++ intros Hk. apply le_S_n in Hk. apply IH in Hk as (H1 & H2 & H3). split; [lia|]. split; [lia|].
              intros q Hq1 Hq2. destruct (Nat.eq_dec q i) as [->|Hne]; [eauto|]. apply H3; lia.
           ++ intros (H1 & H2 & H3). apply le_n_S. apply IH. split; [lia|]. split; [lia|].
              eapply run_mono; eauto; lia.
        -- split; [lia|]. intros (_ & _ & H3). destruct (H3 i) as (y & Hy & Hfy); try lia. congruence.
      * split; [lia|]. intros (_ & _ & H3). destruct (H3 i) as (y & Hy & _); try lia. congruence.
Qed.

Lemma back_scan_le f h : forall fuel e, back_scan f h e fuel <= fuel /\ back_scan f h e fuel <= e.
Proof. intros fuel e. destruct (proj1 (back_scan_ge_iff f h fuel e _) (le_n _)) as (H1 & H2 & _). lia. Qed.

Lemma skipn_add {T} (l : list T) a b : skipn (a + b) l = skipn b (skipn a l).
Proof.
  revert l. induction a as [|a IH]; intros l; [reflexivity|]. destruct l as [|x t]; cbn [Nat.add skipn].
  - now destruct b.
  - apply IH.
Qed.

Lemma forallb_firstn_run f h p n : p + n <= length h ->
  (forallb f (firstn n (skipn p h)) = true <-> run f h p (p + n)).
Proof.
  revert p. induction n as [|n IH]; intros p Hlen.
  - cbn. split; [intros _ q H1 H2; lia|reflexivity].
  - destruct (nth_error h p) as [x|] eqn:Hx; [|apply nth_error_None in Hx; lia].
    rewrite (skipn_nth_error _ _ _ Hx). cbn [firstn forallb]. split.
    + intros H. apply andb_true_iff in H as [Hf Ht]. apply (IH (S p)) in Ht; [|lia].
      intros q H1 H2. destruct (Nat.eq_dec q p) as [->|Hne]; [eauto|]. apply Ht; lia.
    + intros Hr. destruct (Hr p) as (y & Hy & Hfy); try lia. rewrite Hx in Hy. inversion Hy; subst y.
      rewrite Hfy. cbn [andb]. apply (IH (S p)); [lia|]. eapply run_mono; eauto; lia.
Qed.

Lemma has_nl_run h p n : p + n <= length h ->
  (has_nl (firstn n (skipn p h)) = false <-> run (fun b => negb (b =? 10)%N) h p (p + n)).
Proof.
  intros Hlen. rewrite <- (forallb_firstn_run _ h p n Hlen). unfold has_nl.
  induction (firstn n (skipn p h)) as [|x t IH]; cbn [existsb forallb]; [tauto|].
  destruct (x =? 10)%N; cbn [negb orb andb]; [split; discriminate|exact IH].
Qed.

Lemma run_len f h a b : run f h a b -> a < b -> b <= length h.
Proof.
  intros H Hab. destruct (H (b - 1)) as (x & Hx & _); try lia.
  assert (b - 1 < length h) by (apply nth_error_Some; congruence). lia.
Qed.

Lemma run_any h a b : b <= length h -> run (fun _ => true) h a b.
Proof.
  intros Hb q H1 H2. destruct (nth_error h q) as [x|] eqn:Hx; [eauto|].
  apply nth_error_None in Hx. lia.
Qed.

(* ---- results only come from the continuation ---- *)
Definition kconst (L : nat) (K : cont) : Prop := forall q e, K q = Some e -> e = L.

Lemma orelse_some a b e : orelse a b = Some e -> a = Some e \/ b = Some e.
Proof. destruct a; cbn; auto. Qed.

Lemma step1_const h f L K : kconst L K -> kconst L (step1 h f K).
Proof.
  intros HK q e H. unfold step1 in H. destruct (nth_error h q); [|discriminate].
  destruct (f n); [|discriminate]. eauto.
Qed.

Lemma star_const h f L K g : kconst L K -> forall fuel, kconst L (star_loop fuel g (step1 h f) K).
Proof.
  intros HK. induction fuel as [|fu IH]; intros q e H; cbn [star_loop] in H; [eauto|]. cbv zeta in H.
  assert (Hi : kconst L (step1 h f (fun p => if q <? p then star_loop fu g (step1 h f) K p else None))).
  { apply step1_const. intros p e' Hp. destruct (q <? p); [eauto|discriminate]. }
  destruct g; apply orelse_some in H as [H|H]; eauto.
Qed.

(* one-byte-test repetition, `*` or `+`, any greediness: which continuations are reachable *)
Lemma rep_ok h f g (plus : bool) K q :
  isSome ((if plus then (fun k => step1 h f (star_loop (fuel0 h) g (step1 h f) k))
           else star_loop (fuel0 h) g (step1 h f)) K q) = true
  <-> exists n, (if plus then 1 else 0) <= n /\ n <= scan_at f h q /\ isSome (K (q + n)) = true.
Proof.
  destruct plus.
  - unfold step1 at 1. split.
    + intros H. destruct (nth_error h q) as [b|] eqn:Hb; [|discriminate].
      destruct (f b) eqn:Hfb; [|discriminate].
      apply star_ok_elim in H as (n & Hn & HK). exists (S n). rewrite (scan_at_hit _ _ _ _ Hb Hfb).
      split; [lia|]. split; [lia|]. now replace (q + S n) with (S q + n) by lia.
    + intros (n & H1 & Hn & HK). destruct (nth_error h q) as [b|] eqn:Hb.
      * destruct (f b) eqn:Hfb.
        -- rewrite (scan_at_hit _ _ _ _ Hb Hfb) in Hn. destruct n as [|n]; [lia|].
           apply (star_ok_intro h f g K n); try lia; [apply fuel0_enough|].
           now replace (S q + n) with (q + S n) by lia.
        -- rewrite (scan_at_miss _ _ _ _ Hb Hfb) in Hn. lia.
      * rewrite (scan_at_end _ _ _ Hb) in Hn. lia.
  - split.
    + intros H. apply star_ok_elim in H as (n & Hn & HK). exists n. split; [lia|]. split; assumption.
    + intros (n & _ & Hn & HK). apply (star_ok_intro h f g K n); try assumption. apply fuel0_enough.
Qed.

Definition wf_byte (nl : bool) : N -> bool := if nl then (fun b => negb (b =? 10)%N) else (fun _ => true).

Lemma wildcard_m h W : is_wildcard W = true ->
  exists g, m h W = (if wildcard_min W =? 1
                     then (fun k => step1 h (wf_byte (wild_nonl W)) (star_loop (fuel0 h) g (step1 h (wf_byte (wild_nonl W))) k))
                     else star_loop (fuel0 h) g (step1 h (wf_byte (wild_nonl W)))).
Proof.
  destruct W as [| |g x|g x| | | | | | | | | | |]; try discriminate; destruct x; try discriminate; intros _; exists g; reflexivity.
Qed.

Lemma m_concat_app h l1 l2 K : m_concat h (l1 ++ l2) K = m_concat h l1 (m_concat h l2 K).
Proof. induction l1 as [|x t IH]; cbn [app m_concat]; [reflexivity|]. now rewrite IH. Qed.

Lemma prefix_eqb_app a b l : prefix_eqb (a ++ b) l = prefix_eqb a l && prefix_eqb b (skipn (length a) l).
Proof.
  revert l. induction a as [|x a IH]; intros l; cbn [app prefix_eqb length skipn]; [reflexivity|].
  destruct l as [|y l]; [reflexivity|]. rewrite IH. now rewrite andb_assoc.
Qed.

Lemma extract_literal_spec x lit : extract_literal x = Some lit ->
  exists rs, x = Lit false rs /\ lit = lit_bytes rs.
Proof.
  destruct x as [f rs| | | | | | | | | | | | | |]; try discriminate. destruct rs as [|r0 rs]; [discriminate|].
  cbn [extract_literal]. destruct f; [discriminate|]. intros H. inversion H. eauto.
Qed.

Definition bridge_ok (h : list N) (tbl : option (list bool)) (q c : nat) : Prop :=
  match tbl with None => c = 0 | Some t => 1 <= c /\ c <= scan_at (tbl_get t) h q end.

Lemma al_scan_sem h : forall mid pfx P w nl tbl,
  al_scan mid pfx None None = Some (P, w, nl, tbl) ->
  exists A, P = pfx ++ A /\
  forall K L, kconst L K ->
    kconst L (m_concat h mid K) /\
    forall pos, isSome (m_concat h mid K pos) = true <->
      prefix_eqb A (skipn pos h) = true /\
      exists n c, w <= n /\ n <= scan_at (wf_byte nl) h (pos + length A) /\
                  bridge_ok h tbl (pos + length A + n) c /\
                  isSome (K (pos + length A + n + c)) = true.
Proof.
  induction mid as [|x t IH]; intros pfx P w nl tbl Hs; [discriminate|].
  cbn [al_scan] in Hs. destruct (is_wildcard x) eqn:Hw.
  - (* the wildcard: what follows is nothing or the bridge *)
    destruct (wildcard_m h x Hw) as (g & Hm).
    assert (Hplus : (wildcard_min x =? 1) = match wildcard_min x with 1 => true | _ => false end)
      by (destruct x; reflexivity).
    destruct t as [|y t'].
    + cbn [al_scan] in Hs. inversion Hs; subst P w nl tbl; clear Hs. exists []. split; [now rewrite app_nil_r|].
      intros K L HK. cbn [m_concat]. rewrite Hm. split.
      * destruct (wildcard_min x =? 1); [apply step1_const|]; now apply star_const.
      * intros pos. cbn [prefix_eqb length]. rewrite Nat.add_0_r.
        rewrite (rep_ok h (wf_byte (wild_nonl x)) g (wildcard_min x =? 1) K pos). split.
        -- intros (n & H1 & H2 & H3). split; [reflexivity|]. exists n, 0. split.
           { destruct x; try discriminate; cbn in *; lia. }
           split; [exact H2|]. split; [reflexivity|]. now rewrite Nat.add_0_r.
        -- intros (_ & n & c & H1 & H2 & H3 & H4). cbn [bridge_ok] in H3. subst c. rewrite Nat.add_0_r in H4.
           exists n. split; [|split; assumption]. destruct x; try discriminate; cbn in *; lia.
    + cbn [al_scan] in Hs. destruct (is_wildcard y) eqn:Hwy; [discriminate|].
      destruct y as [| | |gy cy| | | | | | | | | | |]; try discriminate.
      destruct cy as [|rs| | | | | | | | | | | | |]; try discriminate. destruct t'; [|discriminate].
      destruct (ascii_ranges rs) eqn:Hasc; [|discriminate]. cbn [al_scan] in Hs.
      inversion Hs; subst P w nl tbl; clear Hs. exists []. split; [now rewrite app_nil_r|].
      intros K L HK. cbn [m_concat]. rewrite Hm.
      set (B := fun k => step1 h (cls_byte rs) (star_loop (fuel0 h) gy (step1 h (cls_byte rs)) k)).
      change (m h (Plus gy (Class rs)) K) with (B K).
      assert (HB : kconst L (B K)) by (apply step1_const; now apply star_const).
      split.
      * destruct (wildcard_min x =? 1); [apply step1_const|]; now apply star_const.
      * intros pos. cbn [prefix_eqb length]. rewrite Nat.add_0_r.
        rewrite (rep_ok h (wf_byte (wild_nonl x)) g (wildcard_min x =? 1) (B K) pos).
        assert (Hbr : forall q, isSome (B K q) = true <->
                  exists c, 1 <= c /\ c <= scan_at (tbl_get (clip_tbl rs)) h q /\ isSome (K (q + c)) = true).
        { intros q. rewrite (scan_at_ext _ _ h q (clip_ascii _ Hasc)).
          exact (rep_ok h (cls_byte rs) gy true K q). }
        split.
        -- intros (n & H1 & H2 & H3). apply Hbr in H3 as (c & Hc1 & Hc2 & Hc3). split; [reflexivity|].
           exists n, c. split; [destruct x; try discriminate; cbn in *; lia|]. split; [exact H2|].
           split; [split; assumption|exact Hc3].
        -- intros (_ & n & c & H1 & H2 & (Hc1 & Hc2) & H4). exists n.
           split; [destruct x; try discriminate; cbn in *; lia|]. split; [exact H2|].
           apply Hbr. exists c. auto.
  - (* a prefix literal *)
    destruct (extract_literal x) as [lit|] eqn:Hl; [|discriminate].
    destruct (extract_literal_spec _ _ Hl) as (rs & -> & ->).
    destruct (IH _ _ _ _ _ Hs) as (A' & HP & Hsem). exists (lit_bytes rs ++ A'). split; [now rewrite app_assoc|].
    intros K L HK. destruct (Hsem K L HK) as [Hc Hiff]. cbn [m_concat m]. split.
    + intros q e H. rewrite lit_m_prefix in H. destruct (prefix_eqb _ _); [eauto|discriminate].
    + intros pos. rewrite lit_m_prefix, prefix_eqb_app, app_length.
      destruct (prefix_eqb (lit_bytes rs) (skipn pos h)); cbn [andb].
      * rewrite Hiff. rewrite <- skipn_add.
        replace (pos + (length (lit_bytes rs) + length A')) with (pos + length (lit_bytes rs) + length A') by lia.
        reflexivity.
      * split; [discriminate|]. intros (H & _). discriminate.
Qed.

Lemma split_last2_spec : forall l mid s z, split_last2 l = Some (mid, s, z) -> l = mid ++ [s; z].
Proof.
  induction l as [|x t IH]; intros mid s z H; [discriminate|]. cbn [split_last2] in H.
  destruct t as [|y t']; [discriminate|]. destruct t' as [|y' t''].
  - inversion H; subst. reflexivity.
  - destruct (split_last2 (y :: y' :: t'')) as [[[md s'] z']|] eqn:Hr; [|discriminate].
    inversion H; subst. cbn [app]. f_equal. now apply IH.
Qed.

Lemma is_end_anchored_last l z :
  (fix go (l : list re) : bool :=
     match l with [] => false | x :: t => match t with [] => is_end_anchored x | _ => go t end end) (l ++ [z])
  = is_end_anchored z.
Proof.
  induction l as [|x t IH]; [reflexivity|]. cbn [app].
  remember (t ++ [z]) as u eqn:Hu. destruct u as [|y u'].
  - destruct t; discriminate.
  - exact IH.
Qed.

Lemma is_end_anchored_concat_last l z : is_end_anchored (Concat (l ++ [z])) = is_end_anchored z.
Proof. exact (is_end_anchored_last l z). Qed.

Lemma al_match_spec h P S tbl w nl :
  let a := mkALc P S tbl (match tbl with Some _ => 1 | None => 0 end) w
                 (length P + w + (match tbl with Some _ => 1 | None => 0 end) + length S) nl in
  al_match_c a h = true <->
  prefix_eqb P h = true /\
  exists n c, w <= n /\ n <= scan_at (wf_byte nl) h (length P) /\ bridge_ok h tbl (length P + n) c /\
              prefix_eqb S (skipn (length P + n + c) h) = true /\ length P + n + c + length S = length h.
Proof.
  intros a. unfold al_match_c. subst a. cbn [alc_minlen alc_prefix alc_suffix alc_tbl alc_wmin alc_nonl alc_ccmin].
  set (pl := length P). set (sl := length S). set (len := length h).
  assert (Hwf : forall x y, run (wf_byte nl) h x y <->
                 (nl = false /\ run (fun _ => true) h x y) \/ (nl = true /\ run (fun b => negb (b =? 10)%N) h x y)).
  { intros x y. destruct nl; cbn [wf_byte]; split; intros H; try tauto; destruct H as [[? ?]|[? ?]]; try discriminate; auto. }
  split.
  - (* the matcher accepts -> the reference has a witness *)
    intros H.
    destruct (Nat.ltb_spec0 len (pl + w + match tbl with Some _ => 1 | None => 0 end + sl)) as [|Hlen]; [discriminate|].
    destruct (prefix_eqb P h) eqn:HP; [|discriminate]. cbn [negb] in H. split; [reflexivity|].
    destruct (prefix_eqb S (skipn (len - sl) h)) eqn:HS; [|discriminate]. cbn [negb] in H.
    destruct tbl as [t|].
    + set (found := back_scan (tbl_get t) h (len - sl) (len - sl - (pl + w))) in *.
      destruct (Nat.ltb_spec0 found 1) as [|Hf]; [discriminate|].
      destruct (proj1 (back_scan_ge_iff (tbl_get t) h _ _ found) (le_n _)) as (Hf1 & Hf2 & Hrun).
      fold found in Hf1, Hf2, Hrun.
      exists (len - sl - found - pl), found. split; [lia|]. split.
      * apply scan_at_ge_iff. apply Hwf. destruct nl; [right|left]; (split; [reflexivity|]).
        -- cbn [negb orb] in H. apply negb_true_iff in H. apply has_nl_run in H; [exact H|lia].
        -- apply run_any. lia.
      * split.
        -- cbn [bridge_ok]. split; [lia|]. apply scan_at_ge_iff.
           replace (pl + (len - sl - found - pl)) with (len - sl - found) by lia.
           replace (len - sl - found + found) with (len - sl) by lia. exact Hrun.
        -- replace (pl + (len - sl - found - pl) + found) with (len - sl) by lia. split; [exact HS|lia].
    + destruct (Nat.ltb_spec0 (len - sl - pl) w) as [|Hm]; [discriminate|].
      exists (len - sl - pl), 0. split; [lia|]. split.
      * apply scan_at_ge_iff. apply Hwf. destruct nl; [right|left]; (split; [reflexivity|]).
        -- cbn [negb orb] in H. apply negb_true_iff in H. apply has_nl_run in H; [exact H|lia].
        -- apply run_any. lia.
      * split; [reflexivity|]. replace (pl + (len - sl - pl) + 0) with (len - sl) by lia. split; [exact HS|lia].
  - (* a witness of the reference -> the matcher accepts *)
    intros (HP & n & c & Hn1 & Hn2 & Hbr & HS & Hlen). rewrite HP. cbn [negb].
    assert (Hss : len - sl = pl + n + c) by lia. rewrite Hss, HS. cbn [negb].
    apply scan_at_ge_iff in Hn2. apply Hwf in Hn2.
    destruct tbl as [t|]; cbn [bridge_ok] in Hbr.
    + destruct Hbr as [Hc1 Hc2]. apply scan_at_ge_iff in Hc2.
      destruct (Nat.ltb_spec0 len (pl + w + 1 + sl)); [lia|].
      set (found := back_scan (tbl_get t) h (pl + n + c) (pl + n + c - (pl + w))).
      assert (Hk : Nat.min c (n + c - w) <= found).
      { apply back_scan_ge_iff. split; [lia|]. split; [lia|]. eapply run_mono; [exact Hc2| |]; lia. }
      destruct (Nat.ltb_spec0 found 1); [lia|].
      destruct nl; [|reflexivity]. cbn [negb orb]. apply negb_true_iff.
      destruct Hn2 as [[? _]|[_ Hr]]; [discriminate|].
      destruct (back_scan_le (tbl_get t) h (pl + n + c - (pl + w)) (pl + n + c)) as [Hb1 Hb2]. fold found in Hb1, Hb2.
      apply has_nl_run; [lia|]. eapply run_mono; [exact Hr| |]; lia.
    + subst c. destruct (Nat.ltb_spec0 len (pl + w + 0 + sl)); [lia|].
      replace (pl + n + 0 - pl) with n by lia. destruct (Nat.ltb_spec0 n w); [lia|].
      destruct nl; [|reflexivity]. cbn [negb orb]. apply negb_true_iff.
      destruct Hn2 as [[? _]|[_ Hr]]; [discriminate|]. apply has_nl_run; [lia|exact Hr].
Qed.

(* every pattern for which SelectStrategy picks UseAnchoredLiteral *)
Theorem anchored_literal_exact :
  forall r a, is_pattern_anchored r = true -> is_end_anchored r = true -> al_detect r = Some a ->
  forall h at_, al_search_at_c a h at_ = first_match h r at_.
Proof.
  intros r a Hanch Hend Hdet h at_.
  destruct r as [| | | | | |l| | | | | | | |]; try discriminate. destruct l as [|a0 rest]; [discriminate|].
  cbn [al_detect] in Hdet. cbn [is_pattern_anchored] in Hanch.
  destruct a0; try discriminate. cbn [is_begin negb] in Hdet. clear Hanch.
  destruct (split_last2 rest) as [[[mid sfx] z]|] eqn:Hsp; [|discriminate].
  apply split_last2_spec in Hsp. subst rest.
  destruct (is_end_anchor z) eqn:Hz; [|discriminate]. cbn [negb] in Hdet.
  assert (Hz' : z = EndText).
  { replace (BeginText :: mid ++ [sfx; z]) with ((BeginText :: mid ++ [sfx]) ++ [z]) in Hend
      by (cbn [app]; rewrite <- app_assoc; reflexivity).
    rewrite is_end_anchored_concat_last in Hend. destruct z; try discriminate. reflexivity. }
  subst z.
  destruct (extract_literal sfx) as [S|] eqn:Hsfx; [|discriminate].
  destruct (extract_literal_spec _ _ Hsfx) as (srs & -> & ->).
  destruct (al_scan mid [] None None) as [[[[P w] nl] tbl]|] eqn:Hscan; [|discriminate].
  inversion Hdet; subst a; clear Hdet.
  destruct (al_scan_sem h _ _ _ _ _ _ Hscan) as (A & HA & Hsem). cbn [app] in HA. subst A.
  set (S := lit_bytes srs) in *.
  set (Kend := fun p : nat => if p =? length h then Some p else None).
  set (Ksfx := lit_m h N.eqb S Kend).
  assert (HKc : kconst (length h) Ksfx).
  { intros q e H. unfold Ksfx in H. rewrite lit_m_prefix in H. destruct (prefix_eqb S (skipn q h)); [|discriminate].
    unfold Kend in H. destruct (Nat.eqb_spec (q + length S) (length h)); [|discriminate]. inversion H. lia. }
  assert (HKs : forall q, isSome (Ksfx q) = true <-> prefix_eqb S (skipn q h) = true /\ q + length S = length h).
  { intros q. unfold Ksfx. rewrite lit_m_prefix. destruct (prefix_eqb S (skipn q h)).
    - unfold Kend. destruct (Nat.eqb_spec (q + length S) (length h)); cbn [isSome].
      + split; auto.
      + split; [discriminate|]. intros [_ H]. contradiction.
    - split; [discriminate|]. intros [H _]. discriminate. }
  destruct (Hsem Ksfx (length h) HKc) as [Hconst Hiff].
  assert (Hbt : forall s, bt h (Concat (BeginText :: mid ++ [Lit false srs; EndText])) s =
                          if s =? 0 then m_concat h mid Ksfx s else None).
  { intros s. unfold bt. rewrite m_Concat. cbn [m_concat]. rewrite m_BeginText.
    destruct (s =? 0); [|reflexivity]. rewrite m_concat_app. reflexivity. }
  rewrite first_match_anchored by (intros s Hs; rewrite Hbt; destruct s; [lia|reflexivity]).
  unfold al_search_at_c. destruct (at_ =? 0); [|reflexivity]. cbn [andb]. rewrite Hbt. cbn [Nat.eqb].
  assert (Heq : al_match_c (mkALc P S tbl (match tbl with Some _ => 1 | None => 0 end) w
                   (length P + w + (match tbl with Some _ => 1 | None => 0 end) + length S) nl) h
                = isSome (m_concat h mid Ksfx 0)).
  { apply eq_true_iff_eq. rewrite al_match_spec, (Hiff 0). cbn [skipn Nat.add].
    split; intros (HP & n & c & H1 & H2 & H3 & H4); (split; [exact HP|]); exists n, c;
      (split; [exact H1|]); (split; [exact H2|]); (split; [exact H3|]).
    - apply HKs. exact H4.
    - apply HKs in H4. exact H4. }
  rewrite Heq. destruct (m_concat h mid Ksfx 0) as [e|] eqn:He; cbn [isSome]; [|reflexivity].
  apply Hconst in He. now subst e.
Qed.

(* ------------------------------------------------------------------ H7. CompositeSequenceDFA *)

(* nfa/composite_dfa.go:IsCompositeSequenceDFAPattern BEFORE fix f33db41 (after ef62930): only
   minMatch == 0 was rejected *)
Definition cdfa_applicable_original_f33db41 (r : re) : bool :=
  match comp_build r with
  | Some ps => (length ps <=? 8) && forallb (fun p => negb (p_min p =? 0) && (p_max p =? 0)) ps
  | None => false
  end.

(* nfa/composite_dfa.go:SearchAt (current): after an attempt without an accepting position the
   outer loop simply continues with start+1 *)
Fixpoint cdfa_outer (fuel : nat) (ps : list part) (h : list N) (start : nat) : option (nat * nat) :=
  match fuel with
  | 0 => None
  | S fu =>
      match nth_error h start with
      | None => None
      | Some b =>
          match ps with
          | [] => None
          | p0 :: _ =>
              if tbl_get (p_tbl p0) b then
                let cfg0 := cdfa_first ps in
                match fst (cdfa_inner ps (skipn (S start) h) cfg0 (S start)
                             (if cdfa_accepting cfg0 then Some (S start) else None)) with
                | Some e => Some (start, e)
                | None => cdfa_outer fu ps h (S start)
                end
              else cdfa_outer fu ps h (S start)
          end
      end
  end.
Definition cdfa_search_at (ps : list part) (h : list N) (at_ : nat) : option (nat * nat) :=
  cdfa_outer (S (length h)) ps h at_.

(* ---- maxima are computed on codes: 0 = no match, S e = match ending at e ---- *)
Definition code (o : option nat) : nat := match o with Some x => S x | None => 0 end.

Fixpoint maxl (K : nat -> nat) (l : list nat) : nat :=
  match l with [] => 0 | x :: t => Nat.max (K x) (maxl K t) end.
Definition max_down (K : nat -> nat) (pos lo n : nat) : nat := maxl K (map (Nat.add pos) (range_down lo n)).

Lemma maxl_app K a b : maxl K (a ++ b) = Nat.max (maxl K a) (maxl K b).
Proof. induction a as [|x t IH]; cbn [app maxl]; [reflexivity|]. rewrite IH. lia. Qed.

Lemma max_down_lt K pos lo n : n < lo -> max_down K pos lo n = 0.
Proof. intros H. unfold max_down. now rewrite range_down_lt. Qed.
Lemma max_down_0_0 K pos : max_down K pos 0 0 = K pos.
Proof. unfold max_down. cbn. rewrite Nat.add_0_r. lia. Qed.
Lemma max_down_0_S K pos c : max_down K pos 0 (S c) = Nat.max (max_down K (S pos) 0 c) (K pos).
Proof.
  unfold max_down. rewrite range_down_0_S, map_app, maxl_app, map_add_S. cbn. rewrite Nat.add_0_r. lia.
Qed.
Lemma max_down_SS K pos lo c : max_down K pos (S lo) (S c) = max_down K (S pos) lo c.
Proof. unfold max_down. now rewrite range_down_SS, map_add_S. Qed.
Lemma max_down_S K pos lo n : lo <= S n -> max_down K pos lo (S n) = Nat.max (K (pos + S n)) (max_down K pos lo n).
Proof. intros H. unfold max_down. rewrite range_down_S by exact H. reflexivity. Qed.

Lemma In_range_down lo n k : In k (range_down lo n) <-> lo <= k /\ k <= n.
Proof.
  induction n as [|n IH].
  - destruct lo as [|lo]; [cbn; lia|]. rewrite range_down_lt by lia. cbn. lia.
  - destruct (Nat.le_gt_cases lo (S n)) as [Hle|Hgt].
    + rewrite range_down_S by exact Hle. cbn [In]. rewrite IH. lia.
    + rewrite range_down_lt by lia. cbn. lia.
Qed.

Lemma maxl_ge K l x : In x l -> K x <= maxl K l.
Proof. induction l as [|y t IH]; intros H; [destruct H|]. cbn [maxl]. destruct H as [->|H]; [lia|]. apply IH in H. lia. Qed.
Lemma maxl_attained K l : maxl K l <> 0 -> exists x, In x l /\ K x = maxl K l.
Proof.
  induction l as [|y t IH]; cbn [maxl]; [lia|]. intros H.
  destruct (Nat.max_spec (K y) (maxl K t)) as [[Hlt He]|[Hge He]]; rewrite He.
  - destruct IH as (x & Hx & Hk); [lia|]. exists x. split; [now right|exact Hk].
  - exists y. split; [now left|reflexivity].
Qed.

Lemma max_down_ge K pos lo n k : lo <= k -> k <= n -> K (pos + k) <= max_down K pos lo n.
Proof.
  intros H1 H2. unfold max_down. apply (maxl_ge K _ (pos + k)). apply in_map. apply In_range_down. lia.
Qed.
Lemma max_down_attained K pos lo n : max_down K pos lo n <> 0 ->
  exists k, lo <= k /\ k <= n /\ K (pos + k) = max_down K pos lo n.
Proof.
  intros H. unfold max_down in *. apply maxl_attained in H as (x & Hx & Hk).
  apply in_map_iff in Hx as (k & <- & Hin). apply In_range_down in Hin. exists k. split; [lia|]. split; [lia|exact Hk].
Qed.

Definition fp (p : part) : N -> bool := tbl_get (p_tbl p).
Definition plus_part (p : part) : Prop := p_min p = 1 /\ p_max p = 0.

(* end of the longest match of the (all `+`) parts from q, as a code *)
Fixpoint Mc (h : list N) (ps : list part) (q : nat) : nat :=
  match ps with
  | [] => S q
  | p :: t => max_down (Mc h t) q 1 (scan_at (fp p) h q)
  end.

(* feasible starts further right end further right (or equally far) *)
Lemma Mc_mono h : forall ps q1 q2, q1 <= q2 -> Mc h ps q1 <> 0 -> Mc h ps q2 <> 0 -> Mc h ps q1 <= Mc h ps q2.
Proof.
  induction ps as [|p t IH]; intros q1 q2 Hq H1 H2; cbn [Mc] in *; [lia|].
  destruct (Nat.eq_dec q1 q2) as [->|Hne]; [lia|].
  destruct (max_down_attained _ _ _ _ H1) as (k1 & Hk1 & Hk1' & He1).
  destruct (max_down_attained _ _ _ _ H2) as (k2 & Hk2 & Hk2' & He2).
  destruct (Nat.le_gt_cases (q1 + k1) q2) as [Hle|Hgt].
  - rewrite <- He1, <- He2. apply IH; lia.
  - (* q2 lies inside the run taken from q1: the same split point is available from q2 *)
    rewrite <- He1. replace (q1 + k1) with (q2 + (q1 + k1 - q2)) by lia. apply max_down_ge; [lia|].
    assert (Hs : scan_at (fp p) h q2 = scan_at (fp p) h q1 - (q2 - q1)).
    { replace q2 with (q1 + (q2 - q1)) at 1 by lia. apply scan_at_add. lia. }
    lia.
Qed.

(* on a continuation that is monotone in this sense, leftmost-first = longest *)
Lemma try_down_max (K : cont) (Kc : nat -> nat) pos lo :
  (forall q, code (K q) = Kc q) ->
  (forall q1 q2, q1 <= q2 -> Kc q1 <> 0 -> Kc q2 <> 0 -> Kc q1 <= Kc q2) ->
  forall n, code (try_down K pos lo n) = max_down Kc pos lo n.
Proof.
  intros HK Hmono. induction n as [|n IH].
  - destruct lo as [|lo].
    + rewrite try_down_0_0, max_down_0_0. apply HK.
    + rewrite try_down_lt, max_down_lt by lia. reflexivity.
  - destruct (Nat.le_gt_cases lo (S n)) as [Hle|Hgt].
    + rewrite max_down_S by exact Hle. unfold try_down. rewrite range_down_S by exact Hle. cbn [map try_list].
      fold (try_down K pos lo n). rewrite <- HK. destruct (K (pos + S n)) as [e|] eqn:He; cbn [orelse code].
      * assert (Hb : max_down Kc pos lo n <= S e).
        { destruct (Nat.eq_dec (max_down Kc pos lo n) 0) as [->|Hnz]; [lia|].
          destruct (max_down_attained _ _ _ _ Hnz) as (k & Hk1 & Hk2 & Hk3). rewrite <- Hk3.
          replace (S e) with (Kc (pos + S n)) by (rewrite <- HK, He; reflexivity).
          apply Hmono; try lia. rewrite <- HK, He. cbn. lia. }
        lia.
      * rewrite IH. lia.
    + rewrite try_down_lt, max_down_lt by lia. reflexivity.
Qed.

Lemma comp_match_Mc h ps : Forall plus_part ps ->
  forall q, code (comp_match h ps (fun e => Some e) q) = Mc h ps q.
Proof.
  induction 1 as [|p t [Hmin Hmax] Ht IH]; intros q; cbn [comp_match Mc]; [reflexivity|].
  unfold comp_can. rewrite Hmin, Hmax. cbn [Nat.ltb Nat.leb]. fold (fp p).
  apply try_down_max; [exact IH|apply Mc_mono].
Qed.

(* "inside part p, at least one byte taken": longest end *)
Definition Cc (h : list N) (p : part) (t : list part) (q : nat) : nat :=
  max_down (Mc h t) q 0 (scan_at (fp p) h q).

Lemma Mc_step h p t q b : nth_error h q = Some b ->
  Mc h (p :: t) q = if fp p b then Cc h p t (S q) else 0.
Proof.
  intros Hb. cbn [Mc]. unfold Cc. destruct (fp p b) eqn:Hf.
  - rewrite (scan_at_hit _ _ _ _ Hb Hf). apply max_down_SS.
  - rewrite (scan_at_miss _ _ _ _ Hb Hf). apply max_down_lt; lia.
Qed.
Lemma Cc_step h p t q b : nth_error h q = Some b ->
  Cc h p t q = Nat.max (Mc h t q) (if fp p b then Cc h p t (S q) else 0).
Proof.
  intros Hb. unfold Cc. destruct (fp p b) eqn:Hf.
  - rewrite (scan_at_hit _ _ _ _ Hb Hf). rewrite max_down_0_S. lia.
  - rewrite (scan_at_miss _ _ _ _ Hb Hf). rewrite max_down_0_0. lia.
Qed.
Lemma Mc_end h p t q : nth_error h q = None -> Mc h (p :: t) q = 0.
Proof. intros Hb. cbn [Mc]. rewrite (scan_at_end _ _ _ Hb). apply max_down_lt; lia. Qed.
Lemma Cc_end h p t q : nth_error h q = None -> Cc h p t q = Mc h t q.
Proof. intros Hb. unfold Cc. rewrite (scan_at_end _ _ _ Hb). apply max_down_0_0. Qed.

(* value of a DFA state: the best end reachable from any active part *)
Fixpoint Vc (h : list N) (ps : list part) (cfg : list bool) (q : nat) : nat :=
  match ps, cfg with
  | p :: t, c :: ct => Nat.max (if c then Cc h p t q else 0) (Vc h t ct q)
  | _, _ => 0
  end.

Lemma last_cons_default (c : bool) ct prev : last (c :: ct) prev = last ct c.
Proof.
  revert c prev. induction ct as [|x t IH]; intros c prev; [reflexivity|].
  change (last (c :: x :: t) prev) with (last (x :: t) prev). rewrite IH. symmetry. apply IH.
Qed.

Lemma Vc_step h q b : nth_error h q = Some b -> forall (ps : list part) (cfg : list bool) (prev : bool), length cfg = length ps ->
  Nat.max (if prev then Mc h ps q else 0) (Vc h ps cfg q) =
  Nat.max (if last cfg prev then S q else 0) (Vc h ps (cdfa_step ps prev cfg b) (S q)).
Proof.
  intros Hb. induction ps as [|p t IH]; intros cfg prev Hlen.
  - destruct cfg; [|discriminate]. cbn. lia.
  - destruct cfg as [|c ct]; [discriminate|]. cbn [length] in Hlen.
    cbn [Vc cdfa_step]. fold (fp p b). rewrite (Mc_step h p t q b Hb), (Cc_step h p t q b Hb).
    assert (Hl2 : length ct = length t) by lia. specialize (IH ct c Hl2).
    rewrite (last_cons_default c ct prev).
    destruct prev, c, (fp p b); cbn [andb orb] in *; lia.
Qed.

Lemma Vc_end h q : nth_error h q = None -> forall (ps : list part) (cfg : list bool) (prev : bool), length cfg = length ps ->
  Nat.max (if prev then Mc h ps q else 0) (Vc h ps cfg q) = if last cfg prev then S q else 0.
Proof.
  intros Hb. induction ps as [|p t IH]; intros cfg prev Hlen.
  - destruct cfg; [|discriminate]. cbn. lia.
  - destruct cfg as [|c ct]; [discriminate|]. cbn [length] in Hlen.
    cbn [Vc]. rewrite (Mc_end h p t q Hb), (Cc_end h p t q Hb).
    assert (Hl2 : length ct = length t) by lia. specialize (IH ct c Hl2).
    rewrite (last_cons_default c ct prev).
    destruct prev, c; lia.
Qed.

Lemma Vc_dead h ps cfg q : cdfa_dead cfg = true -> Vc h ps cfg q = 0.
Proof.
  unfold cdfa_dead. revert cfg. induction ps as [|p t IH]; intros cfg H; [reflexivity|].
  destruct cfg as [|c ct]; [reflexivity|]. cbn [existsb] in H. apply negb_true_iff in H.
  apply orb_false_iff in H as [-> H]. cbn [Vc]. rewrite IH; [lia|]. now rewrite H.
Qed.

Lemma Vc_acc h ps cfg q : length cfg = length ps -> last cfg false = true -> S q <= Vc h ps cfg q.
Proof.
  destruct (nth_error h q) as [b|] eqn:Hb; intros Hlen Hl.
  - pose proof (Vc_step h q b Hb ps cfg false Hlen) as H. rewrite Hl in H. lia.
  - pose proof (Vc_end h q Hb ps cfg false Hlen) as H. rewrite Hl in H. lia.
Qed.

Lemma cdfa_step_length ps : forall prev cfg b, length cfg = length ps -> length (cdfa_step ps prev cfg b) = length ps.
Proof.
  induction ps as [|p t IH]; intros prev cfg b H; [reflexivity|]. destruct cfg as [|c ct]; [discriminate|].
  cbn [cdfa_step length] in *. f_equal. apply IH. lia.
Qed.

(* the inner scan computes the value of its start state *)
Lemma cdfa_inner_value h ps : forall l q cfg la, l = skipn q h -> length cfg = length ps ->
  (cdfa_accepting cfg = true -> la = Some q) -> (forall x, la = Some x -> x <= q) ->
  code (fst (cdfa_inner ps l cfg q la)) = Nat.max (code la) (Vc h ps cfg q).
Proof.
  induction l as [|b t IH]; intros q cfg la Hl Hlen Hacc Hle.
  - cbn [cdfa_inner fst].
    assert (Hb : nth_error h q = None).
    { apply nth_error_None. destruct (Nat.le_gt_cases (length h) q); [assumption|].
      assert (length (skipn q h) = length h - q) by apply skipn_length. rewrite <- Hl in H0. cbn in H0. lia. }
    pose proof (Vc_end h q Hb ps cfg false Hlen) as H. cbn [Nat.max] in H.
    unfold cdfa_accepting in Hacc. remember (last cfg false) as lc eqn:Hlc. destruct lc.
    + rewrite (Hacc eq_refl) in *. cbn [code]. lia.
    + lia.
  - assert (Hb : nth_error h q = Some b).
    { rewrite <- (Nat.add_0_r q), <- nth_error_skipn', <- Hl. reflexivity. }
    assert (Hl' : t = skipn (S q) h).
    { rewrite (skipn_nth_error _ _ _ Hb) in Hl. now inversion Hl. }
    cbn [cdfa_inner]. set (nx := cdfa_step ps false cfg b).
    pose proof (Vc_step h q b Hb ps cfg false Hlen) as Hst. cbn in Hst. fold nx in Hst.
    assert (Hlennx : length nx = length ps) by (apply cdfa_step_length; exact Hlen).
    assert (Hacc' : (if last cfg false then S q else 0) <= code la).
    { unfold cdfa_accepting in Hacc. destruct (last cfg false); [rewrite (Hacc eq_refl); cbn; lia|lia]. }
    destruct (cdfa_dead nx) eqn:Hd.
    + cbn [fst]. rewrite (Vc_dead h ps nx (S q) Hd) in Hst. lia.
    + rewrite (IH (S q) nx _ Hl' Hlennx).
      * destruct (cdfa_accepting nx) eqn:Ha.
        -- pose proof (Vc_acc h ps nx (S q) Hlennx Ha). cbn [code].
           assert (code la <= S q) by (destruct la as [x|]; cbn; [specialize (Hle x eq_refl); lia|lia]). lia.
        -- lia.
      * intros Ha. now rewrite Ha.
      * intros x Hx. destruct (cdfa_accepting nx); [inversion Hx; lia|]. specialize (Hle x Hx). lia.
Qed.

Lemma Vc_first h p t q : Vc h (p :: t) (cdfa_first (p :: t)) q = Cc h p t q.
Proof.
  cbn [cdfa_first Vc]. rewrite (Vc_dead h t (map (fun _ => false) t) q); [lia|].
  unfold cdfa_dead. induction t as [|x t' IH]; [reflexivity|]. cbn [map existsb orb]. exact IH.
Qed.

(* one start position: the DFA attempt is the backtracking attempt *)
Lemma cdfa_attempt h ps s b p0 t : ps = p0 :: t -> Forall plus_part ps -> nth_error h s = Some b ->
  (if fp p0 b
   then fst (cdfa_inner ps (skipn (S s) h) (cdfa_first ps) (S s)
               (if cdfa_accepting (cdfa_first ps) then Some (S s) else None))
   else None) = comp_match h ps (fun e => Some e) s.
Proof.
  intros Hps Hplus Hb.
  assert (Hcode : forall a c : option nat, code a = code c -> a = c).
  { intros [x|] [y|]; cbn; intros H; try discriminate; [inversion H|]; reflexivity. }
  apply Hcode. rewrite (comp_match_Mc h ps Hplus). subst ps. rewrite (Mc_step h p0 t s b Hb).
  destruct (fp p0 b); [|reflexivity].
  rewrite (cdfa_inner_value h (p0 :: t) _ (S s) _ _ eq_refl).
  - rewrite Vc_first. destruct (cdfa_accepting (cdfa_first (p0 :: t))) eqn:Ha; [|cbn; lia].
    pose proof (Vc_acc h (p0 :: t) (cdfa_first (p0 :: t)) (S s)) as H. rewrite Vc_first in H. cbn [code].
    assert (S (S s) <= Cc h p0 t (S s)); [|lia]. apply H; [|exact Ha]. cbn [cdfa_first length]. now rewrite map_length.
  - cbn [cdfa_first length]. now rewrite map_length.
  - intros Ha. now rewrite Ha.
  - intros x Hx. destruct (cdfa_accepting _); [inversion Hx; lia|discriminate].
Qed.

Lemma cdfa_outer_loop h ps p0 t : ps = p0 :: t -> Forall plus_part ps ->
  forall n s fuel, s + n = S (length h) -> n <= fuel -> cdfa_outer fuel ps h s = comp_loop h ps n s.
Proof.
  intros Hps Hplus. induction n as [|n IH]; intros s fuel Hs Hf.
  { cbn [comp_loop]. destruct fuel as [|fu]; [reflexivity|]. cbn [cdfa_outer].
    assert (Hn : nth_error h s = None) by (apply nth_error_None; lia). now rewrite Hn. }
  destruct fuel as [|fu]; [lia|]. cbn [cdfa_outer comp_loop].
  destruct (nth_error h s) as [b|] eqn:Hb.
  - pose proof (cdfa_attempt h ps s b p0 t Hps Hplus Hb) as Hatt. rewrite Hps in *. fold (fp p0 b).
    rewrite <- Hatt. destruct (fp p0 b).
    + destruct (fst _); [reflexivity|]. apply IH; lia.
    + apply IH; lia.
  - (* s = length h: neither side can match *)
    assert (Hm : comp_match h ps (fun e => Some e) s = None).
    { pose proof (comp_match_Mc h ps Hplus s) as Hc. rewrite Hps in Hc. rewrite (Mc_end h p0 t s Hb) in Hc.
      rewrite Hps. destruct (comp_match h (p0 :: t) _ s); [discriminate|reflexivity]. }
    rewrite Hm. apply nth_error_None in Hb. assert (n = 0) by lia. subst n. reflexivity.
Qed.

(* original code before fix f33db41: IsCompositeSequenceDFAPattern only rejected minMatch == 0, but
   the automaton treats every part as `+` ("parts have minMatch=1, so one char = metMin"): a part
   x{n,} with n >= 2 is run as x+.  `[a-z]{2,}[0-9]+` on "a1": DFA [0,2], reference none. *)
Theorem composite_dfa_original_refuted :
  exists r ps h at_, cdfa_applicable_original_f33db41 r = true /\ comp_build r = Some ps /\ wf_re r = true /\
                     cdfa_search_at ps h at_ <> first_match h r at_.
Proof.
  exists (Concat [Repeat true 2 None (Class [(97,122)%N]); Plus true (Class [(48,57)%N])]).
  eexists. exists [97; 49]%N, 0.
  split; [reflexivity|]. split; [reflexivity|]. split; [reflexivity|]. vm_compute. discriminate.
Qed.

(* exact for every accepted pattern whose parts all have minimum 1 (x+, x{1,}) *)
Theorem composite_dfa_original_partial :
  forall r ps, cdfa_applicable_original_f33db41 r = true -> comp_build r = Some ps -> wf_re r = true ->
  forallb (fun p => p_min p =? 1) ps = true ->
  forall h at_, cdfa_search_at ps h at_ = first_match h r at_.
Proof.
  intros r ps Happ Hb Hw Hmin h at_. rewrite <- (composite_exact r ps Hb Hw h at_).
  unfold cdfa_applicable_original_f33db41 in Happ. rewrite Hb in Happ. apply andb_true_iff in Happ as [_ Hall].
  assert (Hplus : Forall plus_part ps).
  { apply Forall_forall. intros p Hp. rewrite forallb_forall in Hall, Hmin.
    specialize (Hall p Hp). specialize (Hmin p Hp). unfold plus_part.
    apply andb_true_iff in Hall as [_ H2]. apply Nat.eqb_eq in H2, Hmin. auto. }
  destruct ps as [|p0 t].
  { destruct r; try discriminate. cbn [comp_build] in Hb. destruct (comp_parts_list l) as [ps'|]; [|discriminate].
    destruct (length ps' <? 2) eqn:Hl; [discriminate|]. inversion Hb; subst ps'. discriminate. }
  unfold cdfa_search_at, comp_search_at.
  destruct (Nat.le_gt_cases at_ (S (length h))) as [Hle|Hgt].
  - apply (cdfa_outer_loop h (p0 :: t) p0 t eq_refl Hplus); lia.
  - replace (S (length h) - at_) with 0 by lia. cbn [comp_loop cdfa_outer].
    assert (Hn : nth_error h at_ = None) by (apply nth_error_None; lia). now rewrite Hn.
Qed.


(* nfa/composite_dfa.go:IsCompositeSequenceDFAPattern / NewCompositeSequenceDFA (current, f33db41):
   at most 8 parts, every part has minMatch == 1 and no maximum *)
Definition cdfa_applicable (r : re) : bool :=
  match comp_build r with
  | Some ps => (length ps <=? 8) && forallb (fun p => (p_min p =? 1) && (p_max p =? 0)) ps
  | None => false
  end.

Lemma cdfa_applicable_current r ps : cdfa_applicable r = true -> comp_build r = Some ps ->
  cdfa_applicable_original_f33db41 r = true /\ forallb (fun p => p_min p =? 1) ps = true.
Proof.
  unfold cdfa_applicable, cdfa_applicable_original_f33db41. intros H Hb. rewrite Hb in *.
  apply andb_true_iff in H as [Hl Hall]. rewrite Hl. cbn [andb].
  rewrite forallb_forall in Hall. split; apply forallb_forall; intros p Hp; specialize (Hall p Hp);
    apply andb_true_iff in Hall as [H1 H2].
  - rewrite H2. apply Nat.eqb_eq in H1. rewrite H1. reflexivity.
  - exact H1.
Qed.

(* every pattern the current test accepts, every haystack, every offset *)
Theorem composite_dfa_exact :
  forall r ps, cdfa_applicable r = true -> comp_build r = Some ps -> wf_re r = true ->
  forall h at_, cdfa_search_at ps h at_ = first_match h r at_.
Proof.
  intros r ps Happ Hb Hw h at_. destruct (cdfa_applicable_current r ps Happ Hb) as [Ho Hmin].
  now apply composite_dfa_original_partial.
Qed.

(* ================================================================== Z. case checker (models of the CURRENT code) *)

(* dumped construction data of one searcher *)
Inductive searcher :=
| SCharClass (s : ccs)
| SComposite (ps : list part)
| SCompositeDFA (ps : list part)
| SBranch (d : bdisp)
| SAnchoredLit (a : alinfo_c).

Definition T (rs : list (N * N)) : list bool := mk_table (in_ranges rs).
(* run-length decoding of a dumped dispatch table *)
Definition D (runs : list (nat * Z)) : list Z := flat_map (fun p => repeat (snd p) (fst p)) runs.

Definition run_searcher (s : searcher) (h : list N) (at_ : nat) : option (nat * nat) :=
  match s with
  | SCharClass c => cc_search_at c h at_
  | SComposite ps => comp_search_at ps h at_
  | SCompositeDFA ps => cdfa_search_at ps h at_
  | SBranch d => bd_search_at d h at_
  | SAnchoredLit a => al_search_at_c a h at_
  end.

Definition span_eqb (a b : option (nat * nat)) : bool :=
  match a, b with
  | None, None => true
  | Some (x, y), Some (u, v) => (x =? u) && (y =? v)
  | _, _ => false
  end.

(* model fidelity: the searcher MODEL, run on the construction data dumped from the Go object,
   reproduces the observed result *)
Record case := mkCase { c_id : N; c_s : searcher; c_h : list N; c_at : nat; c_obs : option (nat * nat) }.
Definition check_case (c : case) : bool := span_eqb (run_searcher (c_s c) (c_h c) (c_at c)) (c_obs c).
Definition mismatches (cs : list case) : list N :=
  map c_id (filter (fun c => negb (check_case c)) cs).

(* predicate / construction fidelity: the applicability predicates and builders of the model,
   run on the AST, reproduce what the Go predicates and constructors returned *)
Fixpoint list_eqb {A} (eq : A -> A -> bool) (a b : list A) : bool :=
  match a, b with
  | [], [] => true
  | x :: a', y :: b' => eq x y && list_eqb eq a' b'
  | _, _ => false
  end.
Definition part_eqb (p q : part) : bool :=
  list_eqb Bool.eqb (p_tbl p) (p_tbl q) && (p_min p =? p_min q) && (p_max p =? p_max q).
Definition bm_eqb (p q : bmatcher) : bool :=
  list_eqb N.eqb (bm_lit p) (bm_lit q) && Bool.eqb (bm_has p) (bm_has q) &&
  (if bm_has p then list_eqb Bool.eqb (bm_tbl p) (bm_tbl q) && (bm_min p =? bm_min q) else true).
Definition opt_tbl_eqb (a b : option (list bool)) : bool :=
  match a, b with None, None => true | Some x, Some y => list_eqb Bool.eqb x y | _, _ => false end.

Definition data_matches (r : re) (s : searcher) : bool :=
  match s with
  | SCharClass c => match cc_build r with
                    | Some c' => list_eqb Bool.eqb (cc_tbl c) (cc_tbl c') && (cc_min c =? cc_min c')
                    | None => false end
  | SComposite ps => match comp_build r with Some ps' => list_eqb part_eqb ps ps' | None => false end
  | SCompositeDFA ps => cdfa_applicable r &&
                        match comp_build r with Some ps' => list_eqb part_eqb ps ps' | None => false end
  | SBranch d => match bd_build r with
                 | Some d' => list_eqb Z.eqb (bd_dispatch d) (bd_dispatch d') &&
                              list_eqb bm_eqb (bd_matchers d) (bd_matchers d') &&
                              Bool.eqb (bd_empty d) (bd_empty d')
                 | None => false end
  | SAnchoredLit a => match al_detect r with
                      | Some a' => list_eqb N.eqb (alc_prefix a) (alc_prefix a') &&
                                   list_eqb N.eqb (alc_suffix a) (alc_suffix a') &&
                                   opt_tbl_eqb (alc_tbl a) (alc_tbl a') && (alc_ccmin a =? alc_ccmin a') &&
                                   (alc_wmin a =? alc_wmin a') && (alc_minlen a =? alc_minlen a') &&
                                   Bool.eqb (alc_nonl a) (alc_nonl a')
                      | None => false end
  end.

Record pcase := mkP {
  p_id : N; p_re : re;
  p_cc : bool;        (* nfa.IsSimpleCharClassPlus *)
  p_comp : bool;      (* nfa.IsCompositeCharClassPattern *)
  p_compb : bool;     (* nfa.NewCompositeSearcher != nil *)
  p_cdfa : bool;      (* nfa.IsCompositeSequenceDFAPattern *)
  p_bd : bool;        (* nfa.IsBranchDispatchPattern *)
  p_al : bool;        (* meta.DetectAnchoredLiteral != nil *)
  p_fb : option (list bool);   (* nfa.ExtractFirstBytes: nil / the 256 Contains bits *)
  p_data : list searcher       (* construction data dumped from the objects that were built *)
}.

Definition check_pcase (c : pcase) : bool :=
  let r := p_re c in
  Bool.eqb (cc_applicable r) (p_cc c) && Bool.eqb (is_composite r) (p_comp c) &&
  Bool.eqb (isSome (comp_build r)) (p_compb c) && Bool.eqb (cdfa_applicable r) (p_cdfa c) &&
  Bool.eqb (bd_applicable r) (p_bd c) && Bool.eqb (isSome (al_detect r)) (p_al c) &&
  opt_tbl_eqb (match first_bytes r with Some fs => Some (mk_table fs) | None => None end) (p_fb c) &&
  forallb (data_matches r) (p_data c).
Definition pred_mismatches (cs : list pcase) : list N :=
  map p_id (filter (fun c => negb (check_pcase c)) cs).

(* validation of the SPECIFICATION: Go's regexp.FindIndex on the same (AST, haystack) *)
Record scase := mkS { s_id : N; s_re : re; s_h : list N; s_obs : option (nat * nat) }.
Definition check_scase (c : scase) : bool := span_eqb (first_match (s_h c) (s_re c) 0) (s_obs c).
Definition spec_mismatches (cs : list scase) : list N :=
  map s_id (filter (fun c => negb (check_scase c)) cs).
