(* Cache.v — the byte accounting of the lazy DFA cache (dfa/lazy/cache.go) and the
   determinize / tryClearCache / getStartState protocol of dfa/lazy/lazy.go that drives it.

   Only what MemoryUsage() reads is modelled: the lengths of flatTrans / stateList / the
   states map, the sum of len(NFAStates) and of len(AccelExitBytes) over stateList, the
   capacity, nextID, clearCount.  Which NFA sets are built is irrelevant here: an operation
   sequence is ANY list of protocol steps with ANY sizes k <= max_k.

   Main results (every capacity, stride, MaxCacheClears, every operation sequence):
     cache_base_bound     4*flat + 8*list + 48*map + 4*ids  <  capacity + state_cost + slot0_cost
     cache_mem_bound      MemoryUsage  <  capacity + state_cost + slot0_cost + 3 * len(stateList)
     cache_mem_bound_obs  the same with len(stateList) <= Size() + 1   (what a client can observe)
     cache_mem_bound_closed   8 * MemoryUsage < 11 * (capacity + state_cost + slot0_cost)
     cache_mem_bound_refuted  "capacity + one state (incl. its accel bytes and the reserved slot 0)"
                          is FALSE: acceleration bytes are added to states long after their
                          insertion, without any capacity check (lazy.go:tryDetectAccelerationWithCache)
     clear_count_bounded  clearCount <= max(MaxCacheClears, initial clearCount)
     insert_monotone / insert_refused_when_full
     clear_releases / try_clear_inserts_start   a clear empties everything that is counted
                          (flatTrans is truncated since acc65c4), so the rebuilt start state fits
     work_events_bound    successful inserts + clears over a whole history without Reset
                          <= (MaxCacheClears+1) * (capacity/48 + 2)        (used by Cost.v, C05) *)
From Coq Require Import List NArith Lia Bool Arith PeanoNat.
From Coq Require Import ZifyBool ZifyNat ZifyN.
Import ListNotations.

(* dfa/lazy/cache.go: type DFACache.  next_id is the state INDEX: Go's nextID is
   premultiplied (nextID = next_id * stride).  `unchecked` is a ghost: the number of
   entries of stateList whose accelChecked flag is still false. *)
Record dcache := mkC {
  nstates_in_map : nat;   (* len(c.states) *)
  state_list_len : nat;   (* len(c.stateList) *)
  flat_len : nat;         (* len(c.flatTrans) *)
  stride : nat;
  sum_nfa_ids : nat;      (* sum of len(s.NFAStates()) over stateList *)
  sum_accel : nat;        (* sum of len(s.AccelExitBytes()) over stateList *)
  capacity : nat;         (* capacityBytes *)
  next_id : nat;
  clear_count : nat;
  unchecked : nat }.

(* dfa/lazy/lazy.go: NewCache *)
Definition new_cache (cap str : nat) : dcache := mkC 0 0 0 str 0 0 cap 1 0 0.

(* dfa/lazy/cache.go: MemoryUsage *)
Definition base_usage (c : dcache) : nat :=
  4 * flat_len c + 8 * state_list_len c + 48 * nstates_in_map c + 4 * sum_nfa_ids c.
Definition memory_usage (c : dcache) : nat := base_usage c + sum_accel c.

(* dfa/lazy/cache.go: Insert, for a key that is not in the map (the hit branch changes
   nothing).  fixed = the state already carries an id (tryClearCache passes StartState = 0):
   then nextID is not advanced and the row is row 0.  Returns the new cache, whether the
   state was inserted, and the index it got. *)
Definition insert (c : dcache) (fixed : bool) : dcache * bool * nat :=
  if capacity c <=? memory_usage c then (c, false, 0)
  else
    let id := if fixed then 0 else next_id c in
    let nx := if fixed then next_id c else S (next_id c) in
    let fl := if 0 <? stride c then Nat.max (flat_len c) ((id + 1) * stride c) else flat_len c in
    (mkC (S (nstates_in_map c)) (state_list_len c) fl (stride c) (sum_nfa_ids c) (sum_accel c)
         (capacity c) nx (clear_count c) (unchecked c), true, id).

(* dfa/lazy/cache.go: registerState, for a state of k NFA ids with index idx (never an
   occupied slot: reg_fresh_slot below) *)
Definition register_state (c : dcache) (idx k : nat) : dcache :=
  if stride c =? 0 then c
  else mkC (nstates_in_map c) (Nat.max (state_list_len c) (idx + 1)) (flat_len c) (stride c)
           (sum_nfa_ids c + k) (sum_accel c) (capacity c) (next_id c) (clear_count c) (S (unchecked c)).

(* dfa/lazy/cache.go: ClearKeepMemory — flatTrans is truncated to length 0 (since acc65c4;
   before that commit the rows were kept, and the checker below reported every raw trace) *)
Definition clear_keep_memory (c : dcache) : dcache :=
  mkC 0 0 0 (stride c) 0 0 (capacity c) 1 (S (clear_count c)) 0.

(* dfa/lazy/cache.go: Reset (pool reuse) and Clear (tests, DFA.ResetCache) — same accounting *)
Definition reset (c : dcache) : dcache :=
  mkC 0 0 0 (stride c) 0 0 (capacity c) 1 0 0.

(* dfa/lazy/cache.go: ResetClearCount (no caller outside tests in the pinned tree) *)
Definition reset_clear_count (c : dcache) : dcache :=
  mkC (nstates_in_map c) (state_list_len c) (flat_len c) (stride c) (sum_nfa_ids c) (sum_accel c)
      (capacity c) (next_id c) 0 (unchecked c).

(* dfa/lazy/lazy.go: tryDetectAccelerationWithCache on a registered, unchecked state;
   a = len(exitBytes) (State.SetAccelBytes keeps 1..3 bytes, otherwise none) *)
Definition set_accel (c : dcache) (a : nat) : dcache :=
  if (0 <? unchecked c) && (a <=? 3) then
    mkC (nstates_in_map c) (state_list_len c) (flat_len c) (stride c) (sum_nfa_ids c) (sum_accel c + a)
        (capacity c) (next_id c) (clear_count c) (unchecked c - 1)
  else c.

(* the protocol steps of lazy.go that touch the accounting *)
Inductive op :=
| OpDeterminize (k k0 k1 : nat) (hit_cur hit_new : bool)
                              (* determinize reaching cache.Insert with a new state of k NFA ids;
                                 k0 = size of the start state rebuilt by tryClearCache, k1 = size of
                                 the current state re-inserted after a clear; hit_cur / hit_new: that
                                 state is found in the fresh cache (it is the start state) *)
| OpStartState (k : nat)      (* getStartState / getStartStateForReverse miss: GetOrInsert *)
| OpAccel (a : nat)
| OpHit                       (* key found: nothing changes *)
| OpReset                     (* Reset / Clear *)
| OpResetClearCount.

Definition no_reset_op (o : op) : Prop :=
  match o with OpReset | OpResetClearCount => False | _ => True end.

Section Protocol.
  Variable max_clears : nat.  (* d.config.MaxCacheClears *)

  (* dfa/lazy/lazy.go: tryClearCache after the capacity test *)
  Definition try_clear (c : dcache) (k0 : nat) : dcache :=
    let c2 := clear_keep_memory c in
    let '(c3, _, _) := insert c2 true in     (* "_, _ = cache.Insert(key, startState)" *)
    register_state c3 0 k0.                   (* registered whether or not Insert succeeded *)

  (* cache.Insert of a state without id, then registerState if it was inserted *)
  Definition ins_reg (c : dcache) (k : nat) : dcache :=
    let '(c1, ok, id) := insert c false in
    if ok then register_state c1 id k else c.

  (* dfa/lazy/lazy.go: determinize after a successful tryClearCache: the current state and the
     new state are inserted into the fresh cache; a refused Insert ends the DFA search *)
  Definition reinsert (c : dcache) (k1 k : nat) (hit_cur hit_new : bool) : dcache :=
    let c1 := if hit_cur then c else ins_reg c k1 in
    if negb hit_cur && (capacity c <=? memory_usage c) then c1      (* ErrCacheFull *)
    else if hit_new then c1 else ins_reg c1 k.

  Definition step (c : dcache) (o : op) : dcache :=
    match o with
    | OpDeterminize k k0 k1 hit_cur hit_new =>
        if capacity c <=? memory_usage c then
          if max_clears <=? clear_count c then c      (* ErrCacheFull: NFA fallback *)
          else reinsert (try_clear c k0) k1 k hit_cur hit_new
        else ins_reg c k
    | OpStartState k => ins_reg c k                  (* refused: state returned uncached *)
    | OpAccel a => set_accel c a
    | OpHit => c
    | OpReset => reset c
    | OpResetClearCount => reset_clear_count c
    end.

  Definition run (ops : list op) (c : dcache) : dcache := fold_left step ops c.

  Variable max_k : nat.       (* n.States(): an NFA state set has at most that many ids *)
  Definition wf_op (o : op) : Prop :=
    match o with
    | OpDeterminize k k0 k1 _ _ => k <= max_k /\ k0 <= max_k /\ k1 <= max_k
    | OpStartState k => k <= max_k
    | _ => True
    end.

  (* one state without acceleration bytes: map entry, list slot, row, ids *)
  Definition state_cost (str : nat) : nat := 48 + 8 + 4 * str + 4 * max_k.
  (* index 0 is reserved for the start state of tryClearCache; in a fresh cache it stays an
     empty slot (nil pointer + one row) that the first insertion pays for *)
  Definition slot0_cost (str : nat) : nat := 8 + 4 * str.

  Definition inv (c : dcache) : Prop :=
    base_usage c < capacity c + state_cost (stride c) + slot0_cost (stride c) /\
    4 * flat_len c <= capacity c + 8 * stride c /\
    state_list_len c <= next_id c /\
    (stride c = 0 \/ next_id c <= state_list_len c + 1) /\
    next_id c * stride c <= flat_len c + stride c /\
    sum_accel c + 3 * unchecked c <= 3 * state_list_len c /\
    state_list_len c <= nstates_in_map c + 1 /\
    next_id c <= nstates_in_map c + 1.

  Lemma inv_new cap str : inv (new_cache cap str).
  Proof. unfold inv, new_cache, base_usage, state_cost, slot0_cost. cbn. repeat split; try lia. Qed.

  Ltac unpack H :=
    destruct H as [Hb [Hf [Hl [Hn [Hr [Ha [Hm Hq]]]]]]].

  Lemma inv_reset c : inv c -> inv (reset c).
  Proof.
    intros H. unpack H. unfold inv, reset, base_usage, state_cost, slot0_cost in *. cbn in *.
    repeat split; try lia.
  Qed.

  Lemma inv_reset_clear_count c : inv c -> inv (reset_clear_count c).
  Proof. intros H. exact H. Qed.

  Lemma inv_set_accel c a : inv c -> inv (set_accel c a).
  Proof.
    intros H. unfold set_accel.
    destruct (Nat.ltb_spec 0 (unchecked c)); cbn [andb]; [|exact H].
    destruct (Nat.leb_spec a 3); [|exact H].
    unpack H. unfold inv, base_usage, state_cost, slot0_cost in *. cbn in *. repeat split; try lia.
  Qed.

  (* a successful Insert(fixed = false) followed by registerState *)
  Lemma inv_insert_register c k :
    inv c -> k <= max_k -> capacity c <=? memory_usage c = false ->
    inv (register_state (mkC (S (nstates_in_map c)) (state_list_len c)
           (if 0 <? stride c then Nat.max (flat_len c) ((next_id c + 1) * stride c) else flat_len c)
           (stride c) (sum_nfa_ids c) (sum_accel c) (capacity c) (S (next_id c)) (clear_count c) (unchecked c))
         (next_id c) k).
  Proof.
    intros H Hk Hcap. unpack H. apply Nat.leb_gt in Hcap. unfold memory_usage in Hcap.
    unfold register_state. cbn [stride].
    destruct (Nat.eqb_spec (stride c) 0) as [Hs|Hs].
    - unfold inv, base_usage, state_cost, slot0_cost in *. cbn. rewrite Hs in *. cbn.
      repeat split; try lia.
    - destruct (Nat.ltb_spec 0 (stride c)) as [_|Hz]; [|lia].
      destruct Hn as [Hn|Hn]; [lia|].
      unfold inv, base_usage, state_cost, slot0_cost in *. cbn.
      set (s := stride c) in *. set (n := next_id c) in *. set (F := flat_len c) in *.
      assert (Hmax : Nat.max F ((n + 1) * s) <= F + 2 * s) by nia.
      assert (Hmax2 : (n + 1) * s <= Nat.max F ((n + 1) * s)) by lia.
      assert (Hmax3 : F <= Nat.max F ((n + 1) * s)) by lia.
      repeat split; try lia.
  Qed.

  Lemma inv_try_clear c k0 : inv c -> k0 <= max_k -> inv (try_clear c k0).
  Proof.
    intros H Hk. unpack H. unfold try_clear, insert, clear_keep_memory, memory_usage, base_usage.
    cbn [capacity flat_len state_list_len nstates_in_map sum_nfa_ids sum_accel stride next_id clear_count unchecked].
    destruct (Nat.leb_spec (capacity c) (4 * 0 + 8 * 0 + 48 * 0 + 4 * 0 + 0)) as [Hfull|Hroom].
    - (* capacity 0: the start state is not inserted but registered all the same *)
      unfold register_state. cbn [stride].
      destruct (Nat.eqb_spec (stride c) 0) as [Hs|Hs];
        unfold inv, base_usage, state_cost, slot0_cost in *; cbn; repeat split; try lia.
    - unfold register_state. cbn [stride].
      destruct (Nat.eqb_spec (stride c) 0) as [Hs|Hs].
      + unfold inv, base_usage, state_cost, slot0_cost in *. cbn. rewrite Hs in *. cbn. repeat split; try lia.
      + destruct (Nat.ltb_spec 0 (stride c)) as [_|Hz]; [|lia].
        unfold inv, base_usage, state_cost, slot0_cost in *. cbn.
        set (s := stride c) in *.
        repeat split; try lia.
  Qed.

  Lemma inv_ins_reg c k : inv c -> k <= max_k -> inv (ins_reg c k).
  Proof.
    intros H Hk. unfold ins_reg, insert. destruct (capacity c <=? memory_usage c) eqn:Hcap; [exact H|].
    apply inv_insert_register; assumption.
  Qed.

  Lemma inv_reinsert c k1 k hc hn : inv c -> k1 <= max_k -> k <= max_k -> inv (reinsert c k1 k hc hn).
  Proof.
    intros H H1 H2. unfold reinsert.
    assert (Hc1 : inv (if hc then c else ins_reg c k1)) by (destruct hc; [exact H|now apply inv_ins_reg]).
    destruct (negb hc && (capacity c <=? memory_usage c)); [exact Hc1|].
    destruct hn; [exact Hc1|]. now apply inv_ins_reg.
  Qed.

  Lemma inv_step c o : inv c -> wf_op o -> inv (step c o).
  Proof.
    intros H Hw. destruct o as [k k0 k1 hc hn|k|a| | |]; cbn [step wf_op] in *.
    - destruct (capacity c <=? memory_usage c) eqn:Hcap.
      + destruct (max_clears <=? clear_count c); [exact H|].
        apply inv_reinsert; try tauto. apply inv_try_clear; tauto.
      + apply inv_ins_reg; tauto.
    - apply inv_ins_reg; tauto.
    - now apply inv_set_accel.
    - exact H.
    - now apply inv_reset.
    - exact H.
  Qed.

  Lemma inv_run ops : forall c, inv c -> Forall wf_op ops -> inv (run ops c).
  Proof.
    induction ops as [|o ops IH]; intros c H Hw; [exact H|].
    inversion Hw; subst. unfold run. cbn [fold_left]. apply IH; [apply inv_step|]; assumption.
  Qed.

  (* ---------------------------------------------------------------- frame facts *)
  (* what the composite steps do to the fields the later lemmas need *)
  Lemma ins_reg_facts c k :
    let c' := ins_reg c k in
    stride c' = stride c /\ capacity c' = capacity c /\ clear_count c' = clear_count c /\
    sum_accel c' = sum_accel c /\
    (capacity c <=? memory_usage c = true -> c' = c) /\
    (capacity c <=? memory_usage c = false -> nstates_in_map c' = S (nstates_in_map c)).
  Proof.
    cbn zeta. unfold ins_reg, insert. destruct (capacity c <=? memory_usage c).
    - repeat split; auto. discriminate.
    - unfold register_state. cbn [stride]. destruct (stride c =? 0); cbn; repeat split; auto; discriminate.
  Qed.

  Lemma try_clear_facts c k0 :
    let c' := try_clear c k0 in
    stride c' = stride c /\ capacity c' = capacity c /\ clear_count c' = S (clear_count c) /\
    sum_accel c' = 0 /\ nstates_in_map c' <= 1.
  Proof.
    cbn zeta. unfold try_clear, insert, clear_keep_memory. cbn [capacity stride].
    match goal with |- context [if ?b then _ else _] => destruct b end;
      unfold register_state; cbn [stride]; destruct (stride c =? 0); cbn; repeat split; auto; lia.
  Qed.

  Lemma reinsert_facts c k1 k hc hn :
    let c' := reinsert c k1 k hc hn in
    stride c' = stride c /\ capacity c' = capacity c /\ clear_count c' = clear_count c /\
    sum_accel c' = sum_accel c.
  Proof.
    cbn zeta. unfold reinsert.
    assert (H1 : let c1 := (if hc then c else ins_reg c k1) in
                 stride c1 = stride c /\ capacity c1 = capacity c /\ clear_count c1 = clear_count c /\
                 sum_accel c1 = sum_accel c).
    { destruct hc; cbn zeta; [auto|]. destruct (ins_reg_facts c k1) as [A [B [C [E _]]]]. auto. }
    cbn zeta in H1. destruct H1 as [A [B [C E]]].
    destruct (negb hc && (capacity c <=? memory_usage c)); [auto|].
    destruct hn; [auto|].
    destruct (ins_reg_facts (if hc then c else ins_reg c k1) k) as [A' [B' [C' [E' _]]]].
    repeat split; congruence.
  Qed.

  Lemma step_frame c o : stride (step c o) = stride c /\ capacity (step c o) = capacity c.
  Proof.
    destruct o as [k k0 k1 hc hn|k|a| | |]; cbn [step].
    - destruct (capacity c <=? memory_usage c).
      + destruct (max_clears <=? clear_count c); [auto|].
        destruct (reinsert_facts (try_clear c k0) k1 k hc hn) as [A [B _]].
        destruct (try_clear_facts c k0) as [A' [B' _]]. split; congruence.
      + destruct (ins_reg_facts c k) as [A [B _]]. auto.
    - destruct (ins_reg_facts c k) as [A [B _]]. auto.
    - unfold set_accel. destruct ((0 <? unchecked c) && (a <=? 3)); auto.
    - auto.
    - auto.
    - auto.
  Qed.

  Lemma run_frame ops : forall c, stride (run ops c) = stride c /\ capacity (run ops c) = capacity c.
  Proof.
    induction ops as [|o ops IH]; intros c; [auto|]. unfold run. cbn [fold_left].
    destruct (IH (step c o)) as [H1 H2]. destruct (step_frame c o) as [H3 H4].
    unfold run in H1, H2. split; congruence.
  Qed.

  (* ---------------------------------------------------------------- C20: the bounds *)
  Theorem cache_base_bound ops cap str :
    Forall wf_op ops ->
    base_usage (run ops (new_cache cap str)) < cap + state_cost str + slot0_cost str.
  Proof.
    intros Hw. pose proof (inv_run ops _ (inv_new cap str) Hw) as H.
    destruct (run_frame ops (new_cache cap str)) as [Hs Hc]. cbn in Hs, Hc.
    destruct H as [Hb _]. rewrite Hs, Hc in Hb. exact Hb.
  Qed.

  Theorem cache_mem_bound ops cap str :
    Forall wf_op ops ->
    let c := run ops (new_cache cap str) in
    memory_usage c < cap + state_cost str + slot0_cost str + 3 * state_list_len c.
  Proof.
    intros Hw. cbn zeta. pose proof (inv_run ops _ (inv_new cap str) Hw) as H.
    destruct (run_frame ops (new_cache cap str)) as [Hs Hc]. cbn in Hs, Hc.
    unpack H. rewrite Hs, Hc in Hb. unfold memory_usage. lia.
  Qed.

  (* stateList is not observable; Size() = len(states) is *)
  Theorem cache_mem_bound_obs ops cap str :
    Forall wf_op ops ->
    let c := run ops (new_cache cap str) in
    memory_usage c < cap + state_cost str + slot0_cost str + 3 * (nstates_in_map c + 1).
  Proof.
    intros Hw. cbn zeta. pose proof (cache_mem_bound ops cap str Hw) as Hmb. cbn zeta in Hmb.
    pose proof (inv_run ops _ (inv_new cap str) Hw) as H. unpack H. lia.
  Qed.

  Theorem cache_mem_bound_closed ops cap str :
    Forall wf_op ops ->
    8 * memory_usage (run ops (new_cache cap str)) < 11 * (cap + state_cost str + slot0_cost str).
  Proof.
    intros Hw. pose proof (inv_run ops _ (inv_new cap str) Hw) as H.
    destruct (run_frame ops (new_cache cap str)) as [Hs Hc]. cbn in Hs, Hc.
    unpack H. rewrite Hs, Hc in Hb. unfold memory_usage, base_usage in *. lia.
  Qed.

  (* without acceleration bytes the bound is the one the property names, up to the slot 0 *)
  Theorem cache_mem_bound_no_accel ops cap str :
    Forall wf_op ops -> Forall (fun o => match o with OpAccel a => a = 0 | _ => True end) ops ->
    memory_usage (run ops (new_cache cap str)) < cap + state_cost str + slot0_cost str.
  Proof.
    intros Hw Hna.
    assert (Hz : forall ops c, Forall (fun o => match o with OpAccel a => a = 0 | _ => True end) ops ->
                   sum_accel c = 0 -> sum_accel (run ops c) = 0).
    { clear Hw Hna ops. induction ops as [|o ops IH]; intros c Hna H0; [exact H0|].
      inversion Hna; subst. unfold run. cbn [fold_left]. apply IH; [assumption|].
      destruct o as [k k0 k1 hc hn|k|a| | |]; cbn [step].
      - destruct (capacity c <=? memory_usage c).
        + destruct (max_clears <=? clear_count c); [exact H0|].
          destruct (reinsert_facts (try_clear c k0) k1 k hc hn) as [_ [_ [_ E]]].
          destruct (try_clear_facts c k0) as [_ [_ [_ [E' _]]]]. congruence.
        + destruct (ins_reg_facts c k) as [_ [_ [_ [E _]]]]. congruence.
      - destruct (ins_reg_facts c k) as [_ [_ [_ [E _]]]]. congruence.
      - unfold set_accel. destruct ((0 <? unchecked c) && (a <=? 3)); [|exact H0]. cbn. lia.
      - exact H0.
      - reflexivity.
      - exact H0. }
    unfold memory_usage. rewrite (Hz ops (new_cache cap str) Hna eq_refl).
    pose proof (cache_base_bound ops cap str Hw). lia.
  Qed.

  (* ---------------------------------------------------------------- clear counter *)
  Lemma step_clear_count c o : clear_count (step c o) <= Nat.max max_clears (clear_count c).
  Proof.
    destruct o as [k k0 k1 hc hn|k|a| | |]; cbn [step].
    - destruct (capacity c <=? memory_usage c).
      + destruct (Nat.leb_spec max_clears (clear_count c)); [lia|].
        destruct (reinsert_facts (try_clear c k0) k1 k hc hn) as [_ [_ [E _]]].
        destruct (try_clear_facts c k0) as [_ [_ [E' _]]]. lia.
      + destruct (ins_reg_facts c k) as [_ [_ [E _]]]. lia.
    - destruct (ins_reg_facts c k) as [_ [_ [E _]]]. lia.
    - unfold set_accel. destruct ((0 <? unchecked c) && (a <=? 3)); cbn; lia.
    - lia.
    - cbn. lia.
    - cbn. lia.
  Qed.

  Lemma step_clear_count_mono c o : no_reset_op o -> clear_count c <= clear_count (step c o).
  Proof.
    intros Hnr. destruct o as [k k0 k1 hc hn|k|a| | |]; cbn [step no_reset_op] in *; try (exfalso; exact Hnr).
    - destruct (capacity c <=? memory_usage c).
      + destruct (max_clears <=? clear_count c); [lia|].
        destruct (reinsert_facts (try_clear c k0) k1 k hc hn) as [_ [_ [E _]]].
        destruct (try_clear_facts c k0) as [_ [_ [E' _]]]. lia.
      + destruct (ins_reg_facts c k) as [_ [_ [E _]]]. lia.
    - destruct (ins_reg_facts c k) as [_ [_ [E _]]]. lia.
    - unfold set_accel. destruct ((0 <? unchecked c) && (a <=? 3)); cbn; lia.
    - lia.
  Qed.

  Theorem clear_count_bounded ops : forall c,
    clear_count (run ops c) <= Nat.max max_clears (clear_count c).
  Proof.
    induction ops as [|o ops IH]; intros c; [cbn; lia|]. unfold run. cbn [fold_left].
    pose proof (IH (step c o)) as H1. pose proof (step_clear_count c o) as H2. unfold run in H1. lia.
  Qed.

  Corollary clear_count_bounded_fresh ops cap str :
    clear_count (run ops (new_cache cap str)) <= max_clears.
  Proof. pose proof (clear_count_bounded ops (new_cache cap str)) as H. cbn in H. lia. Qed.
End Protocol.

(* ------------------------------------------------------------------ Insert *)
Theorem insert_refused_when_full c fixed :
  capacity c <= memory_usage c -> insert c fixed = (c, false, 0).
Proof. intros H. unfold insert. destruct (Nat.leb_spec (capacity c) (memory_usage c)); [reflexivity|lia]. Qed.

Theorem insert_monotone c fixed :
  memory_usage c < capacity c ->
  let '(c', ok, _) := insert c fixed in
  ok = true /\ memory_usage c + 48 <= memory_usage c' /\
  nstates_in_map c' = S (nstates_in_map c) /\ flat_len c <= flat_len c' /\
  flat_len c' <= Nat.max (flat_len c) ((next_id c + 1) * stride c).
Proof.
  intros H. unfold insert. destruct (Nat.leb_spec (capacity c) (memory_usage c)); [lia|].
  unfold memory_usage, base_usage.
  cbn [nstates_in_map state_list_len flat_len stride sum_nfa_ids sum_accel capacity next_id clear_count unchecked].
  assert (Hmul : (0 + 1) * stride c <= (next_id c + 1) * stride c) by nia.
  destruct fixed; destruct (Nat.ltb_spec 0 (stride c)); repeat split; try lia.
Qed.

(* a clear releases everything the accounting counts (flatTrans is truncated), so the start
   state of tryClearCache is always inserted: "Cannot fail: cache was just cleared" holds *)
Tactic Notation "pj" :=
  cbn [nstates_in_map state_list_len flat_len stride sum_nfa_ids sum_accel capacity next_id
       clear_count unchecked fst snd].
Tactic Notation "pj" "in" hyp(H) :=
  cbn [nstates_in_map state_list_len flat_len stride sum_nfa_ids sum_accel capacity next_id
       clear_count unchecked fst snd] in H.

Theorem clear_releases c : memory_usage (clear_keep_memory c) = 0 /\ memory_usage (reset c) = 0.
Proof. split; reflexivity. Qed.

Theorem try_clear_inserts_start c k0 :
  0 < capacity c -> nstates_in_map (try_clear c k0) = 1.
Proof.
  intros H. unfold try_clear, insert. rewrite (proj1 (clear_releases c)).
  replace (capacity (clear_keep_memory c)) with (capacity c) by reflexivity.
  destruct (Nat.leb_spec (capacity c) 0); [lia|].
  unfold register_state. cbn [stride clear_keep_memory].
  destruct (stride c =? 0); reflexivity.
Qed.

(* ------------------------------------------------------------------ the property's wording,
   "never exceeds its capacity by more than one state", is false for the code: acceleration
   bytes are attached to states that were inserted long before.  stride 1, one NFA id per
   state, capacity 2000: 31 states fill the cache, then 31 x 3 exit bytes are added. *)
Definition refute_ops : list op :=
  OpStartState 1 :: repeat (OpDeterminize 1 1 1 false false) 40 ++ repeat (OpAccel 3) 40.

Theorem cache_mem_bound_refuted :
  exists (mc max_k cap str : nat) (ops : list op),
    Forall (wf_op max_k) ops /\
    memory_usage (run mc ops (new_cache cap str)) >
      cap + (state_cost max_k str + 3) + slot0_cost str.
Proof.
  exists 0, 1, 2000, 1, refute_ops. split.
  - unfold refute_ops. constructor; [cbn; lia|]. apply Forall_app. split.
    + apply Forall_forall. intros o Ho. apply repeat_spec in Ho. subst o. cbn. lia.
    + apply Forall_forall. intros o Ho. apply repeat_spec in Ho. subst o. exact I.
  - vm_compute. lia.
Qed.

(* ------------------------------------------------------------------ work accounting (for C05)
   successful inserts and clears of a history; without Reset/ResetClearCount the clear
   budget is never refilled (no caller of ResetClearCount exists in the pinned tree), so the
   number of determinizations that create a state is bounded over the whole life of a cache *)
Definition no_reset := no_reset_op.

Definition full (c : dcache) : bool := capacity c <=? memory_usage c.
Definition ins_event (c : dcache) : nat := if full c then 0 else 1.

(* successful inserts + clears performed by one step *)
Definition events_of (mc : nat) (c : dcache) (o : op) : nat :=
  match o with
  | OpDeterminize k k0 k1 hc hn =>
      if full c then
        if mc <=? clear_count c then 0
        else
          let c0 := try_clear c k0 in
          let c1 := if hc then c0 else ins_reg c0 k1 in
          1 + (if hc then 0 else ins_event c0)
            + (if negb hc && full c0 then 0 else if hn then 0 else ins_event c1)
      else 1
  | OpStartState _ => ins_event c
  | _ => 0
  end.

Fixpoint work_events (mc : nat) (ops : list op) (c : dcache) : nat :=
  match ops with
  | [] => 0
  | o :: t => events_of mc c o + work_events mc t (step mc c o)
  end.

Definition fit (cap : nat) : nat := cap / 48 + 1.

(* potential: remaining clears x (fit+1) + remaining room in the map *)
Definition potential (mc : nat) (c : dcache) : nat :=
  (mc - clear_count c) * (fit (capacity c) + 1) + (fit (capacity c) - nstates_in_map c).

Lemma room_fit c : full c = false -> S (nstates_in_map c) <= fit (capacity c).
Proof.
  unfold full. intros H. apply Nat.leb_gt in H. unfold memory_usage, base_usage in H. unfold fit.
  assert (48 * nstates_in_map c < capacity c) by lia.
  pose proof (Nat.div_mod_eq (capacity c) 48). pose proof (Nat.mod_upper_bound (capacity c) 48). lia.
Qed.

Lemma ins_reg_potential mc c k :
  nstates_in_map c <= fit (capacity c) ->
  nstates_in_map (ins_reg c k) <= fit (capacity c) /\
  ins_event c + potential mc (ins_reg c k) <= potential mc c.
Proof.
  intros Hfit. destruct (ins_reg_facts c k) as [_ [Hcap [Hcc [_ [Hfull Hroom]]]]].
  unfold potential, ins_event, full in *. rewrite Hcap, Hcc.
  destruct (capacity c <=? memory_usage c) eqn:E.
  - rewrite (Hfull eq_refl). lia.
  - pose proof (room_fit c E). rewrite (Hroom eq_refl). lia.
Qed.

Lemma step_potential mc c o :
  no_reset o -> nstates_in_map c <= fit (capacity c) ->
  nstates_in_map (step mc c o) <= fit (capacity c) /\
  capacity (step mc c o) = capacity c /\
  events_of mc c o + potential mc (step mc c o) <= potential mc c.
Proof.
  intros Hnr Hfit. destruct (step_frame mc c o) as [_ Hcap]. split; [|split; [exact Hcap|]].
  - destruct o as [k k0 k1 hc hn|k|a| | |]; cbn [step no_reset no_reset_op] in *; try (exfalso; exact Hnr).
    + destruct (capacity c <=? memory_usage c) eqn:E.
      * destruct (mc <=? clear_count c); [exact Hfit|].
        destruct (try_clear_facts c k0) as [_ [Hc0 [_ [_ Hn0]]]].
        assert (F0 : nstates_in_map (try_clear c k0) <= fit (capacity (try_clear c k0)))
          by (rewrite Hc0; unfold fit; lia).
        unfold reinsert.
        assert (F1 : nstates_in_map (if hc then try_clear c k0 else ins_reg (try_clear c k0) k1) <= fit (capacity c)).
        { destruct hc; [now rewrite <- Hc0|]. rewrite <- Hc0. apply (ins_reg_potential mc), F0. }
        destruct (negb hc && (capacity (try_clear c k0) <=? memory_usage (try_clear c k0))); [exact F1|].
        destruct hn; [exact F1|].
        assert (Hc1 : capacity (if hc then try_clear c k0 else ins_reg (try_clear c k0) k1) = capacity c).
        { destruct hc; [exact Hc0|]. destruct (ins_reg_facts (try_clear c k0) k1) as [_ [B _]]. congruence. }
        rewrite <- Hc1. apply (ins_reg_potential mc). now rewrite Hc1.
      * apply (ins_reg_potential mc), Hfit.
    + apply (ins_reg_potential mc), Hfit.
    + unfold set_accel. destruct ((0 <? unchecked c) && (a <=? 3)); pj; exact Hfit.
    + exact Hfit.
  - destruct o as [k k0 k1 hc hn|k|a| | |]; cbn [step events_of no_reset no_reset_op] in *; try (exfalso; exact Hnr).
    + unfold full. destruct (capacity c <=? memory_usage c) eqn:E.
      * destruct (Nat.leb_spec mc (clear_count c)) as [Hmc|Hmc]; [lia|].
        destruct (try_clear_facts c k0) as [_ [Hc0 [Hcc0 [_ Hn0]]]].
        set (c0 := try_clear c k0) in *.
        assert (F0 : nstates_in_map c0 <= fit (capacity c0)) by (rewrite Hc0; unfold fit; lia).
        (* the clear itself pays 1 *)
        assert (P0 : 1 + potential mc c0 <= potential mc c).
        { unfold potential. rewrite Hc0, Hcc0. set (ft := fit (capacity c)) in *.
          assert (ft >= 1) by (subst ft; unfold fit; lia). nia. }
        unfold reinsert. fold (full c0).
        destruct hc; cbn [negb andb].
        -- destruct hn; [lia|]. destruct (ins_reg_potential mc c0 k F0) as [_ P1]. lia.
        -- destruct (ins_reg_potential mc c0 k1 F0) as [F1 P1].
           destruct (full c0) eqn:Ef; [lia|].
           destruct hn; [lia|].
           assert (Hc1 : capacity (ins_reg c0 k1) = capacity c0)
             by (destruct (ins_reg_facts c0 k1) as [_ [B _]]; exact B).
           rewrite <- Hc1 in F1. destruct (ins_reg_potential mc (ins_reg c0 k1) k F1) as [_ P2]. lia.
      * destruct (ins_reg_potential mc c k Hfit) as [_ P]. unfold ins_event, full in P. rewrite E in P. exact P.
    + destruct (ins_reg_potential mc c k Hfit) as [_ P]. exact P.
    + unfold set_accel. destruct ((0 <? unchecked c) && (a <=? 3)); unfold potential; pj; lia.
    + lia.
Qed.

Lemma work_events_potential mc ops : forall c,
  Forall no_reset ops -> nstates_in_map c <= fit (capacity c) ->
  work_events mc ops c <= potential mc c.
Proof.
  induction ops as [|o ops IH]; intros c Hnr Hfit; cbn [work_events]; [lia|].
  inversion Hnr; subst.
  destruct (step_potential mc c o H1 Hfit) as [S1 [S2 S3]].
  assert (Hfit' : nstates_in_map (step mc c o) <= fit (capacity (step mc c o))) by (rewrite S2; exact S1).
  pose proof (IH (step mc c o) H2 Hfit'). lia.
Qed.

Theorem work_events_bound mc ops cap str :
  Forall no_reset ops ->
  work_events mc ops (new_cache cap str) <= (mc + 1) * (cap / 48 + 2).
Proof.
  intros Hnr. pose proof (work_events_potential mc ops (new_cache cap str) Hnr) as H.
  unfold potential, fit, new_cache in H. pj in H. specialize (H ltac:(lia)).
  fold (new_cache cap str) in H. set (w := work_events mc ops (new_cache cap str)) in *.
  set (d := cap / 48) in *. clearbody w d. nia.
Qed.

(* ------------------------------------------------------------------ case checker
   Two kinds of cases, both recorded from a real lazy.DFACache:
   kind 0 (search history): after each search of a history on one cache the harness reads
     MemoryUsage(), Size(), ClearCount().  The individual protocol steps inside a search are
     not observable through the public API, so the verdict is the BOUND of
     cache_mem_bound_obs and clear_count_bounded_fresh on every observation.
   kind 1 (raw trace): the harness calls the exported primitives Insert / ClearKeepMemory /
     Reset / Clear / ResetClearCount directly (registerState is unexported: stateList stays
     empty); here the model must reproduce the three numbers exactly.
   Observation: ob_op = 0 search | 1 Insert(new key, k ids) | 2 Insert(existing key)
                | 3 ClearKeepMemory | 4 Reset | 5 Clear | 6 ResetClearCount.               *)
Record obs := mkObs { ob_op : N; ob_k : N; ob_mem : N; ob_size : N; ob_clears : N }.

Record case := mkCase {
  c_id : N; c_kind : N; c_capacity : N; c_stride : N; c_max_k : N; c_max_clears : N;
  c_obs : list obs }.

Definition bound_ok (c : case) (o : obs) : bool :=
  (N.to_nat (ob_mem o) <?
     N.to_nat (c_capacity c) + state_cost (N.to_nat (c_max_k c)) (N.to_nat (c_stride c))
     + slot0_cost (N.to_nat (c_stride c)) + 3 * (N.to_nat (ob_size o) + 1))
  && (ob_clears o <=? c_max_clears c)%N.

(* raw primitives: Insert without registerState *)
Definition raw_step (c : dcache) (o : obs) : dcache :=
  match ob_op o with
  | 1%N => let '(c1, _, _) := insert c false in c1
  | 3%N => clear_keep_memory c
  | 4%N | 5%N => reset c
  | 6%N => reset_clear_count c
  | _ => c
  end.

Definition obs_eqb (c : dcache) (o : obs) : bool :=
  (N.of_nat (memory_usage c) =? ob_mem o)%N && (N.of_nat (nstates_in_map c) =? ob_size o)%N &&
  (N.of_nat (clear_count c) =? ob_clears o)%N.

Fixpoint raw_replay (c : dcache) (os : list obs) : bool :=
  match os with
  | [] => true
  | o :: t => let c' := raw_step c o in obs_eqb c' o && raw_replay c' t
  end.

Definition check_case (c : case) : bool :=
  match c_kind c with
  | 0%N => forallb (bound_ok c) (c_obs c)
  | _ => raw_replay (new_cache (N.to_nat (c_capacity c)) (N.to_nat (c_stride c))) (c_obs c)
  end.

(* informational: kind-0 cases whose observations ever exceed capacity + one state cost (the
   property's literal wording), although within the proved bound *)
Definition literal_ok (c : case) : bool :=
  match c_kind c with
  | 0%N => forallb (fun o => N.to_nat (ob_mem o) <?
                     N.to_nat (c_capacity c) + state_cost (N.to_nat (c_max_k c)) (N.to_nat (c_stride c)) + 3) (c_obs c)
  | _ => true
  end.

Definition mismatches (cs : list case) : list N := map c_id (filter (fun c => negb (check_case c)) cs).
Definition literal_mismatches (cs : list case) : list N := map c_id (filter (fun c => negb (literal_ok c)) cs).
