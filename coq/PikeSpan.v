(* PikeSpan.v — the PikeVM span theorem (nfa/pikevm.go, model Pike.v):
     pike_search_is_ref          : Pike.pike_search_at A h at = span_of (Nfa.find_at A h at)
                                   (searchUnanchoredAt: breadth-first, priority-ordered thread
                                   lists with cut = the priority-ordered depth-first reference)
     pike_search_anchored_is_ref : the anchored loop (searchAt) = the reference search from `at`
   for every NFA with wf_nfa, every haystack, every offset.  (The model carries no capture
   vectors, so the statement is about spans.)
   Route: a layered depth-first search `ldfs` (one visited list per position, the head of the
   list is the current position; big-step form LE/LLE) is
     (1) equal to Nfa.dfs on fresh sets (dfs_LE, with the frame lemma dfs_frame),
     (2) insensitive to visited configurations without an accepting path (LE_LLE_Rd): this is
         what the threads of earlier, non-matching starts do to the threads of the matching one,
     (3) over one position, equal to the sequence of dives from the threads listed by
         Pike.closure_list, in order (lemma K: K_closure / K_list, relation Dive).
   The loop invariants J (su_loop, with Pike.sinv) and JA (sa_loop) say: the reference answer is
   the first success of the dives from the current threads of the matching start, or, if they
   all fail, the match already recorded. *)
From Coq Require Import List NArith ZArith Lia Bool Arith PeanoNat.
From Coq Require Import FSets.FSetPositive.
From Coq Require Import ZifyBool ZifyNat ZifyN.
From CV Require Import Nfa NfaRef Backtrack Pike.
Import ListNotations.

Definition lres := (res (option nat) * list vset)%type.

Section LDef.
  Variable A : nfa.
  Variable h : hay.

  (* states entered from st on the byte at position p (nfa/pikevm.go: step) *)
  Definition lstep (st : nstate) (p : nat) : list nat :=
    match nth_error h p with Some b => byte_succ st b | None => [] end.

  (* the reference search with one visited list per position: W = visited at p, p+1, ... *)
  Fixpoint ldfs (f q p : nat) (W : list vset) : lres :=
    match f with
    | 0 => (OutOfFuel, W)
    | S f' =>
        match W with
        | [] => (Done None, [])
        | v :: W' =>
            if Pike.vmem q v then (Done None, W) else
            match nth_error (states A) q with
            | None => (Done None, (q :: v) :: W')
            | Some st =>
                if is_match_state st then (Done (Some p), (q :: v) :: W') else
                if is_terminal st then
                  let rw := (fix go (qs : list nat) (W0 : list vset) {struct qs} : lres :=
                               match qs with
                               | [] => (Done None, W0)
                               | x :: qs' => match ldfs f' x (S p) W0 with
                                             | (Done None, W1) => go qs' W1
                                             | r => r
                                             end
                               end) (lstep st p) W' in
                  (fst rw, (q :: v) :: snd rw)
                else
                  (fix go (qs : list nat) (W0 : list vset) {struct qs} : lres :=
                     match qs with
                     | [] => (Done None, W0)
                     | x :: qs' => match ldfs f' x p W0 with
                                   | (Done None, W1) => go qs' W1
                                   | r => r
                                   end
                     end) (eps_succ h p st) ((q :: v) :: W')
            end
        end
    end.

  Fixpoint ldfs_list (f : nat) (qs : list nat) (p : nat) (W : list vset) : lres :=
    match qs with
    | [] => (Done None, W)
    | x :: qs' => match ldfs f x p W with
                  | (Done None, W1) => ldfs_list f qs' p W1
                  | r => r
                  end
    end.

  Lemma ldfs_unfold f q p v W' :
    ldfs (S f) q p (v :: W') =
    if Pike.vmem q v then (Done None, v :: W') else
    match nth_error (states A) q with
    | None => (Done None, (q :: v) :: W')
    | Some st =>
        if is_match_state st then (Done (Some p), (q :: v) :: W') else
        if is_terminal st then
          (fst (ldfs_list f (lstep st p) (S p) W'), (q :: v) :: snd (ldfs_list f (lstep st p) (S p) W'))
        else ldfs_list f (eps_succ h p st) p ((q :: v) :: W')
    end.
  Proof.
    cbn [ldfs]. destruct (Pike.vmem q v); [reflexivity|].
    destruct (nth_error (states A) q) as [st|]; [|reflexivity].
    destruct (is_match_state st); [reflexivity|].
    destruct (is_terminal st).
    - match goal with |- (fst ?a, _ :: snd ?a) = (fst ?b, _ :: snd ?b) => assert (E : a = b); [|now rewrite E] end.
      generalize W'. induction (lstep st p) as [|x qs IH]; intros W0; [reflexivity|].
      cbn [ldfs_list]. destruct (ldfs f x (S p) W0) as [[|[r|]] W1]; try reflexivity. apply IH.
    - generalize ((q :: v) :: W'). induction (eps_succ h p st) as [|x qs IH]; intros W0; [reflexivity|].
      cbn [ldfs_list]. destruct (ldfs f x p W0) as [[|[r|]] W1]; try reflexivity. apply IH.
  Qed.

  Lemma ldfs_nil f q p : ldfs (S f) q p [] = (Done None, []).
  Proof. reflexivity. Qed.
End LDef.

(* ------------------------------------------------------------------ fuel monotonicity *)
Section LMono.
  Variable A : nfa.
  Variable h : hay.

  Lemma ldfs_list_mono_of f :
    (forall q p W r W', ldfs A h f q p W = (Done r, W') -> ldfs A h (S f) q p W = (Done r, W')) ->
    forall qs p W r W', ldfs_list A h f qs p W = (Done r, W') -> ldfs_list A h (S f) qs p W = (Done r, W').
  Proof.
    intros Hm qs. induction qs as [|x qs IH]; intros p W r W' H; cbn [ldfs_list] in *; [exact H|].
    destruct (ldfs A h f x p W) as [[|[e|]] W1] eqn:E; try discriminate.
    - rewrite (Hm _ _ _ _ _ E). exact H.
    - rewrite (Hm _ _ _ _ _ E). apply IH. exact H.
  Qed.

  Lemma ldfs_mono f : forall q p W r W',
    ldfs A h f q p W = (Done r, W') -> ldfs A h (S f) q p W = (Done r, W').
  Proof.
    induction f as [|f IH]; intros q p W r W' H; [discriminate|].
    destruct W as [|v W0]; [exact H|].
    rewrite ldfs_unfold in H. rewrite ldfs_unfold.
    destruct (Pike.vmem q v); [exact H|].
    destruct (nth_error (states A) q) as [st|]; [|exact H].
    destruct (is_match_state st); [exact H|].
    destruct (is_terminal st).
    - destruct (ldfs_list A h f (lstep h st p) (S p) W0) as [rx Wx] eqn:E. cbn [fst snd] in H.
      inversion H; subst. rewrite (ldfs_list_mono_of f IH _ _ _ _ _ E). reflexivity.
    - apply (ldfs_list_mono_of f IH). exact H.
  Qed.

  Lemma ldfs_list_mono f qs p W r W' :
    ldfs_list A h f qs p W = (Done r, W') -> ldfs_list A h (S f) qs p W = (Done r, W').
  Proof. apply ldfs_list_mono_of, ldfs_mono. Qed.

  Lemma ldfs_mono_le f g q p W r W' : f <= g ->
    ldfs A h f q p W = (Done r, W') -> ldfs A h g q p W = (Done r, W').
  Proof. induction 1 as [|g Hle IH]; intros H0; [exact H0|]. apply ldfs_mono. auto. Qed.

  Lemma ldfs_list_mono_le f g qs p W r W' : f <= g ->
    ldfs_list A h f qs p W = (Done r, W') -> ldfs_list A h g qs p W = (Done r, W').
  Proof. induction 1 as [|g Hle IH]; intros H0; [exact H0|]. apply ldfs_list_mono. auto. Qed.
End LMono.

(* ------------------------------------------------------------------ totality *)
Section LTotal.
  Variable A : nfa.
  Variable h : hay.

  Fixpoint mW (W : list vset) : nat :=
    match W with [] => 0 | v :: W' => S (unv A v) + mW W' end.

  Definition lgood (f : nat) : Prop :=
    forall q p W, mW W < f ->
    exists r W', ldfs A h f q p W = (Done r, W') /\ mW W' <= mW W /\ length W' = length W.

  Lemma ldfs_list_total_of f : lgood f ->
    forall qs p W, mW W < f ->
    exists r W', ldfs_list A h f qs p W = (Done r, W') /\ mW W' <= mW W /\ length W' = length W.
  Proof.
    intros Hg qs. induction qs as [|x qs IH]; intros p W Hlt; cbn [ldfs_list].
    - exists None, W. auto.
    - destruct (Hg x p W Hlt) as [r [W1 [E [Hm Hl]]]]. rewrite E. destruct r as [e|].
      + exists (Some e), W1. auto.
      + destruct (IH p W1 ltac:(lia)) as [r2 [W2 [E2 [Hm2 Hl2]]]]. exists r2, W2.
        split; [exact E2|]. split; [lia|congruence].
  Qed.

  Lemma ldfs_good f : lgood f.
  Proof.
    induction f as [|f IH]; intros q p W Hlt; [lia|].
    destruct W as [|v W0]; [exists None, []; auto|].
    rewrite ldfs_unfold. cbn [mW] in Hlt.
    destruct (Pike.vmem q v) eqn:Hv; [exists None, (v :: W0); auto|].
    pose proof (unv_cons_le A q v) as Hle.
    destruct (nth_error (states A) q) as [st|] eqn:Hst.
    2:{ exists None, ((q :: v) :: W0). cbn [mW length]. split; [reflexivity|]. split; [lia|reflexivity]. }
    destruct (is_match_state st).
    { exists (Some p), ((q :: v) :: W0). cbn [mW length]. split; [reflexivity|]. split; [lia|reflexivity]. }
    destruct (is_terminal st).
    - destruct (ldfs_list_total_of f IH (lstep h st p) (S p) W0 ltac:(lia)) as [r [W1 [E [Hm Hl]]]].
      rewrite E. cbn [fst snd]. exists r, ((q :: v) :: W1). cbn [mW length].
      split; [reflexivity|]. split; [lia|congruence].
    - assert (Hq : q < nstates A) by (eapply nth_error_Some_lt'; eauto).
      pose proof (unv_cons_lt A q v Hq Hv) as Hlt'.
      destruct (ldfs_list_total_of f IH (eps_succ h p st) p ((q :: v) :: W0)) as [r [W1 [E [Hm Hl]]]].
      { cbn [mW]. lia. }
      exists r, W1. split; [exact E|]. cbn [mW length] in *. split; [lia|congruence].
  Qed.

  Definition lfuel (W : list vset) : nat := S (mW W).

  Lemma ldfs_total q p W : exists r W', ldfs A h (lfuel W) q p W = (Done r, W') /\ length W' = length W.
  Proof.
    destruct (ldfs_good (lfuel W) q p W) as [r [W' [E [_ Hl]]]]; [unfold lfuel; lia|]. eauto.
  Qed.

  Lemma ldfs_list_total qs p W :
    exists r W', ldfs_list A h (lfuel W) qs p W = (Done r, W') /\ length W' = length W.
  Proof.
    destruct (ldfs_list_total_of (lfuel W) (ldfs_good _) qs p W) as [r [W' [E [_ Hl]]]]; [unfold lfuel; lia|]. eauto.
  Qed.
End LTotal.

(* ------------------------------------------------------------------ fuel-free big-step form *)
Section LRel.
  Variable A : nfa.
  Variable h : hay.

  Inductive LE : nat -> nat -> list vset -> option nat -> list vset -> Prop :=
  | LE_nil q p : LE q p [] None []
  | LE_vis q p v W : Pike.vmem q v = true -> LE q p (v :: W) None (v :: W)
  | LE_bad q p v W : Pike.vmem q v = false -> nth_error (states A) q = None ->
      LE q p (v :: W) None ((q :: v) :: W)
  | LE_match q p v W st : Pike.vmem q v = false -> nth_error (states A) q = Some st ->
      is_match_state st = true -> LE q p (v :: W) (Some p) ((q :: v) :: W)
  | LE_byte q p v W st r W1 : Pike.vmem q v = false -> nth_error (states A) q = Some st ->
      is_match_state st = false -> is_terminal st = true ->
      LLE (lstep h st p) (S p) W r W1 -> LE q p (v :: W) r ((q :: v) :: W1)
  | LE_eps q p v W st r W1 : Pike.vmem q v = false -> nth_error (states A) q = Some st ->
      is_match_state st = false -> is_terminal st = false ->
      LLE (eps_succ h p st) p ((q :: v) :: W) r W1 -> LE q p (v :: W) r W1
  with LLE : list nat -> nat -> list vset -> option nat -> list vset -> Prop :=
  | LLE_nil p W : LLE [] p W None W
  | LLE_hit x qs p W e W1 : LE x p W (Some e) W1 -> LLE (x :: qs) p W (Some e) W1
  | LLE_miss x qs p W W1 r W2 : LE x p W None W1 -> LLE qs p W1 r W2 -> LLE (x :: qs) p W r W2.

  Scheme LE_mut := Minimality for LE Sort Prop
    with LLE_mut := Minimality for LLE Sort Prop.
  Combined Scheme LE_LLE_ind from LE_mut, LLE_mut.

  Lemma ldfs_list_LLE_of f :
    (forall q p W r W', ldfs A h f q p W = (Done r, W') -> LE q p W r W') ->
    forall qs p W r W', ldfs_list A h f qs p W = (Done r, W') -> LLE qs p W r W'.
  Proof.
    intros Hf qs. induction qs as [|x qs IH]; intros p W r W' H; cbn [ldfs_list] in H.
    - inversion H; subst. constructor.
    - destruct (ldfs A h f x p W) as [[|[e|]] W1] eqn:E; try discriminate.
      + inversion H; subst. apply LLE_hit. apply Hf, E.
      + eapply LLE_miss; [apply Hf, E|apply IH, H].
  Qed.

  Lemma ldfs_LE f : forall q p W r W', ldfs A h f q p W = (Done r, W') -> LE q p W r W'.
  Proof.
    induction f as [|f IH]; intros q p W r W' H; [discriminate|].
    destruct W as [|v W0]; [inversion H; subst; constructor|].
    rewrite ldfs_unfold in H.
    destruct (Pike.vmem q v) eqn:Hv; [inversion H; subst; now constructor|].
    destruct (nth_error (states A) q) as [st|] eqn:Hst; [|inversion H; subst; now constructor].
    destruct (is_match_state st) eqn:Hm; [inversion H; subst; eapply LE_match; eauto|].
    destruct (is_terminal st) eqn:Ht.
    - destruct (ldfs_list A h f (lstep h st p) (S p) W0) as [rx Wx] eqn:E. cbn [fst snd] in H.
      inversion H; subst. eapply LE_byte; eauto. eapply ldfs_list_LLE_of; eauto.
    - eapply LE_eps; eauto. eapply ldfs_list_LLE_of; eauto.
  Qed.

  Lemma ldfs_list_LLE f qs p W r W' : ldfs_list A h f qs p W = (Done r, W') -> LLE qs p W r W'.
  Proof. apply ldfs_list_LLE_of, ldfs_LE. Qed.

  Lemma LE_LLE_fuel :
    (forall q p W r W', LE q p W r W' -> exists f, ldfs A h f q p W = (Done r, W')) /\
    (forall qs p W r W', LLE qs p W r W' -> exists f, ldfs_list A h f qs p W = (Done r, W')).
  Proof.
    apply LE_LLE_ind.
    - intros q p. exists 1. reflexivity.
    - intros q p v W Hv. exists 1. rewrite ldfs_unfold, Hv. reflexivity.
    - intros q p v W Hv Hst. exists 1. rewrite ldfs_unfold, Hv, Hst. reflexivity.
    - intros q p v W st Hv Hst Hm. exists 1. rewrite ldfs_unfold, Hv, Hst, Hm. reflexivity.
    - intros q p v W st r W1 Hv Hst Hm Ht _ [f E]. exists (S f).
      rewrite ldfs_unfold, Hv, Hst, Hm, Ht, E. reflexivity.
    - intros q p v W st r W1 Hv Hst Hm Ht _ [f E]. exists (S f).
      rewrite ldfs_unfold, Hv, Hst, Hm, Ht. exact E.
    - intros p W. exists 0. reflexivity.
    - intros x qs p W e W1 _ [f E]. exists f. cbn [ldfs_list]. rewrite E. reflexivity.
    - intros x qs p W W1 r W2 _ [f1 E1] _ [f2 E2]. exists (f1 + f2). cbn [ldfs_list].
      rewrite (ldfs_mono_le A h f1 (f1 + f2) _ _ _ _ _ ltac:(lia) E1).
      apply (ldfs_list_mono_le A h f2 (f1 + f2) _ _ _ _ _ ltac:(lia) E2).
  Qed.

  Lemma LE_total q p W : exists r W', LE q p W r W' /\ length W' = length W.
  Proof. destruct (ldfs_total A h q p W) as [r [W' [E Hl]]]. exists r, W'. split; [eapply ldfs_LE; eauto|exact Hl]. Qed.

  Lemma LLE_total qs p W : exists r W', LLE qs p W r W' /\ length W' = length W.
  Proof. destruct (ldfs_list_total A h qs p W) as [r [W' [E Hl]]]. exists r, W'. split; [eapply ldfs_list_LLE; eauto|exact Hl]. Qed.

  Lemma LE_fun q p W r1 W1 r2 W2 : LE q p W r1 W1 -> LE q p W r2 W2 -> r1 = r2 /\ W1 = W2.
  Proof.
    intros H1 H2. apply (proj1 LE_LLE_fuel) in H1, H2. destruct H1 as [f1 E1], H2 as [f2 E2].
    apply (ldfs_mono_le A h f1 (f1 + f2)) in E1; [|lia]. apply (ldfs_mono_le A h f2 (f1 + f2)) in E2; [|lia].
    rewrite E1 in E2. inversion E2. auto.
  Qed.

  Lemma LLE_fun qs p W r1 W1 r2 W2 : LLE qs p W r1 W1 -> LLE qs p W r2 W2 -> r1 = r2 /\ W1 = W2.
  Proof.
    intros H1 H2. apply (proj2 LE_LLE_fuel) in H1, H2. destruct H1 as [f1 E1], H2 as [f2 E2].
    apply (ldfs_list_mono_le A h f1 (f1 + f2)) in E1; [|lia]. apply (ldfs_list_mono_le A h f2 (f1 + f2)) in E2; [|lia].
    rewrite E1 in E2. inversion E2. auto.
  Qed.

  Lemma LLE_app qs1 qs2 p W W1 r W2 :
    LLE qs1 p W None W1 -> LLE qs2 p W1 r W2 -> LLE (qs1 ++ qs2) p W r W2.
  Proof.
    revert W. induction qs1 as [|x qs1 IH]; intros W H1 H2; cbn [app].
    - inversion H1; subst. exact H2.
    - inversion H1; subst. eapply LLE_miss; eauto.
  Qed.

  Lemma LLE_app_hit qs1 qs2 p W e W1 :
    LLE qs1 p W (Some e) W1 -> LLE (qs1 ++ qs2) p W (Some e) W1.
  Proof.
    revert W. induction qs1 as [|x qs1 IH]; intros W H1; cbn [app]; inversion H1; subst.
    - now apply LLE_hit.
    - eapply LLE_miss; eauto.
  Qed.
End LRel.

(* ------------------------------------------------------------------ what a run visits *)
Section LFacts.
  Variable A : nfa.
  Variable h : hay.
  Hypothesis Hwf : wf_nfa A = true.

  Definition inW (W : list vset) (i x : nat) : Prop := In x (nth i W []).

  Lemma lstep_bstep q st p x : nth_error (states A) q = Some st -> In x (lstep h st p) -> bstep A h p q x.
  Proof.
    unfold lstep. intros Hst Hin. destruct (nth_error h p) as [b|] eqn:Hb; [|destruct Hin].
    exists st, b. auto.
  Qed.

  Lemma eps_estep q st p x : nth_error (states A) q = Some st -> In x (eps_succ h p st) -> estep A h p q x.
  Proof. intros Hst Hin. exists st. auto. Qed.

  Definition adds_post (roots : list nat) (p : nat) (W W' : list vset) : Prop :=
    length W' = length W /\
    (forall i x, inW W i x -> inW W' i x) /\
    (forall i x, inW W' i x -> inW W i x \/ exists y, In y roots /\ reach A h (y, p) (x, p + i)).

  Lemma LE_LLE_adds :
    (forall q p W r W', LE A h q p W r W' -> adds_post [q] p W W') /\
    (forall qs p W r W', LLE A h qs p W r W' -> adds_post qs p W W').
  Proof.
    assert (Hadd : forall q p v W, adds_post [q] p (v :: W) ((q :: v) :: W)).
    { intros q p v W. split; [reflexivity|]. split.
      - intros [|i] x Hx; unfold inW in *; cbn [nth] in *; [now right|exact Hx].
      - intros [|i] x Hx; unfold inW in *; cbn [nth] in *; [|now left].
        destruct Hx as [<-|Hx]; [|now left]. right. exists q. split; [now left|].
        rewrite Nat.add_0_r. constructor. }
    apply LE_LLE_ind.
    - intros q p. split; [reflexivity|]. split; auto.
    - intros q p v W _. split; [reflexivity|]. split; auto.
    - intros q p v W _ _. apply Hadd.
    - intros q p v W st _ _ _. apply Hadd.
    - intros q p v W st r W1 _ Hst _ _ _ [Hl [Hin Hout]]. split; [cbn [length]; congruence|]. split.
      + intros [|i] x Hx; unfold inW in *; cbn [nth] in *; [now right|apply (Hin i x Hx)].
      + intros [|i] x Hx; unfold inW in *; cbn [nth] in *.
        * destruct Hx as [<-|Hx]; [|now left]. right. exists q. split; [now left|].
          rewrite Nat.add_0_r. constructor.
        * destruct (Hout i x Hx) as [H0|[y [Hy Hr]]]; [now left|]. right. exists q. split; [now left|].
          econstructor; [apply (bstep_edge A h Hwf), (lstep_bstep q st p y Hst Hy)|].
          replace (p + S i) with (S p + i) by lia. exact Hr.
    - intros q p v W st r W1 _ Hst _ _ _ [Hl [Hin Hout]]. split; [cbn [length] in *; congruence|]. split.
      + intros i x Hx. apply Hin. destruct i; unfold inW in *; cbn [nth] in *; [now right|exact Hx].
      + intros i x Hx. destruct (Hout i x Hx) as [H0|[y [Hy Hr]]].
        * destruct i; unfold inW in *; cbn [nth] in *; [|now left].
          destruct H0 as [<-|H0]; [|now left]. right. exists q. split; [now left|].
          rewrite Nat.add_0_r. constructor.
        * right. exists q. split; [now left|].
          econstructor; [apply estep_edge, (eps_estep q st p y Hst Hy)|exact Hr].
    - intros p W. split; [reflexivity|]. split; auto.
    - intros x qs p W e W1 _ [Hl [Hin Hout]]. split; [exact Hl|]. split; [exact Hin|].
      intros i y Hy. destruct (Hout i y Hy) as [H0|[z [[<-|[]] Hr]]]; [now left|].
      right. exists x. split; [now left|exact Hr].
    - intros x qs p W W1 r W2 _ [Hl [Hin Hout]] _ [Hl2 [Hin2 Hout2]]. split; [congruence|]. split.
      + intros i y Hy. apply Hin2, Hin, Hy.
      + intros i y Hy. destruct (Hout2 i y Hy) as [H1|[z [Hz Hr]]].
        * destruct (Hout i y H1) as [H0|[z [[<-|[]] Hr]]]; [now left|].
          right. exists x. split; [now left|exact Hr].
        * right. exists z. split; [now right|exact Hr].
  Qed.

  (* soundness: a reported end is the end of an accepting path *)
  Lemma LE_LLE_sound :
    (forall q p W r W', LE A h q p W r W' -> forall e, r = Some e -> nfa_path A h q p e) /\
    (forall qs p W r W', LLE A h qs p W r W' -> forall e, r = Some e -> exists y, In y qs /\ nfa_path A h y p e).
  Proof.
    apply LE_LLE_ind; try (intros; discriminate).
    - intros q p v W st _ Hst Hm e E. inversion E; subst e. exists q. split; [constructor|].
      destruct st; try discriminate. exact Hst.
    - intros q p v W st r W1 _ Hst _ _ _ IH e E. destruct (IH e E) as [y [Hy [z [Hr Hz]]]].
      exists z. split; [|exact Hz].
      econstructor; [apply (bstep_edge A h Hwf), (lstep_bstep q st p y Hst Hy)|exact Hr].
    - intros q p v W st r W1 _ Hst _ _ _ IH e E. destruct (IH e E) as [y [Hy [z [Hr Hz]]]].
      exists z. split; [|exact Hz].
      econstructor; [apply estep_edge, (eps_estep q st p y Hst Hy)|exact Hr].
    - intros x qs p W e W1 _ IH e' E. exists x. split; [now left|apply IH, E].
    - intros x qs p W W1 r W2 _ _ _ IH e E. destruct (IH e E) as [y [Hy Hp]]. exists y. split; [now right|exact Hp].
  Qed.
End LFacts.

(* ------------------------------------------------------------------ configurations without an
   accepting path may be added to / removed from the visited lists freely *)
Section LDead.
  Variable A : nfa.
  Variable h : hay.
  Hypothesis Hwf : wf_nfa A = true.

  Definition dead (q p : nat) : Prop := forall e, ~ nfa_path A h q p e.

  Definition Rd (p : nat) (W1 W2 : list vset) : Prop :=
    length W1 = length W2 /\
    forall i x, Pike.vmem x (nth i W1 []) = Pike.vmem x (nth i W2 []) \/ dead x (p + i).

  Lemma Rd_refl p W : Rd p W W.
  Proof. split; [reflexivity|]. intros; now left. Qed.

  Lemma Rd_sym p W1 W2 : Rd p W1 W2 -> Rd p W2 W1.
  Proof. intros [Hl H]. split; [congruence|]. intros i x. destruct (H i x); [left; congruence|now right]. Qed.

  Lemma Rd_trans p W1 W2 W3 : Rd p W1 W2 -> Rd p W2 W3 -> Rd p W1 W3.
  Proof.
    intros [Hl1 H1] [Hl2 H2]. split; [congruence|]. intros i x.
    destruct (H1 i x) as [E1|D]; [|now right]. destruct (H2 i x) as [E2|D]; [left; congruence|now right].
  Qed.

  Lemma Rd_tail p a b T1 T2 : Rd p (a :: T1) (b :: T2) -> Rd (S p) T1 T2.
  Proof.
    intros [Hl H]. split; [cbn in Hl; lia|]. intros i x. specialize (H (S i) x). cbn [nth] in H.
    replace (S p + i) with (p + S i) by lia. exact H.
  Qed.

  Lemma Rd_cons p a b T1 T2 :
    (forall x, Pike.vmem x a = Pike.vmem x b \/ dead x p) -> Rd (S p) T1 T2 -> Rd p (a :: T1) (b :: T2).
  Proof.
    intros Hh [Hl H]. split; [cbn; lia|]. intros [|i] x; cbn [nth].
    - rewrite Nat.add_0_r. apply Hh.
    - replace (p + S i) with (S p + i) by lia. apply H.
  Qed.

  Lemma Rd_head p a b T1 T2 : Rd p (a :: T1) (b :: T2) -> forall x, Pike.vmem x a = Pike.vmem x b \/ dead x p.
  Proof. intros [_ H] x. specialize (H 0 x). cbn [nth] in H. rewrite Nat.add_0_r in H. exact H. Qed.

  Lemma vmem_cons q x v : Pike.vmem x (q :: v) = (x =? q) || Pike.vmem x v.
  Proof. reflexivity. Qed.

  Lemma Rd_push p q a b T1 T2 : Rd p (a :: T1) (b :: T2) -> Rd p ((q :: a) :: T1) ((q :: b) :: T2).
  Proof.
    intros H. apply Rd_cons; [|eapply Rd_tail; eauto]. intros x. rewrite !vmem_cons.
    destruct (Rd_head _ _ _ _ _ H x) as [E|D]; [left; now rewrite E|now right].
  Qed.

  Lemma dead_reach q p x p' : dead q p -> reach A h (q, p) (x, p') -> dead x p'.
  Proof. intros Hd Hr e [z [Hr' Hz]]. apply (Hd e). exists z. split; [eapply reach_trans; eauto|exact Hz]. Qed.

  Lemma LE_dead q p W r W' : dead q p -> LE A h q p W r W' -> r = None /\ Rd p W W'.
  Proof.
    intros Hd H. split.
    - destruct r as [e|]; [|reflexivity]. exfalso. apply (Hd e).
      apply (proj1 (LE_LLE_sound A h Hwf) _ _ _ _ _ H e eq_refl).
    - destruct (proj1 (LE_LLE_adds A h Hwf) _ _ _ _ _ H) as [Hl [Hin Hout]]. split; [congruence|].
      intros i x. destruct (Pike.vmem x (nth i W' [])) eqn:E1; destruct (Pike.vmem x (nth i W [])) eqn:E2; auto.
      + apply vmem_In in E1. destruct (Hout i x E1) as [H0|[y [[<-|[]] Hr]]].
        * apply vmem_In in H0. unfold inW in *. congruence.
        * right. eapply dead_reach; eauto.
      + apply vmem_In in E2. apply (Hin i x) in E2. apply vmem_In in E2. unfold inW in *. congruence.
  Qed.

  Lemma LE_LLE_Rd :
    (forall q p W1 r1 W1', LE A h q p W1 r1 W1' -> forall W2 r2 W2', Rd p W1 W2 -> LE A h q p W2 r2 W2' ->
        r1 = r2 /\ Rd p W1' W2') /\
    (forall qs p W1 r1 W1', LLE A h qs p W1 r1 W1' -> forall W2 r2 W2', Rd p W1 W2 -> LLE A h qs p W2 r2 W2' ->
        r1 = r2 /\ Rd p W1' W2').
  Proof.
    (* the case of a dead configuration, uniformly *)
    assert (Hdd : forall q p W1 r1 W1' W2 r2 W2', dead q p -> LE A h q p W1 r1 W1' -> Rd p W1 W2 ->
              LE A h q p W2 r2 W2' -> r1 = r2 /\ Rd p W1' W2').
    { intros q p W1 r1 W1' W2 r2 W2' Hd H1 HR H2.
      destruct (LE_dead _ _ _ _ _ Hd H1) as [-> R1]. destruct (LE_dead _ _ _ _ _ Hd H2) as [-> R2].
      split; [reflexivity|]. apply (Rd_trans _ _ W1); [apply Rd_sym, R1|]. apply (Rd_trans _ _ W2); [exact HR|exact R2]. }
    apply LE_LLE_ind.
    - intros q p W2 r2 W2' [Hl _] H2. destruct W2; [|discriminate]. inversion H2; subst. split; [reflexivity|apply Rd_refl].
    - intros q p v W Hv W2 r2 W2' HR H2. destruct W2 as [|v2 T2]; [destruct HR; discriminate|].
      destruct (Rd_head _ _ _ _ _ HR q) as [E|D]; [|eapply Hdd; eauto; now constructor].
      rewrite Hv in E. inversion H2; subst; try congruence. auto.
    - intros q p v W Hv Hst W2 r2 W2' HR H2. destruct W2 as [|v2 T2]; [destruct HR; discriminate|].
      destruct (Rd_head _ _ _ _ _ HR q) as [E|D]; [|eapply Hdd; eauto; now constructor].
      rewrite Hv in E. inversion H2; subst; try congruence. split; [reflexivity|now apply Rd_push].
    - intros q p v W st Hv Hst Hm W2 r2 W2' HR H2. destruct W2 as [|v2 T2]; [destruct HR; discriminate|].
      destruct (Rd_head _ _ _ _ _ HR q) as [E|D]; [|eapply Hdd; eauto; eapply LE_match; eauto].
      rewrite Hv in E. inversion H2; subst; try congruence. split; [reflexivity|now apply Rd_push].
    - intros q p v W st r W1 Hv Hst Hm Ht HL IH W2 r2 W2' HR H2. destruct W2 as [|v2 T2]; [destruct HR; discriminate|].
      destruct (Rd_head _ _ _ _ _ HR q) as [E|D]; [|eapply Hdd; eauto; eapply LE_byte; eauto].
      rewrite Hv in E. inversion H2; subst; try congruence.
      match goal with Hs : nth_error (states A) q = Some ?st' |- _ => assert (st' = st) by congruence; subst st' end.
      match goal with HL2 : LLE _ _ _ _ T2 _ _ |- _ => destruct (IH _ _ _ (Rd_tail _ _ _ _ _ HR) HL2) as [-> R2] end.
      split; [reflexivity|]. apply Rd_cons; [|exact R2]. intros x. rewrite !vmem_cons.
      destruct (Rd_head _ _ _ _ _ HR x) as [Ex|Dx]; [left; now rewrite Ex|now right].
    - intros q p v W st r W1 Hv Hst Hm Ht HL IH W2 r2 W2' HR H2. destruct W2 as [|v2 T2]; [destruct HR; discriminate|].
      destruct (Rd_head _ _ _ _ _ HR q) as [E|D]; [|eapply Hdd; eauto; eapply LE_eps; eauto].
      rewrite Hv in E. inversion H2; subst; try congruence.
      match goal with Hs : nth_error (states A) q = Some ?st' |- _ => assert (st' = st) by congruence; subst st' end.
      match goal with HL2 : LLE _ _ _ _ _ _ _ |- _ => apply (IH _ _ _ (Rd_push _ q _ _ _ _ HR) HL2) end.
    - intros p W W2 r2 W2' HR H2. inversion H2; subst. auto.
    - intros x qs p W e W1 H1 IH W2 r2 W2' HR H2. inversion H2; subst.
      + match goal with HX : LE _ _ x p W2 _ _ |- _ => apply (IH _ _ _ HR HX) end.
      + match goal with HX : LE _ _ x p W2 None _ |- _ => destruct (IH _ _ _ HR HX) as [E _]; discriminate end.
    - intros x qs p W W1 r W2a H1 IH1 HL IHL W2 r2 W2' HR H2. inversion H2; subst.
      + match goal with HX : LE _ _ x p W2 _ _ |- _ => destruct (IH1 _ _ _ HR HX) as [E _]; discriminate end.
      + match goal with HX : LE _ _ x p W2 None ?Wm, HY : LLE _ _ qs p ?Wm _ _ |- _ =>
          destruct (IH1 _ _ _ HR HX) as [_ R1]; apply (IHL _ _ _ R1 HY) end.
  Qed.
End LDead.

(* ------------------------------------------------------------------ lemma K: over one position,
   the search is the sequence of dives from the threads listed by Pike.closure_list *)
Section LayerK.
  Variable A : nfa.
  Variable h : hay.

  (* first success, in thread order, of: Match thread -> its position; byte thread -> the
     search from its byte successors at the next position (visited lists shared) *)
  Inductive Dive : nat -> list thread -> list vset -> option nat -> list vset -> Prop :=
  | Dive_nil p W : Dive p [] W None W
  | Dive_match p t T W : is_match_thread A t = true -> Dive p (t :: T) W (Some p) W
  | Dive_hit p t T W st e W1 : is_match_thread A t = false -> nth_error (states A) (fst t) = Some st ->
      LLE A h (lstep h st p) (S p) W (Some e) W1 -> Dive p (t :: T) W (Some e) W1
  | Dive_miss p t T W st W1 r W2 : is_match_thread A t = false -> nth_error (states A) (fst t) = Some st ->
      LLE A h (lstep h st p) (S p) W None W1 -> Dive p T W1 r W2 -> Dive p (t :: T) W r W2.

  Lemma Dive_app p T1 T2 W W1 r W2 : Dive p T1 W None W1 -> Dive p T2 W1 r W2 -> Dive p (T1 ++ T2) W r W2.
  Proof.
    revert W. induction T1 as [|t T1 IH]; intros W H1 H2; cbn [app].
    - inversion H1; subst. exact H2.
    - inversion H1; subst. eapply Dive_miss; eauto.
  Qed.

  Lemma Dive_app_hit p T1 T2 W e W1 : Dive p T1 W (Some e) W1 -> Dive p (T1 ++ T2) W (Some e) W1.
  Proof.
    revert W. induction T1 as [|t T1 IH]; intros W H1; cbn [app]; inversion H1; subst.
    - now apply Dive_match.
    - eapply Dive_hit; eauto.
    - eapply Dive_miss; eauto.
  Qed.

  Definition Kc (cf : nat) : Prop :=
    forall p q s v T v', closure A h cf p q s v = Done (T, v') ->
    forall W r Wout, LE A h q p (v :: W) r Wout ->
    exists W'', Dive p T W r W'' /\ (r = None -> Wout = v' :: W'').

  Lemma K_list_of cf : Kc cf ->
    forall p ts v T v', closure_list A h cf p ts v = Done (T, v') ->
    forall W r Wout, LLE A h (map fst ts) p (v :: W) r Wout ->
    exists W'', Dive p T W r W'' /\ (r = None -> Wout = v' :: W'').
  Proof.
    intros HK p ts. induction ts as [|[q s] ts IH]; intros v T v' HC W r Wout HL.
    - inversion HC; subst. cbn [map] in HL. inversion HL; subst. exists W. split; [constructor|auto].
    - cbn [closure_list] in HC.
      destruct (closure A h cf p q s v) as [|[T1 v1]] eqn:E1; [discriminate|].
      destruct (closure_list A h cf p ts v1) as [|[T2 v2]] eqn:E2; [discriminate|].
      inversion HC; subst. cbn [map fst] in HL. inversion HL; subst.
      + match goal with HX : LE _ _ q p _ _ _ |- _ => destruct (HK _ _ _ _ _ _ E1 _ _ _ HX) as [Wa [HD _]] end.
        exists Wa. split; [now apply Dive_app_hit|discriminate].
      + match goal with HX : LE _ _ q p _ None ?Wm, HY : LLE _ _ _ p ?Wm _ _ |- _ =>
          destruct (HK _ _ _ _ _ _ E1 _ _ _ HX) as [Wa [HD HE]]; rewrite (HE eq_refl) in HY;
          destruct (IH _ _ _ E2 _ _ _ HY) as [Wb [HD2 HE2]] end.
        exists Wb. split; [eapply Dive_app; eauto|exact HE2].
  Qed.

  Lemma match_state_thread q s st : nth_error (states A) q = Some st ->
    is_match_thread A (q, s) = is_match_state st.
  Proof. unfold is_match_thread. cbn [fst]. intros ->. destruct st; reflexivity. Qed.

  Lemma K_closure cf : Kc cf.
  Proof.
    induction cf as [|cf IH]; intros p q s v T v' HC W r Wout HL; [discriminate|].
    rewrite closure_unfold in HC. inversion HL; subst.
    - match goal with Hv : Pike.vmem q v = true |- _ => rewrite Hv in HC end.
      inversion HC; subst. exists W. split; [constructor|auto].
    - match goal with Hv : Pike.vmem q v = false, Hs : nth_error _ q = None |- _ => rewrite Hv, Hs in HC end.
      inversion HC; subst. exists W. split; [constructor|auto].
    - match goal with Hv : Pike.vmem q v = false, Hs : nth_error _ q = Some _ |- _ => rewrite Hv, Hs in HC end.
      assert (Ht : is_terminal st = true) by (destruct st; try discriminate; reflexivity).
      rewrite Ht in HC. inversion HC; subst. exists W. split; [|discriminate].
      apply Dive_match. erewrite match_state_thread; eauto.
    - match goal with Hv : Pike.vmem q v = false, Hs : nth_error _ q = Some _, Ht : is_terminal _ = true |- _ =>
        rewrite Hv, Hs, Ht in HC end.
      inversion HC; subst.
      assert (Hmt : is_match_thread A (q, s) = false) by (erewrite match_state_thread; eauto).
      destruct r as [e|].
      + exists W1. split; [eapply Dive_hit; eauto|discriminate].
      + exists W1. split; [eapply Dive_miss; eauto; constructor|reflexivity].
    - match goal with Hv : Pike.vmem q v = false, Hs : nth_error _ q = Some _, Ht : is_terminal _ = false |- _ =>
        rewrite Hv, Hs, Ht in HC end.
      eapply (K_list_of cf IH); [exact HC|]. rewrite map_map. cbn [fst]. rewrite map_id. assumption.
  Qed.

  Lemma K_list cf p ts v T v' W r Wout :
    closure_list A h cf p ts v = Done (T, v') -> LLE A h (map fst ts) p (v :: W) r Wout ->
    exists W'', Dive p T W r W'' /\ (r = None -> Wout = v' :: W'').
  Proof. intros HC HL. eapply (K_list_of cf (K_closure cf)); eauto. Qed.
End LayerK.

(* ------------------------------------------------------------------ Nfa.dfs = the layered search *)
Section RefSim.
  Variable A : nfa.
  Variable h : hay.
  Hypothesis Hwf : wf_nfa A = true.
  Let n := nstates A.
  Notation rdfs := (dfs A h PositiveSet.t (pmem n) (padd n)).
  Notation rdfs_list := (dfs_list A h PositiveSet.t (pmem n) (padd n)).

  Definition cst (c : nat * nat * slots) : nat := fst (fst c).
  Definition cpos (c : nat * nat * slots) : nat := snd (fst c).

  (* a search from position p leaves the positions before p untouched *)
  Lemma dfs_frame f : forall q p sl V r V', p <= length h ->
    rdfs f q p sl V = (r, V') -> forall x p0, x < n -> p0 < p -> pmem n x p0 V' = pmem n x p0 V.
  Proof.
    induction f as [|f IH]; intros q p sl V r V' Hp H x p0 Hx Hp0; [inversion H; reflexivity|].
    rewrite dfs_unfold in H.
    destruct (nth_error (states A) q) as [st|] eqn:Hst; [|inversion H; reflexivity].
    destruct (pmem n q p V); [inversion H; reflexivity|].
    assert (Hq : q < n) by (eapply nth_error_Some_lt'; eauto).
    assert (H1 : pmem n x p0 (padd n q p V) = pmem n x p0 V).
    { apply pmem_padd_other; auto. intros E. inversion E. lia. }
    destruct (is_match_state st); [inversion H; subst; exact H1|].
    rewrite <- H1.
    assert (Hcs : forall c, In c (succs h st p sl) -> p <= cpos c <= length h).
    { intros [[q' p'] s'] Hc. apply (succs_pos h st p sl q' p' s' Hc Hp). }
    revert H Hcs. generalize (padd n q p V). generalize (succs h st p sl).
    induction l as [|[[q1 p1] s1] cs IHcs]; intros V0 H Hcs; cbn [dfs_list] in H; [inversion H; reflexivity|].
    assert (Hc1 : p <= p1 <= length h) by (apply (Hcs (q1, p1, s1)); now left).
    destruct (rdfs f q1 p1 s1 V0) as [r1 V1] eqn:E1.
    pose proof (IH _ _ _ _ _ _ (proj2 Hc1) E1 x p0 Hx ltac:(lia)) as F1.
    destruct r1 as [|[x1|]]; try (inversion H; subst; exact F1).
    rewrite <- F1. apply (IHcs V1 H). intros c Hc. apply Hcs. now right.
  Qed.

  Definition Rl (p : nat) (V : PositiveSet.t) (W : list vset) : Prop :=
    length W = S (length h) - p /\
    forall i x, x < n -> p + i <= length h -> pmem n x (p + i) V = Pike.vmem x (nth i W []).

  Lemma Rl_add p V v Wt q : q < n -> Rl p V (v :: Wt) -> Rl p (padd n q p V) ((q :: v) :: Wt).
  Proof.
    intros Hq [Hl H]. split; [exact Hl|]. intros [|i] x Hx Hi; cbn [nth].
    - rewrite Nat.add_0_r. rewrite vmem_cons. destruct (Nat.eqb_spec x q) as [->|Hne].
      + apply pmem_padd_same.
      + rewrite pmem_padd_other; auto; [|intros E; inversion E; congruence].
        specialize (H 0 x Hx Hi). rewrite Nat.add_0_r in H. exact H.
    - rewrite pmem_padd_other; auto; [|intros E; inversion E; lia]. apply (H (S i) x Hx Hi).
  Qed.

  Lemma Rl_tail p V v Wt : Rl p V (v :: Wt) -> Rl (S p) V Wt.
  Proof.
    intros [Hl H]. split; [cbn [length] in Hl; lia|]. intros i x Hx Hi.
    replace (S p + i) with (p + S i) by lia. apply (H (S i) x Hx). lia.
  Qed.

  Lemma Rl_cons p V v Wt : p <= length h -> (forall x, x < n -> pmem n x p V = Pike.vmem x v) ->
    Rl (S p) V Wt -> Rl p V (v :: Wt).
  Proof.
    intros Hp Hh [Hl H]. split; [cbn [length]; lia|]. intros [|i] x Hx Hi; cbn [nth].
    - rewrite Nat.add_0_r. apply Hh, Hx.
    - replace (p + S i) with (S p + i) by lia. apply H; [exact Hx|lia].
  Qed.

  Lemma succs_shape q st p sl : nth_error (states A) q = Some st -> is_match_state st = false ->
    map cst (succs h st p sl) = (if is_terminal st then lstep h st p else eps_succ h p st) /\
    forall c, In c (succs h st p sl) -> cpos c = if is_terminal st then S p else p.
  Proof.
    intros Hst Hm. pose proof (wf_state A Hwf _ _ Hst) as Hok.
    destruct st as [|lo hi nx|trs|l r|nx|idx is_start nx|lk nx|]; try discriminate;
      cbn [succs is_terminal eps_succ]; unfold lstep; cbn [byte_succ].
    - destruct (nth_error h p) as [b|]; [|split; [reflexivity|intros c []]].
      destruct (in_range lo hi b); (split; [reflexivity|]); [intros c [<-|[]]; reflexivity|intros c []].
    - destruct (nth_error h p) as [b|]; [|split; [reflexivity|intros c []]].
      cbn [state_ok] in Hok. rewrite (sparse_filter_first _ _ _ b Hok).
      destruct (sparse_next trs b); (split; [reflexivity|]); [intros c [<-|[]]; reflexivity|intros c []].
    - split; [reflexivity|]. intros c [<-|[<-|[]]]; reflexivity.
    - split; [reflexivity|]. intros c [<-|[]]; reflexivity.
    - split; [reflexivity|]. intros c [<-|[]]; reflexivity.
    - destruct (look_ok lk h p); (split; [reflexivity|]); [intros c [<-|[]]; reflexivity|intros c []].
    - split; [reflexivity|]. intros c [].
  Qed.
End RefSim.

Section RefSim2.
  Variable A : nfa.
  Variable h : hay.
  Hypothesis Hwf : wf_nfa A = true.
  Let n := nstates A.
  Notation rdfs := (dfs A h PositiveSet.t (pmem n) (padd n)).
  Notation rdfs_list := (dfs_list A h PositiveSet.t (pmem n) (padd n)).

  Definition erase (r : option (nat * slots)) : option nat := option_map fst r.

  Definition simP (f : nat) : Prop :=
    forall q p sl V r V' W, q < n -> p <= length h -> Rl A h p V W ->
    rdfs f q p sl V = (Done r, V') -> exists W', LE A h q p W (erase r) W' /\ Rl A h p V' W'.

  Lemma dfs_list_LLE_of f : simP f ->
    forall cs p V r V' W,
    (forall c, In c cs -> cst c < n /\ cpos c = p /\ p <= length h) -> Rl A h p V W ->
    rdfs_list f cs V = (Done r, V') -> exists W', LLE A h (map cst cs) p W (erase r) W' /\ Rl A h p V' W'.
  Proof.
    intros HS cs. induction cs as [|[[q1 p1] s1] cs IH]; intros p V r V' W Hcs HR H; cbn [dfs_list] in H.
    - inversion H; subst. exists W. split; [constructor|exact HR].
    - destruct (Hcs (q1, p1, s1) (or_introl eq_refl)) as [Hq1 [Hp1 Hp]]. unfold cst, cpos in Hq1, Hp1. cbn [fst snd] in Hq1, Hp1. subst p1.
      destruct (rdfs f q1 p s1 V) as [[|[[e1 sl1]|]] V1] eqn:E1; try discriminate.
      + inversion H; subst. destruct (HS _ _ _ _ _ _ _ Hq1 Hp HR E1) as [W1 [L1 R1]].
        exists W1. split; [|exact R1]. cbn [map]. apply LLE_hit. exact L1.
      + destruct (HS _ _ _ _ _ _ _ Hq1 Hp HR E1) as [W1 [L1 R1]].
        destruct (IH p V1 r V' W1 (fun c Hc => Hcs c (or_intror Hc)) R1 H) as [W2 [L2 R2]].
        exists W2. split; [|exact R2]. cbn [map]. eapply LLE_miss; eauto.
  Qed.

  Lemma dfs_list_frame f cs p V r V' :
    (forall c, In c cs -> cpos c = p /\ p <= length h) ->
    rdfs_list f cs V = (r, V') -> forall x p0, x < n -> p0 < p -> pmem n x p0 V' = pmem n x p0 V.
  Proof.
    revert V. induction cs as [|[[q1 p1] s1] cs IH]; intros V Hcs H x p0 Hx Hp0; cbn [dfs_list] in H; [inversion H; reflexivity|].
    destruct (Hcs (q1, p1, s1) (or_introl eq_refl)) as [Hp1 Hp]. unfold cpos in Hp1. cbn [fst snd] in Hp1. subst p1.
    destruct (rdfs f q1 p s1 V) as [r1 V1] eqn:E1.
    pose proof (dfs_frame A h Hwf f _ _ _ _ _ _ Hp E1 x p0 Hx Hp0) as F1.
    destruct r1 as [|[x1|]]; try (inversion H; subst; exact F1).
    etransitivity; [|exact F1]. apply (IH V1 (fun c Hc => Hcs c (or_intror Hc)) H x p0 Hx Hp0).
  Qed.

  Lemma dfs_LE f : simP f.
  Proof.
    induction f as [|f IH]; intros q p sl V r V' W Hq Hp HR H; [discriminate|].
    destruct W as [|v Wt]; [destruct HR as [Hl _]; cbn [length] in Hl; lia|].
    rewrite dfs_unfold in H.
    destruct (nth_error (states A) q) as [st|] eqn:Hst.
    2:{ apply nth_error_None in Hst. unfold n, nstates in Hq. lia. }
    assert (Hv : pmem n q p V = Pike.vmem q v).
    { destruct HR as [_ HR]. specialize (HR 0 q Hq ltac:(lia)). rewrite Nat.add_0_r in HR. exact HR. }
    rewrite Hv in H. destruct (Pike.vmem q v) eqn:Ev.
    { inversion H; subst. exists (v :: Wt). split; [now constructor|exact HR]. }
    pose proof (Rl_add A h Hwf p V v Wt q Hq HR) as HR1.
    destruct (is_match_state st) eqn:Hm.
    { inversion H; subst. exists ((q :: v) :: Wt). split; [eapply LE_match; eauto|exact HR1]. }
    destruct (succs_shape A h Hwf q st p sl Hst Hm) as [Hmap Hpos].
    assert (Hcs : forall c, In c (succs h st p sl) -> cst c < n /\ cpos c <= length h).
    { intros [[q' p'] s'] Hc. split; [eapply succs_target_ok; eauto|].
      apply (succs_pos h st p sl q' p' s' Hc Hp). }
    destruct (is_terminal st) eqn:Ht.
    - assert (Hcs1 : forall c, In c (succs h st p sl) -> cst c < n /\ cpos c = S p /\ S p <= length h).
      { intros c Hc. destruct (Hcs c Hc) as [H1 H2]. rewrite (Hpos c Hc) in H2. rewrite (Hpos c Hc). auto. }
      destruct (dfs_list_LLE_of f IH (succs h st p sl) (S p) (padd n q p V) r V' Wt Hcs1
                  (Rl_tail A h Hwf _ _ _ _ HR1) H) as [W1 [L1 R1]].
      rewrite Hmap in L1. exists ((q :: v) :: W1). split; [eapply LE_byte; eauto|].
      apply (Rl_cons A h Hwf); [exact Hp| |exact R1]. intros x Hx.
      etransitivity.
      { apply (dfs_list_frame f (succs h st p sl) (S p) (padd n q p V) (Done r) V'
                 (fun c Hc => proj2 (Hcs1 c Hc)) H x p Hx). lia. }
      destruct HR1 as [_ HR1]. specialize (HR1 0 x Hx ltac:(lia)). rewrite Nat.add_0_r in HR1. exact HR1.
    - assert (Hcs1 : forall c, In c (succs h st p sl) -> cst c < n /\ cpos c = p /\ p <= length h).
      { intros c Hc. destruct (Hcs c Hc) as [H1 H2]. rewrite (Hpos c Hc). auto. }
      destruct (dfs_list_LLE_of f IH (succs h st p sl) p (padd n q p V) r V' _ Hcs1 HR1 H) as [W1 [L1 R1]].
      rewrite Hmap in L1. exists W1. split; [eapply LE_eps; eauto|exact R1].
  Qed.
End RefSim2.

(* ------------------------------------------------------------------ list helpers *)
Lemma filter_nil {T} (f : T -> bool) l : (forall x, In x l -> f x = false) -> filter f l = [].
Proof.
  induction l as [|a l IH]; intros H; [reflexivity|]. cbn [filter].
  rewrite (H a (or_introl eq_refl)). apply IH. intros x Hx. apply H. now right.
Qed.

Lemma filter_all {T} (f : T -> bool) l : (forall x, In x l -> f x = true) -> filter f l = l.
Proof.
  induction l as [|a l IH]; intros H; [reflexivity|]. cbn [filter].
  rewrite (H a (or_introl eq_refl)). f_equal. apply IH. intros x Hx. apply H. now right.
Qed.

Lemma inW_repeat k i x : inW (repeat [] k) i x -> False.
Proof. unfold inW. revert i. induction k as [|k IH]; intros [|i]; cbn [repeat nth]; auto. apply IH. Qed.

(* a list of threads sorted by start splits into the starts before, at and after ss *)
Definition tag_lt (ss : nat) (t : thread) : bool := snd t <? ss.
Definition tag_eq (ss : nat) (t : thread) : bool := snd t =? ss.
Definition tag_gt (ss : nat) (t : thread) : bool := ss <? snd t.

Lemma tsorted_split ss (l : list thread) : tsorted l ->
  l = filter (tag_lt ss) l ++ filter (tag_eq ss) l ++ filter (tag_gt ss) l.
Proof.
  induction l as [|a l IH]; intros Hs; [reflexivity|]. destruct Hs as [Ha Hs]. specialize (IH Hs).
  cbn [filter]. unfold tag_lt at 1, tag_eq at 1, tag_gt at 1.
  destruct (lt_eq_lt_dec (snd a) ss) as [[Hlt|Heq]|Hgt].
  - replace (snd a <? ss) with true by lia. replace (snd a =? ss) with false by lia.
    replace (ss <? snd a) with false by lia. cbn [app]. f_equal. exact IH.
  - replace (snd a <? ss) with false by lia. replace (snd a =? ss) with true by lia.
    replace (ss <? snd a) with false by lia.
    assert (E1 : filter (tag_lt ss) l = []) by (apply filter_nil; intros x Hx; pose proof (Ha x Hx); unfold tag_lt; lia).
    rewrite E1 in IH |- *. cbn [app] in *. f_equal. exact IH.
  - replace (snd a <? ss) with false by lia. replace (snd a =? ss) with false by lia.
    replace (ss <? snd a) with true by lia.
    assert (E1 : filter (tag_lt ss) l = []) by (apply filter_nil; intros x Hx; pose proof (Ha x Hx); unfold tag_lt; lia).
    assert (E2 : filter (tag_eq ss) l = []) by (apply filter_nil; intros x Hx; pose proof (Ha x Hx); unfold tag_eq; lia).
    rewrite E1, E2 in IH |- *. cbn [app] in *. f_equal. exact IH.
Qed.

Section ClosureApp.
  Variable A : nfa.
  Variable h : hay.

  Lemma closure_list_app f p a b vs :
    closure_list A h f p (a ++ b) vs =
    match closure_list A h f p a vs with
    | OutOfFuel => OutOfFuel
    | Done (T1, v1) => match closure_list A h f p b v1 with
                       | OutOfFuel => OutOfFuel
                       | Done (T2, v2) => Done (T1 ++ T2, v2)
                       end
    end.
  Proof.
    revert vs. induction a as [|[q s] a IH]; intros vs; cbn [app closure_list].
    - destruct (closure_list A h f p b vs) as [|[T2 v2]]; reflexivity.
    - destruct (closure A h f p q s vs) as [|[T0 v0]]; [reflexivity|]. rewrite IH.
      destruct (closure_list A h f p a v0) as [|[T1 v1]]; [reflexivity|].
      destruct (closure_list A h f p b v1) as [|[T2 v2]]; [reflexivity|]. now rewrite app_assoc.
  Qed.

  (* the byte successors of the threads of a list *)
  Definition lst (p : nat) (t : thread) : list nat :=
    match nth_error (states A) (fst t) with Some st => lstep h st p | None => [] end.

  Lemma lst_targets p b t : nth_error h p = Some b -> map fst (targets A b t) = lst p t.
  Proof.
    intros Hb. unfold targets, lst, lstep. rewrite Hb. destruct (nth_error (states A) (fst t)); [|reflexivity].
    rewrite map_map. cbn [fst]. apply map_id.
  Qed.

  Lemma Dive_nomatch p T W r W2 : (forall t, In t T -> is_match_thread A t = false) ->
    Dive A h p T W r W2 -> LLE A h (flat_map (lst p) T) (S p) W r W2.
  Proof.
    intros Hn HD. induction HD as [p W|p t T W Hm|p t T W st e W1 Hm Hst HL|p t T W st W1 r W2 Hm Hst HL HD IH]; cbn [flat_map].
    - constructor.
    - rewrite (Hn t (or_introl eq_refl)) in Hm. discriminate.
    - unfold lst at 1. rewrite Hst. now apply LLE_app_hit.
    - unfold lst at 1. rewrite Hst. eapply LLE_app; [exact HL|]. apply IH. intros t' Ht'. apply Hn. now right.
  Qed.

  Lemma Dive_split p T0 tm R W r W2 : (forall t, In t T0 -> is_match_thread A t = false) ->
    is_match_thread A tm = true -> Dive A h p (T0 ++ tm :: R) W r W2 ->
    (exists e, r = Some e /\ Dive A h p T0 W (Some e) W2) \/ (r = Some p /\ exists W1, Dive A h p T0 W None W1).
  Proof.
    intros Hn Hm. revert W. induction T0 as [|t T0 IH]; intros W HD; cbn [app] in HD.
    - inversion HD; subst; try congruence. right. split; [reflexivity|]. eexists. constructor.
    - assert (Ht : is_match_thread A t = false) by (apply Hn; now left).
      inversion HD; subst; try congruence.
      + left. exists e. split; [reflexivity|]. eapply Dive_hit; eauto.
      + match goal with HX : Dive _ _ p (T0 ++ tm :: R) _ _ _ |- _ =>
          destruct (IH (fun t' Ht' => Hn t' (or_intror Ht')) _ HX) as [[e [-> HD']]|[-> [W1' HD']]] end.
        * left. exists e. split; [reflexivity|]. eapply Dive_miss; eauto.
        * right. split; [reflexivity|]. exists W1'. eapply Dive_miss; eauto.
  Qed.

  Lemma Dive_end p T W r W2 : nth_error h p = None -> (forall t, In t T -> is_match_thread A t = false) ->
    Dive A h p T W r W2 -> r = None.
  Proof.
    intros Hb Hn HD. induction HD as [p W|p t T W Hm|p t T W st e W1 Hm Hst HL|p t T W st W1 r W2 Hm Hst HL HD IH].
    - reflexivity.
    - rewrite (Hn t (or_introl eq_refl)) in Hm. discriminate.
    - unfold lstep in HL. rewrite Hb in HL. inversion HL.
    - apply IH; [exact Hb|]. intros t' Ht'. apply Hn. now right.
  Qed.

  Lemma Dive_some_nonempty p T W e W2 : Dive A h p T W (Some e) W2 -> T <> [].
  Proof. intros HD E. subst. inversion HD. Qed.
End ClosureApp.

(* ------------------------------------------------------------------ the unanchored loop against
   the search from the leftmost matching start ss *)
Section TagFacts.
  Variable A : nfa.
  Variable h : hay.

  Lemma closure_list_tags f p ts vs T vs' :
    closure_list A h f p ts vs = Done (T, vs') -> forall t, In t T -> exists r, In r ts /\ snd r = snd t.
  Proof.
    intros H t Ht. destruct (p_thr _ _ _ _ _ _ _ (closure_list_spec A h _ _ _ _ _ _ H) t Ht) as [_ [_ [r [Hr [Hs _]]]]].
    eauto.
  Qed.

  Lemma filter_targets ss b t :
    filter (tag_eq ss) (targets A b t) = if tag_eq ss t then targets A b t else [].
  Proof.
    destruct (tag_eq ss t) eqn:E.
    - apply filter_all. intros r Hr. unfold tag_eq in *. now rewrite (targets_tag A b t r Hr).
    - apply filter_nil. intros r Hr. unfold tag_eq in *. now rewrite (targets_tag A b t r Hr).
  Qed.

  Lemma map_fst_filter_targets ss p b q0 : nth_error h p = Some b ->
    map fst (filter (tag_eq ss) (flat_map (targets A b) q0)) = flat_map (lst A h p) (filter (tag_eq ss) q0).
  Proof.
    intros Hb. induction q0 as [|t q0 IH]; [reflexivity|]. cbn [flat_map filter].
    rewrite filter_app, map_app, filter_targets. destruct (tag_eq ss t); cbn [flat_map map app].
    - f_equal; [apply (lst_targets A h p b t Hb)|exact IH].
    - exact IH.
  Qed.
End TagFacts.

Section Main.
  Variable A : nfa.
  Variable h : hay.
  Hypothesis Hwf : wf_nfa A = true.
  Variables at_ ss e' : nat.
  Notation st0 := (start_anch A).
  Hypothesis Hdead : forall s, at_ <= s -> s < ss -> dead A h st0 s.
  Hypothesis Hss : ss <= length h.
  Hypothesis Href : exists Wr, LE A h st0 ss (repeat [] (S (length h) - ss)) (Some e') Wr.

  Definition Qs (q : list thread) : list thread := filter (tag_eq ss) q.
  Definition deadW (p : nat) (W : list vset) : Prop := forall i x, inW W i x -> dead A h x (p + i).

  (* the reference answer e' is the first success of the dives from the threads of start ss,
     or (if they all fail) the match already recorded *)
  Definition J (p : nat) (T : list thread) (best : option (nat * nat)) : Prop :=
    exists W' r W'', length W' = length h - p /\ deadW (S p) W' /\ Dive A h p T W' r W'' /\
                     (r = Some e' \/ (r = None /\ best = Some (ss, e'))).

  Lemma J_step p b q0 best nq vs' :
    sinv A h at_ (S p) (S p) p q0 best -> nth_error h p = Some b ->
    step_all A h (S p) b q0 = Done (nq, vs') ->
    (forall t, In t q0 -> is_match_thread A t = false) ->
    J p (Qs q0) best -> J (S p) (Qs nq) best.
  Proof.
    intros I Hb ES Hnm [W' [r [W'' [Hl [Hd [HD Hr]]]]]].
    assert (Hp : p < length h) by (eapply nth_error_Some_lt'; eauto).
    destruct W' as [|w Wt]; [cbn [length] in Hl; lia|].
    pose proof (targets_sorted A b q0 (i_sorted _ _ _ _ _ _ _ _ I)) as Hso.
    unfold step_all in ES. rewrite (tsorted_split ss _ Hso), closure_list_app in ES.
    set (ts := flat_map (targets A b) q0) in *.
    destruct (closure_list A h (cfuel A) (S p) (filter (tag_lt ss) ts) []) as [|[Tlt vlt]] eqn:E1; [discriminate|].
    rewrite closure_list_app in ES.
    destruct (closure_list A h (cfuel A) (S p) (filter (tag_eq ss) ts) vlt) as [|[Teq veq]] eqn:E2; [discriminate|].
    destruct (closure_list A h (cfuel A) (S p) (filter (tag_gt ss) ts) veq) as [|[Tgt vgt]] eqn:E3; [discriminate|].
    inversion ES; subst nq vs'. clear ES.
    (* the threads of start ss in the next queue *)
    assert (HQ : Qs (Tlt ++ Teq ++ Tgt) = Teq).
    { unfold Qs. rewrite !filter_app.
      rewrite (filter_nil (tag_eq ss) Tlt), (filter_nil (tag_eq ss) Tgt), (filter_all (tag_eq ss) Teq).
      - now rewrite app_nil_r.
      - intros t Ht. destruct (closure_list_tags A h _ _ _ _ _ _ E2 t Ht) as [r0 [Hr0 Hs]].
        apply filter_In in Hr0. destruct Hr0 as [_ Hg]. unfold tag_eq in *. lia.
      - intros t Ht. destruct (closure_list_tags A h _ _ _ _ _ _ E3 t Ht) as [r0 [Hr0 Hs]].
        apply filter_In in Hr0. destruct Hr0 as [_ Hg]. unfold tag_gt, tag_eq in *. lia.
      - intros t Ht. destruct (closure_list_tags A h _ _ _ _ _ _ E1 t Ht) as [r0 [Hr0 Hs]].
        apply filter_In in Hr0. destruct Hr0 as [_ Hg]. unfold tag_lt, tag_eq in *. lia. }
    rewrite HQ.
    (* what the earlier starts have visited has no accepting path *)
    assert (Hvlt : forall x, In x vlt -> dead A h x (S p)).
    { intros x Hx. destruct (p_sound _ _ _ _ _ _ _ (closure_list_spec A h _ _ _ _ _ _ E1) x Hx) as [[]|[r0 [Hr0 He]]].
      apply filter_In in Hr0. destruct Hr0 as [Hr0 Hlt]. unfold tag_lt in Hlt.
      apply in_flat_map in Hr0. destruct Hr0 as [[y s] [Hy Hr0]].
      apply in_targets in Hr0. destruct Hr0 as [st [Hst [Hin Hs]]]. cbn [fst snd] in *.
      destruct (i_sound _ _ _ _ _ _ _ _ I y s Hy) as [H1 [H2 [H3 H4]]].
      apply (dead_reach A h st0 s x (S p)); [apply Hdead; lia|].
      eapply (reach_byte_ereach A h Hwf); [exact H4| |exact He]. exists st, b. auto. }
    (* the dives of the kept threads of start ss, as one search at the next position *)
    assert (HL1 : LLE A h (map fst (filter (tag_eq ss) ts)) (S p) (w :: Wt) r W'').
    { unfold ts. rewrite (map_fst_filter_targets A h ss p b q0 Hb).
      apply Dive_nomatch; [|exact HD]. intros t Ht. apply Hnm. apply filter_In in Ht. apply Ht. }
    assert (HR : Rd A h (S p) (w :: Wt) (vlt :: Wt)).
    { apply (Rd_cons A h Hwf); [|apply Rd_refl]. intros x.
      destruct (Pike.vmem x w) eqn:Ew; destruct (Pike.vmem x vlt) eqn:Ev; auto; right.
      - apply vmem_In in Ew. specialize (Hd 0 x Ew). now rewrite Nat.add_0_r in Hd.
      - apply vmem_In in Ev. apply Hvlt, Ev. }
    destruct (LLE_total A h (map fst (filter (tag_eq ss) ts)) (S p) (vlt :: Wt)) as [r2 [W2 [HL2 _]]].
    destruct (proj2 (LE_LLE_Rd A h Hwf) _ _ _ _ _ HL1 _ _ _ HR HL2) as [<- _].
    destruct (K_list A h _ _ _ _ _ _ _ _ _ E2 HL2) as [W3 [HD3 _]].
    exists Wt, r, W3. split; [cbn [length] in Hl; lia|]. split; [|split; [exact HD3|exact Hr]].
    intros i x Hx. replace (S (S p) + i) with (S p + S i) by lia. apply (Hd (S i) x). exact Hx.
  Qed.

  Lemma J_cut p queue1 best q0 m :
    sinv A h at_ (S p) p p queue1 best -> cut A queue1 = (q0, m) ->
    J p (Qs queue1) best -> J p (Qs q0) (upd_best best m p).
  Proof.
    intros I EC [W' [r [W'' [Hl [Hd [HD Hr]]]]]].
    destruct (cut_spec A queue1 q0 m EC) as [Hnm Hm].
    destruct m as [tm|]; [|subst q0; exists W', r, W''; cbn [upd_best]; auto].
    destruct Hm as [Htm [rest Hq]].
    assert (Hin : In tm queue1) by (rewrite Hq; apply in_or_app; right; now left).
    pose proof (i_sorted _ _ _ _ _ _ _ _ I) as Hso. rewrite Hq in Hso. apply tsorted_app in Hso.
    destruct Hso as [So1 [[So2 So3] So4]].
    destruct tm as [xm sm]. destruct (i_sound _ _ _ _ _ _ _ _ I xm sm Hin) as [M1 [M2 [M3 M4]]]. cbn [snd] in *.
    assert (Hge : ss <= sm).
    { destruct (le_lt_dec ss sm) as [Hle|Hlt]; [exact Hle|]. exfalso. apply (Hdead sm M1 Hlt p).
      exists xm. split; [exact M4|]. apply is_match_thread_iff in Htm. exact Htm. }
    assert (Hnm0 : forall t, In t (Qs q0) -> is_match_thread A t = false).
    { intros t Ht. apply Hnm. apply filter_In in Ht. apply Ht. }
    destruct (Nat.eq_dec sm ss) as [->|Hne].
    - assert (HQ : Qs queue1 = Qs q0 ++ (xm, ss) :: Qs rest).
      { rewrite Hq. unfold Qs. rewrite filter_app. cbn [filter]. unfold tag_eq at 2. cbn [snd].
        rewrite Nat.eqb_refl. reflexivity. }
      rewrite HQ in HD.
      assert (Hbest : upd_best best (Some (xm, ss)) p = Some (ss, p)).
      { pose proof (better_true A h Hwf at_ best (xm, ss) p queue1 I Hin) as Hbt. cbn [snd] in Hbt.
        cbn [upd_best snd]. now rewrite Hbt. }
      destruct (Dive_split A h p (Qs q0) (xm, ss) (Qs rest) W' r W'' Hnm0 Htm HD) as [[e [-> HD0]]|[-> [W1 HD0]]].
      + exists W', (Some e), W''. split; [exact Hl|]. split; [exact Hd|]. split; [exact HD0|].
        left. destruct Hr as [Hr|[Hr _]]; [exact Hr|discriminate].
      + exists W', None, W1. split; [exact Hl|]. split; [exact Hd|]. split; [exact HD0|].
        right. split; [reflexivity|]. destruct Hr as [Hr|[Hr _]]; [|discriminate].
        inversion Hr; subst. exact Hbest.
    - assert (HQ : Qs queue1 = Qs q0).
      { rewrite Hq. unfold Qs. rewrite filter_app. cbn [filter]. unfold tag_eq at 2. cbn [snd].
        replace (sm =? ss) with false by lia.
        rewrite (filter_nil (tag_eq ss) rest); [apply app_nil_r|].
        intros t Ht. pose proof (So2 t Ht). unfold tag_eq. cbn [snd] in *. lia. }
      rewrite HQ in HD. exists W', r, W''. split; [exact Hl|]. split; [exact Hd|]. split; [exact HD|].
      destruct Hr as [Hr|[Hr Hb]]; [now left|right]. split; [exact Hr|]. subst best.
      cbn [upd_best snd better]. replace (sm <? ss) with false by lia. replace (ss <? sm) with true by lia. reflexivity.
  Qed.

  Lemma Qs_inject_other p (queue T : list thread) : (forall t : thread, In t T -> snd t = p) -> p <> ss -> Qs (queue ++ T) = Qs queue.
  Proof.
    intros Ht Hne. unfold Qs. rewrite filter_app, (filter_nil (tag_eq ss) T); [apply app_nil_r|].
    intros t Hin. unfold tag_eq. rewrite (Ht t Hin). lia.
  Qed.

  Lemma J_start (queue T : list thread) vs' best :
    closure A h (cfuel A) ss st0 ss [] = Done (T, vs') ->
    (forall x s, In (x, s) queue -> s < ss) -> J ss (Qs (queue ++ T)) best.
  Proof.
    intros ET Hq.
    assert (HQ : Qs (queue ++ T) = T).
    { unfold Qs. rewrite filter_app, (filter_nil (tag_eq ss) queue), (filter_all (tag_eq ss) T); [reflexivity| |].
      - intros t Ht. unfold tag_eq. rewrite (closure_tags A h _ _ _ _ _ _ _ ET t Ht). apply Nat.eqb_refl.
      - intros [x s] Ht. unfold tag_eq. cbn [snd]. pose proof (Hq x s Ht). lia. }
    rewrite HQ. destruct Href as [Wr HLE].
    replace (S (length h) - ss) with (S (length h - ss)) in HLE by lia. cbn [repeat] in HLE.
    destruct (K_closure A h (cfuel A) ss st0 ss [] T vs' ET _ _ _ HLE) as [W3 [HD _]].
    exists (repeat [] (length h - ss)), (Some e'), W3. split; [apply repeat_length|]. split; [|split; [exact HD|now left]].
    intros i x Hx. destruct (inW_repeat _ _ _ Hx).
  Qed.

  Lemma su_end : forall k p queue best e,
    p + k = length h -> at_ <= p -> sinv A h at_ p p p queue best ->
    (ss < p -> J p (Qs queue) best) ->
    su_loop A h false at_ k p queue best = Done (Some (ss, e)) -> e = e'.
  Proof.
    induction k as [|k IH]; intros p queue best e Hk Hp I HJ H; cbn [su_loop] in H;
      destruct (closure_total A h p st0 p []) as [T [vs' ET]];
      rewrite (inject_eq A h at_ p queue best T vs' ET) in H;
      pose proof (su_inject A h Hwf at_ p queue best T vs' I Hp ET) as I1;
      destruct (cut A (if is_none best then queue ++ T else queue)) as [q0 m] eqn:EC;
      pose proof (su_cut A h Hwf at_ p _ best q0 m I1 EC) as I2;
      destruct (cut_spec A _ q0 m EC) as [Hnm _].
    all: assert (Hnm0 : forall t, In t (Qs q0) -> is_match_thread A t = false)
           by (intros t Ht; apply Hnm; apply filter_In in Ht; apply Ht).
    all: assert (HJ2 : ss <= p -> J p (Qs q0) (upd_best best m p)).
    1,3: intros Hle; apply (J_cut p _ best q0 m I1 EC);
         destruct (Nat.eq_dec p ss) as [Hpe|Hne];
         [ subst p; destruct best as [[bs be]|];
           [ exfalso; destruct (i_best _ _ _ _ _ _ _ _ I bs be eq_refl) as [B1 [B2 [B3 [B4 _]]]];
             apply (Hdead bs B1 ltac:(lia) be B4)
           | cbn [is_none]; apply (J_start queue T vs' None ET);
             intros x s Hin; destruct (i_sound _ _ _ _ _ _ _ _ I x s Hin) as [_ [Hlt _]]; exact Hlt ]
         | destruct (is_none best);
           [ rewrite (Qs_inject_other p queue T (closure_tags A h _ _ _ _ _ _ _ ET) Hne) | ];
           apply HJ; lia ].
    - inversion H as [Hb1]. clear H.
      destruct (i_best _ _ _ _ _ _ _ _ I2 ss e Hb1) as [_ [B2 [B3 _]]].
      destruct (HJ2 ltac:(lia)) as [W' [r [W'' [_ [_ [HD [Hr|[_ Hr]]]]]]]].
      + subst r. assert (Hnone : nth_error h p = None) by (apply nth_error_None; lia).
        pose proof (Dive_end A h p _ _ _ _ Hnone Hnm0 HD). discriminate.
      + rewrite Hb1 in Hr. inversion Hr. reflexivity.
    - destruct (nth_error h p) as [b|] eqn:Hb.
      2:{ apply nth_error_None in Hb. lia. }
      destruct (step_all A h (S p) b q0) as [|[nq vs2]] eqn:ES; [discriminate|].
      pose proof (su_step A h Hwf at_ p b q0 _ nq vs2 I2 ES Hb) as I3.
      destruct (no_candidate (upd_best best m p) nq) eqn:Enc.
      + inversion H as [Hb1]. clear H.
        destruct (i_best _ _ _ _ _ _ _ _ I3 ss e Hb1) as [_ [B2 [B3 _]]].
        destruct (J_step p b q0 _ nq vs2 I2 Hb ES Hnm (HJ2 ltac:(lia))) as [W' [r [W'' [_ [_ [HD [Hr|[_ Hr]]]]]]]].
        * subst r. exfalso. pose proof (Dive_some_nonempty A h _ _ _ _ _ HD) as Hne.
          destruct (Qs nq) as [|t Q] eqn:EQ; [congruence|].
          assert (Ht : In t (Qs nq)) by (rewrite EQ; now left).
          apply filter_In in Ht. destruct Ht as [Ht Hs]. unfold tag_eq in Hs.
          unfold no_candidate in Enc. rewrite Hb1 in Enc. apply negb_true_iff in Enc.
          apply Bool.not_true_iff_false in Enc. apply Enc. apply existsb_exists. exists t. split; [exact Ht|]. lia.
        * rewrite Hb1 in Hr. inversion Hr. reflexivity.
      + apply (IH (S p) nq (upd_best best m p) e); [lia|lia|exact I3| |exact H].
        intros Hlt. apply (J_step p b q0 _ nq vs2 I2 Hb ES Hnm). apply HJ2. lia.
  Qed.
End Main.

(* ------------------------------------------------------------------ the span theorem *)
Section Final.
  Variable A : nfa.
  Variable h : hay.
  Hypothesis Hwf : wf_nfa A = true.
  Notation st0 := (start_anch A).

  Lemma find_loop_hit f : forall k s s' e sl,
    find_loop f A h k s = Done (Some (s', e, sl)) -> search_with f A h s' = Done (Some (e, sl)).
  Proof.
    induction k as [|k IH]; intros s s' e sl H; cbn [find_loop] in H;
      destruct (search_with f A h s) as [|[[e0 sl0]|]] eqn:E; try discriminate.
    - inversion H; subst. exact E.
    - inversion H; subst. exact E.
    - apply (IH _ _ _ _ H).
  Qed.

  Lemma st0_lt : st0 < nstates A.
  Proof.
    unfold wf_nfa in Hwf. apply andb_prop in Hwf as [H1 _]. apply andb_prop in H1 as [_ H2]. now apply Nat.ltb_lt.
  Qed.

  Lemma Rl_fresh s : Rl A h s PositiveSet.empty (repeat [] (S (length h) - s)).
  Proof.
    split; [apply repeat_length|]. intros i x _ _. rewrite pmem_empty.
    symmetry. apply Bool.not_true_iff_false. intros E.
    apply vmem_In in E. exact (inW_repeat _ _ _ E).
  Qed.

  Lemma search_with_LE f s e sl : s <= length h ->
    search_with f A h s = Done (Some (e, sl)) ->
    exists Wr, LE A h st0 s (repeat [] (S (length h) - s)) (Some e) Wr.
  Proof.
    unfold search_with. intros Hs H.
    destruct (dfs A h PositiveSet.t (pmem (nstates A)) (padd (nstates A)) f st0 s (init_slots A) PositiveSet.empty)
      as [r V'] eqn:E. cbn [fst] in H. subst r.
    destruct (dfs_LE A h Hwf f st0 s (init_slots A) PositiveSet.empty (Some (e, sl)) V' _ st0_lt Hs (Rl_fresh s) E)
      as [Wr [HL _]].
    exists Wr. exact HL.
  Qed.

  (* nfa/pikevm.go SearchAt = the leftmost-first reference search (C02 for the PikeVM) *)
  Theorem pike_search_is_ref at_ : pike_search_at A h at_ = span_of (find_at A h at_).
  Proof.
    pose proof (pike_search_start_is_ref_partial A h Hwf at_) as HP.
    destruct (pike_search_at A h at_) as [|[[s e]|]] eqn:EP;
      destruct (find_at A h at_) as [|[[[s' e'] sl]|]] eqn:ER; cbn [span_of]; try contradiction; try reflexivity.
    destruct HP as [<- _].
    destruct (find_at_some A h Hwf at_ s e' sl ER) as [R1 [R2 [R3 [R4 R5]]]].
    enough (e = e') by (subst; reflexivity).
    unfold pike_search_at, pike_search_at_g in EP.
    destruct (Nat.ltb_spec (length h) at_) as [Hlt|Hle]; [discriminate|].
    destruct (Nat.eqb_spec at_ (length h)) as [He|Hne].
    - destruct (matches_empty_at A h at_) as [|[|]]; inversion EP; subst. lia.
    - assert (Href : exists Wr, LE A h st0 s (repeat [] (S (length h) - s)) (Some e') Wr).
      { unfold find_at in ER. destruct (length h <? at_); [discriminate|].
        apply (search_with_LE (fuel_for A h) s e' sl ltac:(lia)). eapply find_loop_hit; eauto. }
      apply (su_end A h Hwf at_ s e' (fun s0 H1 H2 e0 => R5 s0 (conj H1 H2) e0) ltac:(lia) Href
               (length h - at_) at_ [] None e ltac:(lia) (le_n _) (sinv_init A h Hwf at_)); [|exact EP].
      intros Hlt. lia.
  Qed.
End Final.

(* ------------------------------------------------------------------ the anchored loop (searchAt):
   one start only; the last match recorded is the first success of the reference search *)
Section AnchoredSpan.
  Variable A : nfa.
  Variable h : hay.
  Hypothesis Hwf : wf_nfa A = true.
  Notation st0 := (start_anch A).

  Definition orelse (r l : option nat) : option nat := match r with Some e => Some e | None => l end.

  Lemma map_fst_targets p b q0 : nth_error h p = Some b ->
    map fst (flat_map (targets A b) q0) = flat_map (lst A h p) q0.
  Proof.
    intros Hb. induction q0 as [|t q0 IH]; [reflexivity|]. cbn [flat_map]. rewrite map_app. f_equal; [|exact IH].
    apply (lst_targets A h p b t Hb).
  Qed.

  Definition JA (ro : option nat) (p : nat) (queue : list thread) (last : option nat) : Prop :=
    (forall l, last = Some l -> l < p) /\
    exists r W'', Dive A h p queue (repeat [] (length h - p)) r W'' /\ orelse r last = ro.

  Lemma sa_end ro : forall k p queue last res,
    p + k = length h -> JA ro p queue last -> sa_loop A h k p queue last = Done res -> res = ro.
  Proof.
    induction k as [|k IH]; intros p queue last res Hk [Hlast [r [W'' [HD Hr]]]] H; cbn [sa_loop] in H;
      destruct (cut A queue) as [q0 m] eqn:EC; destruct (cut_spec A queue q0 m EC) as [Hnm Hm];
      set (last1 := match m with
                    | Some _ => match last with None => Some p | Some l => if l <? p then Some p else last end
                    | None => last end) in *.
    all: assert (HJ : (forall l, last1 = Some l -> l < S p) /\
                      exists r0 W0, Dive A h p q0 (repeat [] (length h - p)) r0 W0 /\ orelse r0 last1 = ro).
    1,3: destruct m as [tm|];
         [ destruct Hm as [Htm [rest Hq]]; rewrite Hq in HD;
           assert (Hl1 : last1 = Some p)
             by (unfold last1; destruct last as [l|]; [pose proof (Hlast l eq_refl); replace (l <? p) with true by lia|]; reflexivity);
           split; [intros l E; rewrite Hl1 in E; inversion E; lia|];
           destruct (Dive_split A h p q0 tm rest _ r W'' Hnm Htm HD) as [[e [-> HD0]]|[-> [W1 HD0]]];
           [ exists (Some e), W''; split; [exact HD0|exact Hr]
           | exists None, W1; split; [exact HD0|]; rewrite Hl1; exact Hr ]
         | subst q0; unfold last1; split; [intros l E; pose proof (Hlast l E); lia|];
           exists r, W''; split; [exact HD|exact Hr] ].
    all: destruct HJ as [Hlast1 [r0 [W0 [HD0 Hr0]]]].
    - inversion H; subst res.
      assert (Hnone : nth_error h p = None) by (apply nth_error_None; lia).
      rewrite (Dive_end A h p _ _ _ _ Hnone Hnm HD0) in Hr0. exact Hr0.
    - destruct (nth_error h p) as [b|] eqn:Hb.
      2:{ inversion H; subst res. rewrite (Dive_end A h p _ _ _ _ Hb Hnm HD0) in Hr0. exact Hr0. }
      assert (Hp : p < length h) by (eapply nth_error_Some_lt'; eauto).
      destruct (step_all A h (S p) b q0) as [|[nq vs2]] eqn:ES; [discriminate|].
      assert (HJn : JA ro (S p) nq last1).
      { split; [exact Hlast1|].
        pose proof (Dive_nomatch A h p _ _ _ _ Hnm HD0) as HL.
        replace (length h - p) with (S (length h - S p)) in HL by lia. cbn [repeat] in HL.
        rewrite <- (map_fst_targets p b q0 Hb) in HL. unfold step_all in ES.
        destruct (K_list A h _ _ _ _ _ _ _ _ _ ES HL) as [W3 [HD3 _]].
        exists r0, W3. split; [exact HD3|exact Hr0]. }
      destruct nq as [|t nq'].
      + destruct last1 as [l|] eqn:El.
        * inversion H; subst res. destruct HJn as [_ [r1 [W1 [HD1 Hr1]]]]. inversion HD1; subst. exact Hr1.
        * apply (IH (S p) [] None res ltac:(lia) HJn H).
      + apply (IH (S p) (t :: nq') last1 res ltac:(lia) HJn H).
  Qed.
End AnchoredSpan.

Section AnchoredTop.
  Variable A : nfa.
  Variable h : hay.
  Hypothesis Hwf : wf_nfa A = true.
  Notation st0 := (start_anch A).

  Lemma search_with_LE_gen f s r : s <= length h ->
    search_with f A h s = Done r ->
    exists Wr, LE A h st0 s (repeat [] (S (length h) - s)) (erase r) Wr.
  Proof.
    unfold search_with. intros Hs H.
    destruct (dfs A h PositiveSet.t (pmem (nstates A)) (padd (nstates A)) f st0 s (init_slots A) PositiveSet.empty)
      as [r1 V'] eqn:E. cbn [fst] in H. subst r1.
    destruct (dfs_LE A h Hwf f st0 s (init_slots A) PositiveSet.empty r V' _ (st0_lt A Hwf) Hs (Rl_fresh A h s) E)
      as [Wr [HL _]].
    exists Wr. exact HL.
  Qed.

  Lemma search_with_total s : s <= length h -> search_with (fuel_for A h) A h s <> OutOfFuel.
  Proof.
    intros Hs Hf. apply (find_at_total A h Hwf s). unfold find_at.
    destruct (Nat.ltb_spec (length h) s); [lia|].
    destruct (length h - s); cbn [find_loop]; rewrite Hf; reflexivity.
  Qed.

  (* the reference for an NFA flagged anchored: the search from the start `at` only *)
  Definition ref_anchored (at_ : nat) : res (option (nat * nat)) :=
    if length h <? at_ then Done None else
    match search_with (fuel_for A h) A h at_ with
    | OutOfFuel => OutOfFuel
    | Done None => Done None
    | Done (Some (e, _)) => Done (Some (at_, e))
    end.

  Theorem pike_search_anchored_is_ref at_ : pike_search_at_g A h true at_ = ref_anchored at_.
  Proof.
    unfold pike_search_at_g, ref_anchored.
    destruct (Nat.ltb_spec (length h) at_) as [Hlt|Hle]; [reflexivity|].
    destruct (search_with (fuel_for A h) A h at_) as [|r] eqn:ES; [exfalso; now apply (search_with_total at_ Hle)|].
    destruct (Nat.eqb_spec at_ (length h)) as [He|Hne].
    - destruct (matches_empty_at A h at_) as [|b] eqn:EM; [exfalso; now apply (matches_empty_total A h Hwf at_)|].
      pose proof (matches_empty_path A h Hwf at_ b EM) as Hb.
      destruct r as [[e sl]|].
      + pose proof (search_with_sound A h _ _ _ _ ES) as Hp.
        pose proof (nfa_path_pos A h Hwf _ _ _ Hp Hle). assert (e = at_) by lia. subst e.
        destruct b; [reflexivity|]. assert (false = true) by (apply Hb; exact Hp). discriminate.
      + destruct b; [|reflexivity]. exfalso.
        apply (search_with_complete A h Hwf _ at_ Hle ES at_). now apply Hb.
    - unfold search_anchored.
      destruct (closure_total A h at_ st0 at_ []) as [T [vs' ET]]. rewrite ET.
      destruct (sa_loop A h (length h - at_) at_ T None) as [|r0] eqn:EL; [exfalso; now apply (sa_total A h _ _ _ _ EL)|].
      destruct (search_with_LE_gen _ at_ r Hle ES) as [Wr HLE].
      replace (S (length h) - at_) with (S (length h - at_)) in HLE by lia. cbn [repeat] in HLE.
      destruct (K_closure A h (cfuel A) at_ st0 at_ [] T vs' ET _ _ _ HLE) as [W3 [HD _]].
      assert (HJ : JA A h (erase r) at_ T None).
      { split; [intros l E; discriminate|]. exists (erase r), W3. split; [exact HD|]. destruct (erase r); reflexivity. }
      rewrite (sa_end A h Hwf (erase r) (length h - at_) at_ T None r0 ltac:(lia) HJ EL).
      destruct r as [[e sl]|]; reflexivity.
  Qed.
End AnchoredTop.
