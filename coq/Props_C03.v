(* C03 — statements only.  Captures reported by the reference search: 2*ncaps slots, group 0
   is the overall span, every other slot is unset (-1) or a position inside the overall
   match (this is also the well-formedness part of C07). *)
From Coq Require Import List NArith ZArith.
From CV Require Import Nfa NfaRef.

Theorem C03_caps_wf :
  forall A h at_ s e sl,
  find_at A h at_ = Done (Some (s, e, sl)) -> s <= length h ->
  length (caps_of s e sl) = 2 * ncaps A /\
  slots_in s e sl /\
  (1 <= ncaps A -> nth 0 (caps_of s e sl) 0%Z = Z.of_nat s /\ nth 1 (caps_of s e sl) 0%Z = Z.of_nat e).
Proof. exact caps_wf. Qed.
Print Assumptions C03_caps_wf.
