(* Backtrack.v — the reusable state of the bounded backtracker (nfa/backtrack.go):
   BacktrackerState {Visited, Generation, NumStates, InputLen, SpanStart, Longest}, reset,
   shouldVisit, CanHandle and the entry points IsMatchWithState, IsMatchAnchoredWithState,
   SearchAtWithState.  The recursion itself (backtrackWithState / backtrackFindWithState /
   backtrackFindLongestWithState) is Nfa.dfs / Nfa.dfsl instantiated with the
   generation-stamped table as the visited set.

   Main results (every NFA with wf_nfa, every haystack and offset, every prior state
   satisfying bt_inv, every counter modulus W >= 2; instantiated at W = 2^16 at the end):
     bt_inv_fresh / bt_inv_preserved     the invariant "no cell is stamped in the future"
     bt_vadd_same / bt_vadd_other / bt_reset_empty   the table is a set on dom span_start
     bt_search_at_is_ref / bt_is_match_is_ref / bt_is_match_anchored_is_ref
                                         results equal state-free reference searches
     bt_is_match_correct                 IsMatch = true iff some start has an accepting path
     bt_*_history_independent, bt_history_independent   (C13)
     bt_wrap_refuted_original            the original wrap code (clear Visited[:len]) is not
     bt_is_match_visits_bound, bt_search_visits_bound, bt_start_visits_bound   (C05)
     visited_cap_bound / visited_cap_exact   (C20)                                          *)
From Coq Require Import List NArith ZArith Lia Bool Arith PeanoNat.
From Coq Require Import FSets.FSetPositive.
From Coq Require Import ZifyBool ZifyNat ZifyN.
From CV Require Import Nfa.
Import ListNotations.

(* ------------------------------------------------------------------ list facts *)
Lemma set_nth_length {T} (l : list T) i v : length (set_nth l i v) = length l.
Proof. revert i. induction l as [|x t IH]; intros [|i]; cbn [set_nth length]; auto. Qed.

Lemma nth_set_nth_same {T} (l : list T) i v d : i < length l -> nth i (set_nth l i v) d = v.
Proof.
  revert i. induction l as [|x t IH]; intros [|i] Hi; cbn [set_nth nth length] in *; try lia; auto.
  apply IH. lia.
Qed.

Lemma nth_set_nth_other {T} (l : list T) i j v d : i <> j -> nth j (set_nth l i v) d = nth j l d.
Proof.
  revert i j. induction l as [|x t IH]; intros [|i] [|j] Hij; cbn [set_nth nth]; try reflexivity; try lia.
  apply IH. lia.
Qed.

Lemma Forall_set_nth {T} (P : T -> Prop) (l : list T) i v : Forall P l -> P v -> Forall P (set_nth l i v).
Proof.
  intros Hl Hv. revert i. induction Hl as [|x t Hx Ht IH]; intros [|i]; cbn [set_nth]; constructor; auto.
Qed.

Lemma firstn_set_nth {T} (l : list T) i k v : firstn k (set_nth l i v) = set_nth (firstn k l) i v.
Proof.
  revert i k. induction l as [|x t IH]; intros i k.
  - destruct k, i; reflexivity.
  - destruct k as [|k]; [destruct i; reflexivity|].
    destruct i as [|i]; cbn [set_nth firstn]; [reflexivity|]. now rewrite IH.
Qed.

Lemma nth_firstn' {T} (l : list T) i k d : i < k -> nth i (firstn k l) d = nth i l d.
Proof.
  revert i k. induction l as [|x t IH]; intros i k Hik.
  - destruct k, i; reflexivity.
  - destruct k as [|k]; [lia|]. destruct i as [|i]; cbn [firstn nth]; [reflexivity|]. apply IH. lia.
Qed.

(* number of cells carrying stamp g *)
Fixpoint marks (g : N) (l : list N) : nat :=
  match l with
  | [] => 0
  | c :: t => (if N.eqb c g then 1 else 0) + marks g t
  end.

Lemma marks_le g l : marks g l <= length l.
Proof. induction l as [|c t IH]; cbn [marks length]; [lia|]. destruct (N.eqb c g); lia. Qed.

Lemma marks_set_nth g l i :
  i < length l -> N.eqb (nth i l 0%N) g = false -> marks g (set_nth l i g) = S (marks g l).
Proof.
  revert i. induction l as [|c t IH]; intros [|i] Hi Hn; cbn [length set_nth marks nth] in *; try lia.
  - rewrite Hn, N.eqb_refl. lia.
  - rewrite IH by (auto; lia). lia.
Qed.

Lemma marks_fresh g l : Forall (fun c => (c < g)%N) l -> marks g l = 0.
Proof.
  induction 1 as [|c t Hc Ht IH]; cbn [marks]; [reflexivity|].
  destruct (N.eqb_spec c g); [lia|]. now rewrite IH.
Qed.

Lemma Forall_repeat {T} (P : T -> Prop) x n : P x -> Forall P (repeat x n).
Proof. intros Hx. induction n; cbn [repeat]; constructor; auto. Qed.

Lemma Forall_nth_default {T} (P : T -> Prop) l i d : Forall P l -> P d -> P (nth i l d).
Proof.
  intros Hl Hd. revert i. induction Hl as [|x t Hx Ht IH]; intros [|i]; cbn [nth]; auto.
Qed.

(* ------------------------------------------------------------------ dfsl, unfolded *)
Fixpoint dfsl_list (A : nfa) (h : hay) (VS : Type) (vmem : nat -> nat -> VS -> bool)
         (vadd : nat -> nat -> VS -> VS) (f : nat) (cs : list (nat * nat * slots))
         (best : option nat) (V : VS) : res (option nat) * VS :=
  match cs with
  | [] => (Done best, V)
  | (q', p', _) :: cs' =>
      match dfsl A h VS vmem vadd f q' p' V with
      | (Done r, V') => dfsl_list A h VS vmem vadd f cs' (omax best r) V'
      | (OutOfFuel, V') => (OutOfFuel, V')
      end
  end.

Lemma dfsl_unfold A h VS vmem vadd f q p V :
  dfsl A h VS vmem vadd (S f) q p V =
  match nth_error (states A) q with
  | None => (Done None, V)
  | Some st =>
      if vmem q p V then (Done None, V) else
      if is_match_state st then (Done (Some p), vadd q p V) else
      dfsl_list A h VS vmem vadd f (succs h st p []) None (vadd q p V)
  end.
Proof.
  cbn [dfsl]. destruct (nth_error (states A) q) as [st|]; [|reflexivity].
  destruct (vmem q p V); [reflexivity|]. destruct (is_match_state st); [reflexivity|].
  generalize (vadd q p V). generalize (@None nat).
  induction (succs h st p []) as [|[[q' p'] sl'] cs IH]; intros best V0.
  - reflexivity.
  - cbn [dfsl_list]. destruct (dfsl A h VS vmem vadd f q' p' V0) as [[|r] V']; [reflexivity|]. apply IH.
Qed.

(* ------------------------------------------------------------------ simulation
   Two runs of the search over two visited-set representations related by R return the
   same result and end in related sets; a measure on the first representation that
   decreases with every insertion bounds the fuel.  No set laws are needed here: they
   are used to establish R_add for the concrete representations. *)
Section Sim.
  Variables (A : nfa) (h : hay).
  Variables (VS1 VS2 : Type).
  Variables (vmem1 : nat -> nat -> VS1 -> bool) (vadd1 : nat -> nat -> VS1 -> VS1).
  Variables (vmem2 : nat -> nat -> VS2 -> bool) (vadd2 : nat -> nat -> VS2 -> VS2).
  Variable lo : nat.
  Variable R : VS1 -> VS2 -> Prop.
  Variable free : VS1 -> nat.
  Hypothesis R_mem : forall q p V1 V2, dom A h lo (q, p) -> R V1 V2 -> vmem1 q p V1 = vmem2 q p V2.
  Hypothesis R_add : forall q p V1 V2, dom A h lo (q, p) -> R V1 V2 -> vmem1 q p V1 = false ->
      R (vadd1 q p V1) (vadd2 q p V2) /\ free (vadd1 q p V1) < free V1.
  Hypothesis Hwf : wf_nfa A = true.

  Definition sim_post {T} (f : nat) (V1 : VS1) (r1 : res T * VS1) (r2 : res T * VS2) : Prop :=
    fst r1 = fst r2 /\ R (snd r1) (snd r2) /\
    (free V1 < f -> fst r1 <> OutOfFuel /\ free (snd r1) <= free V1).

  Lemma dfs_sim f : forall q p sl V1 V2, dom A h lo (q, p) -> R V1 V2 ->
    sim_post f V1 (dfs A h VS1 vmem1 vadd1 f q p sl V1) (dfs A h VS2 vmem2 vadd2 f q p sl V2).
  Proof.
    induction f as [|f IH]; intros q p sl V1 V2 Hd HR.
    { cbn [dfs]. split; [reflexivity|]. split; [exact HR|]. intros Hlt. lia. }
    rewrite !dfs_unfold.
    destruct (nth_error (states A) q) as [st|] eqn:Hst.
    2:{ split; [reflexivity|]. split; [exact HR|]. intros _. cbn [fst snd]. split; [discriminate|lia]. }
    rewrite <- (R_mem q p V1 V2 Hd HR).
    destruct (vmem1 q p V1) eqn:Hv.
    { split; [reflexivity|]. split; [exact HR|]. intros _. cbn [fst snd]. split; [discriminate|lia]. }
    destruct (R_add q p V1 V2 Hd HR Hv) as [HR1 Hfr].
    destruct (is_match_state st).
    { split; [reflexivity|]. split; [exact HR1|]. intros _. cbn [fst snd]. split; [discriminate|lia]. }
    assert (Hlist : forall cs V1a V2a,
               (forall q' p' s', In (q', p', s') cs -> dom A h lo (q', p')) -> R V1a V2a ->
               sim_post f V1a (dfs_list A h VS1 vmem1 vadd1 f cs V1a) (dfs_list A h VS2 vmem2 vadd2 f cs V2a)).
    { induction cs as [|[[q1 p1] s1] cs IHcs]; intros V1a V2a Hin HRa.
      - cbn [dfs_list]. split; [reflexivity|]. split; [exact HRa|]. intros _. cbn [fst snd]. split; [discriminate|lia].
      - cbn [dfs_list].
        assert (Hd1 : dom A h lo (q1, p1)) by (eapply Hin; left; reflexivity).
        destruct (IH q1 p1 s1 V1a V2a Hd1 HRa) as [He [HRn Hf]].
        destruct (dfs A h VS1 vmem1 vadd1 f q1 p1 s1 V1a) as [r1 V1b].
        destruct (dfs A h VS2 vmem2 vadd2 f q1 p1 s1 V2a) as [r2 V2b].
        cbn [fst snd] in He, HRn, Hf. subst r2.
        destruct r1 as [|[x|]].
        + split; [reflexivity|]. split; [exact HRn|]. exact Hf.
        + split; [reflexivity|]. split; [exact HRn|]. exact Hf.
        + destruct (IHcs V1b V2b (fun q' p' s' Hy => Hin q' p' s' (or_intror Hy)) HRn) as [He2 [HR2 Hf2]].
          split; [exact He2|]. split; [exact HR2|]. intros Hlt.
          destruct (Hf Hlt) as [_ Hle]. destruct (Hf2 ltac:(lia)) as [Hne Hle2]. split; [exact Hne|lia]. }
    destruct (Hlist (succs h st p sl) (vadd1 q p V1) (vadd2 q p V2)
                (fun q' p' s' Hy => dom_succ A h lo Hwf q p st sl q' p' s' Hd Hst Hy) HR1) as [He [HRn Hf]].
    split; [exact He|]. split; [exact HRn|]. intros Hlt. destruct (Hf ltac:(lia)) as [Hne Hle]. split; [exact Hne|lia].
  Qed.

  Lemma dfsl_sim f : forall q p V1 V2, dom A h lo (q, p) -> R V1 V2 ->
    sim_post f V1 (dfsl A h VS1 vmem1 vadd1 f q p V1) (dfsl A h VS2 vmem2 vadd2 f q p V2).
  Proof.
    induction f as [|f IH]; intros q p V1 V2 Hd HR.
    { cbn [dfsl]. split; [reflexivity|]. split; [exact HR|]. intros Hlt. lia. }
    rewrite !dfsl_unfold.
    destruct (nth_error (states A) q) as [st|] eqn:Hst.
    2:{ split; [reflexivity|]. split; [exact HR|]. intros _. cbn [fst snd]. split; [discriminate|lia]. }
    rewrite <- (R_mem q p V1 V2 Hd HR).
    destruct (vmem1 q p V1) eqn:Hv.
    { split; [reflexivity|]. split; [exact HR|]. intros _. cbn [fst snd]. split; [discriminate|lia]. }
    destruct (R_add q p V1 V2 Hd HR Hv) as [HR1 Hfr].
    destruct (is_match_state st).
    { split; [reflexivity|]. split; [exact HR1|]. intros _. cbn [fst snd]. split; [discriminate|lia]. }
    assert (Hlist : forall cs best V1a V2a,
               (forall q' p' s', In (q', p', s') cs -> dom A h lo (q', p')) -> R V1a V2a ->
               sim_post f V1a (dfsl_list A h VS1 vmem1 vadd1 f cs best V1a)
                              (dfsl_list A h VS2 vmem2 vadd2 f cs best V2a)).
    { induction cs as [|[[q1 p1] s1] cs IHcs]; intros best V1a V2a Hin HRa.
      - cbn [dfsl_list]. split; [reflexivity|]. split; [exact HRa|]. intros _. cbn [fst snd]. split; [discriminate|lia].
      - cbn [dfsl_list].
        assert (Hd1 : dom A h lo (q1, p1)) by (eapply Hin; left; reflexivity).
        destruct (IH q1 p1 V1a V2a Hd1 HRa) as [He [HRn Hf]].
        destruct (dfsl A h VS1 vmem1 vadd1 f q1 p1 V1a) as [r1 V1b].
        destruct (dfsl A h VS2 vmem2 vadd2 f q1 p1 V2a) as [r2 V2b].
        cbn [fst snd] in He, HRn, Hf. subst r2.
        destruct r1 as [|x].
        + split; [reflexivity|]. split; [exact HRn|]. exact Hf.
        + destruct (IHcs (omax best x) V1b V2b (fun q' p' s' Hy => Hin q' p' s' (or_intror Hy)) HRn) as [He2 [HR2 Hf2]].
          split; [exact He2|]. split; [exact HR2|]. intros Hlt.
          destruct (Hf Hlt) as [_ Hle]. destruct (Hf2 ltac:(lia)) as [Hne Hle2]. split; [exact Hne|lia]. }
    destruct (Hlist (succs h st p []) None (vadd1 q p V1) (vadd2 q p V2)
                (fun q' p' s' Hy => dom_succ A h lo Hwf q p st [] q' p' s' Hd Hst Hy) HR1) as [He [HRn Hf]].
    split; [exact He|]. split; [exact HRn|]. intros Hlt. destruct (Hf ltac:(lia)) as [Hne Hle]. split; [exact Hne|lia].
  Qed.
End Sim.

(* ------------------------------------------------------------------ the reference set *)
Lemma pmem_padd_same n q p V : pmem n q p (padd n q p V) = true.
Proof. unfold pmem, padd. apply PositiveSet.add_1. reflexivity. Qed.

Lemma pmem_padd_other n q p q' p' V : q < n -> q' < n -> (q, p) <> (q', p') ->
  pmem n q' p' (padd n q p V) = pmem n q' p' V.
Proof.
  unfold pmem, padd. intros Hq Hq' Hne.
  assert (Hk : key n q p <> key n q' p') by (intros Hk; apply Hne; now apply (key_inj n)).
  destruct (PositiveSet.mem (key n q' p') V) eqn:E.
  - apply PositiveSet.add_2. exact E.
  - destruct (PositiveSet.mem (key n q' p') (PositiveSet.add (key n q p) V)) eqn:E2; [|reflexivity].
    apply PositiveSet.add_3 in E2; [|exact Hk]. unfold PositiveSet.In in E2. congruence.
Qed.

Lemma pmem_empty n q p : pmem n q p PositiveSet.empty = false.
Proof. unfold pmem. apply PositiveSet.mem_Leaf. Qed.

(* ------------------------------------------------------------------ the state *)
(* nfa/backtrack.go: type BacktrackerState.  `cells` is the whole backing array of
   Visited (length = cap(Visited)), `vlen` = len(Visited); `writes` is a ghost counter of
   the cells written by shouldVisit (for the work bound C05), not present in Go. *)
Record bstate := mkB {
  cells : list N; vlen : nat; gen : N;
  num_states : nat; input_len : nat; span_start : nat; longest : bool;
  writes : nat }.

(* nfa/backtrack.go: NewBacktrackerState — &BacktrackerState{} *)
Definition bt_fresh : bstate := mkB [] 0 0%N 0 0 0 false 0.

Definition set_longest (st : bstate) (b : bool) : bstate :=
  mkB (cells st) (vlen st) (gen st) (num_states st) (input_len st) (span_start st) b (writes st).
Definition set_span (st : bstate) (s : nat) : bstate :=
  mkB (cells st) (vlen st) (gen st) (num_states st) (input_len st) s (longest st) (writes st).
Definition set_gen (st : bstate) (g : N) : bstate :=
  mkB (cells st) (vlen st) g (num_states st) (input_len st) (span_start st) (longest st) (writes st).
Definition set_cells_gen (st : bstate) (cs : list N) (g : N) : bstate :=
  mkB cs (vlen st) g (num_states st) (input_len st) (span_start st) (longest st) (writes st).

(* nfa/backtrack.go: shouldVisit — idx := (pos - s.SpanStart)*s.NumStates + int(state) *)
Definition idx (st : bstate) (q p : nat) : nat := (p - span_start st) * num_states st + q.
(* s.Visited[idx] == s.Generation.  (Go panics if idx >= len(Visited); bt_idx_in_bounds
   shows idx < vlen wherever the search goes.) *)
Definition vmem (q p : nat) (st : bstate) : bool := (nth (idx st q p) (cells st) 0 =? gen st)%N.
(* s.Visited[idx] = s.Generation *)
Definition vadd (q p : nat) (st : bstate) : bstate :=
  mkB (set_nth (cells st) (idx st q p) (gen st)) (vlen st) (gen st)
      (num_states st) (input_len st) (span_start st) (longest st) (S (writes st)).
Definition should_visit (st : bstate) (q p : nat) : bool * bstate :=
  if vmem q p st then (false, st) else (true, vadd q p st).

Section Model.
  Variable W : N.                      (* counter modulus: 2^16 in Go *)
  Hypothesis HW : (2 <= W)%N.
  Variable A : nfa.
  Variable max_visited : nat.          (* b.maxVisitedSize *)

  (* nfa/backtrack.go: CanHandle *)
  Definition can_handle (hlen : nat) : bool := nstates A * (hlen + 1) <=? max_visited.

  (* the overflow branch shared by reset and SearchAtWithState.  orig = true is the code
     before the repair (git show 264a4da: `for i := range state.Visited`, i.e. only the
     current length is cleared); orig = false is the current code (Visited[:cap]). *)
  Definition wrap_clear (orig : bool) (st : bstate) : list N :=
    if orig then repeat 0%N (vlen st) ++ skipn (vlen st) (cells st)
    else repeat 0%N (length (cells st)).

  (* state.Generation++; if state.Generation == 0 { clear; state.Generation = 1 } *)
  Definition bump (orig : bool) (st : bstate) : bstate :=
    let g := ((gen st + 1) mod W)%N in
    if (g =? 0)%N then set_cells_gen st (wrap_clear orig st) 1%N else set_gen st g.

  (* nfa/backtrack.go: reset *)
  Definition reset (orig : bool) (st : bstate) (hlen : nat) : bstate :=
    let needed := nstates A * (hlen + 1) in
    let st1 :=
      if needed <=? length (cells st)
      then mkB (cells st) needed (gen st) (nstates A) hlen 0 (longest st) (writes st)
      else mkB (repeat 0%N needed) needed 0%N (nstates A) hlen 0 (longest st) (writes st) in
    bump orig st1.

  (* nfa/backtrack.go: backtrackWithState (bool) / backtrackFindWithState (end) are the
     same traversal; the bool is "end >= 0".  backtrackFindLongestWithState is Nfa.dfsl. *)
  Definition bt_dfs (h : hay) (fuel s : nat) (st : bstate) : res (option (nat * slots)) * bstate :=
    dfs A h bstate vmem vadd fuel (start_anch A) s (init_slots A) st.
  Definition bt_dfsl (h : hay) (fuel s : nat) (st : bstate) : res (option nat) * bstate :=
    dfsl A h bstate vmem vadd fuel (start_anch A) s st.

  (* nfa/backtrack.go: IsMatchWithState, the loop over start positions (one table) *)
  Fixpoint im_loop (h : hay) (fuel k s : nat) (st : bstate) : res bool * bstate :=
    match bt_dfs h fuel s st with
    | (OutOfFuel, st') => (OutOfFuel, st')
    | (Done (Some _), st') => (Done true, st')
    | (Done None, st') =>
        match k with 0 => (Done false, st') | S k' => im_loop h fuel k' (S s) st' end
    end.

  Definition bt_is_match_g (orig : bool) (st : bstate) (h : hay) : res bool * bstate :=
    if can_handle (length h) then
      im_loop h (fuel_for A h) (length h) 0 (reset orig st (length h))
    else (Done false, st).

  (* nfa/backtrack.go: IsMatchAnchoredWithState *)
  Definition bt_is_match_anchored_g (orig : bool) (st : bstate) (h : hay) : res bool * bstate :=
    if can_handle (length h) then
      match bt_dfs h (fuel_for A h) 0 (reset orig st (length h)) with
      | (OutOfFuel, st') => (OutOfFuel, st')
      | (Done (Some _), st') => (Done true, st')
      | (Done None, st') => (Done false, st')
      end
    else (Done false, st).

  (* one start position of SearchAtWithState, in either mode *)
  Definition one_search (h : hay) (fuel s : nat) (st : bstate) : res (option nat) * bstate :=
    if longest st then bt_dfsl h fuel s st
    else match bt_dfs h fuel s st with
         | (OutOfFuel, st') => (OutOfFuel, st')
         | (Done None, st') => (Done None, st')
         | (Done (Some (e, _)), st') => (Done (Some e), st')
         end.

  (* nfa/backtrack.go: SearchAtWithState, the loop with the per-start generation bump *)
  Fixpoint sa_loop (orig : bool) (h : hay) (fuel k s : nat) (st : bstate) : res (option (nat * nat)) * bstate :=
    match one_search h fuel s st with
    | (OutOfFuel, st') => (OutOfFuel, st')
    | (Done (Some e), st') => (Done (Some (s, e)), st')
    | (Done None, st') =>
        let st'' := bump orig st' in
        match k with 0 => (Done None, st'') | S k' => sa_loop orig h fuel k' (S s) st'' end
    end.

  (* at > len(haystack): spanLen is negative; for at = len+1 Go performs a degenerate reset
     and returns -1, for at > len+1 `Visited[:entriesNeeded]` panics (negative bound).  No
     caller does that; the model answers "no match" and leaves the state alone. *)
  Definition bt_search_at_g (orig : bool) (st : bstate) (h : hay) (at_ : nat) : res (option (nat * nat)) * bstate :=
    if length h <? at_ then (Done None, st) else
    if can_handle (length h - at_) then
      sa_loop orig h (fuel_for A h) (length h - at_) at_ (set_span (reset orig st (length h - at_)) at_)
    else (Done None, st).

  Definition bt_is_match := bt_is_match_g false.
  Definition bt_is_match_anchored := bt_is_match_anchored_g false.
  Definition bt_search_at := bt_search_at_g false.

  (* ---------------------------------------------------------------- invariant *)
  (* no cell of the backing array (the whole capacity) is stamped in the future *)
  Definition bt_inv (st : bstate) : Prop :=
    Forall (fun c => (c <= gen st)%N) (cells st) /\ (gen st < W)%N /\ vlen st <= length (cells st).

  (* every cell is strictly older than the current generation: the table is empty *)
  Definition bt_empty (st : bstate) : Prop := Forall (fun c => (c < gen st)%N) (cells st).

  Lemma bt_inv_fresh : bt_inv bt_fresh.
  Proof. unfold bt_inv, bt_fresh. cbn. split; [constructor|]. split; lia. Qed.

  Lemma bump_spec st :
    bt_inv st ->
    let st' := bump false st in
    bt_inv st' /\ bt_empty st' /\ length (cells st') = length (cells st) /\ vlen st' = vlen st /\
    num_states st' = num_states st /\ input_len st' = input_len st /\ span_start st' = span_start st /\
    longest st' = longest st /\ writes st' = writes st.
  Proof.
    intros [Hc [Hg Hl]]. unfold bump. cbn zeta.
    destruct (N.eq_dec (gen st + 1) W) as [E|E].
    - rewrite E, N.mod_same by lia. cbn [N.eqb]. unfold bt_inv, bt_empty, set_cells_gen, wrap_clear. cbn.
      rewrite repeat_length. repeat split; try lia; apply Forall_repeat; lia.
    - rewrite N.mod_small by lia. destruct (N.eqb_spec (gen st + 1) 0); [lia|].
      unfold bt_inv, bt_empty, set_gen. cbn. repeat split; try lia.
      + eapply Forall_impl; [|exact Hc]. cbn. intros; lia.
      + eapply Forall_impl; [|exact Hc]. cbn. intros; lia.
  Qed.

  Lemma reset_spec st hlen :
    bt_inv st ->
    let st' := reset false st hlen in
    bt_inv st' /\ bt_empty st' /\
    length (cells st') = Nat.max (length (cells st)) (nstates A * (hlen + 1)) /\
    vlen st' = nstates A * (hlen + 1) /\ num_states st' = nstates A /\ input_len st' = hlen /\
    span_start st' = 0 /\ longest st' = longest st /\ writes st' = writes st.
  Proof.
    intros [Hc [Hg Hl]]. unfold reset. cbn zeta.
    destruct (Nat.leb_spec (nstates A * (hlen + 1)) (length (cells st))) as [Hle|Hgt].
    - match goal with |- context [bump false ?s] => pose proof (bump_spec s) as Hb end.
      cbn zeta in Hb. destruct Hb as [H1 [H2 [H3 [H4 [H5 [H6 [H7 [H8 H9]]]]]]]].
      { unfold bt_inv. cbn. auto. }
      cbn in H3, H4, H5, H6, H7, H8, H9. repeat split; try assumption; try apply H1; lia.
    - match goal with |- context [bump false ?s] => pose proof (bump_spec s) as Hb end.
      cbn zeta in Hb. destruct Hb as [H1 [H2 [H3 [H4 [H5 [H6 [H7 [H8 H9]]]]]]]].
      { unfold bt_inv. cbn. rewrite repeat_length. split; [apply Forall_repeat; lia|]. split; lia. }
      cbn in H3, H4, H5, H6, H7, H8, H9. rewrite repeat_length in H3.
      repeat split; try assumption; try apply H1; lia.
  Qed.

  (* ---------------------------------------------------------------- the table is a set *)
  (* what reset (+ SpanStart = lo) establishes for a search of h from lo *)
  Definition bt_ok (h : hay) (lo : nat) (st : bstate) : Prop :=
    num_states st = nstates A /\ span_start st = lo /\
    vlen st = nstates A * (length h - lo + 1) /\ vlen st <= length (cells st).

  Lemma bt_idx_in_bounds h lo st q p : bt_ok h lo st -> dom A h lo (q, p) -> idx st q p < vlen st.
  Proof.
    intros [Hn [Hs [Hv _]]] [Hq [Hl Hu]]. cbn [fst snd] in *. unfold idx. rewrite Hn, Hs, Hv.
    assert (p - lo <= length h - lo) by lia. nia.
  Qed.

  Lemma bt_idx_inj h lo st q p q' p' :
    bt_ok h lo st -> dom A h lo (q, p) -> dom A h lo (q', p') ->
    idx st q p = idx st q' p' -> (q, p) = (q', p').
  Proof.
    intros [Hn [Hs _]] [Hq [Hl Hu]] [Hq' [Hl' Hu']]. cbn [fst snd] in *. unfold idx. rewrite Hn, Hs.
    intros E. assert (p - lo = p' - lo) by nia. assert (q = q') by nia. f_equal; lia.
  Qed.

  Lemma bt_vadd_same h lo st q p :
    bt_ok h lo st -> dom A h lo (q, p) -> vmem q p (vadd q p st) = true.
  Proof.
    intros Hok Hd. pose proof (bt_idx_in_bounds h lo st q p Hok Hd) as Hi.
    destruct Hok as [_ [_ [_ Hl]]]. unfold vmem, vadd, idx in *. cbn.
    rewrite nth_set_nth_same by lia. apply N.eqb_refl.
  Qed.

  Lemma bt_vadd_other h lo st q p q' p' :
    bt_ok h lo st -> dom A h lo (q, p) -> dom A h lo (q', p') -> (q, p) <> (q', p') ->
    vmem q' p' (vadd q p st) = vmem q' p' st.
  Proof.
    intros Hok Hd Hd' Hne.
    assert (Hi : idx st q p <> idx st q' p') by (intros E; apply Hne; eapply bt_idx_inj; eauto).
    unfold vmem, vadd, idx in *. cbn. now rewrite nth_set_nth_other.
  Qed.

  Lemma bt_empty_vmem h lo st q p :
    bt_ok h lo st -> bt_empty st -> dom A h lo (q, p) -> vmem q p st = false.
  Proof.
    intros Hok He Hd. pose proof (bt_idx_in_bounds h lo st q p Hok Hd) as Hi.
    destruct Hok as [_ [_ [_ Hl]]]. unfold vmem.
    assert (Hc : (nth (idx st q p) (cells st) 0 < gen st)%N).
    { apply (proj1 (Forall_nth _ _) He). lia. }
    destruct (N.eqb_spec (nth (idx st q p) (cells st) 0%N) (gen st)); [lia|reflexivity].
  Qed.

  (* the freshly reset table is empty on the domain *)
  Lemma bt_reset_empty st h at_ q p :
    bt_inv st -> at_ <= length h ->
    let st' := set_span (reset false st (length h - at_)) at_ in
    bt_ok h at_ st' /\ (dom A h at_ (q, p) -> vmem q p st' = false).
  Proof.
    intros Hinv Hat. pose proof (reset_spec st (length h - at_) Hinv) as Hr. cbn zeta in *.
    destruct Hr as [H1 [H2 [H3 [H4 [H5 [H6 [H7 [H8 H9]]]]]]]].
    assert (Hok : bt_ok h at_ (set_span (reset false st (length h - at_)) at_)).
    { unfold bt_ok, set_span. cbn. repeat split; try assumption. destruct H1 as [_ [_ H1]]. exact H1. }
    split; [exact Hok|]. intros Hd. eapply bt_empty_vmem; eauto.
  Qed.

  (* ---------------------------------------------------------------- relation to the reference set *)
  Definition frame_eq (st0 st : bstate) : Prop :=
    vlen st = vlen st0 /\ gen st = gen st0 /\ num_states st = num_states st0 /\
    input_len st = input_len st0 /\ span_start st = span_start st0 /\ longest st = longest st0 /\
    length (cells st) = length (cells st0).

  (* cells of the table window stamped with the current generation *)
  Definition wmarks (st : bstate) : nat := marks (gen st) (firstn (vlen st) (cells st)).
  Definition bfree (st : bstate) : nat := vlen st - wmarks st.

  Definition Rel (h : hay) (lo : nat) (st0 st : bstate) (V : PositiveSet.t) : Prop :=
    frame_eq st0 st /\ Forall (fun c => (c <= gen st)%N) (cells st) /\
    writes st + wmarks st0 = writes st0 + wmarks st /\
    forall q p, dom A h lo (q, p) -> vmem q p st = pmem (nstates A) q p V.

  Lemma ok_frame h lo st0 st : bt_ok h lo st0 -> frame_eq st0 st -> bt_ok h lo st.
  Proof. intros [H1 [H2 [H3 H4]]] [F1 [F2 [F3 [F4 [F5 [F6 F7]]]]]]. unfold bt_ok. repeat split; lia. Qed.

  Lemma wmarks_le st : wmarks st <= vlen st.
  Proof. unfold wmarks. etransitivity; [apply marks_le|]. rewrite firstn_length. lia. Qed.

  Lemma Rel_add h lo st0 q p st V :
    bt_ok h lo st0 -> dom A h lo (q, p) -> Rel h lo st0 st V -> vmem q p st = false ->
    Rel h lo st0 (vadd q p st) (padd (nstates A) q p V) /\ bfree (vadd q p st) < bfree st.
  Proof.
    intros Hok0 Hd [Hf [Hc [Hw Hag]]] Hv.
    pose proof (ok_frame h lo st0 st Hok0 Hf) as Hok.
    pose proof (bt_idx_in_bounds h lo st q p Hok Hd) as Hi.
    assert (Hwm : wmarks (vadd q p st) = S (wmarks st)).
    { unfold wmarks, vadd. cbn. rewrite firstn_set_nth. apply marks_set_nth.
      - rewrite firstn_length. destruct Hok as [_ [_ [_ Hl]]]. lia.
      - rewrite nth_firstn' by exact Hi. exact Hv. }
    split.
    - split; [|split; [|split]].
      + destruct Hf as [F1 [F2 [F3 [F4 [F5 [F6 F7]]]]]]. unfold frame_eq, vadd. cbn.
        rewrite set_nth_length. repeat split; assumption.
      + unfold vadd. cbn. apply Forall_set_nth; [exact Hc|lia].
      + rewrite Hwm. unfold vadd at 1. cbn. lia.
      + intros q' p' Hd'.
        destruct (Nat.eq_dec (idx st q p) (idx st q' p')) as [E|E].
        * apply (bt_idx_inj h lo st q p q' p' Hok Hd Hd') in E. inversion E; subst q' p'.
          rewrite (bt_vadd_same h lo st q p Hok Hd). now rewrite pmem_padd_same.
        * assert (Hne : (q, p) <> (q', p')) by (intros E2; inversion E2; subst; now apply E).
          rewrite (bt_vadd_other h lo st q p q' p' Hok Hd Hd' Hne).
          rewrite pmem_padd_other; [now apply Hag|apply Hd|apply Hd'|exact Hne].
    - unfold bfree. rewrite Hwm. pose proof (wmarks_le (vadd q p st)) as Hle. rewrite Hwm in Hle.
      unfold vadd in Hle at 1. cbn in Hle. unfold vadd at 1. cbn. lia.
  Qed.

  Lemma Rel_mem h lo st0 q p st V :
    dom A h lo (q, p) -> Rel h lo st0 st V -> vmem q p st = pmem (nstates A) q p V.
  Proof. intros Hd [_ [_ [_ Hag]]]. now apply Hag. Qed.

  Lemma Forall_firstn' {T} (P : T -> Prop) k l : Forall P l -> Forall P (firstn k l).
  Proof. intros Hl. revert k. induction Hl; intros [|k]; cbn [firstn]; constructor; auto. Qed.

  Lemma wmarks_empty st : bt_empty st -> wmarks st = 0.
  Proof. intros He. unfold wmarks. apply marks_fresh. now apply Forall_firstn'. Qed.

  Lemma Rel_init h lo st :
    bt_ok h lo st -> bt_inv st -> bt_empty st -> Rel h lo st st PositiveSet.empty.
  Proof.
    intros Hok [Hc _] He. split; [|split; [|split]].
    - unfold frame_eq. repeat split; reflexivity.
    - exact Hc.
    - lia.
    - intros q p Hd. rewrite pmem_empty. eapply bt_empty_vmem; eauto.
  Qed.

  Lemma Rel_inv h lo st0 st V : bt_inv st0 -> Rel h lo st0 st V -> bt_inv st.
  Proof.
    intros [_ [Hg Hl]] [[F1 [F2 [F3 [F4 [F5 [F6 F7]]]]]] [Hc _]]. unfold bt_inv.
    split; [exact Hc|]. split; lia.
  Qed.

  (* ---------------------------------------------------------------- state-free references *)
  Definition ref_dfs (h : hay) (fuel s : nat) (V : PositiveSet.t) :=
    dfs A h PositiveSet.t (pmem (nstates A)) (padd (nstates A)) fuel (start_anch A) s (init_slots A) V.
  Definition ref_dfsl (h : hay) (fuel s : nat) (V : PositiveSet.t) :=
    dfsl A h PositiveSet.t (pmem (nstates A)) (padd (nstates A)) fuel (start_anch A) s V.

  (* one start position with a fresh set; lg = leftmost-longest *)
  Definition ref_one (lg : bool) (h : hay) (fuel s : nat) : res (option nat) :=
    if lg then fst (ref_dfsl h fuel s PositiveSet.empty)
    else match search_with fuel A h s with
         | OutOfFuel => OutOfFuel
         | Done None => Done None
         | Done (Some (e, _)) => Done (Some e)
         end.

  Fixpoint ref_sa_loop (lg : bool) (h : hay) (fuel k s : nat) : res (option (nat * nat)) :=
    match ref_one lg h fuel s with
    | OutOfFuel => OutOfFuel
    | Done (Some e) => Done (Some (s, e))
    | Done None => match k with 0 => Done None | S k' => ref_sa_loop lg h fuel k' (S s) end
    end.

  Definition ref_search_at (lg : bool) (h : hay) (at_ : nat) : res (option (nat * nat)) :=
    if length h <? at_ then Done None else ref_sa_loop lg h (fuel_for A h) (length h - at_) at_.

  Definition span_of (r : res (option (nat * nat * slots))) : res (option (nat * nat)) :=
    match r with
    | OutOfFuel => OutOfFuel
    | Done None => Done None
    | Done (Some (s, e, _)) => Done (Some (s, e))
    end.

  (* in leftmost-first mode the reference is Nfa.find_at *)
  Lemma ref_sa_loop_find h fuel k s : ref_sa_loop false h fuel k s = span_of (find_loop fuel A h k s).
  Proof.
    revert s. induction k as [|k IH]; intros s; cbn [ref_sa_loop find_loop ref_one];
      destruct (search_with fuel A h s) as [|[[e sl]|]]; cbn [span_of]; try reflexivity. apply IH.
  Qed.

  Lemma ref_search_at_find h at_ : ref_search_at false h at_ = span_of (find_at A h at_).
  Proof.
    unfold ref_search_at, find_at. destruct (length h <? at_); [reflexivity|]. apply ref_sa_loop_find.
  Qed.

  (* IsMatch: one set shared by all start positions *)
  Fixpoint ref_im_loop (h : hay) (fuel k s : nat) (V : PositiveSet.t) : res bool :=
    match ref_dfs h fuel s V with
    | (OutOfFuel, _) => OutOfFuel
    | (Done (Some _), _) => Done true
    | (Done None, V') => match k with 0 => Done false | S k' => ref_im_loop h fuel k' (S s) V' end
    end.

  Definition ref_is_match (h : hay) : res bool :=
    ref_im_loop h (fuel_for A h) (length h) 0 PositiveSet.empty.

  Definition ref_is_match_anchored (h : hay) : res bool :=
    match search_with (fuel_for A h) A h 0 with
    | OutOfFuel => OutOfFuel
    | Done (Some _) => Done true
    | Done None => Done false
    end.

  (* ---------------------------------------------------------------- the searches *)
  Hypothesis Hwf : wf_nfa A = true.

  Lemma start_dom h lo s : lo <= s <= length h -> dom A h lo (start_anch A, s).
  Proof.
    intros Hs. unfold wf_nfa in Hwf. apply andb_prop in Hwf as [H1 _]. apply andb_prop in H1 as [_ H1].
    apply Nat.ltb_lt in H1. split; cbn [fst snd]; [exact H1|exact Hs].
  Qed.

  Lemma bt_dfs_sim h lo st0 f s st V :
    bt_ok h lo st0 -> lo <= s <= length h -> Rel h lo st0 st V ->
    sim_post bstate PositiveSet.t (Rel h lo st0) bfree f st (bt_dfs h f s st) (ref_dfs h f s V).
  Proof.
    intros Hok Hs HR. unfold bt_dfs, ref_dfs.
    apply (dfs_sim A h bstate PositiveSet.t vmem vadd (pmem (nstates A)) (padd (nstates A)) lo
                   (Rel h lo st0) bfree).
    - intros q p V1 V2 Hd H. eapply Rel_mem; eauto.
    - intros q p V1 V2 Hd H Hv. eapply Rel_add; eauto.
    - exact Hwf.
    - now apply start_dom.
    - exact HR.
  Qed.

  Lemma bt_dfsl_sim h lo st0 f s st V :
    bt_ok h lo st0 -> lo <= s <= length h -> Rel h lo st0 st V ->
    sim_post bstate PositiveSet.t (Rel h lo st0) bfree f st (bt_dfsl h f s st) (ref_dfsl h f s V).
  Proof.
    intros Hok Hs HR. unfold bt_dfsl, ref_dfsl.
    apply (dfsl_sim A h bstate PositiveSet.t vmem vadd (pmem (nstates A)) (padd (nstates A)) lo
                    (Rel h lo st0) bfree).
    - intros q p V1 V2 Hd H. eapply Rel_mem; eauto.
    - intros q p V1 V2 Hd H Hv. eapply Rel_add; eauto.
    - exact Hwf.
    - now apply start_dom.
    - exact HR.
  Qed.

  (* what one start position of SearchAtWithState does on an empty table *)
  Lemma one_search_spec h lo f s st :
    bt_ok h lo st -> bt_inv st -> bt_empty st -> lo <= s <= length h ->
    let r := one_search h f s st in
    fst r = ref_one (longest st) h f s /\ bt_inv (snd r) /\ frame_eq st (snd r) /\
    writes (snd r) <= writes st + vlen st /\ (vlen st < f -> fst r <> OutOfFuel).
  Proof.
    intros Hok Hinv He Hs. cbn zeta.
    pose proof (Rel_init h lo st Hok Hinv He) as HR0.
    assert (Hfin : forall st' V', Rel h lo st st' V' ->
              bt_inv st' /\ frame_eq st st' /\ writes st' <= writes st + vlen st).
    { intros st' V' HR. split; [eapply Rel_inv; eauto|]. destruct HR as [Hf [_ [Hw _]]].
      split; [exact Hf|]. rewrite (wmarks_empty st He) in Hw. pose proof (wmarks_le st') as Hle.
      destruct Hf as [F1 _]. lia. }
    assert (Hfree : bfree st <= vlen st) by (unfold bfree; lia).
    unfold one_search, ref_one. destruct (longest st).
    - destruct (bt_dfsl_sim h lo st f s st PositiveSet.empty Hok Hs HR0) as [E [HR Hfu]].
      destruct (Hfin _ _ HR) as [H1 [H2 H3]].
      split; [exact E|]. split; [exact H1|]. split; [exact H2|]. split; [exact H3|].
      intros Hlt. apply Hfu. lia.
    - destruct (bt_dfs_sim h lo st f s st PositiveSet.empty Hok Hs HR0) as [E [HR Hfu]].
      destruct (Hfin _ _ HR) as [H1 [H2 H3]].
      unfold search_with. fold (ref_dfs h f s PositiveSet.empty). rewrite <- E.
      destruct (bt_dfs h f s st) as [[|[[e sl]|]] st']; cbn [fst snd] in *;
        (split; [reflexivity|]; split; [exact H1|]; split; [exact H2|]; split; [exact H3|]);
        intros Hlt; try discriminate. exfalso. apply (proj1 (Hfu ltac:(lia))). reflexivity.
  Qed.

  Lemma frame_eq_ok_bump h lo st st1 :
    bt_ok h lo st -> frame_eq st st1 -> bt_inv st1 ->
    let st2 := bump false st1 in
    bt_ok h lo st2 /\ bt_inv st2 /\ bt_empty st2 /\ length (cells st2) = length (cells st) /\
    longest st2 = longest st /\ writes st2 = writes st1 /\ vlen st2 = vlen st.
  Proof.
    intros Hok Hf Hinv. cbn zeta.
    destruct (bump_spec st1 Hinv) as [B1 [B2 [B3 [B4 [B5 [B6 [B7 [B8 B9]]]]]]]].
    destruct Hf as [F1 [F2 [F3 [F4 [F5 [F6 F7]]]]]]. destruct Hok as [O1 [O2 [O3 O4]]].
    split; [unfold bt_ok; repeat split; lia|]. split; [exact B1|]. split; [exact B2|].
    split; [lia|]. split; [congruence|]. split; [exact B9|lia].
  Qed.

  Lemma sa_loop_spec h lo f : forall k s st,
    bt_ok h lo st -> bt_inv st -> bt_empty st -> lo <= s -> s + k = length h ->
    let r := sa_loop false h f k s st in
    fst r = ref_sa_loop (longest st) h f k s /\ bt_inv (snd r) /\
    length (cells (snd r)) = length (cells st) /\ longest (snd r) = longest st /\
    writes (snd r) <= writes st + (k + 1) * vlen st /\ (vlen st < f -> fst r <> OutOfFuel).
  Proof.
    induction k as [|k IH]; intros s st Hok Hinv He Hlo Hk; cbn zeta; cbn [sa_loop ref_sa_loop];
      destruct (one_search_spec h lo f s st Hok Hinv He ltac:(lia)) as [E [H1 [H2 [H3 H4]]]];
      rewrite <- E; destruct (one_search h f s st) as [[|[e|]] st1]; cbn [fst snd] in *.
    - split; [reflexivity|]. split; [exact H1|]. destruct H2 as [F1 [F2 [F3 [F4 [F5 [F6 F7]]]]]].
      split; [exact F7|]. split; [exact F6|]. split; [lia|]. intros Hlt. exfalso. apply (H4 Hlt). reflexivity.
    - split; [reflexivity|]. split; [exact H1|]. destruct H2 as [F1 [F2 [F3 [F4 [F5 [F6 F7]]]]]].
      split; [exact F7|]. split; [exact F6|]. split; [lia|]. discriminate.
    - destruct (frame_eq_ok_bump h lo st st1 Hok H2 H1) as [B1 [B2 [B3 [B4 [B5 [B6 B7]]]]]].
      split; [reflexivity|]. split; [exact B2|]. split; [exact B4|]. split; [exact B5|]. split; [lia|]. discriminate.
    - split; [reflexivity|]. split; [exact H1|]. destruct H2 as [F1 [F2 [F3 [F4 [F5 [F6 F7]]]]]].
      split; [exact F7|]. split; [exact F6|]. split; [lia|]. intros Hlt. exfalso. apply (H4 Hlt). reflexivity.
    - split; [reflexivity|]. split; [exact H1|]. destruct H2 as [F1 [F2 [F3 [F4 [F5 [F6 F7]]]]]].
      split; [exact F7|]. split; [exact F6|]. split; [lia|]. discriminate.
    - destruct (frame_eq_ok_bump h lo st st1 Hok H2 H1) as [B1 [B2 [B3 [B4 [B5 [B6 B7]]]]]].
      destruct (IH (S s) (bump false st1) B1 B2 B3 ltac:(lia) ltac:(lia)) as [I1 [I2 [I3 [I4 [I5 I6]]]]].
      rewrite B5 in I1. split; [exact I1|]. split; [exact I2|]. split; [lia|]. split; [congruence|].
      split; [nia|]. intros Hlt. apply I6. lia.
  Qed.

  Lemma im_loop_spec h f st0 :
    bt_ok h 0 st0 ->
    forall k s st V, Rel h 0 st0 st V -> s + k = length h ->
    let r := im_loop h f k s st in
    fst r = ref_im_loop h f k s V /\ (exists V', Rel h 0 st0 (snd r) V') /\
    (vlen st0 < f -> fst r <> OutOfFuel).
  Proof.
    intros Hok. induction k as [|k IH]; intros s st V HR Hk; cbn zeta; cbn [im_loop ref_im_loop];
      destruct (bt_dfs_sim h 0 st0 f s st V Hok ltac:(lia) HR) as [E [HRn Hfu]];
      assert (Hfr : bfree st <= vlen st0)
        by (destruct HR as [[F1 _] _]; unfold bfree; lia);
      destruct (bt_dfs h f s st) as [r1 st1]; destruct (ref_dfs h f s V) as [r2 V1];
      cbn [fst snd] in *; subst r2; destruct r1 as [|[x|]]; cbn [fst snd].
    - split; [reflexivity|]. split; [eexists; exact HRn|]. intros Hlt. exfalso. apply (proj1 (Hfu ltac:(lia))). reflexivity.
    - split; [reflexivity|]. split; [eexists; exact HRn|]. discriminate.
    - split; [reflexivity|]. split; [eexists; exact HRn|]. discriminate.
    - split; [reflexivity|]. split; [eexists; exact HRn|]. intros Hlt. exfalso. apply (proj1 (Hfu ltac:(lia))). reflexivity.
    - split; [reflexivity|]. split; [eexists; exact HRn|]. discriminate.
    - apply (IH (S s) st1 V1 HRn). lia.
  Qed.

  Lemma ref_im_loop_true h f : forall k s V,
    ref_im_loop h f k s V = Done true ->
    exists s' e, s <= s' <= s + k /\ nfa_path A h (start_anch A) s' e.
  Proof.
    induction k as [|k IH]; intros s V H; cbn [ref_im_loop] in H;
      destruct (ref_dfs h f s V) as [[|[[e sl]|]] V1] eqn:E; try discriminate.
    - exists s, e. split; [lia|]. eapply dfs_sound. exact E.
    - exists s, e. split; [lia|]. eapply dfs_sound. exact E.
    - destruct (IH _ _ H) as [s' [e [Hs Hp]]]. exists s', e. split; [lia|exact Hp].
  Qed.

  Lemma ref_im_loop_false h f : forall k s V,
    s + k = length h -> closed A h PositiveSet.t (pmem (nstates A)) 0 V [] ->
    ref_im_loop h f k s V = Done false ->
    forall s' e, s <= s' <= length h -> ~ nfa_path A h (start_anch A) s' e.
  Proof.
    assert (Hsame : forall q p V, dom A h 0 (q, p) -> pmem (nstates A) q p (padd (nstates A) q p V) = true)
      by (intros; apply pmem_padd_same).
    assert (Hother : forall q p q' p' V, dom A h 0 (q, p) -> dom A h 0 (q', p') -> (q, p) <> (q', p') ->
               pmem (nstates A) q' p' (padd (nstates A) q p V) = pmem (nstates A) q' p' V).
    { intros q p q' p' V Hd Hd' Hne. apply pmem_padd_other; [apply Hd|apply Hd'|exact Hne]. }
    induction k as [|k IH]; intros s V Hk Hcl H s' e Hs'; cbn [ref_im_loop] in H;
      destruct (ref_dfs h f s V) as [[|[[e1 sl]|]] V1] eqn:E; try discriminate.
    - assert (s' = s) by lia. subst s'.
      eapply (dfs_complete A h _ _ _ 0 Hsame Hother Hwf); [|exact Hcl|exact E]. apply start_dom. lia.
    - destruct (Nat.eq_dec s' s) as [->|Hne].
      + eapply (dfs_complete A h _ _ _ 0 Hsame Hother Hwf); [|exact Hcl|exact E]. apply start_dom. lia.
      + apply (IH (S s) V1); [lia| |exact H|lia].
        eapply (dfs_none_closed A h _ _ _ 0 Hsame Hother Hwf); [|exact Hcl|exact E]. apply start_dom. lia.
  Qed.

  Lemma closed_empty h : closed A h PositiveSet.t (pmem (nstates A)) 0 PositiveSet.empty [].
  Proof. intros c [_ Hc] _. rewrite pmem_empty in Hc. discriminate. Qed.

  (* ---------------------------------------------------------------- entry points *)
  Definition post (st st' : bstate) (need visits : nat) : Prop :=
    bt_inv st' /\ length (cells st') = Nat.max (length (cells st)) need /\
    longest st' = longest st /\ writes st' <= writes st + visits.

  Theorem bt_is_match_spec st h :
    bt_inv st -> can_handle (length h) = true ->
    let r := bt_is_match st h in
    fst r = ref_is_match h /\ fst r <> OutOfFuel /\
    post st (snd r) (nstates A * (length h + 1)) (nstates A * (length h + 1)).
  Proof.
    intros Hinv Hcan. cbn zeta. unfold bt_is_match, bt_is_match_g. rewrite Hcan.
    destruct (reset_spec st (length h) Hinv) as [R1 [R2 [R3 [R4 [R5 [R6 [R7 [R8 R9]]]]]]]].
    set (st0 := reset false st (length h)) in *.
    assert (Hok : bt_ok h 0 st0).
    { unfold bt_ok. rewrite Nat.sub_0_r. repeat split; try assumption. apply R1. }
    destruct (im_loop_spec h (fuel_for A h) st0 Hok (length h) 0 st0 PositiveSet.empty
                (Rel_init h 0 st0 Hok R1 R2) ltac:(lia)) as [E [[V' HR] Hfu]].
    split; [exact E|]. split; [apply Hfu; unfold fuel_for; lia|].
    pose proof (Rel_inv h 0 st0 _ _ R1 HR) as Hinv'.
    destruct HR as [[F1 [F2 [F3 [F4 [F5 [F6 F7]]]]]] [_ [Hw _]]].
    rewrite (wmarks_empty st0 R2) in Hw.
    match goal with |- post _ ?s _ _ => pose proof (wmarks_le s) as Hle end.
    unfold post. split; [exact Hinv'|]. split; [lia|]. split; [congruence|lia].
  Qed.

  Theorem bt_is_match_anchored_spec st h :
    bt_inv st -> can_handle (length h) = true ->
    let r := bt_is_match_anchored st h in
    fst r = ref_is_match_anchored h /\ fst r <> OutOfFuel /\
    post st (snd r) (nstates A * (length h + 1)) (nstates A * (length h + 1)).
  Proof.
    intros Hinv Hcan. cbn zeta. unfold bt_is_match_anchored, bt_is_match_anchored_g. rewrite Hcan.
    destruct (reset_spec st (length h) Hinv) as [R1 [R2 [R3 [R4 [R5 [R6 [R7 [R8 R9]]]]]]]].
    set (st0 := reset false st (length h)) in *.
    assert (Hok : bt_ok h 0 st0).
    { unfold bt_ok. rewrite Nat.sub_0_r. repeat split; try assumption. apply R1. }
    destruct (bt_dfs_sim h 0 st0 (fuel_for A h) 0 st0 PositiveSet.empty Hok ltac:(lia)
                (Rel_init h 0 st0 Hok R1 R2)) as [E [HR Hfu]].
    assert (Hfr : bfree st0 < fuel_for A h) by (unfold bfree, fuel_for; lia).
    destruct (Hfu Hfr) as [Hne _].
    unfold ref_is_match_anchored, search_with. fold (ref_dfs h (fuel_for A h) 0 PositiveSet.empty).
    rewrite <- E.
    assert (Hpost : post st (snd (bt_dfs h (fuel_for A h) 0 st0)) (nstates A * (length h + 1)) (nstates A * (length h + 1))).
    { pose proof (Rel_inv h 0 st0 _ _ R1 HR) as Hinv'.
      destruct HR as [[F1 [F2 [F3 [F4 [F5 [F6 F7]]]]]] [_ [Hw _]]].
      rewrite (wmarks_empty st0 R2) in Hw.
      pose proof (wmarks_le (snd (bt_dfs h (fuel_for A h) 0 st0))) as Hle.
      unfold post. split; [exact Hinv'|]. split; [lia|]. split; [congruence|lia]. }
    destruct (bt_dfs h (fuel_for A h) 0 st0) as [[|[x|]] st1]; cbn [fst snd] in *.
    - now exfalso.
    - split; [reflexivity|]. split; [discriminate|exact Hpost].
    - split; [reflexivity|]. split; [discriminate|exact Hpost].
  Qed.

  Theorem bt_search_at_spec st h at_ :
    bt_inv st -> at_ <= length h -> can_handle (length h - at_) = true ->
    let r := bt_search_at st h at_ in
    fst r = ref_search_at (longest st) h at_ /\ fst r <> OutOfFuel /\
    post st (snd r) (nstates A * (length h - at_ + 1))
         ((length h - at_ + 1) * (nstates A * (length h - at_ + 1))).
  Proof.
    intros Hinv Hat Hcan. cbn zeta. unfold bt_search_at, bt_search_at_g, ref_search_at.
    destruct (Nat.ltb_spec (length h) at_) as [Hlt|_]; [lia|]. rewrite Hcan.
    destruct (reset_spec st (length h - at_) Hinv) as [R1 [R2 [R3 [R4 [R5 [R6 [R7 [R8 R9]]]]]]]].
    destruct (bt_reset_empty st h at_ 0 0 Hinv Hat) as [Hok _].
    set (st0 := set_span (reset false st (length h - at_)) at_) in *.
    assert (I0 : bt_inv st0) by exact R1.
    assert (E0 : bt_empty st0) by exact R2.
    destruct (sa_loop_spec h at_ (fuel_for A h) (length h - at_) at_ st0 Hok I0 E0 ltac:(lia) ltac:(lia))
      as [S1 [S2 [S3 [S4 [S5 S6]]]]].
    assert (Hl : longest st0 = longest st) by exact R8.
    assert (Hv : vlen st0 = nstates A * (length h - at_ + 1)) by exact R4.
    assert (Hw : writes st0 = writes st) by exact R9.
    assert (Hc : length (cells st0) = Nat.max (length (cells st)) (nstates A * (length h - at_ + 1))) by exact R3.
    rewrite Hl in S1. split; [exact S1|]. split.
    - apply S6. rewrite Hv. unfold fuel_for. assert (length h - at_ + 1 <= length h + 1) by lia. nia.
    - unfold post. split; [exact S2|]. split; [lia|]. split; [congruence|]. rewrite Hv, Hw in S5. exact S5.
  Qed.

  (* when CanHandle fails the Go code declines (false / -1,-1,false) without touching
     the state; the caller is expected to fall back to the PikeVM *)
  Lemma bt_is_match_declines st h :
    can_handle (length h) = false -> bt_is_match st h = (Done false, st).
  Proof. intros H. unfold bt_is_match, bt_is_match_g. now rewrite H. Qed.

  Lemma bt_is_match_anchored_declines st h :
    can_handle (length h) = false -> bt_is_match_anchored st h = (Done false, st).
  Proof. intros H. unfold bt_is_match_anchored, bt_is_match_anchored_g. now rewrite H. Qed.

  Lemma bt_search_at_declines st h at_ :
    length h < at_ \/ can_handle (length h - at_) = false -> bt_search_at st h at_ = (Done None, st).
  Proof.
    intros H. unfold bt_search_at, bt_search_at_g. destruct (Nat.ltb_spec (length h) at_); [reflexivity|].
    destruct H as [H|H]; [lia|]. now rewrite H.
  Qed.

  (* C14 (part): IsMatchWithState answers true exactly when some start position has an
     accepting path (one table shared by all start positions) *)
  Theorem bt_is_match_correct st h :
    bt_inv st -> can_handle (length h) = true ->
    (fst (bt_is_match st h) = Done true <->
     exists s e, s <= length h /\ nfa_path A h (start_anch A) s e).
  Proof.
    intros Hinv Hcan. destruct (bt_is_match_spec st h Hinv Hcan) as [E [Hne _]]. split.
    - rewrite E. unfold ref_is_match. intros H.
      destruct (ref_im_loop_true _ _ _ _ _ H) as [s [e [Hs Hp]]]. exists s, e. split; [lia|exact Hp].
    - intros [s [e [Hs Hp]]]. destruct (fst (bt_is_match st h)) as [|[|]] eqn:Er.
      + now exfalso.
      + reflexivity.
      + exfalso. symmetry in E. unfold ref_is_match in E.
        apply (ref_im_loop_false h (fuel_for A h) (length h) 0 PositiveSet.empty eq_refl (closed_empty h) E s e ltac:(lia) Hp).
  Qed.

  Theorem bt_is_match_false st h :
    bt_inv st -> can_handle (length h) = true ->
    (fst (bt_is_match st h) = Done false <->
     forall s e, s <= length h -> ~ nfa_path A h (start_anch A) s e).
  Proof.
    intros Hinv Hcan. pose proof (bt_is_match_correct st h Hinv Hcan) as Hc.
    destruct (bt_is_match_spec st h Hinv Hcan) as [_ [Hne _]]. split.
    - intros H s e Hs Hp. assert (Ht : fst (bt_is_match st h) = Done true) by (apply Hc; eauto). congruence.
    - intros H. destruct (fst (bt_is_match st h)) as [|[|]] eqn:Er; [now exfalso| |reflexivity].
      destruct (proj1 Hc eq_refl) as [s [e [Hs Hp]]]. exfalso. eapply H; eauto.
  Qed.

  (* C14 (part): SearchAtWithState in leftmost-first mode returns Nfa's reference answer *)
  Theorem bt_search_at_is_ref st h at_ :
    bt_inv st -> longest st = false -> at_ <= length h -> can_handle (length h - at_) = true ->
    fst (bt_search_at st h at_) = span_of (find_at A h at_).
  Proof.
    intros Hinv Hl Hat Hcan. destruct (bt_search_at_spec st h at_ Hinv Hat Hcan) as [E _].
    rewrite E, Hl. apply ref_search_at_find.
  Qed.

  Theorem bt_search_at_is_ref_any_mode st h at_ :
    bt_inv st -> at_ <= length h -> can_handle (length h - at_) = true ->
    fst (bt_search_at st h at_) = ref_search_at (longest st) h at_.
  Proof. intros Hinv Hat Hcan. now destruct (bt_search_at_spec st h at_ Hinv Hat Hcan) as [E _]. Qed.

  Theorem bt_is_match_is_ref st h :
    bt_inv st -> can_handle (length h) = true -> fst (bt_is_match st h) = ref_is_match h.
  Proof. intros Hinv Hcan. now destruct (bt_is_match_spec st h Hinv Hcan) as [E _]. Qed.

  Theorem bt_is_match_anchored_is_ref st h :
    bt_inv st -> can_handle (length h) = true -> fst (bt_is_match_anchored st h) = ref_is_match_anchored h.
  Proof. intros Hinv Hcan. now destruct (bt_is_match_anchored_spec st h Hinv Hcan) as [E _]. Qed.

  (* ---------------------------------------------------------------- C13 *)
  Theorem bt_search_history_independent st st' h at_ :
    bt_inv st -> bt_inv st' -> longest st = longest st' ->
    fst (bt_search_at st h at_) = fst (bt_search_at st' h at_).
  Proof.
    intros Hi Hi' Hl. destruct (Nat.ltb_spec (length h) at_) as [Hlt|Hle].
    - rewrite !bt_search_at_declines by auto. reflexivity.
    - destruct (can_handle (length h - at_)) eqn:Hcan.
      + rewrite !bt_search_at_is_ref_any_mode by auto. now rewrite Hl.
      + rewrite !bt_search_at_declines by auto. reflexivity.
  Qed.

  Theorem bt_is_match_history_independent st st' h :
    bt_inv st -> bt_inv st' -> fst (bt_is_match st h) = fst (bt_is_match st' h).
  Proof.
    intros Hi Hi'. destruct (can_handle (length h)) eqn:Hcan.
    - now rewrite !bt_is_match_is_ref.
    - now rewrite !bt_is_match_declines.
  Qed.

  Theorem bt_is_match_anchored_history_independent st st' h :
    bt_inv st -> bt_inv st' -> fst (bt_is_match_anchored st h) = fst (bt_is_match_anchored st' h).
  Proof.
    intros Hi Hi'. destruct (can_handle (length h)) eqn:Hcan.
    - now rewrite !bt_is_match_anchored_is_ref.
    - now rewrite !bt_is_match_anchored_declines.
  Qed.

  Lemma set_longest_inv st b : bt_inv st -> bt_inv (set_longest st b).
  Proof. intros H. exact H. Qed.

  (* the invariant is preserved by every entry point, for all haystacks and offsets,
     whether or not the generation wraps inside the call *)
  Theorem bt_inv_preserved st h at_ :
    bt_inv st ->
    bt_inv (snd (bt_is_match st h)) /\ bt_inv (snd (bt_is_match_anchored st h)) /\
    bt_inv (snd (bt_search_at st h at_)).
  Proof.
    intros Hinv. split; [|split].
    - destruct (can_handle (length h)) eqn:Hcan.
      + apply (bt_is_match_spec st h Hinv Hcan).
      + now rewrite bt_is_match_declines.
    - destruct (can_handle (length h)) eqn:Hcan.
      + apply (bt_is_match_anchored_spec st h Hinv Hcan).
      + now rewrite bt_is_match_anchored_declines.
    - destruct (Nat.ltb_spec (length h) at_) as [Hlt|Hle]; [now rewrite bt_search_at_declines by auto|].
      destruct (can_handle (length h - at_)) eqn:Hcan.
      + apply (bt_search_at_spec st h at_ Hinv Hle Hcan).
      + now rewrite bt_search_at_declines by auto.
  Qed.

  (* the fuel fuel_for A h is never exhausted *)
  Theorem bt_total st h at_ :
    bt_inv st ->
    fst (bt_is_match st h) <> OutOfFuel /\ fst (bt_is_match_anchored st h) <> OutOfFuel /\
    fst (bt_search_at st h at_) <> OutOfFuel.
  Proof.
    intros Hinv. split; [|split].
    - destruct (can_handle (length h)) eqn:Hcan.
      + apply (bt_is_match_spec st h Hinv Hcan).
      + rewrite bt_is_match_declines by exact Hcan. discriminate.
    - destruct (can_handle (length h)) eqn:Hcan.
      + apply (bt_is_match_anchored_spec st h Hinv Hcan).
      + rewrite bt_is_match_anchored_declines by exact Hcan. discriminate.
    - destruct (Nat.ltb_spec (length h) at_) as [Hlt|Hle]; [rewrite bt_search_at_declines by auto; discriminate|].
      destruct (can_handle (length h - at_)) eqn:Hcan.
      + apply (bt_search_at_spec st h at_ Hinv Hle Hcan).
      + rewrite bt_search_at_declines by auto. discriminate.
  Qed.

  (* a call of the public API on one BacktrackerState; lg is the value the caller stored
     in state.Longest before the call *)
  Inductive call :=
  | CIsMatch (lg : bool) (h : hay)
  | CIsMatchAnchored (lg : bool) (h : hay)
  | CSearchAt (lg : bool) (h : hay) (at_ : nat).

  Inductive cres := RBool (r : res bool) | RSpan (r : res (option (nat * nat))).

  Definition run_call_g (orig : bool) (st : bstate) (c : call) : cres * bstate :=
    match c with
    | CIsMatch lg h => let r := bt_is_match_g orig (set_longest st lg) h in (RBool (fst r), snd r)
    | CIsMatchAnchored lg h => let r := bt_is_match_anchored_g orig (set_longest st lg) h in (RBool (fst r), snd r)
    | CSearchAt lg h at_ => let r := bt_search_at_g orig (set_longest st lg) h at_ in (RSpan (fst r), snd r)
    end.
  Definition run_calls_g (orig : bool) (st : bstate) (cs : list call) : bstate :=
    fold_left (fun s c => snd (run_call_g orig s c)) cs st.
  Definition run_call := run_call_g false.
  Definition run_calls := run_calls_g false.

  (* the answer as a function of the pattern, the mode and the arguments only *)
  Definition call_ref (c : call) : cres :=
    match c with
    | CIsMatch _ h => RBool (if can_handle (length h) then ref_is_match h else Done false)
    | CIsMatchAnchored _ h => RBool (if can_handle (length h) then ref_is_match_anchored h else Done false)
    | CSearchAt lg h at_ =>
        RSpan (if (length h <? at_) || negb (can_handle (length h - at_)) then Done None
               else ref_search_at lg h at_)
    end.

  (* table entries the call asks for (0 if it declines) *)
  Definition call_need (c : call) : nat :=
    match c with
    | CIsMatch _ h | CIsMatchAnchored _ h =>
        if can_handle (length h) then nstates A * (length h + 1) else 0
    | CSearchAt _ h at_ =>
        if (length h <? at_) || negb (can_handle (length h - at_)) then 0
        else nstates A * (length h - at_ + 1)
    end.

  Lemma run_call_spec st c :
    bt_inv st ->
    fst (run_call st c) = call_ref c /\ bt_inv (snd (run_call st c)) /\
    length (cells (snd (run_call st c))) = Nat.max (length (cells st)) (call_need c).
  Proof.
    intros Hinv. destruct c as [lg h|lg h|lg h at_]; unfold run_call, run_call_g, call_ref, call_need;
      cbn zeta; cbn [fst snd];
      fold bt_is_match; fold bt_is_match_anchored; fold bt_search_at;
      pose proof (set_longest_inv st lg Hinv) as Hinv'.
    - destruct (can_handle (length h)) eqn:Hcan.
      + destruct (bt_is_match_spec _ h Hinv' Hcan) as [E [_ [P1 [P2 _]]]]. rewrite E. auto.
      + rewrite bt_is_match_declines by exact Hcan. cbn [fst snd set_longest cells]. split; [reflexivity|]. split; [exact Hinv'|lia].
    - destruct (can_handle (length h)) eqn:Hcan.
      + destruct (bt_is_match_anchored_spec _ h Hinv' Hcan) as [E [_ [P1 [P2 _]]]]. rewrite E. auto.
      + rewrite bt_is_match_anchored_declines by exact Hcan. cbn [fst snd set_longest cells]. split; [reflexivity|]. split; [exact Hinv'|lia].
    - destruct (Nat.ltb_spec (length h) at_) as [Hlt|Hle]; cbn [orb].
      + rewrite bt_search_at_declines by auto. cbn [fst snd set_longest cells]. split; [reflexivity|]. split; [exact Hinv'|lia].
      + destruct (can_handle (length h - at_)) eqn:Hcan; cbn [negb].
        * destruct (bt_search_at_spec _ h at_ Hinv' Hle Hcan) as [E [_ [P1 [P2 _]]]]. rewrite E. auto.
        * rewrite bt_search_at_declines by auto. cbn [fst snd set_longest cells]. split; [reflexivity|]. split; [exact Hinv'|lia].
  Qed.

  Lemma bt_inv_run_calls cs : forall st, bt_inv st -> bt_inv (run_calls st cs).
  Proof.
    induction cs as [|c cs IH]; intros st Hinv; [exact Hinv|].
    unfold run_calls, run_calls_g. cbn [fold_left]. apply IH. apply (run_call_spec st c Hinv).
  Qed.

  (* C13 for this engine: after any sequence of earlier calls on the same state (other
     haystacks, other APIs, other modes, any number of calls, across generation wraps)
     a call returns what it returns on a freshly created state *)
  Theorem bt_history_independent calls c :
    fst (run_call (run_calls bt_fresh calls) c) = fst (run_call bt_fresh c).
  Proof.
    rewrite (proj1 (run_call_spec _ c (bt_inv_run_calls calls _ bt_inv_fresh))).
    now rewrite (proj1 (run_call_spec _ c bt_inv_fresh)).
  Qed.

  Theorem bt_history_independent_any st st' c :
    bt_inv st -> bt_inv st' -> fst (run_call st c) = fst (run_call st' c).
  Proof. intros H H'. now rewrite (proj1 (run_call_spec _ c H)), (proj1 (run_call_spec _ c H')). Qed.

  (* ---------------------------------------------------------------- C20 *)
  Theorem visited_cap_exact cs : forall st, bt_inv st ->
    length (cells (run_calls st cs)) = fold_left (fun m c => Nat.max m (call_need c)) cs (length (cells st)).
  Proof.
    induction cs as [|c cs IH]; intros st Hinv; [reflexivity|].
    unfold run_calls, run_calls_g. cbn [fold_left].
    destruct (run_call_spec st c Hinv) as [_ [Hi Hl]]. fold (run_call st c).
    fold (run_calls_g false (snd (run_call st c)) cs). fold (run_calls (snd (run_call st c)) cs).
    rewrite (IH _ Hi). now rewrite Hl.
  Qed.

  Lemma call_need_le c : call_need c <= max_visited.
  Proof.
    destruct c as [lg h|lg h|lg h at_]; unfold call_need, can_handle.
    - destruct (Nat.leb_spec (nstates A * (length h + 1)) max_visited); lia.
    - destruct (Nat.leb_spec (nstates A * (length h + 1)) max_visited); lia.
    - destruct (length h <? at_); cbn [orb]; [lia|].
      destruct (Nat.leb_spec (nstates A * (length h - at_ + 1)) max_visited); cbn [negb]; lia.
  Qed.

  Theorem visited_cap_bound cs st :
    bt_inv st -> length (cells st) <= max_visited -> length (cells (run_calls st cs)) <= max_visited.
  Proof.
    intros Hinv Hle. rewrite (visited_cap_exact cs st Hinv). revert Hle. generalize (length (cells st)).
    induction cs as [|c cs IH]; intros m Hm; cbn [fold_left]; [exact Hm|].
    apply IH. pose proof (call_need_le c). lia.
  Qed.

  (* ---------------------------------------------------------------- C05 *)
  (* IsMatchWithState writes at most one cell per (state, position) *)
  Theorem bt_is_match_visits_bound st h :
    bt_inv st -> writes (snd (bt_is_match st h)) <= writes st + nstates A * (length h + 1).
  Proof.
    intros Hinv. destruct (can_handle (length h)) eqn:Hcan.
    - apply (bt_is_match_spec st h Hinv Hcan).
    - rewrite bt_is_match_declines by exact Hcan. cbn [snd]. lia.
  Qed.

  (* one start position of SearchAtWithState writes at most one cell per (state, position
     of the span) ... *)
  Theorem bt_start_visits_bound st h lo s :
    bt_ok h lo st -> bt_inv st -> bt_empty st -> lo <= s <= length h ->
    writes (snd (one_search h (fuel_for A h) s st)) <= writes st + nstates A * (length h - lo + 1).
  Proof.
    intros Hok Hinv He Hs. destruct (one_search_spec h lo (fuel_for A h) s st Hok Hinv He Hs) as [_ [_ [_ [Hw _]]]].
    destruct Hok as [_ [_ [Hv _]]]. lia.
  Qed.

  (* ... but the generation bump forgets the table between start positions, so the whole
     call is only bounded by (number of start positions) x (table size) *)
  Theorem bt_search_visits_bound st h at_ :
    bt_inv st ->
    writes (snd (bt_search_at st h at_)) <=
    writes st + (length h - at_ + 1) * (nstates A * (length h - at_ + 1)).
  Proof.
    intros Hinv. destruct (Nat.ltb_spec (length h) at_) as [Hlt|Hle].
    - rewrite bt_search_at_declines by auto. cbn [snd]. apply Nat.le_add_r.
    - destruct (can_handle (length h - at_)) eqn:Hcan.
      + apply (bt_search_at_spec st h at_ Hinv Hle Hcan).
      + rewrite bt_search_at_declines by auto. cbn [snd]. apply Nat.le_add_r.
  Qed.
End Model.

(* ------------------------------------------------------------------ the Go counter width *)
Definition W16 : N := 65536.
Lemma HW16 : (2 <= W16)%N.
Proof. unfold W16. lia. Qed.

(* ------------------------------------------------------------------ the original wrap code
   is refuted.  a+b; SearchAt("xaab") stamps the cells of positions 2..4 with generation 2;
   two IsMatch("x") calls wrap the counter, the wrap clears only the 8 cells of the short
   table; SearchAt("aaab") runs at generation 2 again and takes the stale stamps of
   position 2 for visits of its own: start 0 fails and the match is reported at 1.
   (Go, original tree: a+b, SearchAtWithState("x"+a^49+"b"), 65534 x IsMatchWithState("x"),
   SearchAtWithState(a^50+"b") = [1,51] instead of [0,51].) *)
Definition nfa_aplusb : nfa :=
  mkNfa [SByteRange 97 97 1; SSplit 0 2; SByteRange 98 98 3; SMatch] 0 0 0.

Definition wrap_history : list call :=
  [CSearchAt false [120; 97; 97; 98]%N 0; CIsMatch false [120]%N; CIsMatch false [120]%N].
Definition wrap_final : call := CSearchAt false [97; 97; 97; 98]%N 0.

Theorem bt_wrap_refuted_original :
  exists (A : nfa) (calls : list call) (c : call),
    wf_nfa A = true /\
    fst (run_call_g 4 A 1000 true (run_calls_g 4 A 1000 true bt_fresh calls) c) = RSpan (Done (Some (1, 4))) /\
    fst (run_call_g 4 A 1000 true bt_fresh c) = RSpan (Done (Some (0, 4))) /\
    (* the repaired code on the same history *)
    fst (run_call 4 A 1000 (run_calls 4 A 1000 bt_fresh calls) c) = RSpan (Done (Some (0, 4))).
Proof.
  exists nfa_aplusb, wrap_history, wrap_final.
  split; [|split; [|split]]; vm_compute; reflexivity.
Qed.

(* the same at the real width: 65534 one-byte IsMatch calls drive the counter to the wrap *)
Definition age16 (orig : bool) (A : nfa) (n : N) (st : bstate) : bstate :=
  N.iter n (fun s => snd (run_call_g W16 A 1000 orig s (CIsMatch false [120]%N))) st.

Theorem bt_wrap_refuted_original_16 :
  let c0 := CSearchAt false [120; 97; 97; 98]%N 0 in
  let st1 := snd (run_call_g W16 nfa_aplusb 1000 true bt_fresh c0) in
  fst (run_call_g W16 nfa_aplusb 1000 true (age16 true nfa_aplusb 65534 st1) wrap_final) = RSpan (Done (Some (1, 4))) /\
  fst (run_call_g W16 nfa_aplusb 1000 true bt_fresh wrap_final) = RSpan (Done (Some (0, 4))) /\
  let st1' := snd (run_call W16 nfa_aplusb 1000 bt_fresh c0) in
  fst (run_call W16 nfa_aplusb 1000 (age16 false nfa_aplusb 65534 st1') wrap_final) = RSpan (Done (Some (0, 4))).
Proof. cbn zeta. split; [|split]; vm_compute; reflexivity. Qed.

(* ------------------------------------------------------------------ observation (not a theorem
   about all n): SearchAtWithState forgets the table between start positions, so on
   a*b against a^n the number of cells written grows quadratically, while IsMatchWithState
   (one table) stays linear. *)
Definition nfa_astarb : nfa :=
  mkNfa [SSplit 1 2; SByteRange 97 97 0; SByteRange 98 98 3; SMatch] 0 0 0.

Definition search_writes (n : nat) : nat :=
  writes (snd (bt_search_at W16 nfa_astarb 2000 bt_fresh (repeat 97%N n) 0)).
Definition is_match_writes (n : nat) : nat :=
  writes (snd (bt_is_match W16 nfa_astarb 2000 bt_fresh (repeat 97%N n))).

Theorem bt_search_quadratic_witness :
  3 * search_writes 16 < search_writes 32 /\ 3 * search_writes 32 < search_writes 64 /\
  is_match_writes 64 <= 2 * is_match_writes 32 + 4 /\
  search_writes 64 = 3 * (65 * 66 / 2) /\ is_match_writes 64 = 3 * 65.
Proof. split; [|split; [|split; [|split]]]; vm_compute; try reflexivity; lia. Qed.

(* ------------------------------------------------------------------ case checker
   A case is an NFA dumped from the compiler and a history of calls executed in sequence
   on ONE nfa.BacktrackerState, with what the Go implementation returned and the
   Generation / len(Visited) / cap(Visited) it left behind.
     api 0 IsMatchWithState, 1 IsMatchAnchoredWithState, 2 SearchAtWithState(h, at),
     api 3: the harness stores hc_at into the exported field state.Generation (used to get
            next to the wrap without 65 000 calls); no result.
   check_case replays the history on the model from the fresh state at W = 2^16 and
   compares the RESULTS (the verdict); drift_ok compares Generation/len/cap (informational:
   it tells whether the model tracks the Go state, not whether the property holds).
   The model's max_visited is chk_maxv (Go: 32M); the harness keeps every table below it, so
   CanHandle is true on both sides. *)
Definition chk_maxv : nat := 4000.

Record hcall := mkHC {
  hc_api : N; hc_at : N; hc_hay : list N; hc_longest : bool;
  hc_found : bool; hc_s : N; hc_e : N;               (* observed result; s = e = 0 for bool APIs / no match *)
  hc_gen : N; hc_len : N; hc_cap : N }.              (* observed state after the call *)

Record case := mkCase { c_id : N; c_nfa : nfa; c_hist : list hcall }.

Definition enc_bool (r : res bool) : option (bool * N * N) :=
  match r with OutOfFuel => None | Done b => Some (b, 0%N, 0%N) end.
Definition enc_span (r : res (option (nat * nat))) : option (bool * N * N) :=
  match r with
  | OutOfFuel => None
  | Done None => Some (false, 0%N, 0%N)
  | Done (Some (s, e)) => Some (true, N.of_nat s, N.of_nat e)
  end.

Definition step_model (A : nfa) (st : bstate) (c : hcall) : option (bool * N * N) * bstate :=
  let st1 := set_longest st (hc_longest c) in
  match hc_api c with
  | 0%N => let r := bt_is_match W16 A chk_maxv st1 (hc_hay c) in (enc_bool (fst r), snd r)
  | 1%N => let r := bt_is_match_anchored W16 A chk_maxv st1 (hc_hay c) in (enc_bool (fst r), snd r)
  | 2%N => let r := bt_search_at W16 A chk_maxv st1 (hc_hay c) (N.to_nat (hc_at c)) in (enc_span (fst r), snd r)
  | _ => (Some (hc_found c, hc_s c, hc_e c), set_gen st (hc_at c))
  end.

Definition res_eqb (a : option (bool * N * N)) (c : hcall) : bool :=
  match a with
  | None => false
  | Some (b, s, e) => Bool.eqb b (hc_found c) && (s =? hc_s c)%N && (e =? hc_e c)%N
  end.

Definition state_eqb (st : bstate) (c : hcall) : bool :=
  (gen st =? hc_gen c)%N && (N.of_nat (vlen st) =? hc_len c)%N && (N.of_nat (length (cells st)) =? hc_cap c)%N.

(* (all results agree, all states agree) *)
Fixpoint replay (A : nfa) (st : bstate) (hs : list hcall) : bool * bool :=
  match hs with
  | [] => (true, true)
  | c :: t =>
      let '(r, st') := step_model A st c in
      let '(a, b) := replay A st' t in
      (res_eqb r c && a, state_eqb st' c && b)
  end.

Definition check_case (c : case) : bool :=
  wf_nfa (c_nfa c) && fst (replay (c_nfa c) bt_fresh (c_hist c)).
Definition drift_ok (c : case) : bool := snd (replay (c_nfa c) bt_fresh (c_hist c)).

Definition mismatches (cs : list case) : list N :=
  map c_id (filter (fun c => negb (check_case c)) cs).
Definition drift_mismatches (cs : list case) : list N :=
  map c_id (filter (fun c => negb (drift_ok c)) cs).

(* replaying with the original wrap code, to show that a wrap history tells the two apart *)
Definition step_model_orig (A : nfa) (st : bstate) (c : hcall) : option (bool * N * N) * bstate :=
  let st1 := set_longest st (hc_longest c) in
  match hc_api c with
  | 0%N => let r := bt_is_match_g W16 A chk_maxv true st1 (hc_hay c) in (enc_bool (fst r), snd r)
  | 1%N => let r := bt_is_match_anchored_g W16 A chk_maxv true st1 (hc_hay c) in (enc_bool (fst r), snd r)
  | 2%N => let r := bt_search_at_g W16 A chk_maxv true st1 (hc_hay c) (N.to_nat (hc_at c)) in (enc_span (fst r), snd r)
  | _ => (Some (hc_found c, hc_s c, hc_e c), set_gen st (hc_at c))
  end.
Fixpoint replay_orig (A : nfa) (st : bstate) (hs : list hcall) : bool :=
  match hs with
  | [] => true
  | c :: t => let '(r, st') := step_model_orig A st c in res_eqb r c && replay_orig A st' t
  end.
Definition mismatches_orig (cs : list case) : list N :=
  map c_id (filter (fun c => negb (replay_orig (c_nfa c) bt_fresh (c_hist c))) cs).
