(* Property C04 (and the enumeration part of C11): successive-match enumeration equals
   stdlib's FindAll sequence.  Statements only; models and proofs are in FindAll.v.

   std_all find_at h n           regexp.allMatches over the single-match function find_at
   cx_*                          the coregex loops of the current tree (after the fixes
                                 179bffa "AppendAllIndex keeps dst" and 407f360 "advance by
                                 one code point after an empty match")
   cx_*_original, *_original_refuted
                                 the original code before those fixes, refuted by witnesses
   find_ok / find_empty_stable   hypotheses on find_at, spelled out in C04_find_ok_pairs_iff,
                                 C04_find_empty_stable_pairs_iff *)
From Coq Require Import List NArith ZArith Bool Arith.
From CV Require Import FindAll.
Import ListNotations.

(* the hypotheses spelled out *)
Theorem C04_find_ok_pairs_iff :
  forall (h : list N) (find_at : span_fn),
  find_ok pair_id h find_at <->
  (forall p s e : nat, find_at p = Some (s, e) -> p <= s /\ s <= e <= length h).
Proof. exact FindAll.find_ok_pairs_iff. Qed.
Print Assumptions C04_find_ok_pairs_iff.

Theorem C04_find_empty_stable_pairs_iff :
  forall find_at : span_fn,
  find_empty_stable pair_id find_at <->
  (forall p s : nat, find_at p = Some (s, s) -> p < s -> find_at s = Some (s, s)).
Proof. exact FindAll.find_empty_stable_pairs_iff. Qed.
Print Assumptions C04_find_empty_stable_pairs_iff.

Theorem C04_chain_from_cons :
  forall (h : list N) (lo : Z) (s e : nat) (t : list (nat * nat)),
  chain_from h lo ((s, e) :: t) <->
  (lo <= Z.of_nat s)%Z /\
  s <= e /\ e <= length h /\ (s = e -> (lo < Z.of_nat s)%Z) /\ chain_from h (Z.of_nat e) t.
Proof. exact FindAll.chain_from_cons. Qed.
Print Assumptions C04_chain_from_cons.

Theorem C04_decode_width_zero_iff :
  forall p : list N, decode_width p = 0 <-> p = [].
Proof. exact FindAll.decode_width_zero_iff. Qed.
Print Assumptions C04_decode_width_zero_iff.

(* utf8.DecodeRune width facts *)
Theorem C04_decode_width_le_4 :
  forall p : list N, decode_width p <= 4.
Proof. exact FindAll.decode_width_le_4. Qed.
Print Assumptions C04_decode_width_le_4.

Theorem C04_decode_width_le_length :
  forall p : list N, decode_width p <= length p.
Proof. exact FindAll.decode_width_le_length. Qed.
Print Assumptions C04_decode_width_le_length.

(* n == 0: nothing is enumerated *)
Theorem C04_std_all_n0 :
  forall (find_at : span_fn) (h : list N), std_all find_at h 0 = [].
Proof. exact FindAll.std_all_n0. Qed.
Print Assumptions C04_std_all_n0.

(* at most n results *)
Theorem C04_std_all_length :
  forall (h : list N) (find_at : span_fn),
  find_ok pair_id h find_at -> forall n : Z, (0 <= n)%Z -> length (std_all find_at h n) <= Z.to_nat n.
Proof. exact FindAll.std_all_length. Qed.
Print Assumptions C04_std_all_length.

(* C11: the enumeration with limit n >= 0 is the length-n prefix of the unlimited one *)
Theorem C04_std_all_prefix :
  forall (h : list N) (find_at : span_fn),
  find_ok pair_id h find_at ->
  forall n : Z, (0 <= n)%Z -> std_all find_at h n = firstn (Z.to_nat n) (std_all find_at h (-1)).
Proof. exact FindAll.std_all_prefix. Qed.
Print Assumptions C04_std_all_prefix.

(* C11: the first element of FindAll(-1) is the single match found from offset 0 (FindIndex) *)
Theorem C04_std_all_head :
  forall (h : list N) (find_at : span_fn),
  find_ok pair_id h find_at -> forall n : Z, n <> 0%Z -> hd_error (std_all find_at h n) = find_at 0.
Proof. exact FindAll.std_all_head. Qed.
Print Assumptions C04_std_all_head.

(* left to right, non-overlapping, inside the haystack; an empty match never touches the end of the preceding match *)
Theorem C04_std_all_sorted_disjoint :
  forall (h : list N) (find_at : span_fn),
  find_ok pair_id h find_at -> forall n : Z, chain_from h (-1) (std_all find_at h n).
Proof. exact FindAll.std_all_sorted_disjoint. Qed.
Print Assumptions C04_std_all_sorted_disjoint.

(* group 0 of the stdlib sub-match enumeration is the stdlib enumeration of group 0 *)
Theorem C04_std_all_gen_map_span :
  forall (A : Type) (span : A -> nat * nat) (h : list N) (find_at : nat -> option A) (n : Z),
  map span (std_all_gen span h find_at n) =
  std_all_gen pair_id h (fun p : nat => option_map span (find_at p)) n.
Proof. exact FindAll.std_all_gen_map_span. Qed.
Print Assumptions C04_std_all_gen_map_span.

(* meta.Engine.FindAllIndicesStreaming/findAllIndicesLoop (any dst: the engine resets it) = the stdlib sequence *)
Theorem C04_loop_eq_std :
  forall (h : list N) (find_at : span_fn),
  find_ok pair_id h find_at ->
  find_empty_stable pair_id find_at ->
  forall (anchored : bool) (n : Z) (dst : list (nat * nat)),
  (anchored = true -> anchored_ok find_at) ->
  n <> 0%Z -> cx_find_all_loop find_at h anchored n dst = std_all find_at h n.
Proof. exact FindAll.loop_eq_std. Qed.
Print Assumptions C04_loop_eq_std.

(* Regex.FindAllIndex (FindAll, FindAllString, FindAllStringIndex) = the stdlib sequence, every n *)
Theorem C04_find_all_eq_std :
  forall (h : list N) (find_at : span_fn),
  find_ok pair_id h find_at ->
  find_empty_stable pair_id find_at ->
  forall (anchored : bool) (n : Z),
  (anchored = true -> anchored_ok find_at) -> cx_find_all find_at h anchored n = std_all find_at h n.
Proof. exact FindAll.find_all_eq_std. Qed.
Print Assumptions C04_find_all_eq_std.

(* Count/CountString = number of elements of the stdlib sequence *)
Theorem C04_count_eq_std :
  forall (h : list N) (find_at : span_fn),
  find_ok pair_id h find_at ->
  find_empty_stable pair_id find_at -> forall n : Z, cx_count find_at h n = length (std_all find_at h n).
Proof. exact FindAll.count_eq_std. Qed.
Print Assumptions C04_count_eq_std.

(* the FindAllSubmatch family = stdlib loop over the sub-match function *)
Theorem C04_submatch_eq_std :
  forall (h : list N) (submatch_at : nat -> option (list Z)),
  find_ok slots_span h submatch_at ->
  find_empty_stable slots_span submatch_at ->
  forall n : Z, cx_find_all_submatch submatch_at h n = std_all_gen slots_span h submatch_at n.
Proof. exact FindAll.submatch_eq_std. Qed.
Print Assumptions C04_submatch_eq_std.

(* C11: group 0 of each FindAllSubmatch element is the FindAll element *)
Theorem C04_submatch_group0 :
  forall (h : list N) (submatch_at : nat -> option (list Z)),
  find_ok slots_span h submatch_at ->
  find_empty_stable slots_span submatch_at ->
  forall n : Z,
  map slots_span (cx_find_all_submatch submatch_at h n) =
  std_all (fun p : nat => option_map slots_span (submatch_at p)) h n.
Proof. exact FindAll.submatch_group0. Qed.
Print Assumptions C04_submatch_group0.

(* the AllIndex/AllStringIndex/All/AllString iterators yield the stdlib sequence *)
Theorem C04_iter_eq_std :
  forall (h : list N) (find_at : span_fn),
  find_ok pair_id h find_at ->
  find_empty_stable pair_id find_at -> cx_all_index find_at h = std_all find_at h (-1).
Proof. exact FindAll.iter_eq_std. Qed.
Print Assumptions C04_iter_eq_std.

(* AppendAllIndex/AppendAllStringIndex = dst followed by the stdlib sequence *)
Theorem C04_append_eq_std :
  forall (h : list N) (find_at : span_fn),
  find_ok pair_id h find_at ->
  find_empty_stable pair_id find_at ->
  forall (anchored : bool) (dst : list (nat * nat)) (n : Z),
  (anchored = true -> anchored_ok find_at) ->
  cx_append_all find_at h anchored dst n = dst ++ std_all find_at h n.
Proof. exact FindAll.append_eq_std. Qed.
Print Assumptions C04_append_eq_std.

(* none of the loops runs out of the fuel length h + 2 *)
Theorem C04_fuel_ok :
  forall (h : list N) (find_at : span_fn),
  find_ok pair_id h find_at ->
  find_empty_stable pair_id find_at ->
  forall (anchored : bool) (n : Z) (dst : list (nat * nat)),
  (anchored = true -> anchored_ok find_at) ->
  cx_find_all_index pair_id h find_at (empty_match_step h) anchored n <> None /\
  (n <> 0%Z -> cx_find_all_loop_gen pair_id h find_at (empty_match_step h) anchored n dst <> None) /\
  cx_count_gen pair_id h find_at (empty_match_step h) n <> None /\
  cx_find_all_submatch_gen pair_id h find_at (empty_match_step h) n <> None /\
  cx_all_index_gen pair_id h find_at <> None /\
  cx_append_all_gen pair_id h find_at anchored dst n <> None.
Proof. exact FindAll.fuel_ok. Qed.
Print Assumptions C04_fuel_ok.

(* C11: Count, the iterators, AppendAllIndex agree with FindAllIndex; limit n = prefix; head = FindIndex *)
Theorem C04_views_agree :
  forall (h : list N) (find_at : span_fn),
  find_ok pair_id h find_at ->
  find_empty_stable pair_id find_at ->
  forall (anchored : bool) (n : Z) (dst : list (nat * nat)),
  (anchored = true -> anchored_ok find_at) ->
  cx_count find_at h n = length (cx_find_all find_at h anchored n) /\
  cx_all_index find_at h = cx_find_all find_at h anchored (-1) /\
  cx_append_all find_at h anchored dst n = dst ++ cx_find_all find_at h anchored n /\
  ((0 <= n)%Z ->
  cx_find_all find_at h anchored n = firstn (Z.to_nat n) (cx_find_all find_at h anchored (-1))) /\
  hd_error (cx_find_all find_at h anchored (-1)) = find_at 0.
Proof. exact FindAll.views_agree. Qed.
Print Assumptions C04_views_agree.

(* the char-class streaming state machine = stdlib loop over the searcher's own SearchAt (minMatch <= 1) *)
Theorem C04_streaming_eq :
  forall (member : N -> bool) (mm : nat),
  mm <= 1 ->
  forall (h : list N) (dst : list (nat * nat)),
  cc_find_all_indices member mm h dst = std_all (cc_find_at member mm h) h (-1).
Proof. exact FindAll.streaming_eq. Qed.
Print Assumptions C04_streaming_eq.

(* FindAllIndicesStreaming, char-class branch, with its limit n *)
Theorem C04_cc_streaming_eq :
  forall (member : N -> bool) (mm : nat),
  mm <= 1 ->
  forall (h : list N) (n : Z) (dst : list (nat * nat)),
  n <> 0%Z -> cc_streaming member mm h n dst = std_all (cc_find_at member mm h) h n.
Proof. exact FindAll.cc_streaming_eq. Qed.
Print Assumptions C04_cc_streaming_eq.

(* ORIGINAL code (before 407f360): the one-byte-step loops were right on ASCII haystacks *)
Theorem C04_loop_original_eq_std_ascii :
  forall (h : list N) (find_at : span_fn),
  find_ok pair_id h find_at ->
  find_empty_stable pair_id find_at ->
  forall (anchored : bool) (n : Z) (dst : list (nat * nat)),
  Forall (fun b : N => (b < 128)%N) h ->
  (anchored = true -> anchored_ok find_at) ->
  n <> 0%Z ->
  cx_find_all_loop_original find_at h anchored n dst = std_all find_at h n /\
  cx_count_original find_at h n = length (std_all find_at h n).
Proof. exact FindAll.loop_original_eq_std_ascii. Qed.
Print Assumptions C04_loop_original_eq_std_ascii.

(* ORIGINAL code before fix 407f360: one BYTE step after an empty match (`a*` on "\xc3\xa9") *)
Theorem C04_loop_original_refuted :
  exists (h : list N) (find_at : nat -> option (nat * nat)) (n : Z),
  find_ok pair_id h find_at /\
  find_empty_stable pair_id find_at /\
  cx_find_all_loop_gen pair_id h find_at step_byte false n [] = Some [(0, 0); (1, 1); (2, 2)] /\
  std_all find_at h n = [(0, 0); (2, 2)].
Proof. exact FindAll.loop_original_refuted. Qed.
Print Assumptions C04_loop_original_refuted.

(* ORIGINAL code before fix 407f360: same, in the branch that drops an empty match (`a*` on "a\xc3\xa9") *)
Theorem C04_loop_original_refuted_skip :
  exists (h : list N) (find_at : nat -> option (nat * nat)) (n : Z),
  find_ok pair_id h find_at /\
  find_empty_stable pair_id find_at /\
  cx_find_all_loop_gen pair_id h find_at step_byte false n [] = Some [(0, 1); (2, 2); (3, 3)] /\
  std_all find_at h n = [(0, 1); (3, 3)].
Proof. exact FindAll.loop_original_refuted_skip. Qed.
Print Assumptions C04_loop_original_refuted_skip.

(* ORIGINAL code before fix 407f360: Count had the same defect *)
Theorem C04_count_original_refuted :
  exists (h : list N) (find_at : nat -> option (nat * nat)) (n : Z),
  find_ok pair_id h find_at /\
  find_empty_stable pair_id find_at /\
  cx_count_gen pair_id h find_at step_byte n = Some 3 /\ length (std_all find_at h n) = 2.
Proof. exact FindAll.count_original_refuted. Qed.
Print Assumptions C04_count_original_refuted.

(* ORIGINAL code before fix 407f360: FindAllSubmatch had the same defect *)
Theorem C04_submatch_original_refuted :
  exists (h : list N) (find_at : nat -> option (nat * nat)) (n : Z),
  find_ok pair_id h find_at /\
  find_empty_stable pair_id find_at /\
  cx_find_all_submatch_gen pair_id h find_at step_byte n = Some [(0, 0); (1, 1); (2, 2)] /\
  std_all find_at h n = [(0, 0); (2, 2)].
Proof. exact FindAll.submatch_original_refuted. Qed.
Print Assumptions C04_submatch_original_refuted.

(* ORIGINAL code before fix 179bffa: AppendAllIndex dropped dst, and returned nil for n = 0 *)
Theorem C04_append_original_refuted :
  exists (h : list N) (find_at : nat -> option (nat * nat)) (dst : list (nat * nat)),
  find_ok pair_id h find_at /\
  find_empty_stable pair_id find_at /\
  cx_append_all_original_gen pair_id h find_at step_byte false dst (-1) = Some [(0, 2)] /\
  dst ++ std_all find_at h (-1) = [(7, 7); (0, 2)] /\
  cx_append_all_original_gen pair_id h find_at step_byte false dst 0 = Some [] /\
  dst ++ std_all find_at h 0 = [(7, 7)].
Proof. exact FindAll.append_original_refuted. Qed.
Print Assumptions C04_append_original_refuted.

(* ORIGINAL code before fix 407f360: AllIndex yielded an empty match found beyond pos twice (`\b` on " a", ASCII) *)
Theorem C04_iter_original_refuted :
  exists (h : list N) (find_at : nat -> option (nat * nat)),
  find_ok pair_id h find_at /\
  find_empty_stable pair_id find_at /\
  Forall (fun b : N => (b < 128)%N) h /\
  cx_all_index_original_gen pair_id h find_at = Some [(1, 1); (1, 1); (2, 2)] /\
  std_all find_at h (-1) = [(1, 1); (2, 2)].
Proof. exact FindAll.iter_original_refuted. Qed.
Print Assumptions C04_iter_original_refuted.

(* ORIGINAL code before fix 407f360: AllIndex shared the one-byte step *)
Theorem C04_iter_original_refuted_step :
  exists (h : list N) (find_at : nat -> option (nat * nat)),
  find_ok pair_id h find_at /\
  find_empty_stable pair_id find_at /\
  cx_all_index_original_gen pair_id h find_at = Some [(0, 0); (1, 1); (2, 2)] /\
  std_all find_at h (-1) = [(0, 0); (2, 2)].
Proof. exact FindAll.iter_original_refuted_step. Qed.
Print Assumptions C04_iter_original_refuted_step.

(* the coregex loop shape relies on find_empty_stable; stdlib's does not *)
Theorem C04_stable_needed :
  exists (h : list N) (find_at : nat -> option (nat * nat)),
  find_ok pair_id h find_at /\
  cx_find_all_loop find_at h false (-1) [] = [(1, 1)] /\ std_all find_at h (-1) = [(1, 1); (1, 2)].
Proof. exact FindAll.stable_needed. Qed.
Print Assumptions C04_stable_needed.

(* the checker's decidable hypotheses are sound *)
Theorem C04_tbl_ok_sound :
  forall (h : list N) (tbl : list (option (nat * nat))),
  tbl_ok_b (length h) tbl = true -> find_ok pair_id h (tbl_fn tbl).
Proof. exact FindAll.tbl_ok_sound. Qed.
Print Assumptions C04_tbl_ok_sound.

Theorem C04_tbl_stable_sound :
  forall tbl : list (option (nat * nat)),
  tbl_stable_b tbl = true -> find_empty_stable pair_id (tbl_fn tbl).
Proof. exact FindAll.tbl_stable_sound. Qed.
Print Assumptions C04_tbl_stable_sound.

Theorem C04_tbl_anchored_sound :
  forall tbl : list (option (nat * nat)), tbl_anchored_b tbl = true -> anchored_ok (tbl_fn tbl).
Proof. exact FindAll.tbl_anchored_sound. Qed.
Print Assumptions C04_tbl_anchored_sound.
