(* ClassAuto.v — byte automata of character classes against the rune-level view of regexp.

   accepts A bs            anchored whole-string acceptance of the dumped NFA (Nfa.nfa) by
                           state-set simulation; accepts_spec links it to Nfa.nfa_path.
   spec_class_on_bytes     what regexp `^(?:c)$` does on bs when c is a one-rune node with
                           rune set `ranges`: bs decodes (Utf8.decode = utf8.DecodeRune) to
                           exactly one rune, consuming all of bs, and the rune is in ranges.
   certified checkers      sweep_codepoints (all code points), sweep_short (all byte strings
                           up to a length, brute force), find_trie (pruned walk over all
                           live prefixes: everything accepted of length >= 2 is a well-formed
                           encoding), class_check / first_failure; class_check_sound gives
                           equality of the two languages on ALL byte strings.
   range_seqs              model of nfa/compile.go: compileUTF8Range and its helpers.       *)
From Coq Require Import List PArith NArith ZArith Lia Bool Arith PeanoNat Pnat.
From Coq Require Import FSets.FSetPositive FSets.FSetProperties FSets.FMapPositive.
From Coq Require Import ZifyBool ZifyNat ZifyN.
From CV Require Import Nfa Utf8.
Import ListNotations.

Module PSP := FSetProperties.Properties PositiveSet.

(* ------------------------------------------------------------------ state table, state sets *)
Definition skey (q : nat) : positive := Pos.of_succ_nat q.

Lemma skey_inj q q' : skey q = skey q' -> q = q'.
Proof. apply SuccNat2Pos.inj. Qed.

Fixpoint mk_map_from (i : nat) (l : list nstate) (M : PositiveMap.t nstate) : PositiveMap.t nstate :=
  match l with
  | [] => M
  | st :: t => mk_map_from (S i) t (PositiveMap.add (skey i) st M)
  end.
Definition mk_map (l : list nstate) := mk_map_from 0 l (PositiveMap.empty nstate).
Definition get (M : PositiveMap.t nstate) (q : nat) : option nstate := PositiveMap.find (skey q) M.

Lemma mk_map_from_spec l : forall i M q,
  get (mk_map_from i l M) q =
  if q <? i then get M q
  else match nth_error l (q - i) with Some st => Some st | None => get M q end.
Proof.
  unfold get. induction l as [|st t IH]; intros i M q; cbn [mk_map_from].
  - destruct (q <? i); [reflexivity|]. destruct (q - i); reflexivity.
  - rewrite IH. destruct (q <? S i) eqn:E1; destruct (q <? i) eqn:E2.
    + rewrite PositiveMap.gso; [reflexivity|]. intros H. apply skey_inj in H. lia.
    + assert (q = i) by lia. subst q. rewrite PositiveMap.gss. rewrite Nat.sub_diag. reflexivity.
    + lia.
    + replace (q - i) with (S (q - S i)) by lia. cbn [nth_error].
      destruct (nth_error t (q - S i)); [reflexivity|].
      rewrite PositiveMap.gso; [reflexivity|]. intros H. apply skey_inj in H. lia.
Qed.

Lemma get_mk_map l q : get (mk_map l) q = nth_error l q.
Proof.
  unfold mk_map. rewrite mk_map_from_spec. cbn [Nat.ltb Nat.leb]. rewrite Nat.sub_0_r.
  destruct (nth_error l q); [reflexivity|]. unfold get. apply PositiveMap.gempty.
Qed.

Fixpoint mk_full (n : nat) : PositiveSet.t :=
  match n with 0 => PositiveSet.empty | S k => PositiveSet.add (skey k) (mk_full k) end.

Lemma mk_full_mem n q : PositiveSet.mem (skey q) (mk_full n) = (q <? n).
Proof.
  induction n as [|k IH]; cbn [mk_full].
  - reflexivity.
  - destruct (Nat.eq_dec q k) as [->|Hne].
    + replace (k <? S k) with true by lia. apply PositiveSet.add_1. reflexivity.
    + rewrite PSP.FM.add_neq_b by (intros H; apply skey_inj in H; lia).
      rewrite IH. destruct (q <? k) eqn:E1; destruct (q <? S k) eqn:E2; lia.
Qed.

Lemma mk_full_card n : PositiveSet.cardinal (mk_full n) <= n.
Proof.
  induction n as [|k IH]; cbn [mk_full].
  - reflexivity.
  - destruct (PositiveSet.mem (skey k) (mk_full k)) eqn:E.
    + rewrite PSP.add_cardinal_1 by exact E. lia.
    + rewrite PSP.add_cardinal_2; [lia|]. unfold PositiveSet.In. congruence.
Qed.

Lemma mem_remove_same k s : PositiveSet.mem k (PositiveSet.remove k s) = false.
Proof.
  destruct (PositiveSet.mem k (PositiveSet.remove k s)) eqn:E; [|reflexivity].
  exfalso. eapply PositiveSet.remove_1; [reflexivity|exact E].
Qed.

Lemma fold_left_ext {X Y} (g1 g2 : X -> Y -> X) l : (forall a y, g1 a y = g2 a y) ->
  forall a, fold_left g1 l a = fold_left g2 l a.
Proof. intros H. induction l as [|y t IH]; intros a; cbn [fold_left]; [reflexivity|]. rewrite H. apply IH. Qed.

(* ------------------------------------------------------------------ ε-closure *)
Definition sstate := (PositiveSet.t * list nat)%type.   (* not yet visited, visited *)

Definition eps_succs (lkok : look -> bool) (st : nstate) : list nat :=
  match st with
  | SSplit l r => [l; r]
  | SEpsilon n => [n]
  | SCapture _ _ n => [n]
  | SLook k n => if lkok k then [n] else []
  | _ => []
  end.

Definition is_look (st : nstate) : bool := match st with SLook _ _ => true | _ => false end.

Section Closure.
  Variable lk : nat -> option nstate.
  Variable lkok : look -> bool.

  (* nfa/pikevm.go: addThread — depth-first ε-closure; a state is expanded at most once
     (it leaves the not-yet-visited set), so the fuel |rem| is never exhausted *)
  Fixpoint eclose (fuel : nat) (q : nat) (st : sstate) : sstate :=
    match fuel with
    | 0 => st
    | S f =>
      let k := skey q in
      if PositiveSet.mem k (fst st) then
        let st1 := (PositiveSet.remove k (fst st), q :: snd st) in
        match lk q with
        | Some s => fold_left (fun a y => eclose f y a) (eps_succs lkok s) st1
        | None => st1
        end
      else st
    end.

  Definition eps1 (x y : nat) : Prop := exists s, lk x = Some s /\ In y (eps_succs lkok s).

  Inductive epsr (y : nat) : nat -> Prop :=
  | er_refl : epsr y y
  | er_step z x : epsr y z -> eps1 z x -> epsr y x.

  Lemma epsr_prepend q y x : eps1 q y -> epsr y x -> epsr q x.
  Proof.
    intros H1 H2. induction H2 as [|z x H2 IH H3].
    - eapply er_step; [apply er_refl|exact H1].
    - eapply er_step; [exact IH|exact H3].
  Qed.

  Definition memq (x : nat) (s : PositiveSet.t) : bool := PositiveSet.mem (skey x) s.

  Definition cl_ok (seeds : list nat) (st st' : sstate) : Prop :=
    PositiveSet.Subset (fst st') (fst st) /\
    (forall x, In x (snd st') <-> In x (snd st) \/ (memq x (fst st) = true /\ memq x (fst st') = false)) /\
    (forall y, In y seeds -> memq y (fst st') = false) /\
    (forall x, memq x (fst st) = true -> memq x (fst st') = false ->
               forall y, eps1 x y -> memq y (fst st') = false) /\
    (forall x, memq x (fst st) = true -> memq x (fst st') = false ->
               exists y, In y seeds /\ epsr y x).

  Lemma subset_mem s s' k : PositiveSet.Subset s' s -> PositiveSet.mem k s = false -> PositiveSet.mem k s' = false.
  Proof.
    intros Hs Hm. destruct (PositiveSet.mem k s') eqn:E; [|reflexivity].
    apply Hs in E. unfold PositiveSet.In in E. congruence.
  Qed.

  Lemma cl_ok_nil st : cl_ok [] st st.
  Proof.
    unfold cl_ok. split; [intros a Ha; exact Ha|]. split; [|split; [|split]].
    - intros x. split; [auto|]. intros [H|[H1 H2]]; [exact H|congruence].
    - intros y [].
    - intros x H1 H2. congruence.
    - intros x H1 H2. congruence.
  Qed.

  Lemma cl_ok_comp s1 s2 st st1 st2 : cl_ok s1 st st1 -> cl_ok s2 st1 st2 -> cl_ok (s1 ++ s2) st st2.
  Proof.
    intros [A1 [A2 [A3 [A4 A5]]]] [B1 [B2 [B3 [B4 B5]]]].
    unfold cl_ok. split; [|split; [|split; [|split]]].
    - intros a Ha. apply A1, B1, Ha.
    - intros x. rewrite B2, A2. unfold memq in *. split.
      + intros [[H|[H1 H2]]|[H1 H2]].
        * now left.
        * right. split; [exact H1|]. eapply subset_mem; eauto.
        * right. split; [|exact H2]. apply A1. exact H1.
      + intros [H|[H1 H2]]; [left; now left|].
        destruct (PositiveSet.mem (skey x) (fst st1)) eqn:E.
        * right. now split.
        * left. right. now split.
    - intros y Hy. apply in_app_or in Hy. destruct Hy as [Hy|Hy].
      + unfold memq. eapply subset_mem; [exact B1|]. apply A3. exact Hy.
      + now apply B3.
    - intros x H1 H2 y Hy. destruct (memq x (fst st1)) eqn:E.
      + eapply B4; eauto.
      + unfold memq. eapply subset_mem; [exact B1|]. eapply A4; eauto.
    - intros x H1 H2. destruct (memq x (fst st1)) eqn:E.
      + destruct (B5 x E H2) as [y [Hy He]]. exists y. split; [apply in_or_app; now right|exact He].
      + destruct (A5 x H1 E) as [y [Hy He]]. exists y. split; [apply in_or_app; now left|exact He].
  Qed.

  Lemma cl_ok_fold (g : nat -> sstate -> sstate) (f : nat) :
    (forall q st, PositiveSet.cardinal (fst st) <= f -> cl_ok [q] st (g q st)) ->
    forall ys st, PositiveSet.cardinal (fst st) <= f ->
      cl_ok ys st (fold_left (fun a y => g y a) ys st).
  Proof.
    intros Hg. induction ys as [|y t IH]; intros st Hc; cbn [fold_left].
    - apply cl_ok_nil.
    - change (y :: t) with ([y] ++ t). eapply cl_ok_comp; [apply Hg; exact Hc|].
      apply IH. destruct (Hg y st Hc) as [Hs _]. apply PSP.subset_cardinal in Hs. lia.
  Qed.

  Lemma eclose_ok f : forall q st, PositiveSet.cardinal (fst st) <= f -> cl_ok [q] st (eclose f q st).
  Proof.
    induction f as [|f IH]; intros q st Hc.
    - (* no fuel: the set is empty *)
      cbn [eclose].
      assert (Hm : forall k, PositiveSet.mem k (fst st) = false).
      { intros k. destruct (PositiveSet.mem k (fst st)) eqn:E; [|reflexivity].
        pose proof (PSP.remove_cardinal_1 E). lia. }
      destruct (cl_ok_nil st) as [A1 [A2 [_ [A4 A5]]]].
      split; [exact A1|]. split; [exact A2|]. split; [|split].
      + intros y _. apply Hm.
      + exact A4.
      + intros x H1. unfold memq in H1. rewrite Hm in H1. discriminate.
    - cbn [eclose]. destruct (PositiveSet.mem (skey q) (fst st)) eqn:Em.
      2:{ destruct (cl_ok_nil st) as [A1 [A2 [_ [A4 A5]]]].
          split; [exact A1|]. split; [exact A2|]. split; [|split].
          - intros y [<-|[]]. exact Em.
          - exact A4.
          - intros x H1 H2. congruence. }
      set (st1 := (PositiveSet.remove (skey q) (fst st), q :: snd st)).
      assert (Hc1 : PositiveSet.cardinal (fst st1) <= f).
      { cbn [st1 fst]. pose proof (PSP.remove_cardinal_1 Em). lia. }
      assert (Hmem1 : forall x, memq x (fst st1) = memq x (fst st) && negb (x =? q)).
      { intros x. cbn [st1 fst]. unfold memq. destruct (Nat.eq_dec x q) as [->|Hne].
        - rewrite mem_remove_same, Nat.eqb_refl. now rewrite andb_false_r.
        - rewrite PSP.FM.remove_neq_b by (intros H; apply skey_inj in H; lia).
          replace (x =? q) with false by lia. now rewrite andb_true_r. }
      (* the result, with the properties of the fold over the successors *)
      assert (Hres : forall ys st', cl_ok ys st1 st' ->
                 (forall y, eps1 q y -> In y ys) -> (forall y, In y ys -> eps1 q y) ->
                 cl_ok [q] st st').
      { intros ys st' [B1 [B2 [B3 [B4 B5]]]] Hall Hsome.
        assert (Hq' : memq q (fst st') = false).
        { unfold memq. eapply subset_mem; [exact B1|]. cbn [st1 fst]. apply mem_remove_same. }
        split; [|split; [|split; [|split]]].
        - intros a Ha. apply B1 in Ha. cbn [st1 fst] in Ha. eapply PositiveSet.remove_3; exact Ha.
        - intros x. rewrite B2. cbn [st1 snd]. rewrite Hmem1. split.
          + intros [[<-|H]|[H1 H2]].
            * right. split; [exact Em|exact Hq'].
            * now left.
            * right. apply andb_prop in H1 as [H1 _]. now split.
          + intros [H|[H1 H2]]; [left; now right|].
            destruct (Nat.eq_dec x q) as [->|Hne]; [left; now left|].
            right. split; [|exact H2]. rewrite H1. replace (x =? q) with false by lia. reflexivity.
        - intros y [<-|[]]. exact Hq'.
        - intros x H1 H2 y Hy. destruct (Nat.eq_dec x q) as [->|Hne].
          + apply B3. apply Hall. exact Hy.
          + eapply B4; eauto. rewrite Hmem1, H1. replace (x =? q) with false by lia. reflexivity.
        - intros x H1 H2. exists q. split; [now left|].
          destruct (Nat.eq_dec x q) as [->|Hne]; [apply er_refl|].
          destruct (B5 x) as [y [Hy He]]; [|exact H2|].
          { rewrite Hmem1, H1. replace (x =? q) with false by lia. reflexivity. }
          eapply epsr_prepend; [apply Hsome; exact Hy|exact He]. }
      destruct (lk q) as [s|] eqn:Elk.
      + eapply Hres.
        * apply (cl_ok_fold (eclose f) f IH). exact Hc1.
        * intros y [s' [Hs' Hy]]. rewrite Elk in Hs'. inversion Hs'; subst. exact Hy.
        * intros y Hy. exists s. now split.
      + eapply (Hres []).
        * apply cl_ok_nil.
        * intros y [s' [Hs' _]]. congruence.
        * intros y [].
  Qed.

  (* closure of a list of seeds, from "nothing visited" *)
  Definition close_seeds (full : PositiveSet.t) (n : nat) (seeds : list nat) : list nat :=
    snd (fold_left (fun a y => eclose n y a) seeds (full, [])).

  Lemma close_seeds_spec full n seeds :
    (forall q, PositiveSet.mem (skey q) full = (q <? n)) -> PositiveSet.cardinal full <= n ->
    (forall q, n <= q -> lk q = None) ->
    forall x, In x (close_seeds full n seeds) <-> x < n /\ exists y, In y seeds /\ epsr y x.
  Proof.
    intros Hfull Hcard Hlk x. unfold close_seeds.
    pose proof (cl_ok_fold (eclose n) n (eclose_ok n) seeds (full, []) Hcard) as H.
    set (st' := fold_left (fun a y => eclose n y a) seeds (full, [])) in *.
    destruct H as [A1 [A2 [A3 [A4 A5]]]]. cbn [fst snd] in *.
    rewrite A2. unfold memq in *. split.
    - intros [[]|[H1 H2]]. rewrite Hfull in H1. split; [now apply Nat.ltb_lt|]. apply A5; [|exact H2].
      now rewrite Hfull.
    - intros [Hx [y [Hy He]]]. right. split; [rewrite Hfull; now apply Nat.ltb_lt|].
      revert Hx. induction He as [|z x He IH Hs]; intros Hx.
      + now apply A3.
      + assert (Hz : z < n).
        { destruct Hs as [s [Hs _]]. destruct (Nat.lt_ge_cases z n) as [Hl|Hg]; [exact Hl|].
          rewrite (Hlk z Hg) in Hs. discriminate. }
        eapply A4; [| apply IH; exact Hz | exact Hs]. rewrite Hfull. now apply Nat.ltb_lt.
  Qed.

  (* transitions on a byte *)
  Definition trans_on (st : nstate) (b : N) : list nat :=
    match st with
    | SByteRange lo hi nx => if in_range lo hi b then [nx] else []
    | SSparse trs => match sparse_next trs b with Some nx => [nx] | None => [] end
    | _ => []
    end.

  Definition step_targets (S : list nat) (b : N) : list nat :=
    flat_map (fun q => match lk q with Some st => trans_on st b | None => [] end) S.

  (* nfa/pikevm.go: step — all byte transitions out of the current set, then ε-closure *)
  Definition step (full : PositiveSet.t) (n : nat) (S : list nat) (b : N) : list nat :=
    close_seeds full n (step_targets S b).

  Definition is_m (q : nat) : bool := match lk q with Some SMatch => true | _ => false end.
End Closure.

(* without Look states the closure does not depend on the assertion oracle *)
Lemma eclose_irrel lk lkok1 lkok2 :
  (forall q s, lk q = Some s -> is_look s = false) ->
  forall f q st, eclose lk lkok1 f q st = eclose lk lkok2 f q st.
Proof.
  intros Hnl. induction f as [|f IH]; intros q st; cbn [eclose]; [reflexivity|].
  destruct (PositiveSet.mem (skey q) (fst st)); [|reflexivity].
  destruct (lk q) as [s|] eqn:E; [|reflexivity].
  assert (Hs : eps_succs lkok1 s = eps_succs lkok2 s).
  { specialize (Hnl q s E). destruct s; try reflexivity. discriminate. }
  rewrite Hs. apply fold_left_ext. intros a y. apply IH.
Qed.

Lemma close_seeds_irrel lk lkok1 lkok2 full n seeds :
  (forall q s, lk q = Some s -> is_look s = false) ->
  close_seeds lk lkok1 full n seeds = close_seeds lk lkok2 full n seeds.
Proof.
  intros Hnl. unfold close_seeds. f_equal. apply fold_left_ext. intros a y.
  now apply eclose_irrel.
Qed.

(* ------------------------------------------------------------------ simulation *)
Section Sim.
  Variable lk : nat -> option nstate.
  Variable full : PositiveSet.t.
  Variable n : nat.
  Variable start : nat.
  Variable bs : hay.

  Definition lkok_at (p : nat) : look -> bool := fun k => look_ok k bs p.

  Fixpoint run (p : nat) (S : list nat) (rest : list N) : list nat :=
    match rest with
    | [] => S
    | b :: t => run (Datatypes.S p) (step lk (lkok_at (Datatypes.S p)) full n S b) t
    end.

  Definition init_set : list nat := close_seeds lk (lkok_at 0) full n [start].

  Definition accepts_with : bool := existsb (is_m lk) (run 0 init_set bs).

  (* the set after p bytes *)
  Fixpoint sset (p : nat) : list nat :=
    match p with
    | 0 => init_set
    | S p' => match nth_error bs p' with
              | Some b => step lk (lkok_at (S p')) full n (sset p') b
              | None => []
              end
    end.

  Lemma skipn_cons_nth (l : list N) : forall p b t, skipn p l = b :: t -> nth_error l p = Some b /\ skipn (S p) l = t.
  Proof.
    induction l as [|x l IH]; intros p b t H.
    - destruct p; discriminate.
    - destruct p as [|p].
      + cbn [skipn] in H. inversion H; subst. split; reflexivity.
      + cbn [skipn] in H. destruct (IH p b t H) as [H1 H2]. split; [exact H1|exact H2].
  Qed.

  Lemma run_sset : forall rest p, skipn p bs = rest -> p <= length bs ->
    run p (sset p) rest = sset (length bs).
  Proof.
    induction rest as [|b t IH]; intros p Hs Hp.
    - cbn [run]. assert (Hl : length (skipn p bs) = 0) by (rewrite Hs; reflexivity).
      rewrite skipn_length in Hl. replace (length bs) with p by lia. reflexivity.
    - cbn [run]. destruct (skipn_cons_nth bs p b t Hs) as [Hn Hs'].
      assert (HS : sset (S p) = step lk (lkok_at (S p)) full n (sset p) b) by (cbn [sset]; now rewrite Hn).
      rewrite <- HS. apply IH; [exact Hs'|].
      apply nth_error_Some_lt' in Hn. lia.
  Qed.

  Lemma accepts_with_sset : accepts_with = existsb (is_m lk) (sset (length bs)).
  Proof. unfold accepts_with. change init_set with (sset 0). now rewrite (run_sset bs 0 eq_refl (Nat.le_0_l _)). Qed.
End Sim.

Definition accepts (A : nfa) (bs : list N) : bool :=
  accepts_with (get (mk_map (states A))) (mk_full (nstates A)) (nstates A) (start_anch A) bs.

(* ------------------------------------------------------------------ accepts = nfa_path *)
Section Spec.
  Variable A : nfa.
  Variable bs : hay.
  Let lk := get (mk_map (states A)).
  Let n := nstates A.
  Let full := mk_full n.

  Lemma lk_nth q : lk q = nth_error (states A) q.
  Proof. apply get_mk_map. Qed.

  Lemma lk_none q : n <= q -> lk q = None.
  Proof. intros H. rewrite lk_nth. now apply nth_error_None. Qed.

  Lemma lk_some_lt q s : lk q = Some s -> q < n.
  Proof. rewrite lk_nth. intros H. eapply nth_error_Some_lt'; eauto. Qed.

  (* shape of an edge of the configuration graph *)
  Lemma edge_cases z p x p' : edge A bs (z, p) (x, p') ->
    (p' = p /\ eps1 lk (lkok_at bs p) z x) \/
    (p' = S p /\ exists b s, nth_error bs p = Some b /\ lk z = Some s /\ In x (trans_on s b)).
  Proof.
    intros [st [sl [sl' [Hst Hin]]]]. cbn [fst snd] in *. rewrite <- lk_nth in Hst.
    destruct st as [|lo hi nx|trs|l r|nx|idx isst nx|k nx|]; cbn [succs] in Hin; try (now destruct Hin).
    - destruct (nth_error bs p) as [b|] eqn:Eb; [|now destruct Hin].
      destruct (in_range lo hi b) eqn:Er; [|now destruct Hin]. destruct Hin as [H|[]].
      injection H as Hx Hp _. subst x p'.
      right. split; [reflexivity|]. exists b, (SByteRange lo hi nx). split; [reflexivity|]. split; [exact Hst|].
      cbn [trans_on]. rewrite Er. now left.
    - destruct (nth_error bs p) as [b|] eqn:Eb; [|now destruct Hin].
      destruct (sparse_next trs b) as [nx|] eqn:Er; [|now destruct Hin]. destruct Hin as [H|[]].
      injection H as Hx Hp _. subst x p'.
      right. split; [reflexivity|]. exists b, (SSparse trs). split; [reflexivity|]. split; [exact Hst|].
      cbn [trans_on]. rewrite Er. now left.
    - left. destruct Hin as [H|[H|[]]]; injection H as Hx Hp _; subst x p'; (split; [reflexivity|]);
        exists (SSplit l r); (split; [exact Hst|]); cbn [eps_succs]; [now left|right; now left].
    - left. destruct Hin as [H|[]]. injection H as Hx Hp _. subst x p'. split; [reflexivity|].
      exists (SEpsilon nx). split; [exact Hst|]. now left.
    - left. destruct Hin as [H|[]]. injection H as Hx Hp _. subst x p'. split; [reflexivity|].
      exists (SCapture idx isst nx). split; [exact Hst|]. now left.
    - destruct (look_ok k bs p) eqn:El; [|now destruct Hin]. destruct Hin as [H|[]].
      injection H as Hx Hp _. subst x p'.
      left. split; [reflexivity|]. exists (SLook k nx). split; [exact Hst|].
      cbn [eps_succs]. unfold lkok_at. rewrite El. now left.
  Qed.

  Lemma eps1_edge z p x : eps1 lk (lkok_at bs p) z x -> edge A bs (z, p) (x, p).
  Proof.
    intros [s [Hs Hin]]. rewrite lk_nth in Hs. exists s, [], (match s with SCapture idx st _ => set_nth [] (slot_of idx st) (Z.of_nat p) | _ => [] end).
    split; [exact Hs|]. cbn [fst snd].
    destruct s as [|lo hi nx|trs|l r|nx|idx isst nx|k nx|]; cbn [eps_succs] in Hin; try (now destruct Hin); cbn [succs].
    - destruct Hin as [<-|[<-|[]]]; [now left|right; now left].
    - destruct Hin as [<-|[]]. now left.
    - destruct Hin as [<-|[]]. now left.
    - unfold lkok_at in Hin. destruct (look_ok k bs p); [|now destruct Hin]. destruct Hin as [<-|[]]. now left.
  Qed.

  Lemma trans_edge z p x b s : nth_error bs p = Some b -> lk z = Some s -> In x (trans_on s b) ->
    edge A bs (z, p) (x, S p).
  Proof.
    intros Hb Hs Hin. rewrite lk_nth in Hs. exists s, [], []. split; [exact Hs|]. cbn [fst snd].
    destruct s as [|lo hi nx|trs|l r|nx|idx isst nx|k nx|]; cbn [trans_on] in Hin; try (now destruct Hin); cbn [succs]; rewrite Hb.
    - destruct (in_range lo hi b); [|now destruct Hin]. destruct Hin as [<-|[]]. now left.
    - destruct (sparse_next trs b); [|now destruct Hin]. destruct Hin as [<-|[]]. now left.
  Qed.

  (* right-step view of reach *)
  Inductive reachr (c : nat * nat) : nat * nat -> Prop :=
  | rr_refl : reachr c c
  | rr_step c' c'' : reachr c c' -> edge A bs c' c'' -> reachr c c''.

  Lemma reachr_prepend c c' c'' : edge A bs c c' -> reachr c' c'' -> reachr c c''.
  Proof.
    intros He Hr. induction Hr as [|c1 c2 Hr IH He2].
    - eapply rr_step; [apply rr_refl|exact He].
    - eapply rr_step; [exact IH|exact He2].
  Qed.

  Lemma reach_reachr c c' : reach A bs c c' -> reachr c c'.
  Proof. induction 1 as [c|c c1 c2 He Hr IH]; [apply rr_refl|]. eapply reachr_prepend; eauto. Qed.

  Lemma reachr_reach c c' : reachr c c' -> reach A bs c c'.
  Proof.
    induction 1 as [|c1 c2 Hr IH He]; [apply reach_refl|].
    eapply reach_trans; [exact IH|]. eapply reach_step; [exact He|apply reach_refl].
  Qed.

  Lemma epsr_reach p y x : epsr lk (lkok_at bs p) y x -> reach A bs (y, p) (x, p).
  Proof.
    induction 1 as [|z x Hr IH He]; [apply reach_refl|].
    eapply reach_trans; [exact IH|]. eapply reach_step; [apply eps1_edge; exact He|apply reach_refl].
  Qed.

  Let S_ := sset lk full n (start_anch A) bs.

  Lemma full_mem q : PositiveSet.mem (skey q) full = (q <? n).
  Proof. apply mk_full_mem. Qed.

  Lemma close_spec p seeds x :
    In x (close_seeds lk (lkok_at bs p) full n seeds) <->
    x < n /\ exists y, In y seeds /\ epsr lk (lkok_at bs p) y x.
  Proof. apply close_seeds_spec; [apply full_mem|apply mk_full_card|apply lk_none]. Qed.

  Lemma in_step_targets S b x :
    In x (step_targets lk S b) <-> exists z s, In z S /\ lk z = Some s /\ In x (trans_on s b).
  Proof.
    unfold step_targets. rewrite in_flat_map. split.
    - intros [z [Hz Hx]]. destruct (lk z) as [s|] eqn:E; [|now destruct Hx]. exists z, s. auto.
    - intros [z [s [Hz [Hs Hx]]]]. exists z. split; [exact Hz|]. now rewrite Hs.
  Qed.

  Lemma sset_sound : forall p q, In q (S_ p) -> q < n /\ reach A bs (start_anch A, 0) (q, p).
  Proof.
    induction p as [|p IH]; intros q Hq.
    - cbn [S_ sset] in Hq. unfold init_set in Hq. apply close_spec in Hq.
      destruct Hq as [Hlt [y [[<-|[]] He]]]. split; [exact Hlt|]. now apply epsr_reach.
    - unfold S_ in Hq. cbn [sset] in Hq. destruct (nth_error bs p) as [b|] eqn:Eb; [|now destruct Hq].
      unfold step in Hq. apply close_spec in Hq. destruct Hq as [Hlt [y [Hy He]]].
      split; [exact Hlt|]. apply in_step_targets in Hy. destruct Hy as [z [s [Hz [Hs Hy]]]].
      destruct (IH z Hz) as [_ Hr].
      eapply reach_trans; [exact Hr|]. eapply reach_step; [eapply trans_edge; eauto|].
      now apply epsr_reach.
  Qed.

  Lemma sset_complete_aux : forall c, reachr (start_anch A, 0) c ->
    snd c <= length bs -> fst c < n -> In (fst c) (S_ (snd c)).
  Proof.
    induction 1 as [|[z pz] [x px] Hr IH He]; cbn [fst snd] in *; intros Hp Hx.
    - cbn [S_ sset]. unfold init_set. apply close_spec. split; [exact Hx|].
      exists (start_anch A). split; [now left|apply er_refl].
    - destruct (edge_cases z pz x px He) as [[-> Heps]|[-> [b [s [Hb [Hs Hin]]]]]].
      + assert (Hz : z < n) by (destruct Heps as [s [Hs _]]; eapply lk_some_lt; eauto).
        specialize (IH Hp Hz).
        (* closed under ε *)
        destruct pz as [|pz'].
        * cbn [S_ sset] in *. unfold init_set in *. apply close_spec in IH. apply close_spec.
          destruct IH as [_ [y [Hy Hey]]]. split; [exact Hx|]. exists y. split; [exact Hy|].
          eapply er_step; eauto.
        * unfold S_ in *. cbn [sset] in *. destruct (nth_error bs pz') as [b|]; [|now destruct IH].
          unfold step in *. apply close_spec in IH. apply close_spec.
          destruct IH as [_ [y [Hy Hey]]]. split; [exact Hx|]. exists y. split; [exact Hy|].
          eapply er_step; eauto.
      + assert (Hz : z < n) by (eapply lk_some_lt; eauto).
        assert (Hp' : pz <= length bs) by lia.
        specialize (IH Hp' Hz). unfold S_. cbn [sset]. rewrite Hb. unfold step. apply close_spec.
        split; [exact Hx|]. exists x. split; [|apply er_refl].
        apply in_step_targets. exists z, s. auto.
  Qed.

  Theorem accepts_spec_nowf :
    accepts A bs = true <-> nfa_path A bs (start_anch A) 0 (length bs).
  Proof.
    unfold accepts. rewrite accepts_with_sset. fold lk n full. rewrite existsb_exists. split.
    - intros [q [Hq Hm]]. destruct (sset_sound _ _ Hq) as [_ Hr].
      exists q. split; [exact Hr|]. unfold accepting. cbn [fst]. rewrite <- lk_nth.
      unfold is_m in Hm. destruct (lk q) as [[]|]; try discriminate. reflexivity.
    - intros [q [Hr Ha]]. unfold accepting in Ha. cbn [fst] in Ha. exists q. split.
      + apply reach_reachr in Hr. apply (sset_complete_aux _ Hr); cbn [fst snd]; [lia|].
        eapply nth_error_Some_lt'; eauto.
      + unfold is_m. rewrite lk_nth, Ha. reflexivity.
  Qed.
End Spec.

Theorem accepts_spec A bs : wf_nfa A = true ->
  (accepts A bs = true <-> nfa_path A bs (start_anch A) 0 (length bs)).
Proof. intros _. apply accepts_spec_nowf. Qed.

(* ------------------------------------------------------------------ bounded search over N *)
Definition find_below {T} (n : N) (F : N -> option T) : option T :=
  snd (N.iter n (fun st : N * option T =>
                   (N.succ (fst st), match snd st with Some w => Some w | None => F (fst st) end))
              (0%N, None)).

Lemma find_below_none {T} n (F : N -> option T) :
  find_below n F = None -> forall i, (i < n)%N -> F i = None.
Proof.
  unfold find_below.
  set (f := fun st : N * option T =>
              (N.succ (fst st), match snd st with Some w => Some w | None => F (fst st) end)).
  assert (H : fst (N.iter n f (0%N, None)) = n /\
              (snd (N.iter n f (0%N, None)) = None -> forall i, (i < n)%N -> F i = None)).
  { induction n as [|n IH] using N.peano_ind.
    - cbn. split; [reflexivity|]. intros _ i Hi. lia.
    - rewrite N.iter_succ. destruct IH as [I1 I2].
      assert (Hf : forall st, f st = (N.succ (fst st), match snd st with Some w => Some w | None => F (fst st) end))
        by reflexivity.
      rewrite Hf. cbn [fst snd]. rewrite I1.
      split; [reflexivity|]. intros Hn i Hi.
      destruct (snd (N.iter n f (0%N, None))) eqn:E; [discriminate Hn|].
      destruct (N.eq_dec i n) as [->|Hne]; [exact Hn|]. apply I2; [reflexivity|lia]. }
  intros Hn. apply H. exact Hn.
Qed.

(* conversion must never try to run a search (vm_compute is not affected) *)
Global Opaque find_below.

(* ------------------------------------------------------------------ automata without Look states *)
Definition no_look (A : nfa) : bool := forallb (fun s => negb (is_look s)) (states A).

Lemma no_look_lk A : no_look A = true ->
  forall q s, get (mk_map (states A)) q = Some s -> is_look s = false.
Proof.
  unfold no_look. rewrite forallb_forall. intros H q s Hs. rewrite get_mk_map in Hs.
  apply nth_error_In in Hs. apply H in Hs. now destruct (is_look s).
Qed.

Definition nl : look -> bool := fun _ => false.

Lemma run_nl lk full n bs : (forall q s, lk q = Some s -> is_look s = false) ->
  forall rest p St, run lk full n bs p St rest = fold_left (step lk nl full n) rest St.
Proof.
  intros Hnl. induction rest as [|b t IH]; intros p St; cbn [run fold_left]; [reflexivity|].
  rewrite IH. f_equal. unfold step. now apply close_seeds_irrel.
Qed.

(* ------------------------------------------------------------------ the ε-free machine
   For automata without Look states the ε-closure of every state is computed once.  A set
   is then a list of "useful" states given by their content: (is it Match, its byte
   transitions); a transition is followed by a table lookup of the closure of its target.
   No de-duplication: acceptance only depends on the set of elements (Rep below). *)
Definition fstate := (bool * list (N * N * nat))%type.

Fixpoint fmap_opt {X Y} (f : X -> option Y) (l : list X) : list Y :=
  match l with
  | [] => []
  | x :: t => match f x with Some y => y :: fmap_opt f t | None => fmap_opt f t end
  end.

Lemma in_fmap_opt {X Y} (f : X -> option Y) l y :
  In y (fmap_opt f l) <-> exists x, In x l /\ f x = Some y.
Proof.
  induction l as [|x t IH]; cbn [fmap_opt].
  - split; [intros []|intros [x [[] _]]].
  - destruct (f x) as [y'|] eqn:E.
    + cbn [In]. rewrite IH. split.
      * intros [<-|[x' [H1 H2]]]; [exists x; split; [now left|exact E]|exists x'; split; [now right|exact H2]].
      * intros [x' [[<-|H1] H2]]; [left; congruence|right; exists x'; now split].
    + rewrite IH. split.
      * intros [x' [H1 H2]]. exists x'. split; [now right|exact H2].
      * intros [x' [[<-|H1] H2]]; [congruence|exists x'; now split].
Qed.

Fixpoint mk_tab {X} (f : nat -> X) (k : nat) : PositiveMap.t X :=
  match k with 0 => PositiveMap.empty X | S k' => PositiveMap.add (skey k') (f k') (mk_tab f k') end.

Lemma mk_tab_find {X} (f : nat -> X) k q :
  PositiveMap.find (skey q) (mk_tab f k) = if q <? k then Some (f q) else None.
Proof.
  induction k as [|k IH]; cbn [mk_tab].
  - apply PositiveMap.gempty.
  - destruct (Nat.eq_dec q k) as [->|Hne].
    + rewrite PositiveMap.gss. replace (k <? S k) with true by lia. reflexivity.
    + rewrite PositiveMap.gso by (intros H; apply skey_inj in H; lia). rewrite IH.
      destruct (q <? k) eqn:E1; destruct (q <? S k) eqn:E2; try reflexivity; lia.
Qed.

Definition cl_of (tab : PositiveMap.t (list fstate)) (q : nat) : list fstate :=
  match PositiveMap.find (skey q) tab with Some l => l | None => [] end.

Section Fast.
  Variable lk : nat -> option nstate.
  Variable full : PositiveSet.t.
  Variable n : nat.
  Hypothesis Hfull : forall q, PositiveSet.mem (skey q) full = (q <? n).
  Hypothesis Hcard : PositiveSet.cardinal full <= n.
  Hypothesis Hlk : forall q, n <= q -> lk q = None.

  Definition fs_of (q : nat) : option fstate :=
    match lk q with
    | Some SMatch => Some (true, [])
    | Some (SByteRange lo hi nx) => Some (false, [(lo, hi, nx)])
    | Some (SSparse trs) => Some (false, trs)
    | _ => None
    end.

  Definition fclose (q : nat) : list fstate := fmap_opt fs_of (close_seeds lk nl full n [q]).

  Lemma close_nl_spec seeds x :
    In x (close_seeds lk nl full n seeds) <-> x < n /\ exists y, In y seeds /\ epsr lk nl y x.
  Proof. now apply close_seeds_spec. Qed.

  Lemma epsr_none q x : lk q = None -> epsr lk nl q x -> x = q.
  Proof.
    intros Hq He. induction He as [|z x He IH Hs]; [reflexivity|].
    subst z. destruct Hs as [s [Hs _]]. congruence.
  Qed.

  Lemma fclose_out q : n <= q -> fclose q = [].
  Proof.
    intros Hq. unfold fclose.
    destruct (close_seeds lk nl full n [q]) as [|x t] eqn:E; [reflexivity|].
    assert (Hx : In x (close_seeds lk nl full n [q])) by (rewrite E; now left).
    apply close_nl_spec in Hx. destruct Hx as [Hlt [y [[<-|[]] He]]].
    apply epsr_none in He; [lia|now apply Hlk].
  Qed.

  Definition cl_tab : PositiveMap.t (list fstate) := mk_tab fclose n.

  Lemma cl_tab_ok q : cl_of cl_tab q = fclose q.
  Proof.
    unfold cl_of, cl_tab. rewrite mk_tab_find. destruct (q <? n) eqn:E; [reflexivity|].
    symmetry. apply fclose_out. lia.
  Qed.

  Variable cl : nat -> list fstate.
  Hypothesis cl_ok : forall q, cl q = fclose q.

  Definition fnext (F : list fstate) (b : N) : list fstate :=
    flat_map (fun fs => match sparse_next (snd fs) b with Some nx => cl nx | None => [] end) F.

  Definition facc (F : list fstate) : bool := existsb fst F.

  Definition Rep (S : list nat) (F : list fstate) : Prop :=
    forall fs, In fs F <-> exists q, In q S /\ fs_of q = Some fs.

  Lemma rep_acc S F : Rep S F -> facc F = existsb (is_m lk) S.
  Proof.
    intros HR. apply Bool.eq_iff_eq_true. unfold facc. rewrite !existsb_exists. split.
    - intros [fs [Hin Hf]]. apply HR in Hin. destruct Hin as [q [Hq Hfs]]. exists q. split; [exact Hq|].
      unfold fs_of in Hfs. unfold is_m. destruct (lk q) as [[]|]; try discriminate; try reflexivity;
        inversion Hfs; subst; discriminate.
    - intros [q [Hq Hm]]. exists (true, []). split; [|reflexivity]. apply HR. exists q. split; [exact Hq|].
      unfold is_m in Hm. unfold fs_of. destruct (lk q) as [[]|]; try discriminate. reflexivity.
  Qed.

  Lemma fs_trans q fs b nx : fs_of q = Some fs ->
    (sparse_next (snd fs) b = Some nx <-> exists st, lk q = Some st /\ In nx (trans_on st b)).
  Proof.
    unfold fs_of. intros H. destruct (lk q) as [st|]; [|discriminate].
    destruct st as [|lo hi x|trs|l r|x|idx isst x|k x|]; try discriminate; inversion H; subst; cbn [snd].
    - split; [discriminate|]. intros [st [Hs Hin]]. inversion Hs; subst. destruct Hin.
    - cbn [sparse_next]. split.
      + intros Hn. exists (SByteRange lo hi x). split; [reflexivity|]. cbn [trans_on].
        destruct (in_range lo hi b); [|discriminate]. inversion Hn; subst. now left.
      + intros [st [Hs Hin]]. inversion Hs; subst. cbn [trans_on] in Hin.
        destruct (in_range lo hi b); [|now destruct Hin]. destruct Hin as [<-|[]]. reflexivity.
    - split.
      + intros Hn. exists (SSparse trs). split; [reflexivity|]. cbn [trans_on]. rewrite Hn. now left.
      + intros [st [Hs Hin]]. inversion Hs; subst. cbn [trans_on] in Hin.
        destruct (sparse_next trs b); [|now destruct Hin]. destruct Hin as [<-|[]]. reflexivity.
  Qed.

  Lemma trans_fs q st b nx : lk q = Some st -> In nx (trans_on st b) -> exists fs, fs_of q = Some fs.
  Proof.
    intros Hs Hin. unfold fs_of. rewrite Hs.
    destruct st; cbn [trans_on] in Hin; try (now destruct Hin); eauto.
  Qed.

  Lemma in_step_targets' S b x :
    In x (step_targets lk S b) <-> exists z s, In z S /\ lk z = Some s /\ In x (trans_on s b).
  Proof.
    unfold step_targets. rewrite in_flat_map. split.
    - intros [z [Hz Hx]]. destruct (lk z) as [s|] eqn:E; [|now destruct Hx]. exists z, s. auto.
    - intros [z [s [Hz [Hs Hx]]]]. exists z. split; [exact Hz|]. now rewrite Hs.
  Qed.

  Lemma rep_step S F b : Rep S F -> Rep (step lk nl full n S b) (fnext F b).
  Proof.
    intros HR fs'. unfold fnext. rewrite in_flat_map. split.
    - intros [fs [Hfs Hin]]. apply HR in Hfs. destruct Hfs as [q [Hq Hfq]].
      destruct (sparse_next (snd fs) b) as [nx|] eqn:En; [|now destruct Hin].
      rewrite cl_ok in Hin. unfold fclose in Hin. apply in_fmap_opt in Hin.
      destruct Hin as [x [Hx Hfx]]. exists x. split; [|exact Hfx].
      apply close_nl_spec in Hx. destruct Hx as [Hlt [y [[<-|[]] He]]].
      unfold step. apply close_nl_spec. split; [exact Hlt|]. exists nx. split; [|exact He].
      apply in_step_targets'. apply (fs_trans q fs b nx Hfq) in En. destruct En as [st [Hs Hnx]].
      exists q, st. auto.
    - intros [x [Hx Hfx]]. unfold step in Hx. apply close_nl_spec in Hx.
      destruct Hx as [Hlt [y [Hy He]]]. apply in_step_targets' in Hy. destruct Hy as [q [st [Hq [Hs Hy]]]].
      destruct (trans_fs q st b y Hs Hy) as [fs Hfq]. exists fs. split.
      + apply HR. exists q. now split.
      + assert (En : sparse_next (snd fs) b = Some y) by (apply (fs_trans q fs b y Hfq); exists st; now split).
        rewrite En, cl_ok. unfold fclose. apply in_fmap_opt. exists x. split; [|exact Hfx].
        apply close_nl_spec. split; [exact Hlt|]. exists y. split; [now left|exact He].
  Qed.

  Lemma rep_init q : Rep (close_seeds lk nl full n [q]) (cl q).
  Proof. intros fs. rewrite cl_ok. unfold fclose. apply in_fmap_opt. Qed.

  Lemma rep_fold bs : forall S F, Rep S F ->
    Rep (fold_left (step lk nl full n) bs S) (fold_left fnext bs F).
  Proof.
    induction bs as [|b t IH]; intros S F HR; cbn [fold_left]; [exact HR|].
    apply IH. now apply rep_step.
  Qed.

  (* ---- pruned walk over all live prefixes *)
  Definition fdead (F : list fstate) : bool :=
    forallb (fun fs : fstate => match snd fs with [] => true | _ => false end) F.

  Lemma fnext_nil b : fnext [] b = [].
  Proof. reflexivity. Qed.

  Lemma fold_fnext_nil t : fold_left fnext t [] = [].
  Proof. induction t as [|b t IH]; cbn [fold_left]; [reflexivity|exact IH]. Qed.

  Lemma fdead_next F b : fdead F = true -> fnext F b = [].
  Proof.
    unfold fdead, fnext. induction F as [|fs t IH]; [reflexivity|].
    cbn [forallb flat_map]. intros H. apply andb_prop in H as [H1 H2]. rewrite (IH H2), app_nil_r.
    destruct (snd fs); [reflexivity|discriminate].
  Qed.
End Fast.

Definition is_enc (p : list N) : bool :=
  match decode p with Some (_, w) => w =? length p | None => false end.

Definition all_bytes (bs : list N) : Prop := Forall (fun b => (b < 256)%N) bs.

Fixpoint find_in {X T} (l : list X) (G : X -> option T) : option T :=
  match l with
  | [] => None
  | x :: t => match G x with Some w => Some w | None => find_in t G end
  end.

Lemma find_in_none {X T} (l : list X) (G : X -> option T) :
  find_in l G = None -> forall x, In x l -> G x = None.
Proof.
  induction l as [|y t IH]; cbn [find_in]; intros H x Hx; [destruct Hx|].
  destruct (G y) eqn:E; [discriminate|]. destruct Hx as [<-|Hx]; [exact E|now apply IH].
Qed.

(* all b with lo <= b <= hi *)
Definition find_range {T} (lo hi : N) (G : N -> option T) : option T :=
  find_below (hi + 1 - lo) (fun i => G (lo + i)%N).

Lemma find_range_none {T} lo hi (G : N -> option T) :
  find_range lo hi G = None -> forall b, (lo <= b)%N -> (b <= hi)%N -> G b = None.
Proof.
  unfold find_range. intros H b H1 H2.
  pose proof (find_below_none _ _ H (b - lo)%N) as Hn. cbv beta in Hn.
  replace (lo + (b - lo))%N with b in Hn by lia. apply Hn. lia.
Qed.

Lemma sparse_next_in trs b nx : sparse_next trs b = Some nx ->
  exists lo hi, In (lo, hi, nx) trs /\ in_range lo hi b = true.
Proof.
  induction trs as [|[[lo hi] x] t IH]; cbn [sparse_next]; [discriminate|].
  destruct (in_range lo hi b) eqn:E.
  - intros H. inversion H; subst. exists lo, hi. split; [now left|exact E].
  - intros H. destruct (IH H) as [lo' [hi' [Hin Hr]]]. exists lo', hi'. split; [now right|exact Hr].
Qed.

(* visit every byte of the ranges of L once: a byte already covered by an earlier range is
   skipped *)
Definition in_any (seen : list (N * N)) (b : N) : bool :=
  existsb (fun lh => in_range (fst lh) (snd lh) b) seen.

Fixpoint visit_ranges {T} (seen L : list (N * N)) (G : N -> option T) : option T :=
  match L with
  | [] => None
  | (lo, hi) :: t =>
    match find_range lo hi (fun b => if in_any seen b then None else G b) with
    | Some w => Some w
    | None => visit_ranges ((lo, hi) :: seen) t G
    end
  end.

Lemma visit_ranges_none {T} (G : N -> option T) : forall L seen, visit_ranges seen L G = None ->
  forall b, in_any L b = true -> in_any seen b = false -> G b = None.
Proof.
  induction L as [|[lo hi] t IH]; intros seen H b Hb Hs; cbn [visit_ranges] in H.
  - discriminate.
  - destruct (find_range lo hi (fun b => if in_any seen b then None else G b)) eqn:E; [discriminate|].
    cbn [in_any existsb fst snd] in Hb.
    destruct (in_range lo hi b) eqn:Er.
    + unfold in_range in Er. apply andb_prop in Er as [E1 E2].
      pose proof (find_range_none _ _ _ E b ltac:(lia) ltac:(lia)) as Hn. cbv beta in Hn.
      now rewrite Hs in Hn.
    + cbn [orb] in Hb. apply (IH _ H b Hb). cbn [in_any existsb fst snd]. rewrite Er. exact Hs.
Qed.

Definition ranges_of (F : list fstate) : list (N * N) :=
  flat_map (fun fs : fstate => map (fun tr : N * N * nat => fst tr) (snd fs)) F.

Definition node_bad (p : list N) (F : list fstate) : bool :=
  if facc F then (if 2 <=? length p then negb (is_enc p) else false) else false.

Lemma node_bad_false p F : node_bad p F = false -> facc F = true -> 2 <= length p -> is_enc p = true.
Proof.
  unfold node_bad. intros H Ha Hl. rewrite Ha in H. replace (2 <=? length p) with true in H by lia.
  now apply negb_false_iff in H.
Qed.

Section Walk.
  Variable cl : nat -> list fstate.

  (* Walk the trie of byte strings carrying the state set of the prefix.  Only bytes inside
     a transition range of the set are tried (any other byte leads to the empty set, and
     nothing longer is accepted).  Checked at every accepted prefix of length >= 2: it is
     one well-formed encoding.  Out of fuel (a live prefix longer than 4 bytes) is
     reported with the prefix. *)
  Fixpoint walk (fuel : nat) (p : list N) (F : list fstate) : option (list N) :=
    if node_bad p F then Some p else
    match fuel with
    | 0 => if fdead F then None else Some p
    | S f =>
      visit_ranges [] (ranges_of F) (fun b =>
        match fnext cl F b with
        | [] => None
        | F' => walk f (p ++ [b]) F'
        end)
    end.

  Lemma walk_sound : forall f p F, walk f p F = None ->
    forall ext, facc (fold_left (fnext cl) ext F) = true -> 2 <= length (p ++ ext) ->
      is_enc (p ++ ext) = true.
  Proof.
    induction f as [|f IH]; intros p F H ext Ha Hl; cbn [walk] in H;
      destruct (node_bad p F) eqn:Ec; try discriminate.
    - destruct (fdead F) eqn:Ed; [|discriminate].
      destruct ext as [|b t].
      + rewrite app_nil_r in *. cbn [fold_left] in Ha. now apply (node_bad_false p F).
      + cbn [fold_left] in Ha. rewrite (fdead_next cl F b Ed), fold_fnext_nil in Ha. discriminate.
    - destruct ext as [|b t].
      + rewrite app_nil_r in *. cbn [fold_left] in Ha. now apply (node_bad_false p F).
      + cbn [fold_left] in Ha.
        destruct (fnext cl F b) as [|fs' F'] eqn:Es.
        { rewrite fold_fnext_nil in Ha. discriminate. }
        (* b lies in a transition range of some state of F *)
        assert (Hin : In fs' (fnext cl F b)) by (rewrite Es; now left).
        unfold fnext in Hin. apply in_flat_map in Hin. destruct Hin as [fs [Hfs Hx]].
        destruct (sparse_next (snd fs) b) as [nx|] eqn:En; [|now destruct Hx].
        destruct (sparse_next_in _ _ _ En) as [lo [hi [Htr Hr]]].
        assert (Hany : in_any (ranges_of F) b = true).
        { unfold in_any. apply existsb_exists. exists (lo, hi). split; [|exact Hr].
          unfold ranges_of. apply in_flat_map. exists fs. split; [exact Hfs|].
          apply in_map_iff. exists (lo, hi, nx). split; [reflexivity|exact Htr]. }
        pose proof (visit_ranges_none _ _ _ H b Hany eq_refl) as Hn. cbv beta in Hn.
        rewrite Es in Hn.
        replace (p ++ b :: t) with ((p ++ [b]) ++ t) in * by (rewrite <- app_assoc; reflexivity).
        eapply IH; [exact Hn|exact Ha|exact Hl].
  Qed.
End Walk.

(* acceptance with the tables computed once: under vm_compute `let f := acc_fn A in ...`
   evaluates the state table and the closure table a single time *)
Definition acc_fn (A : nfa) : list N -> bool :=
  let lk := get (mk_map (states A)) in
  let n := nstates A in
  let full := mk_full n in
  if no_look A then
    let cl := cl_of (cl_tab lk full n) in
    let F0 := cl (start_anch A) in
    fun bs => facc (fold_left (fnext cl) bs F0)
  else fun bs => accepts A bs.

Lemma lk_none' A q : nstates A <= q -> get (mk_map (states A)) q = None.
Proof. intros H. rewrite get_mk_map. now apply nth_error_None. Qed.

Lemma acc_fast_ok A bs : no_look A = true ->
  let lk := get (mk_map (states A)) in
  let n := nstates A in
  let full := mk_full n in
  let cl := cl_of (cl_tab lk full n) in
  facc (fold_left (fnext cl) bs (cl (start_anch A))) = accepts A bs.
Proof.
  intros E lk n full cl.
  pose proof (no_look_lk A E) as Hnl. unfold accepts, accepts_with. fold lk n full.
  rewrite (run_nl _ _ _ _ Hnl). unfold init_set.
  rewrite (close_seeds_irrel _ (lkok_at bs 0) nl _ _ _ Hnl).
  assert (Hcl : forall q, cl q = fclose lk full n q).
  { intros q. apply cl_tab_ok; [apply mk_full_mem|apply mk_full_card|apply lk_none']. }
  apply (rep_acc lk).
  apply (rep_fold lk full n (mk_full_mem n) (mk_full_card n) (lk_none' A) cl Hcl).
  apply (rep_init lk full n cl Hcl).
Qed.

Lemma acc_fn_ok A bs : acc_fn A bs = accepts A bs.
Proof.
  unfold acc_fn. destruct (no_look A) eqn:E; [|reflexivity]. cbv zeta. now apply acc_fast_ok.
Qed.

(* ------------------------------------------------------------------ the rune-level view *)
Definition in_ranges (r : N) (ranges : list (N * N)) : bool :=
  existsb (fun lh => (fst lh <=? r)%N && (r <=? snd lh)%N) ranges.

(* regexp on bytes: one rune, decoded as utf8.DecodeRune does, consuming the whole input *)
Definition spec_class_on_bytes (ranges : list (N * N)) (bs : list N) : bool :=
  match decode bs with
  | Some (r, w) => (w =? length bs) && in_ranges r ranges
  | None => false
  end.

Lemma spec_encode ranges r : is_scalar r = true ->
  spec_class_on_bytes ranges (encode r) = in_ranges r ranges.
Proof.
  intros H. unfold spec_class_on_bytes. rewrite (decode_encode_nil r H), Nat.eqb_refl. reflexivity.
Qed.

(* ------------------------------------------------------------------ (i) all code points *)
Definition cp_bad (f : list N -> bool) (ranges : list (N * N)) (r : N) : option (list N) :=
  if is_scalar r then
    let e := encode r in
    if Bool.eqb (f e) (in_ranges r ranges) then None else Some e
  else None.

Definition find_cp_slow (A : nfa) (ranges : list (N * N)) : option (list N) :=
  let f := acc_fn A in find_below 0x110000 (cp_bad f ranges).

(* without Look states: the 64 code points of a page r/64 share all bytes but the last,
   the automaton is run once on the common prefix (Utf8.encode_page) *)
Definition find_pages {T} (g1 : N -> option T) (gp : N -> N -> option T) : option T :=
  match find_below 128 g1 with
  | Some w => Some w
  | None =>
    find_below 0x4400 (fun pg =>
      if (pg <? 2)%N then None else
      if is_scalar (pg * 64)%N then find_below 64 (gp pg) else None)
  end.

Lemma find_pages_none {T} (g1 : N -> option T) gp : find_pages g1 gp = None ->
  (forall r, (r < 128)%N -> g1 r = None) /\
  (forall r, (128 <= r)%N -> (r < 0x110000)%N -> is_scalar r = true -> gp (r / 64)%N (r mod 64)%N = None).
Proof.
  unfold find_pages. intros E.
  destruct (find_below 128 g1) eqn:E1; [discriminate|]. split.
  - intros r Hr. apply (find_below_none _ _ E1 r Hr).
  - intros r H128 Hr Hs.
    assert (Hpg : (r / 64 < 17408)%N) by lia.
    pose proof (find_below_none _ _ E (r / 64)%N Hpg) as Hb. cbv beta in Hb.
    replace (r / 64 <? 2)%N with false in Hb by lia.
    rewrite (scalar_page r H128 Hs) in Hb.
    apply (find_below_none _ _ Hb (r mod 64)%N). lia.
Qed.

Global Opaque find_pages.

Section CpFast.
  Variable cl : nat -> list fstate.
  Variable F0 : list fstate.
  Variable ranges : list (N * N).

  Definition cp_g1 (r : N) : option (list N) :=
    if Bool.eqb (facc (fnext cl F0 r)) (in_ranges r ranges) then None else Some [r].

  Definition cp_gp (pg : N) : N -> option (list N) :=
    let base := (pg * 64)%N in
    let pre := removelast (encode base) in
    let F := fold_left (fnext cl) pre F0 in
    fun lo => if Bool.eqb (facc (fnext cl F (128 + lo)%N)) (in_ranges (base + lo)%N ranges) then None
              else Some (pre ++ [(128 + lo)%N]).

  Definition cp_fast : option (list N) := find_pages cp_g1 cp_gp.

  Lemma cp_fast_sound : cp_fast = None ->
    forall r, (r < 0x110000)%N -> is_scalar r = true ->
      facc (fold_left (fnext cl) (encode r) F0) = in_ranges r ranges.
  Proof.
    intros E r Hr Hs. destruct (find_pages_none _ _ E) as [H1 H2].
    destruct (r <? 128)%N eqn:Er.
    - assert (Hlt : (r < 128)%N) by lia. specialize (H1 r Hlt). unfold cp_g1 in H1.
      destruct (Bool.eqb (facc (fnext cl F0 r)) (in_ranges r ranges)) eqn:Eq; [|discriminate].
      apply eqb_prop in Eq. unfold encode. rewrite Er. exact Eq.
    - assert (H128 : (128 <= r)%N) by lia. specialize (H2 r H128 Hr Hs). unfold cp_gp in H2.
      replace (r / 64 * 64 + r mod 64)%N with r in H2 by lia.
      match type of H2 with (if ?c then _ else _) = _ => destruct c eqn:Eq; [|discriminate] end.
      apply eqb_prop in Eq. rewrite (encode_page r H128 Hs), fold_left_app. exact Eq.
  Qed.
End CpFast.

Definition find_cp_fast (A : nfa) (ranges : list (N * N)) : option (list N) :=
  let lk := get (mk_map (states A)) in
  let n := nstates A in
  let full := mk_full n in
  let cl := cl_of (cl_tab lk full n) in
  cp_fast cl (cl (start_anch A)) ranges.

Definition find_cp (A : nfa) (ranges : list (N * N)) : option (list N) :=
  if no_look A then find_cp_fast A ranges else find_cp_slow A ranges.

Definition sweep_codepoints (A : nfa) (ranges : list (N * N)) : bool :=
  match find_cp A ranges with None => true | Some _ => false end.

Lemma find_cp_slow_sound A ranges : find_cp_slow A ranges = None ->
  forall r, (r < 0x110000)%N -> is_scalar r = true -> accepts A (encode r) = in_ranges r ranges.
Proof.
  unfold find_cp_slow. cbv zeta. intros E r Hr Hs.
  pose proof (find_below_none _ _ E r Hr) as Hb. unfold cp_bad in Hb. rewrite Hs in Hb. cbv zeta in Hb.
  destruct (Bool.eqb (acc_fn A (encode r)) (in_ranges r ranges)) eqn:Eq; [|discriminate].
  apply eqb_prop in Eq. now rewrite <- acc_fn_ok.
Qed.

Lemma find_cp_fast_sound A ranges : no_look A = true -> find_cp_fast A ranges = None ->
  forall r, (r < 0x110000)%N -> is_scalar r = true -> accepts A (encode r) = in_ranges r ranges.
Proof.
  intros Hnl E r Hr Hs. unfold find_cp_fast in E.
  rewrite <- (acc_fast_ok A (encode r) Hnl).
  exact (cp_fast_sound _ _ _ E r Hr Hs).
Qed.

Theorem sweep_codepoints_sound A ranges : sweep_codepoints A ranges = true ->
  forall r, (r < 0x110000)%N -> is_scalar r = true -> accepts A (encode r) = in_ranges r ranges.
Proof.
  unfold sweep_codepoints, find_cp. intros H.
  destruct (no_look A) eqn:Hnl.
  - destruct (find_cp_fast A ranges) eqn:E; [discriminate|]. now apply find_cp_fast_sound.
  - destruct (find_cp_slow A ranges) eqn:E; [discriminate|]. now apply find_cp_slow_sound.
Qed.

Corollary sweep_codepoints_spec A ranges : sweep_codepoints A ranges = true ->
  forall r, (r < 0x110000)%N -> is_scalar r = true ->
    accepts A (encode r) = spec_class_on_bytes ranges (encode r).
Proof. intros H r Hr Hs. rewrite spec_encode by exact Hs. now apply sweep_codepoints_sound. Qed.

(* ------------------------------------------------------------------ (ii) all short byte strings *)
Definition short_bad (f : list N -> bool) (ranges : list (N * N)) (bs : list N) : option (list N) :=
  if Bool.eqb (f bs) (spec_class_on_bytes ranges bs) then None else Some bs.

(* every extension of p by at most k bytes, no pruning: 256^k strings *)
Fixpoint find_ext (f : list N -> bool) (ranges : list (N * N)) (k : nat) (p : list N) : option (list N) :=
  match short_bad f ranges p with
  | Some w => Some w
  | None =>
    match k with
    | 0 => None
    | S k' => find_below 256 (fun b => find_ext f ranges k' (p ++ [b]))
    end
  end.

Lemma find_ext_none f ranges : forall k p, find_ext f ranges k p = None ->
  forall ext, length ext <= k -> all_bytes ext -> f (p ++ ext) = spec_class_on_bytes ranges (p ++ ext).
Proof.
  induction k as [|k IH]; intros p H ext Hl Hb; cbn [find_ext] in H;
    destruct (short_bad f ranges p) eqn:Es; try discriminate;
    unfold short_bad in Es;
    destruct (Bool.eqb (f p) (spec_class_on_bytes ranges p)) eqn:Eq; try discriminate;
    apply eqb_prop in Eq.
  - destruct ext; [|cbn in Hl; lia]. now rewrite app_nil_r.
  - destruct ext as [|b t]; [now rewrite app_nil_r|].
    inversion Hb as [|? ? Hb1 Hb2]; subst.
    pose proof (find_below_none _ _ H b Hb1) as Hn. cbv beta in Hn.
    replace (p ++ b :: t) with ((p ++ [b]) ++ t) by (rewrite <- app_assoc; reflexivity).
    apply IH; [exact Hn| cbn in Hl; lia | exact Hb2].
Qed.

Definition find_short (A : nfa) (ranges : list (N * N)) (k : nat) : option (list N) :=
  let f := acc_fn A in find_ext f ranges k [].

Definition sweep_short (A : nfa) (ranges : list (N * N)) (k : nat) : bool :=
  match find_short A ranges k with None => true | Some _ => false end.

Theorem sweep_short_sound A ranges k : sweep_short A ranges k = true ->
  forall bs, length bs <= k -> all_bytes bs -> accepts A bs = spec_class_on_bytes ranges bs.
Proof.
  unfold sweep_short, find_short. cbv zeta. intros H bs Hl Hb.
  destruct (find_ext (acc_fn A) ranges k []) eqn:E; [discriminate|].
  rewrite <- acc_fn_ok. apply (find_ext_none _ _ _ _ E bs Hl Hb).
Qed.

(* ------------------------------------------------------------------ (iii) pruned walk over all live prefixes *)
Definition find_trie (A : nfa) : option (list N) :=
  let lk := get (mk_map (states A)) in
  let n := nstates A in
  let full := mk_full n in
  let cl := cl_of (cl_tab lk full n) in
  walk cl 5 [] (cl (start_anch A)).

Lemma find_trie_sound A : no_look A = true -> find_trie A = None ->
  forall bs, all_bytes bs -> accepts A bs = true -> 2 <= length bs -> is_enc bs = true.
Proof.
  intros Hnl H bs Hb Ha Hl. unfold find_trie in H. cbv zeta in H.
  apply (walk_sound _ _ _ _ H bs); [|exact Hl].
  rewrite <- (acc_fast_ok A bs Hnl) in Ha. exact Ha.
Qed.

(* ------------------------------------------------------------------ the regenerated obligation *)
(* a witness byte string on which the automaton and the rune-level view differ (a witness
   of length 5 from the walk is a live prefix: the automaton may accept something longer
   than any encoding) *)
Definition first_failure (A : nfa) (ranges : list (N * N)) : option (list N) :=
  match find_short A ranges 1 with
  | Some w => Some w
  | None =>
    match find_cp A ranges with
    | Some w => Some w
    | None => find_trie A
    end
  end.

(* the three searches separately (single bytes; code points; everything else accepted), so
   that a known failure of one phase does not hide a new failure of another *)
Definition phase_failures (A : nfa) (ranges : list (N * N)) : list (option (list N)) :=
  [find_short A ranges 1; find_cp A ranges; find_trie A].

(* wf_nfa is not demanded: none of the theorems needs it, and the compiler legitimately
   leaves dangling InvalidState targets on the states of an empty class (compileNoMatch) *)
Definition class_check (A : nfa) (ranges : list (N * N)) : bool :=
  no_look A && match first_failure A ranges with None => true | Some _ => false end.

Lemma scalar_lt r : is_scalar r = true -> (r < 0x110000)%N.
Proof. unfold is_scalar. lia. Qed.

(* the two languages agree on every byte string, of any length *)
Theorem class_check_sound A ranges : class_check A ranges = true ->
  forall bs, all_bytes bs -> accepts A bs = spec_class_on_bytes ranges bs.
Proof.
  unfold class_check, first_failure. intros H bs Hb.
  apply andb_prop in H as [Hnl Hff].
  destruct (find_short A ranges 1) eqn:E1; [discriminate|].
  destruct (find_cp A ranges) eqn:E2; [discriminate|].
  destruct (find_trie A) eqn:E3; [discriminate|]. clear Hff.
  assert (H1 : sweep_short A ranges 1 = true) by (unfold sweep_short; now rewrite E1).
  assert (H2 : sweep_codepoints A ranges = true) by (unfold sweep_codepoints; now rewrite E2).
  destruct (le_lt_dec (length bs) 1) as [Hl|Hl].
  { now apply (sweep_short_sound A ranges 1 H1). }
  destruct (accepts A bs) eqn:Ea.
  - pose proof (find_trie_sound A Hnl E3 bs Hb Ea Hl) as He. unfold is_enc in He.
    destruct (decode bs) as [[r w]|] eqn:Ed; [|discriminate]. apply Nat.eqb_eq in He. subst w.
    destruct (decode_whole_multibyte bs r Hl Ed) as [Hbs Hs].
    pose proof (sweep_codepoints_sound A ranges H2 r (scalar_lt r Hs) Hs) as Hc.
    rewrite <- Hbs, Ea in Hc. unfold spec_class_on_bytes. rewrite Ed, Nat.eqb_refl, <- Hc. reflexivity.
  - unfold spec_class_on_bytes. destruct (decode bs) as [[r w]|] eqn:Ed; [|reflexivity].
    destruct (w =? length bs) eqn:Ew; [|reflexivity]. apply Nat.eqb_eq in Ew. subst w. cbn [andb].
    destruct (decode_whole_multibyte bs r Hl Ed) as [Hbs Hs].
    pose proof (sweep_codepoints_sound A ranges H2 r (scalar_lt r Hs) Hs) as Hc.
    rewrite <- Hbs, Ea in Hc. exact Hc.
Qed.

(* with accepts_spec: the statement about paths of the automaton *)
Corollary class_check_paths A ranges : class_check A ranges = true ->
  forall bs, all_bytes bs ->
    (nfa_path A bs (start_anch A) 0 (length bs) <-> spec_class_on_bytes ranges bs = true).
Proof.
  intros H bs Hb. rewrite <- accepts_spec_nowf. now rewrite (class_check_sound A ranges H bs Hb).
Qed.

(* ------------------------------------------------------------------ the range splitter
   nfa/compile.go: compileUTF8Range splits [lo, hi] by encoded length and hands each part
   to compileUTF8{1,2,3,4}ByteRange; each produces alternatives "lead byte range, then
   continuation byte ranges".  Modelled here: the 1-, 2- and 4-byte splitters (the 3-byte
   splitter, with its per-lead and per-continuation enumeration, is not modelled). *)
Definition bseq := list (N * N).
Fixpoint in_seq (bs : list N) (s : bseq) : bool :=
  match bs, s with
  | [], [] => true
  | b :: bt, (lo, hi) :: st => in_range lo hi b && in_seq bt st
  | _, _ => false
  end.
Definition in_seqs (bs : list N) (ss : list bseq) : bool := existsb (in_seq bs) ss.

(* nfa/compile.go: compileUTF81ByteRange *)
Definition seqs1 (lo hi : N) : list bseq := [[(lo, hi)]].

(* nfa/compile.go: compileUTF82ByteRange *)
Definition seqs2 (lo hi : N) : list bseq :=
  let loLead := (192 + lo / 64)%N in let loCont := (128 + lo mod 64)%N in
  let hiLead := (192 + hi / 64)%N in let hiCont := (128 + hi mod 64)%N in
  if (loLead =? hiLead)%N then [[(loLead, loLead); (loCont, hiCont)]]
  else [[(loLead, loLead); (loCont, 191%N)]] ++
       (if (loLead + 1 <? hiLead)%N then [[((loLead + 1)%N, (hiLead - 1)%N); (128%N, 191%N)]] else []) ++
       [[(hiLead, hiLead); (128%N, hiCont)]].

Theorem utf8_range1_correct lo hi : (lo <= hi)%N -> (hi <= 0x7F)%N ->
  forall bs, in_seqs bs (seqs1 lo hi) = true <-> exists r, (lo <= r <= hi)%N /\ bs = encode r.
Proof.
  intros H1 H2 bs. unfold seqs1, in_seqs. cbn [existsb]. split.
  - destruct bs as [|b [|b' t]]; cbn [in_seq]; unfold in_range; intros H; try lia.
    exists b. split; [lia|]. unfold encode. replace (b <? 128)%N with true by lia. reflexivity.
  - intros [r [Hr ->]]. unfold encode. replace (r <? 128)%N with true by lia. cbn [in_seq]. unfold in_range. lia.
Qed.

Theorem utf8_range2_correct lo hi : (0x80 <= lo)%N -> (lo <= hi)%N -> (hi <= 0x7FF)%N ->
  forall bs, in_seqs bs (seqs2 lo hi) = true <-> exists r, (lo <= r <= hi)%N /\ bs = encode r.
Proof.
  intros H0 H1 H2 bs. split.
  - destruct bs as [|b0 [|b1 [|b2 t]]].
    + unfold seqs2, in_seqs. cbv zeta.
      destruct (192 + lo / 64 =? 192 + hi / 64)%N; [cbn; discriminate|].
      destruct (192 + lo / 64 + 1 <? 192 + hi / 64)%N; cbn; discriminate.
    + unfold seqs2, in_seqs. cbv zeta.
      destruct (192 + lo / 64 =? 192 + hi / 64)%N; [cbn [existsb in_seq]; rewrite ?andb_false_r; discriminate|].
      destruct (192 + lo / 64 + 1 <? 192 + hi / 64)%N; cbn [app existsb in_seq]; rewrite ?andb_false_r; discriminate.
    + intros H. exists ((b0 - 192) * 64 + (b1 - 128))%N.
      unfold seqs2, in_seqs in H. cbv zeta in H. rewrite encode_arith.
      destruct (192 + lo / 64 =? 192 + hi / 64)%N eqn:E1.
      * cbn [existsb in_seq] in H. unfold in_range in H.
        assert (Hb : (192 <= b0 <= 223 /\ 128 <= b1 <= 191)%N) by lia.
        split; [lia|].
        replace ((b0 - 192) * 64 + (b1 - 128) <? 128)%N with false by lia.
        replace ((b0 - 192) * 64 + (b1 - 128) <? 2048)%N with true by lia.
        f_equal; [lia|f_equal; lia].
      * destruct (192 + lo / 64 + 1 <? 192 + hi / 64)%N eqn:E2; cbn [app existsb in_seq] in H; unfold in_range in H.
        all: assert (Hb : (192 <= b0 <= 223 /\ 128 <= b1 <= 191)%N) by lia.
        all: split; [lia|].
        all: replace ((b0 - 192) * 64 + (b1 - 128) <? 128)%N with false by lia;
             replace ((b0 - 192) * 64 + (b1 - 128) <? 2048)%N with true by lia.
        all: f_equal; [lia|f_equal; lia].
    + unfold seqs2, in_seqs. cbv zeta.
      destruct (192 + lo / 64 =? 192 + hi / 64)%N; [cbn [existsb in_seq]; rewrite ?andb_false_r; discriminate|].
      destruct (192 + lo / 64 + 1 <? 192 + hi / 64)%N; cbn [app existsb in_seq]; rewrite ?andb_false_r; discriminate.
  - intros [r [Hr ->]]. rewrite encode_arith.
    replace (r <? 128)%N with false by lia. replace (r <? 2048)%N with true by lia.
    unfold seqs2, in_seqs. cbv zeta.
    destruct (192 + lo / 64 =? 192 + hi / 64)%N eqn:E1.
    + cbn [existsb in_seq]. unfold in_range. lia.
    + destruct (192 + lo / 64 + 1 <? 192 + hi / 64)%N eqn:E2; cbn [app existsb in_seq]; unfold in_range; lia.
Qed.

(* nfa/compile.go: compileUTF84ByteRange — one sequence per lead byte; below the lead byte
   the bounds lo and hi are ignored ("conservative approach") *)
Definition seqs4 (lo hi : N) : list bseq :=
  let hi := N.min hi 0x10FFFF in
  let lo := N.max lo 0x10000 in
  if (hi <? lo)%N then [] else
  let loLead := (240 + lo / 262144)%N in
  let hiLead := (240 + hi / 262144)%N in
  map (fun i => let lead := (loLead + N.of_nat i)%N in
                [(lead, lead);
                 ((if (lead =? 240)%N then 144 else 128)%N, (if (lead =? 244)%N then 143 else 191)%N);
                 (128%N, 191%N); (128%N, 191%N)])
      (seq 0 (N.to_nat (hiLead + 1 - loLead))).

(* the faithful model of the 4-byte splitter accepts encodings of runes outside [lo, hi]:
   compiled for the single rune U+1F600 it accepts F0 90 80 80 = U+10000 *)
Theorem utf8_range4_refuted : exists lo hi bs,
  (0x10000 <= lo)%N /\ (lo <= hi)%N /\ (hi <= 0x10FFFF)%N /\
  in_seqs bs (seqs4 lo hi) = true /\ ~ exists r, (lo <= r <= hi)%N /\ bs = encode r.
Proof.
  exists 0x1F600%N, 0x1F600%N, [240; 144; 128; 128]%N.
  split; [lia|]. split; [lia|]. split; [lia|]. split; [vm_compute; reflexivity|].
  intros [r [Hr He]]. assert (r = 0x1F600%N) by lia. subst r. vm_compute in He. discriminate.
Qed.

(* ------------------------------------------------------------------ case checker
   (correspondence run: the automaton dumped from the Go compiler with the rune ranges of
   the syntax node it was compiled from) *)
Record case := mkCase { c_id : N; c_nfa : nfa; c_ranges : list (N * N) }.

Definition check_case (c : case) : bool := class_check (c_nfa c) (c_ranges c).

Definition mismatches (cs : list case) : list N :=
  map c_id (filter (fun c => negb (check_case c)) cs).

(* (id, verdict, witness), the witness search evaluated once *)
Definition run_case (c : case) : N * bool * option (list N) :=
  let w := first_failure (c_nfa c) (c_ranges c) in
  (c_id c, no_look (c_nfa c) && match w with None => true | Some _ => false end, w).

Definition run_cases (cs : list case) : list (N * bool * option (list N)) := map run_case cs.

Definition failing (R : list (N * bool * option (list N))) : list N :=
  map (fun x => fst (fst x)) (filter (fun x => negb (snd (fst x))) R).

Lemma run_case_verdict c : snd (fst (run_case c)) = check_case c.
Proof. reflexivity. Qed.

Lemma failing_mismatches cs : failing (run_cases cs) = mismatches cs.
Proof.
  unfold failing, run_cases, mismatches. induction cs as [|c t IH]; [reflexivity|].
  cbn [map filter]. rewrite run_case_verdict.
  destruct (check_case c); cbn [negb map]; [exact IH|]. f_equal. exact IH.
Qed.
