(* ======================================================================== *)
(*  Teddy.v -- property C16: prefilters never skip a match, and "complete"  *)
(*  prefilters are exact.                                                    *)
(*                                                                          *)
(*  Go sources modelled (coregx/coregex, package prefilter):                *)
(*    teddy.go, teddy_fat.go        slim / fat Teddy (scalar code; the      *)
(*                                  assembly candidate finder is a Section  *)
(*                                  hypothesis with a stated contract)      *)
(*    prefilter.go                  memchr / memmem wrappers                *)
(*    wrap.go                       WrapIncomplete, WrapLineAnchor          *)
(*    tracker.go                    Tracker                                 *)
(*    digit.go                      DigitPrefilter                          *)
(*  Not modelled: *.s, ahocorasick.go (another module; tied by the harness).*)
(* ======================================================================== *)
Require Import List NArith ZArith Lia Bool Arith.
Require Import ZifyBool ZifyNat ZifyN.
Import ListNotations.

(* ------------------------------------------------------------------------ *)
(** * 1. Specification: [pf_find]                                            *)
(* ------------------------------------------------------------------------ *)

(* bytes.Equal(h[i:i+len(l)], l) && i+len(l) <= len(h)  ==  is_prefix l (skipn i h) *)
Fixpoint is_prefix (l t : list N) : bool :=
  match l, t with
  | [], _ => true
  | a :: l', b :: t' => (a =? b)%N && is_prefix l' t'
  | _ :: _, [] => false
  end.

Definition prefix (l t : list N) : Prop := exists r, t = l ++ r.

Lemma is_prefix_iff : forall l t, is_prefix l t = true <-> prefix l t.
Proof.
  induction l as [|a l IH]; intros t; cbn [is_prefix].
  - split; [intros _; exists t; reflexivity | reflexivity].
  - destruct t as [|b t].
    + split; [discriminate | intros [r Hr]; discriminate].
    + rewrite andb_true_iff, N.eqb_eq, IH. split.
      * intros [-> [r ->]]. exists r. reflexivity.
      * intros [r Hr]. cbn in Hr. injection Hr as -> ->. split; [reflexivity | exists r; reflexivity].
Qed.

Lemma is_prefix_length : forall l t, is_prefix l t = true -> length l <= length t.
Proof.
  intros l t H. apply is_prefix_iff in H. destruct H as [r ->].
  rewrite app_length. lia.
Qed.

Lemma is_prefix_nth : forall l t k, is_prefix l t = true -> k < length l -> nth k t 0%N = nth k l 0%N.
Proof.
  intros l t k H Hk. apply is_prefix_iff in H. destruct H as [r ->].
  rewrite app_nth1; auto.
Qed.

(* some literal of L occurs in h at position i *)
Definition occurs_at (L : list (list N)) (h : list N) (i : nat) : bool :=
  existsb (fun l => is_prefix l (skipn i h)) L.

Lemma occurs_at_iff : forall L h i,
  occurs_at L h i = true <-> exists l, In l L /\ prefix l (skipn i h).
Proof.
  intros L h i. unfold occurs_at. rewrite existsb_exists.
  split; intros [l [Hin Hp]]; exists l; split; auto; apply is_prefix_iff; auto.
Qed.

(* upward scan: the least i in [i0, i0+fuel) with P i *)
Fixpoint scan_from (P : nat -> bool) (i fuel : nat) : option nat :=
  match fuel with
  | 0 => None
  | S f => if P i then Some i else scan_from P (S i) f
  end.

Lemma scan_from_some : forall P fuel i r,
  scan_from P i fuel = Some r ->
  i <= r < i + fuel /\ P r = true /\ forall j, i <= j < r -> P j = false.
Proof.
  induction fuel as [|f IH]; intros i r H; cbn [scan_from] in H; [discriminate|].
  destruct (P i) eqn:HP.
  - injection H as <-. split; [lia|]. split; [auto|]. intros j Hj; lia.
  - apply IH in H. destruct H as [Hr [HPr Hmin]]. split; [lia|]. split; [auto|].
    intros j Hj. destruct (Nat.eq_dec j i) as [->|Hne]; auto. apply Hmin; lia.
Qed.

Lemma scan_from_none : forall P fuel i,
  scan_from P i fuel = None -> forall j, i <= j < i + fuel -> P j = false.
Proof.
  induction fuel as [|f IH]; intros i H j Hj; [lia|].
  cbn [scan_from] in H. destruct (P i) eqn:HP; [discriminate|].
  destruct (Nat.eq_dec j i) as [->|Hne]; auto. apply (IH (S i)); auto; lia.
Qed.

Lemma scan_from_is_some : forall P fuel i r,
  i <= r < i + fuel -> P r = true -> (forall j, i <= j < r -> P j = false) ->
  scan_from P i fuel = Some r.
Proof.
  induction fuel as [|f IH]; intros i r Hr HP Hmin; [lia|].
  cbn [scan_from]. destruct (Nat.eq_dec r i) as [->|Hne].
  - rewrite HP. reflexivity.
  - rewrite (Hmin i) by lia. apply IH; auto; try lia. intros j Hj; apply Hmin; lia.
Qed.

Lemma scan_from_is_none : forall P fuel i,
  (forall j, i <= j < i + fuel -> P j = false) -> scan_from P i fuel = None.
Proof.
  induction fuel as [|f IH]; intros i H; [reflexivity|].
  cbn [scan_from]. rewrite (H i) by lia. apply IH. intros j Hj; apply H; lia.
Qed.

(* [pf_find L h s]: least i >= s (i <= length h) at which a literal of L occurs. *)
Definition pf_find (L : list (list N)) (h : list N) (s : nat) : option nat :=
  scan_from (occurs_at L h) s (S (length h) - s).

Definition is_min_occ (L : list (list N)) (h : list N) (s i : nat) : Prop :=
  s <= i <= length h /\ occurs_at L h i = true /\
  forall j, s <= j < i -> occurs_at L h j = false.

Theorem pf_find_spec : forall L h s,
  (forall i, pf_find L h s = Some i <-> is_min_occ L h s i) /\
  (pf_find L h s = None <-> forall i, s <= i <= length h -> occurs_at L h i = false).
Proof.
  intros L h s. unfold pf_find, is_min_occ. split.
  - intros i. split.
    + intros H. apply scan_from_some in H. destruct H as [Hr [HP Hmin]].
      repeat split; auto; lia.
    + intros [Hr [HP Hmin]]. apply scan_from_is_some; auto. lia.
  - split.
    + intros H i Hi. apply (scan_from_none _ _ _ H). lia.
    + intros H. apply scan_from_is_none. intros j Hj. apply H. lia.
Qed.

Lemma pf_find_some_intro : forall L h s i, is_min_occ L h s i -> pf_find L h s = Some i.
Proof. intros L h s i H. apply (proj1 (pf_find_spec L h s) i). exact H. Qed.

Lemma pf_find_none_intro : forall L h s,
  (forall i, s <= i <= length h -> occurs_at L h i = false) -> pf_find L h s = None.
Proof. intros L h s H. apply (proj2 (pf_find_spec L h s)). exact H. Qed.

(* no occurrence in [s, s') : the search may restart at s' *)
Lemma pf_find_skip : forall L h s s',
  s <= s' -> (forall j, s <= j < s' -> occurs_at L h j = false) ->
  pf_find L h s = pf_find L h s'.
Proof.
  intros L h s s' Hle Hno.
  destruct (pf_find L h s') as [i|] eqn:E.
  - apply (proj1 (pf_find_spec L h s') _) in E. destruct E as [Hr [HP Hmin]].
    apply pf_find_some_intro. repeat split; auto; try lia.
    intros j Hj. destruct (Nat.lt_ge_cases j s'); [apply Hno | apply Hmin]; lia.
  - apply pf_find_none_intro. intros i Hi.
    destruct (Nat.lt_ge_cases i s'); [apply Hno; lia|].
    apply (proj1 (proj2 (pf_find_spec L h s')) E). lia.
Qed.

Lemma skipn_skipn_add : forall (A : Type) (a b : nat) (l : list A),
  skipn a (skipn b l) = skipn (b + a) l.
Proof.
  intros A a b. revert a. induction b as [|b IH]; intros a l; [reflexivity|].
  destruct l as [|x l]; cbn [skipn Nat.add].
  - now rewrite skipn_nil.
  - apply IH.
Qed.

Lemma occurs_at_skipn : forall L h s i, occurs_at L (skipn s h) i = occurs_at L h (s + i).
Proof. intros. unfold occurs_at. now rewrite skipn_skipn_add. Qed.

(* searching h from s  ==  searching h[s:] from 0, shifted (Go: haystack = haystack[start:]) *)
Lemma pf_find_shift : forall L h s, s <= length h ->
  pf_find L h s = option_map (Nat.add s) (pf_find L (skipn s h) 0).
Proof.
  intros L h s Hs.
  destruct (pf_find L (skipn s h) 0) as [i|] eqn:E; cbn [option_map].
  - apply (proj1 (pf_find_spec _ _ _) _) in E. destruct E as [Hr [HP Hmin]].
    rewrite skipn_length in Hr. rewrite occurs_at_skipn in HP.
    apply pf_find_some_intro. repeat split; auto; try lia.
    intros j Hj. replace j with (s + (j - s)) by lia. rewrite <- occurs_at_skipn.
    apply Hmin. lia.
  - apply pf_find_none_intro. intros i Hi.
    replace i with (s + (i - s)) by lia. rewrite <- occurs_at_skipn.
    apply (proj1 (proj2 (pf_find_spec L (skipn s h) 0)) E). rewrite skipn_length. lia.
Qed.

(* with non-empty literals nothing occurs at (or beyond) the end *)
Definition nonempty (L : list (list N)) : Prop := forall l, In l L -> l <> [].

Lemma occurs_at_end : forall L h i, nonempty L -> length h <= i -> occurs_at L h i = false.
Proof.
  intros L h i Hne Hi. destruct (occurs_at L h i) eqn:E; auto.
  apply occurs_at_iff in E. destruct E as [l [Hin [r Hr]]].
  rewrite skipn_all2 in Hr by lia. destruct l; [exfalso; eapply Hne; eauto | discriminate].
Qed.

(* Remark on the corner cases of the specification.
   - Empty literal set: [pf_find [] h s = None]; the Go builder returns no prefilter
     at all (prefilter.go:selectPrefilter, seq.IsEmpty()).
   - Empty literal: it occurs at every i <= length h, so [pf_find L h s = Some s] for
     s <= length h.  Every Go implementation starts with
     [if start < 0 || start >= len(haystack) { return -1 }], so it answers -1 for
     s = length h; NewTeddy rejects such a set with the default configuration
     (teddy.go:202, MinPatternLen = 3) and selectPrefilter needs minLen >= 3 for
     multi-literal sets (prefilter.go:286).  The theorems below therefore carry the
     hypothesis [nonempty L]. *)

(* ------------------------------------------------------------------------ *)
(** * 2. Model of Teddy (slim: teddy.go, fat: teddy_fat.go)                  *)
(* ------------------------------------------------------------------------ *)

Definition nib_lo (b : N) : N := N.land b 15.                (* b & 0x0F        *)
Definition nib_hi (b : N) : N := N.land (N.shiftr b 4) 15.   (* (b >> 4) & 0x0F *)

(* teddyMasks / fatTeddyMasks: fingerprintLen, loMasks[4][32], hiMasks[4][32] *)
Record masks := { fplen : nat; lo : list (list N); hi : list (list N) }.

(* loMasks[pos][idx], 0 when out of range (Go would panic; never happens for idx<32) *)
Definition tbl (m : list (list N)) (pos : nat) (idx : N) : N :=
  nth (N.to_nat idx) (nth pos m []) 0%N.

(* Teddy / FatTeddy value: patterns, masks, buckets; [fat] selects teddy_fat.go.
   minLen is recomputed by [min_len] exactly as NewTeddy does. *)
Record teddy := { pats : list (list N); tm : masks; bkts : list (list nat); fat : bool }.

(* teddy.go:NewTeddy lines 200-208 (minLen := len(patterns[0]); for ... if len(p) < minLen) *)
Definition min_len (ps : list (list N)) : nat :=
  match ps with
  | [] => 0
  | p :: r => fold_left (fun m q => if length q <? m then length q else m) r (length p)
  end.

(* teddy.go:findScalarCandidate, inner loop over fingerprint positions for one lane:
   candidateMask &= loMasks[pos][off+lo] & hiMasks[pos][off+hi]   (off = 0, or 16 for
   the high lane of fat Teddy). *)
Fixpoint cand_lane (M : masks) (off : N) (pos n : nat) (w : list N) (acc : N) : N :=
  match n, w with
  | S n', b :: w' =>
      cand_lane M off (S pos) n' w'
        (N.land acc (N.land (tbl (lo M) pos (off + nib_lo b)) (tbl (hi M) pos (off + nib_hi b))))
  | _, _ => acc
  end.

(* candidate mask of the window starting at the head of [w] (w has >= fplen bytes).
   slim: teddy.go:findScalarCandidate (byte(0xFF) start value);
   fat : teddy_fat.go:findScalarCandidate (combined = lo | hi << 8). *)
Definition cmask (T : teddy) (w : list N) : N :=
  if fat T
  then N.lor (cand_lane (tm T) 0 0 (fplen (tm T)) w 255)
             (N.shiftl (cand_lane (tm T) 16 0 (fplen (tm T)) w 255) 8)
  else cand_lane (tm T) 0 0 (fplen (tm T)) w 255.

Definition nbk (T : teddy) : nat := if fat T then 16 else 8.

(* teddy.go:findScalarCandidate outer loop: for i := 0; i+fpLen <= len(haystack); i++ *)
Fixpoint find_scalar_candidate (T : teddy) (hs : list N) (i : nat) {struct hs} : option (nat * N) :=
  if fplen (tm T) <=? length hs then
    let m := cmask T hs in
    if negb (m =? 0)%N then Some (i, m)
    else match hs with
         | [] => None
         | _ :: hs' => find_scalar_candidate T hs' (S i)
         end
  else None.

(* Contract of findSIMD (teddy_ssse3_amd64.go:findSIMD, teddy_fat_amd64.go:findSIMD;
   the assembly itself is not modelled).

   Exact form: the first window whose candidate mask is non-zero, together with that full
   mask; -1 (None) when there is none.  The pure Go finder and (as observed by the
   harness) the SSSE3 slim kernels meet it. *)
Definition cand_contract_exact (T : teddy) (cand : list N -> option (nat * N)) : Prop :=
  forall hs,
    match cand hs with
    | Some (p, m) =>
        p + fplen (tm T) <= length hs /\ m = cmask T (skipn p hs) /\ m <> 0%N /\
        forall q, q < p -> cmask T (skipn q hs) = 0%N
    | None => forall q, q + fplen (tm T) <= length hs -> cmask T (skipn q hs) = 0%N
    end.

(* Weak form, which is all that Find needs: the finder may report spurious candidates and
   spurious bucket bits (the fat AVX2 kernel does: it starts with prev0 = 0xFF, so the
   window "before" the slice start matches every bucket -- teddy_avx2_amd64.s:70), but it
   never steps over a window with a non-zero mask and never drops a bucket bit of the
   window it reports. *)
Definition cand_contract (T : teddy) (cand : list N -> option (nat * N)) : Prop :=
  forall hs,
    match cand hs with
    | Some (p, m) =>
        (forall b, N.testbit (cmask T (skipn p hs)) b = true -> N.testbit m b = true) /\
        (forall q, q < p -> q + fplen (tm T) <= length hs -> cmask T (skipn q hs) = 0%N)
    | None => forall q, q + fplen (tm T) <= length hs -> cmask T (skipn q hs) = 0%N
    end.

Lemma cand_contract_exact_weak : forall T cand, cand_contract_exact T cand -> cand_contract T cand.
Proof.
  intros T cand H hs. specialize (H hs). destruct (cand hs) as [[p m]|]; auto.
  destruct H as [_ [-> [_ Hmin]]]. split; auto.
Qed.

(* teddy.go:verifyBucket, loop over t.buckets[bucket]: first pattern id of the bucket
   whose pattern is a prefix of [t].  A pattern id outside the table would panic in Go;
   [masks_ok] excludes it. *)
Fixpoint verify_ids (ps : list (list N)) (ids : list nat) (t : list N) : option nat :=
  match ids with
  | [] => None
  | pid :: r =>
      match nth_error ps pid with
      | Some p => if is_prefix p t then Some pid else verify_ids ps r t
      | None => verify_ids ps r t
      end
  end.

(* teddy.go:verifyBucket (pos >= len(haystack) -> -1; bucket < len(t.buckets)) *)
Definition verify_bucket (T : teddy) (hs : list N) (pos b : nat) : option nat :=
  if length hs <=? pos then None
  else verify_ids (pats T) (nth b (bkts T) []) (skipn pos hs).

(* teddy.go:Find, inner loop "for bucketMask != 0 { bucket := TrailingZeros8(mask);
   mask &^= 1<<bucket; verifyBucket }": set bits are visited in ascending order. *)
Fixpoint verify_mask (T : teddy) (hs : list N) (pos : nat) (m : N) (b n : nat) : option nat :=
  match n with
  | 0 => None
  | S n' =>
      if N.testbit m (N.of_nat b) then
        match verify_bucket T hs pos b with
        | Some pid => Some pid
        | None => verify_mask T hs pos m (S b) n'
        end
      else verify_mask T hs pos m (S b) n'
  end.

(* first pattern, in pattern order, that is a prefix of [t]
   (teddy.go:findScalar inner loop "for _, pattern := range t.patterns") *)
Fixpoint first_match (ps : list (list N)) (t : list N) (pid : nat) : option nat :=
  match ps with
  | [] => None
  | p :: r => if is_prefix p t then Some pid else first_match r t (S pid)
  end.

(* teddy.go:findScalar / findMatchScalar: for i := 0; i < len(haystack)-minLen+1; i++ *)
Fixpoint scalar_loop (ps : list (list N)) (hs : list N) (i fuel : nat) : option (nat * nat) :=
  match fuel with
  | 0 => None
  | S f =>
      match first_match ps (skipn i hs) 0 with
      | Some pid => Some (i, pid)
      | None => scalar_loop ps hs (S i) f
      end
  end.

Section WithCandidateFinder.

  (* findSIMD: a parameter of the model *)
  Variable cand : list N -> option (nat * N).

  (* teddy.go:Find / FindMatch main loop (identical in teddy_fat.go).  [h0] is
     haystack[start:], [acc] is accumulatedOffset.  Result: None = out of fuel,
     Some None = -1, Some (Some (p, pid)) = match of pattern pid at h0[p:]. *)
  Fixpoint simd_loop (T : teddy) (fuel : nat) (h0 : list N) (acc : nat)
    : option (option (nat * nat)) :=
    match fuel with
    | 0 => None
    | S f =>
        let hs := skipn acc h0 in
        match cand hs with
        | None => Some None
        | Some (pos, m) =>
            match verify_mask T hs pos m 0 (nbk T) with
            | Some pid => Some (Some (acc + pos, pid))
            | None =>
                let next := acc + pos + 1 in
                if length h0 <=? next then Some None else simd_loop T f h0 next
            end
        end
    end.

  Definition shift (s : nat) (r : option (nat * nat)) : option (nat * nat) :=
    match r with Some (p, pid) => Some (s + p, pid) | None => None end.

  (* teddy.go:Find / FindMatch dispatch: bounds check, haystack[start:], < 16 -> scalar *)
  Definition teddy_search (T : teddy) (h : list N) (s : nat) : option (option (nat * nat)) :=
    if length h <=? s then Some None
    else
      let h0 := skipn s h in
      if length h0 <? 16
      then Some (shift s (scalar_loop (pats T) h0 0 (S (length h0) - min_len (pats T))))
      else option_map (shift s) (simd_loop T (S (length h0)) h0 0).

  (* Teddy.Find: position only (out of fuel mapped to None; excluded by
     [teddy_search_fuel_ok]) *)
  Definition teddy_find (T : teddy) (h : list N) (s : nat) : option nat :=
    match teddy_search T h s with
    | Some (Some (p, _)) => Some p
    | _ => None
    end.

  (* Teddy.FindMatch, THE ORIGINAL CODE BEFORE FIX d598647: first hit in bucket order;
     (start, start + len(patterns[patternID])).  Kept to document why the fix is needed. *)
  Definition teddy_findmatch_bucket_order (T : teddy) (h : list N) (s : nat) : option (nat * nat) :=
    match teddy_search T h s with
    | Some (Some (p, pid)) => Some (p, p + length (nth pid (pats T) []))
    | _ => None
    end.

End WithCandidateFinder.

(* The model with the pure-Go candidate finder plugged in (what runs without SSSE3 /
   AVX2 and on non-amd64: teddy_fallback.go). *)
Definition scalar_cand (T : teddy) (hs : list N) : option (nat * N) := find_scalar_candidate T hs 0.
Definition teddy_find_scalar T := teddy_find (scalar_cand T) T.
Definition teddy_findmatch_bucket_order_scalar T := teddy_findmatch_bucket_order (scalar_cand T) T.

(* ---- FindMatch after fix d598647 ("FindMatch must report the lowest pattern ID among all
   candidate buckets").  [teddy_findmatch_bucket_order] above is THE ORIGINAL CODE, BEFORE
   FIX d598647: it returned the first bucket hit; it is kept, with its refutation, to
   document why the fix is needed.  Find itself is unchanged by the fix. ---- *)

(* if bestID < 0 || patternID < bestID { bestID = patternID } *)
Definition better (best : option nat) (pid : nat) : option nat :=
  match best with
  | None => Some pid
  | Some q => if pid <? q then Some pid else Some q
  end.

(* teddy.go:FindMatch (repaired), inner loop: all set buckets are verified, the lowest
   pattern id among the hits is kept *)
Fixpoint verify_mask_min (T : teddy) (hs : list N) (pos : nat) (m : N) (b n : nat)
                         (best : option nat) : option nat :=
  match n with
  | 0 => best
  | S n' =>
      if N.testbit m (N.of_nat b) then
        match verify_bucket T hs pos b with
        | Some pid => verify_mask_min T hs pos m (S b) n' (better best pid)
        | None => verify_mask_min T hs pos m (S b) n' best
        end
      else verify_mask_min T hs pos m (S b) n' best
  end.

Section WithCandidateFinderRepaired.
  Variable cand : list N -> option (nat * N).

  (* teddy.go:FindMatch / teddy_fat.go:FindMatch main loop after the fix *)
  Fixpoint simd_loop_min (T : teddy) (fuel : nat) (h0 : list N) (acc : nat)
    : option (option (nat * nat)) :=
    match fuel with
    | 0 => None
    | S f =>
        let hs := skipn acc h0 in
        match cand hs with
        | None => Some None
        | Some (pos, m) =>
            match verify_mask_min T hs pos m 0 (nbk T) None with
            | Some pid => Some (Some (acc + pos, pid))
            | None =>
                let next := acc + pos + 1 in
                if length h0 <=? next then Some None else simd_loop_min T f h0 next
            end
        end
    end.

  (* FindMatch dispatch (unchanged by the fix): bounds check, haystack[start:], < 16 ->
     findMatchScalar *)
  Definition teddy_search_min (T : teddy) (h : list N) (s : nat) : option (option (nat * nat)) :=
    if length h <=? s then Some None
    else
      let h0 := skipn s h in
      if length h0 <? 16
      then Some (shift s (scalar_loop (pats T) h0 0 (S (length h0) - min_len (pats T))))
      else option_map (shift s) (simd_loop_min T (S (length h0)) h0 0).

  (* Teddy.FindMatch / FatTeddy.FindMatch, repaired code *)
  Definition teddy_findmatch (T : teddy) (h : list N) (s : nat) : option (nat * nat) :=
    match teddy_search_min T h s with
    | Some (Some (p, pid)) => Some (p, p + length (nth pid (pats T) []))
    | _ => None
    end.
End WithCandidateFinderRepaired.

Definition teddy_findmatch_scalar T := teddy_findmatch (scalar_cand T) T.

(* ids ascending inside every bucket: what buildMasks guarantees (ids are appended in
   increasing order, teddy.go:288) and what the repaired FindMatch relies on ("IDs are
   ascending within a bucket").  Checked on the dumped buckets. *)
Fixpoint ascending (l : list nat) : bool :=
  match l with
  | [] => true
  | x :: r => match r with [] => true | y :: _ => (x <? y) && ascending r end
  end.

Definition buckets_sorted (T : teddy) : bool := forallb ascending (bkts T).

(* ------------------------------------------------------------------------ *)
(** * 3. The certified checker [masks_ok] (kind: artifact check)             *)
(* ------------------------------------------------------------------------ *)

(* bit of bucket [b] in table entry [m][pos][nibble] (slim: one lane; fat: buckets
   8..15 live in entries 16..31 with bit b-8) *)
Definition ent_bit (isfat : bool) (m : list (list N)) (pos : nat) (nib : N) (b : nat) : bool :=
  if b <? 8 then N.testbit (tbl m pos nib) (N.of_nat b)
  else isfat && (b <? 16) && N.testbit (tbl m pos (16 + nib)) (N.of_nat (b - 8)).

(* pattern [p] of bucket [b]: long enough for the fingerprint and its bucket bit is set
   in both nibble tables at every fingerprint position *)
Definition pat_ok (T : teddy) (b : nat) (p : list N) : bool :=
  (fplen (tm T) <=? length p) &&
  forallb (fun k => ent_bit (fat T) (lo (tm T)) k (nib_lo (nth k p 0%N)) b &&
                    ent_bit (fat T) (hi (tm T)) k (nib_hi (nth k p 0%N)) b)
          (seq 0 (fplen (tm T))).

Definition bucket_ok (T : teddy) (b : nat) (ids : list nat) : bool :=
  forallb (fun pid => match nth_error (pats T) pid with
                      | Some p => pat_ok T b p
                      | None => false
                      end) ids.

Fixpoint buckets_ok (T : teddy) (b : nat) (bs : list (list nat)) : bool :=
  match bs with
  | [] => true
  | ids :: r => bucket_ok T b ids && buckets_ok T (S b) r
  end.

(* every pattern id is in some bucket *)
Definition covered (T : teddy) : bool :=
  forallb (fun pid => existsb (fun ids => existsb (Nat.eqb pid) ids) (bkts T))
          (seq 0 (length (pats T))).

Definition masks_ok (T : teddy) : bool :=
  (length (bkts T) <=? nbk T) && buckets_ok T 0 (bkts T) && covered T.

(* ------------------------------------------------------------------------ *)
(** * 4. Soundness of the checker: no false negatives                        *)
(* ------------------------------------------------------------------------ *)

Lemma testbit_255 : forall b, b < 8 -> N.testbit 255 (N.of_nat b) = true.
Proof.
  intros b Hb. do 8 (destruct b as [|b]; [reflexivity|]). lia.
Qed.

Lemma cand_lane_bit : forall M off n w pos acc (c : N),
  n <= length w ->
  N.testbit acc c = true ->
  (forall k, k < n ->
     N.testbit (tbl (lo M) (pos + k) (off + nib_lo (nth k w 0%N))) c = true /\
     N.testbit (tbl (hi M) (pos + k) (off + nib_hi (nth k w 0%N))) c = true) ->
  N.testbit (cand_lane M off pos n w acc) c = true.
Proof.
  intros M off. induction n as [|n IH]; intros w pos acc c Hlen Hacc Hk; cbn [cand_lane]; auto.
  destruct w as [|b w]; [cbn in Hlen; lia|].
  apply IH.
  - cbn in Hlen; lia.
  - rewrite !N.land_spec, Hacc.
    destruct (Hk 0) as [H1 H2]; [lia|]. rewrite Nat.add_0_r in H1, H2. cbn [nth] in H1, H2.
    now rewrite H1, H2.
  - intros k Hlt. destruct (Hk (S k)) as [H1 H2]; [lia|]. cbn [nth] in H1, H2.
    rewrite Nat.add_succ_r in H1, H2. auto.
Qed.

(* if all table entries of a window carry the bit of bucket b, the candidate mask does *)
Lemma cmask_bit : forall T w b,
  fplen (tm T) <= length w ->
  b < nbk T ->
  (forall k, k < fplen (tm T) ->
     ent_bit (fat T) (lo (tm T)) k (nib_lo (nth k w 0%N)) b = true /\
     ent_bit (fat T) (hi (tm T)) k (nib_hi (nth k w 0%N)) b = true) ->
  N.testbit (cmask T w) (N.of_nat b) = true.
Proof.
  intros T w b Hlen Hb Hent. unfold cmask, nbk, ent_bit in *.
  destruct (b <? 8) eqn:Hb8.
  - apply Nat.ltb_lt in Hb8.
    assert (Hlane : N.testbit (cand_lane (tm T) 0 0 (fplen (tm T)) w 255) (N.of_nat b) = true).
    { apply cand_lane_bit; auto using testbit_255. }
    destruct (fat T); auto. rewrite N.lor_spec, Hlane. reflexivity.
  - apply Nat.ltb_ge in Hb8. destruct (fat T) eqn:Hfat.
    + rewrite N.lor_spec, N.shiftl_spec_high' by lia.
      replace (N.of_nat b - 8)%N with (N.of_nat (b - 8)) by lia.
      rewrite (cand_lane_bit (tm T) 16 (fplen (tm T)) w 0 255 (N.of_nat (b - 8))); auto using orb_true_r.
      * apply testbit_255. lia.
      * intros k Hk. destruct (Hent k Hk) as [H1 H2].
        rewrite !andb_true_iff in H1, H2. cbn [Nat.add]. tauto.
    + lia.
Qed.

Lemma buckets_ok_nth : forall T bs b0 b ids,
  buckets_ok T b0 bs = true -> nth_error bs b = Some ids -> bucket_ok T (b0 + b) ids = true.
Proof.
  intros T. induction bs as [|x bs IH]; intros b0 b ids H Hn.
  - destruct b; discriminate.
  - cbn [buckets_ok] in H. apply andb_true_iff in H. destruct H as [H1 H2].
    destruct b as [|b]; cbn [nth_error] in Hn.
    + injection Hn as <-. now rewrite Nat.add_0_r.
    + rewrite Nat.add_succ_r. apply (IH (S b0)); auto.
Qed.

(* what masks_ok gives for each pattern: a bucket that lists it and carries its bit *)
Lemma masks_ok_pattern : forall T pid p,
  masks_ok T = true -> nth_error (pats T) pid = Some p ->
  exists b, b < nbk T /\ In pid (nth b (bkts T) []) /\ pat_ok T b p = true.
Proof.
  intros T pid p Hok Hp. unfold masks_ok in Hok.
  rewrite !andb_true_iff in Hok. destruct Hok as [[Hnb Hbs] Hcov].
  apply Nat.leb_le in Hnb.
  unfold covered in Hcov. rewrite forallb_forall in Hcov.
  assert (Hpid : pid < length (pats T)) by (apply nth_error_Some; congruence).
  specialize (Hcov pid). rewrite existsb_exists in Hcov.
  destruct Hcov as [ids [Hin Hex]]; [apply in_seq; lia|].
  rewrite existsb_exists in Hex. destruct Hex as [pid' [Hin' Heq]].
  apply Nat.eqb_eq in Heq. subst pid'.
  apply In_nth_error in Hin. destruct Hin as [b Hb].
  assert (Hblt : b < length (bkts T)) by (apply nth_error_Some; congruence).
  exists b. split; [lia|]. split.
  - rewrite (nth_error_nth _ _ _ Hb). exact Hin'.
  - pose proof (buckets_ok_nth T (bkts T) 0 b ids Hbs Hb) as Hbk. cbn [Nat.add] in Hbk.
    unfold bucket_ok in Hbk. rewrite forallb_forall in Hbk. specialize (Hbk pid Hin').
    now rewrite Hp in Hbk.
Qed.

Lemma pat_ok_bit : forall T b p w,
  b < nbk T -> pat_ok T b p = true -> is_prefix p w = true ->
  N.testbit (cmask T w) (N.of_nat b) = true.
Proof.
  intros T b p w Hb Hok Hpre. unfold pat_ok in Hok. apply andb_true_iff in Hok.
  destruct Hok as [Hfp Hall]. apply Nat.leb_le in Hfp.
  pose proof (is_prefix_length _ _ Hpre) as Hlen.
  apply cmask_bit; auto; try lia.
  intros k Hk. rewrite forallb_forall in Hall.
  specialize (Hall k). rewrite andb_true_iff in Hall.
  rewrite (is_prefix_nth _ _ _ Hpre) by lia. apply Hall. apply in_seq. lia.
Qed.

(* SOUNDNESS OF THE CHECKER.  For masks that pass [masks_ok]: whenever pattern number
   pid occurs in h at i, the candidate mask of the window at i has the bit of a bucket
   that lists pid ("enough bytes for the fingerprint" follows from fplen <= |l|, which
   masks_ok checks and NewTeddy guarantees, teddy.go:211-214). *)
Theorem masks_ok_sound : forall T pid l h i,
  masks_ok T = true ->
  nth_error (pats T) pid = Some l ->
  prefix l (skipn i h) ->
  exists b, b < nbk T /\ In pid (nth b (bkts T) []) /\
            N.testbit (cmask T (skipn i h)) (N.of_nat b) = true.
Proof.
  intros T pid l h i Hok Hl Hpre. apply is_prefix_iff in Hpre.
  destruct (masks_ok_pattern T pid l Hok Hl) as [b [Hb [Hin Hpok]]].
  exists b. repeat split; auto. eapply pat_ok_bit; eauto.
Qed.

(* the fingerprint window of an occurrence lies inside the haystack *)
Lemma masks_ok_fits : forall T l h i,
  masks_ok T = true -> In l (pats T) -> l <> [] -> prefix l (skipn i h) ->
  i + fplen (tm T) <= length h.
Proof.
  intros T l h i Hok Hin Hne Hpre. apply is_prefix_iff in Hpre.
  apply In_nth_error in Hin. destruct Hin as [pid Hpid].
  destruct (masks_ok_pattern T pid l Hok Hpid) as [b [Hb [_ Hpok]]].
  pose proof (is_prefix_length _ _ Hpre) as Hlen. rewrite skipn_length in Hlen.
  unfold pat_ok in Hpok. apply andb_true_iff in Hpok. destruct Hpok as [Hfp _].
  apply Nat.leb_le in Hfp.
  destruct l as [|x l]; [congruence|]. cbn [length] in *. lia.
Qed.

Theorem teddy_no_false_negative : forall T l h i,
  masks_ok T = true -> In l (pats T) -> prefix l (skipn i h) ->
  cmask T (skipn i h) <> 0%N.
Proof.
  intros T l h i Hok Hin Hpre. apply In_nth_error in Hin. destruct Hin as [pid Hpid].
  destruct (masks_ok_sound T pid l h i Hok Hpid Hpre) as [b [_ [_ Hbit]]].
  intros H0. rewrite H0 in Hbit. now rewrite N.bits_0 in Hbit.
Qed.

(* ------------------------------------------------------------------------ *)
(** * 5. Find returns the minimum occurrence                                  *)
(* ------------------------------------------------------------------------ *)

Lemma cmask_zero_no_occ : forall T h i,
  masks_ok T = true -> cmask T (skipn i h) = 0%N -> occurs_at (pats T) h i = false.
Proof.
  intros T h i Hok H0. destruct (occurs_at (pats T) h i) eqn:E; auto.
  apply occurs_at_iff in E. destruct E as [l [Hin Hpre]].
  exfalso. eapply teddy_no_false_negative; eauto.
Qed.

(* the pure-Go candidate finder meets the contract of findSIMD *)
Lemma find_scalar_candidate_spec : forall T hs i,
  match find_scalar_candidate T hs i with
  | Some (p, m) => exists q, p = i + q /\ q + fplen (tm T) <= length hs /\
                   m = cmask T (skipn q hs) /\ m <> 0%N /\
                   forall q', q' < q -> cmask T (skipn q' hs) = 0%N
  | None => forall q, q + fplen (tm T) <= length hs -> cmask T (skipn q hs) = 0%N
  end.
Proof.
  intros T. induction hs as [|b hs IH]; intros i.
  - cbn [find_scalar_candidate]. destruct (fplen (tm T) <=? length (@nil N)) eqn:Hfp.
    + apply Nat.leb_le in Hfp. destruct (cmask T [] =? 0)%N eqn:Hm; cbn [negb].
      * apply N.eqb_eq in Hm. intros q Hq. cbn [length] in *.
        replace q with 0 by lia. exact Hm.
      * apply N.eqb_neq in Hm. exists 0. repeat split; auto; try lia.
    + apply Nat.leb_gt in Hfp. intros q Hq. lia.
  - cbn [find_scalar_candidate]. destruct (fplen (tm T) <=? length (b :: hs)) eqn:Hfp.
    + apply Nat.leb_le in Hfp. destruct (cmask T (b :: hs) =? 0)%N eqn:Hm; cbn [negb].
      * apply N.eqb_eq in Hm. specialize (IH (S i)).
        destruct (find_scalar_candidate T hs (S i)) as [[p m]|].
        -- destruct IH as [q [Hp [Hq [Hmq [Hnz Hmin]]]]].
           exists (S q). cbn [skipn length]. repeat split; auto; try lia.
           intros q' Hq'. destruct q' as [|q']; [exact Hm|]. cbn [skipn]. apply Hmin. lia.
        -- intros q Hq. destruct q as [|q]; [exact Hm|]. cbn [skipn]. apply IH.
           cbn [length] in Hq. lia.
      * apply N.eqb_neq in Hm. exists 0. cbn [skipn]. repeat split; auto; try lia.
    + apply Nat.leb_gt in Hfp. intros q Hq. lia.
Qed.

Theorem scalar_cand_contract_exact : forall T, cand_contract_exact T (scalar_cand T).
Proof.
  intros T hs. unfold scalar_cand.
  pose proof (find_scalar_candidate_spec T hs 0) as H.
  destruct (find_scalar_candidate T hs 0) as [[p m]|]; auto.
  destruct H as [q [Hp [Hq [Hm [Hnz Hmin]]]]]. cbn [Nat.add] in Hp. subst q. auto.
Qed.

Theorem scalar_cand_contract : forall T, cand_contract T (scalar_cand T).
Proof. intros T. apply cand_contract_exact_weak, scalar_cand_contract_exact. Qed.

Lemma verify_ids_some : forall ps ids t pid,
  verify_ids ps ids t = Some pid ->
  In pid ids /\ exists p, nth_error ps pid = Some p /\ is_prefix p t = true.
Proof.
  intros ps. induction ids as [|x ids IH]; intros t pid H; cbn [verify_ids] in H; [discriminate|].
  destruct (nth_error ps x) as [p|] eqn:Hx.
  - destruct (is_prefix p t) eqn:Hp.
    + injection H as <-. split; [now left|]. exists p. auto.
    + apply IH in H. destruct H as [Hin Hex]. split; [now right | auto].
  - apply IH in H. destruct H as [Hin Hex]. split; [now right | auto].
Qed.

Lemma verify_ids_none : forall ps ids t,
  verify_ids ps ids t = None ->
  forall pid p, In pid ids -> nth_error ps pid = Some p -> is_prefix p t = false.
Proof.
  intros ps. induction ids as [|x ids IH]; intros t H pid p Hin Hp; [destruct Hin|].
  cbn [verify_ids] in H. destruct Hin as [->|Hin].
  - rewrite Hp in H. destruct (is_prefix p t); [discriminate | reflexivity].
  - destruct (nth_error ps x) as [p'|].
    + destruct (is_prefix p' t); [discriminate|]. eapply IH; eauto.
    + eapply IH; eauto.
Qed.

Lemma verify_mask_some : forall T hs pos m n b pid,
  verify_mask T hs pos m b n = Some pid ->
  pos < length hs /\ exists b', b <= b' < b + n /\ N.testbit m (N.of_nat b') = true /\
    verify_bucket T hs pos b' = Some pid /\
    forall b'', b <= b'' < b' -> N.testbit m (N.of_nat b'') = true ->
                verify_bucket T hs pos b'' = None.
Proof.
  intros T hs pos m. induction n as [|n IH]; intros b pid H; cbn [verify_mask] in H; [discriminate|].
  destruct (N.testbit m (N.of_nat b)) eqn:Hbit.
  - destruct (verify_bucket T hs pos b) as [pid'|] eqn:Hv.
    + injection H as <-. split.
      * unfold verify_bucket in Hv. destruct (length hs <=? pos) eqn:Hl; [discriminate|].
        apply Nat.leb_gt in Hl. exact Hl.
      * exists b. split; [lia|]. split; [auto|]. split; [auto|]. intros b'' Hb''; lia.
    + apply IH in H. destruct H as [Hpos [b' [Hb' [Hbit' [Hv' Hprev]]]]].
      split; auto. exists b'. split; [lia|]. split; [auto|]. split; [auto|].
      intros b'' Hb'' Hbit''. destruct (Nat.eq_dec b'' b) as [->|Hne]; auto.
      apply Hprev; auto. lia.
  - apply IH in H. destruct H as [Hpos [b' [Hb' [Hbit' [Hv' Hprev]]]]].
    split; auto. exists b'. split; [lia|]. split; [auto|]. split; [auto|].
    intros b'' Hb'' Hbit''. destruct (Nat.eq_dec b'' b) as [->|Hne]; [congruence|].
    apply Hprev; auto. lia.
Qed.

Lemma verify_mask_none : forall T hs pos m n b,
  verify_mask T hs pos m b n = None ->
  forall b', b <= b' < b + n -> N.testbit m (N.of_nat b') = true ->
             verify_bucket T hs pos b' = None.
Proof.
  intros T hs pos m. induction n as [|n IH]; intros b H b' Hb' Hbit; [lia|].
  cbn [verify_mask] in H. destruct (Nat.eq_dec b' b) as [->|Hne].
  - rewrite Hbit in H. destruct (verify_bucket T hs pos b); [discriminate | reflexivity].
  - destruct (N.testbit m (N.of_nat b)).
    + destruct (verify_bucket T hs pos b); [discriminate|]. apply (IH (S b)); auto. lia.
    + apply (IH (S b)); auto. lia.
Qed.

(* a successful verification reports a pattern that occurs there *)
Lemma verify_mask_occurs : forall T hs pos m pid,
  verify_mask T hs pos m 0 (nbk T) = Some pid ->
  pos < length hs /\ exists l, nth_error (pats T) pid = Some l /\ is_prefix l (skipn pos hs) = true.
Proof.
  intros T hs pos m pid H. apply verify_mask_some in H.
  destruct H as [Hpos [b' [_ [_ [Hv _]]]]]. split; auto.
  unfold verify_bucket in Hv. destruct (length hs <=? pos); [discriminate|].
  apply verify_ids_some in Hv. tauto.
Qed.

(* a failed verification of (a superset of) the candidate mask means nothing occurs there *)
Lemma verify_mask_fail_no_occ : forall T hs pos m,
  masks_ok T = true -> pos < length hs ->
  (forall b, N.testbit (cmask T (skipn pos hs)) b = true -> N.testbit m b = true) ->
  verify_mask T hs pos m 0 (nbk T) = None ->
  occurs_at (pats T) hs pos = false.
Proof.
  intros T hs pos m Hok Hpos Hsup Hv. destruct (occurs_at (pats T) hs pos) eqn:E; auto.
  apply occurs_at_iff in E. destruct E as [l [Hin Hpre]].
  apply In_nth_error in Hin. destruct Hin as [pid Hpid].
  destruct (masks_ok_sound T pid l hs pos Hok Hpid Hpre) as [b [Hb [Hinb Hbit]]].
  pose proof (verify_mask_none T hs pos _ (nbk T) 0 Hv b) as Hnone.
  cbn [Nat.add] in Hnone. specialize (Hnone (conj (Nat.le_0_l b) Hb) (Hsup _ Hbit)).
  unfold verify_bucket in Hnone. apply Nat.leb_gt in Hpos. rewrite Hpos in Hnone.
  apply is_prefix_iff in Hpre.
  rewrite (verify_ids_none _ _ _ Hnone pid l Hinb Hpid) in Hpre. discriminate.
Qed.

Definition reports_occurrence (ps : list (list N)) (h : list N) (r : option (nat * nat)) : Prop :=
  forall p pid, r = Some (p, pid) ->
    exists l, nth_error ps pid = Some l /\ is_prefix l (skipn p h) = true.

Section FindCorrect.
  Variable cand : list N -> option (nat * N).
  Variable T : teddy.
  Hypothesis Hok : masks_ok T = true.
  Hypothesis Hne : nonempty (pats T).
  Hypothesis Hcand : cand_contract T cand.

  Lemma simd_loop_correct : forall fuel h0 acc,
    length h0 - acc < fuel -> acc <= length h0 ->
    exists r, simd_loop cand T fuel h0 acc = Some r /\
              option_map fst r = pf_find (pats T) h0 acc /\
              reports_occurrence (pats T) h0 r.
  Proof.
    induction fuel as [|f IH]; intros h0 acc Hfuel Hacc; [lia|].
    cbn [simd_loop]. set (hs := skipn acc h0).
    assert (Hlen : length hs = length h0 - acc) by (unfold hs; apply skipn_length).
    pose proof (Hcand hs) as Hc.
    destruct (cand hs) as [[pos m]|].
    - destruct Hc as [Hsup Hmin].
      assert (Hbefore : forall j, acc <= j < acc + pos -> occurs_at (pats T) h0 j = false).
      { intros j Hj. replace j with (acc + (j - acc)) by lia. rewrite <- occurs_at_skipn.
        fold hs. destruct (occurs_at (pats T) hs (j - acc)) eqn:E; auto.
        apply occurs_at_iff in E. destruct E as [l [Hin Hpre]].
        assert (Hfit : (j - acc) + fplen (tm T) <= length hs) by (eapply masks_ok_fits; eauto).
        exfalso. eapply teddy_no_false_negative; eauto. apply Hmin; auto. lia. }
      destruct (verify_mask T hs pos m 0 (nbk T)) as [pid|] eqn:Hv.
      + exists (Some (acc + pos, pid)). split; [reflexivity|].
        apply verify_mask_occurs in Hv. destruct Hv as [Hpos [l [Hl Hpre]]].
        unfold hs in Hpre. rewrite skipn_skipn_add in Hpre.
        split.
        * cbn [option_map fst]. symmetry. apply pf_find_some_intro.
          split; [lia|]. split; auto.
          apply occurs_at_iff. exists l. split; [eapply nth_error_In; eauto|].
          now apply is_prefix_iff.
        * intros p pid' E. injection E as <- <-. exists l. auto.
      + assert (Hat : occurs_at (pats T) h0 (acc + pos) = false).
        { destruct (Nat.lt_ge_cases pos (length hs)) as [Hlt|Hge].
          - rewrite <- occurs_at_skipn. eapply verify_mask_fail_no_occ; eauto.
          - apply occurs_at_end; auto. lia. }
        assert (Hskip : pf_find (pats T) h0 acc = pf_find (pats T) h0 (acc + pos + 1)).
        { apply pf_find_skip; [lia|]. intros j Hj.
          destruct (Nat.eq_dec j (acc + pos)) as [->|Hneq]; auto. apply Hbefore. lia. }
        destruct (length h0 <=? acc + pos + 1) eqn:Hend.
        * apply Nat.leb_le in Hend. exists None. split; [reflexivity|]. split.
          -- cbn [option_map]. rewrite Hskip. symmetry. apply pf_find_none_intro.
             intros i Hi. apply occurs_at_end; auto. lia.
          -- intros p pid E. discriminate.
        * apply Nat.leb_gt in Hend.
          destruct (IH h0 (acc + pos + 1)) as [r [Hr [Hfst Hrep]]]; try lia.
          exists r. rewrite Hskip. auto.
    - exists None. split; [reflexivity|]. split.
      + cbn [option_map]. symmetry. apply pf_find_none_intro. intros i Hi.
        replace i with (acc + (i - acc)) by lia. rewrite <- occurs_at_skipn. fold hs.
        destruct (occurs_at (pats T) hs (i - acc)) eqn:E; auto.
        apply occurs_at_iff in E. destruct E as [l [Hin Hpre]].
        assert (Hfit : (i - acc) + fplen (tm T) <= length hs).
        { eapply masks_ok_fits; eauto. }
        exfalso. eapply teddy_no_false_negative; eauto.
      + intros p pid E. discriminate.
  Qed.

End FindCorrect.

(* ---- the < 16 byte scalar path (teddy.go:findScalar / findMatchScalar) ---- *)

Lemma first_match_none_iff : forall ps t k,
  first_match ps t k = None <-> existsb (fun l => is_prefix l t) ps = false.
Proof.
  induction ps as [|p ps IH]; intros t k; cbn [first_match existsb]; [tauto|].
  destruct (is_prefix p t); cbn [orb]; [split; discriminate | apply IH].
Qed.

Lemma first_match_some : forall ps t k pid,
  first_match ps t k = Some pid ->
  k <= pid /\ exists l, nth_error ps (pid - k) = Some l /\ is_prefix l t = true /\
  forall j q, j < pid - k -> nth_error ps j = Some q -> is_prefix q t = false.
Proof.
  induction ps as [|p ps IH]; intros t k pid H; cbn [first_match] in H; [discriminate|].
  destruct (is_prefix p t) eqn:Hp.
  - injection H as <-. split; [lia|]. rewrite Nat.sub_diag. exists p.
    split; [reflexivity|]. split; [auto|]. intros j q Hj; lia.
  - apply IH in H. destruct H as [Hk [l [Hl [Hpre Hprev]]]]. split; [lia|].
    exists l. replace (pid - k) with (S (pid - S k)) by lia. cbn [nth_error].
    split; [auto|]. split; [auto|]. intros j q Hj Hq. destruct j as [|j].
    + cbn in Hq. injection Hq as <-. exact Hp.
    + cbn in Hq. eapply Hprev; eauto. lia.
Qed.

Lemma scalar_loop_fst : forall ps hs fuel i,
  option_map fst (scalar_loop ps hs i fuel) = scan_from (occurs_at ps hs) i fuel.
Proof.
  intros ps hs. induction fuel as [|f IH]; intros i; [reflexivity|].
  cbn [scalar_loop scan_from]. unfold occurs_at at 1.
  destruct (first_match ps (skipn i hs) 0) as [pid|] eqn:E.
  - destruct (existsb (fun l => is_prefix l (skipn i hs)) ps) eqn:Ex; [reflexivity|].
    apply first_match_none_iff with (k := 0) in Ex. congruence.
  - apply first_match_none_iff in E. rewrite E. apply IH.
Qed.

Lemma scalar_loop_first : forall ps hs fuel i p pid,
  scalar_loop ps hs i fuel = Some (p, pid) -> first_match ps (skipn p hs) 0 = Some pid.
Proof.
  intros ps hs. induction fuel as [|f IH]; intros i p pid H; [discriminate|].
  cbn [scalar_loop] in H. destruct (first_match ps (skipn i hs) 0) as [pid'|] eqn:E.
  - injection H as <- <-. exact E.
  - eapply IH; eauto.
Qed.

Lemma fold_min_le : forall (r : list (list N)) m0,
  let m := fold_left (fun m q => if length q <? m then length q else m) r m0 in
  m <= m0 /\ forall q, In q r -> m <= length q.
Proof.
  induction r as [|x r IH]; intros m0; cbn [fold_left].
  - split; [lia | intros q []].
  - specialize (IH (if length x <? m0 then length x else m0)). cbn zeta in IH.
    destruct IH as [H1 H2]. destruct (length x <? m0) eqn:E.
    + apply Nat.ltb_lt in E. split; [lia|]. intros q [<-|Hq]; auto.
    + apply Nat.ltb_ge in E. split; [lia|]. intros q [<-|Hq]; auto. lia.
Qed.

Lemma min_len_le : forall ps l, In l ps -> min_len ps <= length l.
Proof.
  intros [|p r] l Hin; [destruct Hin|]. unfold min_len.
  pose proof (fold_min_le r (length p)) as H. cbn zeta in H. destruct H as [H1 H2].
  destruct Hin as [<-|Hin]; auto.
Qed.

Lemma scan_from_more_fuel : forall P i f1 f2,
  f1 <= f2 -> (forall j, i + f1 <= j < i + f2 -> P j = false) ->
  scan_from P i f1 = scan_from P i f2.
Proof.
  intros P i f1 f2 Hle Hno. destruct (scan_from P i f1) as [r|] eqn:E.
  - apply scan_from_some in E. destruct E as [Hr [HP Hmin]].
    symmetry. apply scan_from_is_some; auto. lia.
  - symmetry. apply scan_from_is_none. intros j Hj.
    destruct (Nat.lt_ge_cases j (i + f1)).
    + eapply scan_from_none; eauto. lia.
    + apply Hno. lia.
Qed.

Lemma scalar_path_is_min : forall ps hs,
  option_map fst (scalar_loop ps hs 0 (S (length hs) - min_len ps)) = pf_find ps hs 0.
Proof.
  intros ps hs. rewrite scalar_loop_fst. unfold pf_find. rewrite Nat.sub_0_r.
  apply scan_from_more_fuel; [lia|]. intros j Hj.
  destruct (occurs_at ps hs j) eqn:E; auto.
  apply occurs_at_iff in E. destruct E as [l [Hin Hpre]].
  apply is_prefix_iff in Hpre. apply is_prefix_length in Hpre. rewrite skipn_length in Hpre.
  pose proof (min_len_le ps l Hin). lia.
Qed.

(* ---- the whole of Find / FindMatch ---- *)

Lemma shift_fst : forall s r, option_map fst (shift s r) = option_map (Nat.add s) (option_map fst r).
Proof. intros s [[p pid]|]; reflexivity. Qed.

Lemma reports_shift : forall ps h s r, s <= length h ->
  reports_occurrence ps (skipn s h) r -> reports_occurrence ps h (shift s r).
Proof.
  intros ps h s r Hs H p pid E. destruct r as [[p0 pid0]|]; [|discriminate].
  cbn [shift] in E. injection E as <- <-. destruct (H p0 pid0 eq_refl) as [l [Hl Hpre]].
  exists l. split; auto. now rewrite <- skipn_skipn_add.
Qed.

Section SearchCorrect.
  Variable cand : list N -> option (nat * N).
  Variable T : teddy.
  Hypothesis Hok : masks_ok T = true.
  Hypothesis Hne : nonempty (pats T).
  Hypothesis Hcand : cand_contract T cand.

  Theorem teddy_search_correct : forall h s,
    exists r, teddy_search cand T h s = Some r /\
              option_map fst r = pf_find (pats T) h s /\
              reports_occurrence (pats T) h r.
  Proof.
    intros h s. unfold teddy_search. destruct (length h <=? s) eqn:Hs.
    - apply Nat.leb_le in Hs. exists None. split; [reflexivity|]. split.
      + cbn [option_map]. symmetry. apply pf_find_none_intro. intros i Hi.
        apply occurs_at_end; auto. lia.
      + intros p pid E; discriminate.
    - apply Nat.leb_gt in Hs. cbv zeta. destruct (length (skipn s h) <? 16) eqn:Hshort.
      + eexists. split; [reflexivity|]. split.
        * rewrite shift_fst, scalar_path_is_min. symmetry. apply pf_find_shift. lia.
        * apply reports_shift; [lia|]. intros p pid E.
          pose proof (scalar_loop_first _ _ _ _ _ _ E) as Hf.
          apply first_match_some in Hf. destruct Hf as [_ [l [Hl [Hpre _]]]].
          rewrite Nat.sub_0_r in Hl. exists l. auto.
      + destruct (simd_loop_correct cand T Hok Hne Hcand (S (length (skipn s h))) (skipn s h) 0)
          as [r [Hr [Hfst Hrep]]]; try lia.
        exists (shift s r). rewrite Hr. split; [reflexivity|]. split.
        * rewrite shift_fst, Hfst. symmetry. apply pf_find_shift. lia.
        * apply reports_shift; auto. lia.
  Qed.

  (* the fuel S (length h[s:]) is enough: the model never reports "out of fuel" *)
  Theorem teddy_search_fuel_ok : forall h s, teddy_search cand T h s <> None.
  Proof. intros h s. destruct (teddy_search_correct h s) as [r [Hr _]]. congruence. Qed.

  (* MAIN THEOREM for Find.  Side conditions and where NewTeddy enforces them:
       masks_ok T          -- certified check on the dumped masks/buckets; it contains
                              fplen <= len(p) for all p (teddy.go:211-214,
                              fingerprintLen = min(config, minLen)) and
                              #buckets <= 8 resp. 16 (teddy.go:277-281, teddy_fat.go:206);
       nonempty (pats T)   -- teddy.go:202 `len(p) < config.MinPatternLen -> nil`
                              (MinPatternLen = 3 by default; prefilter.go:286 for Build());
       cand_contract       -- the contract of findSIMD (assembly, or the pure Go loop). *)
  Theorem teddy_find_is_min : forall h s, teddy_find cand T h s = pf_find (pats T) h s.
  Proof.
    intros h s. unfold teddy_find. destruct (teddy_search_correct h s) as [r [Hr [Hfst _]]].
    rewrite Hr, <- Hfst. destruct r as [[p pid]|]; reflexivity.
  Qed.

  Theorem teddy_findmatch_bucket_order_start_is_min : forall h s,
    option_map fst (teddy_findmatch_bucket_order cand T h s) = pf_find (pats T) h s.
  Proof.
    intros h s. unfold teddy_findmatch_bucket_order. destruct (teddy_search_correct h s) as [r [Hr [Hfst _]]].
    rewrite Hr, <- Hfst. destruct r as [[p pid]|]; reflexivity.
  Qed.

  (* the span reported by FindMatch is an occurrence of one of the patterns *)
  Theorem teddy_findmatch_bucket_order_reports_occurrence : forall h s p e,
    teddy_findmatch_bucket_order cand T h s = Some (p, e) ->
    exists l, In l (pats T) /\ prefix l (skipn p h) /\ e = p + length l.
  Proof.
    intros h s p e H. unfold teddy_findmatch_bucket_order in H.
    destruct (teddy_search_correct h s) as [r [Hr [_ Hrep]]]. rewrite Hr in H.
    destruct r as [[p0 pid]|]; [|discriminate]. injection H as <- <-.
    destruct (Hrep p0 pid eq_refl) as [l [Hl Hpre]]. exists l.
    split; [eapply nth_error_In; eauto|]. split; [now apply is_prefix_iff|].
    now rewrite (nth_error_nth _ _ _ Hl).
  Qed.

End SearchCorrect.

(* Instances with the pure-Go candidate finder: no hypothesis about assembly left. *)
Theorem teddy_find_scalar_is_min : forall T h s,
  masks_ok T = true -> nonempty (pats T) -> teddy_find_scalar T h s = pf_find (pats T) h s.
Proof. intros T h s Hok Hne. apply teddy_find_is_min; auto using scalar_cand_contract. Qed.

(* ------------------------------------------------------------------------ *)
(** * 6. FindMatch: which literal is reported (leftmost-FIRST?)              *)
(* ------------------------------------------------------------------------ *)

(* Leftmost-first span of the alternation l1|l2|...|ln searched from s: the least
   start position, and there the first alternative (in pattern order) that matches.
   This is what Go's regexp (and the property) prescribes for `\Ql1\E|\Ql2\E|...`. *)
Definition pf_findmatch (L : list (list N)) (h : list N) (s : nat) : option (nat * nat) :=
  match pf_find L h s with
  | Some p =>
      match first_match L (skipn p h) 0 with
      | Some pid => Some (p, p + length (nth pid L []))
      | None => None
      end
  | None => None
  end.

(* Prefilter.LiteralLen use (IsComplete && LiteralLen() > 0: end = start + LiteralLen):
   with literals of one length the span needs no pattern id. *)
Theorem uniform_len_span : forall L h s n,
  (forall l, In l L -> length l = n) ->
  pf_findmatch L h s = option_map (fun p => (p, p + n)) (pf_find L h s).
Proof.
  intros L h s n Hlen. unfold pf_findmatch. destruct (pf_find L h s) as [p|] eqn:E; [|reflexivity].
  apply (proj1 (pf_find_spec L h s) p) in E. destruct E as [_ [Hocc _]].
  destruct (first_match L (skipn p h) 0) as [pid|] eqn:F.
  - apply first_match_some in F. destruct F as [_ [l [Hl _]]]. rewrite Nat.sub_0_r in Hl.
    cbn [option_map]. rewrite (nth_error_nth _ _ _ Hl), (Hlen l); auto.
    eapply nth_error_In; eauto.
  - apply first_match_none_iff in F. unfold occurs_at in Hocc. congruence.
Qed.

Lemma prefix_total : forall (p q t : list N),
  is_prefix p t = true -> is_prefix q t = true -> is_prefix p q = true \/ is_prefix q p = true.
Proof.
  induction p as [|a p IH]; intros q t Hp Hq; [now left|].
  destruct q as [|b q]; [now right|].
  destruct t as [|c t]; [discriminate|]. cbn [is_prefix] in *.
  apply andb_true_iff in Hp, Hq. destruct Hp as [Hac Hp], Hq as [Hbc Hq].
  apply N.eqb_eq in Hac, Hbc. subst a b. rewrite !N.eqb_refl. cbn [andb]. eauto.
Qed.

(* no pattern is a prefix of another pattern (in particular no duplicates) *)
Definition unambiguous (ps : list (list N)) : Prop :=
  forall i j p q, nth_error ps i = Some p -> nth_error ps j = Some q ->
                  is_prefix p q = true -> i = j.

Lemma first_match_unique : forall ps t pid l,
  unambiguous ps -> nth_error ps pid = Some l -> is_prefix l t = true ->
  first_match ps t 0 = Some pid.
Proof.
  intros ps t pid l Hun Hl Hpre. destruct (first_match ps t 0) as [pid0|] eqn:F.
  - apply first_match_some in F. destruct F as [_ [l0 [Hl0 [Hpre0 _]]]].
    rewrite Nat.sub_0_r in Hl0. f_equal.
    destruct (prefix_total l0 l t Hpre0 Hpre) as [H|H].
    + eapply Hun; eauto.
    + symmetry. eapply Hun; eauto.
  - apply first_match_none_iff in F. exfalso.
    assert (existsb (fun l => is_prefix l t) ps = true).
    { apply existsb_exists. exists l. split; auto. eapply nth_error_In; eauto. }
    congruence.
Qed.

(* singleton buckets [[0];[1];...;[n-1]]: what buildMasks produces for n <= 8 patterns *)
Definition singleton_buckets (T : teddy) : Prop :=
  bkts T = map (fun i => [i]) (seq 0 (length (pats T))).

Lemma singleton_bucket_nth : forall n b, nth b (map (fun i => [i]) (seq 0 n)) [] = if b <? n then [b] else [].
Proof.
  intros n b. destruct (b <? n) eqn:E.
  - apply Nat.ltb_lt in E.
    pose proof (map_nth (fun i : nat => [i]) (seq 0 n) 0 b) as H. cbv beta in H.
    rewrite nth_indep with (d' := [0]) by (rewrite map_length, seq_length; lia).
    rewrite H, seq_nth; auto.
  - apply Nat.ltb_ge in E. apply nth_overflow. rewrite map_length, seq_length. lia.
Qed.

(* The three partial results below are about THE ORIGINAL CODE BEFORE FIX d598647
   (teddy_findmatch_bucket_order); for the repaired code see teddy_findmatch_leftmost_first. *)
Section FindMatchCorrect.
  Variable cand : list N -> option (nat * N).
  Variable T : teddy.
  Hypothesis Hok : masks_ok T = true.
  Hypothesis Hne : nonempty (pats T).
  Hypothesis Hcand : cand_contract T cand.

  (* (a) the < 16 byte path is leftmost-first (patterns are tried in pattern order) *)
  Theorem teddy_findmatch_bucket_order_leftmost_first_short : forall h s,
    length h - s < 16 -> teddy_findmatch_bucket_order cand T h s = pf_findmatch (pats T) h s.
  Proof.
    intros h s Hshort. unfold teddy_findmatch_bucket_order, pf_findmatch.
    rewrite <- (teddy_find_is_min cand T Hok Hne Hcand h s). unfold teddy_find, teddy_search.
    destruct (length h <=? s) eqn:Hs; [reflexivity|]. apply Nat.leb_gt in Hs. cbv zeta.
    assert (Hlt : length (skipn s h) <? 16 = true) by (apply Nat.ltb_lt; rewrite skipn_length; lia).
    rewrite Hlt.
    destruct (scalar_loop (pats T) (skipn s h) 0 (S (length (skipn s h)) - min_len (pats T)))
      as [[p pid]|] eqn:E; cbn [shift]; [|reflexivity].
    apply scalar_loop_first in E. rewrite skipn_skipn_add in E. now rewrite E.
  Qed.

  (* (b) any path: leftmost-first when no pattern is a prefix of another *)
  Theorem teddy_findmatch_bucket_order_leftmost_first_unambiguous : forall h s,
    unambiguous (pats T) -> teddy_findmatch_bucket_order cand T h s = pf_findmatch (pats T) h s.
  Proof.
    intros h s Hun. unfold teddy_findmatch_bucket_order, pf_findmatch.
    destruct (teddy_search_correct cand T Hok Hne Hcand h s) as [r [Hr [Hfst Hrep]]].
    rewrite Hr, <- Hfst. destruct r as [[p pid]|]; [|reflexivity]. cbn [option_map fst].
    destruct (Hrep p pid eq_refl) as [l [Hl Hpre]].
    now rewrite (first_match_unique _ _ _ _ Hun Hl Hpre).
  Qed.

  (* (c) any path: leftmost-first when every bucket holds one pattern and bucket b holds
     pattern b (at most 8 patterns for slim, 16 for fat...: see new_teddy_singleton) *)
  Lemma verify_mask_singleton_first : forall hs pos m pid,
    singleton_buckets T -> pos < length hs ->
    (forall b, N.testbit (cmask T (skipn pos hs)) b = true -> N.testbit m b = true) ->
    verify_mask T hs pos m 0 (nbk T) = Some pid ->
    first_match (pats T) (skipn pos hs) 0 = Some pid.
  Proof.
    intros hs pos m pid Hsing Hpos Hsup Hv. apply verify_mask_some in Hv.
    destruct Hv as [_ [b [Hb [Hbit [Hvb Hprev]]]]].
    unfold verify_bucket in Hvb, Hprev. apply Nat.leb_gt in Hpos. rewrite Hpos in Hvb, Hprev.
    rewrite Hsing, singleton_bucket_nth in Hvb.
    destruct (b <? length (pats T)) eqn:Hbn; [|discriminate].
    apply verify_ids_some in Hvb. destruct Hvb as [[<-|[]] [l [Hl Hpre]]].
    destruct (first_match (pats T) (skipn pos hs) 0) as [pid0|] eqn:F.
    - pose proof F as F'. apply first_match_some in F'.
      destruct F' as [_ [l0 [Hl0 [Hpre0 Hbefore]]]]. rewrite Nat.sub_0_r in Hl0, Hbefore.
      destruct (Nat.lt_trichotomy pid0 b) as [Hlt|[->|Hgt]]; auto.
      + exfalso.
        assert (Hpre0' : prefix l0 (skipn pos hs)) by now apply is_prefix_iff.
        destruct (masks_ok_sound T pid0 l0 hs pos Hok Hl0 Hpre0') as [b0 [Hb0 [Hin0 Hbit0]]].
        rewrite Hsing, singleton_bucket_nth in Hin0.
        destruct (b0 <? length (pats T)); [|destruct Hin0]. destruct Hin0 as [->|[]].
        specialize (Hprev pid0 (conj (Nat.le_0_l _) Hlt) (Hsup _ Hbit0)).
        rewrite Hsing, singleton_bucket_nth in Hprev.
        assert (Hp0 : pid0 <? length (pats T) = true).
        { apply Nat.ltb_lt. apply nth_error_Some. congruence. }
        rewrite Hp0 in Hprev. cbn [verify_ids] in Hprev. rewrite Hl0, Hpre0 in Hprev. discriminate.
      + exfalso. rewrite (Hbefore b l Hgt Hl) in Hpre. discriminate.
    - apply first_match_none_iff in F. exfalso.
      assert (existsb (fun l => is_prefix l (skipn pos hs)) (pats T) = true).
      { apply existsb_exists. exists l. split; auto. eapply nth_error_In; eauto. }
      congruence.
  Qed.

  Lemma simd_loop_singleton_first : forall fuel h0 acc p pid,
    singleton_buckets T ->
    simd_loop cand T fuel h0 acc = Some (Some (p, pid)) ->
    first_match (pats T) (skipn p h0) 0 = Some pid.
  Proof.
    induction fuel as [|f IH]; intros h0 acc p pid Hsing H; [discriminate|].
    cbn [simd_loop] in H. pose proof (Hcand (skipn acc h0)) as Hc.
    destruct (cand (skipn acc h0)) as [[pos m]|]; [|discriminate].
    destruct Hc as [Hsup _].
    destruct (verify_mask T (skipn acc h0) pos m 0 (nbk T)) as [pid'|] eqn:Hv.
    - injection H as <- <-. rewrite <- skipn_skipn_add.
      eapply verify_mask_singleton_first; eauto.
      apply verify_mask_some in Hv. tauto.
    - destruct (length h0 <=? acc + pos + 1); [discriminate|]. eapply IH; eauto.
  Qed.

  Theorem teddy_findmatch_bucket_order_leftmost_first_singleton : forall h s,
    singleton_buckets T -> teddy_findmatch_bucket_order cand T h s = pf_findmatch (pats T) h s.
  Proof.
    intros h s Hsing.
    destruct (Nat.lt_ge_cases (length h - s) 16) as [Hshort|Hlong];
      [now apply teddy_findmatch_bucket_order_leftmost_first_short|].
    unfold teddy_findmatch_bucket_order, pf_findmatch.
    rewrite <- (teddy_find_is_min cand T Hok Hne Hcand h s). unfold teddy_find, teddy_search.
    destruct (length h <=? s) eqn:Hs; [reflexivity|]. apply Nat.leb_gt in Hs. cbv zeta.
    assert (Hge : length (skipn s h) <? 16 = false) by (apply Nat.ltb_ge; rewrite skipn_length; lia).
    rewrite Hge.
    destruct (simd_loop cand T (S (length (skipn s h))) (skipn s h) 0) as [[[p pid]|]|] eqn:E;
      cbn [option_map shift]; try reflexivity.
    apply simd_loop_singleton_first in E; auto. rewrite skipn_skipn_add in E. now rewrite E.
  Qed.

End FindMatchCorrect.

(* ---- the repaired FindMatch (fix d598647) is leftmost-first on every path ---- *)

Lemma ascending_tail : forall x r, ascending (x :: r) = true -> ascending r = true.
Proof.
  intros x [|y r] H; [reflexivity|]. cbn [ascending] in H. apply andb_true_iff in H. tauto.
Qed.

Lemma ascending_head_lt : forall r x y, ascending (x :: r) = true -> In y r -> x < y.
Proof.
  induction r as [|z r IH]; intros x y H Hin; [destruct Hin|].
  cbn [ascending] in H. apply andb_true_iff in H. destruct H as [Hlt Hr].
  apply Nat.ltb_lt in Hlt. destruct Hin as [<-|Hin]; auto.
  specialize (IH z y Hr Hin). lia.
Qed.

(* in an ascending bucket verifyBucket returns the lowest matching id of the bucket *)
Lemma verify_ids_sorted_min : forall ps ids t pid,
  ascending ids = true -> verify_ids ps ids t = Some pid ->
  forall q l, In q ids -> nth_error ps q = Some l -> is_prefix l t = true -> pid <= q.
Proof.
  intros ps. induction ids as [|x ids IH]; intros t pid Hasc H q l Hin Hq Hpre; [destruct Hin|].
  cbn [verify_ids] in H.
  destruct (nth_error ps x) as [p|] eqn:Hx.
  - destruct (is_prefix p t) eqn:Hp.
    + injection H as <-. destruct Hin as [->|Hin]; [lia|].
      pose proof (ascending_head_lt _ _ _ Hasc Hin). lia.
    + destruct Hin as [->|Hin]; [congruence|].
      eapply IH; eauto using ascending_tail.
  - destruct Hin as [->|Hin]; [congruence|].
    eapply IH; eauto using ascending_tail.
Qed.

Lemma buckets_sorted_nth : forall T b, buckets_sorted T = true -> ascending (nth b (bkts T) []) = true.
Proof.
  intros T b H. unfold buckets_sorted in H. rewrite forallb_forall in H.
  destruct (Nat.lt_ge_cases b (length (bkts T))) as [Hlt|Hge].
  - apply H. now apply nth_In.
  - now rewrite nth_overflow.
Qed.

(* verify_mask_min fails exactly when the first-hit verification fails *)
Lemma verify_mask_min_none_iff : forall T hs pos m n b best,
  verify_mask_min T hs pos m b n best = None <->
  best = None /\ verify_mask T hs pos m b n = None.
Proof.
  intros T hs pos m. induction n as [|n IH]; intros b best; cbn [verify_mask_min verify_mask].
  - tauto.
  - destruct (N.testbit m (N.of_nat b)); [|apply IH].
    destruct (verify_bucket T hs pos b) as [pid|]; [|apply IH].
    rewrite IH. split; [intros [H _] | intros [_ H]]; [|discriminate].
    destruct best as [q|]; cbn [better] in H; [destruct (pid <? q)|]; discriminate.
Qed.

Lemma better_spec : forall best pid,
  exists x, better best pid = Some x /\ x <= pid /\
            (forall q, best = Some q -> x <= q) /\ (x = pid \/ best = Some x).
Proof.
  intros [q|] pid; cbn [better].
  - destruct (pid <? q) eqn:E.
    + apply Nat.ltb_lt in E. exists pid. split; [reflexivity|]. split; [lia|].
      split; [intros q' Hq'; injection Hq' as <-; lia | now left].
    + apply Nat.ltb_ge in E. exists q. split; [reflexivity|]. split; [lia|].
      split; [intros q' Hq'; injection Hq' as <-; lia | now right].
  - exists pid. split; [reflexivity|]. split; [lia|]. split; [intros q Hq; discriminate | now left].
Qed.

(* ... and when it succeeds it returns the minimum over the hits of all set buckets *)
Lemma verify_mask_min_some : forall T hs pos m n b best r,
  verify_mask_min T hs pos m b n best = Some r ->
  (best = Some r \/
   exists b', b <= b' < b + n /\ N.testbit m (N.of_nat b') = true /\
              verify_bucket T hs pos b' = Some r) /\
  (forall q, best = Some q -> r <= q) /\
  (forall b' q, b <= b' < b + n -> N.testbit m (N.of_nat b') = true ->
                verify_bucket T hs pos b' = Some q -> r <= q).
Proof.
  intros T hs pos m. induction n as [|n IH]; intros b best r H; cbn [verify_mask_min] in H.
  - subst best. split; [now left|]. split.
    + intros q Hq. injection Hq as <-. lia.
    + intros b' q Hb'. lia.
  - destruct (N.testbit m (N.of_nat b)) eqn:Hbit;
      [destruct (verify_bucket T hs pos b) as [pid|] eqn:Hvb|].
    + apply IH in H. destruct H as [Hsrc [Hbest Hall]].
      destruct (better_spec best pid) as [x [Hx [Hxp [Hxb Hxsrc]]]].
      pose proof (Hbest x Hx) as Hrx.
      split; [|split].
      * destruct Hsrc as [Hs|[b' [Hb' [Hbit' Hv']]]].
        -- rewrite Hx in Hs. injection Hs as ->. destruct Hxsrc as [->|Hb]; [|now left].
           right. exists b. split; [lia | auto].
        -- right. exists b'. split; [lia | auto].
      * intros q Hq. specialize (Hxb q Hq). lia.
      * intros b' q Hb' Hbit' Hv'. destruct (Nat.eq_dec b' b) as [->|Hneq].
        -- rewrite Hvb in Hv'. injection Hv' as <-. lia.
        -- eapply Hall; eauto. lia.
    + apply IH in H. destruct H as [Hsrc [Hbest Hall]]. split; [|split; auto].
      * destruct Hsrc as [Hs|[b' [Hb' [Hbit' Hv']]]]; [now left|].
        right. exists b'. split; [lia | auto].
      * intros b' q Hb' Hbit' Hv'. destruct (Nat.eq_dec b' b) as [->|Hneq]; [congruence|].
        eapply Hall; eauto. lia.
    + apply IH in H. destruct H as [Hsrc [Hbest Hall]]. split; [|split; auto].
      * destruct Hsrc as [Hs|[b' [Hb' [Hbit' Hv']]]]; [now left|].
        right. exists b'. split; [lia | auto].
      * intros b' q Hb' Hbit' Hv'. destruct (Nat.eq_dec b' b) as [->|Hneq]; [congruence|].
        eapply Hall; eauto. lia.
Qed.

Section FindMatchRepaired.
  Variable cand : list N -> option (nat * N).
  Variable T : teddy.
  Hypothesis Hok : masks_ok T = true.
  Hypothesis Hne : nonempty (pats T).
  Hypothesis Hcand : cand_contract T cand.

  (* the repaired loop visits the same candidates and stops at the same position as the
     loop of Find *)
  Lemma simd_loop_min_pos : forall fuel h0 acc,
    option_map (option_map fst) (simd_loop_min cand T fuel h0 acc) =
    option_map (option_map fst) (simd_loop cand T fuel h0 acc).
  Proof.
    induction fuel as [|f IH]; intros h0 acc; [reflexivity|].
    cbn [simd_loop_min simd_loop]. destruct (cand (skipn acc h0)) as [[pos m]|]; [|reflexivity].
    destruct (verify_mask_min T (skipn acc h0) pos m 0 (nbk T) None) as [a|] eqn:E1;
    destruct (verify_mask T (skipn acc h0) pos m 0 (nbk T)) as [b|] eqn:E2.
    - reflexivity.
    - exfalso. assert (verify_mask_min T (skipn acc h0) pos m 0 (nbk T) None = None)
        by (apply verify_mask_min_none_iff; auto). congruence.
    - apply verify_mask_min_none_iff in E1. destruct E1 as [_ E1]. congruence.
    - destruct (length h0 <=? acc + pos + 1); [reflexivity | apply IH].
  Qed.

  Lemma teddy_search_min_pos : forall h s,
    option_map (option_map fst) (teddy_search_min cand T h s) =
    option_map (option_map fst) (teddy_search cand T h s).
  Proof.
    intros h s. unfold teddy_search_min, teddy_search.
    destruct (length h <=? s); [reflexivity|]. cbv zeta.
    destruct (length (skipn s h) <? 16); [reflexivity|].
    pose proof (simd_loop_min_pos (S (length (skipn s h))) (skipn s h) 0) as H.
    destruct (simd_loop_min cand T (S (length (skipn s h))) (skipn s h) 0) as [[[p pid]|]|];
    destruct (simd_loop cand T (S (length (skipn s h))) (skipn s h) 0) as [[[p' pid']|]|];
      cbn [option_map fst shift] in *; try discriminate; try reflexivity.
    injection H as ->. reflexivity.
  Qed.

  Theorem teddy_findmatch_start_is_min : forall h s,
    option_map fst (teddy_findmatch cand T h s) = pf_find (pats T) h s.
  Proof.
    intros h s. rewrite <- (teddy_find_is_min cand T Hok Hne Hcand h s).
    unfold teddy_findmatch, teddy_find. pose proof (teddy_search_min_pos h s) as H.
    destruct (teddy_search_min cand T h s) as [[[p pid]|]|];
    destruct (teddy_search cand T h s) as [[[p' pid']|]|];
      cbn [option_map fst] in *; try discriminate; try reflexivity.
    injection H as ->. reflexivity.
  Qed.

  Theorem teddy_search_min_fuel_ok : forall h s, teddy_search_min cand T h s <> None.
  Proof.
    intros h s H. pose proof (teddy_search_min_pos h s) as E. rewrite H in E. cbn in E.
    pose proof (teddy_search_fuel_ok cand T Hok Hne Hcand h s).
    destruct (teddy_search cand T h s); [discriminate | congruence].
  Qed.

  Hypothesis Hsorted : buckets_sorted T = true.

  (* the heart of the fix: the minimum id over the hits of all set buckets is the first
     pattern, in pattern order, that matches at the candidate position *)
  Lemma verify_mask_min_first : forall hs pos m pid,
    (forall b, N.testbit (cmask T (skipn pos hs)) b = true -> N.testbit m b = true) ->
    verify_mask_min T hs pos m 0 (nbk T) None = Some pid ->
    pos < length hs /\ first_match (pats T) (skipn pos hs) 0 = Some pid.
  Proof.
    intros hs pos m pid Hsup Hv. apply verify_mask_min_some in Hv.
    destruct Hv as [[Hs|[b [Hb [Hbit Hvb]]]] [_ Hall]]; [discriminate|].
    unfold verify_bucket in Hvb. destruct (length hs <=? pos) eqn:Hpos; [discriminate|].
    apply Nat.leb_gt in Hpos. split; [exact Hpos|].
    apply verify_ids_some in Hvb. destruct Hvb as [_ [l [Hl Hpre]]].
    destruct (first_match (pats T) (skipn pos hs) 0) as [pid0|] eqn:F.
    - pose proof F as F'. apply first_match_some in F'.
      destruct F' as [_ [l0 [Hl0 [Hpre0 Hbefore]]]]. rewrite Nat.sub_0_r in Hl0, Hbefore.
      f_equal.
      assert (Hge : pid0 <= pid).
      { destruct (Nat.le_gt_cases pid0 pid) as [H|H]; auto.
        rewrite (Hbefore pid l H Hl) in Hpre. discriminate. }
      assert (Hpre0' : prefix l0 (skipn pos hs)) by now apply is_prefix_iff.
      destruct (masks_ok_sound T pid0 l0 hs pos Hok Hl0 Hpre0') as [b0 [Hb0 [Hin0 Hbit0]]].
      destruct (verify_ids (pats T) (nth b0 (bkts T) []) (skipn pos hs)) as [q|] eqn:Hq.
      + assert (Hq0 : q <= pid0).
        { eapply verify_ids_sorted_min; eauto using buckets_sorted_nth. }
        assert (Hpq : pid <= q).
        { apply (Hall b0 q); [lia | apply Hsup; exact Hbit0 |].
          unfold verify_bucket. apply Nat.leb_gt in Hpos. now rewrite Hpos. }
        lia.
      + rewrite (verify_ids_none _ _ _ Hq pid0 l0 Hin0 Hl0) in Hpre0. discriminate.
    - apply first_match_none_iff in F. exfalso.
      assert (existsb (fun l => is_prefix l (skipn pos hs)) (pats T) = true).
      { apply existsb_exists. exists l. split; auto. eapply nth_error_In; eauto. }
      congruence.
  Qed.

  Lemma simd_loop_min_first : forall fuel h0 acc p pid,
    simd_loop_min cand T fuel h0 acc = Some (Some (p, pid)) ->
    first_match (pats T) (skipn p h0) 0 = Some pid.
  Proof.
    induction fuel as [|f IH]; intros h0 acc p pid H; [discriminate|].
    cbn [simd_loop_min] in H. pose proof (Hcand (skipn acc h0)) as Hc.
    destruct (cand (skipn acc h0)) as [[pos m]|]; [|discriminate].
    destruct Hc as [Hsup _].
    destruct (verify_mask_min T (skipn acc h0) pos m 0 (nbk T) None) as [pid'|] eqn:Hv.
    - injection H as <- <-. rewrite <- skipn_skipn_add.
      eapply verify_mask_min_first; eauto.
    - destruct (length h0 <=? acc + pos + 1); [discriminate|]. eapply IH; eauto.
  Qed.

  (* MAIN THEOREM for the repaired FindMatch: the leftmost-first span, for every haystack
     and start (scalar path and candidate path), slim and fat.  [buckets_sorted] is
     checked on the dumped buckets; buildMasks guarantees it (new_teddy_buckets_sorted). *)
  Theorem teddy_findmatch_leftmost_first : forall h s,
    teddy_findmatch cand T h s = pf_findmatch (pats T) h s.
  Proof.
    intros h s. unfold pf_findmatch. rewrite <- (teddy_findmatch_start_is_min h s).
    unfold teddy_findmatch, teddy_search_min.
    destruct (length h <=? s) eqn:Hs; [reflexivity|]. apply Nat.leb_gt in Hs. cbv zeta.
    destruct (length (skipn s h) <? 16).
    - destruct (scalar_loop (pats T) (skipn s h) 0 (S (length (skipn s h)) - min_len (pats T)))
        as [[p pid]|] eqn:E; cbn [shift option_map fst]; [|reflexivity].
      apply scalar_loop_first in E. rewrite skipn_skipn_add in E. now rewrite E.
    - destruct (simd_loop_min cand T (S (length (skipn s h))) (skipn s h) 0) as [[[p pid]|]|] eqn:E;
        cbn [option_map shift fst]; try reflexivity.
      apply simd_loop_min_first in E. rewrite skipn_skipn_add in E. now rewrite E.
  Qed.

  Corollary teddy_findmatch_reports_occurrence : forall h s p e,
    teddy_findmatch cand T h s = Some (p, e) ->
    exists l, In l (pats T) /\ prefix l (skipn p h) /\ e = p + length l.
  Proof.
    intros h s p e H. rewrite teddy_findmatch_leftmost_first in H. unfold pf_findmatch in H.
    destruct (pf_find (pats T) h s) as [p0|]; [|discriminate].
    destruct (first_match (pats T) (skipn p0 h) 0) as [pid|] eqn:F; [|discriminate].
    injection H as <- <-. apply first_match_some in F. destruct F as [_ [l [Hl [Hpre _]]]].
    rewrite Nat.sub_0_r in Hl. exists l. split; [eapply nth_error_In; eauto|].
    split; [now apply is_prefix_iff|]. now rewrite (nth_error_nth _ _ _ Hl).
  Qed.
End FindMatchRepaired.

(* ------------------------------------------------------------------------ *)
(** * 7. Model of NewTeddy / buildMasks / NewFatTeddy / buildFatMasks        *)
(* ------------------------------------------------------------------------ *)

Fixpoint upd_nth {A : Type} (n : nat) (f : A -> A) (l : list A) : list A :=
  match l, n with
  | [], _ => []
  | x :: r, 0 => f x :: r
  | x :: r, S n' => x :: upd_nth n' f r
  end.

(* masks.xMasks[pos][idx] |= bit *)
Definition set_ent (m : list (list N)) (pos : nat) (idx : N) (bit : N) : list (list N) :=
  upd_nth pos (upd_nth (N.to_nat idx) (fun v => N.lor v bit)) m.

Definition zero_tbl : list (list N) := repeat (repeat 0%N 32) 4.

(* teddy.go:buildMasks lines 294-307 / teddy_fat.go:buildFatMasks lines 216-232:
   the fingerprint bytes of one pattern of bucket [bk] *)
Fixpoint add_fp (isfat : bool) (bk : nat) (pos n : nat) (p : list N)
                (l h : list (list N)) : list (list N) * list (list N) :=
  match n, p with
  | S n', b :: p' =>
      if isfat then
        if bk <? 8 then
          let bit := N.shiftl 1 (N.of_nat bk) in
          add_fp isfat bk (S pos) n' p' (set_ent l pos (nib_lo b) bit) (set_ent h pos (nib_hi b) bit)
        else
          let bit := N.shiftl 1 (N.of_nat (bk - 8)) in
          add_fp isfat bk (S pos) n' p'
                 (set_ent l pos (16 + nib_lo b) bit) (set_ent h pos (16 + nib_hi b) bit)
      else
        (* byte(1 << bucketID): bucketID < 8 *)
        let bit := N.shiftl 1 (N.of_nat bk) in
        add_fp isfat bk (S pos) n' p'
               (set_ent (set_ent l pos (nib_lo b) bit) pos (16 + nib_lo b) bit)
               (set_ent (set_ent h pos (nib_hi b) bit) pos (16 + nib_hi b) bit)
  | _, _ => (l, h)
  end.

(* the loop "for patternID, pattern := range patterns", table part *)
Fixpoint build_tables (isfat : bool) (nb fpl : nat) (ps : list (list N)) (pid : nat)
                      (l h : list (list N)) : list (list N) * list (list N) :=
  match ps with
  | [] => (l, h)
  | p :: r =>
      let '(l', h') := add_fp isfat (pid mod nb) 0 fpl p l h in
      build_tables isfat nb fpl r (S pid) l' h'
  end.

(* ... and its bucket part: buckets[patternID % numBuckets] = append(..., patternID) *)
Fixpoint build_buckets (nb n pid : nat) (bs : list (list nat)) : list (list nat) :=
  match n with
  | 0 => bs
  | S n' => build_buckets nb n' (S pid) (upd_nth (pid mod nb) (fun ids => ids ++ [pid]) bs)
  end.

(* NewTeddy(patterns, cfg) with cfg.FingerprintLen = cfg_fp (teddy.go:211-217, 277-281)
   NewFatTeddy likewise (teddy_fat.go:149-155, 206). *)
Definition new_teddy_gen (isfat : bool) (ps : list (list N)) (cfg_fp : nat) : teddy :=
  let fpl := Nat.min (Nat.min cfg_fp (min_len ps)) 4 in
  let nb := if isfat then 16 else Nat.min 8 (length ps) in
  let '(l, h) := build_tables isfat nb fpl ps 0 zero_tbl zero_tbl in
  {| pats := ps;
     tm := {| fplen := fpl; lo := l; hi := h |};
     bkts := build_buckets nb (length ps) 0 (repeat [] nb);
     fat := isfat |}.

Definition new_teddy := new_teddy_gen false.
Definition new_fat_teddy := new_teddy_gen true.

Lemma new_teddy_pats : forall isfat ps fp, pats (new_teddy_gen isfat ps fp) = ps.
Proof.
  intros. unfold new_teddy_gen.
  destruct (build_tables _ _ _ _ _ _ _) as [l h]. reflexivity.
Qed.

Lemma new_teddy_bkts : forall isfat ps fp,
  bkts (new_teddy_gen isfat ps fp) =
  let nb := if isfat then 16 else Nat.min 8 (length ps) in
  build_buckets nb (length ps) 0 (repeat [] nb).
Proof.
  intros. unfold new_teddy_gen.
  destruct (build_tables _ _ _ _ _ _ _) as [l h]. reflexivity.
Qed.

(* slim Teddy with at most 8 patterns: bucket b = [b] *)
Lemma new_teddy_singleton : forall ps fp,
  length ps <= 8 -> singleton_buckets (new_teddy ps fp).
Proof.
  intros ps fp Hn. unfold singleton_buckets, new_teddy.
  rewrite new_teddy_bkts, new_teddy_pats. cbv zeta.
  remember (length ps) as n eqn:E. clear E ps.
  do 9 (destruct n as [|n]; [reflexivity|]). lia.
Qed.

(* fat Teddy with at most 16 patterns (never chosen by Build(), possible via NewFatTeddy):
   buckets b < n are [b], the others are empty; stated on the in-range prefix *)
Lemma new_fat_teddy_small_buckets : forall ps fp,
  length ps <= 16 ->
  firstn (length ps) (bkts (new_fat_teddy ps fp)) = map (fun i => [i]) (seq 0 (length ps)).
Proof.
  intros ps fp Hn. unfold new_fat_teddy. rewrite new_teddy_bkts. cbv zeta.
  remember (length ps) as n eqn:E. clear E ps.
  do 17 (destruct n as [|n]; [reflexivity|]). lia.
Qed.

(* ---- the refutation, for THE ORIGINAL CODE BEFORE FIX d598647 (teddy_findmatch_bucket_order):
   FindMatch was NOT leftmost-first for > 8 overlapping literals; the repaired model gives the
   right span on the same inputs (teddy_findmatch_witness_repaired) ---- *)

(* xxx0|abcd|xxx2|xxx3|xxx4|xxx5|xxx6|xxx7|abc  (pattern order as written) *)
Definition witness_pats : list (list N) :=
  [[120;120;120;48]; [97;98;99;100]; [120;120;120;50]; [120;120;120;51]; [120;120;120;52];
   [120;120;120;53]; [120;120;120;54]; [120;120;120;55]; [97;98;99]]%N.

(* 20 dots, "abcd", 10 dots *)
Definition witness_hay : list N := (repeat 46 20 ++ [97;98;99;100] ++ repeat 46 10)%N.

(* With the model's own NewTeddy (default configuration: fingerprint 2, 2..32 patterns of
   length >= 3) the masks pass the checker, the candidate finder is the pure Go one, the
   start position is right, and yet the reported span is [20,23] ("abc", pattern 8, which
   shares bucket 0 with pattern 0) instead of the leftmost-first [20,24] ("abcd",
   pattern 1, bucket 1). *)
Theorem teddy_findmatch_bucket_order_leftmost_first_refuted :
  exists ps h s,
    let T := new_teddy ps 2 in
    2 <= length ps <= 32 /\
    forallb (fun l => 3 <=? length l) ps = true /\
    masks_ok T = true /\
    teddy_findmatch_bucket_order_scalar T h s = Some (20, 23) /\
    pf_findmatch ps h s = Some (20, 24).
Proof.
  exists witness_pats, witness_hay, 0. cbv zeta.
  split; [cbn; lia|]. repeat split; vm_compute; reflexivity.
Qed.

Corollary teddy_findmatch_bucket_order_not_leftmost_first :
  ~ (forall T h s, masks_ok T = true -> nonempty (pats T) ->
       teddy_findmatch_bucket_order_scalar T h s = pf_findmatch (pats T) h s).
Proof.
  intros H. specialize (H (new_teddy witness_pats 2) witness_hay 0).
  assert (Hok : masks_ok (new_teddy witness_pats 2) = true) by (vm_compute; reflexivity).
  assert (Hne : nonempty (pats (new_teddy witness_pats 2))).
  { intros l Hin. unfold new_teddy in Hin. rewrite new_teddy_pats in Hin. cbn in Hin.
    repeat (destruct Hin as [<-|Hin]; [discriminate|]). destruct Hin. }
  specialize (H Hok Hne). vm_compute in H. discriminate.
Qed.

(* the same for fat Teddy: 17 patterns xx00|abcd|xx02|...|xx15|abc -- "abc" (id 16) shares
   bucket 0 with "xx00", "abcd" (id 1) sits in bucket 1 *)
Definition fat_witness_pats : list (list N) :=
  ([[120;120;48;48]; [97;98;99;100]] ++
   map (fun d => [120;120;48 + d / 10;48 + d mod 10]) [2;3;4;5;6;7;8;9;10;11;12;13;14;15] ++
   [[97;98;99]])%N.

Theorem fat_teddy_findmatch_bucket_order_leftmost_first_refuted :
  exists ps h s,
    let T := new_fat_teddy ps 2 in
    2 <= length ps <= 64 /\
    forallb (fun l => 3 <=? length l) ps = true /\
    masks_ok T = true /\
    teddy_findmatch_bucket_order_scalar T h s = Some (20, 23) /\
    pf_findmatch ps h s = Some (20, 24).
Proof.
  exists fat_witness_pats, witness_hay, 0. cbv zeta.
  split; [cbn; lia|]. repeat split; vm_compute; reflexivity.
Qed.

(* ---- the model of buildMasks always passes the checker ---- *)

Lemma upd_nth_length : forall (A : Type) (f : A -> A) l n, length (upd_nth n f l) = length l.
Proof. intros A f. induction l as [|x l IH]; intros [|n]; cbn [upd_nth length]; auto. Qed.

Lemma nth_upd_nth : forall (A : Type) (f : A -> A) (d : A) l n m,
  nth m (upd_nth n f l) d = if (m =? n) && (n <? length l) then f (nth n l d) else nth m l d.
Proof.
  intros A f d. induction l as [|x l IH]; intros n m.
  - cbn [upd_nth length]. assert (n <? 0 = false) as -> by (apply Nat.ltb_ge; lia).
    rewrite andb_false_r. destruct n; reflexivity.
  - destruct n as [|n]; cbn [upd_nth].
    + destruct m as [|m]; cbn [nth]; reflexivity.
    + destruct m as [|m]; cbn [nth]; [reflexivity|]. rewrite IH. reflexivity.
Qed.

Definition dims (m : list (list N)) : Prop :=
  length m = 4 /\ forall pos, pos < 4 -> length (nth pos m []) = 32.

Lemma tbl_set_ent : forall m pos idx bit pos' idx',
  dims m -> pos < 4 -> (idx < 32)%N ->
  tbl (set_ent m pos idx bit) pos' idx' =
  if (pos' =? pos) && (N.to_nat idx' =? N.to_nat idx) then N.lor (tbl m pos idx) bit else tbl m pos' idx'.
Proof.
  intros m pos idx bit pos' idx' [Hl Hr] Hpos Hidx. unfold tbl, set_ent.
  rewrite nth_upd_nth. assert (pos <? length m = true) as -> by (apply Nat.ltb_lt; lia).
  rewrite andb_true_r. destruct (pos' =? pos) eqn:E; cbn [andb]; auto.
  apply Nat.eqb_eq in E. subst pos'. rewrite nth_upd_nth.
  assert (N.to_nat idx <? length (nth pos m []) = true) as ->.
  { apply Nat.ltb_lt. rewrite Hr; lia. }
  now rewrite andb_true_r.
Qed.

Lemma set_ent_dims : forall m pos idx bit, dims m -> dims (set_ent m pos idx bit).
Proof.
  intros m pos idx bit [Hl Hr]. unfold set_ent. split.
  - now rewrite upd_nth_length.
  - intros p Hp. rewrite nth_upd_nth. destruct ((p =? pos) && (pos <? length m)) eqn:E; auto.
    rewrite upd_nth_length. apply andb_true_iff in E. destruct E as [E _].
    apply Nat.eqb_eq in E. subst. auto.
Qed.

Lemma set_ent_mono : forall m pos idx bit pos' idx' c,
  dims m -> pos < 4 -> (idx < 32)%N ->
  N.testbit (tbl m pos' idx') c = true -> N.testbit (tbl (set_ent m pos idx bit) pos' idx') c = true.
Proof.
  intros m pos idx bit pos' idx' c Hd Hp Hi H. rewrite tbl_set_ent; auto.
  destruct ((pos' =? pos) && (N.to_nat idx' =? N.to_nat idx)) eqn:E; auto.
  apply andb_true_iff in E. destruct E as [E1 E2]. apply Nat.eqb_eq in E1, E2.
  subst pos'. assert (idx' = idx) by lia. subst idx'. rewrite N.lor_spec, H. reflexivity.
Qed.

Lemma set_ent_sets : forall m pos idx c,
  dims m -> pos < 4 -> (idx < 32)%N ->
  N.testbit (tbl (set_ent m pos idx (N.shiftl 1 c)) pos idx) c = true.
Proof.
  intros m pos idx c Hd Hp Hi. rewrite tbl_set_ent; auto.
  rewrite !Nat.eqb_refl. cbn [andb]. rewrite N.lor_spec, N.shiftl_1_l, N.pow2_bits_true.
  apply orb_true_r.
Qed.

Lemma nib_lo_lt : forall b, (nib_lo b < 16)%N.
Proof. intros b. unfold nib_lo. change 15%N with (N.ones 4). rewrite N.land_ones. apply N.mod_lt. discriminate. Qed.
Lemma nib_hi_lt : forall b, (nib_hi b < 16)%N.
Proof. intros b. unfold nib_hi. change 15%N with (N.ones 4). rewrite N.land_ones. apply N.mod_lt. discriminate. Qed.

Definition mono (m m' : list (list N)) : Prop :=
  forall pos idx c, N.testbit (tbl m pos idx) c = true -> N.testbit (tbl m' pos idx) c = true.

Lemma mono_refl : forall m, mono m m. Proof. intros m pos idx c H; exact H. Qed.
Lemma mono_trans : forall a b c, mono a b -> mono b c -> mono a c.
Proof. intros a b c H1 H2 pos idx k H. apply H2, H1, H. Qed.
Lemma set_ent_mono' : forall m (pos : nat) (idx bit : N), dims m -> pos < 4 -> (idx < 32)%N -> mono m (set_ent m pos idx bit).
Proof. intros m pos idx bit Hd Hp Hi pos' idx' c H. now apply set_ent_mono. Qed.

Lemma add_fp_inv : forall (isfat : bool) bk n p pos l h l' h',
  dims l -> dims h -> pos + n <= 4 -> n <= length p -> bk < (if isfat : bool then 16 else 8) ->
  add_fp isfat bk pos n p l h = (l', h') ->
  dims l' /\ dims h' /\ mono l l' /\ mono h h' /\
  forall k, k < n ->
    ent_bit isfat l' (pos + k) (nib_lo (nth k p 0%N)) bk = true /\
    ent_bit isfat h' (pos + k) (nib_hi (nth k p 0%N)) bk = true.
Proof.
  intros isfat bk. induction n as [|n IH]; intros p pos l h l' h' Hdl Hdh Hpos Hlen Hbk H.
  - cbn [add_fp] in H. injection H as <- <-.
    split; [auto|]. split; [auto|]. split; [apply mono_refl|]. split; [apply mono_refl|].
    intros k Hk. exfalso. lia.
  - destruct p as [|b p]; [cbn in Hlen; lia|]. cbn [add_fp] in H.
    pose proof (nib_lo_lt b) as Hlo. pose proof (nib_hi_lt b) as Hhi.
    assert (Hp4 : pos < 4) by lia.
    assert (Hlen' : n <= length p) by (cbn in Hlen; lia).
    destruct isfat.
    + destruct (bk <? 8) eqn:Hb8.
      * apply Nat.ltb_lt in Hb8.
        apply IH in H; auto using set_ent_dims; try lia.
        destruct H as [Hdl' [Hdh' [Hml [Hmh Hk]]]].
        split; auto. split; auto.
        split; [eapply mono_trans; [apply set_ent_mono'|exact Hml]; auto; lia|].
        split; [eapply mono_trans; [apply set_ent_mono'|exact Hmh]; auto; lia|].
        intros k Hklt. destruct k as [|k].
        -- rewrite Nat.add_0_r. cbn [nth]. unfold ent_bit.
           assert (bk <? 8 = true) as -> by (apply Nat.ltb_lt; lia).
           split; [apply Hml | apply Hmh]; apply set_ent_sets; auto; lia.
        -- cbn [nth]. replace (pos + S k) with (S pos + k) by lia. apply Hk. lia.
      * apply Nat.ltb_ge in Hb8.
        apply IH in H; auto using set_ent_dims; try lia.
        destruct H as [Hdl' [Hdh' [Hml [Hmh Hk]]]].
        split; auto. split; auto.
        split; [eapply mono_trans; [apply set_ent_mono'|exact Hml]; auto; lia|].
        split; [eapply mono_trans; [apply set_ent_mono'|exact Hmh]; auto; lia|].
        intros k Hklt. destruct k as [|k].
        -- rewrite Nat.add_0_r. cbn [nth]. unfold ent_bit.
           assert (bk <? 8 = false) as -> by (apply Nat.ltb_ge; lia).
           assert (bk <? 16 = true) as -> by (apply Nat.ltb_lt; lia). cbn [andb].
           split; [apply Hml | apply Hmh]; apply set_ent_sets; auto; lia.
        -- cbn [nth]. replace (pos + S k) with (S pos + k) by lia. apply Hk. lia.
    + apply IH in H; auto using set_ent_dims; try lia.
      destruct H as [Hdl' [Hdh' [Hml [Hmh Hk]]]].
      split; auto. split; auto.
      split; [eapply mono_trans; [|exact Hml];
              eapply mono_trans; apply set_ent_mono'; auto using set_ent_dims; lia|].
      split; [eapply mono_trans; [|exact Hmh];
              eapply mono_trans; apply set_ent_mono'; auto using set_ent_dims; lia|].
      intros k Hklt. destruct k as [|k].
      * rewrite Nat.add_0_r. cbn [nth]. unfold ent_bit.
        assert (bk <? 8 = true) as -> by (apply Nat.ltb_lt; lia).
        split; [apply Hml | apply Hmh]; apply set_ent_mono; auto using set_ent_dims; try lia;
          apply set_ent_sets; auto; lia.
      * cbn [nth]. replace (pos + S k) with (S pos + k) by lia. apply Hk. lia.
Qed.

Lemma ent_bit_mono : forall isfat m m' pos nib b,
  mono m m' -> ent_bit isfat m pos nib b = true -> ent_bit isfat m' pos nib b = true.
Proof.
  intros isfat m m' pos nib b Hm H. unfold ent_bit in *. destruct (b <? 8); [now apply Hm|].
  rewrite !andb_true_iff in *. destruct H as [[H1 H2] H3]. repeat split; auto.
Qed.

Lemma build_tables_inv : forall (isfat : bool) nb fpl ps pid l h l' h',
  dims l -> dims h -> fpl <= 4 -> 0 < nb -> nb <= (if isfat then 16 else 8) ->
  (forall p, In p ps -> fpl <= length p) ->
  build_tables isfat nb fpl ps pid l h = (l', h') ->
  dims l' /\ dims h' /\ mono l l' /\ mono h h' /\
  forall j p, nth_error ps j = Some p -> forall k, k < fpl ->
    ent_bit isfat l' k (nib_lo (nth k p 0%N)) ((pid + j) mod nb) = true /\
    ent_bit isfat h' k (nib_hi (nth k p 0%N)) ((pid + j) mod nb) = true.
Proof.
  intros isfat nb fpl. induction ps as [|p ps IH]; intros pid l h l' h' Hdl Hdh Hfp Hnb0 Hnb Hlen H.
  - cbn [build_tables] in H. injection H as <- <-.
    split; [auto|]. split; [auto|]. split; [apply mono_refl|]. split; [apply mono_refl|].
    intros j p Hj. destruct j; discriminate.
  - cbn [build_tables] in H.
    destruct (add_fp isfat (pid mod nb) 0 fpl p l h) as [l1 h1] eqn:E.
    assert (Hbk : pid mod nb < (if isfat then 16 else 8)).
    { pose proof (Nat.mod_upper_bound pid nb). lia. }
    apply add_fp_inv in E; auto; try lia; [|apply Hlen; now left].
    destruct E as [Hdl1 [Hdh1 [Hml1 [Hmh1 Hk1]]]].
    apply IH in H; auto; [|intros q Hq; apply Hlen; now right].
    destruct H as [Hdl' [Hdh' [Hml [Hmh Hk]]]].
    split; [auto|]. split; [auto|].
    split; [eapply mono_trans; eauto|]. split; [eapply mono_trans; eauto|].
    intros j q Hj k Hklt. destruct j as [|j]; cbn [nth_error] in Hj.
    + injection Hj as <-. rewrite Nat.add_0_r. destruct (Hk1 k Hklt) as [H1 H2]. cbn [Nat.add] in H1, H2.
      split; eapply ent_bit_mono; eauto.
    + replace (pid + S j) with (S pid + j) by lia. eapply Hk; eauto.
Qed.

Lemma build_buckets_inv : forall nb n pid bs,
  0 < nb -> length bs = nb ->
  length (build_buckets nb n pid bs) = nb /\
  forall b x, In x (nth b (build_buckets nb n pid bs) []) <->
              In x (nth b bs []) \/ (pid <= x < pid + n /\ x mod nb = b).
Proof.
  intros nb. induction n as [|n IH]; intros pid bs Hnb Hlen; cbn [build_buckets].
  - split; auto. intros b x. split; [auto | intros [H|[H _]]; [auto | lia]].
  - destruct (IH (S pid) (upd_nth (pid mod nb) (fun ids => ids ++ [pid]) bs)) as [Hl Hin]; auto.
    { now rewrite upd_nth_length. }
    split; auto. intros b x. rewrite Hin, nth_upd_nth.
    pose proof (Nat.mod_upper_bound pid nb) as Hmod.
    assert (pid mod nb <? length bs = true) as -> by (apply Nat.ltb_lt; lia).
    rewrite andb_true_r. destruct (b =? pid mod nb) eqn:E.
    + apply Nat.eqb_eq in E. rewrite in_app_iff. cbn [In]. subst b. split.
      * intros [[H|[H|[]]]|[H1 H2]]; auto.
        -- right. subst x. split; [lia | reflexivity].
        -- right. split; [lia | auto].
      * intros [H|[H1 H2]]; auto.
        destruct (Nat.eq_dec x pid) as [->|Hne]; auto. right. split; [lia | auto].
    + apply Nat.eqb_neq in E. split.
      * intros [H|[H1 H2]]; auto. right. split; [lia | auto].
      * intros [H|[H1 H2]]; auto. right. split; auto.
        destruct (Nat.eq_dec x pid) as [->|Hne]; [congruence | lia].
Qed.

Lemma dims_zero : dims zero_tbl.
Proof.
  split; [reflexivity|]. intros pos Hp. do 4 (destruct pos as [|pos]; [reflexivity|]). lia.
Qed.

Lemma buckets_ok_intro : forall T bs b0,
  (forall b ids, nth_error bs b = Some ids -> bucket_ok T (b0 + b) ids = true) ->
  buckets_ok T b0 bs = true.
Proof.
  intros T. induction bs as [|x bs IH]; intros b0 H; cbn [buckets_ok]; auto.
  apply andb_true_iff. split.
  - specialize (H 0 x eq_refl). now rewrite Nat.add_0_r in H.
  - apply IH. intros b ids Hb. specialize (H (S b) ids Hb). now rewrite Nat.add_succ_r in H.
Qed.

(* the model of NewTeddy / NewFatTeddy always produces masks that pass the checker *)
Theorem new_teddy_masks_ok : forall isfat ps fp,
  ps <> [] -> masks_ok (new_teddy_gen isfat ps fp) = true.
Proof.
  intros isfat ps fp Hne. unfold new_teddy_gen.
  set (fpl := Nat.min (Nat.min fp (min_len ps)) 4).
  set (nb := if isfat then 16 else Nat.min 8 (length ps)).
  assert (Hn : 0 < length ps) by (destruct ps; [congruence | cbn; lia]).
  assert (Hnb0 : 0 < nb) by (unfold nb; destruct isfat; lia).
  assert (Hnb : nb <= (if isfat then 16 else 8)) by (unfold nb; destruct isfat; lia).
  assert (Hlen : forall p, In p ps -> fpl <= length p).
  { intros p Hp. pose proof (min_len_le ps p Hp). unfold fpl. lia. }
  destruct (build_tables isfat nb fpl ps 0 zero_tbl zero_tbl) as [l h] eqn:E.
  apply build_tables_inv in E; auto using dims_zero; [|unfold fpl; lia].
  destruct E as [_ [_ [_ [_ Hbits]]]].
  destruct (build_buckets_inv nb (length ps) 0 (repeat [] nb) Hnb0 (repeat_length _ _)) as [Hl Hin].
  assert (Hin' : forall b x, In x (nth b (build_buckets nb (length ps) 0 (repeat [] nb)) []) <->
                             (x < length ps /\ x mod nb = b)).
  { intros b x. rewrite Hin. split.
    - intros [H|[H1 H2]]; [|split; [lia | auto]].
      exfalso. revert H. clear. revert b. induction nb as [|k IH]; intros [|b]; cbn; auto. apply IH.
    - intros [H1 H2]. right. split; [lia | auto]. }
  unfold masks_ok. cbn [bkts pats tm fat fplen lo hi nbk].
  rewrite !andb_true_iff. split; [split|].
  - apply Nat.leb_le. rewrite Hl. unfold nbk. cbn [fat]. exact Hnb.
  - apply buckets_ok_intro. intros b ids Hb. cbn [Nat.add].
    unfold bucket_ok. cbn [pats]. apply forallb_forall. intros pid Hpid.
    assert (Hids : ids = nth b (build_buckets nb (length ps) 0 (repeat [] nb)) []).
    { symmetry. apply nth_error_nth. exact Hb. }
    rewrite Hids in Hpid. apply Hin' in Hpid. destruct Hpid as [Hlt Hmod].
    destruct (nth_error ps pid) as [p|] eqn:Hp; [|apply nth_error_None in Hp; lia].
    unfold pat_ok. cbn [tm fplen lo hi fat]. apply andb_true_iff. split.
    + apply Nat.leb_le. apply Hlen. eapply nth_error_In; eauto.
    + apply forallb_forall. intros k Hk. apply in_seq in Hk.
      destruct (Hbits pid p Hp k) as [H1 H2]; [lia|]. cbn [Nat.add] in H1, H2.
      rewrite Hmod in H1, H2. now rewrite H1, H2.
  - unfold covered. cbn [pats bkts]. apply forallb_forall. intros pid Hpid. apply in_seq in Hpid.
    apply existsb_exists.
    exists (nth (pid mod nb) (build_buckets nb (length ps) 0 (repeat [] nb)) []). split.
    + apply nth_In. rewrite Hl. apply Nat.mod_upper_bound. lia.
    + apply existsb_exists. exists pid. split; [|apply Nat.eqb_refl].
      apply Hin'. split; [lia | reflexivity].
Qed.

Lemma ascending_app_last : forall l y,
  ascending l = true -> (forall x, In x l -> x < y) -> ascending (l ++ [y]) = true.
Proof.
  induction l as [|x l IH]; intros y Hasc Hlt; [reflexivity|].
  destruct l as [|z l].
  - cbn. rewrite andb_true_r. apply Nat.ltb_lt. apply Hlt. now left.
  - cbn [ascending] in Hasc. apply andb_true_iff in Hasc. destruct Hasc as [Hxz Hr].
    change ((x :: z :: l) ++ [y]) with (x :: (z :: l) ++ [y]).
    assert (E : ascending (x :: (z :: l) ++ [y]) = (x <? z) && ascending ((z :: l) ++ [y])) by reflexivity.
    rewrite E, Hxz. cbn [andb]. apply IH; auto. intros w Hw. apply Hlt. now right.
Qed.

Lemma forallb_upd_nth : forall (A : Type) (P : A -> bool) (f : A -> A) (d : A) l k,
  forallb P l = true -> (k < length l -> P (f (nth k l d)) = true) ->
  forallb P (upd_nth k f l) = true.
Proof.
  intros A P f d. induction l as [|x l IH]; intros k Hall Hk; [destruct k; reflexivity|].
  cbn [forallb] in Hall. apply andb_true_iff in Hall. destruct Hall as [Hx Hl].
  destruct k as [|k]; cbn [upd_nth forallb].
  - rewrite Hl, andb_true_r. apply Hk. cbn; lia.
  - rewrite Hx. cbn [andb]. apply IH; auto. intros Hlt. apply Hk. cbn; lia.
Qed.

Lemma build_buckets_sorted : forall nb n pid bs,
  (forall b x, In x (nth b bs []) -> x < pid) ->
  forallb ascending bs = true ->
  forallb ascending (build_buckets nb n pid bs) = true.
Proof.
  intros nb. induction n as [|n IH]; intros pid bs Hlt Hasc; cbn [build_buckets]; auto.
  apply IH.
  - intros b x Hin. rewrite nth_upd_nth in Hin.
    destruct ((b =? pid mod nb) && (pid mod nb <? length bs)).
    + apply in_app_iff in Hin. destruct Hin as [Hin|[<-|[]]]; [|lia].
      specialize (Hlt _ _ Hin). lia.
    + specialize (Hlt _ _ Hin). lia.
  - apply forallb_upd_nth with (d := []); auto. intros Hk.
    apply ascending_app_last.
    + rewrite forallb_forall in Hasc. apply Hasc. now apply nth_In.
    + intros x Hx. eapply Hlt; eauto.
Qed.

Lemma nth_repeat_nil : forall (A : Type) n b (x : A), ~ In x (nth b (repeat [] n) []).
Proof. intros A. induction n as [|n IH]; intros [|b] x; cbn; auto. Qed.

(* buildMasks appends pattern ids in increasing order: every bucket is ascending *)
Theorem new_teddy_buckets_sorted : forall isfat ps fp,
  buckets_sorted (new_teddy_gen isfat ps fp) = true.
Proof.
  intros isfat ps fp. unfold buckets_sorted. rewrite new_teddy_bkts. cbv zeta.
  apply build_buckets_sorted.
  - intros b x Hin. exfalso. eapply nth_repeat_nil; eauto.
  - generalize (if isfat then 16 else Nat.min 8 (length ps)). induction n; cbn; auto.
Qed.

(* end-to-end for the model: NewTeddy/NewFatTeddy (any fingerprint configuration, any
   number of non-empty patterns) followed by Find with the pure Go candidate finder is
   pf_find -- no artifact, no hypothesis *)
Theorem new_teddy_find_is_min : forall isfat ps fp h s,
  ps <> [] -> nonempty ps ->
  teddy_find_scalar (new_teddy_gen isfat ps fp) h s = pf_find ps h s.
Proof.
  intros isfat ps fp h s Hne Hnonempty.
  rewrite teddy_find_scalar_is_min.
  - now rewrite new_teddy_pats.
  - now apply new_teddy_masks_ok.
  - now rewrite new_teddy_pats.
Qed.

(* ... and the repaired FindMatch of the model's own NewTeddy/NewFatTeddy is leftmost-first,
   for every pattern list, haystack and start *)
Theorem new_teddy_findmatch_leftmost_first : forall isfat ps fp h s,
  ps <> [] -> nonempty ps ->
  teddy_findmatch_scalar (new_teddy_gen isfat ps fp) h s = pf_findmatch ps h s.
Proof.
  intros isfat ps fp h s Hne Hnonempty. unfold teddy_findmatch_scalar.
  rewrite teddy_findmatch_leftmost_first.
  - now rewrite new_teddy_pats.
  - now apply new_teddy_masks_ok.
  - now rewrite new_teddy_pats.
  - apply scalar_cand_contract.
  - apply new_teddy_buckets_sorted.
Qed.

(* the inputs that refute the original code give the leftmost-first span after the fix *)
Theorem teddy_findmatch_witness_repaired :
  teddy_findmatch_scalar (new_teddy witness_pats 2) witness_hay 0 = Some (20, 24) /\
  teddy_findmatch_scalar (new_fat_teddy fat_witness_pats 2) witness_hay 0 = Some (20, 24).
Proof. split; vm_compute; reflexivity. Qed.

(* ------------------------------------------------------------------------ *)
(** * 8. The other prefilters                                                *)
(* ------------------------------------------------------------------------ *)

(* --- generic pieces --- *)

Lemma scan_from_ext : forall P Q fuel i,
  (forall j, i <= j < i + fuel -> P j = Q j) -> scan_from P i fuel = scan_from Q i fuel.
Proof.
  intros P Q. induction fuel as [|f IH]; intros i H; [reflexivity|].
  cbn [scan_from]. rewrite (H i) by lia. destruct (Q i); auto. apply IH. intros j Hj; apply H; lia.
Qed.

Lemma scan_from_shift : forall P s fuel i,
  scan_from P (s + i) fuel = option_map (Nat.add s) (scan_from (fun k => P (s + k)) i fuel).
Proof.
  intros P s. induction fuel as [|f IH]; intros i; [reflexivity|].
  cbn [scan_from]. destruct (P (s + i)); [reflexivity|].
  rewrite <- IH. f_equal. lia.
Qed.

Lemma nth_skipn : forall (s i : nat) (h : list N) d, nth i (skipn s h) d = nth (s + i) h d.
Proof.
  induction s as [|s IH]; intros i h d; [reflexivity|].
  destruct h as [|x h]; cbn [skipn Nat.add nth]; [now destruct i | apply IH].
Qed.

(* index of the first byte satisfying P: the scalar specification shared with C18
   (simd.Memchr: P = (= needle); simd.MemchrDigit: P = is_digit) *)
Definition first_index (P : N -> bool) (t : list N) : option nat :=
  scan_from (fun i => P (nth i t 0%N)) 0 (length t).

(* the common wrapper shape:
     if start < 0 || start >= len(haystack) { return -1 }
     idx := f(haystack[start:]);  if idx == -1 { return -1 };  return start + idx *)
Definition at_wrap (f : list N -> option nat) (h : list N) (s : nat) : option nat :=
  if length h <=? s then None else option_map (Nat.add s) (f (skipn s h)).

Lemma at_wrap_first_index : forall P h s,
  at_wrap (first_index P) h s = scan_from (fun i => P (nth i h 0%N)) s (length h - s).
Proof.
  intros P h s. unfold at_wrap, first_index. destruct (length h <=? s) eqn:E.
  - apply Nat.leb_le in E. replace (length h - s) with 0 by lia. reflexivity.
  - rewrite skipn_length. rewrite <- (Nat.add_0_r s) at 3.
    rewrite scan_from_shift. f_equal. apply scan_from_ext. intros j _. now rewrite nth_skipn.
Qed.

Lemma is_prefix_single : forall c t, is_prefix [c] t = match t with b :: _ => (c =? b)%N | [] => false end.
Proof. intros c [|b t]; cbn [is_prefix]; [reflexivity | now rewrite andb_true_r]. Qed.

Lemma occurs_at_single_byte : forall c h i,
  occurs_at [[c]] h i = (i <? length h) && (c =? nth i h 0)%N.
Proof.
  intros c h i. unfold occurs_at. cbn [existsb]. rewrite orb_false_r, is_prefix_single.
  revert h. induction i as [|i IH]; intros [|x h]; cbn [skipn nth length]; auto.
  rewrite IH. reflexivity.
Qed.

(* --- prefilter.go:memchrPrefilter.Find --- *)
Section Memchr.
  Variable memchr : list N -> N -> option nat.            (* simd.Memchr *)
  Hypothesis memchr_spec : forall t c, memchr t c = first_index (N.eqb c) t.   (* C18 *)

  Definition memchr_pf_find (c : N) (h : list N) (s : nat) : option nat :=
    at_wrap (fun t => memchr t c) h s.

  Theorem memchr_prefilter_is_min : forall c h s, memchr_pf_find c h s = pf_find [[c]] h s.
  Proof.
    intros c h s. unfold memchr_pf_find.
    transitivity (at_wrap (first_index (N.eqb c)) h s).
    { unfold at_wrap. destruct (length h <=? s); auto. now rewrite memchr_spec. }
    rewrite at_wrap_first_index. unfold pf_find.
    destruct (Nat.le_gt_cases s (length h)) as [Hs|Hs].
    - replace (S (length h) - s) with (S (length h - s)) by lia.
      rewrite <- (scan_from_more_fuel (occurs_at [[c]] h) s (length h - s) (S (length h - s))).
      + apply scan_from_ext. intros j Hj. rewrite occurs_at_single_byte.
        assert (j <? length h = true) as -> by (apply Nat.ltb_lt; lia). reflexivity.
      + lia.
      + intros j Hj. rewrite occurs_at_single_byte.
        assert (j <? length h = false) as -> by (apply Nat.ltb_ge; lia). reflexivity.
    - replace (length h - s) with 0 by lia. replace (S (length h) - s) with 0 by lia. reflexivity.
  Qed.
End Memchr.

(* --- prefilter.go:memmemPrefilter.Find --- *)
Section Memmem.
  Variable memmem : list N -> list N -> option nat.       (* simd.Memmem *)
  (* C18's specification of Memmem: least i with needle a prefix of t[i:] *)
  Hypothesis memmem_spec : forall t needle, memmem t needle = pf_find [needle] t 0.

  Definition memmem_pf_find (needle : list N) (h : list N) (s : nat) : option nat :=
    at_wrap (fun t => memmem t needle) h s.

  (* needle <> []: selectPrefilter only builds memmem for a literal that exists; for the
     empty needle the wrapper answers -1 at s = len(h) where pf_find says Some s *)
  Theorem memmem_prefilter_is_min : forall needle h s,
    needle <> [] -> memmem_pf_find needle h s = pf_find [needle] h s.
  Proof.
    intros needle h s Hne. unfold memmem_pf_find, at_wrap.
    assert (Hn : nonempty [needle]) by (intros l [<-|[]]; auto).
    destruct (length h <=? s) eqn:E.
    - apply Nat.leb_le in E. symmetry. apply pf_find_none_intro. intros i Hi.
      apply occurs_at_end; auto. lia.
    - apply Nat.leb_gt in E. rewrite memmem_spec. symmetry. apply pf_find_shift. lia.
  Qed.
End Memmem.

(* --- digit.go:DigitPrefilter.Find = simd.MemchrDigitAt --- *)
Definition is_digit (b : N) : bool := (48 <=? b)%N && (b <=? 57)%N.

Section Digit.
  Variable memchr_digit : list N -> option nat.           (* simd.MemchrDigit *)
  Hypothesis memchr_digit_spec : forall t, memchr_digit t = first_index is_digit t.   (* C18 *)

  (* simd/memchr_digit_*.go:MemchrDigitAt *)
  Definition digit_pf_find (h : list N) (s : nat) : option nat := at_wrap memchr_digit h s.

  Theorem digit_prefilter_is_min : forall h s,
    (forall i, digit_pf_find h s = Some i <->
       s <= i < length h /\ is_digit (nth i h 0%N) = true /\
       forall j, s <= j < i -> is_digit (nth j h 0%N) = false) /\
    (digit_pf_find h s = None <-> forall i, s <= i < length h -> is_digit (nth i h 0%N) = false).
  Proof.
    intros h s. unfold digit_pf_find.
    assert (E : at_wrap memchr_digit h s = at_wrap (first_index is_digit) h s).
    { unfold at_wrap. destruct (length h <=? s); auto. now rewrite memchr_digit_spec. }
    rewrite E, at_wrap_first_index. split.
    - intros i. split.
      + intros H. apply scan_from_some in H. destruct H as [Hr [HP Hmin]].
        split; [lia|]. split; auto.
      + intros [Hr [HP Hmin]]. apply scan_from_is_some; auto. lia.
    - split.
      + intros H i Hi. apply (scan_from_none _ _ _ H). lia.
      + intros H. apply scan_from_is_none. intros j Hj. apply H. lia.
  Qed.
End Digit.

(* --- wrap.go --- *)

(* a prefilter value as far as the property is concerned *)
Record pfilter := { pf_Find : list N -> nat -> option nat; pf_IsComplete : bool; pf_LiteralLen : nat }.

(* wrap.go:WrapIncomplete *)
Definition wrap_incomplete (p : pfilter) : pfilter :=
  {| pf_Find := pf_Find p; pf_IsComplete := false; pf_LiteralLen := 0 |}.

Theorem incomplete_wrap_transparent : forall p,
  (forall h s, pf_Find (wrap_incomplete p) h s = pf_Find p h s) /\
  pf_IsComplete (wrap_incomplete p) = false /\ pf_LiteralLen (wrap_incomplete p) = 0.
Proof. intros p. repeat split. Qed.

(* candidate == 0 || haystack[candidate-1] == '\n' *)
Definition line_start (h : list N) (c : nat) : bool := (c =? 0) || (nth (c - 1) h 0 =? 10)%N.

(* wrap.go:lineAnchorWrapper.Find; None = out of fuel *)
Fixpoint line_anchor_loop (inner : list N -> nat -> option nat) (h : list N) (fuel pos : nat)
  : option (option nat) :=
  match fuel with
  | 0 => None
  | S f =>
      match inner h pos with
      | None => Some None
      | Some c => if line_start h c then Some (Some c) else line_anchor_loop inner h f (c + 1)
      end
  end.

Definition line_anchor_find (inner : list N -> nat -> option nat) (h : list N) (s : nat) : option nat :=
  match line_anchor_loop inner h (S (S (length h) - s)) s with
  | Some r => r
  | None => None
  end.

Definition wrap_line_anchor (p : pfilter) : pfilter :=
  {| pf_Find := line_anchor_find (pf_Find p); pf_IsComplete := pf_IsComplete p;
     pf_LiteralLen := pf_LiteralLen p |}.

(* occurrences of a literal at a line start: the candidates of (?m)^(l1|...|ln) *)
Definition line_occ (L : list (list N)) (h : list N) (i : nat) : bool :=
  occurs_at L h i && line_start h i.

Section LineAnchor.
  Variable inner : list N -> nat -> option nat.
  Variable L : list (list N).
  Hypothesis inner_is_min : forall h s, inner h s = pf_find L h s.

  Lemma line_anchor_loop_correct : forall h fuel pos,
    S (length h) - pos < fuel ->
    line_anchor_loop inner h fuel pos = Some (scan_from (line_occ L h) pos (S (length h) - pos)).
  Proof.
    intros h. induction fuel as [|f IH]; intros pos Hfuel; [lia|].
    cbn [line_anchor_loop]. rewrite inner_is_min.
    destruct (pf_find L h pos) as [c|] eqn:E.
    - apply (proj1 (pf_find_spec L h pos) c) in E. destruct E as [Hr [Hocc Hmin]].
      destruct (line_start h c) eqn:Hls.
      + f_equal. symmetry. apply scan_from_is_some; [lia| |].
        * unfold line_occ. now rewrite Hocc, Hls.
        * intros j Hj. unfold line_occ. now rewrite Hmin.
      + rewrite IH by lia. f_equal.
        destruct (scan_from (line_occ L h) (c + 1) (S (length h) - (c + 1))) as [r|] eqn:E2.
        * apply scan_from_some in E2. destruct E2 as [Hr2 [HP2 Hmin2]].
          symmetry. apply scan_from_is_some; auto; [lia|].
          intros j Hj. destruct (Nat.lt_ge_cases j c) as [Hlt|Hge].
          -- unfold line_occ. now rewrite Hmin.
          -- destruct (Nat.eq_dec j c) as [->|Hneq].
             ++ unfold line_occ. now rewrite Hls, andb_false_r.
             ++ apply Hmin2. lia.
        * symmetry. apply scan_from_is_none. intros j Hj.
          destruct (Nat.lt_ge_cases j c) as [Hlt|Hge].
          -- unfold line_occ. now rewrite Hmin.
          -- destruct (Nat.eq_dec j c) as [->|Hneq].
             ++ unfold line_occ. now rewrite Hls, andb_false_r.
             ++ apply (scan_from_none _ _ _ E2). lia.
    - f_equal. symmetry. apply scan_from_is_none. intros j Hj.
      unfold line_occ. rewrite (proj1 (proj2 (pf_find_spec L h pos)) E); auto. lia.
  Qed.

  (* WrapLineAnchor(inner).Find returns the minimum position >= s that is BOTH a literal
     occurrence and a line start (p = 0 or h[p-1] = '\n'); -1 when there is none.  This is
     deliberately not [pf_find L]: occurrences inside a line are stepped over.  The
     candidate-loop contract it satisfies is the one of the anchored pattern
     (?m)^(l1|...|ln): no position where that pattern can match is skipped. *)
  Theorem line_anchor_wrap_correct : forall h s,
    line_anchor_find inner h s = scan_from (line_occ L h) s (S (length h) - s).
  Proof.
    intros h s. unfold line_anchor_find. rewrite line_anchor_loop_correct by lia. reflexivity.
  Qed.

  Corollary line_anchor_wrap_guarantees : forall h s,
    (forall p, line_anchor_find inner h s = Some p ->
       s <= p <= length h /\ occurs_at L h p = true /\
       (p = 0 \/ nth (p - 1) h 0%N = 10%N) /\
       forall j, s <= j < p -> occurs_at L h j = true -> line_start h j = false) /\
    (line_anchor_find inner h s = None ->
       forall j, s <= j <= length h -> occurs_at L h j = true -> line_start h j = false).
  Proof.
    intros h s. rewrite line_anchor_wrap_correct. split.
    - intros p H. apply scan_from_some in H. destruct H as [Hr [HP Hmin]].
      unfold line_occ in HP. apply andb_true_iff in HP. destruct HP as [Hocc Hls].
      split; [lia|]. split; auto. split.
      + unfold line_start in Hls. apply orb_true_iff in Hls.
        destruct Hls as [H0|Hnl]; [left; now apply Nat.eqb_eq | right; now apply N.eqb_eq].
      + intros j Hj Hoj. specialize (Hmin j Hj). unfold line_occ in Hmin. now rewrite Hoj in Hmin.
    - intros H j Hj Hoj. pose proof (scan_from_none _ _ _ H j) as Hn.
      unfold line_occ in Hn. rewrite Hoj in Hn. apply Hn. lia.
  Qed.

  (* the loop never runs out of fuel *)
  Theorem line_anchor_fuel_ok : forall h s,
    line_anchor_loop inner h (S (S (length h) - s)) s <> None.
  Proof. intros h s. rewrite line_anchor_loop_correct by lia. discriminate. Qed.
End LineAnchor.

(* --- tracker.go --- *)

Definition w64 (x : N) : N := x mod 2 ^ 64.

(* TrackerConfig; MinEfficiency is modelled as the rational eff_num/eff_den (the Go
   code compares float64(confirms)/float64(candidates) < MinEfficiency; float rounding
   is not modelled and none of the theorems below depends on the rule) *)
Record tconfig := { checkInterval : N; warmupPeriod : N; eff_num : N; eff_den : N }.
Record tstate := { candidates : N; confirms : N; lastCheckpoint : N; active : bool }.

(* tracker.go:checkEffectiveness *)
Definition check_effectiveness (c : tconfig) (t : tstate) : tstate :=
  if (candidates t <? warmupPeriod c)%N then t
  else if (w64 (candidates t + 2 ^ 64 - lastCheckpoint t) <? checkInterval c)%N then t
  else
    let t' := {| candidates := candidates t; confirms := confirms t;
                 lastCheckpoint := candidates t; active := active t |} in
    if (confirms t * eff_den c <? eff_num c * candidates t)%N
    then {| candidates := candidates t'; confirms := confirms t';
            lastCheckpoint := lastCheckpoint t'; active := false |}
    else t'.

Inductive tevent :=
  | EvFind (h : list N) (s : nat)      (* Tracker.Find *)
  | EvConfirm                          (* Tracker.ConfirmMatch *)
  | EvReset.                           (* Tracker.Reset *)

Section Tracker.
  Variable inner : list N -> nat -> option nat.
  Variable cfg : tconfig.

  (* tracker.go:Find *)
  Definition tracker_find (t : tstate) (h : list N) (s : nat) : tstate * option nat :=
    if negb (active t) then (t, None)
    else match inner h s with
         | Some p =>
             (check_effectiveness cfg
                {| candidates := w64 (candidates t + 1); confirms := confirms t;
                   lastCheckpoint := lastCheckpoint t; active := active t |}, Some p)
         | None => (t, None)
         end.

  Definition tracker_step (t : tstate) (e : tevent) : tstate * option (option nat) :=
    match e with
    | EvFind h s => let '(t', r) := tracker_find t h s in (t', Some r)
    | EvConfirm => ({| candidates := candidates t; confirms := w64 (confirms t + 1);
                       lastCheckpoint := lastCheckpoint t; active := active t |}, None)
    | EvReset => ({| candidates := 0; confirms := 0; lastCheckpoint := 0; active := true |}, None)
    end.

  (* run a call history; the trace records, per call, the state before it and the result *)
  Fixpoint tracker_run (t : tstate) (es : list tevent) : list (tstate * tevent * option (option nat)) :=
    match es with
    | [] => []
    | e :: r => let '(t', res) := tracker_step t e in (t, e, res) :: tracker_run t' r
    end.

  Definition tracker_call_ok (x : tstate * tevent * option (option nat)) : Prop :=
    match x with
    | (t, EvFind h s, res) => res = Some (if active t then inner h s else None)
    | (_, _, res) => res = None
    end.

  (* over every call history from every state: a Find issued while the tracker is active
     returns exactly inner.Find (including the very call that deactivates it); a Find
     issued after deactivation returns -1 *)
  Theorem tracker_transparent : forall es t, Forall tracker_call_ok (tracker_run t es).
  Proof.
    induction es as [|e es IH]; intros t; cbn [tracker_run]; [constructor|].
    destruct (tracker_step t e) as [t' res] eqn:E. constructor; [|apply IH].
    destruct e as [h s| |]; cbn [tracker_step] in E.
    - unfold tracker_find in E. cbn [tracker_call_ok].
      destruct (active t); cbn [negb] in E.
      + destruct (inner h s); injection E as <- <-; reflexivity.
      + injection E as <- <-; reflexivity.
    - injection E as <- <-. reflexivity.
    - injection E as <- <-. reflexivity.
  Qed.

  Lemma check_effectiveness_inactive : forall t, active t = false -> active (check_effectiveness cfg t) = false.
  Proof.
    intros t H. unfold check_effectiveness.
    repeat match goal with |- context [if ?c then _ else _] => destruct c end; cbn [active]; auto.
  Qed.

  (* once deactivated the tracker stays so until Reset, and answers -1 to every Find
     ("may return -1 even when candidates exist", tracker.go:Find doc comment): callers
     must test IsActive() and fall back -- it is not a pf_find prefilter any more *)
  Theorem tracker_inactive_returns_none : forall es t,
    active t = false -> (forall e, In e es -> e <> EvReset) ->
    Forall (fun x => match x with
                     | (_, EvFind _ _, res) => res = Some None
                     | _ => True
                     end) (tracker_run t es).
  Proof.
    induction es as [|e es IH]; intros t Hin Hnr; cbn [tracker_run]; [constructor|].
    destruct (tracker_step t e) as [t' res] eqn:E.
    assert (Ht' : active t' = false /\ match e with EvFind _ _ => res = Some None | _ => True end).
    { destruct e as [h s| |]; cbn [tracker_step] in E.
      - unfold tracker_find in E. rewrite Hin in E. cbn [negb] in E. injection E as <- <-. auto.
      - injection E as <- <-. auto.
      - exfalso. apply (Hnr EvReset); [now left | reflexivity]. }
    destruct Ht' as [Ha Hres]. constructor.
    - destruct e; auto.
    - apply IH; auto. intros e' He'. apply Hnr. now right.
  Qed.

  (* no deactivation during warm-up *)
  Theorem tracker_find_warmup : forall t h s,
    active t = true -> (w64 (candidates t + 1) <? warmupPeriod cfg)%N = true ->
    active (fst (tracker_find t h s)) = true /\ snd (tracker_find t h s) = inner h s.
  Proof.
    intros t h s Ha Hw. unfold tracker_find. rewrite Ha. cbn [negb].
    destruct (inner h s); cbn [fst snd]; auto.
    unfold check_effectiveness. cbn [candidates]. rewrite Hw. auto.
  Qed.
End Tracker.

(* ------------------------------------------------------------------------ *)
(** * 9. Case checker (correspondence run, see go/harness/c16.go)            *)
(* ------------------------------------------------------------------------ *)

Fixpoint list_eqb {A : Type} (eqb : A -> A -> bool) (a b : list A) : bool :=
  match a, b with
  | [], [] => true
  | x :: a', y :: b' => eqb x y && list_eqb eqb a' b'
  | _, _ => false
  end.

(* a dumped Teddy / FatTeddy value (VerifMasks hook) and the FingerprintLen of the
   configuration it was built with; for non-Teddy prefilters only [pats] is meaningful *)
Record tdump := { td_T : teddy; td_cfgfp : nat }.

(* c_api:  0 Teddy.Find            1 Teddy.FindMatch          (public API, dispatching)
           2 findScalar hook       3 findMatchScalar hook     (the < 16 byte path, forced)
           4 Find of another literal prefilter (memchr, memmem, Aho-Corasick, Build(),
             WrapIncomplete, active Tracker): specification only
           5 Find of WrapLineAnchor(p): specification = first line-start occurrence
           6 DigitPrefilter.Find: specification = first ASCII digit
   c_obs_start / c_obs_end: what the Go code returned (-1 = none; end = -1 for Find). *)
Record case := {
  c_id : N;
  c_td : tdump;
  c_hay : list N;
  c_start : nat;
  c_api : N;
  c_obs_start : Z;
  c_obs_end : Z
}.

Definition zpos (r : option nat) : Z := match r with Some p => Z.of_nat p | None => (-1)%Z end.
Definition zspan (r : option (nat * nat)) : Z * Z :=
  match r with Some (p, e) => (Z.of_nat p, Z.of_nat e) | None => ((-1)%Z, (-1)%Z) end.

Definition forced_scalar (T : teddy) (h : list N) (s : nat) : option (nat * nat) :=
  if length h <=? s then None
  else let h0 := skipn s h in
       shift s (scalar_loop (pats T) h0 0 (S (length h0) - min_len (pats T))).

(* the dumped tables are exactly what the model of buildMasks computes, and pass masks_ok *)
Definition check_dump (d : tdump) : bool :=
  let T := td_T d in
  let T' := new_teddy_gen (fat T) (pats T) (td_cfgfp d) in
  masks_ok T && buckets_sorted T &&
  (fplen (tm T) =? fplen (tm T')) &&
  list_eqb (list_eqb N.eqb) (lo (tm T)) (lo (tm T')) &&
  list_eqb (list_eqb N.eqb) (hi (tm T)) (hi (tm T')) &&
  list_eqb (list_eqb Nat.eqb) (bkts T) (bkts T').

(* model (run on the DUMPED masks, pure-Go candidate finder) = observation *)
Definition check_model (c : case) : bool :=
  let T := td_T (c_td c) in
  let h := c_hay c in let s := c_start c in
  match c_api c with
  | 0%N => check_dump (c_td c) && (zpos (teddy_find_scalar T h s) =? c_obs_start c)%Z
  | 1%N => check_dump (c_td c) &&
           (let '(p, e) := zspan (teddy_findmatch_scalar T h s) in
            (p =? c_obs_start c)%Z && (e =? c_obs_end c)%Z)
  | 2%N => check_dump (c_td c) &&
           (zpos (option_map fst (forced_scalar T h s)) =? c_obs_start c)%Z
  | 3%N => check_dump (c_td c) &&
           (let '(p, e) := zspan (match forced_scalar T h s with
                                  | Some (p, pid) => Some (p, p + length (nth pid (pats T) []))
                                  | None => None end) in
            (p =? c_obs_start c)%Z && (e =? c_obs_end c)%Z)
  | _ => true
  end.

(* specification = observation *)
Definition check_spec (c : case) : bool :=
  let L := pats (td_T (c_td c)) in
  let h := c_hay c in let s := c_start c in
  match c_api c with
  | 0%N | 2%N | 4%N => (zpos (pf_find L h s) =? c_obs_start c)%Z
  | 1%N | 3%N =>
      let '(p, e) := zspan (pf_findmatch L h s) in
      (p =? c_obs_start c)%Z && (e =? c_obs_end c)%Z
  | 5%N => (zpos (scan_from (line_occ L h) s (S (length h) - s)) =? c_obs_start c)%Z
  | 6%N => (zpos (scan_from (fun i => is_digit (nth i h 0%N)) s (length h - s)) =? c_obs_start c)%Z
  | _ => false
  end.

Definition check_case (c : case) : bool := check_model c && check_spec c.

Definition failing (f : case -> bool) (cs : list case) : list N :=
  map c_id (filter (fun c => negb (f c)) cs).

(* ids of the cases where the observation differs from the specification or the model *)
Definition mismatches (cs : list case) : list N := failing check_case cs.
(* ids where the MODEL (or masks_ok / the buildMasks model) disagrees with the observation:
   must be empty even when the implementation violates the property *)
Definition model_mismatches (cs : list case) : list N := failing check_model cs.
(* ids where the observation violates the SPECIFICATION (genuine defects) *)
Definition spec_mismatches (cs : list case) : list N := failing check_spec cs.
