(* Props_C06.v — property C06 "a compiled Regex is safe for concurrent use":
   statements only; models and proofs are in Pool.v.

   Reading guide.  [grun … sched (init_state … prog)] is the state reached by the
   protocol of /repo/meta/engine.go:getSearchState/putSearchState (Swap(nil) / pool.Get
   / New; reset; CompareAndSwap(nil,s) / reset; pool.Put) when goroutine g has the
   call list [prog g] and the scheduler (including GC drops of pooled states and the
   choice made by sync.Pool.Get) is [sched].  All theorems quantify over an arbitrary
   number of goroutines, arbitrary call lists and arbitrary schedules, and over an
   arbitrary search function [use] / [reset] acting on the state a goroutine holds.
   What is NOT covered: that every search method of the Engine confines its writes to
   the SearchState it acquired (see go/harness/c06_protocol.go and the shared call
   site obligation), the Go memory model, sync.Pool internals. *)

From Coq Require Import List NArith.
From CV Require Import Pool.
Import ListNotations.

Theorem C06_pool_exclusive_ownership :
  forall (data input output : Type) (init : data)
         (use : data -> input -> data * output) (reset : data -> data)
         (prog : gid -> list (call input)) (sched : list choice),
    let σ := grun data input output init use reset sched
               (init_state data input output init prog) in
    NoDup (map snd (held data input output σ) ++
           slot_ids (slot data input output σ) ++ pool data input output σ) /\
    Forall (fun s : nat => s < next_fresh data input output σ)
           (map snd (held data input output σ) ++
            slot_ids (slot data input output σ) ++ pool data input output σ) /\
    (forall (g : gid) (s : id),
        pc_id input output (pc input output (gst data input output σ g)) = Some s ->
        In (g, s) (held data input output σ)).
Proof. exact Pool.pool_exclusive_ownership. Qed.
Print Assumptions C06_pool_exclusive_ownership.

Theorem C06_no_shared_state :
  forall (data input output : Type) (init : data)
         (use : data -> input -> data * output) (reset : data -> data)
         (prog : gid -> list (call input)) (sched : list choice)
         (g1 g2 : gid) (s : id),
    let σ := grun data input output init use reset sched
               (init_state data input output init prog) in
    pc_id input output (pc input output (gst data input output σ g1)) = Some s ->
    pc_id input output (pc input output (gst data input output σ g2)) = Some s ->
    g1 = g2.
Proof. exact Pool.no_shared_state. Qed.
Print Assumptions C06_no_shared_state.

Theorem C06_log_well_bracketed :
  forall (data input output : Type) (init : data)
         (use : data -> input -> data * output) (reset : data -> data)
         (prog : gid -> list (call input)) (sched : list choice),
    wb (log data input output
          (grun data input output init use reset sched
             (init_state data input output init prog))).
Proof. exact Pool.log_well_bracketed. Qed.
Print Assumptions C06_log_well_bracketed.

Theorem C06_no_conflicting_access :
  forall (data input output : Type) (init : data)
         (use : data -> input -> data * output) (reset : data -> data)
         (prog : gid -> list (call input)) (sched : list choice)
         (t1 t2 t3 : list event) (g g' : gid) (s : id),
    log data input output
      (grun data input output init use reset sched
         (init_state data input output init prog))
    = t3 ++ EvAcc g' s :: t2 ++ EvAcq g s :: t1 ->
    ~ In (EvRel g s) t2 ->
    g' = g.
Proof. exact Pool.no_conflicting_access. Qed.
Print Assumptions C06_no_conflicting_access.

Theorem C06_step_touches_only_own :
  forall (data input output : Type) (init : data)
         (use : data -> input -> data * output) (reset : data -> data)
         (g : gid) (k : nat) (σ : state data input output) (s : id),
    store data input output (gstep data input output init use reset (Go g k) σ) s
      = store data input output σ s \/
    pc_id input output (pc input output (gst data input output σ g)) = Some s \/
    (s = next_fresh data input output σ /\
     next_fresh data input output (gstep data input output init use reset (Go g k) σ) = S s).
Proof. exact Pool.step_touches_only_own. Qed.
Print Assumptions C06_step_touches_only_own.

Theorem C06_gc_frame :
  forall (data input output : Type) (init : data)
         (use : data -> input -> data * output) (reset : data -> data)
         (k : nat) (σ : state data input output),
    let σ' := gstep data input output init use reset (Gc k) σ in
    (forall s, store data input output σ' s = store data input output σ s) /\
    slot data input output σ' = slot data input output σ /\
    held data input output σ' = held data input output σ /\
    log data input output σ' = log data input output σ.
Proof. exact Pool.gc_frame. Qed.
Print Assumptions C06_gc_frame.

(* The premise [use_history_independent] is property C13 for the per-search state:
   forall d reachable from init by use/reset, forall i, snd (use d i) = snd (use init i). *)
Theorem C06_concurrent_eq_sequential :
  forall (data input output : Type) (init : data)
         (use : data -> input -> data * output) (reset : data -> data),
    (forall (d : data) (i : input),
        Reach data input output init use reset d -> snd (use d i) = snd (use init i)) ->
    forall (prog : gid -> list (call input)) (sched : list choice)
           (g : gid) (c : call input) (outs : list output),
      In (c, outs)
         (fin input output
            (gst data input output
               (grun data input output init use reset sched
                  (init_state data input output init prog)) g)) ->
      outs = run_call_alone data input output use init c.
Proof. exact Pool.concurrent_eq_sequential. Qed.
Print Assumptions C06_concurrent_eq_sequential.

Theorem C06_calls_conserved :
  forall (data input output : Type) (init : data)
         (use : data -> input -> data * output) (reset : data -> data)
         (prog : gid -> list (call input)) (sched : list choice) (g : gid),
    calls_of input output
      (gst data input output
         (grun data input output init use reset sched
            (init_state data input output init prog)) g)
    = prog g.
Proof. exact Pool.calls_conserved. Qed.
Print Assumptions C06_calls_conserved.

Theorem C06_step_never_blocks :
  forall (data input output : Type) (init : data)
         (use : data -> input -> data * output) (reset : data -> data)
         (g : gid) (k : nat) (σ : state data input output),
    has_work input output (gst data input output σ g) ->
    gst data input output (gstep data input output init use reset (Go g k) σ) g
      <> gst data input output σ g.
Proof. exact Pool.step_never_blocks. Qed.
Print Assumptions C06_step_never_blocks.

Theorem C06_atomic_counters_commute :
  forall (sched : list nat) (c0 : N) (incs : list (list N)),
    (c0 < Counter.M64)%N ->
    Counter.finished (Counter.crun sched (Counter.mkC c0 incs)) = true ->
    Counter.cval (Counter.crun sched (Counter.mkC c0 incs))
      = ((c0 + Counter.total incs) mod Counter.M64)%N.
Proof. exact Pool.Counter.atomic_counters_commute. Qed.
Print Assumptions C06_atomic_counters_commute.

Theorem C06_atomic_counters_schedule_independent :
  forall (sched1 sched2 : list nat) (c0 : N) (incs : list (list N)),
    (c0 < Counter.M64)%N ->
    Counter.finished (Counter.crun sched1 (Counter.mkC c0 incs)) = true ->
    Counter.finished (Counter.crun sched2 (Counter.mkC c0 incs)) = true ->
    Counter.cval (Counter.crun sched1 (Counter.mkC c0 incs))
      = Counter.cval (Counter.crun sched2 (Counter.mkC c0 incs)).
Proof. exact Pool.Counter.atomic_counters_schedule_independent. Qed.
Print Assumptions C06_atomic_counters_schedule_independent.

(* Controls: the theorems depend on the protocol. *)

Theorem C06_get_without_swap_refuted :
  forall (data input output : Type) (init : data)
         (use : data -> input -> data * output) (reset : data -> data),
  exists (prog : gid -> list (call input)) (sched : list choice) (g1 g2 : gid) (s : id),
    g1 <> g2 /\
    holder_of data input output
      (run data input output init use reset GetLoad PutCas sched
         (init_state data input output init prog)) g1 = Some s /\
    holder_of data input output
      (run data input output init use reset GetLoad PutCas sched
         (init_state data input output init prog)) g2 = Some s.
Proof. exact Pool.get_without_swap_refuted. Qed.
Print Assumptions C06_get_without_swap_refuted.

(* variant: Store into the slot, CAS result not consulted, then also pool.Put *)
Theorem C06_put_without_cas_refuted :
  forall (data input output : Type) (init : data)
         (use : data -> input -> data * output) (reset : data -> data),
  exists (prog : gid -> list (call input)) (sched : list choice) (g1 g2 : gid) (s : id),
    g1 <> g2 /\
    holder_of data input output
      (run data input output init use reset GetSwap PutStoreFall sched
         (init_state data input output init prog)) g1 = Some s /\
    holder_of data input output
      (run data input output init use reset GetSwap PutStoreFall sched
         (init_state data input output init prog)) g2 = Some s.
Proof. exact Pool.put_without_cas_refuted. Qed.
Print Assumptions C06_put_without_cas_refuted.

(* variant: `Store(state); return` — no ownership violation, the slot's previous
   content is overwritten and leaks *)
Theorem C06_put_store_overwrite_leaks :
  forall (data input output : Type) (init : data)
         (use : data -> input -> data * output) (reset : data -> data),
  exists (prog : gid -> list (call input)) (sched : list choice) (s : id),
    let σ := run data input output init use reset GetSwap PutStoreRet sched
               (init_state data input output init prog) in
    s < next_fresh data input output σ /\
    ~ In s (all_ids data input output σ) /\
    pool data input output σ = [] /\
    slot data input output σ = Some 1.
Proof. exact Pool.put_store_overwrite_leaks. Qed.
Print Assumptions C06_put_store_overwrite_leaks.

Theorem C06_nonatomic_counter_refuted :
  exists (sched : list nat) (incs : list (list N)),
    let σ := Counter.nrun sched (Counter.mkN 0%N (map (fun r => (r, None)) incs)) in
    forallb (fun p => match p with ([], None) => true | _ => false end) (Counter.ngs σ) = true /\
    Counter.nval σ <> (Counter.total incs mod Counter.M64)%N.
Proof. exact Pool.Counter.nonatomic_counter_refuted. Qed.
Print Assumptions C06_nonatomic_counter_refuted.

(* The protocol the theorems are about is the one of the pinned source. *)
Theorem C06_protocol_ok_pinned : protocol_ok get_protocol put_protocol = true.
Proof. exact Pool.protocol_ok_pinned. Qed.
Print Assumptions C06_protocol_ok_pinned.

Theorem C06_protocol_ok_exact :
  forall get put : list action,
    protocol_ok get put = true ->
    strip_inline get = [ASwapSlot; AIfNil; APoolGet; AEndIf] /\
    strip_nil_guard (strip_inline put) =
      [AReset; ACasSlot; AIfCasOk; AReturn; AEndIf; AReset; APoolPut].
Proof. exact Pool.protocol_ok_exact. Qed.
Print Assumptions C06_protocol_ok_exact.
