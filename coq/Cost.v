(* Cost.v — step counting for property C05 (linear time).
   (a) bounded backtracker: the visit bounds are proved in Backtrack.v (re-exported in
       Props_C05.v);
   (b) PikeVM set simulation (nfa/pikevm.go): per haystack position every NFA state enters
       the thread list at most once (sparse-set `Visited`), one transition scan per thread
       per byte:  pike_steps A h <= 2 * nstates A * (length h + 1);
   (c) lazy DFA (dfa/lazy/lazy.go) at the level of the cache accounting of Cache.v: one table
       step per byte, plus a bounded number of determinizations over the whole life of a
       cache, plus one NFA fallback:  dfa_cost_bound;
   (d) reverse-suffix candidate loop with the minStart barrier (meta/reverse_suffix.go,
       lazy.go:SearchReverseLimited): all backward scans together read every byte at most
       once: rev_limited_amortised; without the barrier the same loop is quadratic;
   (e) CompositeSearcher (nfa/composite.go:matchAtWithBacktrack): the recursion over parts
       with overlapping classes is NOT linear: composite_superlinear_refuted. *)
From Coq Require Import List NArith Lia Bool Arith PeanoNat.
From Coq Require Import ZifyBool ZifyNat ZifyN.
From CV Require Import Nfa Cache.
Import ListNotations.

(* ================================================================== (b) PikeVM *)
(* one generation: visited flags (internal/sparse set `Visited`), the thread list (newest
   first) and the number of insertions into the set *)
Record gen := mkG { gvis : list bool; gthr : list nat; gpush : nat }.

Fixpoint free (v : list bool) : nat :=
  match v with [] => 0 | b :: t => (if b then 0 else 1) + free t end.

Lemma free_le v : free v <= length v.
Proof. induction v as [|b t IH]; cbn [free length]; [lia|]. destruct b; lia. Qed.

Lemma free_repeat n : free (repeat false n) = n.
Proof. induction n; cbn [repeat free]; lia. Qed.

Lemma free_mark v q : nth_error v q = Some false -> S (free (set_nth v q true)) = free v.
Proof.
  revert q. induction v as [|b t IH]; intros [|q] H; cbn [nth_error set_nth free] in *; try discriminate.
  - inversion H; subst. lia.
  - specialize (IH q H). lia.
Qed.

Lemma set_nth_len {T} (l : list T) i v : length (set_nth l i v) = length l.
Proof. revert i. induction l as [|x t IH]; intros [|i]; cbn [set_nth length]; auto. Qed.

(* nfa/pikevm.go: addThread / epsilon closure.  A state is entered only if
   Visited.Insert succeeds; byte-consuming states and Match become threads *)
Fixpoint clo (A : nfa) (h : hay) (p : nat) (fuel : nat) (q : nat) (g : gen) : gen :=
  match fuel with
  | 0 => g
  | S f =>
      match nth_error (gvis g) q with
      | Some false =>
          let g1 := mkG (set_nth (gvis g) q true) (gthr g) (S (gpush g)) in
          match nth_error (states A) q with
          | Some (SSplit l r) => clo A h p f r (clo A h p f l g1)
          | Some (SEpsilon nx) => clo A h p f nx g1
          | Some (SCapture _ _ nx) => clo A h p f nx g1
          | Some (SLook lk nx) => if look_ok lk h p then clo A h p f nx g1 else g1
          | Some _ => mkG (gvis g1) (q :: gthr g1) (gpush g1)
          | None => g1
          end
      | _ => g          (* already visited, or not a state *)
      end
  end.

Definition gen_ok (n : nat) (g : gen) : Prop :=
  gpush g + free (gvis g) = n /\ length (gthr g) <= gpush g /\ length (gvis g) = n.

Definition fresh_gen (n : nat) : gen := mkG (repeat false n) [] 0.

Lemma fresh_gen_ok n : gen_ok n (fresh_gen n).
Proof. unfold gen_ok, fresh_gen. cbn. rewrite free_repeat, repeat_length. lia. Qed.

Lemma clo_ok A h p n fuel : forall q g, gen_ok n g -> gen_ok n (clo A h p fuel q g).
Proof.
  induction fuel as [|f IH]; intros q g Hg; cbn [clo]; [exact Hg|].
  destruct (nth_error (gvis g) q) as [[|]|] eqn:Hv; try exact Hg.
  assert (Hg1 : gen_ok n (mkG (set_nth (gvis g) q true) (gthr g) (S (gpush g)))).
  { destruct Hg as [H1 [H2 H3]]. unfold gen_ok. cbn. pose proof (free_mark _ _ Hv). rewrite set_nth_len. lia. }
  assert (Hpush : gen_ok n (mkG (set_nth (gvis g) q true) (q :: gthr g) (S (gpush g)))).
  { destruct Hg as [H1 [H2 H3]]. unfold gen_ok. cbn. pose proof (free_mark _ _ Hv). rewrite set_nth_len. lia. }
  destruct (nth_error (states A) q) as [[| | | | | | |]|]; cbn [gvis gthr gpush]; auto.
  destruct (look_ok lk h p); auto.
Qed.

(* nfa/pikevm.go: the per-byte step: every thread of the current list is scanned once;
   a thread that consumes the byte adds the closure of its target to the next generation.
   (A Match thread cuts the lower-priority threads in the real loop; scanning them anyway
   can only cost more.)  Returns the next generation. *)
Definition thread_target (A : nfa) (h : hay) (p q : nat) : option nat :=
  match nth_error (states A) q, nth_error h p with
  | Some (SByteRange lo hi nx), Some b => if in_range lo hi b then Some nx else None
  | Some (SSparse trs), Some b => sparse_next trs b
  | _, _ => None
  end.

Fixpoint step_threads (A : nfa) (h : hay) (p : nat) (cl : list nat) (g : gen) : gen :=
  match cl with
  | [] => g
  | q :: t =>
      let g' := match thread_target A h p q with
                | Some nx => clo A h (S p) (S (nstates A)) nx g
                | None => g
                end in
      step_threads A h p t g'
  end.

Lemma step_threads_ok A h p n cl : forall g, gen_ok n g -> gen_ok n (step_threads A h p cl g).
Proof.
  induction cl as [|q t IH]; intros g Hg; cbn [step_threads]; [exact Hg|].
  apply IH. destruct (thread_target A h p q); [apply clo_ok|]; exact Hg.
Qed.

(* the search loop over positions p = |h| - k .. |h|: add the (unanchored) start thread to
   the current generation, count the generation's insertions and its transition scans, then
   step.  `g` holds the threads that arrived from the previous byte. *)
Fixpoint pike_loop (A : nfa) (h : hay) (k p : nat) (g : gen) (total : nat) : nat :=
  let g1 := clo A h p (S (nstates A)) (start_unanch A) g in
  let total' := total + gpush g1 + length (gthr g1) in
  match k with
  | 0 => total'
  | S k' => pike_loop A h k' (S p) (step_threads A h p (rev (gthr g1)) (fresh_gen (nstates A))) total'
  end.

Definition pike_steps (A : nfa) (h : hay) : nat :=
  pike_loop A h (length h) 0 (fresh_gen (nstates A)) 0.

Lemma gen_ok_bounds n g : gen_ok n g -> gpush g <= n /\ length (gthr g) <= n.
Proof. intros [H1 [H2 H3]]. lia. Qed.

Lemma pike_loop_bound A h : forall k p g total,
  gen_ok (nstates A) g ->
  pike_loop A h k p g total <= total + 2 * nstates A * (k + 1).
Proof.
  induction k as [|k IH]; intros p g total Hg; cbn [pike_loop];
    pose proof (clo_ok A h p (nstates A) (S (nstates A)) (start_unanch A) g Hg) as Hg1;
    destruct (gen_ok_bounds _ _ Hg1) as [B1 B2].
  - lia.
  - etransitivity; [apply IH; apply step_threads_ok; apply fresh_gen_ok|]. lia.
Qed.

Theorem pike_steps_bound A h : pike_steps A h <= 2 * nstates A * (length h + 1).
Proof. unfold pike_steps. pose proof (pike_loop_bound A h (length h) 0 _ 0 (fresh_gen_ok (nstates A))). lia. Qed.

(* doubling the haystack at most doubles the bound (+ one position) *)
Corollary pike_steps_doubling A (h h' : hay) :
  length h' = 2 * length h -> pike_steps A h' <= 2 * (2 * nstates A * (length h + 1)).
Proof. intros E. pose proof (pike_steps_bound A h'). rewrite E in H. lia. Qed.

(* ================================================================== (c) lazy DFA *)
(* what one byte of a DFA search does to the accounting *)
Inductive dfa_ev :=
| EvHit                      (* flatTrans lookup succeeds *)
| EvFill                     (* determinize finds the target in the map: one table entry is filled *)
| EvNew (k k0 k1 : nat) (hit_cur hit_new : bool).   (* determinize builds a new state: cache.Insert
                                 (parameters as in Cache.OpDeterminize) *)

Section Dfa.
  Variables (mc : nat) (D : nat) (P : nat) (Fmax : nat).
  (* D: cost of one determinization (move + epsilon closure, proportional to nstates);
     P: cost of the NFA fallback (pike_steps_bound); Fmax: entries of flatTrans that can be
     filled between two clears (<= (capacity + 8*stride)/4 by Cache.inv) *)

  (* returns the cost; the search ends (NFA fallback) when Insert is refused and no clear
     is left.  u = table entries still unfilled in this epoch. *)
  Fixpoint dfa_cost (evs : list dfa_ev) (c : dcache) (u : nat) : nat :=
    match evs with
    | [] => 0
    | EvHit :: t => 1 + dfa_cost t c u
    | EvFill :: t =>
        match u with
        | 0 => 1 + dfa_cost t c u
        | S u' => 1 + D + dfa_cost t c u'
        end
    | EvNew k k0 k1 hc hn :: t =>
        if (capacity c <=? memory_usage c) && (mc <=? clear_count c) then 1 + D + P
        else
          let c' := step mc c (OpDeterminize k k0 k1 hc hn) in
          let u' := if clear_count c <? clear_count c' then Fmax else u in
          1 + D + dfa_cost t c' u'
    end.

  Definition dfa_potential (c : dcache) (u : nat) : nat :=
    potential mc c + u + (mc - clear_count c) * Fmax.

  Lemma dfa_cost_potential evs : forall c u,
    nstates_in_map c <= fit (capacity c) ->
    dfa_cost evs c u <= length evs + D * (dfa_potential c u + 1) + P.
  Proof.
    induction evs as [|e t IH]; intros c u Hfit; cbn [dfa_cost length]; [lia|].
    destruct e as [| |k k0 k1 hc hn].
    - specialize (IH c u Hfit). lia.
    - destruct u as [|u'].
      + specialize (IH c 0 Hfit). lia.
      + specialize (IH c u' Hfit). unfold dfa_potential in *. nia.
    - destruct ((capacity c <=? memory_usage c) && (mc <=? clear_count c)) eqn:Hg; [nia|].
      destruct (step_potential mc c (OpDeterminize k k0 k1 hc hn) I Hfit) as [S1 [S2 S3]].
      set (c' := step mc c (OpDeterminize k k0 k1 hc hn)) in *.
      assert (Hfit' : nstates_in_map c' <= fit (capacity c')) by (rewrite S2; exact S1).
      assert (Hev : 1 <= events_of mc c (OpDeterminize k k0 k1 hc hn)).
      { cbn [events_of]. unfold full. destruct (capacity c <=? memory_usage c); [|lia].
        destruct (mc <=? clear_count c); [discriminate|lia]. }
      pose proof (step_clear_count mc c (OpDeterminize k k0 k1 hc hn)) as Hcc. fold c' in Hcc.
      pose proof (step_clear_count_mono mc c (OpDeterminize k k0 k1 hc hn) I) as Hmono. fold c' in Hmono.
      destruct (Nat.ltb_spec (clear_count c) (clear_count c')) as [Hlt|Hge].
      + specialize (IH c' Fmax Hfit'). unfold dfa_potential in *.
        assert (Hmc : clear_count c' <= mc) by lia.
        assert ((mc - clear_count c) * Fmax >= (mc - clear_count c') * Fmax + Fmax) by nia.
        nia.
      + specialize (IH c' u Hfit'). unfold dfa_potential in *.
        assert (clear_count c' = clear_count c) by lia.
        assert ((mc - clear_count c) * Fmax = (mc - clear_count c') * Fmax) by (f_equal; lia).
        nia.
  Qed.

  (* a whole history on one fresh cache: the haystack bytes are paid once each; everything
     else is bounded by the configuration, not by the haystacks *)
  Theorem dfa_cost_bound evs cap str :
    dfa_cost evs (new_cache cap str) Fmax <=
    length evs + D * ((mc + 1) * (cap / 48 + 2) + (mc + 1) * Fmax + 1) + P.
  Proof.
    pose proof (dfa_cost_potential evs (new_cache cap str) Fmax) as H.
    unfold dfa_potential, potential, fit, new_cache in H.
    cbn [nstates_in_map capacity clear_count] in H. specialize (H ltac:(lia)).
    fold (new_cache cap str) in H. set (x := dfa_cost evs (new_cache cap str) Fmax) in *.
    set (d := cap / 48) in *. clearbody x d. nia.
  Qed.
End Dfa.

(* ================================================================== (d) reverse suffix *)
(* meta/reverse_suffix.go:findIndicesAtImpl / IsMatch: candidates in the order the prefilter
   yields them, as (suffixEnd, lowest index read by SearchReverseLimited).  The rules the code
   enforces: the scan never goes below lowerBound = max(at, minStart); suffixEnd never
   decreases from one candidate to the next; after a failed candidate minStart := suffixEnd. *)
Fixpoint rev_scan_total (cands : list (nat * nat)) : nat :=
  match cands with
  | [] => 0
  | (e, s) :: t => (e - s) + rev_scan_total t
  end.

Fixpoint barrier_ok (at_ len min_start : nat) (cands : list (nat * nat)) : Prop :=
  match cands with
  | [] => True
  | (e, s) :: t => Nat.max at_ min_start <= s /\ min_start <= e /\ e <= len /\ barrier_ok at_ len e t
  end.

Lemma rev_limited_telescope at_ len cands : forall m,
  barrier_ok at_ len m cands -> m <= len -> rev_scan_total cands + m <= len.
Proof.
  induction cands as [|[e s] t IH]; intros m H Hm; cbn [rev_scan_total barrier_ok] in *; [lia|].
  destruct H as [H1 [H2 [H3 H4]]]. specialize (IH e H4 H3). lia.
Qed.

Theorem rev_limited_amortised (h : hay) at_ cands :
  barrier_ok at_ (length h) at_ cands -> at_ <= length h ->
  rev_scan_total cands <= length h - at_.
Proof. intros H Hat. pose proof (rev_limited_telescope at_ (length h) cands at_ H Hat). lia. Qed.

(* with the single fallback scan that follows SearchReverseLimitedQuadratic *)
Corollary rev_limited_amortised_2 (h : hay) at_ cands fallback :
  barrier_ok at_ (length h) at_ cands -> at_ <= length h -> fallback <= length h - at_ ->
  rev_scan_total cands + fallback <= 2 * length h.
Proof. intros H Hat Hf. pose proof (rev_limited_amortised h at_ cands H Hat). lia. Qed.

(* without the barrier (SearchReverse from every candidate down to `at`) k candidates spaced
   d apart cost d * k(k+1)/2 *)
Fixpoint unlimited_cands (d k : nat) : list (nat * nat) :=
  match k with 0 => [] | S k' => unlimited_cands d k' ++ [(d * k, 0)] end.

Lemma rev_scan_total_app a b : rev_scan_total (a ++ b) = rev_scan_total a + rev_scan_total b.
Proof. induction a as [|[e s] t IH]; cbn [app rev_scan_total]; lia. Qed.

Theorem rev_unlimited_quadratic d k : 2 * rev_scan_total (unlimited_cands d k) = d * (k * (k + 1)).
Proof.
  induction k as [|k IH]; cbn [unlimited_cands]; [cbn; lia|].
  rewrite rev_scan_total_app. cbn [rev_scan_total]. nia.
Qed.

(* ================================================================== (e) CompositeSearcher *)
(* nfa/composite.go: type charClassPart (membership table, minMatch, maxMatch; 0 = unbounded) *)
Record part := mkPart { pmem : N -> bool; pmin : nat; pmax : nat }.

Fixpoint count_prefix (f : N -> bool) (l : list N) (limit : nat) : nat :=
  match limit, l with
  | S lim, b :: t => if f b then S (count_prefix f t lim) else 0
  | _, _ => 0
  end.

(* nfa/composite.go: matchAtWithBacktrack.  Returns (end, number of invocations). *)
Fixpoint mbt (parts : list part) (h : hay) (pos : nat) : option nat * N :=
  match parts with
  | [] => (Some pos, 1%N)
  | p :: rest =>
      let n := length h in
      let max_len := if (0 <? pmax p) && (pmax p <? n - pos) then pmax p else n - pos in
      let can := count_prefix (pmem p) (skipn pos h) max_len in
      (* for tryLen := canConsume; tryLen >= part.minMatch; tryLen-- *)
      (fix try (j : nat) (calls : N) {struct j} : option nat * N :=
         match j with
         | 0 => (None, calls)
         | S j' =>
             let try_len := pmin p + j' in
             match mbt rest h (pos + try_len) with
             | (Some e, c) => (Some e, (calls + c)%N)
             | (None, c) => try j' (calls + c)%N
             end
         end) (S can - pmin p) 1%N
  end.

(* nfa/composite.go: SearchAt — for pos := at; pos <= n; pos++ *)
Fixpoint composite_search (parts : list part) (h : hay) (k pos : nat) (calls : N) : option (nat * nat) * N :=
  match mbt parts h pos with
  | (Some e, c) => (Some (pos, e), (calls + c)%N)
  | (None, c) =>
      match k with
      | 0 => (None, (calls + c)%N)
      | S k' => composite_search parts h k' (S pos) (calls + c)%N
      end
  end.

Definition is_lower (b : N) : bool := ((97 <=? b) && (b <=? 122))%N.
Definition is_digit (b : N) : bool := ((48 <=? b) && (b <=? 57))%N.

(* [a-z]+[a-z]+[a-z]+[0-9] *)
Definition parts_3lower_digit : list part :=
  [mkPart is_lower 1 0; mkPart is_lower 1 0; mkPart is_lower 1 0; mkPart is_digit 1 1].
(* [a-z]+[0-9]: one class run, no overlap *)
Definition parts_lower_digit : list part := [mkPart is_lower 1 0; mkPart is_digit 1 1].

Definition composite_calls (parts : list part) (n : nat) : N :=
  snd (composite_search parts (repeat 97%N n) n 0 0%N).

(* on a^n (no digit: no match) the number of invocations grows by a factor > 8 per
   doubling for the three overlapping classes (it is Theta(n^4)), while C05 allows ~2 *)
Theorem composite_superlinear_refuted :
  fst (composite_search parts_3lower_digit (repeat 97%N 16) 16 0 0%N) = None /\
  (8 * composite_calls parts_3lower_digit 8 <? composite_calls parts_3lower_digit 16)%N = true /\
  (8 * composite_calls parts_3lower_digit 16 <? composite_calls parts_3lower_digit 32)%N = true /\
  (1000 * 33 <? composite_calls parts_3lower_digit 32)%N = true.
Proof. repeat split; vm_compute; reflexivity. Qed.

(* two parts without overlap: still quadratic on a^n, because SearchAt restarts the greedy
   run at every position *)
Theorem composite_two_parts_quadratic :
  (3 * composite_calls parts_lower_digit 16 <? composite_calls parts_lower_digit 32)%N = true /\
  (3 * composite_calls parts_lower_digit 32 <? composite_calls parts_lower_digit 64)%N = true.
Proof. split; vm_compute; reflexivity. Qed.

(* ================================================================== case checker
   A case is one (family, API) series measured by `harness c05`: NFA size, the constant K,
   whether all measured doublings count (the family had to be stopped early), the verdict the
   harness computed, and the observations (n, work) with work = executed statements of
   library code.  check_case recomputes the verdict from the numbers. *)
Record case := mkCase {
  c_id : N; c_states : N; c_K : N; c_all : bool; c_flagged : bool; c_obs : list (N * N) }.

Definition slack : N := 30000.

Local Open Scope N_scope.

(* (number of doublings checked, number of doublings with work(2n) > 2.6*work(n) + slack) *)
Fixpoint doublings (all : bool) (obs : list (N * N)) : N * N :=
  match obs with
  | (n1, w1) :: (((n2, w2) :: _) as t) =>
      let '(chk, bad) := doublings all t in
      if (n2 =? 2 * n1) && (all || (512 <=? n2)) then
        (chk + 1, if 26 * w1 + 10 * slack <? 10 * w2 then bad + 1 else bad)
      else (chk, bad)
  | _ => (0, 0)
  end.

Definition over_k (st K : N) (obs : list (N * N)) : bool :=
  existsb (fun '(n, w) => K * st * (n + 1) <? w) obs.

Definition superlinear (c : case) : bool :=
  let '(chk, bad) := doublings (c_all c) (c_obs c) in
  (2 <=? bad) || ((bad =? 1) && (chk <=? 2)) || over_k (c_states c) (c_K c) (c_obs c).

Definition check_case (c : case) : bool := Bool.eqb (superlinear c) (c_flagged c).

Definition mismatches (cs : list case) : list N := map c_id (filter (fun c => negb (check_case c)) cs).
Definition flagged (cs : list case) : list N := map c_id (filter superlinear cs).
