(* Utf8Width.v — the two UTF-8 decoders of this development agree on the width:
   FindAll.decode_width (the table-driven width used by the enumeration-loop theorems,
   regexp's inputBytes.step) is the second component of Utf8.decode (the decoder proved
   inverse to the encoder).  For every list of N, including "bytes" >= 256. *)
From Coq Require Import List ZArith NArith Lia Bool Arith.
From Coq Require Import ZifyBool ZifyNat ZifyN.
From CV Require Import FindAll Utf8.
Import ListNotations.

Ltac split_cmp :=
  repeat (match goal with
   | |- context [N.eqb ?a ?b] => destruct (N.eqb_spec a b)
   | |- context [N.ltb ?a ?b] => destruct (N.ltb_spec a b)
   | |- context [N.leb ?a ?b] => destruct (N.leb_spec a b)
   end; try (exfalso; lia); cbn [andb orb negb fst snd Nat.leb Nat.ltb length nth]).

Lemma decode_width_decode p r w : Utf8.decode p = Some (r, w) -> decode_width p = w.
Proof.
  destruct p as [|b0 t]; [discriminate|].
  unfold decode_width, lead_info, Utf8.decode, Utf8.bad, in_rng, Utf8.is_cont.
  destruct t as [|b1 [|b2 [|b3 t]]]; cbn [length nth]; split_cmp; intros Hdec; inversion Hdec; reflexivity.
Qed.

Lemma decode_width_is_decode p :
  decode_width p = match Utf8.decode p with Some (_, w) => w | None => 0 end.
Proof.
  destruct (Utf8.decode p) as [[r w]|] eqn:E.
  - now apply decode_width_decode in E.
  - destruct p as [|b t]; [reflexivity|]. destruct (Utf8.decode_cons_some b t) as [r [w E']]. congruence.
Qed.
