(* C10 — statements only.  In leftmost-longest mode (Longest(), CompilePOSIX) the reference
   answer on the NFA that /repo's compiler produced is: the leftmost start that has an
   accepting path and, among the paths from that start, the maximal end; the bounded
   backtracker with state.Longest = true returns exactly that from any reusable state; the
   mode flag belongs to one Regex value and is written into every search state on
   acquisition.  (That the public API in longest mode agrees with regexp per pattern and
   haystack is the correspondence run.) *)
From Coq Require Import List NArith Sorted.
From Coq Require Import FSets.FSetPositive.
From CV Require Import Nfa NfaRef Backtrack NfaLongest.
Import ListNotations.

(* one exhaustive exploration, any visited-set representation satisfying the set laws on the
   domain, any set that is empty on the domain, any fuel that suffices *)
Theorem C10_dfsl_spec_gen :
  forall (A : nfa) (h : hay) (VS : Type) (mem : nat -> nat -> VS -> bool) (add : nat -> nat -> VS -> VS) (lo : nat),
  (forall q p V, dom A h lo (q, p) -> mem q p (add q p V) = true) ->
  (forall q p q' p' V, dom A h lo (q, p) -> dom A h lo (q', p') -> (q, p) <> (q', p') ->
     mem q' p' (add q p V) = mem q' p' V) ->
  wf_nfa A = true ->
  forall f q p V r V',
  dom A h lo (q, p) -> (forall q' p', dom A h lo (q', p') -> mem q' p' V = false) ->
  dfsl A h VS mem add f q p V = (Done r, V') ->
  match r with
  | None => forall e, ~ nfa_path A h q p e
  | Some e => nfa_path A h q p e /\ forall e', nfa_path A h q p e' -> e' <= e
  end /\
  (forall c, inV A h VS mem lo V' c <-> reach A h (q, p) c).
Proof. exact dfsl_spec_gen. Qed.
Print Assumptions C10_dfsl_spec_gen.

Theorem C10_dfsl_total :
  forall A h, wf_nfa A = true -> forall lo q p, lo <= length h -> dom A h lo (q, p) ->
  fst (dfsl A h PositiveSet.t (pmem (nstates A)) (padd (nstates A)) (fuel_for A h) q p PositiveSet.empty)
  <> OutOfFuel.
Proof. exact dfsl_pset_total. Qed.
Print Assumptions C10_dfsl_total.

Theorem C10_dfsl_spec :
  forall A h, wf_nfa A = true -> forall lo q p, lo <= length h -> dom A h lo (q, p) ->
  exists r V',
    dfsl A h PositiveSet.t (pmem (nstates A)) (padd (nstates A)) (fuel_for A h) q p PositiveSet.empty
      = (Done r, V') /\
    (r = None <-> forall e, ~ nfa_path A h q p e) /\
    (forall e, r = Some e <-> nfa_path A h q p e /\ forall e', nfa_path A h q p e' -> e' <= e) /\
    (forall c, inV A h PositiveSet.t (pmem (nstates A)) lo V' c <-> reach A h (q, p) c).
Proof. exact dfsl_spec. Qed.
Print Assumptions C10_dfsl_spec.

Theorem C10_find_at_longest_spec :
  forall A h, wf_nfa A = true -> forall at_ s e,
  find_at_longest A h at_ = Done (Some (s, e)) <->
  (at_ <= s <= length h /\
   nfa_path A h (start_anch A) s e /\
   (forall e', nfa_path A h (start_anch A) s e' -> e' <= e) /\
   (forall s', at_ <= s' < s -> forall e', ~ nfa_path A h (start_anch A) s' e')).
Proof. exact find_at_longest_spec. Qed.
Print Assumptions C10_find_at_longest_spec.

Theorem C10_find_at_longest_none :
  forall A h, wf_nfa A = true -> forall at_,
  find_at_longest A h at_ = Done None <->
  (forall s, at_ <= s <= length h -> forall e, ~ nfa_path A h (start_anch A) s e).
Proof. exact find_at_longest_none. Qed.
Print Assumptions C10_find_at_longest_none.

Theorem C10_find_at_longest_total :
  forall A h, wf_nfa A = true -> forall at_, find_at_longest A h at_ <> OutOfFuel.
Proof. exact find_at_longest_total. Qed.
Print Assumptions C10_find_at_longest_total.

Theorem C10_match_ends_spec :
  forall A h, wf_nfa A = true -> forall s l, s <= length h -> match_ends A h s = Done l ->
  (forall e, In e l <-> nfa_path A h (start_anch A) s e) /\ StronglySorted lt l /\ NoDup l.
Proof. exact match_ends_spec. Qed.
Print Assumptions C10_match_ends_spec.

Theorem C10_match_ends_total :
  forall A h, wf_nfa A = true -> forall s, s <= length h -> match_ends A h s <> OutOfFuel.
Proof. exact match_ends_total. Qed.
Print Assumptions C10_match_ends_total.

Theorem C10_longest_ge_first :
  forall A h, wf_nfa A = true -> forall at_ s e sl s' e',
  find_at A h at_ = Done (Some (s, e, sl)) ->
  find_at_longest A h at_ = Done (Some (s', e')) ->
  s' = s /\ e <= e'.
Proof. exact longest_ge_first. Qed.
Print Assumptions C10_longest_ge_first.

Theorem C10_longest_none_iff_first_none :
  forall A h, wf_nfa A = true -> forall at_,
  find_at_longest A h at_ = Done None <-> find_at A h at_ = Done None.
Proof. exact longest_none_iff_first_none. Qed.
Print Assumptions C10_longest_none_iff_first_none.

Theorem C10_ref_search_at_longest_eq :
  forall A h at_, ref_search_at A true h at_ = find_at_longest A h at_.
Proof. exact ref_search_at_longest_eq. Qed.
Print Assumptions C10_ref_search_at_longest_eq.

Theorem C10_backtracker_longest_is_reference :
  forall W, (2 <= W)%N -> forall A mv st h at_,
  wf_nfa A = true -> bt_inv W st -> longest st = true -> at_ <= length h ->
  can_handle A mv (length h - at_) = true ->
  fst (bt_search_at W A mv st h at_) = find_at_longest A h at_.
Proof. exact bt_longest_is_find_at_longest. Qed.
Print Assumptions C10_backtracker_longest_is_reference.

Theorem C10_mode_is_per_value :
  forall (feat : nat -> bool * bool) (σ : store) (i : nat) (r : regex),
  st_get σ i = Some r ->
  (let '(σ1, j) := st_copy feat σ i in
   st_get (st_longest σ1 j) i = Some r /\
   exists rc, st_get (st_longest σ1 j) j = Some rc /\ re_longest rc = true /\
              eng_longest (re_engine rc) = true /\ pattern rc = pattern r) /\
  (let '(σ1, j) := st_compile feat σ (pattern r) in
   st_get (st_longest σ1 j) i = Some r /\
   exists rc, st_get (st_longest σ1 j) j = Some rc /\ re_longest rc = true /\
              eng_longest (re_engine rc) = true /\ pattern rc = pattern r) /\
  (forall j, j <> i -> st_get (st_longest σ j) i = Some r).
Proof. exact mode_is_per_value. Qed.
Print Assumptions C10_mode_is_per_value.

Theorem C10_search_state_gets_mode :
  forall (e : engine) (released : sstate) (b : bool),
  let e1 := eng_set_longest (put_search_state e released) b in
  ss_pike_longest (fst (get_search_state e1)) = b /\
  (eng_has_bt e1 = true -> ss_has_bt (fst (get_search_state e1)) = true ->
   ss_bt_longest (fst (get_search_state e1)) = b).
Proof. exact search_state_gets_mode. Qed.
Print Assumptions C10_search_state_gets_mode.

Theorem C10_longest_takes_effect :
  forall (σ : store) (i : nat) (r : regex),
  st_get σ i = Some r ->
  exists r', st_get (st_longest σ i) i = Some r' /\ re_longest r' = true /\
             ss_mode_ok (re_engine r') (fst (get_search_state (re_engine r'))) true.
Proof. exact longest_takes_effect. Qed.
Print Assumptions C10_longest_takes_effect.

Theorem C10_compile_posix_longest :
  forall feat p, re_longest (compile_posix feat p) = true /\
                 eng_longest (re_engine (compile_posix feat p)) = true.
Proof. exact compile_posix_longest. Qed.
Print Assumptions C10_compile_posix_longest.
