(* Compile.v — a Gallina model of the Thompson compiler nfa/compile.go (regexp/syntax AST ->
   nfa.NFA) and the theorem that the compiled automaton denotes the pattern.

   THE MODEL.  The Go compiler allocates states in a Builder, one `Add*` call per state, ids
   in allocation order, and wires a fragment (start, end) to what follows by `Patch(end,
   target)`.  Every fragment end produced by compileRegexp is a ByteRange / Epsilon /
   Capture / Look state (the kinds Patch accepts) and is patched exactly once, so all the
   "if Patch fails, insert an epsilon" branches of compile.go are dead code.  The model
   therefore builds the SAME state list in the SAME allocation order, but passes the patch
   target down: a `piece` maps the id `lo` of its first state and the target `k` of its
   exit to the list of its states (ids lo, lo+1, ...).  `compile r` is the complete state
   list, the two start states and the capture count exactly as CompileRegexp builds them
   (pattern, Match state, unanchored prefix), so that the correspondence run can compare it
   with the dumped NFA of the real compiler by plain equality — no renumbering.

   THE THEOREMS (for every pattern of the fragment, every haystack, every offset):
     compile_wf          wf_nfa (compile r)
     compile_sound/_complete   accepting path from the anchored start at i ending at j
                               <->  re_match code_atoms r h i j
     compile_is_match, compile_find_leftmost, compile_find_none   the reference search on
                               the compiled automaton against the pattern semantics
   `code_atoms` is the byte language of classes and dot AS BUILT (lists of byte-range
   sequences computed by the model of compileCharClass / compileUTF8Any); its relation to
   the specification `spec_atoms` (well-formed UTF-8) is stated separately. *)
From Coq Require Import List NArith ZArith Lia Bool Arith PeanoNat.
From Coq Require Import ZifyBool ZifyNat ZifyN.
From CV Require Import Nfa NfaRef Utf8 ClassAuto Regex.
Import ListNotations.

(* ================================================================== paths *)
(* successors without the capture slots *)
Definition nexts (h : hay) (st : nstate) (p : nat) : list (nat * nat) :=
  map (fun x => (fst (fst x), snd (fst x))) (succs h st p []).

Lemma edge_nexts A h c c' :
  edge A h c c' <-> exists st, nth_error (states A) (fst c) = Some st /\ In c' (nexts h st (snd c)).
Proof.
  split.
  - intros [st [sl [sl' [Hst Hin]]]]. exists st. split; [exact Hst|].
    destruct (succs_slots_irrel h st (snd c) sl [] _ _ _ Hin) as [s2 H2].
    unfold nexts. apply in_map_iff. exists (fst c', snd c', s2). split; [now destruct c'|exact H2].
  - intros [st [Hst Hin]]. unfold nexts in Hin. apply in_map_iff in Hin as [[[q p] s] [Heq Hin]].
    cbn [fst snd] in Heq. subst c'. exists st, [], s. split; [exact Hst|exact Hin].
Qed.

Lemma nexts_pos h st p c : In c (nexts h st p) -> p <= length h -> p <= snd c <= length h.
Proof.
  unfold nexts. intros Hin Hp. apply in_map_iff in Hin as [[[q p'] s] [<- Hin]]. cbn [fst snd].
  eapply succs_pos; eauto.
Qed.

Lemma nexts_eps h k p : nexts h (SEpsilon k) p = [(k, p)].
Proof. reflexivity. Qed.
Lemma nexts_split h l r p : nexts h (SSplit l r) p = [(l, p); (r, p)].
Proof. reflexivity. Qed.
Lemma nexts_cap h idx b k p : nexts h (SCapture idx b k) p = [(k, p)].
Proof. reflexivity. Qed.
Lemma nexts_fail h p : nexts h SFail p = [].
Proof. reflexivity. Qed.
Lemma nexts_match h p : nexts h SMatch p = [].
Proof. reflexivity. Qed.
Lemma nexts_look h lk k p : nexts h (SLook lk k) p = if look_ok lk h p then [(k, p)] else [].
Proof. unfold nexts. cbn [succs]. now destruct (look_ok lk h p). Qed.
Lemma nexts_byte h lo hi k p :
  nexts h (SByteRange lo hi k) p =
  match nth_error h p with Some b => if in_range lo hi b then [(k, S p)] else [] | None => [] end.
Proof. unfold nexts. cbn [succs]. destruct (nth_error h p); [|reflexivity]. now destruct (in_range lo hi n). Qed.
Lemma nexts_sparse h trs p :
  nexts h (SSparse trs) p =
  match nth_error h p with
  | Some b => match sparse_next trs b with Some k => [(k, S p)] | None => [] end
  | None => [] end.
Proof. unfold nexts. cbn [succs]. destruct (nth_error h p); [|reflexivity]. now destruct (sparse_next trs n). Qed.

Definition inr (lo hi q : nat) : Prop := lo <= q < hi.

Lemma inr_dec lo hi q : {inr lo hi q} + {~ inr lo hi q}.
Proof.
  unfold inr. destruct (le_lt_dec lo q); [destruct (le_lt_dec hi q)|]; [right|left|right]; lia.
Qed.

Section Paths.
  Variable A : nfa.
  Variable h : hay.

  (* ipath lo hi n c c': a path of n edges from c to c' whose states, except the last, have
     ids in [lo, hi), and whose last state has not *)
  Inductive ipath (lo hi : nat) : nat -> nat * nat -> nat * nat -> Prop :=
  | ip_exit c c' : inr lo hi (fst c) -> edge A h c c' -> ~ inr lo hi (fst c') -> ipath lo hi 1 c c'
  | ip_step n c c' c'' : inr lo hi (fst c) -> edge A h c c' -> inr lo hi (fst c') ->
      ipath lo hi n c' c'' -> ipath lo hi (S n) c c''.

  Lemma ipath_ends lo hi n c c' : ipath lo hi n c c' -> inr lo hi (fst c) /\ ~ inr lo hi (fst c') /\ 1 <= n.
  Proof. induction 1 as [c c' H1 H2 H3|n c c' c'' H1 H2 H3 H4 IH]; [|destruct IH as [_ [IH Hn]]]; (split; [exact H1|split; [assumption|lia]]). Qed.

  Lemma ipath_inv lo hi n c c2 : ipath lo hi n c c2 ->
    exists st c1, nth_error (states A) (fst c) = Some st /\ In c1 (nexts h st (snd c)) /\
      ((n = 1 /\ c1 = c2 /\ ~ inr lo hi (fst c1)) \/
       (inr lo hi (fst c1) /\ exists m, n = S m /\ ipath lo hi m c1 c2)).
  Proof.
    intros H. inversion H as [c0 c' H1 H2 H3|m c0 c' c'' H1 H2 H3 H4]; subst.
    - apply edge_nexts in H2 as [st [Hst Hin]]. exists st, c2. repeat split; auto.
    - apply edge_nexts in H2 as [st [Hst Hin]]. exists st, c'. repeat split; auto. right. split; [exact H3|]. eauto.
  Qed.

  Lemma ipath_reach lo hi n c c' : ipath lo hi n c c' -> reach A h c c'.
  Proof. induction 1; econstructor; eauto. constructor. Qed.

  Lemma ipath_pos lo hi n c c' : ipath lo hi n c c' -> snd c <= length h -> snd c <= snd c' <= length h.
  Proof.
    induction 1 as [c c' H1 H2 H3|n c c' c'' H1 H2 H3 H4 IH]; intros Hp.
    - apply edge_nexts in H2 as [st [_ Hin]]. eapply nexts_pos; eauto.
    - apply edge_nexts in H2 as [st [_ Hin]]. pose proof (nexts_pos _ _ _ _ Hin Hp). specialize (IH ltac:(lia)). lia.
  Qed.

  (* the first exit from a range *)
  Lemma reach_ipath lo hi c c' : reach A h c c' -> inr lo hi (fst c) -> ~ inr lo hi (fst c') ->
    exists n c1, ipath lo hi n c c1 /\ reach A h c1 c'.
  Proof.
    induction 1 as [c|c c1 c2 He Hr IH]; intros Hin Hout; [contradiction|].
    destruct (inr_dec lo hi (fst c1)) as [Hi|Ho].
    - destruct (IH Hi Hout) as [n [c3 [Hp Hr3]]]. exists (S n), c3. split; [|exact Hr3]. econstructor; eauto.
    - exists 1, c1. split; [now constructor|exact Hr].
  Qed.

  (* a path through a range, started inside a sub-range, first leaves the sub-range *)
  Lemma ipath_sub lo hi lo' hi' : lo' <= lo -> hi <= hi' ->
    forall n c c2, ipath lo' hi' n c c2 -> inr lo hi (fst c) ->
    exists n1 c1, ipath lo hi n1 c c1 /\
      ((n1 = n /\ c1 = c2) \/ (inr lo' hi' (fst c1) /\ exists n2, n = n1 + n2 /\ ipath lo' hi' n2 c1 c2)).
  Proof.
    intros Hlo Hhi n c c2 H. induction H as [c c' H1 H2 H3|n c c' c'' H1 H2 H3 H4 IH]; intros Hin.
    - exists 1, c'. split; [|now left]. constructor; auto. unfold inr in *. lia.
    - destruct (inr_dec lo hi (fst c')) as [Hi|Ho].
      + destruct (IH Hi) as [n1 [c1 [Hp Hc]]]. exists (S n1), c1. split; [econstructor; eauto|].
        destruct Hc as [[-> ->]|[Hi1 [n2 [-> Hp2]]]]; [now left|right]. split; [exact Hi1|]. exists n2. split; [lia|exact Hp2].
      + exists 1, c'. split; [now constructor|]. right. split; [exact H3|]. exists n. split; [lia|exact H4].
  Qed.

  (* a path through a sub-range is a path through the range, continued if it ends inside *)
  Lemma ipath_widen_out lo hi lo' hi' : lo' <= lo -> hi <= hi' ->
    forall n c c1, ipath lo hi n c c1 -> ~ inr lo' hi' (fst c1) -> ipath lo' hi' n c c1.
  Proof.
    intros Hlo Hhi n c c1 H. induction H as [c c' H1 H2 H3|n c c' c'' H1 H2 H3 H4 IH]; intros Ho.
    - constructor; auto. unfold inr in *. lia.
    - econstructor; eauto; unfold inr in *; lia.
  Qed.

  Lemma ipath_widen_in lo hi lo' hi' : lo' <= lo -> hi <= hi' ->
    forall n c c1, ipath lo hi n c c1 -> inr lo' hi' (fst c1) ->
    forall m c2, ipath lo' hi' m c1 c2 -> ipath lo' hi' (n + m) c c2.
  Proof.
    intros Hlo Hhi n c c1 H. induction H as [c c' H1 H2 H3|n c c' c'' H1 H2 H3 H4 IH]; intros Hi m c2 Hp.
    - cbn. econstructor; eauto. unfold inr in *. lia.
    - cbn. econstructor; eauto; unfold inr in *; lia.
  Qed.

  (* one step inside a range *)
  Lemma ipath_step_in lo hi q p st c1 m c2 :
    inr lo hi q -> nth_error (states A) q = Some st -> In c1 (nexts h st p) -> inr lo hi (fst c1) ->
    ipath lo hi m c1 c2 -> ipath lo hi (S m) (q, p) c2.
  Proof.
    intros Hq Hst Hin Hi Hp. econstructor; eauto. apply edge_nexts. exists st. split; [exact Hst|exact Hin].
  Qed.

  Lemma ipath_step_out lo hi q p st c1 :
    inr lo hi q -> nth_error (states A) q = Some st -> In c1 (nexts h st p) -> ~ inr lo hi (fst c1) ->
    ipath lo hi 1 (q, p) c1.
  Proof.
    intros Hq Hst Hin Ho. constructor; auto. apply edge_nexts. exists st. split; [exact Hst|exact Hin].
  Qed.
End Paths.

(* ================================================================== pieces *)
(* a fragment of the automaton under construction: psize lo = number of states when the
   first one gets id lo; pstart lo = id of the entry state; pstates lo k = the states, the
   exit wired to k (nfa/builder.go: Patch) *)
Record piece := mkPiece {
  psize : nat -> nat;
  pstart : nat -> nat;
  pstates : nat -> nat -> list nstate
}.

Definition embeds (A : nfa) (lo : nat) (sts : list nstate) : Prop :=
  forall i st, nth_error sts i = Some st -> nth_error (states A) (lo + i) = Some st.

Lemma embeds_app A lo s1 s2 :
  embeds A lo (s1 ++ s2) <-> embeds A lo s1 /\ embeds A (lo + length s1) s2.
Proof.
  split.
  - intros H. split; intros i st Hi.
    + apply H. rewrite nth_error_app1; [exact Hi|]. apply nth_error_Some. congruence.
    + replace (lo + length s1 + i) with (lo + (length s1 + i)) by lia. apply H.
      rewrite nth_error_app2 by lia. replace (length s1 + i - length s1) with i by lia. exact Hi.
  - intros [H1 H2] i st Hi. destruct (Nat.lt_ge_cases i (length s1)) as [Hlt|Hge].
    + rewrite nth_error_app1 in Hi by exact Hlt. now apply H1.
    + rewrite nth_error_app2 in Hi by exact Hge. apply H2 in Hi.
      replace (lo + length s1 + (i - length s1)) with (lo + i) in Hi by lia. exact Hi.
Qed.

Lemma embeds_at A lo sts i st : embeds A lo sts -> nth_error sts i = Some st -> nth_error (states A) (lo + i) = Some st.
Proof. intros H. apply H. Qed.

Lemma embeds_one A lo st : embeds A lo [st] -> nth_error (states A) lo = Some st.
Proof. intros H. specialize (H 0 st eq_refl). now rewrite Nat.add_0_r in H. Qed.

Lemma embeds_cons A lo st t : embeds A lo (st :: t) <-> nth_error (states A) lo = Some st /\ embeds A (S lo) t.
Proof.
  split.
  - intros H. split.
    + specialize (H 0 st eq_refl). now rewrite Nat.add_0_r in H.
    + intros i s Hi. specialize (H (S i) s Hi). now rewrite Nat.add_succ_r in H.
  - intros [H1 H2] [|i] s Hi; cbn in Hi.
    + inversion Hi; subst. now rewrite Nat.add_0_r.
    + rewrite Nat.add_succ_r. now apply H2.
Qed.

Definition hlang := hay -> lang.

(* what a piece must satisfy: layout facts, and in every automaton that contains its states
   at [lo, lo + size) the paths from its entry that leave the range are the matches of L,
   all arriving at k *)
Record piece_ok (p : piece) (L : hlang) : Prop := mkPieceOk {
  pk_len : forall lo k, length (pstates p lo k) = psize p lo;
  pk_start : forall lo, lo <= pstart p lo < lo + psize p lo;
  pk_bounded : forall h i j, L h i j -> i <= j <= length h;
  pk_sound : forall A h lo k n i c2,
      embeds A lo (pstates p lo k) -> ~ inr lo (lo + psize p lo) k -> i <= length h ->
      ipath A h lo (lo + psize p lo) n (pstart p lo, i) c2 -> fst c2 = k /\ L h i (snd c2);
  pk_complete : forall A h lo k i j,
      embeds A lo (pstates p lo k) -> ~ inr lo (lo + psize p lo) k ->
      L h i j -> exists n, ipath A h lo (lo + psize p lo) n (pstart p lo, i) (k, j)
}.

Lemma piece_ok_lang p (L1 L2 : hlang) : (forall h i j, L1 h i j <-> L2 h i j) -> piece_ok p L1 -> piece_ok p L2.
Proof.
  intros HL [H1 H2 Hb H3 H4]. constructor; auto.
  - intros h i j Hm. apply HL in Hm. eauto.
  - intros A h lo k n i c2 He Hk Hi Hp. destruct (H3 A h lo k n i c2 He Hk Hi Hp) as [Hq Hm]. split; [exact Hq|now apply HL].
  - intros A h lo k i j He Hk Hm. apply HL in Hm. eauto.
Qed.

(* well-formedness of the states of a piece: targets below N, captures below nc, no Match *)
Definition st_ok (N nc : nat) (st : nstate) : bool := state_ok N nc st && negb (is_match_state st).

Definition piece_wf (nc : nat) (p : piece) : Prop :=
  forall lo k N, lo + psize p lo <= N -> k < N -> forallb (st_ok N nc) (pstates p lo k) = true.

(* ------------------------------------------------------------------ one-state pieces *)
Definition p_one (mk : nat -> nstate) : piece :=
  mkPiece (fun _ => 1) (fun lo => lo) (fun _ k => [mk k]).

(* f h p = position after the state, if it lets the thread through *)
Lemma p_one_ok mk (f : hay -> nat -> option nat) (L : hlang) :
  (forall k h p, nexts h (mk k) p = match f h p with Some p' => [(k, p')] | None => [] end) ->
  (forall h i j, i <= length h -> f h i = Some j -> L h i j) ->
  (forall h i j, L h i j -> f h i = Some j) ->
  (forall h i j, L h i j -> i <= j <= length h) ->
  piece_ok (p_one mk) L.
Proof.
  intros Hn Hs Hc Hb. constructor; cbn [p_one psize pstart pstates].
  - reflexivity.
  - intros lo. lia.
  - exact Hb.
  - intros A h lo k n i c2 He Hk Hi Hp. apply embeds_one in He.
    apply ipath_inv in Hp as [st [c1 [Hst [Hin Hcase]]]]. cbn [fst snd] in Hst, Hin.
    rewrite He in Hst. inversion Hst; subst st. rewrite Hn in Hin.
    destruct (f h i) as [p'|] eqn:Ef; [|destruct Hin]. destruct Hin as [<-|[]].
    destruct Hcase as [[_ [<- _]]|[Hi1 _]]; [|contradiction].
    cbn [fst snd]. split; [reflexivity|]. now apply Hs.
  - intros A h lo k i j He Hk Hm. apply embeds_one in He. apply Hc in Hm. exists 1.
    eapply ipath_step_out; [unfold inr; lia|exact He| |exact Hk]. rewrite Hn, Hm. now left.
Qed.

(* nfa/compile.go: compileEmptyMatch *)
Definition p_eps : piece := p_one SEpsilon.

Lemma p_eps_ok : piece_ok p_eps l_eps.
Proof.
  apply (p_one_ok SEpsilon (fun _ p => Some p)).
  - intros. apply nexts_eps.
  - intros h i j Hi H. inversion H; subst. split; auto.
  - intros h i j [-> _]. reflexivity.
  - intros h i j [-> H]. lia.
Qed.

(* nfa/compile.go: compileRegexp, the six assertion cases *)
Definition p_look (lk : look) : piece := p_one (SLook lk).

Lemma p_look_ok lk : piece_ok (p_look lk) (fun h => l_look h lk).
Proof.
  apply (p_one_ok (SLook lk) (fun h p => if look_ok lk h p then Some p else None)).
  - intros. rewrite nexts_look. now destruct (look_ok lk h p).
  - intros h i j Hi H. destruct (look_ok lk h i) eqn:E; inversion H; subst. repeat split; auto.
  - intros h i j [-> [_ H]]. now rewrite H.
  - intros h i j [-> [H _]]. lia.
Qed.

(* one byte of a given range: AddByteRange(lo, hi, InvalidState) then Patch *)
Definition p_byte (lo hi : N) : piece := p_one (SByteRange lo hi).

Definition one_byte (P : N -> bool) (bs : list N) : Prop := exists b, bs = [b] /\ P b = true.

Lemma slice_one h i b : nth_error h i = Some b -> slice h i (S i) = [b].
Proof.
  unfold slice. replace (S i - i) with 1 by lia. revert i. induction h as [|x t IH]; intros [|i] H; cbn in *; try discriminate.
  - inversion H; subst. now destruct t.
  - now apply IH.
Qed.

Lemma slice_len h i j : i <= j <= length h -> length (slice h i j) = j - i.
Proof. intros H. unfold slice. rewrite firstn_length, skipn_length. lia. Qed.

Lemma slice_one_inv h i j b : i <= j <= length h -> slice h i j = [b] -> j = S i /\ nth_error h i = Some b.
Proof.
  intros Hb Hs. pose proof (slice_len h i j Hb) as Hl. rewrite Hs in Hl. cbn in Hl.
  assert (j = S i) by lia. subst j. split; [reflexivity|].
  destruct (nth_error h i) as [b'|] eqn:E.
  - rewrite (slice_one _ _ _ E) in Hs. congruence.
  - apply nth_error_None in E. lia.
Qed.

Lemma skipn_nth {T} (l : list T) i b : nth_error l i = Some b -> skipn i l = b :: skipn (S i) l.
Proof. revert i. induction l as [|x t IH]; intros [|i] H; cbn in *; try discriminate; [now inversion H|now apply IH]. Qed.

Lemma slice_cons h i j : i < j <= length h ->
  exists b, nth_error h i = Some b /\ slice h i j = b :: slice h (S i) j.
Proof.
  intros H. destruct (nth_error h i) as [b|] eqn:E.
  - exists b. split; [reflexivity|]. unfold slice. rewrite (skipn_nth _ _ _ E).
    replace (j - i) with (S (j - S i)) by lia. reflexivity.
  - apply nth_error_None in E. lia.
Qed.

Lemma slice_nil h i j : i <= j <= length h -> (slice h i j = [] <-> i = j).
Proof.
  intros H. pose proof (slice_len h i j H) as Hl. split.
  - intros E. rewrite E in Hl. cbn in Hl. lia.
  - intros ->. destruct (slice h j j); [reflexivity|cbn in Hl; lia].
Qed.

(* ------------------------------------------------------------------ byte-range sequences *)
(* a sequence of byte ranges (ClassAuto.bseq) read at position i *)
Fixpoint l_seq (h : hay) (s : bseq) (i j : nat) : Prop :=
  match s with
  | [] => i = j /\ i <= length h
  | (lo, hi) :: t => exists b, nth_error h i = Some b /\ in_range lo hi b = true /\ l_seq h t (S i) j
  end.

Lemma l_seq_slice h s : forall i j, l_seq h s i j <-> i <= j <= length h /\ in_seq (slice h i j) s = true.
Proof.
  induction s as [|[lo hi] t IH]; intros i j; cbn [l_seq].
  - split.
    + intros [-> H]. split; [lia|]. destruct (slice h j j) eqn:E; [reflexivity|].
      assert (Hl := slice_len h j j ltac:(lia)). rewrite E in Hl. cbn in Hl. lia.
    + intros [Hb Hs]. destruct (slice h i j) eqn:E; [|discriminate]. apply slice_nil in E; [lia|exact Hb].
  - split.
    + intros [b [Hb [Hr Ht]]]. apply IH in Ht as [Hij Hs]. pose proof (nth_error_Some_lt' _ _ _ Hb) as Hlt.
      split; [lia|]. destruct (slice_cons h i j ltac:(lia)) as [b' [Hb' ->]].
      rewrite Hb in Hb'. inversion Hb'; subst b'. cbn [in_seq]. now rewrite Hr, Hs.
    + intros [Hij Hs]. destruct (Nat.eq_dec i j) as [->|Hne].
      * assert (E : slice h j j = []) by (apply slice_nil; lia). rewrite E in Hs. discriminate.
      * destruct (slice_cons h i j ltac:(lia)) as [b [Hb E]]. rewrite E in Hs. cbn [in_seq] in Hs.
        apply andb_prop in Hs as [Hr Hs]. exists b. split; [exact Hb|]. split; [exact Hr|].
        apply IH. split; [lia|exact Hs].
Qed.

Lemma l_seq_bytes h s i j : l_seq h s i j <-> l_bytes h (fun bs => in_seq bs s = true) i j.
Proof. unfold l_bytes. apply l_seq_slice. Qed.

Lemma l_seq_app h s1 s2 : forall i j, l_seq h (s1 ++ s2) i j <-> exists k, l_seq h s1 i k /\ l_seq h s2 k j.
Proof.
  induction s1 as [|[lo hi] t IH]; intros i j; cbn [app l_seq].
  - split.
    + intros H. exists i. split; [|exact H]. split; [reflexivity|].
      apply l_seq_slice in H. lia.
    + intros [k [[-> _] H]]. exact H.
  - split.
    + intros [b [Hb [Hr Ht]]]. apply IH in Ht as [k [H1 H2]]. exists k. split; [|exact H2]. exists b. auto.
    + intros [k [[b [Hb [Hr H1]]] H2]]. exists b. split; [exact Hb|]. split; [exact Hr|]. apply IH. eauto.
Qed.

(* ================================================================== composition *)
(* a piece placed inside a larger range: its part of a path *)
Lemma sub_sound p L : piece_ok p L -> forall A h lo hi lo1 k1 n i c2,
  lo <= lo1 -> lo1 + psize p lo1 <= hi -> embeds A lo1 (pstates p lo1 k1) ->
  ~ inr lo1 (lo1 + psize p lo1) k1 -> i <= length h ->
  ipath A h lo hi n (pstart p lo1, i) c2 ->
  exists j1, L h i j1 /\ j1 <= length h /\
    ((~ inr lo hi k1 /\ c2 = (k1, j1)) \/
     (inr lo hi k1 /\ exists n2, n2 < n /\ ipath A h lo hi n2 (k1, j1) c2)).
Proof.
  intros Hok A h lo hi lo1 k1 n i c2 Hlo Hhi He Hk Hi Hp.
  pose proof (pk_start _ _ Hok lo1) as Hs.
  destruct (ipath_sub A h lo1 (lo1 + psize p lo1) lo hi Hlo Hhi n _ c2 Hp) as [n1 [c1 [Hp1 Hc]]].
  { cbn [fst]. unfold inr. lia. }
  destruct (pk_sound _ _ Hok A h lo1 k1 n1 i c1 He Hk Hi Hp1) as [Hq HL].
  pose proof (ipath_pos A h _ _ _ _ _ Hp1 Hi) as Hpos. cbn [snd] in Hpos.
  exists (snd c1). split; [exact HL|]. split; [lia|].
  destruct Hc as [[-> ->]|[Hin [n2 [-> Hp2]]]].
  - left. destruct (ipath_ends A h _ _ _ _ _ Hp) as [_ [Ho _]]. rewrite Hq in Ho. split; [exact Ho|].
    destruct c2; cbn in *; now subst.
  - right. rewrite Hq in Hin. split; [exact Hin|]. exists n2.
    destruct (ipath_ends A h _ _ _ _ _ Hp1) as [_ [_ Hn1]]. split; [lia|].
    destruct c1; cbn in *; now subst.
Qed.

Lemma sub_complete p L : piece_ok p L -> forall A h lo hi lo1 k1 i j1,
  lo <= lo1 -> lo1 + psize p lo1 <= hi -> embeds A lo1 (pstates p lo1 k1) ->
  ~ inr lo1 (lo1 + psize p lo1) k1 -> L h i j1 ->
  (~ inr lo hi k1 -> exists n, ipath A h lo hi n (pstart p lo1, i) (k1, j1)) /\
  (inr lo hi k1 -> forall m c2, ipath A h lo hi m (k1, j1) c2 ->
                   exists n, ipath A h lo hi n (pstart p lo1, i) c2).
Proof.
  intros Hok A h lo hi lo1 k1 i j1 Hlo Hhi He Hk HL.
  destruct (pk_complete _ _ Hok A h lo1 k1 i j1 He Hk HL) as [n Hp]. split.
  - intros Ho. exists n. eapply ipath_widen_out; eauto.
  - intros Hin m c2 Hp2. exists (n + m). eapply ipath_widen_in; eauto.
Qed.

(* nfa/compile.go: compileConcat — `Patch(end, nextStart)` between consecutive fragments *)
Definition p_seq (p q : piece) : piece :=
  mkPiece (fun lo => let n1 := psize p lo in n1 + psize q (lo + n1))
          (fun lo => pstart p lo)
          (fun lo k => let lo' := lo + psize p lo in pstates p lo (pstart q lo') ++ pstates q lo' k).

Lemma p_seq_ok p q (L1 L2 : hlang) :
  piece_ok p L1 -> piece_ok q L2 -> piece_ok (p_seq p q) (fun h => l_cat (L1 h) (L2 h)).
Proof.
  intros H1 H2. constructor; cbn [p_seq psize pstart pstates].
  - intros lo k. cbv zeta. rewrite app_length, (pk_len _ _ H1), (pk_len _ _ H2). reflexivity.
  - intros lo. pose proof (pk_start _ _ H1 lo). pose proof (pk_start _ _ H2 (lo + psize p lo)). lia.
  - intros h i j [k [Ha Hb]]. apply (pk_bounded _ _ H1) in Ha. apply (pk_bounded _ _ H2) in Hb. lia.
  - intros A h lo k n i c2 He Hk Hi Hp. cbv zeta in He.
    apply embeds_app in He as [He1 He2]. rewrite (pk_len _ _ H1) in He2.
    set (lo' := lo + psize p lo) in *.
    pose proof (pk_start _ _ H2 lo') as Hs2.
    destruct (sub_sound p L1 H1 A h lo (lo + (psize p lo + psize q lo')) lo (pstart q lo') n i c2
                ltac:(lia) ltac:(lia) He1 ltac:(unfold inr; lia) Hi Hp) as [j1 [HL1 [Hj1 Hc]]].
    destruct Hc as [[Ho _]|[_ [n2 [_ Hp2]]]]; [exfalso; apply Ho; unfold inr; lia|].
    destruct (sub_sound q L2 H2 A h lo (lo + (psize p lo + psize q lo')) lo' k n2 j1 c2
                ltac:(lia) ltac:(lia) He2 ltac:(unfold inr in *; lia) Hj1 Hp2) as [j2 [HL2 [Hj2 Hc]]].
    destruct Hc as [[_ ->]|[Hin _]]; [|contradiction].
    cbn [fst snd]. split; [reflexivity|]. exists j1. auto.
  - intros A h lo k i j He Hk [j1 [HL1 HL2]]. cbv zeta in He.
    apply embeds_app in He as [He1 He2]. rewrite (pk_len _ _ H1) in He2.
    set (lo' := lo + psize p lo) in *.
    pose proof (pk_start _ _ H2 lo') as Hs2.
    destruct (sub_complete q L2 H2 A h lo (lo + (psize p lo + psize q lo')) lo' k j1 j
                ltac:(lia) ltac:(lia) He2 ltac:(unfold inr in *; lia) HL2) as [Hc2 _].
    destruct (Hc2 Hk) as [n2 Hp2].
    destruct (sub_complete p L1 H1 A h lo (lo + (psize p lo + psize q lo')) lo (pstart q lo') i j1
                ltac:(lia) ltac:(lia) He1 ltac:(unfold inr; lia) HL1) as [_ Hc1].
    apply (Hc1 ltac:(unfold inr; lia) n2 (k, j) Hp2).
Qed.

Lemma forallb_app' {T} (f : T -> bool) l1 l2 : forallb f (l1 ++ l2) = forallb f l1 && forallb f l2.
Proof. induction l1; cbn; [reflexivity|]. now rewrite IHl1, andb_assoc. Qed.

Lemma p_seq_wf nc p q (L1 L2 : hlang) : piece_ok p L1 -> piece_ok q L2 ->
  piece_wf nc p -> piece_wf nc q -> piece_wf nc (p_seq p q).
Proof.
  intros Hp Hq W1 W2 lo k N HN Hk. cbn [p_seq psize pstates] in *. cbv zeta. rewrite forallb_app'.
  pose proof (pk_start _ _ Hq (lo + psize p lo)).
  rewrite W1 by lia. rewrite W2 by lia. reflexivity.
Qed.

Fixpoint p_cat1 (p : piece) (t : list piece) : piece :=
  match t with [] => p | q :: t' => p_seq p (p_cat1 q t') end.

(* nfa/compile.go: compileConcat (no sub-expression: compileEmptyMatch; one: itself) *)
Definition p_cat (ps : list piece) : piece :=
  match ps with [] => p_eps | p :: t => p_cat1 p t end.

Lemma p_cat_ok {X} (pc : X -> piece) (Lx : X -> hlang) xs :
  (forall x, In x xs -> piece_ok (pc x) (Lx x)) ->
  piece_ok (p_cat (map pc xs)) (fun h => l_cats h (map (fun x => Lx x h) xs)).
Proof.
  destruct xs as [|x t]; intros H; cbn [map p_cat l_cats]; [exact p_eps_ok|].
  revert x H. induction t as [|y t IH]; intros x H; cbn [map p_cat1 l_cats].
  - eapply piece_ok_lang; [|apply (H x); now left].
    intros h i j. unfold l_cat, l_eps. split.
    + intros Hm. exists j. split; [exact Hm|]. split; [reflexivity|].
      apply (pk_bounded _ _ (H x (or_introl eq_refl))) in Hm. lia.
    + intros [k [Hm [-> _]]]. exact Hm.
  - apply (p_seq_ok (pc x) _ (Lx x)); [apply H; now left|].
    apply IH. intros z Hz. apply H. now right.
Qed.

Lemma p_cat_wf {X} nc (pc : X -> piece) (Lx : X -> hlang) xs :
  (forall x, In x xs -> piece_ok (pc x) (Lx x)) -> (forall x, In x xs -> piece_wf nc (pc x)) ->
  piece_wf nc (p_cat (map pc xs)).
Proof.
  destruct xs as [|x t]; intros H W; cbn [map p_cat].
  - intros lo k N HN Hk. cbn [p_eps p_one pstates forallb]. unfold st_ok. cbn [state_ok is_match_state negb].
    apply Nat.ltb_lt in Hk. now rewrite Hk.
  - revert x H W. induction t as [|y t IH]; intros x H W; cbn [map p_cat1]; [apply W; now left|].
    assert (Hy : piece_ok (p_cat1 (pc y) (map pc t)) (fun h => l_cats h (map (fun x => Lx x h) (y :: t)))).
    { apply (p_cat_ok pc Lx (y :: t)). intros z Hz. apply H. now right. }
    eapply p_seq_wf; [apply H; now left|exact Hy|apply W; now left|].
    apply IH; intros z Hz; [apply H|apply W]; now right.
Qed.

(* ================================================================== alternation *)
(* nfa/compile.go: buildSplitChain — Split(t0, Split(t1, ... Split(t_{n-2}, t_{n-1}))), the
   innermost split is allocated first; no state for a single target *)
Fixpoint split_chain (ts : list nat) (base : nat) : list nstate * nat :=
  match ts with
  | [] => ([], 0)
  | t :: rest =>
      match rest with
      | [] => ([], t)
      | _ :: _ => let '(sts, top) := split_chain rest base in (sts ++ [SSplit t top], base + length sts)
      end
  end.

Lemma split_chain_cons2 t t2 rest base :
  split_chain (t :: t2 :: rest) base =
  (fst (split_chain (t2 :: rest) base) ++ [SSplit t (snd (split_chain (t2 :: rest) base))],
   base + length (fst (split_chain (t2 :: rest) base))).
Proof.
  change (split_chain (t :: t2 :: rest) base) with
    (let '(sts, top) := split_chain (t2 :: rest) base in (sts ++ [SSplit t top], base + length sts)).
  now destruct (split_chain (t2 :: rest) base).
Qed.

Lemma split_chain_len ts base : length (fst (split_chain ts base)) = length ts - 1.
Proof.
  induction ts as [|t [|t2 rest] IH]; try reflexivity.
  rewrite split_chain_cons2. cbn [fst]. rewrite app_length, IH. cbn [length]. lia.
Qed.

Section Chain.
  Variable A : nfa.
  Variable h : hay.
  Variables lo hi : nat.

  Lemma chain_sound : forall ts base, ts <> [] ->
    embeds A base (fst (split_chain ts base)) -> lo <= base -> base + (length ts - 1) <= hi ->
    (forall t, In t ts -> inr lo hi t) ->
    inr lo hi (snd (split_chain ts base)) /\
    forall n i c2, ipath A h lo hi n (snd (split_chain ts base), i) c2 ->
      exists t n', In t ts /\ n' <= n /\ ipath A h lo hi n' (t, i) c2.
  Proof.
    induction ts as [|t [|t2 rest] IH]; intros base Hne He Hlo Hhi Hts; [congruence| |].
    - cbn [split_chain snd]. split; [apply Hts; now left|]. intros n i c2 Hp. exists t, n. split; [now left|]. split; [lia|exact Hp].
    - rewrite split_chain_cons2 in *.
      pose proof (split_chain_len (t2 :: rest) base) as Hlen.
      set (sts := fst (split_chain (t2 :: rest) base)) in *.
      set (top := snd (split_chain (t2 :: rest) base)) in *. cbn [fst snd] in *. cbn [length] in Hlen.
      apply embeds_app in He as [He1 He2]. apply embeds_one in He2.
      destruct (IH base ltac:(discriminate) He1 Hlo ltac:(cbn [length] in *; lia) (fun x Hx => Hts x (or_intror Hx))) as [Htop IHs].
      assert (Hin : inr lo hi (base + length sts)) by (unfold inr; cbn [length] in *; lia).
      split; [exact Hin|]. intros n i c2 Hp.
      apply ipath_inv in Hp as [st [c1 [Hst [Hc1 Hcase]]]]. cbn [fst snd] in Hst, Hc1.
      rewrite He2 in Hst. inversion Hst; subst st. rewrite nexts_split in Hc1.
      assert (Hc1in : inr lo hi (fst c1)).
      { destruct Hc1 as [<-|[<-|[]]]; cbn [fst]; [apply Hts; now left|exact Htop]. }
      destruct Hcase as [[_ [_ Ho]]|[_ [m [-> Hp']]]]; [contradiction|].
      destruct Hc1 as [<-|[<-|[]]].
      + exists t, m. split; [now left|]. split; [lia|exact Hp'].
      + destruct (IHs m i c2 Hp') as [t' [n' [Ht' [Hn' Hp'']]]]. exists t', n'. split; [now right|]. split; [lia|exact Hp''].
  Qed.

  Lemma chain_complete : forall ts base, ts <> [] ->
    embeds A base (fst (split_chain ts base)) -> lo <= base -> base + (length ts - 1) <= hi ->
    (forall t, In t ts -> inr lo hi t) ->
    forall t, In t ts -> forall n i c2, ipath A h lo hi n (t, i) c2 ->
      exists n', ipath A h lo hi n' (snd (split_chain ts base), i) c2.
  Proof.
    induction ts as [|t [|t2 rest] IH]; intros base Hne He Hlo Hhi Hts t0 Ht0 n i c2 Hp; [congruence| |].
    - destruct Ht0 as [<-|[]]. cbn [split_chain snd]. eauto.
    - pose proof (chain_sound (t2 :: rest) base ltac:(discriminate)) as Hcs.
      rewrite split_chain_cons2 in *.
      pose proof (split_chain_len (t2 :: rest) base) as Hlen.
      set (sts := fst (split_chain (t2 :: rest) base)) in *.
      set (top := snd (split_chain (t2 :: rest) base)) in *. cbn [fst snd] in *. cbn [length] in Hlen.
      apply embeds_app in He as [He1 He2]. apply embeds_one in He2.
      destruct (Hcs He1 Hlo ltac:(cbn [length] in *; lia) (fun x Hx => Hts x (or_intror Hx))) as [Htop _].
      assert (Hin : inr lo hi (base + length sts)) by (unfold inr; cbn [length] in *; lia).
      destruct Ht0 as [<-|Ht0].
      + exists (S n). eapply ipath_step_in; [exact Hin|exact He2| | |exact Hp].
        * rewrite nexts_split. now left.
        * cbn [fst]. apply Hts. now left.
      + destruct (IH base ltac:(discriminate) He1 Hlo ltac:(cbn [length] in *; lia) (fun x Hx => Hts x (or_intror Hx)) t0 Ht0 n i c2 Hp) as [n' Hp'].
        exists (S n'). eapply ipath_step_in; [exact Hin|exact He2| | |exact Hp'].
        * rewrite nexts_split. right. now left.
        * exact Htop.
  Qed.
End Chain.

(* consecutive pieces *)
Fixpoint layout (ps : list piece) (lo : nat) : list (piece * nat) :=
  match ps with [] => [] | p :: t => (p, lo) :: layout t (lo + psize p lo) end.
Fixpoint lay_size (ps : list piece) (lo : nat) : nat :=
  match ps with [] => 0 | p :: t => psize p lo + lay_size t (lo + psize p lo) end.
Definition lay_states (ps : list piece) (lo J : nat) : list nstate :=
  flat_map (fun pl => pstates (fst pl) (snd pl) J) (layout ps lo).
Definition lay_starts (ps : list piece) (lo : nat) : list nat :=
  map (fun pl => pstart (fst pl) (snd pl)) (layout ps lo).

Definition has_len (p : piece) : Prop := forall lo k, length (pstates p lo k) = psize p lo.

Lemma lay_states_len ps : (forall p, In p ps -> has_len p) ->
  forall lo J, length (lay_states ps lo J) = lay_size ps lo.
Proof.
  unfold lay_states. induction ps as [|p t IH]; intros H lo J; [reflexivity|].
  cbn [layout flat_map lay_size fst snd]. rewrite app_length, (H p (or_introl eq_refl)).
  f_equal. apply IH. intros q Hq. apply H. now right.
Qed.

Lemma layout_in ps : forall lo p l, In (p, l) (layout ps lo) ->
  In p ps /\ lo <= l /\ l + psize p l <= lo + lay_size ps lo.
Proof.
  induction ps as [|q t IH]; intros lo p l Hin; [destruct Hin|].
  cbn [layout lay_size] in *. destruct Hin as [Heq|Hin].
  - inversion Heq; subst. split; [now left|lia].
  - destruct (IH _ _ _ Hin) as [H1 [H2 H3]]. split; [now right|lia].
Qed.

Lemma layout_embeds A ps : (forall p, In p ps -> has_len p) ->
  forall lo J, embeds A lo (lay_states ps lo J) ->
  forall p l, In (p, l) (layout ps lo) -> embeds A l (pstates p l J).
Proof.
  unfold lay_states. induction ps as [|q t IH]; intros H lo J He p l Hin; [destruct Hin|].
  cbn [layout flat_map fst snd] in *. apply embeds_app in He as [He1 He2].
  rewrite (H q (or_introl eq_refl)) in He2. destruct Hin as [Heq|Hin].
  - inversion Heq; subst. exact He1.
  - eapply IH; eauto. intros r Hr. apply H. now right.
Qed.

Lemma layout_length ps lo : length (layout ps lo) = length ps.
Proof. revert lo. induction ps; intros lo; cbn; auto. Qed.

(* the common shape of compileAlternate, compileFoldCaseRune and compileUnicodeClassLarge:
   alternatives that all exit to a join epsilon J, entered through a split chain *)
Section AltCore.
  Variable X : Type.
  Variable pc : X -> piece.
  Variable Lx : X -> hlang.
  Variable xs : list X.
  Hypothesis Hok : forall x, In x xs -> piece_ok (pc x) (Lx x).
  Hypothesis Hne : xs <> [].
  Variable A : nfa.
  Variable h : hay.
  Variables lo hi lo0 J k : nat.
  Let ps := map pc xs.
  Let base := lo0 + lay_size ps lo0.
  Let top := snd (split_chain (lay_starts ps lo0) base).
  Hypothesis He1 : embeds A lo0 (lay_states ps lo0 J).
  Hypothesis He2 : embeds A base (fst (split_chain (lay_starts ps lo0) base)).
  Hypothesis HJ : nth_error (states A) J = Some (SEpsilon k).
  Hypothesis Hlo : lo <= lo0.
  Hypothesis Hhi : base + (length xs - 1) <= hi.
  Hypothesis HJin : inr lo hi J.
  Hypothesis HJout : J < lo0 \/ base <= J.
  Hypothesis Hk : ~ inr lo hi k.

  Lemma ps_len : forall p, In p ps -> has_len p.
  Proof. intros p Hp. apply in_map_iff in Hp as [x [<- Hx]]. intros l k'. apply (pk_len _ _ (Hok x Hx)). Qed.

  Lemma ps_layout p l : In (p, l) (layout ps lo0) ->
    exists x, In x xs /\ p = pc x /\ lo0 <= l /\ l + psize p l <= base /\ embeds A l (pstates p l J).
  Proof.
    intros Hin. destruct (layout_in _ _ _ _ Hin) as [Hp [H1 H2]].
    apply in_map_iff in Hp as [x [<- Hx]]. exists x. repeat split; auto.
    eapply layout_embeds; eauto. apply ps_len.
  Qed.

  Lemma starts_in : forall t, In t (lay_starts ps lo0) -> inr lo hi t.
  Proof.
    intros t Ht. unfold lay_starts in Ht. apply in_map_iff in Ht as [[p l] [<- Hin]]. cbn [fst snd].
    destruct (ps_layout p l Hin) as [x [Hx [-> [H1 [H2 _]]]]].
    pose proof (pk_start _ _ (Hok x Hx) l). unfold inr. lia.
  Qed.

  Lemma starts_ne : lay_starts ps lo0 <> [].
  Proof.
    unfold lay_starts. intros E. apply (f_equal (@length _)) in E. rewrite map_length, layout_length in E.
    unfold ps in E. rewrite map_length in E. destruct xs; [congruence|discriminate].
  Qed.

  Lemma starts_len : length (lay_starts ps lo0) = length xs.
  Proof. unfold lay_starts, ps. now rewrite map_length, layout_length, map_length. Qed.

  Lemma alt_top_in : inr lo hi top.
  Proof.
    apply (chain_sound A h lo hi _ base starts_ne He2); [unfold base; lia|rewrite starts_len; exact Hhi|exact starts_in].
  Qed.

  Lemma alt_core_sound n i c2 : i <= length h -> ipath A h lo hi n (top, i) c2 ->
    fst c2 = k /\ exists x, In x xs /\ Lx x h i (snd c2).
  Proof.
    intros Hi Hp.
    destruct (chain_sound A h lo hi _ base starts_ne He2 ltac:(unfold base; lia)
                ltac:(rewrite starts_len; exact Hhi) starts_in) as [_ Hcs].
    destruct (Hcs n i c2 Hp) as [t [n' [Ht [_ Hp']]]].
    unfold lay_starts in Ht. apply in_map_iff in Ht as [[p l] [<- Hin]]. cbn [fst snd] in Hp'.
    destruct (ps_layout p l Hin) as [x [Hx [-> [H1 [H2 He]]]]].
    destruct (sub_sound _ _ (Hok x Hx) A h lo hi l J n' i c2 ltac:(lia) ltac:(lia) He
                ltac:(unfold inr; lia) Hi Hp') as [j1 [HL [Hj1 Hc]]].
    destruct Hc as [[Ho _]|[_ [n2 [_ Hp2]]]]; [contradiction|].
    apply ipath_inv in Hp2 as [st [c1 [Hst [Hc1 Hcase]]]]. cbn [fst snd] in Hst, Hc1.
    rewrite HJ in Hst. inversion Hst; subst st. rewrite nexts_eps in Hc1. destruct Hc1 as [<-|[]].
    destruct Hcase as [[_ [<- _]]|[Hin' _]]; [|contradiction].
    cbn [fst snd]. split; [reflexivity|]. eauto.
  Qed.

  Lemma alt_core_complete x i j : In x xs -> Lx x h i j ->
    exists n, ipath A h lo hi n (top, i) (k, j).
  Proof.
    intros Hx HL.
    assert (Hl : exists l, In (pc x, l) (layout ps lo0)).
    { unfold ps. clear -Hx. revert lo0. induction xs as [|y t IH]; intros l0; [destruct Hx|].
      cbn [map layout]. destruct Hx as [->|Hx]; [eexists; now left|].
      destruct (IH Hx (l0 + psize (pc y) l0)) as [l Hl]. exists l. now right. }
    destruct Hl as [l Hin]. destruct (ps_layout _ l Hin) as [x' [_ [_ [H1 [H2 He]]]]].
    destruct (sub_complete _ _ (Hok x Hx) A h lo hi l J i j ltac:(lia) ltac:(lia) He
                ltac:(unfold inr; lia) HL) as [_ Hc].
    assert (HpJ : ipath A h lo hi 1 (J, j) (k, j)).
    { eapply ipath_step_out; [exact HJin|exact HJ|rewrite nexts_eps; now left|exact Hk]. }
    destruct (Hc HJin 1 (k, j) HpJ) as [n Hp].
    apply (chain_complete A h lo hi _ base starts_ne He2 ltac:(unfold base; lia)
             ltac:(rewrite starts_len; exact Hhi) starts_in (pstart (pc x) l)) with (n := n); [|exact Hp].
    unfold lay_starts. apply in_map_iff. exists (pc x, l). split; [reflexivity|exact Hin].
  Qed.
End AltCore.

(* alternatives + split chain + join epsilon; jfirst: the join state is allocated before
   the alternatives (compileFoldCaseRune, compileUnicodeClassLarge) or after the split chain
   (compileAlternate) *)
Definition p_altj (jfirst : bool) (ps : list piece) : piece :=
  mkPiece
    (fun lo => let lo0 := if jfirst then S lo else lo in S (lay_size ps lo0 + (length ps - 1)))
    (fun lo => let lo0 := if jfirst then S lo else lo in
               snd (split_chain (lay_starts ps lo0) (lo0 + lay_size ps lo0)))
    (fun lo k => let lo0 := if jfirst then S lo else lo in
                 let base := lo0 + lay_size ps lo0 in
                 let J := if jfirst then lo else base + (length ps - 1) in
                 (if jfirst then [SEpsilon k] else []) ++ lay_states ps lo0 J ++
                 fst (split_chain (lay_starts ps lo0) base) ++ (if jfirst then [] else [SEpsilon k])).

Lemma p_altj_ok {X} jfirst (pc : X -> piece) (Lx : X -> hlang) xs :
  (forall x, In x xs -> piece_ok (pc x) (Lx x)) -> xs <> [] ->
  piece_ok (p_altj jfirst (map pc xs)) (fun h i j => exists x, In x xs /\ Lx x h i j).
Proof.
  intros Hok Hne.
  assert (Hlen : forall p, In p (map pc xs) -> has_len p).
  { intros p Hp. apply in_map_iff in Hp as [x [<- Hx]]. intros l k'. apply (pk_len _ _ (Hok x Hx)). }
  assert (Hxs : 1 <= length xs) by (destruct xs; [congruence|cbn; lia]).
  constructor; cbn [p_altj psize pstart pstates]; cbv zeta.
  - intros lo k. rewrite !app_length, (lay_states_len _ Hlen), split_chain_len.
    unfold lay_starts. rewrite map_length, layout_length, !map_length. destruct jfirst; cbn [length]; lia.
  - intros lo. set (lo0 := if jfirst then S lo else lo).
    (* a dummy automaton is not needed: the bound on top follows from the chain shape *)
    assert (Hst : forall t, In t (lay_starts (map pc xs) lo0) -> lo0 <= t < lo0 + lay_size (map pc xs) lo0).
    { intros t Ht. unfold lay_starts in Ht. apply in_map_iff in Ht as [[p l] [<- Hin]]. cbn [fst snd].
      destruct (layout_in _ _ _ _ Hin) as [Hp [H1 H2]]. apply in_map_iff in Hp as [x [<- Hx]].
      pose proof (pk_start _ _ (Hok x Hx) l). lia. }
    assert (Hl : length (lay_starts (map pc xs) lo0) = length xs).
    { unfold lay_starts. now rewrite map_length, layout_length, map_length. }
    rewrite map_length.
    assert (Htop : forall ts base, ts <> [] -> (forall t, In t ts -> lo0 <= t < base) ->
               lo0 <= snd (split_chain ts base) <= base + (length ts - 1) - 1 + (2 - length ts) /\ (length ts = 1 -> snd (split_chain ts base) < base)).
    { induction ts as [|t [|t2 rest] IH]; intros base Hn Hts; [congruence| |].
      - cbn. specialize (Hts t (or_introl eq_refl)). lia.
      - rewrite split_chain_cons2. cbn [snd]. rewrite split_chain_len. cbn [length].
        specialize (Hts t (or_introl eq_refl)). lia. }
    specialize (Htop (lay_starts (map pc xs) lo0) (lo0 + lay_size (map pc xs) lo0)).
    rewrite Hl in Htop. unfold lo0 in *. destruct jfirst.
    + assert (lay_starts (map pc xs) (S lo) <> []) by (intros E; rewrite E in Hl; cbn in Hl; lia).
      specialize (Htop H Hst). lia.
    + assert (lay_starts (map pc xs) lo <> []) by (intros E; rewrite E in Hl; cbn in Hl; lia).
      specialize (Htop H Hst). lia.
  - intros h i j [x [Hx HL]]. apply (pk_bounded _ _ (Hok x Hx)) in HL. exact HL.
  - intros A h lo k n i c2 He Hk Hi Hp. rewrite map_length in *.
    destruct jfirst.
    + apply embeds_cons in He as [HJ He]. apply embeds_app in He as [He1 He2].
      rewrite app_nil_r in He2. rewrite (lay_states_len _ Hlen) in He2.
      apply (alt_core_sound X pc Lx xs Hok Hne A h lo (lo + S (lay_size (map pc xs) (S lo) + (length xs - 1))) (S lo) lo k He1 He2 HJ) with (n := n);
        [lia|lia|unfold inr; lia|lia|exact Hk|exact Hi|exact Hp].
    + cbn [app] in He. apply embeds_app in He as [He1 He2]. apply embeds_app in He2 as [He2 HJ].
      rewrite (lay_states_len _ Hlen) in He2, HJ. rewrite split_chain_len in HJ. apply embeds_one in HJ.
      assert (Hl : length (lay_starts (map pc xs) lo) = length xs).
      { unfold lay_starts. now rewrite map_length, layout_length, map_length. }
      rewrite Hl in HJ.
      apply (alt_core_sound X pc Lx xs Hok Hne A h lo (lo + S (lay_size (map pc xs) lo + (length xs - 1))) lo _ k He1 He2 HJ) with (n := n);
        [lia|lia|unfold inr; lia|lia|exact Hk|exact Hi|exact Hp].
  - intros A h lo k i j He Hk [x [Hx HL]]. rewrite map_length in *.
    destruct jfirst.
    + apply embeds_cons in He as [HJ He]. apply embeds_app in He as [He1 He2].
      rewrite app_nil_r in He2. rewrite (lay_states_len _ Hlen) in He2.
      apply (alt_core_complete X pc Lx xs Hok Hne A h lo (lo + S (lay_size (map pc xs) (S lo) + (length xs - 1))) (S lo) lo k He1 He2 HJ) with (x := x);
        [lia|lia|unfold inr; lia|lia|exact Hk|exact Hx|exact HL].
    + cbn [app] in He. apply embeds_app in He as [He1 He2]. apply embeds_app in He2 as [He2 HJ].
      rewrite (lay_states_len _ Hlen) in He2, HJ. rewrite split_chain_len in HJ. apply embeds_one in HJ.
      assert (Hl : length (lay_starts (map pc xs) lo) = length xs).
      { unfold lay_starts. now rewrite map_length, layout_length, map_length. }
      rewrite Hl in HJ.
      apply (alt_core_complete X pc Lx xs Hok Hne A h lo (lo + S (lay_size (map pc xs) lo + (length xs - 1))) lo _ k He1 He2 HJ) with (x := x);
        [lia|lia|unfold inr; lia|lia|exact Hk|exact Hx|exact HL].
Qed.

Lemma chain_wf N nc : forall ts base, (forall t, In t ts -> t < N) -> base + (length ts - 1) <= N ->
  forallb (st_ok N nc) (fst (split_chain ts base)) = true /\ (ts <> [] -> snd (split_chain ts base) < N).
Proof.
  induction ts as [|t [|t2 rest] IH]; intros base Hts Hb.
  - split; [reflexivity|congruence].
  - split; [reflexivity|]. intros _. apply Hts. now left.
  - rewrite split_chain_cons2. cbn [fst snd]. rewrite split_chain_len.
    destruct (IH base (fun x Hx => Hts x (or_intror Hx)) ltac:(cbn [length] in *; lia)) as [H1 H2].
    specialize (H2 ltac:(discriminate)). split; [|intros _; cbn [length] in *; lia].
    rewrite forallb_app', H1. cbn [forallb]. unfold st_ok. cbn [state_ok is_match_state negb].
    specialize (Hts t (or_introl eq_refl)).
    apply Nat.ltb_lt in Hts. apply Nat.ltb_lt in H2. now rewrite Hts, H2.
Qed.

Lemma lay_states_wf N nc ps : (forall p, In p ps -> has_len p /\ piece_wf nc p) ->
  forall lo J, lo + lay_size ps lo <= N -> J < N -> forallb (st_ok N nc) (lay_states ps lo J) = true.
Proof.
  unfold lay_states. induction ps as [|p t IH]; intros H lo J HN HJ; [reflexivity|].
  cbn [layout flat_map lay_size fst snd] in *. rewrite forallb_app'.
  destruct (H p (or_introl eq_refl)) as [_ Wp]. rewrite Wp by lia.
  apply IH; [intros q Hq; apply H; now right|lia|exact HJ].
Qed.

Lemma p_altj_wf {X} nc jfirst (pc : X -> piece) (Lx : X -> hlang) xs :
  (forall x, In x xs -> piece_ok (pc x) (Lx x)) -> (forall x, In x xs -> piece_wf nc (pc x)) -> xs <> [] ->
  piece_wf nc (p_altj jfirst (map pc xs)).
Proof.
  intros Hok W Hne lo k N HN Hk. cbn [p_altj psize pstates] in *. cbv zeta in *. rewrite map_length in *.
  set (lo0 := if jfirst then S lo else lo) in *.
  assert (Hlo0 : lo0 <= S lo) by (unfold lo0; destruct jfirst; lia).
  assert (Hps : forall p, In p (map pc xs) -> has_len p /\ piece_wf nc p).
  { intros p Hp. apply in_map_iff in Hp as [x [<- Hx]]. split; [|now apply W]. intros l k'. apply (pk_len _ _ (Hok x Hx)). }
  assert (Hst : forall t, In t (lay_starts (map pc xs) lo0) -> t < N).
  { intros t Ht. unfold lay_starts in Ht. apply in_map_iff in Ht as [[p l] [<- Hin]]. cbn [fst snd].
    destruct (layout_in _ _ _ _ Hin) as [Hp [H1 H2]]. apply in_map_iff in Hp as [x [<- Hx]].
    pose proof (pk_start _ _ (Hok x Hx) l). lia. }
  assert (Hl : length (lay_starts (map pc xs) lo0) = length xs).
  { unfold lay_starts. now rewrite map_length, layout_length, map_length. }
  assert (Hxs : 1 <= length xs) by (destruct xs; [congruence|cbn; lia]).
  assert (HepsOk : st_ok N nc (SEpsilon k) = true).
  { unfold st_ok. cbn [state_ok is_match_state negb]. apply Nat.ltb_lt in Hk. now rewrite Hk. }
  rewrite !forallb_app'.
  rewrite (lay_states_wf N nc _ Hps) by (unfold lo0 in *; destruct jfirst; lia).
  destruct (chain_wf N nc (lay_starts (map pc xs) lo0) (lo0 + lay_size (map pc xs) lo0) Hst
              ltac:(rewrite Hl; unfold lo0 in *; destruct jfirst; lia)) as [-> _].
  destruct jfirst; cbn [forallb]; now rewrite HepsOk.
Qed.

(* nfa/compile.go: compileAlternate (no alternative: compileEmptyMatch; one: itself) *)
Definition p_alt (ps : list piece) : piece :=
  match ps with [] => p_eps | [p] => p | _ => p_altj false ps end.

Lemma p_alt_ok {X} (pc : X -> piece) (Lx : X -> hlang) xs :
  (forall x, In x xs -> piece_ok (pc x) (Lx x)) -> xs <> [] ->
  piece_ok (p_alt (map pc xs)) (fun h i j => exists x, In x xs /\ Lx x h i j).
Proof.
  intros Hok Hne. destruct xs as [|x [|y t]]; [congruence| |].
  - cbn [map p_alt]. eapply piece_ok_lang; [|apply (Hok x); now left].
    intros h i j. split; [intros H; exists x; split; [now left|exact H]|].
    intros [x' [[<-|[]] H]]. exact H.
  - change (p_alt (map pc (x :: y :: t))) with (p_altj false (map pc (x :: y :: t))).
    now apply p_altj_ok.
Qed.

Lemma p_alt_wf {X} nc (pc : X -> piece) (Lx : X -> hlang) xs :
  (forall x, In x xs -> piece_ok (pc x) (Lx x)) -> (forall x, In x xs -> piece_wf nc (pc x)) -> xs <> [] ->
  piece_wf nc (p_alt (map pc xs)).
Proof.
  intros Hok W Hne. destruct xs as [|x [|y t]]; [congruence| |].
  - cbn [map p_alt]. apply W. now left.
  - change (p_alt (map pc (x :: y :: t))) with (p_altj false (map pc (x :: y :: t))).
    eapply p_altj_wf; eauto.
Qed.

(* ================================================================== quantifiers *)
(* nfa/builder.go: AddQuantifierSplit(left, right); compile.go passes (subStart, end) when
   greedy and (end, subStart) when not *)
Definition qsplit (greedy : bool) (body exit : nat) : nstate :=
  if greedy then SSplit body exit else SSplit exit body.

Lemma nexts_qsplit h g a b p c : In c (nexts h (qsplit g a b) p) <-> c = (a, p) \/ c = (b, p).
Proof. destruct g; cbn [qsplit]; rewrite nexts_split; cbn [In]; intuition congruence. Qed.

Section Loop.
  Variable p : piece.
  Variable L : hlang.
  Hypothesis Hok : piece_ok p L.
  Variable A : nfa.
  Variable h : hay.
  Variables lo hi k : nat.
  Variable g : bool.
  Let n := psize p lo.
  Let E := lo + n.
  Let P := lo + n + 1.
  Hypothesis Hbody : embeds A lo (pstates p lo P).
  Hypothesis HE : nth_error (states A) E = Some (SEpsilon k).
  Hypothesis HP : nth_error (states A) P = Some (qsplit g (pstart p lo) E).
  Hypothesis Hhi : lo + n + 2 <= hi.
  Hypothesis Hk : ~ inr lo hi k.

  Lemma loop_exit j : ipath A h lo hi 1 (E, j) (k, j).
  Proof. eapply ipath_step_out; [unfold inr, E; lia|exact HE|rewrite nexts_eps; now left|exact Hk]. Qed.

  Lemma from_E m j c2 : ipath A h lo hi m (E, j) c2 -> c2 = (k, j).
  Proof.
    intros Hp. apply ipath_inv in Hp as [st [c1 [Hst [Hc1 Hcase]]]]. cbn [fst snd] in Hst, Hc1.
    rewrite HE in Hst. inversion Hst; subst st. rewrite nexts_eps in Hc1. destruct Hc1 as [<-|[]].
    destruct Hcase as [[_ [<- _]]|[Hin _]]; [reflexivity|contradiction].
  Qed.

  (* from the body's entry: one iteration, then the loop split *)
  Lemma from_body m i c2 : i <= length h -> ipath A h lo hi m (pstart p lo, i) c2 ->
    exists j1 m2, L h i j1 /\ j1 <= length h /\ m2 < m /\ ipath A h lo hi m2 (P, j1) c2.
  Proof.
    intros Hi Hp.
    destruct (sub_sound p L Hok A h lo hi lo P m i c2 (le_n _) ltac:(fold n; lia) Hbody
                ltac:(unfold inr, P; fold n; lia) Hi Hp) as [j1 [HL [Hj1 Hc]]].
    destruct Hc as [[Ho _]|[_ [m2 [Hm2 Hp2]]]]; [exfalso; apply Ho; unfold inr, P; lia|].
    exists j1, m2. auto.
  Qed.

  Lemma loop_sound : forall m i c2, i <= length h -> ipath A h lo hi m (P, i) c2 ->
    fst c2 = k /\ l_star h (L h) i (snd c2).
  Proof.
    induction m as [m IH] using lt_wf_ind. intros i c2 Hi Hp.
    apply ipath_inv in Hp as [st [c1 [Hst [Hc1 Hcase]]]]. cbn [fst snd] in Hst, Hc1.
    rewrite HP in Hst. inversion Hst; subst st. apply nexts_qsplit in Hc1.
    pose proof (pk_start _ _ Hok lo) as Hs. fold n in Hs.
    assert (Hc1in : inr lo hi (fst c1)) by (destruct Hc1 as [->| ->]; cbn [fst]; unfold inr, E; lia).
    destruct Hcase as [[_ [_ Ho]]|[_ [m' [-> Hp']]]]; [contradiction|].
    destruct Hc1 as [-> | ->].
    - destruct (from_body m' i c2 Hi Hp') as [j1 [m2 [HL [Hj1 [Hm2 Hp2]]]]].
      destruct (IH m2 ltac:(lia) j1 c2 Hj1 Hp2) as [Hq Hst']. split; [exact Hq|]. econstructor; eauto.
    - apply from_E in Hp'. subst c2. cbn [fst snd]. split; [reflexivity|now constructor].
  Qed.

  Lemma loop_complete i j : l_star h (L h) i j -> exists m, ipath A h lo hi m (P, i) (k, j).
  Proof.
    pose proof (pk_start _ _ Hok lo) as Hs. fold n in Hs.
    induction 1 as [i Hi|i j1 j HL _ [m IH]].
    - exists 2. eapply ipath_step_in; [unfold inr, P; lia|exact HP|apply nexts_qsplit; now right|cbn [fst]; unfold inr, E; lia|apply loop_exit].
    - destruct (sub_complete p L Hok A h lo hi lo P i j1 (le_n _) ltac:(fold n; lia) Hbody
                  ltac:(unfold inr, P; fold n; lia) HL) as [_ Hc].
      destruct (Hc ltac:(unfold inr, P; lia) m (k, j) IH) as [m' Hp'].
      exists (S m'). eapply ipath_step_in; [unfold inr, P; lia|exact HP|apply nexts_qsplit; now left|cbn [fst]; unfold inr; lia|exact Hp'].
  Qed.

  (* entering at the body: x+ *)
  Lemma plus_sound m i c2 : i <= length h -> ipath A h lo hi m (pstart p lo, i) c2 ->
    fst c2 = k /\ l_plus h (L h) i (snd c2).
  Proof.
    intros Hi Hp. destruct (from_body m i c2 Hi Hp) as [j1 [m2 [HL [Hj1 [_ Hp2]]]]].
    destruct (loop_sound m2 j1 c2 Hj1 Hp2) as [Hq Hst]. split; [exact Hq|]. exists j1. auto.
  Qed.

  Lemma plus_complete i j : l_plus h (L h) i j -> exists m, ipath A h lo hi m (pstart p lo, i) (k, j).
  Proof.
    intros [j1 [HL Hst]]. destruct (loop_complete j1 j Hst) as [m Hp].
    destruct (sub_complete p L Hok A h lo hi lo P i j1 (le_n _) ltac:(fold n; lia) Hbody
                ltac:(unfold inr, P; fold n; lia) HL) as [_ Hc].
    apply (Hc ltac:(unfold inr, P; lia) m (k, j) Hp).
  Qed.

  (* entering at a second split with the same targets: the `question` split of
     compileStarViaPlus *)
  Variable Q : nat.
  Hypothesis HQ : nth_error (states A) Q = Some (qsplit g (pstart p lo) E).
  Hypothesis HQin : inr lo hi Q.

  Lemma quest_entry_sound m i c2 : i <= length h -> ipath A h lo hi m (Q, i) c2 ->
    fst c2 = k /\ l_star h (L h) i (snd c2).
  Proof.
    intros Hi Hp.
    apply ipath_inv in Hp as [st [c1 [Hst [Hc1 Hcase]]]]. cbn [fst snd] in Hst, Hc1.
    rewrite HQ in Hst. inversion Hst; subst st. apply nexts_qsplit in Hc1.
    pose proof (pk_start _ _ Hok lo) as Hs. fold n in Hs.
    assert (Hc1in : inr lo hi (fst c1)) by (destruct Hc1 as [->| ->]; cbn [fst]; unfold inr, E; lia).
    destruct Hcase as [[_ [_ Ho]]|[_ [m' [-> Hp']]]]; [contradiction|].
    destruct Hc1 as [-> | ->].
    - destruct (plus_sound m' i c2 Hi Hp') as [Hq [j1 [HL Hst']]]. split; [exact Hq|]. econstructor; eauto.
    - apply from_E in Hp'. subst c2. cbn [fst snd]. split; [reflexivity|now constructor].
  Qed.

  Lemma quest_entry_complete i j : l_star h (L h) i j -> exists m, ipath A h lo hi m (Q, i) (k, j).
  Proof.
    pose proof (pk_start _ _ Hok lo) as Hs. fold n in Hs.
    intros Hst. inversion Hst as [i' Hi|i' j1 j' HL Hst']; subst.
    - exists 2. eapply ipath_step_in; [exact HQin|exact HQ|apply nexts_qsplit; now right|cbn [fst]; unfold inr, E; lia|apply loop_exit].
    - destruct (plus_complete i j ltac:(exists j1; auto)) as [m Hp].
      exists (S m). eapply ipath_step_in; [exact HQin|exact HQ|apply nexts_qsplit; now left|cbn [fst]; unfold inr; lia|exact Hp].
  Qed.
End Loop.

Lemma st_ok_eps N nc k : k < N -> st_ok N nc (SEpsilon k) = true.
Proof. intros H. unfold st_ok. cbn [state_ok is_match_state negb]. apply Nat.ltb_lt in H. now rewrite H. Qed.

Lemma st_ok_qsplit N nc g a b : a < N -> b < N -> st_ok N nc (qsplit g a b) = true.
Proof.
  intros Ha Hb. apply Nat.ltb_lt in Ha. apply Nat.ltb_lt in Hb.
  unfold st_ok. destruct g; cbn [qsplit state_ok is_match_state negb]; now rewrite Ha, Hb.
Qed.

(* nfa/compile.go: compileStar (body cannot match empty) and compileStarViaPlus (it can):
   body, `end` epsilon, loop split [, question split with the same targets] *)
Definition p_star (greedy nullable : bool) (p : piece) : piece :=
  mkPiece (fun lo => psize p lo + (if nullable then 3 else 2))
          (fun lo => lo + psize p lo + (if nullable then 2 else 1))
          (fun lo k => let n := psize p lo in
                       pstates p lo (lo + n + 1) ++
                       [SEpsilon k; qsplit greedy (pstart p lo) (lo + n)] ++
                       (if nullable then [qsplit greedy (pstart p lo) (lo + n)] else [])).

Lemma p_star_ok g nl p L : piece_ok p L -> piece_ok (p_star g nl p) (fun h => l_star h (L h)).
Proof.
  intros Hok. constructor; cbn [p_star psize pstart pstates]; cbv zeta.
  - intros lo k. rewrite !app_length, (pk_len _ _ Hok). destruct nl; cbn [length]; lia.
  - intros lo. destruct nl; lia.
  - intros h. apply l_star_bounded. intros i j. apply (pk_bounded _ _ Hok).
  - intros A h lo k n i c2 He Hk Hi Hp.
    apply embeds_app in He as [Hb He]. rewrite (pk_len _ _ Hok) in He.
    apply embeds_cons in He as [HE He]. apply embeds_cons in He as [HP He].
    replace (S (lo + psize p lo)) with (lo + psize p lo + 1) in HP by lia.
    destruct nl.
    + apply embeds_one in He. replace (S (S (lo + psize p lo))) with (lo + psize p lo + 2) in He by lia.
      apply (quest_entry_sound p L Hok A h lo (lo + (psize p lo + 3)) k g Hb HE HP ltac:(lia) Hk _ He n i c2 Hi Hp).
    + apply (loop_sound p L Hok A h lo (lo + (psize p lo + 2)) k g Hb HE HP ltac:(lia) Hk n i c2 Hi Hp).
  - intros A h lo k i j He Hk Hm.
    apply embeds_app in He as [Hb He]. rewrite (pk_len _ _ Hok) in He.
    apply embeds_cons in He as [HE He]. apply embeds_cons in He as [HP He].
    replace (S (lo + psize p lo)) with (lo + psize p lo + 1) in HP by lia.
    destruct nl.
    + apply embeds_one in He. replace (S (S (lo + psize p lo))) with (lo + psize p lo + 2) in He by lia.
      apply (quest_entry_complete p L Hok A h lo (lo + (psize p lo + 3)) k g Hb HE HP ltac:(lia) Hk _ He ltac:(unfold inr; lia) i j Hm).
    + apply (loop_complete p L Hok A h lo (lo + (psize p lo + 2)) k g Hb HE HP ltac:(lia) Hk i j Hm).
Qed.

Lemma p_star_wf nc g nl p L : piece_ok p L -> piece_wf nc p -> piece_wf nc (p_star g nl p).
Proof.
  intros Hok W lo k N HN Hk. cbn [p_star psize pstates] in *. cbv zeta.
  pose proof (pk_start _ _ Hok lo) as Hs.
  rewrite !forallb_app'. rewrite W by (destruct nl; lia).
  cbn [forallb]. rewrite st_ok_eps by exact Hk. rewrite st_ok_qsplit by (destruct nl; lia).
  destruct nl; cbn [forallb]; [rewrite st_ok_qsplit by lia|]; reflexivity.
Qed.

(* nfa/compile.go: compilePlus — body, `end` epsilon, loop split; entered at the body *)
Definition p_plus (greedy : bool) (p : piece) : piece :=
  mkPiece (fun lo => psize p lo + 2)
          (fun lo => pstart p lo)
          (fun lo k => let n := psize p lo in
                       pstates p lo (lo + n + 1) ++ [SEpsilon k; qsplit greedy (pstart p lo) (lo + n)]).

Lemma p_plus_ok g p L : piece_ok p L -> piece_ok (p_plus g p) (fun h => l_plus h (L h)).
Proof.
  intros Hok. constructor; cbn [p_plus psize pstart pstates]; cbv zeta.
  - intros lo k. rewrite !app_length, (pk_len _ _ Hok). cbn [length]. lia.
  - intros lo. pose proof (pk_start _ _ Hok lo). lia.
  - intros h i j [k [H1 H2]]. apply (pk_bounded _ _ Hok) in H1.
    apply (l_star_bounded h _ (fun a b => pk_bounded _ _ Hok h a b)) in H2. lia.
  - intros A h lo k n i c2 He Hk Hi Hp.
    apply embeds_app in He as [Hb He]. rewrite (pk_len _ _ Hok) in He.
    apply embeds_cons in He as [HE He]. apply embeds_one in He.
    replace (S (lo + psize p lo)) with (lo + psize p lo + 1) in He by lia.
    apply (plus_sound p L Hok A h lo (lo + (psize p lo + 2)) k g Hb HE He ltac:(lia) Hk n i c2 Hi Hp).
  - intros A h lo k i j He Hk Hm.
    apply embeds_app in He as [Hb He]. rewrite (pk_len _ _ Hok) in He.
    apply embeds_cons in He as [HE He]. apply embeds_one in He.
    replace (S (lo + psize p lo)) with (lo + psize p lo + 1) in He by lia.
    apply (plus_complete p L Hok A h lo (lo + (psize p lo + 2)) k g Hb HE He ltac:(lia) Hk i j Hm).
Qed.

Lemma p_plus_wf nc g p L : piece_ok p L -> piece_wf nc p -> piece_wf nc (p_plus g p).
Proof.
  intros Hok W lo k N HN Hk. cbn [p_plus psize pstates] in *. cbv zeta.
  pose proof (pk_start _ _ Hok lo) as Hs.
  rewrite !forallb_app'. rewrite W by lia.
  cbn [forallb]. rewrite st_ok_eps by exact Hk. rewrite st_ok_qsplit by lia. reflexivity.
Qed.

(* nfa/compile.go: compileQuest — body (exit to `end`), `end` epsilon, split *)
Definition p_quest (greedy : bool) (p : piece) : piece :=
  mkPiece (fun lo => psize p lo + 2)
          (fun lo => lo + psize p lo + 1)
          (fun lo k => let n := psize p lo in
                       pstates p lo (lo + n) ++ [SEpsilon k; qsplit greedy (pstart p lo) (lo + n)]).

Lemma p_quest_ok g p L : piece_ok p L -> piece_ok (p_quest g p) (fun h => l_quest h (L h)).
Proof.
  intros Hok. constructor; cbn [p_quest psize pstart pstates]; cbv zeta.
  - intros lo k. rewrite !app_length, (pk_len _ _ Hok). cbn [length]. lia.
  - intros lo. lia.
  - intros h i j [[-> H]|H]; [lia|]. now apply (pk_bounded _ _ Hok) in H.
  - intros A h lo k n i c2 He Hk Hi Hp.
    apply embeds_app in He as [Hb He]. rewrite (pk_len _ _ Hok) in He.
    apply embeds_cons in He as [HE He]. apply embeds_one in He.
    replace (S (lo + psize p lo)) with (lo + psize p lo + 1) in He by lia.
    pose proof (pk_start _ _ Hok lo) as Hs.
    set (hi := lo + (psize p lo + 2)) in *.
    assert (HfromE : forall m j c, ipath A h lo hi m (lo + psize p lo, j) c -> c = (k, j)).
    { intros m j c Hpe. apply ipath_inv in Hpe as [st [c1 [Hst [Hc1 Hcase]]]]. cbn [fst snd] in Hst, Hc1.
      rewrite HE in Hst. inversion Hst; subst st. rewrite nexts_eps in Hc1. destruct Hc1 as [<-|[]].
      destruct Hcase as [[_ [<- _]]|[Hin _]]; [reflexivity|contradiction]. }
    apply ipath_inv in Hp as [st [c1 [Hst [Hc1 Hcase]]]]. cbn [fst snd] in Hst, Hc1.
    rewrite He in Hst. inversion Hst; subst st. apply nexts_qsplit in Hc1.
    assert (Hc1in : inr lo hi (fst c1)) by (destruct Hc1 as [->| ->]; cbn [fst]; unfold inr, hi; lia).
    destruct Hcase as [[_ [_ Ho]]|[_ [m' [-> Hp']]]]; [contradiction|].
    destruct Hc1 as [-> | ->].
    + destruct (sub_sound p L Hok A h lo hi lo (lo + psize p lo) m' i c2 (le_n _) ltac:(unfold hi; lia) Hb
                  ltac:(unfold inr; lia) Hi Hp') as [j1 [HL [Hj1 Hc]]].
      destruct Hc as [[Ho _]|[_ [m2 [_ Hp2]]]]; [exfalso; apply Ho; unfold inr, hi; lia|].
      apply HfromE in Hp2. subst c2. cbn [fst snd]. split; [reflexivity|now right].
    + apply HfromE in Hp'. subst c2. cbn [fst snd]. split; [reflexivity|left; split; auto].
  - intros A h lo k i j He Hk Hm.
    apply embeds_app in He as [Hb He]. rewrite (pk_len _ _ Hok) in He.
    apply embeds_cons in He as [HE He]. apply embeds_one in He.
    replace (S (lo + psize p lo)) with (lo + psize p lo + 1) in He by lia.
    pose proof (pk_start _ _ Hok lo) as Hs.
    set (hi := lo + (psize p lo + 2)) in *.
    assert (Hexit : forall j', ipath A h lo hi 1 (lo + psize p lo, j') (k, j')).
    { intros j'. eapply ipath_step_out; [unfold inr, hi; lia|exact HE|rewrite nexts_eps; now left|exact Hk]. }
    destruct Hm as [[-> Hi]|HL].
    + exists 2. eapply ipath_step_in; [unfold inr, hi; lia|exact He|apply nexts_qsplit; now right|cbn [fst]; unfold inr, hi; lia|apply Hexit].
    + destruct (sub_complete p L Hok A h lo hi lo (lo + psize p lo) i j (le_n _) ltac:(unfold hi; lia) Hb
                  ltac:(unfold inr; lia) HL) as [_ Hc].
      destruct (Hc ltac:(unfold inr, hi; lia) 1 (k, j) (Hexit j)) as [m Hp].
      exists (S m). eapply ipath_step_in; [unfold inr, hi; lia|exact He|apply nexts_qsplit; now left|cbn [fst]; unfold inr, hi; lia|exact Hp].
Qed.

Lemma p_quest_wf nc g p L : piece_ok p L -> piece_wf nc p -> piece_wf nc (p_quest g p).
Proof.
  intros Hok W lo k N HN Hk. cbn [p_quest psize pstates] in *. cbv zeta.
  pose proof (pk_start _ _ Hok lo) as Hs.
  rewrite !forallb_app'. rewrite W by lia.
  cbn [forallb]. rewrite st_ok_eps by exact Hk. rewrite st_ok_qsplit by lia. reflexivity.
Qed.

(* nfa/compile.go: compileCapture — body, closing capture, opening capture *)
Definition p_cap (idx : nat) (p : piece) : piece :=
  mkPiece (fun lo => psize p lo + 2)
          (fun lo => lo + psize p lo + 1)
          (fun lo k => let n := psize p lo in
                       pstates p lo (lo + n) ++ [SCapture idx false k; SCapture idx true (pstart p lo)]).

Lemma p_cap_ok idx p L : piece_ok p L -> piece_ok (p_cap idx p) L.
Proof.
  intros Hok. constructor; cbn [p_cap psize pstart pstates]; cbv zeta.
  - intros lo k. rewrite !app_length, (pk_len _ _ Hok). cbn [length]. lia.
  - intros lo. lia.
  - apply (pk_bounded _ _ Hok).
  - intros A h lo k n i c2 He Hk Hi Hp.
    apply embeds_app in He as [Hb He]. rewrite (pk_len _ _ Hok) in He.
    apply embeds_cons in He as [HE He]. apply embeds_one in He.
    replace (S (lo + psize p lo)) with (lo + psize p lo + 1) in He by lia.
    pose proof (pk_start _ _ Hok lo) as Hs.
    set (hi := lo + (psize p lo + 2)) in *.
    apply ipath_inv in Hp as [st [c1 [Hst [Hc1 Hcase]]]]. cbn [fst snd] in Hst, Hc1.
    rewrite He in Hst. inversion Hst; subst st. rewrite nexts_cap in Hc1. destruct Hc1 as [<-|[]].
    destruct Hcase as [[_ [_ Ho]]|[_ [m' [-> Hp']]]]; [exfalso; apply Ho; cbn [fst]; unfold inr, hi; lia|].
    destruct (sub_sound p L Hok A h lo hi lo (lo + psize p lo) m' i c2 (le_n _) ltac:(unfold hi; lia) Hb
                ltac:(unfold inr; lia) Hi Hp') as [j1 [HL [Hj1 Hc]]].
    destruct Hc as [[Ho _]|[_ [m2 [_ Hp2]]]]; [exfalso; apply Ho; unfold inr, hi; lia|].
    apply ipath_inv in Hp2 as [st [c1 [Hst' [Hc1 Hcase]]]]. cbn [fst snd] in Hst', Hc1.
    rewrite HE in Hst'. inversion Hst'; subst st. rewrite nexts_cap in Hc1. destruct Hc1 as [<-|[]].
    destruct Hcase as [[_ [<- _]]|[Hin _]]; [|contradiction]. cbn [fst snd]. auto.
  - intros A h lo k i j He Hk HL.
    apply embeds_app in He as [Hb He]. rewrite (pk_len _ _ Hok) in He.
    apply embeds_cons in He as [HE He]. apply embeds_one in He.
    replace (S (lo + psize p lo)) with (lo + psize p lo + 1) in He by lia.
    pose proof (pk_start _ _ Hok lo) as Hs.
    set (hi := lo + (psize p lo + 2)) in *.
    assert (Hexit : ipath A h lo hi 1 (lo + psize p lo, j) (k, j)).
    { eapply ipath_step_out; [unfold inr, hi; lia|exact HE|rewrite nexts_cap; now left|exact Hk]. }
    destruct (sub_complete p L Hok A h lo hi lo (lo + psize p lo) i j (le_n _) ltac:(unfold hi; lia) Hb
                ltac:(unfold inr; lia) HL) as [_ Hc].
    destruct (Hc ltac:(unfold inr, hi; lia) 1 (k, j) Hexit) as [m Hp].
    exists (S m). eapply ipath_step_in; [unfold inr, hi; lia|exact He|rewrite nexts_cap; now left|cbn [fst]; unfold inr, hi; lia|exact Hp].
Qed.

Lemma p_cap_wf nc idx p L : piece_ok p L -> piece_wf nc p -> idx < nc -> piece_wf nc (p_cap idx p).
Proof.
  intros Hok W Hidx lo k N HN Hk. cbn [p_cap psize pstates] in *. cbv zeta.
  pose proof (pk_start _ _ Hok lo) as Hs.
  rewrite !forallb_app'. rewrite W by lia.
  cbn [forallb]. unfold st_ok. cbn [state_ok is_match_state negb].
  apply Nat.ltb_lt in Hidx. apply Nat.ltb_lt in Hk. rewrite Hidx, Hk.
  assert (H : (pstart p lo <? N) = true) by (apply Nat.ltb_lt; lia). now rewrite H.
Qed.

(* ================================================================== byte-level atoms *)
(* two pieces in sequence, placed anywhere inside a range *)
Section Seq2.
  Variables p q : piece.
  Variables L1 L2 : hlang.
  Hypothesis Hp : piece_ok p L1.
  Hypothesis Hq : piece_ok q L2.
  Variable A : nfa.
  Variable h : hay.
  Variables lo hi lp lq k : nat.
  Hypothesis Hep : embeds A lp (pstates p lp (pstart q lq)).
  Hypothesis Heq : embeds A lq (pstates q lq k).
  Hypothesis Hlp : lo <= lp /\ lp + psize p lp <= hi.
  Hypothesis Hlq : lo <= lq /\ lq + psize q lq <= hi.
  Hypothesis Hdisj : lp + psize p lp <= lq \/ lq + psize q lq <= lp.
  Hypothesis Hk : ~ inr lo hi k.

  Lemma seq2_sound n i c2 : i <= length h -> ipath A h lo hi n (pstart p lp, i) c2 ->
    fst c2 = k /\ l_cat (L1 h) (L2 h) i (snd c2).
  Proof.
    intros Hi Hpa. pose proof (pk_start _ _ Hq lq) as Hs2.
    destruct (sub_sound p L1 Hp A h lo hi lp (pstart q lq) n i c2 ltac:(lia) ltac:(lia) Hep
                ltac:(unfold inr; lia) Hi Hpa) as [j1 [HL1 [Hj1 Hc]]].
    destruct Hc as [[Ho _]|[_ [n2 [_ Hp2]]]]; [exfalso; apply Ho; unfold inr; lia|].
    destruct (sub_sound q L2 Hq A h lo hi lq k n2 j1 c2 ltac:(lia) ltac:(lia) Heq
                ltac:(unfold inr in *; lia) Hj1 Hp2) as [j2 [HL2 [Hj2 Hc]]].
    destruct Hc as [[_ ->]|[Hin _]]; [|contradiction].
    cbn [fst snd]. split; [reflexivity|]. exists j1. auto.
  Qed.

  Lemma seq2_complete i j : l_cat (L1 h) (L2 h) i j -> exists n, ipath A h lo hi n (pstart p lp, i) (k, j).
  Proof.
    intros [j1 [HL1 HL2]]. pose proof (pk_start _ _ Hq lq) as Hs2.
    destruct (sub_complete q L2 Hq A h lo hi lq k j1 j ltac:(lia) ltac:(lia) Heq
                ltac:(unfold inr in *; lia) HL2) as [Hc2 _].
    destruct (Hc2 Hk) as [n2 Hp2].
    destruct (sub_complete p L1 Hp A h lo hi lp (pstart q lq) i j1 ltac:(lia) ltac:(lia) Hep
                ltac:(unfold inr; lia) HL1) as [_ Hc1].
    apply (Hc1 ltac:(unfold inr; lia) n2 (k, j) Hp2).
  Qed.
End Seq2.

(* q is allocated first, then p whose exit is wired to q's entry: the order in which
   compile.go allocates a shared target epsilon before the state that leads to it, and the
   continuation bytes of a UTF-8 sequence before the lead byte *)
Definition p_seq_rev (p q : piece) : piece :=
  mkPiece (fun lo => let n2 := psize q lo in n2 + psize p (lo + n2))
          (fun lo => pstart p (lo + psize q lo))
          (fun lo k => pstates q lo k ++ pstates p (lo + psize q lo) (pstart q lo)).

Lemma p_seq_rev_ok p q (L1 L2 : hlang) :
  piece_ok p L1 -> piece_ok q L2 -> piece_ok (p_seq_rev p q) (fun h => l_cat (L1 h) (L2 h)).
Proof.
  intros H1 H2. constructor; cbn [p_seq_rev psize pstart pstates].
  - intros lo k. rewrite app_length, (pk_len _ _ H1), (pk_len _ _ H2). reflexivity.
  - intros lo. pose proof (pk_start _ _ H2 lo). pose proof (pk_start _ _ H1 (lo + psize q lo)). lia.
  - intros h i j [k [Ha Hb]]. apply (pk_bounded _ _ H1) in Ha. apply (pk_bounded _ _ H2) in Hb. lia.
  - intros A h lo k n i c2 He Hk Hi Hp.
    apply embeds_app in He as [He2 He1]. rewrite (pk_len _ _ H2) in He1.
    pose proof (pk_start _ _ H2 lo). pose proof (pk_start _ _ H1 (lo + psize q lo)).
    apply (seq2_sound p q L1 L2 H1 H2 A h lo (lo + (psize q lo + psize p (lo + psize q lo))) (lo + psize q lo) lo k He1 He2 ltac:(lia) ltac:(lia) ltac:(lia) Hk n i c2 Hi Hp).
  - intros A h lo k i j He Hk Hm.
    apply embeds_app in He as [He2 He1]. rewrite (pk_len _ _ H2) in He1.
    pose proof (pk_start _ _ H2 lo). pose proof (pk_start _ _ H1 (lo + psize q lo)).
    apply (seq2_complete p q L1 L2 H1 H2 A h lo (lo + (psize q lo + psize p (lo + psize q lo))) (lo + psize q lo) lo k He1 He2 ltac:(lia) ltac:(lia) ltac:(lia) Hk i j Hm).
Qed.

Lemma p_seq_rev_wf nc p q (L1 L2 : hlang) : piece_ok p L1 -> piece_ok q L2 ->
  piece_wf nc p -> piece_wf nc q -> piece_wf nc (p_seq_rev p q).
Proof.
  intros Hp Hq W1 W2 lo k N HN Hk. cbn [p_seq_rev psize pstates] in *. rewrite forallb_app'.
  pose proof (pk_start _ _ Hq lo). pose proof (pk_start _ _ Hp (lo + psize q lo)).
  rewrite W1 by lia. rewrite W2 by lia. reflexivity.
Qed.

Lemma p_byte_ok lo hi : piece_ok (p_byte lo hi) (fun h => l_seq h [(lo, hi)]).
Proof.
  apply (p_one_ok (SByteRange lo hi)
           (fun h p => match nth_error h p with Some b => if in_range lo hi b then Some (S p) else None | None => None end)).
  - intros k h p. rewrite nexts_byte. destruct (nth_error h p); [|reflexivity]. now destruct (in_range lo hi n).
  - intros h i j Hi H. cbn [l_seq]. destruct (nth_error h i) as [b|] eqn:E; [|discriminate].
    destruct (in_range lo hi b) eqn:Er; inversion H; subst. exists b. repeat split; auto.
    apply nth_error_Some_lt' in E. lia.
  - intros h i j [b [Hb [Hr [<- _]]]]. now rewrite Hb, Hr.
  - intros h i j [b [Hb [Hr [<- Hl]]]]. lia.
Qed.

Lemma p_byte_wf nc lo hi : (lo <= hi)%N -> (hi < 256)%N -> piece_wf nc (p_byte lo hi).
Proof.
  intros H1 H2 l k N HN Hk. cbn [p_byte p_one pstates forallb]. unfold st_ok.
  cbn [state_ok is_match_state negb]. apply Nat.ltb_lt in Hk. rewrite Hk.
  apply N.leb_le in H1. apply N.ltb_lt in H2. now rewrite H1, H2.
Qed.

(* a chain of byte ranges allocated first byte first (compileCaseSensitiveRune,
   compileSingleRune) *)
Definition p_fseq (s : bseq) : piece := p_cat (map (fun lh => p_byte (fst lh) (snd lh)) s).

Lemma l_cats_lseq h s : forall i j, l_cats h (map (fun lh => l_seq h [lh]) s) i j <-> l_seq h s i j.
Proof.
  induction s as [|lh t IH]; intros i j; cbn [map l_cats]; [reflexivity|].
  change (lh :: t) with ([lh] ++ t). rewrite l_seq_app. unfold l_cat.
  split; intros [k [H1 H2]]; exists k; (split; [exact H1|now apply IH]).
Qed.

Lemma p_fseq_ok s : piece_ok (p_fseq s) (fun h => l_seq h s).
Proof.
  unfold p_fseq. eapply piece_ok_lang; [|apply (p_cat_ok (fun lh => p_byte (fst lh) (snd lh)) (fun lh h => l_seq h [lh]))].
  - intros h i j. apply l_cats_lseq.
  - intros [lo hi] _. apply p_byte_ok.
Qed.

Definition bseq_ok (s : bseq) : Prop := Forall (fun lh => (fst lh <= snd lh)%N /\ (snd lh < 256)%N) s.

Lemma p_fseq_wf nc s : bseq_ok s -> piece_wf nc (p_fseq s).
Proof.
  intros Hs. unfold p_fseq. apply (p_cat_wf nc (fun lh => p_byte (fst lh) (snd lh)) (fun lh h => l_seq h [lh])).
  - intros [lo hi] _. apply p_byte_ok.
  - intros [lo hi] Hin. unfold bseq_ok in Hs. rewrite Forall_forall in Hs. destruct (Hs _ Hin). now apply p_byte_wf.
Qed.

(* a chain of byte ranges allocated last byte first (every compileUTF8*ByteRange branch,
   buildUTF8NonASCIIBranches): cont_n, ..., cont_1, lead *)
Fixpoint p_rseq (s : bseq) : piece :=
  match s with
  | [] => p_eps
  | lh :: t => match t with [] => p_byte (fst lh) (snd lh) | _ :: _ => p_seq_rev (p_byte (fst lh) (snd lh)) (p_rseq t) end
  end.

Lemma p_rseq_ok s : piece_ok (p_rseq s) (fun h => l_seq h s).
Proof.
  induction s as [|[lo hi] [|lh2 t] IH].
  - exact p_eps_ok.
  - apply p_byte_ok.
  - change (p_rseq ((lo, hi) :: lh2 :: t)) with (p_seq_rev (p_byte lo hi) (p_rseq (lh2 :: t))).
    eapply piece_ok_lang; [|apply (p_seq_rev_ok _ _ _ _ (p_byte_ok lo hi) IH)].
    intros h i j. change ((lo, hi) :: lh2 :: t) with ([(lo, hi)] ++ lh2 :: t). rewrite l_seq_app. reflexivity.
Qed.

Lemma p_rseq_wf nc s : bseq_ok s -> piece_wf nc (p_rseq s).
Proof.
  induction s as [|[lo hi] [|lh2 t] IH]; intros Hs.
  - intros l k N HN Hk. cbn [p_rseq p_eps p_one pstates forallb]. now rewrite st_ok_eps.
  - inversion Hs as [|? ? [H1 H2] _]; subst. now apply p_byte_wf.
  - change (p_rseq ((lo, hi) :: lh2 :: t)) with (p_seq_rev (p_byte lo hi) (p_rseq (lh2 :: t))).
    inversion Hs as [|? ? [H1 H2] Ht]; subst.
    eapply p_seq_rev_wf; [apply p_byte_ok|apply p_rseq_ok|now apply p_byte_wf|now apply IH].
Qed.

(* one Sparse state whose transitions all lead to the exit *)
Definition p_sparse1 (trs : list (N * N)) : piece :=
  p_one (fun k => SSparse (map (fun lh => (fst lh, snd lh, k)) trs)).

Definition in_any_range (trs : list (N * N)) (b : N) : bool :=
  existsb (fun lh => in_range (fst lh) (snd lh) b) trs.

Lemma sparse_next_same trs k b :
  sparse_next (map (fun lh => (fst lh, snd lh, k)) trs) b = if in_any_range trs b then Some k else None.
Proof.
  induction trs as [|[lo hi] t IH]; cbn [map sparse_next in_any_range existsb fst snd]; [reflexivity|].
  destruct (in_range lo hi b); [reflexivity|]. exact IH.
Qed.

Definition l_one_of (trs : list (N * N)) : hlang := fun h i j => exists lh, In lh trs /\ l_seq h [lh] i j.

Lemma p_sparse1_ok trs : piece_ok (p_sparse1 trs) (l_one_of trs).
Proof.
  apply (p_one_ok _ (fun h p => match nth_error h p with Some b => if in_any_range trs b then Some (S p) else None | None => None end)).
  - intros k h p. rewrite nexts_sparse. destruct (nth_error h p); [|reflexivity].
    rewrite sparse_next_same. now destruct (in_any_range trs n).
  - intros h i j Hi H. destruct (nth_error h i) as [b|] eqn:E; [|discriminate].
    destruct (in_any_range trs b) eqn:Er; inversion H; subst.
    unfold in_any_range in Er. apply existsb_exists in Er as [[lo hi] [Hin Hr]]. cbn [fst snd] in Hr.
    exists (lo, hi). split; [exact Hin|]. exists b. repeat split; auto. apply nth_error_Some_lt' in E. lia.
  - intros h i j [[lo hi] [Hin [b [Hb [Hr [<- _]]]]]]. rewrite Hb.
    assert (E : in_any_range trs b = true) by (apply existsb_exists; exists (lo, hi); auto). now rewrite E.
  - intros h i j [[lo hi] [Hin [b [Hb [Hr [<- Hl]]]]]]. lia.
Qed.

(* Sparse states must list disjoint increasing ranges (Nfa.sparse_ok) *)
Fixpoint ranges_sorted (prev : option N) (trs : list (N * N)) : bool :=
  match trs with
  | [] => true
  | (lo, hi) :: t => (lo <=? hi)%N && (hi <? 256)%N &&
                     (match prev with None => true | Some ph => (ph <? lo)%N end) && ranges_sorted (Some hi) t
  end.

Lemma sparse_ok_same N k trs : k < N -> forall prev, ranges_sorted prev trs = true ->
  sparse_ok N prev (map (fun lh => (fst lh, snd lh, k)) trs) = true.
Proof.
  intros Hk. apply Nat.ltb_lt in Hk. induction trs as [|[lo hi] t IH]; intros prev H; [reflexivity|].
  cbn [map sparse_ok ranges_sorted fst snd] in *.
  apply andb_prop in H as [H Ht]. apply andb_prop in H as [H H3]. apply andb_prop in H as [H1 H2].
  rewrite H1, H2, H3, Hk. cbn [andb]. now apply IH.
Qed.

Lemma p_sparse1_wf nc trs : ranges_sorted None trs = true -> piece_wf nc (p_sparse1 trs).
Proof.
  intros Hs l k N HN Hk. cbn [p_sparse1 p_one pstates forallb]. unfold st_ok.
  cbn [state_ok is_match_state negb]. now rewrite (sparse_ok_same N k trs Hk None Hs).
Qed.

(* nfa/compile.go: compileNoMatch — a Fail state, and an unconnected epsilon as the end *)
Definition p_nomatch : piece := mkPiece (fun _ => 2) (fun lo => lo) (fun _ k => [SFail; SEpsilon k]).

Lemma p_nomatch_ok : piece_ok p_nomatch (fun _ => l_none).
Proof.
  constructor; cbn [p_nomatch psize pstart pstates].
  - reflexivity.
  - intros lo. lia.
  - intros h i j [].
  - intros A h lo k n i c2 He Hk Hi Hp. apply embeds_cons in He as [HF _].
    apply ipath_inv in Hp as [st [c1 [Hst [Hc1 _]]]]. cbn [fst snd] in Hst, Hc1.
    rewrite HF in Hst. inversion Hst; subst st. rewrite nexts_fail in Hc1. destruct Hc1.
  - intros A h lo k i j _ _ [].
Qed.

Lemma p_nomatch_wf nc : piece_wf nc p_nomatch.
Proof. intros l k N HN Hk. cbn [p_nomatch pstates forallb]. now rewrite st_ok_eps. Qed.

Lemma p_eps_wf nc : piece_wf nc p_eps.
Proof. intros l k N HN Hk. cbn [p_eps p_one pstates forallb]. now rewrite st_ok_eps. Qed.

Lemma p_look_wf nc lk : piece_wf nc (p_look lk).
Proof.
  intros l k N HN Hk. cbn [p_look p_one pstates forallb]. unfold st_ok. cbn [state_ok is_match_state negb].
  apply Nat.ltb_lt in Hk. now rewrite Hk.
Qed.

(* ================================================================== rune-level atoms *)
Definition nrange (a b : N) : list N :=
  map (fun i => (a + N.of_nat i)%N) (seq 0 (N.to_nat (b + 1 - a))).

Definition exact_seq (bs : list N) : bseq := map (fun b => (b, b)) bs.

(* ---------------------------------------------------------------- UTF-8 range splitting *)
(* nfa/compile.go: compileUTF83ByteRangeSimple with utf8Cont2Lo/Hi, utf8Cont1Lo3Byte/Hi3Byte,
   utf8Cont2LoFull/HiFull; one (lead, cont1, cont2-range) triple per start state *)
Definition seqs3_simple (lo hi : N) : list bseq :=
  let loLead := (224 + lo / 4096)%N in let loC1 := (128 + (lo / 64) mod 64)%N in let loC2 := (128 + lo mod 64)%N in
  let hiLead := (224 + hi / 4096)%N in let hiC1 := (128 + (hi / 64) mod 64)%N in let hiC2 := (128 + hi mod 64)%N in
  if (loLead =? hiLead)%N && (loC1 =? hiC1)%N then [[(loLead, loLead); (loC1, loC1); (loC2, hiC2)]]
  else if (loLead =? hiLead)%N then
    map (fun c1 => [(loLead, loLead); (c1, c1);
                    ((if (c1 =? loC1)%N then loC2 else 128%N), (if (c1 =? hiC1)%N then hiC2 else 191%N))])
        (nrange loC1 hiC1)
  else
    flat_map (fun lead =>
      let c1Lo := if (lead =? loLead)%N then loC1 else if (lead =? 224)%N then 160%N else 128%N in
      let c1Hi := if (lead =? hiLead)%N then hiC1 else if (lead =? 237)%N then 159%N else 191%N in
      map (fun c1 => [(lead, lead); (c1, c1);
                      ((if (lead =? loLead)%N && (c1 =? loC1)%N then loC2 else 128%N),
                       (if (lead =? hiLead)%N && (c1 =? hiC1)%N then hiC2 else 191%N))])
          (nrange c1Lo c1Hi))
      (nrange loLead hiLead).

(* nfa/compile.go: compileUTF83ByteRange (the surrogate gap) *)
Definition seqs3 (lo hi : N) : list bseq :=
  if (lo <=? 0xD7FF)%N && (0xE000 <=? hi)%N then seqs3_simple lo 0xD7FF ++ seqs3_simple 0xE000 hi
  else if (0xD800 <=? lo)%N && (hi <=? 0xDFFF)%N then []
  else
    let lo' := if (0xD800 <=? lo)%N && (lo <=? 0xDFFF)%N then 0xE000%N else lo in
    let hi' := if (0xD800 <=? hi)%N && (hi <=? 0xDFFF)%N then 0xD7FF%N else hi in
    if (hi' <? lo')%N then [] else seqs3_simple lo' hi'.

(* nfa/compile.go: utf8FourByteSequences — the recursive split; m = 2^(6i) - 1, so
   lo &^ m = lo / d * d, lo & m = lo mod d, lo | m = lo / d * d + (d - 1) with d = 2^(6i) *)
Definition split4_step (lo hi : N) : option (N * N * N * N) :=
  let try (d : N) : option (N * N * N * N) :=
    if (lo / d =? hi / d)%N then None
    else if negb (lo mod d =? 0)%N then Some (lo, lo / d * d + (d - 1), lo / d * d + (d - 1) + 1, hi)%N
    else if negb (hi mod d =? d - 1)%N then Some (lo, hi / d * d - 1, hi / d * d, hi)%N
    else None in
  match try 64%N with
  | Some r => Some r
  | None => match try 4096%N with
            | Some r => Some r
            | None => try 262144%N
            end
  end.

Fixpoint split4 (fuel : nat) (lo hi : N) : list bseq :=
  match fuel with
  | 0 => []
  | S f =>
      match split4_step lo hi with
      | Some (a1, b1, a2, b2) => split4 f a1 b1 ++ split4 f a2 b2
      | None => [[((240 + lo / 262144)%N, (240 + hi / 262144)%N);
                  ((128 + (lo / 4096) mod 64)%N, (128 + (hi / 4096) mod 64)%N);
                  ((128 + (lo / 64) mod 64)%N, (128 + (hi / 64) mod 64)%N);
                  ((128 + lo mod 64)%N, (128 + hi mod 64)%N)]]
      end
  end.

(* nfa/compile.go: compileUTF84ByteRange *)
Definition seqs4' (lo hi : N) : list bseq :=
  let hi := N.min hi 0x10FFFF in
  let lo := N.max lo 0x10000 in
  if (hi <? lo)%N then [] else split4 24 lo hi.

(* nfa/compile.go: compileUTF8Range — by encoded length; start states in this order *)
Definition utf8_seqs (lo hi : N) : list bseq :=
  let s1 := if (lo <=? 0x7F)%N then [[(lo, N.min hi 0x7F)]] else [] in
  let lo := if (lo <=? 0x7F)%N then 0x80%N else lo in
  if (hi <? lo)%N then s1 else
  let s2 := if (lo <=? 0x7FF)%N then seqs2 lo (N.min hi 0x7FF) else [] in
  let lo := if (lo <=? 0x7FF)%N then 0x800%N else lo in
  if (hi <? lo)%N then s1 ++ s2 else
  let s3 := if (lo <=? 0xFFFF)%N then seqs3 lo (N.min hi 0xFFFF) else [] in
  let lo := if (lo <=? 0xFFFF)%N then 0x10000%N else lo in
  if (hi <? lo)%N then s1 ++ s2 ++ s3 else
  s1 ++ s2 ++ s3 ++ seqs4' lo hi.

(* nfa/compile.go: buildUTF8NonASCIIBranches / the `sequences` table of compileUTF8Any:
   all well-formed multi-byte UTF-8 *)
Definition utf8_multibyte : list bseq :=
  [ [(0xC2, 0xDF); (0x80, 0xBF)];
    [(0xE0, 0xE0); (0xA0, 0xBF); (0x80, 0xBF)];
    [(0xE1, 0xEC); (0x80, 0xBF); (0x80, 0xBF)];
    [(0xED, 0xED); (0x80, 0x9F); (0x80, 0xBF)];
    [(0xEE, 0xEF); (0x80, 0xBF); (0x80, 0xBF)];
    [(0xF0, 0xF0); (0x90, 0xBF); (0x80, 0xBF); (0x80, 0xBF)];
    [(0xF1, 0xF3); (0x80, 0xBF); (0x80, 0xBF); (0x80, 0xBF)];
    [(0xF4, 0xF4); (0x80, 0x8F); (0x80, 0xBF); (0x80, 0xBF)] ]%N.

(* ---------------------------------------------------------------- character classes *)
(* nfa/compile.go: compileCharClass: `allASCII` *)
Definition all_ascii (ranges : list (N * N)) : bool :=
  forallb (fun lh => (fst lh <=? 127)%N && (snd lh <=? 127)%N) ranges.

(* nfa/compile.go: compileUnicodeClass: totalChars *)
Definition class_total (ranges : list (N * N)) : N :=
  fold_left (fun acc lh => (acc + (snd lh - fst lh + 1))%N) ranges 0%N.

Definition class_runes (ranges : list (N * N)) : list N :=
  flat_map (fun lh => nrange (fst lh) (snd lh)) ranges.

(* nfa/compile.go: compileUnicodeClassLarge: the ASCII / non-ASCII partition *)
Definition la_part (lh : N * N) : list (N * N) * list (N * N) :=
  if (snd lh <? 128)%N then ([lh], [])
  else if (128 <=? fst lh)%N then ([], [lh])
  else ([(fst lh, 127%N)], [(128%N, snd lh)]).

Definition ascii_part (ranges : list (N * N)) : list (N * N) := flat_map (fun lh => fst (la_part lh)) ranges.
Definition nonascii_part (ranges : list (N * N)) : list (N * N) := flat_map (fun lh => snd (la_part lh)) ranges.

Definition covers_all (non : list (N * N)) : bool :=
  match non with [(l, hh)] => (l <=? 128)%N && (0x10FFFF <=? hh)%N | _ => false end.

(* one alternative of compileUnicodeClassLarge: a Sparse state or a reversed byte chain,
   each wired directly to the shared target *)
Inductive alt_desc := DSparse (trs : list (N * N)) | DSeq (s : bseq).

Definition desc_piece (d : alt_desc) : piece :=
  match d with DSparse trs => p_sparse1 trs | DSeq s => p_rseq s end.

Definition desc_lang (d : alt_desc) : hlang :=
  match d with DSparse trs => l_one_of trs | DSeq s => fun h => l_seq h s end.

Definition desc_seqs (d : alt_desc) : list bseq :=
  match d with DSparse trs => map (fun lh => [lh]) trs | DSeq s => [s] end.

Definition large_descs (ranges : list (N * N)) : list alt_desc :=
  let asc := ascii_part ranges in
  let non := nonascii_part ranges in
  (match asc with [] => [] | [lh] => [DSeq [lh]] | _ => [DSparse asc] end) ++
  (match non with
   | [] => []
   | _ => if covers_all non then map DSeq utf8_multibyte ++ [DSeq [(128%N, 255%N)]]
          else map DSeq (flat_map (fun lh => utf8_seqs (fst lh) (snd lh)) non)
   end).

(* no alternative at all (a class of surrogates only): the target epsilon stays unpatched
   (InvalidState in Go, rendered here as a self reference; re_ok excludes the case), then
   compileNoMatch *)
Definition p_nomatch_dangling : piece :=
  mkPiece (fun _ => 3) (fun lo => lo + 1) (fun lo k => [SEpsilon lo; SFail; SEpsilon k]).

(* nfa/compile.go: compileCharClass, compileUnicodeClass, compileUnicodeClassLarge *)
Definition p_class (ranges : list (N * N)) : piece :=
  match ranges with
  | [] => p_nomatch
  | _ =>
      if all_ascii ranges then
        match ranges with
        | [lh] => p_byte (fst lh) (snd lh)
        | _ => p_seq_rev (p_sparse1 ranges) p_eps
        end
      else if (class_total ranges <=? 256)%N then
        p_alt (map (fun c => p_fseq (exact_seq (encode_rune c))) (class_runes ranges))
      else
        match large_descs ranges with
        | [] => p_nomatch_dangling
        | ds => p_altj true (map desc_piece ds)
        end
  end.

(* the byte-range sequences a class is compiled to *)
Definition class_seqs (ranges : list (N * N)) : list bseq :=
  match ranges with
  | [] => []
  | _ =>
      if all_ascii ranges then map (fun lh => [lh]) ranges
      else if (class_total ranges <=? 256)%N then map (fun c => exact_seq (encode_rune c)) (class_runes ranges)
      else flat_map desc_seqs (large_descs ranges)
  end.

(* ---------------------------------------------------------------- dot *)
(* nfa/utf8_suffix.go: utf8SuffixCache — a direct-mapped cache of 64 entries keyed by the
   FNV-1a hash (uint64 arithmetic) of (target state, lo, hi); a collision overwrites *)
(* uint64 wrap-around: x mod 2^64 = x land (2^64 - 1) (N.land_ones); `% 64` likewise *)
Definition m64 : N := 18446744073709551615%N.
Definition fnv_step (hh x : N) : N := N.land (N.lxor hh x * 1099511628211) m64.
Definition suffix_hash (from : nat) (lo hi : N) : N :=
  N.land (fnv_step (fnv_step (fnv_step 14695981039346656037%N (N.of_nat from)) lo) hi) 63.

Lemma fnv_step_mod hh x : fnv_step hh x = ((N.lxor hh x * 1099511628211) mod 2 ^ 64)%N.
Proof. unfold fnv_step. change m64 with (N.ones 64). apply N.land_ones. Qed.

(* the proofs never look inside the hash (vm_compute is unaffected) *)
Global Opaque suffix_hash.

Definition centry := (N * nat * N * N * nat)%type.   (* slot, key.from, key.start, key.end, val *)

Fixpoint cache_slot (c : list centry) (slot : N) : option centry :=
  match c with
  | [] => None
  | e :: t => let '(s, _, _, _, _) := e in if (s =? slot)%N then Some e else cache_slot t slot
  end.

Definition cache_get (c : list centry) (from : nat) (lo hi : N) : option nat :=
  match cache_slot c (suffix_hash from lo hi) with
  | Some (_, f, l, hh, v) => if (f =? from) && (l =? lo)%N && (hh =? hi)%N then Some v else None
  | None => None
  end.

(* the builder inside compileUTF8Any: next free id, states added so far (newest first), cache *)
Definition dstate := (nat * list nstate * list centry)%type.

(* nfa/utf8_suffix.go: getOrCreate *)
Definition get_or_create (d : dstate) (target : nat) (lo hi : N) : dstate * nat :=
  let '(nid, sts, c) := d in
  match cache_get c target lo hi with
  | Some v => (d, v)
  | None => ((S nid, SByteRange lo hi target :: sts, (suffix_hash target lo hi, target, lo, hi, nid) :: c), nid)
  end.

(* one sequence, last byte first *)
Definition build_seq (d : dstate) (endS : nat) (s : bseq) : dstate * nat :=
  fold_left (fun dt lh => get_or_create (fst dt) (snd dt) (fst lh) (snd lh)) (rev s) (d, endS).

Definition build_seqs (d : dstate) (endS : nat) (ss : list bseq) : dstate * list nat :=
  fold_left (fun ds s => let '(d', t) := build_seq (fst ds) endS s in (d', snd ds ++ [t])) ss (d, []).

(* nfa/compile.go: compileUTF8Any (DefaultCompilerConfig: neither ASCIIOnly nor UseRuneStates):
   end epsilon, ASCII state, the eight multi-byte sequences with suffix sharing, the
   invalid-byte Sparse state, split chain *)
Definition any_build (nl : bool) (lo : nat) : list nstate * nat * list nat :=
  let '((nid, sts, _), starts) := build_seqs (lo + 2, [], []) lo utf8_multibyte in
  (rev sts, nid, starts).

Definition any_ascii (nl : bool) (endS : nat) : nstate :=
  if nl then SByteRange 0 127 endS else SSparse [(0%N, 9%N, endS); (11%N, 127%N, endS)].

Definition any_invalid (endS : nat) : nstate :=
  SSparse [(128%N, 191%N, endS); (192%N, 193%N, endS); (245%N, 255%N, endS)].

Definition any_branches (nl : bool) (lo : nat) : list nat :=
  let '(_, nid, starts) := any_build nl lo in (lo + 1) :: starts ++ [nid].

Definition p_any (nl : bool) : piece :=
  mkPiece
    (fun lo => let '(sts, nid, starts) := any_build nl lo in (nid + 1 - lo) + (length (any_branches nl lo) - 1))
    (fun lo => let '(sts, nid, starts) := any_build nl lo in snd (split_chain (any_branches nl lo) (S nid)))
    (fun lo k => let '(sts, nid, starts) := any_build nl lo in
                 [SEpsilon k; any_ascii nl lo] ++ sts ++ [any_invalid lo] ++
                 fst (split_chain (any_branches nl lo) (S nid))).

Definition any_seqs (nl : bool) : list bseq :=
  (if nl then [[(0%N, 127%N)]] else [[(0%N, 9%N)]; [(11%N, 127%N)]]) ++ utf8_multibyte ++
  [[(128%N, 191%N)]; [(192%N, 193%N)]; [(245%N, 255%N)]].

(* the languages of the atoms AS BUILT *)
Definition code_atoms : atom_sem :=
  mkAtomSem (fun ranges bs => in_seqs bs (class_seqs ranges) = true)
            (fun nl bs => in_seqs bs (any_seqs nl) = true).


(* ================================================================== classes are correct as built *)
Lemma l_seqs_bytes h ss i j :
  (exists s, In s ss /\ l_seq h s i j) <-> l_bytes h (fun bs => in_seqs bs ss = true) i j.
Proof.
  unfold l_bytes, in_seqs. split.
  - intros [s [Hs Hm]]. apply l_seq_slice in Hm as [Hb Hm]. split; [exact Hb|].
    apply existsb_exists. exists s. auto.
  - intros [Hb Hm]. apply existsb_exists in Hm as [s [Hs Hm]]. exists s. split; [exact Hs|].
    apply l_seq_slice. auto.
Qed.

Definition bseq_okb (s : bseq) : bool := forallb (fun lh => (fst lh <=? snd lh)%N && (snd lh <? 256)%N) s.

Lemma bseq_okb_ok s : bseq_okb s = true -> bseq_ok s.
Proof.
  unfold bseq_okb, bseq_ok. rewrite forallb_forall, Forall_forall. intros H x Hx. specialize (H x Hx). lia.
Qed.

Definition desc_okb (d : alt_desc) : bool :=
  match d with DSparse trs => ranges_sorted None trs | DSeq s => bseq_okb s end.

Lemma desc_piece_ok d : piece_ok (desc_piece d) (desc_lang d).
Proof. destruct d; [apply p_sparse1_ok|apply p_rseq_ok]. Qed.

Lemma desc_piece_wf nc d : desc_okb d = true -> piece_wf nc (desc_piece d).
Proof. destruct d; cbn [desc_okb desc_piece]; intros H; [now apply p_sparse1_wf|apply p_rseq_wf; now apply bseq_okb_ok]. Qed.

Lemma desc_lang_seqs d h i j : desc_lang d h i j <-> exists s, In s (desc_seqs d) /\ l_seq h s i j.
Proof.
  destruct d as [trs|s]; cbn [desc_lang desc_seqs].
  - unfold l_one_of. split.
    + intros [lh [Hin Hm]]. exists [lh]. split; [apply in_map_iff; exists lh; auto|exact Hm].
    + intros [s [Hs Hm]]. apply in_map_iff in Hs as [lh [<- Hin]]. eauto.
  - split; [intros H; exists s; split; [now left|exact H]|]. intros [s' [[<-|[]] H]]. exact H.
Qed.

(* what the generic theorems need of a class: decidable, evaluated by the case checker on
   every translated pattern; regexp/syntax produces sorted disjoint ranges *)
Definition class_ok (ranges : list (N * N)) : bool :=
  match ranges with
  | [] => true
  | _ =>
      forallb bseq_okb (class_seqs ranges) && negb (match class_seqs ranges with [] => true | _ => false end) &&
      (if all_ascii ranges then ranges_sorted None ranges
       else if (class_total ranges <=? 256)%N then true
       else forallb desc_okb (large_descs ranges))
  end.

Definition class_lang (ranges : list (N * N)) : hlang :=
  fun h i j => exists s, In s (class_seqs ranges) /\ l_seq h s i j.

Lemma p_nomatch_dangling_ok : piece_ok p_nomatch_dangling (fun _ => l_none).
Proof.
  constructor; cbn [p_nomatch_dangling psize pstart pstates].
  - reflexivity.
  - intros lo. lia.
  - intros h i j [].
  - intros A h lo k n i c2 He Hk Hi Hp. apply embeds_cons in He as [_ He]. apply embeds_cons in He as [HF _].
    apply ipath_inv in Hp as [st [c1 [Hst [Hc1 _]]]]. cbn [fst snd] in Hst, Hc1.
    replace (lo + 1) with (S lo) in Hst by lia.
    rewrite HF in Hst. inversion Hst; subst st. rewrite nexts_fail in Hc1. destruct Hc1.
  - intros A h lo k i j _ _ [].
Qed.

Lemma p_class_ok ranges : class_ok ranges = true -> piece_ok (p_class ranges) (class_lang ranges).
Proof.
  unfold class_ok, p_class, class_lang, class_seqs. destruct ranges as [|r0 rt].
  - intros _. eapply piece_ok_lang; [|apply p_nomatch_ok]. intros h i j. split; [intros []|intros [s [[] _]]].
  - set (ranges := r0 :: rt). intros H. apply andb_prop in H as [H H3]. apply andb_prop in H as [H1 H2].
    destruct (all_ascii ranges) eqn:Ea; [|destruct (class_total ranges <=? 256)%N eqn:Et].
    + (* ASCII *)
      destruct rt as [|r1 rt'].
      * eapply piece_ok_lang; [|apply p_byte_ok]. intros h i j. cbn [map]. split.
        -- intros Hm. exists [r0]. split; [now left|]. now destruct r0.
        -- intros [s [[<-|[]] Hm]]. now destruct r0.
      * eapply piece_ok_lang; [|apply (p_seq_rev_ok _ _ _ _ (p_sparse1_ok ranges) p_eps_ok)].
        intros h i j. unfold l_cat, l_one_of, l_eps. split.
        -- intros [k [[lh [Hin Hm]] [-> _]]]. exists [lh]. split; [apply in_map_iff; exists lh; auto|exact Hm].
        -- intros [s [Hs Hm]]. apply in_map_iff in Hs as [lh [<- Hin]]. exists j. split; [eauto|].
           split; [reflexivity|]. apply l_seq_slice in Hm. lia.
    + (* a small class: alternation of literals *)
      eapply piece_ok_lang; [|apply (p_alt_ok (fun c => p_fseq (exact_seq (encode_rune c)))
                                      (fun c h => l_seq h (exact_seq (encode_rune c))))].
      * intros h i j. split.
        -- intros [c [Hc Hm]]. eexists. split; [|exact Hm]. apply in_map_iff. eauto.
        -- intros [s [Hs Hm]]. apply in_map_iff in Hs as [c [<- Hc]]. eauto.
      * intros c _. apply p_fseq_ok.
      * intros E. rewrite E in H2. discriminate.
    + (* a large class *)
      destruct (large_descs ranges) as [|d0 dt] eqn:Ed; [discriminate|].
      rewrite <- Ed.
      eapply piece_ok_lang; [|apply (p_altj_ok true desc_piece desc_lang)].
      * intros h i j. split.
        -- intros [d [Hd Hm]]. apply desc_lang_seqs in Hm as [s [Hs Hm]]. exists s. split; [|exact Hm].
           apply in_flat_map. eauto.
        -- intros [s [Hs Hm]]. apply in_flat_map in Hs as [d [Hd Hs]]. exists d. split; [exact Hd|].
           apply desc_lang_seqs. eauto.
      * intros d _. apply desc_piece_ok.
      * rewrite Ed. discriminate.
Qed.

Lemma p_class_wf nc ranges : class_ok ranges = true -> piece_wf nc (p_class ranges).
Proof.
  unfold class_ok, p_class, class_seqs. destruct ranges as [|r0 rt].
  - intros _. apply p_nomatch_wf.
  - set (ranges := r0 :: rt). intros H. apply andb_prop in H as [H H3]. apply andb_prop in H as [H1 H2].
    rewrite forallb_forall in H1.
    destruct (all_ascii ranges) eqn:Ea; [|destruct (class_total ranges <=? 256)%N eqn:Et].
    + destruct rt as [|r1 rt'].
      * specialize (H1 [r0] (or_introl eq_refl)). cbn in H1. apply p_byte_wf; lia.
      * eapply p_seq_rev_wf; [apply p_sparse1_ok|apply p_eps_ok|now apply p_sparse1_wf|apply p_eps_wf].
    + apply (p_alt_wf nc (fun c => p_fseq (exact_seq (encode_rune c))) (fun c h => l_seq h (exact_seq (encode_rune c)))).
      * intros c _. apply p_fseq_ok.
      * intros c Hc. apply p_fseq_wf. apply bseq_okb_ok. apply H1. apply in_map_iff. eauto.
      * intros E. rewrite E in H2. discriminate.
    + destruct (large_descs ranges) as [|d0 dt] eqn:Ed; [discriminate|].
      rewrite <- Ed. apply (p_altj_wf nc true desc_piece desc_lang).
      * intros d _. apply desc_piece_ok.
      * intros d Hd. apply desc_piece_wf. rewrite forallb_forall in H3. apply H3. rewrite <- Ed. exact Hd.
      * rewrite Ed. discriminate.
Qed.

(* ================================================================== dot is correct as built *)
(* alternatives given by their entry states, all leading to the join epsilon J *)
Section AltAbs.
  Variable A : nfa.
  Variable h : hay.
  Variables lo hi J k : nat.

  Definition alt_sound (t : nat) (L : hlang) : Prop :=
    forall n i c2, i <= length h -> ipath A h lo hi n (t, i) c2 ->
      exists j1 n2, L h i j1 /\ j1 <= length h /\ ipath A h lo hi n2 (J, j1) c2.
  Definition alt_complete (t : nat) (L : hlang) : Prop :=
    forall i j1, L h i j1 -> forall m c2, ipath A h lo hi m (J, j1) c2 -> exists n, ipath A h lo hi n (t, i) c2.

  Variable alts : list (nat * hlang).
  Variable base : nat.
  Let ts := map fst alts.
  Hypothesis Halts : forall t L, In (t, L) alts -> inr lo hi t /\ alt_sound t L /\ alt_complete t L.
  Hypothesis Hne : alts <> [].
  Hypothesis He : embeds A base (fst (split_chain ts base)).
  Hypothesis Hlo : lo <= base.
  Hypothesis Hhi : base + (length alts - 1) <= hi.
  Hypothesis HJ : nth_error (states A) J = Some (SEpsilon k).
  Hypothesis HJin : inr lo hi J.
  Hypothesis Hk : ~ inr lo hi k.

  Lemma abs_ts_ne : ts <> [].
  Proof. unfold ts. destruct alts; [congruence|discriminate]. Qed.
  Lemma abs_ts_in : forall t, In t ts -> inr lo hi t.
  Proof. intros t Ht. unfold ts in Ht. apply in_map_iff in Ht as [[t' L] [<- Hin]]. now apply (Halts t' L). Qed.
  Lemma abs_ts_len : length ts = length alts.
  Proof. unfold ts. apply map_length. Qed.

  Lemma alt_abs_sound n i c2 : i <= length h -> ipath A h lo hi n (snd (split_chain ts base), i) c2 ->
    fst c2 = k /\ exists t L, In (t, L) alts /\ L h i (snd c2).
  Proof.
    intros Hi Hp.
    destruct (chain_sound A h lo hi ts base abs_ts_ne He Hlo ltac:(rewrite abs_ts_len; exact Hhi) abs_ts_in) as [_ Hcs].
    destruct (Hcs n i c2 Hp) as [t [n' [Ht [_ Hp']]]].
    unfold ts in Ht. apply in_map_iff in Ht as [[t' L] [<- Hin]]. cbn [fst] in Hp'.
    destruct (Halts t' L Hin) as [_ [Hs _]].
    destruct (Hs n' i c2 Hi Hp') as [j1 [n2 [HL [Hj1 Hp2]]]].
    apply ipath_inv in Hp2 as [st [c1 [Hst [Hc1 Hcase]]]]. cbn [fst snd] in Hst, Hc1.
    rewrite HJ in Hst. inversion Hst; subst st. rewrite nexts_eps in Hc1. destruct Hc1 as [<-|[]].
    destruct Hcase as [[_ [<- _]]|[Hin' _]]; [|contradiction].
    cbn [fst snd]. split; [reflexivity|]. eauto.
  Qed.

  Lemma alt_abs_complete t L i j : In (t, L) alts -> L h i j ->
    exists n, ipath A h lo hi n (snd (split_chain ts base), i) (k, j).
  Proof.
    intros Hin HL. destruct (Halts t L Hin) as [_ [_ Hc]].
    assert (HpJ : ipath A h lo hi 1 (J, j) (k, j)).
    { eapply ipath_step_out; [exact HJin|exact HJ|rewrite nexts_eps; now left|exact Hk]. }
    destruct (Hc i j HL 1 (k, j) HpJ) as [n Hp].
    apply (chain_complete A h lo hi ts base abs_ts_ne He Hlo ltac:(rewrite abs_ts_len; exact Hhi) abs_ts_in t) with (n := n); [|exact Hp].
    unfold ts. apply in_map_iff. exists (t, L). auto.
  Qed.
End AltAbs.

(* a chain of ByteRange states among the states `sts` placed at `base`, ending in endS *)
Fixpoint is_chain (sts : list nstate) (base t : nat) (s : bseq) (endS : nat) : Prop :=
  match s with
  | [] => t = endS
  | (l, hh) :: rest => exists t', base <= t /\ nth_error sts (t - base) = Some (SByteRange l hh t') /\
                                  is_chain sts base t' rest endS
  end.

Lemma is_chain_ext sts more base endS s : forall t, is_chain sts base t s endS -> is_chain (sts ++ more) base t s endS.
Proof.
  induction s as [|[l hh] rest IH]; intros t H; cbn [is_chain] in *; [exact H|].
  destruct H as [t' [Hb [Hn Hc]]]. exists t'. split; [exact Hb|]. split; [|now apply IH].
  rewrite nth_error_app1; [exact Hn|]. apply nth_error_Some. congruence.
Qed.

Section ChainSem.
  Variable A : nfa.
  Variable h : hay.
  Variables lo hi J base : nat.
  Variable sts : list nstate.
  Hypothesis Hemb : embeds A base sts.
  Hypothesis Hlo : lo <= base.
  Hypothesis Hhi : base + length sts <= hi.
  Hypothesis HJin : inr lo hi J.

  Lemma chain_head_in s t : is_chain sts base t s J -> inr lo hi t.
  Proof.
    destruct s as [|[l hh] rest]; cbn [is_chain]; [intros ->; exact HJin|].
    intros [t' [Hb [Hn _]]]. apply nth_error_Some_lt' in Hn. unfold inr. lia.
  Qed.

  Lemma chain_alt_sound s : forall t, is_chain sts base t s J -> alt_sound A h lo hi J t (fun h => l_seq h s).
  Proof.
    induction s as [|[l hh] rest IH]; intros t Hc n i c2 Hi Hp; cbn [is_chain] in Hc.
    - subst t. exists i, n. split; [split; auto|]. split; [exact Hi|exact Hp].
    - destruct Hc as [t' [Hb [Hn Hc]]].
      assert (HA : nth_error (states A) t = Some (SByteRange l hh t')).
      { replace t with (base + (t - base)) by lia. now apply Hemb. }
      apply ipath_inv in Hp as [st [c1 [Hst [Hc1 Hcase]]]]. cbn [fst snd] in Hst, Hc1.
      rewrite HA in Hst. inversion Hst; subst st. rewrite nexts_byte in Hc1.
      destruct (nth_error h i) as [b|] eqn:Eb; [|destruct Hc1].
      destruct (in_range l hh b) eqn:Er; [|destruct Hc1]. destruct Hc1 as [<-|[]].
      pose proof (chain_head_in rest t' Hc) as Hin'.
      destruct Hcase as [[_ [_ Ho]]|[_ [m [-> Hp']]]]; [contradiction|].
      pose proof (nth_error_Some_lt' _ _ _ Eb) as Hlt.
      destruct (IH t' Hc m (S i) c2 ltac:(lia) Hp') as [j1 [n2 [HL [Hj1 Hp2]]]].
      exists j1, n2. split; [|auto]. cbn [l_seq]. exists b. auto.
  Qed.

  Lemma chain_alt_complete s : forall t, is_chain sts base t s J -> alt_complete A h lo hi J t (fun h => l_seq h s).
  Proof.
    induction s as [|[l hh] rest IH]; intros t Hc i j1 HL m c2 Hp; cbn [is_chain] in Hc; cbn [l_seq] in HL.
    - subst t. destruct HL as [-> _]. eauto.
    - destruct Hc as [t' [Hb [Hn Hc]]]. destruct HL as [b [Eb [Er HL]]].
      assert (HA : nth_error (states A) t = Some (SByteRange l hh t')).
      { replace t with (base + (t - base)) by lia. now apply Hemb. }
      destruct (IH t' Hc (S i) j1 HL m c2 Hp) as [n Hp'].
      exists (S n). eapply ipath_step_in; [|exact HA| | |exact Hp'].
      + apply nth_error_Some_lt' in Hn. unfold inr. lia.
      + rewrite nexts_byte, Eb, Er. now left.
      + cbn [fst]. now apply (chain_head_in rest).
  Qed.
End ChainSem.

(* the invariant of the builder of compileUTF8Any *)
Definition dinv (base endS : nat) (d : dstate) : Prop :=
  let '(nid, rsts, c) := d in
  nid = base + length rsts /\
  (forall slot f l hh v, In (slot, f, l, hh, v) c ->
     base <= v /\ nth_error (rev rsts) (v - base) = Some (SByteRange l hh f)) /\
  (forall st, In st rsts -> exists l hh t, st = SByteRange l hh t /\ (l <= hh)%N /\ (hh < 256)%N /\
                                         (t = endS \/ t < nid)).

Definition dsts (d : dstate) : list nstate := rev (snd (fst d)).
Definition dext (d d' : dstate) : Prop := exists more, dsts d' = dsts d ++ more.

Lemma dext_refl d : dext d d.
Proof. exists []. now rewrite app_nil_r. Qed.
Lemma dext_trans d1 d2 d3 : dext d1 d2 -> dext d2 d3 -> dext d1 d3.
Proof. intros [m1 H1] [m2 H2]. exists (m1 ++ m2). now rewrite H2, H1, app_assoc. Qed.

Lemma cache_slot_in c slot e : cache_slot c slot = Some e -> In e c.
Proof.
  induction c as [|[[[[s f] l] hh] v] t IH]; cbn [cache_slot]; [discriminate|].
  destruct (s =? slot)%N; [intros H; inversion H; now left|intros H; right; now apply IH].
Qed.

Lemma get_or_create_spec base endS d target l hh d' v :
  dinv base endS d -> (l <= hh)%N -> (hh < 256)%N -> (target = endS \/ target < fst (fst d)) ->
  get_or_create d target l hh = (d', v) ->
  dinv base endS d' /\ dext d d' /\ base <= v < fst (fst d') /\
  nth_error (dsts d') (v - base) = Some (SByteRange l hh target).
Proof.
  destruct d as [[nid rsts] c]. unfold dinv, get_or_create, dsts, dext. cbn [fst snd].
  intros [Hn [Hc Hs]] Hl Hh Ht H.
  destruct (cache_get c target l hh) as [v0|] eqn:Eg.
  - inversion H; subst d' v. cbn [fst snd]. split; [auto|]. split; [exists []; now rewrite app_nil_r|].
    unfold cache_get in Eg. destruct (cache_slot c (suffix_hash target l hh)) as [[[[[s f] l0] h0] v1]|] eqn:Es; [|discriminate].
    destruct ((f =? target) && (l0 =? l)%N && (h0 =? hh)%N) eqn:Ek; [|discriminate]. inversion Eg; subst v1.
    apply andb_prop in Ek as [Ek E3]. apply andb_prop in Ek as [E1 E2].
    apply Nat.eqb_eq in E1. apply N.eqb_eq in E2, E3. subst f l0 h0.
    apply cache_slot_in in Es. destruct (Hc _ _ _ _ _ Es) as [Hb Hnth]. split; [|exact Hnth].
    apply nth_error_Some_lt' in Hnth. rewrite rev_length in Hnth. lia.
  - inversion H; subst d' v. cbn [fst snd length rev]. split; [|split; [exists [SByteRange l hh target]; reflexivity|]].
    + split; [lia|]. split.
      * intros slot f l0 h0 v [Heq|Hin].
        -- inversion Heq; subst. split; [lia|]. rewrite nth_error_app2 by (rewrite rev_length; lia).
           rewrite rev_length. replace (base + length rsts - base - length rsts) with 0 by lia. reflexivity.
        -- destruct (Hc _ _ _ _ _ Hin) as [Hb Hnth]. split; [exact Hb|].
           rewrite nth_error_app1; [exact Hnth|]. apply nth_error_Some. congruence.
      * intros st [<-|Hin].
        -- exists l, hh, target. repeat split; auto. destruct Ht as [->|Ht]; [now left|right; lia].
        -- destruct (Hs st Hin) as [l0 [h0 [t0 [-> [H1 [H2 H3]]]]]]. exists l0, h0, t0. repeat split; auto.
           destruct H3 as [->|H3]; [now left|right; lia].
    + split; [lia|]. rewrite nth_error_app2 by (rewrite rev_length; lia).
      rewrite rev_length. replace (nid - base - length rsts) with 0 by lia. reflexivity.
Qed.

Definition gstep (dt : dstate * nat) (lh : N * N) : dstate * nat :=
  get_or_create (fst dt) (snd dt) (fst lh) (snd lh).

Lemma build_fold_spec base endS : forall rs d t done,
  dinv base endS d -> bseq_ok rs -> (t = endS \/ t < fst (fst d)) ->
  is_chain (dsts d) base t done endS ->
  let r := fold_left gstep rs (d, t) in
  dinv base endS (fst r) /\ dext d (fst r) /\
  is_chain (dsts (fst r)) base (snd r) (rev rs ++ done) endS /\
  (snd r = endS \/ snd r < fst (fst (fst r))).
Proof.
  induction rs as [|[l hh] rs IH]; intros d t done Hd Hok Ht Hc; cbv zeta; cbn [fold_left rev app].
  - split; [exact Hd|]. split; [apply dext_refl|]. split; [exact Hc|exact Ht].
  - inversion Hok as [|? ? [H1 H2] Hok']; subst. cbn [fst snd] in H1, H2.
    change (gstep (d, t) (l, hh)) with (get_or_create d t l hh).
    destruct (get_or_create d t l hh) as [d1 t1] eqn:Eg.
    destruct (get_or_create_spec base endS d t l hh d1 t1 Hd H1 H2 Ht Eg) as [Hd1 [Hx1 [Hv Hn]]].
    assert (Hc1 : is_chain (dsts d1) base t1 ((l, hh) :: done) endS).
    { cbn [is_chain]. exists t. split; [lia|]. split; [exact Hn|].
      destruct Hx1 as [more ->]. now apply is_chain_ext. }
    pose proof (IH d1 t1 ((l, hh) :: done) Hd1 Hok' ltac:(right; lia) Hc1) as IH'. cbv zeta in IH'.
    destruct IH' as [Hd2 [Hx2 [Hc2 Ht2]]].
    split; [exact Hd2|]. split; [exact (dext_trans _ _ _ Hx1 Hx2)|]. split; [|exact Ht2].
    rewrite <- app_assoc. exact Hc2.
Qed.

Lemma build_seq_spec base endS d s :
  dinv base endS d -> bseq_ok s ->
  let r := build_seq d endS s in
  dinv base endS (fst r) /\ dext d (fst r) /\ is_chain (dsts (fst r)) base (snd r) s endS.
Proof.
  intros Hd Hok. unfold build_seq.
  assert (Hrev : bseq_ok (rev s)).
  { unfold bseq_ok in *. rewrite Forall_forall in *. intros x Hx. apply (Hok x). apply in_rev. exact Hx. }
  pose proof (build_fold_spec base endS (rev s) d endS [] Hd Hrev (or_introl eq_refl) eq_refl) as Hf.
  cbv zeta in Hf. destruct Hf as [H1 [H2 [H3 _]]].
  rewrite rev_involutive, app_nil_r in H3.
  change (fun dt lh => get_or_create (fst dt) (snd dt) (fst lh) (snd lh)) with gstep. cbv zeta. auto.
Qed.

Definition sstep (endS : nat) (ds : dstate * list nat) (s : bseq) : dstate * list nat :=
  let '(d', t) := build_seq (fst ds) endS s in (d', snd ds ++ [t]).

Lemma build_seqs_spec base endS : forall ss d acc ss0,
  dinv base endS d -> Forall bseq_ok ss ->
  Forall2 (fun t s => is_chain (dsts d) base t s endS) acc ss0 ->
  let r := fold_left (sstep endS) ss (d, acc) in
  dinv base endS (fst r) /\ dext d (fst r) /\
  Forall2 (fun t s => is_chain (dsts (fst r)) base t s endS) (snd r) (ss0 ++ ss).
Proof.
  induction ss as [|s ss IH]; intros d acc ss0 Hd Hok Hacc; cbv zeta; cbn [fold_left].
  - rewrite app_nil_r. split; [exact Hd|]. split; [apply dext_refl|exact Hacc].
  - inversion Hok as [|? ? Hs Hok']; subst.
    pose proof (build_seq_spec base endS d s Hd Hs) as Hb. cbv zeta in Hb. destruct Hb as [Hd1 [Hx1 Hc1]].
    change (sstep endS (d, acc) s) with (let '(d', t) := build_seq d endS s in (d', acc ++ [t])).
    destruct (build_seq d endS s) as [d1 t1]. cbn [fst snd] in *.
    assert (Hacc1 : Forall2 (fun t s0 => is_chain (dsts d1) base t s0 endS) (acc ++ [t1]) (ss0 ++ [s])).
    { apply Forall2_app; [|constructor; [exact Hc1|constructor]].
      destruct Hx1 as [more Hm]. clear -Hacc Hm. induction Hacc as [|a b la lb Hab _ IHa]; constructor; [|exact IHa].
      rewrite Hm. now apply is_chain_ext. }
    pose proof (IH d1 (acc ++ [t1]) (ss0 ++ [s]) Hd1 Hok' Hacc1) as IH'. cbv zeta in IH'.
    destruct IH' as [Hd2 [Hx2 Hc2]].
    split; [exact Hd2|]. split; [exact (dext_trans _ _ _ Hx1 Hx2)|]. rewrite <- app_assoc in Hc2. exact Hc2.
Qed.

Lemma utf8_multibyte_ok : Forall bseq_ok utf8_multibyte.
Proof.
  assert (H : forallb bseq_okb utf8_multibyte = true) by reflexivity.
  rewrite forallb_forall in H. apply Forall_forall. intros s Hs. apply bseq_okb_ok. now apply H.
Qed.

(* what any_build delivers *)
Lemma any_build_spec nl lo sts nid starts : any_build nl lo = (sts, nid, starts) ->
  nid = lo + 2 + length sts /\
  Forall2 (fun t s => is_chain sts (lo + 2) t s lo) starts utf8_multibyte /\
  (forall st, In st sts -> exists l hh t, st = SByteRange l hh t /\ (l <= hh)%N /\ (hh < 256)%N /\ (t = lo \/ t < nid)).
Proof.
  unfold any_build, build_seqs. intros H.
  assert (Hd0 : dinv (lo + 2) lo (lo + 2, [], [])).
  { cbn. split; [lia|]. split; [intros ? ? ? ? ? []|intros ? []]. }
  pose proof (build_seqs_spec (lo + 2) lo utf8_multibyte (lo + 2, [], []) [] [] Hd0 utf8_multibyte_ok (Forall2_nil _)) as Hs.
  cbv zeta in Hs. cbn [app] in Hs.
  change (fun ds s => let '(d', t) := build_seq (fst ds) lo s in (d', snd ds ++ [t])) with (sstep lo) in H.
  revert H Hs. destruct (fold_left (sstep lo) utf8_multibyte _) as [[[nid' rsts] c] starts']. intros H Hs.
  cbv beta iota in H. injection H as <- <- <-. cbn [fst snd] in Hs. destruct Hs as [[Hn [_ Hst]] [_ Hc]].
  unfold dsts in Hc. cbn [fst snd] in Hc. rewrite rev_length.
  split; [exact Hn|]. split; [exact Hc|]. intros st Hin. apply in_rev in Hin. exact (Hst st Hin).
Qed.

(* one byte-consuming state that leads to J *)
Lemma step_alt A h lo hi J t st trs :
  nth_error (states A) t = Some st ->
  (forall p, nexts h st p = match nth_error h p with
                            | Some b => if in_any_range trs b then [(J, S p)] else []
                            | None => [] end) ->
  inr lo hi t -> inr lo hi J ->
  alt_sound A h lo hi J t (l_one_of trs) /\ alt_complete A h lo hi J t (l_one_of trs).
Proof.
  intros HA Hn Ht HJ. split.
  - intros n i c2 Hi Hp. apply ipath_inv in Hp as [st' [c1 [Hst [Hc1 Hcase]]]]. cbn [fst snd] in Hst, Hc1.
    rewrite HA in Hst. inversion Hst; subst st'. rewrite Hn in Hc1.
    destruct (nth_error h i) as [b|] eqn:Eb; [|destruct Hc1].
    destruct (in_any_range trs b) eqn:Er; [|destruct Hc1]. destruct Hc1 as [<-|[]].
    destruct Hcase as [[_ [_ Ho]]|[_ [m [-> Hp']]]]; [contradiction|].
    pose proof (nth_error_Some_lt' _ _ _ Eb) as Hlt.
    exists (S i), m. split; [|split; [lia|exact Hp']].
    unfold in_any_range in Er. apply existsb_exists in Er as [[l hh] [Hin Hr]]. cbn [fst snd] in Hr.
    exists (l, hh). split; [exact Hin|]. exists b. repeat split; auto.
  - intros i j1 [[l hh] [Hin [b [Eb [Er [<- _]]]]]] m c2 Hp.
    exists (S m). apply (ipath_step_in A h lo hi t i st (J, S i) m c2 Ht HA); [|exact HJ|exact Hp].
    rewrite Hn, Eb. assert (E : in_any_range trs b = true) by (apply existsb_exists; exists (l, hh); auto).
    rewrite E. now left.
Qed.

Definition ascii_trs (nl : bool) : list (N * N) := if nl then [(0, 127)]%N else [(0, 9); (11, 127)]%N.
Definition invalid_trs : list (N * N) := [(128, 191); (192, 193); (245, 255)]%N.

Lemma any_seqs_eq nl :
  any_seqs nl = map (fun lh => [lh]) (ascii_trs nl) ++ utf8_multibyte ++ map (fun lh => [lh]) invalid_trs.
Proof. destruct nl; reflexivity. Qed.

Lemma nexts_any_ascii h nl J p :
  nexts h (any_ascii nl J) p =
  match nth_error h p with Some b => if in_any_range (ascii_trs nl) b then [(J, S p)] else [] | None => [] end.
Proof.
  destruct nl; cbn [any_ascii ascii_trs].
  - rewrite nexts_byte. destruct (nth_error h p); [|reflexivity]. cbn [in_any_range existsb fst snd].
    rewrite orb_false_r. reflexivity.
  - change (SSparse [(0%N, 9%N, J); (11%N, 127%N, J)]) with (SSparse (map (fun lh => (fst lh, snd lh, J)) [(0, 9); (11, 127)]%N)).
    rewrite nexts_sparse. destruct (nth_error h p); [|reflexivity]. rewrite sparse_next_same.
    now destruct (in_any_range [(0, 9); (11, 127)]%N n).
Qed.

Lemma nexts_any_invalid h J p :
  nexts h (any_invalid J) p =
  match nth_error h p with Some b => if in_any_range invalid_trs b then [(J, S p)] else [] | None => [] end.
Proof.
  change (any_invalid J) with (SSparse (map (fun lh => (fst lh, snd lh, J)) invalid_trs)).
  rewrite nexts_sparse. destruct (nth_error h p); [|reflexivity]. rewrite sparse_next_same.
  now destruct (in_any_range invalid_trs n).
Qed.

Lemma map_fst_combine {X Y} (a : list X) (b : list Y) : length a = length b -> map fst (combine a b) = a.
Proof. revert b. induction a as [|x a IH]; intros [|y b] H; cbn in *; try discriminate; [reflexivity|]. f_equal. apply IH. lia. Qed.

Lemma Forall2_length' {X Y} (R : X -> Y -> Prop) a b : Forall2 R a b -> length a = length b.
Proof. induction 1; cbn; congruence. Qed.

Lemma Forall2_combine_in {X Y} (R : X -> Y -> Prop) a b x y : Forall2 R a b -> In (x, y) (combine a b) -> R x y.
Proof.
  induction 1 as [|x0 y0 a b H0 _ IH]; cbn [combine]; [intros []|]. intros [Heq|Hin]; [inversion Heq; now subst|auto].
Qed.

Lemma Forall2_in_r {X Y} (R : X -> Y -> Prop) a b y : Forall2 R a b -> In y b -> exists x, In (x, y) (combine a b).
Proof.
  induction 1 as [|x0 y0 a b H0 _ IH]; [intros []|]. intros [<-|Hin]; [exists x0; now left|].
  destruct (IH Hin) as [x Hx]. exists x. now right.
Qed.

Definition any_lang (nl : bool) : hlang := fun h i j => exists s, In s (any_seqs nl) /\ l_seq h s i j.

Lemma top_bound : forall ts base lo0, ts <> [] -> (forall t, In t ts -> lo0 <= t < base) ->
  lo0 <= snd (split_chain ts base) < base + (length ts - 1) + (2 - length ts).
Proof.
  induction ts as [|t [|t2 rest] IH]; intros base lo0 Hn Hts; [congruence| |].
  - cbn. specialize (Hts t (or_introl eq_refl)). lia.
  - rewrite split_chain_cons2. cbn [snd]. rewrite split_chain_len. cbn [length].
    specialize (Hts t (or_introl eq_refl)). lia.
Qed.

Global Opaque any_build.

Definition any_alts (nl : bool) (lo nid : nat) (starts : list nat) : list (nat * hlang) :=
  (lo + 1, l_one_of (ascii_trs nl)) ::
  combine starts (map (fun s (h : hay) => l_seq h s) utf8_multibyte) ++ [(nid, l_one_of invalid_trs)].

Lemma combine_chain_in sts base endS starts ss t (L : hlang) :
  Forall2 (fun t s => is_chain sts base t s endS) starts ss ->
  In (t, L) (combine starts (map (fun s (h : hay) => l_seq h s) ss)) ->
  exists sq, L = (fun h => l_seq h sq) /\ In sq ss /\ is_chain sts base t sq endS.
Proof.
  induction 1 as [|x y a b Hxy _ IH]; cbn [map combine]; [intros []|].
  intros [Heq|Hin].
  - inversion Heq; subst. exists y. split; [reflexivity|]. split; [now left|exact Hxy].
  - destruct (IH Hin) as [sq [H1 [H2 H3]]]. exists sq. split; [exact H1|]. split; [now right|exact H3].
Qed.

Lemma combine_chain_pick sts base endS starts ss sq :
  Forall2 (fun t s => is_chain sts base t s endS) starts ss -> In sq ss ->
  exists t, In (t, (fun h : hay => l_seq h sq)) (combine starts (map (fun s (h : hay) => l_seq h s) ss)).
Proof.
  induction 1 as [|x y a b Hxy _ IH]; [intros []|]. cbn [map combine]. intros [<-|Hin].
  - exists x. now left.
  - destruct (IH Hin) as [t Ht]. exists t. now right.
Qed.

Lemma starts_bound sts lo nid starts :
  Forall2 (fun t s => is_chain sts (lo + 2) t s lo) starts utf8_multibyte -> nid = lo + 2 + length sts ->
  forall t, In t starts -> lo + 2 <= t < nid.
Proof.
  intros Hc Hn t Ht.
  assert (Hex : exists sq, In sq utf8_multibyte /\ is_chain sts (lo + 2) t sq lo).
  { clear -Hc Ht. induction Hc as [|x y a b Hxy _ IH]; [destruct Ht|]. destruct Ht as [<-|Ht].
    - exists y. split; [now left|exact Hxy].
    - destruct (IH Ht) as [sq [H1 H2]]. exists sq. split; [now right|exact H2]. }
  destruct Hex as [sq [Hsq Hch]].
  assert (Hne : sq <> []).
  { intros ->. revert Hsq. clear. cbn. intros H. repeat (destruct H as [H|H]; [discriminate|]). exact H. }
  destruct sq as [|[l hh] rest]; [congruence|]. cbn [is_chain] in Hch.
  destruct Hch as [t' [Hb [Hnth _]]]. apply nth_error_Some_lt' in Hnth. lia.
Qed.

(* the facts about an automaton that contains the states of dot *)
Lemma any_setup A h nl lo k sts nid starts :
  any_build nl lo = (sts, nid, starts) ->
  embeds A lo ([SEpsilon k; any_ascii nl lo] ++ sts ++ [any_invalid lo] ++
               fst (split_chain ((lo + 1) :: starts ++ [nid]) (S nid))) ->
  let hi := lo + (nid + 1 - lo + (length ((lo + 1) :: starts ++ [nid]) - 1)) in
  let alts := any_alts nl lo nid starts in
  map fst alts = (lo + 1) :: starts ++ [nid] /\
  length alts = 10 /\ lo + 2 <= nid /\ hi = nid + 10 /\
  nth_error (states A) lo = Some (SEpsilon k) /\
  embeds A (S nid) (fst (split_chain (map fst alts) (S nid))) /\
  (forall t L, In (t, L) alts -> inr lo hi t /\ alt_sound A h lo hi lo t L /\ alt_complete A h lo hi lo t L) /\
  Forall2 (fun t s => is_chain sts (lo + 2) t s lo) starts utf8_multibyte.
Proof.
  intros E He hi alts.
  destruct (any_build_spec nl lo sts nid starts E) as [Hn [Hc _]].
  assert (Hl : length starts = 8) by (rewrite (Forall2_length' _ _ _ Hc); reflexivity).
  apply embeds_cons in He as [HJ He]. apply embeds_cons in He as [Hasc He].
  apply embeds_app in He as [Hsts He]. apply embeds_cons in He as [Hinv Hchain].
  replace (S (S lo)) with (lo + 2) in * by lia. rewrite <- Hn in Hinv, Hchain.
  replace (S lo) with (lo + 1) in Hasc by lia.
  assert (Hhi : hi = nid + 10).
  { unfold hi. cbn [length]. rewrite app_length. cbn [length]. lia. }
  assert (Hfst : map fst alts = (lo + 1) :: starts ++ [nid]).
  { unfold alts, any_alts. cbn [map fst]. rewrite map_app, map_fst_combine by (rewrite map_length, Hl; reflexivity). reflexivity. }
  assert (Hlen : length alts = 10).
  { rewrite <- (map_length fst), Hfst. cbn [length]. rewrite app_length. cbn [length]. lia. }
  assert (HJin : inr lo hi lo) by (unfold inr; lia).
  split; [exact Hfst|]. split; [exact Hlen|]. split; [lia|]. split; [exact Hhi|]. split; [exact HJ|].
  split; [rewrite Hfst; exact Hchain|]. split; [|exact Hc].
  intros t L [Heq|Hin].
  - inversion Heq; subst t L. split; [unfold inr; lia|].
    apply (step_alt A h lo hi lo (lo + 1) _ _ Hasc (nexts_any_ascii h nl lo)); [unfold inr; lia|exact HJin].
  - apply in_app_or in Hin as [Hin|[Heq|[]]].
    + destruct (combine_chain_in _ _ _ _ _ _ _ Hc Hin) as [sq [-> [_ Hch]]].
      split; [apply (chain_head_in lo hi lo (lo + 2) sts ltac:(lia) ltac:(lia) HJin sq t Hch)|].
      split; [apply (chain_alt_sound A h lo hi lo (lo + 2) sts Hsts ltac:(lia) ltac:(lia) HJin sq t Hch)|
              apply (chain_alt_complete A h lo hi lo (lo + 2) sts Hsts ltac:(lia) ltac:(lia) HJin sq t Hch)].
    + inversion Heq; subst t L. split; [unfold inr; lia|].
      apply (step_alt A h lo hi lo nid _ _ Hinv (nexts_any_invalid h lo)); [unfold inr; lia|exact HJin].
Qed.

Lemma p_any_len nl lo k : length (pstates (p_any nl) lo k) = psize (p_any nl) lo.
Proof.
  cbn [p_any psize pstart pstates]. revert lo k.
  intros lo k. unfold any_branches. destruct (any_build nl lo) as [[sts nid] starts] eqn:E.
    destruct (any_build_spec nl lo sts nid starts E) as [Hn _].
    rewrite !app_length, split_chain_len. cbn [length]. rewrite !app_length. cbn [length]. lia.
Qed.

Lemma p_any_start nl lo : lo <= pstart (p_any nl) lo < lo + psize (p_any nl) lo.
Proof.
  cbn [p_any psize pstart pstates]. revert lo.
  intros lo. unfold any_branches. destruct (any_build nl lo) as [[sts nid] starts] eqn:E.
    destruct (any_build_spec nl lo sts nid starts E) as [Hn [Hc _]].
    pose proof (starts_bound sts lo nid starts Hc Hn) as Hsb.
    assert (Hst : forall t, In t ((lo + 1) :: starts ++ [nid]) -> lo <= t < S nid).
    { intros t [<-|Ht]; [lia|]. apply in_app_or in Ht as [Ht|[<-|[]]]; [specialize (Hsb t Ht)|]; lia. }
    pose proof (top_bound ((lo + 1) :: starts ++ [nid]) (S nid) lo ltac:(discriminate) Hst) as Htop.
    assert (Hl : length starts = 8) by (rewrite (Forall2_length' _ _ _ Hc); reflexivity).
    cbn [length] in *. rewrite app_length in *. cbn [length] in *. lia.
Qed.

Lemma p_any_sound nl A h lo k n i c2 :
  embeds A lo (pstates (p_any nl) lo k) -> ~ inr lo (lo + psize (p_any nl) lo) k -> i <= length h ->
  ipath A h lo (lo + psize (p_any nl) lo) n (pstart (p_any nl) lo, i) c2 -> fst c2 = k /\ any_lang nl h i (snd c2).
Proof.
  cbn [p_any psize pstart pstates]. revert A h lo k n i c2.
  intros A h lo k n i c2 He Hk Hi Hp. unfold any_branches in *.
    destruct (any_build nl lo) as [[sts nid] starts] eqn:E.
    pose proof (any_setup A h nl lo k sts nid starts E He) as Hset. cbv zeta in Hset.
    set (hi := lo + (nid + 1 - lo + (length ((lo + 1) :: starts ++ [nid]) - 1))) in *.
    destruct Hset as [Hfst [Hlen [Hnid [Hhi [HJ [Hchain [Halts Hc]]]]]]].
    rewrite <- Hfst in Hp.
    destruct (alt_abs_sound A h lo hi lo k (any_alts nl lo nid starts) (S nid) Halts
                ltac:(discriminate) Hchain ltac:(lia) ltac:(lia) HJ Hk n i c2 Hi Hp) as [Hq [t [L [Hin HL]]]].
    split; [exact Hq|]. unfold any_lang. rewrite any_seqs_eq.
    destruct Hin as [Heq|Hin].
    + inversion Heq; subst t L. destruct HL as [lh [Hlh Hm]]. exists [lh]. split; [|exact Hm].
      apply in_or_app. left. apply in_map_iff. eauto.
    + apply in_app_or in Hin as [Hin|[Heq|[]]].
      * destruct (combine_chain_in _ _ _ _ _ _ _ Hc Hin) as [sq [-> [Hsq _]]]. exists sq. split; [|exact HL].
        apply in_or_app. right. apply in_or_app. now left.
      * inversion Heq; subst t L. destruct HL as [lh [Hlh Hm]]. exists [lh]. split; [|exact Hm].
        apply in_or_app. right. apply in_or_app. right. apply in_map_iff. eauto.
Qed.

Lemma p_any_complete nl A h lo k i j :
  embeds A lo (pstates (p_any nl) lo k) -> ~ inr lo (lo + psize (p_any nl) lo) k ->
  any_lang nl h i j -> exists n, ipath A h lo (lo + psize (p_any nl) lo) n (pstart (p_any nl) lo, i) (k, j).
Proof.
  cbn [p_any psize pstart pstates]. revert A h lo k i j.
  intros A h lo k i j He Hk HL. unfold any_branches in *.
    destruct (any_build nl lo) as [[sts nid] starts] eqn:E.
    pose proof (any_setup A h nl lo k sts nid starts E He) as Hset. cbv zeta in Hset.
    set (hi := lo + (nid + 1 - lo + (length ((lo + 1) :: starts ++ [nid]) - 1))) in *.
    destruct Hset as [Hfst [Hlen [Hnid [Hhi [HJ [Hchain [Halts Hc]]]]]]].
    rewrite <- Hfst.
    destruct HL as [s [Hs Hm]]. rewrite any_seqs_eq in Hs.
    assert (Hpick : exists t L, In (t, L) (any_alts nl lo nid starts) /\ L h i j).
    { unfold any_alts. apply in_app_or in Hs as [Hs|Hs]; [|apply in_app_or in Hs as [Hs|Hs]].
      - apply in_map_iff in Hs as [lh [<- Hlh]]. exists (lo + 1), (l_one_of (ascii_trs nl)). split; [now left|].
        exists lh. auto.
      - destruct (combine_chain_pick _ _ _ _ _ s Hc Hs) as [t Ht]. exists t, (fun h => l_seq h s). split; [|exact Hm].
        right. apply in_or_app. now left.
      - apply in_map_iff in Hs as [lh [<- Hlh]]. exists nid, (l_one_of invalid_trs). split; [|exists lh; auto].
        right. apply in_or_app. right. now left. }
    destruct Hpick as [t [L [Hin HLt]]].
    apply (alt_abs_complete A h lo hi lo k (any_alts nl lo nid starts) (S nid) Halts ltac:(discriminate) Hchain
             ltac:(lia) ltac:(lia) HJ ltac:(unfold inr; lia) Hk t L i j Hin HLt).
Qed.

Theorem p_any_ok nl : piece_ok (p_any nl) (any_lang nl).
Proof.
  constructor.
  - apply p_any_len.
  - apply p_any_start.
  - intros h i j [s [_ Hm]]. apply l_seq_slice in Hm. lia.
  - apply p_any_sound.
  - apply p_any_complete.
Qed.

Lemma st_ok_sparse_same N nc trs J : J < N -> ranges_sorted None trs = true ->
  st_ok N nc (SSparse (map (fun lh => (fst lh, snd lh, J)) trs)) = true.
Proof.
  intros HJ Hs. unfold st_ok. cbn [state_ok is_match_state negb]. now rewrite (sparse_ok_same N J trs HJ None Hs).
Qed.

Theorem p_any_wf nc nl : piece_wf nc (p_any nl).
Proof.
  intros lo k N HN Hk. cbn [p_any psize pstates] in *. unfold any_branches in *.
  destruct (any_build nl lo) as [[sts nid] starts] eqn:E.
  destruct (any_build_spec nl lo sts nid starts E) as [Hn [Hc Hst]].
  assert (Hl := Forall2_length' _ _ _ Hc).
  cbn [length] in HN. rewrite app_length in HN. cbn [length] in HN.
  assert (HnidN : S nid < N).
  { assert (length starts = 8) by (rewrite Hl; reflexivity). lia. }
  cbn [app forallb]. rewrite !forallb_app'. cbn [forallb].
  rewrite st_ok_eps by exact Hk.
  assert (Hasc : st_ok N nc (any_ascii nl lo) = true).
  { destruct nl; cbn [any_ascii].
    - unfold st_ok. cbn [state_ok is_match_state negb]. assert (E1 : (lo <? N) = true) by (apply Nat.ltb_lt; lia).
      now rewrite E1.
    - apply (st_ok_sparse_same N nc [(0, 9); (11, 127)]%N lo); [lia|reflexivity]. }
  rewrite Hasc.
  assert (Hinv : st_ok N nc (any_invalid lo) = true).
  { apply (st_ok_sparse_same N nc invalid_trs lo); [lia|reflexivity]. }
  rewrite Hinv.
  assert (Hs : forallb (st_ok N nc) sts = true).
  { apply forallb_forall. intros st Hin. destruct (Hst st Hin) as [l [hh [t [-> [H1 [H2 H3]]]]]].
    unfold st_ok. cbn [state_ok is_match_state negb].
    apply N.leb_le in H1. apply N.ltb_lt in H2. rewrite H1, H2.
    assert (E1 : (t <? N) = true) by (apply Nat.ltb_lt; destruct H3; lia). now rewrite E1. }
  rewrite Hs.
  assert (Hbr : forall t, In t ((lo + 1) :: starts ++ [nid]) -> t < N).
  { intros t [<-|Ht]; [lia|]. apply in_app_or in Ht as [Ht|[<-|[]]]; [|lia].
    apply In_nth_error in Ht as [idx Hidx].
    destruct (nth_error utf8_multibyte idx) as [sq|] eqn:Es.
    2:{ apply nth_error_None in Es. apply nth_error_Some_lt' in Hidx. lia. }
    assert (Hch : is_chain sts (lo + 2) t sq lo).
    { clear -Hc Hidx Es. revert idx Hidx Es. induction Hc as [|x y a b Hxy _ IH]; intros [|idx] H1 H2; cbn in *; try discriminate.
      - inversion H1; inversion H2; now subst.
      - eauto. }
    destruct sq as [|[l hh] rest]; cbn [is_chain] in Hch; [lia|].
    destruct Hch as [t' [Hb [Hnth _]]]. apply nth_error_Some_lt' in Hnth. lia. }
  destruct (chain_wf N nc ((lo + 1) :: starts ++ [nid]) (S nid) Hbr
              ltac:(cbn [length]; rewrite app_length; cbn [length]; lia)) as [-> _].
  reflexivity.
Qed.

(* ================================================================== the compiler *)
(* nfa/compile.go: canMatchEmpty *)
Fixpoint can_empty (r : re) : bool :=
  match r with
  | REmpty => true
  | RLit items => match items with [] => true | _ => false end
  | RClass _ | RAnyChar | RAnyCharNotNL => false
  | RCat rs => forallb can_empty rs
  | RAlt rs => existsb can_empty rs
  | RStar _ _ | RQuest _ _ => true
  | RPlus _ r => can_empty r
  | RRepeat _ mn _ r => (mn =? 0) || can_empty r
  | RCap _ r => can_empty r
  | RLook _ => true
  end.

(* nfa/compile.go: compileLiteral — compileCaseSensitiveRune (a chain of the UTF-8 bytes) or,
   for a rune with a case-folding orbit, compileFoldCaseRune (join epsilon, one chain per
   orbit member, split chain) *)
Definition rune_piece (m : N) : piece := p_fseq (exact_seq (encode_rune m)).

Definition item_piece (it : N * list N) : piece :=
  match snd it with
  | [] => rune_piece (fst it)
  | _ => p_altj true (map rune_piece (fst it :: snd it))
  end.

(* nfa/compile.go: compileRepeat, compileRepeatExact, compileRepeatMin, compileRepeatRange *)
Definition p_repeat (g : bool) (mn : nat) (mx : option nat) (nullable : bool) (p : piece) : piece :=
  match mx with
  | None => match mn with
            | 0 => p_star g nullable p
            | _ => p_cat (repeat p mn ++ [p_star g nullable p])
            end
  | Some m => if mn =? m then p_cat (repeat p mn)
              else p_cat (repeat p mn ++ repeat (p_quest g p) (m - mn))
  end.

(* nfa/compile.go: compileRegexp *)
Fixpoint cpiece (r : re) : piece :=
  match r with
  | REmpty => p_eps
  | RLit items => p_cat (map item_piece items)
  | RClass ranges => p_class ranges
  | RAnyChar => p_any true
  | RAnyCharNotNL => p_any false
  | RCat rs => p_cat (map cpiece rs)
  | RAlt rs => p_alt (map cpiece rs)
  | RStar g r => p_star g (can_empty r) (cpiece r)
  | RPlus g r => p_plus g (cpiece r)
  | RQuest g r => p_quest g (cpiece r)
  | RRepeat g mn mx r => p_repeat g mn mx (can_empty r) (cpiece r)
  | RCap idx r => p_cap idx (cpiece r)
  | RLook lk => p_look lk
  end.

(* nfa/compile.go: countCapturesRecursive *)
Fixpoint max_cap (r : re) : nat :=
  match r with
  | RCap idx r => Nat.max idx (max_cap r)
  | RCat rs | RAlt rs => fold_right (fun x acc => Nat.max (max_cap x) acc) 0 rs
  | RStar _ r | RPlus _ r | RQuest _ r | RRepeat _ _ _ r => max_cap r
  | _ => 0
  end.

(* nfa/compile.go: isPatternAnchored *)
Fixpoint is_anchored (r : re) : bool :=
  match r with
  | RLook LStartText => true
  | RCat (r :: _) => is_anchored r
  | RCap _ r => is_anchored r
  | _ => false
  end.

(* nfa/compile.go: CompileRegexp (DefaultCompilerConfig) — the pattern, the Match state, and
   unless the pattern starts with \A the unanchored prefix of compileUnanchoredPrefix:
   a [00-FF] state looping on the split (pattern first, then consume a byte) *)
Definition compile (r : re) : nfa :=
  let p := cpiece r in
  let n := psize p 0 in
  let s := pstart p 0 in
  if is_anchored r then mkNfa (pstates p 0 n ++ [SMatch]) s s (max_cap r + 1)
  else mkNfa (pstates p 0 n ++ [SMatch; SByteRange 0 255 (n + 2); SSplit s (n + 1)]) s (n + 2) (max_cap r + 1).

(* ------------------------------------------------------------------ the fragment *)
Definition rune_ok (m : N) : bool := bseq_okb (exact_seq (encode_rune m)).

(* what the translator guarantees for an AST produced by regexp/syntax (checked again by the
   case checker): runes encode to bytes, class ranges are increasing and disjoint, an
   alternation has an alternative, min <= max *)
Fixpoint re_ok (r : re) : bool :=
  match r with
  | RLit items => forallb (fun it => forallb rune_ok (fst it :: snd it)) items
  | RClass ranges => class_ok ranges
  | RCat rs => forallb re_ok rs
  | RAlt rs => negb (match rs with [] => true | _ => false end) && forallb re_ok rs
  | RStar _ r | RPlus _ r | RQuest _ r | RCap _ r => re_ok r
  | RRepeat _ mn mx r => (match mx with None => true | Some m => mn <=? m end) && re_ok r
  | _ => true
  end.

(* ------------------------------------------------------------------ languages of repeat *)
Section RepeatLang.
  Variable h : hay.
  Variable L : lang.
  Hypothesis HL : bounded h L.

  Lemma l_cats_app Ls1 Ls2 : Forall (bounded h) Ls2 ->
    forall i j, l_cats h (Ls1 ++ Ls2) i j <-> l_cat (l_cats h Ls1) (l_cats h Ls2) i j.
  Proof.
    intros Hb. induction Ls1 as [|L1 t IH]; intros i j; cbn [app l_cats].
    - unfold l_cat, l_eps. split.
      + intros H. exists i. split; [|exact H]. split; [reflexivity|].
        apply (l_cats_bounded h _ Hb) in H. lia.
      + intros [k [[-> _] H]]. exact H.
    - unfold l_cat in *. split.
      + intros [k [H1 H2]]. apply IH in H2 as [k2 [H2 H3]]. exists k2. split; [exists k; auto|exact H3].
      + intros [k2 [[k [H1 H2]] H3]]. exists k. split; [exact H1|]. apply IH. eauto.
  Qed.

  Lemma l_cats_repeat n i j : l_cats h (repeat L n) i j <-> l_pow h L n i j.
  Proof.
    revert i j. induction n as [|n IH]; intros i j; cbn [repeat l_cats l_pow]; [reflexivity|].
    unfold l_cat. split; intros [k [H1 H2]]; exists k; (split; [exact H1|now apply IH]).
  Qed.

  Lemma l_pow_add a b i j : l_pow h L (a + b) i j <-> l_cat (l_pow h L a) (l_pow h L b) i j.
  Proof.
    revert i j. induction a as [|a IH]; intros i j; cbn [Nat.add l_pow].
    - unfold l_cat, l_eps. split.
      + intros H. exists i. split; [|exact H]. split; [reflexivity|].
        apply (l_pow_bounded h L b HL) in H. lia.
      + intros [k [[-> _] H]]. exact H.
    - unfold l_cat in *. split.
      + intros [k [H1 H2]]. apply IH in H2 as [k2 [H2 H3]]. exists k2. split; [exists k; auto|exact H3].
      + intros [k2 [[k [H1 H2]] H3]]. exists k. split; [exact H1|]. apply IH. eauto.
  Qed.

  Lemma l_star_pow i j : l_star h L i j <-> exists n, l_pow h L n i j.
  Proof.
    split.
    - induction 1 as [i Hi|i k j H1 _ [n IH]]; [exists 0; split; auto|]. exists (S n). exists k. auto.
    - intros [n H]. revert i j H. induction n as [|n IH]; intros i j H; cbn [l_pow] in H.
      + destruct H as [-> H]. now constructor.
      + destruct H as [k [H1 H2]]. econstructor; eauto.
  Qed.

  Lemma l_pow_quest d i j : l_pow h (l_quest h L) d i j <-> exists n, n <= d /\ l_pow h L n i j.
  Proof.
    revert i j. induction d as [|d IH]; intros i j; cbn [l_pow].
    - split; [intros H; exists 0; split; [lia|exact H]|]. intros [n [Hn H]]. assert (n = 0) by lia. now subst.
    - unfold l_cat, l_quest. split.
      + intros [k [[[-> Hk]|H1] H2]]; apply IH in H2 as [n [Hn H2]].
        * exists n. split; [lia|exact H2].
        * exists (S n). split; [lia|]. exists k. auto.
      + intros [n [Hn H]]. destruct n as [|n].
        * destruct H as [-> H]. exists j. split; [left; split; auto|]. apply IH. exists 0. split; [lia|split; auto].
        * destruct H as [k [H1 H2]]. exists k. split; [now right|]. apply IH. exists n. split; [lia|exact H2].
  Qed.
End RepeatLang.

Lemma map_fst_repeat {X Y} (x : X * Y) n : map fst (repeat x n) = repeat (fst x) n.
Proof. induction n; cbn; congruence. Qed.

Lemma map_repeat' {X Y} (f : X -> Y) (x : X) n : map f (repeat x n) = repeat (f x) n.
Proof. induction n; cbn; congruence. Qed.

Lemma p_cat_pairs_ok (xs : list (piece * hlang)) :
  (forall x, In x xs -> piece_ok (fst x) (snd x)) ->
  piece_ok (p_cat (map fst xs)) (fun h => l_cats h (map (fun x => snd x h) xs)).
Proof. apply (p_cat_ok fst snd). Qed.

Lemma p_repeat_ok g mn mx nl p (L : hlang) : piece_ok p L ->
  (match mx with None => True | Some m => mn <= m end) ->
  piece_ok (p_repeat g mn mx nl p) (fun h => l_repeat h (L h) mn mx).
Proof.
  intros Hok Hmx.
  assert (HbL : forall h, bounded h (L h)) by (intros h i j; apply (pk_bounded _ _ Hok)).
  assert (HbS : forall h, bounded h (l_star h (L h))) by (intros h; apply l_star_bounded, HbL).
  assert (HbQ : forall h, bounded h (l_quest h (L h))).
  { intros h i j [[-> H]|H]; [lia|now apply HbL]. }
  unfold p_repeat. destruct mx as [m|].
  - destruct (Nat.eqb_spec mn m) as [->|Hne].
    + replace (repeat p m) with (map fst (repeat (p, L) m)) by apply map_fst_repeat.
      eapply piece_ok_lang; [|apply p_cat_pairs_ok].
      * intros h i j. cbv beta. rewrite map_repeat'. cbn [snd]. rewrite (l_cats_repeat h (L h)). unfold l_repeat. split.
        -- intros H. exists m. auto.
        -- intros [n [H1 [H2 H3]]]. assert (n = m) by lia. now subst.
      * intros x Hx. apply repeat_spec in Hx. subst x. exact Hok.
    + replace (repeat p mn ++ repeat (p_quest g p) (m - mn))
        with (map fst (repeat (p, L) mn ++ repeat (p_quest g p, fun h => l_quest h (L h)) (m - mn)))
        by (now rewrite map_app, !map_fst_repeat).
      eapply piece_ok_lang; [|apply p_cat_pairs_ok].
      * intros h i j. cbv beta. rewrite map_app, !map_repeat'. cbn [snd].
        rewrite (l_cats_app h); [|apply Forall_forall; intros x Hx; apply repeat_spec in Hx; subst x; apply HbQ].
        unfold l_cat, l_repeat. split.
        -- intros [k [H1 H2]]. apply (l_cats_repeat h) in H1. apply (l_cats_repeat h) in H2.
           apply (l_pow_quest h (L h)) in H2 as [d [Hd H2]]. exists (mn + d). split; [lia|]. split; [lia|].
           apply (l_pow_add h (L h) (HbL h)). exists k. auto.
        -- intros [n [H1 [H2 H3]]]. replace n with (mn + (n - mn)) in H3 by lia.
           apply (l_pow_add h (L h) (HbL h)) in H3 as [k [H3 H4]]. exists k.
           split; [now apply (l_cats_repeat h)|]. apply (l_cats_repeat h). apply (l_pow_quest h (L h)).
           exists (n - mn). split; [lia|exact H4].
      * intros x Hx. apply in_app_or in Hx as [Hx|Hx]; apply repeat_spec in Hx; subst x; cbn [fst snd]; [exact Hok|].
        now apply p_quest_ok.
  - destruct mn as [|mn'].
    + eapply piece_ok_lang; [|apply (p_star_ok g nl p L Hok)].
      intros h i j. cbv beta. unfold l_repeat. rewrite (l_star_pow h). split.
      * intros [n H]. exists n. split; [lia|]. auto.
      * intros [n [_ [_ H]]]. eauto.
    + set (mn := S mn').
      replace (repeat p mn ++ [p_star g nl p])
        with (map fst (repeat (p, L) mn ++ [(p_star g nl p, fun h => l_star h (L h))]))
        by (now rewrite map_app, map_fst_repeat).
      eapply piece_ok_lang; [|apply p_cat_pairs_ok].
      * intros h i j. cbv beta. rewrite map_app, !map_repeat'. cbn [snd map].
        rewrite (l_cats_app h); [|constructor; [apply HbS|constructor]].
        unfold l_cat, l_repeat. cbn [l_cats]. split.
        -- intros [k [H1 [k2 [H2 [-> _]]]]]. apply (l_cats_repeat h) in H1.
           apply (l_star_pow h) in H2 as [d H2]. exists (mn + d). split; [lia|]. split; [exact I|].
           apply (l_pow_add h (L h) (HbL h)). exists k. auto.
        -- intros [n [H1 [_ H3]]]. replace n with (mn + (n - mn)) in H3 by lia.
           apply (l_pow_add h (L h) (HbL h)) in H3 as [k [H3 H4]]. exists k.
           split; [now apply (l_cats_repeat h)|]. exists j. split.
           ++ apply (l_star_pow h). eauto.
           ++ split; [reflexivity|]. apply (l_pow_bounded h (L h) _ (HbL h)) in H4. lia.
      * intros x Hx. apply in_app_or in Hx as [Hx|[<-|[]]]; [apply repeat_spec in Hx; subst x; exact Hok|].
        cbn [fst snd]. now apply p_star_ok.
Qed.

Lemma p_cat_pairs_wf nc (xs : list (piece * hlang)) :
  (forall x, In x xs -> piece_ok (fst x) (snd x)) -> (forall x, In x xs -> piece_wf nc (fst x)) ->
  piece_wf nc (p_cat (map fst xs)).
Proof. apply (p_cat_wf nc fst snd). Qed.

Lemma p_repeat_wf nc g mn mx nl p (L : hlang) : piece_ok p L -> piece_wf nc p ->
  piece_wf nc (p_repeat g mn mx nl p).
Proof.
  intros Hok W. unfold p_repeat. destruct mx as [m|].
  - destruct (mn =? m).
    + replace (repeat p mn) with (map fst (repeat (p, L) mn)) by apply map_fst_repeat.
      apply p_cat_pairs_wf; intros x Hx; apply repeat_spec in Hx; subst x; assumption.
    + replace (repeat p mn ++ repeat (p_quest g p) (m - mn))
        with (map fst (repeat (p, L) mn ++ repeat (p_quest g p, fun h => l_quest h (L h)) (m - mn)))
        by (now rewrite map_app, !map_fst_repeat).
      apply p_cat_pairs_wf; intros x Hx; apply in_app_or in Hx as [Hx|Hx]; apply repeat_spec in Hx; subst x;
        cbn [fst snd]; try assumption; [now apply p_quest_ok|eapply p_quest_wf; eauto].
  - destruct mn as [|mn']; [eapply p_star_wf; eauto|].
    replace (repeat p (S mn') ++ [p_star g nl p])
      with (map fst (repeat (p, L) (S mn') ++ [(p_star g nl p, fun h => l_star h (L h))]))
      by (now rewrite map_app, map_fst_repeat).
    apply p_cat_pairs_wf; intros x Hx; apply in_app_or in Hx as [Hx|[<-|[]]];
      try (apply repeat_spec in Hx; subst x); cbn [fst snd]; try assumption;
      [now apply p_star_ok|eapply p_star_wf; eauto].
Qed.

(* ================================================================== the main induction *)
Lemma in_seq_exact bs e : in_seq bs (exact_seq e) = true <-> bs = e.
Proof.
  revert bs. induction e as [|b t IH]; intros [|x bs]; cbn [exact_seq map in_seq]; try (split; congruence).
  unfold in_range. split.
  - intros H. apply andb_prop in H as [H1 H2]. apply IH in H2. subst. f_equal. lia.
  - intros H. inversion H; subst. apply andb_true_intro. split; [lia|]. now apply IH.
Qed.

Lemma item_lang_bytes it h i j :
  (exists m, In m (fst it :: snd it) /\ l_seq h (exact_seq (encode_rune m)) i j) <->
  l_bytes h (item_bytes it) i j.
Proof.
  unfold l_bytes, item_bytes. split.
  - intros [m [Hm H]]. apply l_seq_slice in H as [Hb H]. split; [exact Hb|]. exists m. split; [exact Hm|].
    now apply in_seq_exact.
  - intros [Hb [m [Hm H]]]. exists m. split; [exact Hm|]. apply l_seq_slice. split; [exact Hb|]. now apply in_seq_exact.
Qed.

Lemma rune_piece_ok m : piece_ok (rune_piece m) (fun h => l_seq h (exact_seq (encode_rune m))).
Proof. apply p_fseq_ok. Qed.

Lemma item_piece_ok it : piece_ok (item_piece it) (fun h => l_bytes h (item_bytes it)).
Proof.
  unfold item_piece. destruct it as [c rest]. cbn [fst snd]. destruct rest as [|m t].
  - eapply piece_ok_lang; [|apply rune_piece_ok]. intros h i j. cbv beta.
    rewrite <- item_lang_bytes. cbn [fst snd]. split; [intros H; exists c; split; [now left|exact H]|].
    intros [m [[<-|[]] H]]. exact H.
  - eapply piece_ok_lang; [|apply (p_altj_ok true rune_piece (fun m h => l_seq h (exact_seq (encode_rune m))))].
    + intros h i j. cbv beta. rewrite <- item_lang_bytes. reflexivity.
    + intros x _. apply rune_piece_ok.
    + discriminate.
Qed.

Lemma item_piece_wf nc it : forallb rune_ok (fst it :: snd it) = true -> piece_wf nc (item_piece it).
Proof.
  intros H. rewrite forallb_forall in H. unfold item_piece. destruct it as [c rest]. cbn [fst snd] in *.
  assert (Hr : forall m, In m (c :: rest) -> piece_wf nc (rune_piece m)).
  { intros m Hm. apply p_fseq_wf, bseq_okb_ok. now apply H. }
  destruct rest as [|m t]; [apply Hr; now left|].
  apply (p_altj_wf nc true rune_piece (fun m h => l_seq h (exact_seq (encode_rune m)))); auto.
  - intros x _. apply rune_piece_ok.
  - discriminate.
Qed.

Lemma forallb_In {T} (f : T -> bool) l x : forallb f l = true -> In x l -> f x = true.
Proof. intros H Hx. rewrite forallb_forall in H. auto. Qed.

Theorem cpiece_ok r : re_ok r = true -> piece_ok (cpiece r) (fun h => re_lang code_atoms h r).
Proof.
  induction r using re_ind'; cbn [re_ok cpiece re_lang]; intros Hok.
  - exact p_eps_ok.
  - apply (p_cat_ok item_piece (fun it h => l_bytes h (item_bytes it))). intros it _. apply item_piece_ok.
  - eapply piece_ok_lang; [|apply (p_class_ok ranges Hok)]. intros h i j. apply l_seqs_bytes.
  - eapply piece_ok_lang; [|apply (p_any_ok true)]. intros h i j. apply l_seqs_bytes.
  - eapply piece_ok_lang; [|apply (p_any_ok false)]. intros h i j. apply l_seqs_bytes.
  - apply (p_cat_ok cpiece (fun r h => re_lang code_atoms h r)). intros x Hx.
    rewrite Forall_forall in H. apply (H x Hx). eapply forallb_In; eauto.
  - apply andb_prop in Hok as [Hne Hok].
    eapply piece_ok_lang; [|apply (p_alt_ok cpiece (fun r h => re_lang code_atoms h r) rs)].
    + intros h i j. symmetry. apply (m_alt code_atoms h rs i j).
    + intros x Hx. rewrite Forall_forall in H. apply (H x Hx). eapply forallb_In; eauto.
    + intros ->. discriminate.
  - apply p_star_ok. auto.
  - apply p_plus_ok. auto.
  - apply p_quest_ok. auto.
  - apply andb_prop in Hok as [Hmx Hok]. apply p_repeat_ok; [auto|].
    destruct mx; [now apply Nat.leb_le|exact I].
  - apply p_cap_ok. auto.
  - apply p_look_ok.
Qed.

Lemma max_cap_in rs x : In x rs -> max_cap x <= fold_right (fun x acc => Nat.max (max_cap x) acc) 0 rs.
Proof. induction rs as [|y t IH]; intros Hin; [destruct Hin|]. destruct Hin as [<-|Hx]; cbn [fold_right]; [lia|specialize (IH Hx); lia]. Qed.

Theorem cpiece_wf r : forall nc, re_ok r = true -> max_cap r < nc -> piece_wf nc (cpiece r).
Proof.
  induction r using re_ind'; cbn [re_ok cpiece max_cap]; intros nc Hok Hnc.
  - apply p_eps_wf.
  - apply (p_cat_wf nc item_piece (fun it h => l_bytes h (item_bytes it))).
    + intros it _. apply item_piece_ok.
    + intros it Hit. apply item_piece_wf. eapply (forallb_In _ _ it Hok Hit).
  - now apply p_class_wf.
  - apply p_any_wf.
  - apply p_any_wf.
  - rewrite Forall_forall in H. apply (p_cat_wf nc cpiece (fun r h => re_lang code_atoms h r)).
    + intros x Hx. apply cpiece_ok. eapply forallb_In; eauto.
    + intros x Hx. apply (H x Hx); [eapply forallb_In; eauto|]. pose proof (max_cap_in rs x Hx). lia.
  - apply andb_prop in Hok as [Hne Hok]. rewrite Forall_forall in H.
    apply (p_alt_wf nc cpiece (fun r h => re_lang code_atoms h r)).
    + intros x Hx. apply cpiece_ok. eapply forallb_In; eauto.
    + intros x Hx. apply (H x Hx); [eapply forallb_In; eauto|]. pose proof (max_cap_in rs x Hx). lia.
    + intros ->. discriminate.
  - eapply p_star_wf; [apply cpiece_ok|]; auto.
  - eapply p_plus_wf; [apply cpiece_ok|]; auto.
  - eapply p_quest_wf; [apply cpiece_ok|]; auto.
  - apply andb_prop in Hok as [Hmx Hok]. eapply p_repeat_wf; [apply cpiece_ok|]; auto.
  - eapply p_cap_wf; [apply cpiece_ok| |]; auto; [apply IHr; auto|]; lia.
  - apply p_look_wf.
Qed.

(* ================================================================== the compiled automaton *)
Section Top.
  Variable r : re.
  Hypothesis Hok : re_ok r = true.

  Let p := cpiece r.
  Let n := psize p 0.
  Let A := compile r.

  Lemma compile_states :
    states A = pstates p 0 n ++ (if is_anchored r then [SMatch]
                                 else [SMatch; SByteRange 0 255 (n + 2); SSplit (pstart p 0) (n + 1)]).
  Proof. unfold A, compile. fold p. fold n. now destruct (is_anchored r). Qed.

  Lemma compile_start : start_anch A = pstart p 0.
  Proof. unfold A, compile. now destruct (is_anchored r). Qed.

  Lemma compile_ncaps : ncaps A = max_cap r + 1.
  Proof. unfold A, compile. now destruct (is_anchored r). Qed.

  Lemma body_len : length (pstates p 0 n) = n.
  Proof. apply (pk_len _ _ (cpiece_ok r Hok)). Qed.

  Lemma compile_embeds : embeds A 0 (pstates p 0 n).
  Proof.
    intros i st Hi. rewrite compile_states. cbn [Nat.add]. rewrite nth_error_app1; [exact Hi|].
    apply nth_error_Some. congruence.
  Qed.

  Lemma compile_match_state : nth_error (states A) n = Some SMatch.
  Proof.
    rewrite compile_states, nth_error_app2 by (rewrite body_len; lia). rewrite body_len, Nat.sub_diag.
    now destruct (is_anchored r).
  Qed.

  Lemma body_wf N : n < N -> forallb (st_ok N (max_cap r + 1)) (pstates p 0 n) = true.
  Proof. intros HN. apply (cpiece_wf r (max_cap r + 1) Hok ltac:(lia) 0 n N); fold p; fold n; lia. Qed.

  Lemma accepting_is_n q : nth_error (states A) q = Some SMatch -> q = n.
  Proof.
    intros Hq. rewrite compile_states in Hq.
    destruct (Nat.lt_ge_cases q n) as [Hlt|Hge].
    - rewrite nth_error_app1 in Hq by (rewrite body_len; exact Hlt).
      pose proof (body_wf (S n) ltac:(lia)) as Hb. rewrite forallb_forall in Hb.
      specialize (Hb _ (nth_error_In _ _ Hq)). unfold st_ok in Hb. cbn [state_ok is_match_state negb andb] in Hb. discriminate.
    - rewrite nth_error_app2 in Hq by (rewrite body_len; exact Hge). rewrite body_len in Hq.
      destruct (q - n) as [|[|[|d]]] eqn:E; [lia| | |]; destruct (is_anchored r); cbn in Hq; try discriminate;
        destruct d; discriminate.
  Qed.

  Theorem compile_wf : wf_nfa (compile r) = true.
  Proof.
    fold A. unfold wf_nfa, nstates. rewrite compile_states, app_length, body_len, forallb_app'.
    pose proof (pk_start _ _ (cpiece_ok r Hok) 0) as Hs. fold p in Hs. fold n in Hs.
    assert (Hb : forall N, n < N -> forallb (state_ok N (ncaps A)) (pstates p 0 n) = true).
    { intros N HN. rewrite compile_ncaps. pose proof (body_wf N HN) as Hb. rewrite forallb_forall in *.
      intros x Hx. specialize (Hb x Hx). unfold st_ok in Hb. now apply andb_prop in Hb as [Hb _]. }
    unfold A at 3 4. unfold compile. fold p. fold n.
    destruct (is_anchored r); cbn [length start_anch start_unanch forallb state_ok].
    - rewrite Hb by lia. cbn [andb].
      assert (E : (pstart p 0 <? n + 1) = true) by (apply Nat.ltb_lt; lia). now rewrite E.
    - rewrite Hb by lia. cbn [andb].
      assert (E1 : (pstart p 0 <? n + 3) = true) by (apply Nat.ltb_lt; lia).
      assert (E2 : (n + 2 <? n + 3) = true) by (apply Nat.ltb_lt; lia).
      assert (E3 : (n + 1 <? n + 3) = true) by (apply Nat.ltb_lt; lia).
      now rewrite E1, E2, E3.
  Qed.

  Lemma reach_from_match h c c' : reach A h c c' -> nth_error (states A) (fst c) = Some SMatch -> c' = c.
  Proof.
    intros Hr Hm. destruct Hr as [c|c c1 c2 He _]; [reflexivity|].
    apply edge_nexts in He as [st [Hst Hin]]. rewrite Hm in Hst. inversion Hst; subst st.
    rewrite nexts_match in Hin. destruct Hin.
  Qed.

  (* C01 at the level of paths: the accepting paths of the compiled automaton from its
     anchored start are exactly the matches of the pattern *)
  Theorem compile_sound h i j : i <= length h ->
    nfa_path (compile r) h (start_anch (compile r)) i j -> re_match code_atoms r h i j.
  Proof.
    fold A. rewrite compile_start. intros Hi [q' [Hr Ha]]. unfold accepting in Ha. cbn [fst] in Ha.
    apply accepting_is_n in Ha. subst q'.
    pose proof (cpiece_ok r Hok) as Hp. fold p in Hp.
    pose proof (pk_start _ _ Hp 0) as Hs. fold n in Hs.
    destruct (reach_ipath A h 0 n _ _ Hr ltac:(cbn [fst]; unfold inr; lia) ltac:(cbn [fst]; unfold inr; lia))
      as [m [c1 [Hip Hr1]]].
    destruct (pk_sound _ _ Hp A h 0 n m i c1 compile_embeds ltac:(unfold inr; fold n; lia) Hi Hip) as [Hq HL].
    apply reach_from_match in Hr1; [|rewrite Hq; exact compile_match_state].
    inversion Hr1; subst. exact HL.
  Qed.

  Theorem compile_complete h i j :
    re_match code_atoms r h i j -> nfa_path (compile r) h (start_anch (compile r)) i j.
  Proof.
    fold A. rewrite compile_start. intros Hm.
    pose proof (cpiece_ok r Hok) as Hp. fold p in Hp.
    destruct (pk_complete _ _ Hp A h 0 n i j compile_embeds ltac:(unfold inr; fold n; lia) Hm) as [m Hip].
    exists n. split; [eapply ipath_reach; exact Hip|]. unfold accepting. cbn [fst]. exact compile_match_state.
  Qed.

  (* C01 *)
  Theorem compile_is_match h :
    is_match_ref (compile r) h = Done true <-> exists i j, re_match code_atoms r h i j.
  Proof.
    rewrite (is_match_ref_true _ h compile_wf). split.
    - intros [s [e [Hs Hp]]]. exists s, e. now apply compile_sound.
    - intros [i [j Hm]]. exists i, j. pose proof (re_match_bounds _ _ _ _ _ Hm). split; [lia|now apply compile_complete].
  Qed.

  (* C02: the reference search on the compiled automaton reports a match of the pattern at
     the leftmost position where the pattern matches at all *)
  Theorem compile_find_leftmost h at_ s e sl :
    find_at (compile r) h at_ = Done (Some (s, e, sl)) ->
    at_ <= s /\ re_match code_atoms r h s e /\
    forall i j, at_ <= i < s -> ~ re_match code_atoms r h i j.
  Proof.
    intros H. destruct (find_at_some _ h compile_wf _ _ _ _ H) as [H1 [H2 [H3 [H4 H5]]]].
    split; [exact H1|]. split; [apply compile_sound; [lia|exact H4]|].
    intros i j Hi Hm. apply (H5 i Hi j). now apply compile_complete.
  Qed.

  Theorem compile_find_none h at_ :
    find_at (compile r) h at_ = Done None -> forall i j, at_ <= i -> ~ re_match code_atoms r h i j.
  Proof.
    intros H i j Hi Hm. pose proof (re_match_bounds _ _ _ _ _ Hm) as Hb.
    apply (find_at_none _ h compile_wf _ H i ltac:(lia) j). now apply compile_complete.
  Qed.

  Theorem compile_find_total h at_ : find_at (compile r) h at_ <> OutOfFuel.
  Proof. apply find_at_total. exact compile_wf. Qed.
End Top.

(* ================================================================== case checker *)
(* The correspondence run (harness sub-command `compile-cases`) emits, per pattern of the
   fragment: the AST translated from *syntax.Regexp, the automaton that the REAL compiler
   produced (dumped through the public accessors of nfa.NFA), and spans observed from
   nfa.PikeVM.SearchAt on that automaton.  The model allocates states in the order of the
   Go Builder, so the two automata are compared by plain equality — same states, same ids,
   same start states, same capture count. *)
Definition look_eqb (a b : look) : bool :=
  match a, b with
  | LStartText, LStartText | LEndText, LEndText | LStartLine, LStartLine
  | LEndLine, LEndLine | LWordB, LWordB | LNoWordB, LNoWordB => true
  | _, _ => false
  end.

Fixpoint trs_eqb (a b : list (N * N * nat)) : bool :=
  match a, b with
  | [], [] => true
  | (l1, h1, n1) :: t1, (l2, h2, n2) :: t2 => (l1 =? l2)%N && (h1 =? h2)%N && (n1 =? n2) && trs_eqb t1 t2
  | _, _ => false
  end.

Definition nstate_eqb (a b : nstate) : bool :=
  match a, b with
  | SMatch, SMatch | SFail, SFail => true
  | SByteRange l1 h1 n1, SByteRange l2 h2 n2 => (l1 =? l2)%N && (h1 =? h2)%N && (n1 =? n2)
  | SSparse t1, SSparse t2 => trs_eqb t1 t2
  | SSplit l1 r1, SSplit l2 r2 => (l1 =? l2) && (r1 =? r2)
  | SEpsilon n1, SEpsilon n2 => n1 =? n2
  | SCapture i1 b1 n1, SCapture i2 b2 n2 => (i1 =? i2) && Bool.eqb b1 b2 && (n1 =? n2)
  | SLook k1 n1, SLook k2 n2 => look_eqb k1 k2 && (n1 =? n2)
  | _, _ => false
  end.

Fixpoint states_eqb (a b : list nstate) : bool :=
  match a, b with
  | [], [] => true
  | x :: t1, y :: t2 => nstate_eqb x y && states_eqb t1 t2
  | _, _ => false
  end.

Definition nfa_eqb (a b : nfa) : bool :=
  states_eqb (states a) (states b) && (start_anch a =? start_anch b) &&
  (start_unanch a =? start_unanch b) && (ncaps a =? ncaps b).

Lemma trs_eqb_eq a : forall b, trs_eqb a b = true -> a = b.
Proof.
  induction a as [|[[l1 h1] n1] t IH]; intros [|[[l2 h2] n2] t2] H; cbn [trs_eqb] in H; try discriminate; [reflexivity|].
  apply andb_prop in H as [H H4]. apply andb_prop in H as [H H3]. apply andb_prop in H as [H1 H2].
  apply N.eqb_eq in H1, H2. apply Nat.eqb_eq in H3. apply IH in H4. now subst.
Qed.

Lemma nstate_eqb_eq a b : nstate_eqb a b = true -> a = b.
Proof.
  destruct a, b; cbn [nstate_eqb]; intros H; try discriminate; try reflexivity.
  - apply andb_prop in H as [H H3]. apply andb_prop in H as [H1 H2].
    apply N.eqb_eq in H1, H2. apply Nat.eqb_eq in H3. now subst.
  - apply trs_eqb_eq in H. now subst.
  - apply andb_prop in H as [H1 H2]. apply Nat.eqb_eq in H1, H2. now subst.
  - apply Nat.eqb_eq in H. now subst.
  - apply andb_prop in H as [H H3]. apply andb_prop in H as [H1 H2].
    apply Nat.eqb_eq in H1, H3. apply Bool.eqb_prop in H2. now subst.
  - apply andb_prop in H as [H1 H2]. apply Nat.eqb_eq in H2. subst.
    destruct lk, lk0; try discriminate; reflexivity.
Qed.

Lemma states_eqb_eq a : forall b, states_eqb a b = true -> a = b.
Proof.
  induction a as [|x t IH]; intros [|y t2] H; cbn [states_eqb] in H; try discriminate; [reflexivity|].
  apply andb_prop in H as [H1 H2]. apply nstate_eqb_eq in H1. apply IH in H2. now subst.
Qed.

Theorem nfa_eqb_eq a b : nfa_eqb a b = true -> a = b.
Proof.
  unfold nfa_eqb. intros H. apply andb_prop in H as [H H4]. apply andb_prop in H as [H H3].
  apply andb_prop in H as [H1 H2]. apply states_eqb_eq in H1. apply Nat.eqb_eq in H2, H3, H4.
  destruct a, b; cbn in *. now subst.
Qed.

(* the certified comparison: automata accepted by the check are searched alike *)
Theorem nfa_iso_check_sound n1 n2 : nfa_eqb n1 n2 = true -> forall h at_, find_at n1 h at_ = find_at n2 h at_.
Proof. intros H h at_. now rewrite (nfa_eqb_eq _ _ H). Qed.

(* observation: haystack, offset, span reported by the real engine *)
Definition obs := (list N * nat * option (nat * nat))%type.

Record case := mkCase { c_id : N; c_re : re; c_nfa : nfa; c_obs : list obs }.

Definition span_of (x : res (option (nat * nat * slots))) : option (option (nat * nat)) :=
  match x with
  | OutOfFuel => None
  | Done None => Some None
  | Done (Some (s, e, _)) => Some (Some (s, e))
  end.

Definition ospan_eqb (a b : option (nat * nat)) : bool :=
  match a, b with
  | None, None => true
  | Some (s1, e1), Some (s2, e2) => (s1 =? s2) && (e1 =? e2)
  | _, _ => false
  end.

Definition obs_ok (A : nfa) (o : obs) : bool :=
  let '(h, at_, sp) := o in
  match span_of (find_at A h at_) with Some sp' => ospan_eqb sp sp' | None => false end.

(* 0 = fine; 1 = the AST is outside the fragment of the theorems (re_ok); 2 = the model's
   automaton differs from the real compiler's; 3 = an observed span differs from the
   reference search on the model's automaton *)
Definition case_verdict (c : case) : N :=
  if negb (re_ok (c_re c)) then 1%N
  else let A := compile (c_re c) in
       if negb (nfa_eqb A (c_nfa c)) then 2%N
       else if negb (forallb (obs_ok A) (c_obs c)) then 3%N else 0%N.

Definition check_case (c : case) : bool := (case_verdict c =? 0)%N.

Definition mismatches (cs : list case) : list N :=
  map c_id (filter (fun c => negb (check_case c)) cs).

Definition mismatch_kinds (cs : list case) : list (N * N) :=
  map (fun c => (c_id c, case_verdict c)) (filter (fun c => negb (check_case c)) cs).

(* what a passing case establishes, by the theorems above: the automaton the real compiler
   built for this pattern is the model's, hence denotes the pattern *)
Theorem check_case_sound c : check_case c = true ->
  wf_nfa (c_nfa c) = true /\
  forall h, (is_match_ref (c_nfa c) h = Done true <-> exists i j, re_match code_atoms (c_re c) h i j).
Proof.
  unfold check_case, case_verdict. intros H.
  destruct (re_ok (c_re c)) eqn:Hok; [|discriminate]. cbn [negb] in H.
  destruct (nfa_eqb (compile (c_re c)) (c_nfa c)) eqn:He; [|discriminate].
  apply nfa_eqb_eq in He. rewrite <- He. split; [now apply compile_wf|]. intros h. now apply compile_is_match.
Qed.
