(* C03 / C14 for the capture entry points of the PikeVM (nfa/pikevm.go SearchWithCaptures,
   SearchWithCapturesAt, SearchWithCapturesInSpan; model: PikeCaps.v) — statements only.
   For every NFA with wf_nfa A = true, every haystack and every offset the captures model
   returns the start, the end AND the slot vector of the leftmost-first reference search
   Nfa.find_at (first accepting path of the priority-ordered depth-first search); erasing the
   vectors gives Pike.v's model; the copy-on-write store with the reference for the right
   branch of a Split taken first implements the value semantics of the model, the original
   order does not.  Proofs: PikeCaps.v. *)
From Coq Require Import List NArith ZArith Arith.
From CV Require Import Nfa NfaRef Backtrack Pike PikeSpan PikeCaps.
Import ListNotations.

Theorem C14_pikecaps_erase_run :
  forall A h anchored at_ k p q best,
  er_res (csu_loop A h anchored at_ k p q best) = su_loop A h anchored at_ k p (map er q) (er_best best).
Proof. exact erase_run. Qed.
Print Assumptions C14_pikecaps_erase_run.

Theorem C14_pikecaps_erase_run_anchored :
  forall A h k p q last,
  er_lres (csa_loop A h k p q last) = sa_loop A h k p (map er q) (er_last last).
Proof. exact erase_run_anchored. Qed.
Print Assumptions C14_pikecaps_erase_run_anchored.

Theorem C14_pikecaps_erase :
  forall A h, wf_nfa A = true -> forall at_,
  er_res (pikecaps_search_at A h at_) = pike_search_at A h at_.
Proof. exact pikecaps_erase. Qed.
Print Assumptions C14_pikecaps_erase.

Theorem C03_pikecaps_loop_is_ref :
  forall A h, wf_nfa A = true -> forall at_, at_ <= length h ->
  csu_loop A h false at_ (length h - at_) at_ [] None = find_at A h at_.
Proof. exact pikecaps_loop_is_ref. Qed.
Print Assumptions C03_pikecaps_loop_is_ref.

Theorem C03_pikecaps_search_is_ref_raw :
  forall A h, wf_nfa A = true -> forall at_, ~ (at_ = length h /\ ncaps A <= 1) ->
  pikecaps_search_at A h at_ = find_at A h at_.
Proof. exact pikecaps_search_is_ref_raw. Qed.
Print Assumptions C03_pikecaps_search_is_ref_raw.

Theorem C03_pikecaps_search_is_ref :
  forall A h, wf_nfa A = true -> forall at_,
  report_res A (pikecaps_search_at A h at_) = report_res A (find_at A h at_).
Proof. exact pikecaps_search_is_ref. Qed.
Print Assumptions C03_pikecaps_search_is_ref.

Theorem C03_pikecaps_csearch_anchored_is_ref :
  forall A h, wf_nfa A = true -> forall s, s <= length h ->
  csearch_anchored A h s =
  (if length h <? s then Done None else
   match search_with (fuel_for A h) A h s with
   | OutOfFuel => OutOfFuel
   | Done None => Done None
   | Done (Some (e, sl)) => Done (Some (s, e, sl))
   end).
Proof. exact csearch_anchored_is_ref. Qed.
Print Assumptions C03_pikecaps_csearch_anchored_is_ref.

Theorem C03_pikecaps_anchored_is_ref :
  forall A h, wf_nfa A = true -> forall at_, ~ (at_ = length h /\ ncaps A <= 1) ->
  pikecaps_search_at_g A h true at_ =
  (if length h <? at_ then Done None else
   match search_with (fuel_for A h) A h at_ with
   | OutOfFuel => OutOfFuel
   | Done None => Done None
   | Done (Some (e, sl)) => Done (Some (at_, e, sl))
   end).
Proof. exact pikecaps_anchored_is_ref. Qed.
Print Assumptions C03_pikecaps_anchored_is_ref.

Theorem C03_cow_fixed_value :
  forall A h f p q s sl vs T H' vs',
  cowcl A h true f p q s 0 [(sl, 1)] vs = Done (T, H', vs') ->
  cclosure A h f p q s sl vs = Done (map (deref H') T, vs').
Proof. exact cow_fixed_value. Qed.
Print Assumptions C03_cow_fixed_value.

Theorem C03_cow_fixed_value_closure :
  forall A h f p q s c H vs T H' vs' ext,
  cowcl A h true f p q s c H vs = Done (T, H', vs') ->
  c < length H -> cow_pre ext H (fun x => ind x c) ->
  cow_post ext H T H' /\ cclosure A h f p q s (hdata H c) vs = Done (map (deref H') T, vs').
Proof. exact cow_ok. Qed.
Print Assumptions C03_cow_fixed_value_closure.

Theorem C03_cow_fixed_value_step :
  forall A h f p ts H vs T H' vs' ext,
  cowcl_list A h true f p ts H vs = Done (T, H', vs') ->
  cow_pre ext H (fun x => cnt x ts) ->
  cow_post ext H T H' /\ cclosure_list A h f p (map (deref H) ts) vs = Done (map (deref H') T, vs').
Proof. exact cow_list_ok. Qed.
Print Assumptions C03_cow_fixed_value_step.

Theorem C03_cow_original_refuted :
  exists A h f p q s sl T H' vs' Tv vsv,
    wf_nfa A = true /\
    cowcl A h false f p q s 0 [(sl, 1)] [] = Done (T, H', vs') /\
    cclosure A h f p q s sl [] = Done (Tv, vsv) /\
    map (deref H') T <> Tv.
Proof. exact cow_original_refuted. Qed.
Print Assumptions C03_cow_original_refuted.

Theorem C03_cow_loop_value :
  forall A h, wf_nfa A = true -> forall anchored at_ k p queue best H,
  cow_pre (fun _ => 0) H (fun x => cnt x queue) ->
  hsu_loop A h true anchored at_ k p queue best H = csu_loop A h anchored at_ k p (map (deref H) queue) best.
Proof. exact cow_loop_value. Qed.
Print Assumptions C03_cow_loop_value.

Theorem C03_cow_search_is_ref :
  forall A h, wf_nfa A = true -> forall at_, ~ (at_ = length h /\ ncaps A <= 1) ->
  cow_search_at A h true at_ = find_at A h at_.
Proof. exact cow_search_is_ref. Qed.
Print Assumptions C03_cow_search_is_ref.

Theorem C03_cow_original_refuted_search :
  exists A h at_, wf_nfa A = true /\
    report_res A (cow_search_at A h false at_) = Done (Some [0; 2; 2; 2]%Z) /\
    report_res A (find_at A h at_) = Done (Some [0; 2; 0; 2]%Z) /\
    report_res A (cow_search_at A h true at_) = Done (Some [0; 2; 0; 2]%Z).
Proof. exact cow_original_refuted_search. Qed.
Print Assumptions C03_cow_original_refuted_search.

Theorem C03_pikecaps_in_span_full :
  forall A h, wf_nfa A = true -> forall s, s <= length h ->
  pikecaps_in_span A h s (length h) =
  (if length h <? s then Done None else
   match search_with (fuel_for A h) A h s with
   | OutOfFuel => OutOfFuel
   | Done None => Done None
   | Done (Some (e, sl)) => Done (Some (s, e, sl))
   end).
Proof. exact pikecaps_in_span_full. Qed.
Print Assumptions C03_pikecaps_in_span_full.
