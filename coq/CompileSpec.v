(* CompileSpec.v — the byte languages of the rune-level atoms AS BUILT by nfa/compile.go
   (Compile.code_atoms: byte-range sequences computed by the model of compileCharClass /
   compileUnicodeClass* / compileUTF8Any) against the SPECIFICATION over well-formed UTF-8
   (Regex.spec_atoms), and what follows for whole patterns.

     multibyte_spec                  the eight sequences of buildUTF8NonASCIIBranches are exactly
                                     the well-formed multi-byte encodings
     any_spec_le_code                dot matches every well-formed code point (except \n)
     any_code_le_spec_refuted        ... and more (a lone continuation byte, C0/C1, F5..FF)
     class_ascii_exact               all-ASCII classes are exact
     class_small_spec_le_code / class_small_code_le_spec   classes of <= 256 code points
     class_covers_all_spec_le_code / class_covers_all_matches_cont_byte   [^a], \D, \W ...
     compile_spec_complete_partial   pattern matches (spec)  ->  accepting path
     compile_spec_sound_partial      accepting path -> pattern matches (spec), exact atoms only
     compile_spec_sound_refuted      the full soundness statement is false for the code:
                                     `[^a][^a]` finds [0,2] in "é" (C3 A9), a single rune
   Not covered at the specification level (their as-built language Compile.class_seqs is
   proved correct for the automaton, but not compared with code points here): large classes
   compiled through compileUTF8Range with 3- and 4-byte ranges (\p{Greek}, \pL ...); the
   per-automaton checker ClassAuto.class_check (C15) covers those pattern by pattern. *)
From Coq Require Import List NArith ZArith Lia Bool Arith PeanoNat.
From Coq Require Import ZifyBool ZifyNat ZifyN.
From CV Require Import Nfa NfaRef Utf8 ClassAuto Regex Compile.
Import ListNotations.

Ltac break_if :=
  repeat match goal with
         | |- context [if ?c then _ else _] => let E := fresh "E" in destruct c eqn:E
         | H : context [if ?c then _ else _] |- _ => let E := fresh "E" in destruct c eqn:E
         end.

Lemma multibyte_decode2 b0 b1 :
  in_seqs [b0; b1] utf8_multibyte = true <-> exists r, decode [b0; b1] = Some (r, 2).
Proof.
  unfold in_seqs, utf8_multibyte. cbn [existsb in_seq]. unfold in_range.
  rewrite !andb_false_r, !orb_false_r. unfold decode, bad, is_cont. split.
  - intros H. break_if; try lia; eauto.
  - intros [r H]. break_if; try discriminate; try lia.
Qed.

Lemma multibyte_decode3 b0 b1 b2 :
  in_seqs [b0; b1; b2] utf8_multibyte = true <-> exists r, decode [b0; b1; b2] = Some (r, 3).
Proof.
  unfold in_seqs, utf8_multibyte. cbn [existsb in_seq]. unfold in_range.
  rewrite !andb_false_r, !orb_false_r. unfold decode, bad, is_cont. split.
  - intros H. break_if; try lia; eauto.
  - intros [r H]. break_if; try discriminate; try lia.
Qed.

Lemma multibyte_decode4 b0 b1 b2 b3 :
  in_seqs [b0; b1; b2; b3] utf8_multibyte = true <-> exists r, decode [b0; b1; b2; b3] = Some (r, 4).
Proof.
  unfold in_seqs, utf8_multibyte. cbn [existsb in_seq]. unfold in_range.
  rewrite !andb_false_r, !orb_false_r. unfold decode, bad, is_cont. split.
  - intros H. break_if; try lia; eauto.
  - intros [r H]. break_if; try discriminate; try lia.
Qed.

(* the eight sequences of buildUTF8NonASCIIBranches / compileUTF8Any are exactly the
   well-formed multi-byte encodings *)
Theorem multibyte_spec bs :
  in_seqs bs utf8_multibyte = true <-> exists c, is_scalar c = true /\ (128 <= c)%N /\ bs = encode c.
Proof.
  split.
  - intros H.
    assert (Hd : exists r, (2 <= length bs)%nat /\ decode bs = Some (r, length bs)).
    { destruct bs as [|b0 [|b1 [|b2 [|b3 [|b4 t]]]]];
        try (unfold in_seqs, utf8_multibyte in H; cbn [existsb in_seq] in H; rewrite ?andb_false_r in H; discriminate).
      - apply multibyte_decode2 in H as [r H]. exists r. split; [cbn; lia|exact H].
      - apply multibyte_decode3 in H as [r H]. exists r. split; [cbn; lia|exact H].
      - apply multibyte_decode4 in H as [r H]. exists r. split; [cbn; lia|exact H].
    }
    destruct Hd as [r [Hl Hd]]. destruct (decode_whole_multibyte bs r Hl Hd) as [-> Hs].
    exists r. split; [exact Hs|]. split; [|reflexivity].
    rewrite encode_len in Hl. unfold enc_len in Hl. destruct (r <? 128)%N eqn:E; [cbn in Hl; lia|lia].
  - intros [c [Hs [Hc ->]]]. pose proof (decode_encode c [] Hs) as Hd. rewrite app_nil_r in Hd.
    pose proof (encode_len c) as Hl. unfold enc_len in Hl.
    replace (c <? 128)%N with false in Hl by lia.
    destruct (encode c) as [|b0 [|b1 [|b2 [|b3 [|b4 t]]]]] eqn:E; cbn [length] in Hl, Hd.
    + destruct (c <? 2048)%N, (c <? 65536)%N, (c <=? 1114111)%N; discriminate.
    + destruct (c <? 2048)%N, (c <? 65536)%N, (c <=? 1114111)%N; discriminate.
    + apply multibyte_decode2. eauto.
    + apply multibyte_decode3. eauto.
    + apply multibyte_decode4. eauto.
    + destruct (c <? 2048)%N, (c <? 65536)%N, (c <=? 1114111)%N; discriminate.
Qed.

(* ------------------------------------------------------------------ dot *)
(* every well-formed code point (other than \n) is matched by dot as built *)
Theorem any_spec_le_code nl bs : as_any spec_atoms nl bs -> as_any code_atoms nl bs.
Proof.
  cbn [as_any spec_atoms code_atoms]. intros [c [Hs [Hnl ->]]].
  unfold in_seqs. rewrite any_seqs_eq, !existsb_app.
  destruct (N.ltb_spec c 128) as [Hlt|Hge].
  - assert (E : encode c = [c]) by (unfold encode; replace (c <? 128)%N with true by lia; reflexivity).
    rewrite E. apply orb_true_iff. left. destruct nl; cbn [ascii_trs map existsb in_seq]; unfold in_range.
    + lia.
    + destruct Hnl as [Hnl|Hnl]; [discriminate|]. lia.
  - apply orb_true_iff. right. apply orb_true_iff. left.
    apply multibyte_spec. exists c. auto.
Qed.

(* ... and dot as built matches MORE: a lone continuation byte, C0, C1, F5..FF *)
Theorem any_code_le_spec_refuted : exists nl bs, as_any code_atoms nl bs /\ ~ as_any spec_atoms nl bs.
Proof.
  exists false, [128%N]. split; [reflexivity|].
  intros [c [Hs [_ H]]]. unfold encode in H.
  destruct (c <? 128)%N eqn:E1; [inversion H; lia|].
  destruct (c <? 2048)%N; [discriminate|]. destruct (c <? 65536)%N; [destruct (is_surrogate c); discriminate|].
  destruct (c <=? 1114111)%N; discriminate.
Qed.

(* ------------------------------------------------------------------ classes *)
Lemma in_nrange a b x : In x (nrange a b) <-> (a <= x <= b)%N.
Proof.
  unfold nrange. rewrite in_map_iff. split.
  - intros [i [<- Hi]]. apply List.in_seq in Hi. lia.
  - intros H. exists (N.to_nat (x - a)). split; [lia|]. apply List.in_seq. lia.
Qed.

Lemma in_class_runes ranges c : In c (class_runes ranges) <-> in_ranges c ranges = true.
Proof.
  unfold class_runes, in_ranges. rewrite in_flat_map, existsb_exists.
  split; intros [lh [H1 H2]]; exists lh; (split; [exact H1|]); [apply in_nrange in H2|apply in_nrange]; lia.
Qed.

Lemma in_ranges_any ranges c : in_ranges c ranges = in_any_range ranges c.
Proof. reflexivity. Qed.

Lemma in_seqs_singletons bs trs :
  in_seqs bs (map (fun lh => [lh]) trs) = true <-> exists b, bs = [b] /\ in_any_range trs b = true.
Proof.
  unfold in_seqs, in_any_range. rewrite existsb_exists. split.
  - intros [s [Hs Hm]]. apply in_map_iff in Hs as [[lo hi] [<- Hin]].
    destruct bs as [|b [|b' t]]; cbn [in_seq] in Hm; try discriminate; [|rewrite andb_false_r in Hm; discriminate].
    rewrite andb_true_r in Hm. exists b. split; [reflexivity|]. apply existsb_exists. exists (lo, hi). auto.
  - intros [b [-> Hb]]. apply existsb_exists in Hb as [[lo hi] [Hin Hr]]. exists [(lo, hi)].
    split; [apply in_map_iff; exists (lo, hi); auto|]. cbn [in_seq fst snd] in *. now rewrite Hr.
Qed.

Lemma encode_ascii c : (c < 128)%N -> encode c = [c] /\ is_scalar c = true.
Proof.
  intros H. unfold encode, is_scalar, is_surrogate. replace (c <? 128)%N with true by lia. split; [reflexivity|lia].
Qed.

Lemma encode_single c b : is_scalar c = true -> encode c = [b] -> c = b /\ (b < 128)%N.
Proof.
  intros Hs H. unfold encode in H. destruct (c <? 128)%N eqn:E; [inversion H; lia|].
  destruct (c <? 2048)%N; [discriminate|]. destruct (c <? 65536)%N; [destruct (is_surrogate c); discriminate|].
  destruct (c <=? 1114111)%N; discriminate.
Qed.

(* which path compileCharClass takes *)
Definition is_ascii_class (ranges : list (N * N)) : bool :=
  match ranges with [] => false | _ => all_ascii ranges end.
Definition is_small_class (ranges : list (N * N)) : bool :=
  match ranges with [] => false | _ => negb (all_ascii ranges) && (class_total ranges <=? 256)%N end.
Definition is_large_class (ranges : list (N * N)) : bool :=
  match ranges with [] => false | _ => negb (all_ascii ranges) && negb (class_total ranges <=? 256)%N end.

Lemma all_ascii_bound ranges c : all_ascii ranges = true -> in_ranges c ranges = true -> (c < 128)%N.
Proof.
  unfold all_ascii, in_ranges. rewrite forallb_forall, existsb_exists. intros H [lh [Hin Hc]]. specialize (H lh Hin). lia.
Qed.

Lemma class_seqs_cons r0 rt :
  class_seqs (r0 :: rt) =
  if all_ascii (r0 :: rt) then map (fun lh => [lh]) (r0 :: rt)
  else if (class_total (r0 :: rt) <=? 256)%N then map (fun c => exact_seq (encode_rune c)) (class_runes (r0 :: rt))
  else flat_map desc_seqs (large_descs (r0 :: rt)).
Proof. reflexivity. Qed.

(* an all-ASCII class is compiled exactly *)
Theorem class_ascii_exact ranges bs : is_ascii_class ranges = true ->
  (as_class code_atoms ranges bs <-> as_class spec_atoms ranges bs).
Proof.
  unfold is_ascii_class. destruct ranges as [|r0 rt]; [discriminate|].
  cbn [as_class code_atoms spec_atoms]. rewrite class_seqs_cons. set (ranges := r0 :: rt). intros Ha. rewrite Ha.
  rewrite in_seqs_singletons. split.
  - intros [b [-> Hb]]. exists b. rewrite in_ranges_any. split; [exact Hb|].
    pose proof (all_ascii_bound ranges b Ha Hb) as Hlt. destruct (encode_ascii b Hlt) as [-> Hs]. auto.
  - intros [c [Hc [Hs ->]]]. pose proof (all_ascii_bound ranges c Ha Hc) as Hlt.
    destruct (encode_ascii c Hlt) as [-> _]. exists c. auto.
Qed.

Lemma in_seqs_exact bs (cs : list N) :
  in_seqs bs (map (fun c => exact_seq (encode_rune c)) cs) = true <-> exists c, In c cs /\ bs = encode_rune c.
Proof.
  unfold in_seqs. rewrite existsb_exists. split.
  - intros [s [Hs Hm]]. apply in_map_iff in Hs as [c [<- Hc]]. apply in_seq_exact in Hm. eauto.
  - intros [c [Hc ->]]. exists (exact_seq (encode_rune c)). split; [apply in_map_iff; eauto|now apply in_seq_exact].
Qed.

(* a small class (at most 256 code points): every well-formed member is matched; what is
   matched is encodeRune of a member — a surrogate member is matched by its raw 3-byte form *)
Theorem class_small_spec_le_code ranges bs : is_small_class ranges = true ->
  as_class spec_atoms ranges bs -> as_class code_atoms ranges bs.
Proof.
  unfold is_small_class. destruct ranges as [|r0 rt]; [discriminate|].
  cbn [as_class code_atoms spec_atoms]. rewrite class_seqs_cons. set (ranges := r0 :: rt). intros Ha.
  apply andb_prop in Ha as [Ha Ht]. apply negb_true_iff in Ha. rewrite Ha, Ht.
  intros [c [Hc [Hs ->]]]. apply in_seqs_exact. exists c. split; [now apply in_class_runes|].
  symmetry. now apply encode_rune_scalar.
Qed.

Definition no_surrogates (ranges : list (N * N)) : bool :=
  forallb (fun lh => ((snd lh <? 0xD800) || (0xDFFF <? fst lh)) && (snd lh <=? 0x10FFFF))%N ranges.

Lemma no_surrogates_scalar ranges c : no_surrogates ranges = true -> in_ranges c ranges = true -> is_scalar c = true.
Proof.
  unfold no_surrogates, in_ranges, is_scalar, is_surrogate. rewrite forallb_forall, existsb_exists.
  intros H [lh [Hin Hc]]. specialize (H lh Hin). lia.
Qed.

Theorem class_small_code_le_spec ranges bs : is_small_class ranges = true -> no_surrogates ranges = true ->
  as_class code_atoms ranges bs -> as_class spec_atoms ranges bs.
Proof.
  unfold is_small_class. destruct ranges as [|r0 rt]; [discriminate|].
  cbn [as_class code_atoms spec_atoms]. rewrite class_seqs_cons. set (ranges := r0 :: rt). intros Ha Hns.
  apply andb_prop in Ha as [Ha Ht]. apply negb_true_iff in Ha. rewrite Ha, Ht.
  intros H. apply in_seqs_exact in H as [c [Hc ->]]. apply in_class_runes in Hc.
  pose proof (no_surrogates_scalar ranges c Hns Hc) as Hs. exists c. split; [exact Hc|]. split; [exact Hs|].
  now apply encode_rune_scalar.
Qed.

(* ---- large classes whose non-ASCII part is everything ([^a], \D, \W, [^\n] ...) *)
Definition is_covers_all_class (ranges : list (N * N)) : bool :=
  is_large_class ranges && covers_all (nonascii_part ranges).

Definition ascii_descs (asc : list (N * N)) : list alt_desc :=
  match asc with [] => [] | [lh] => [DSeq [lh]] | _ => [DSparse asc] end.

Lemma ascii_descs_seqs asc : flat_map desc_seqs (ascii_descs asc) = map (fun lh => [lh]) asc.
Proof.
  destruct asc as [|a [|b t]]; cbn [ascii_descs flat_map desc_seqs map app]; try reflexivity.
  now rewrite app_nil_r.
Qed.

Lemma flat_map_desc_seqs_DSeq ss : flat_map desc_seqs (map DSeq ss) = ss.
Proof. induction ss as [|s t IH]; cbn; congruence. Qed.

Lemma covers_all_seqs ranges : is_covers_all_class ranges = true ->
  class_seqs ranges = map (fun lh => [lh]) (ascii_part ranges) ++ utf8_multibyte ++ [[(128%N, 255%N)]].
Proof.
  unfold is_covers_all_class, is_large_class. destruct ranges as [|r0 rt]; [discriminate|].
  rewrite class_seqs_cons. set (ranges := r0 :: rt). intros H.
  apply andb_prop in H as [H Hc]. apply andb_prop in H as [Ha Ht]. apply negb_true_iff in Ha, Ht. rewrite Ha, Ht.
  unfold large_descs. fold (ascii_descs (ascii_part ranges)). rewrite Hc.
  destruct (nonascii_part ranges) as [|n0 nt] eqn:En; [discriminate|].
  rewrite flat_map_app, ascii_descs_seqs, flat_map_app, flat_map_desc_seqs_DSeq. reflexivity.
Qed.

Lemma ascii_part_in ranges c : in_ranges c ranges = true -> (c < 128)%N ->
  in_any_range (ascii_part ranges) c = true.
Proof.
  unfold in_ranges, in_any_range, ascii_part. rewrite !existsb_exists. intros [lh [Hin Hc]] Hlt.
  unfold la_part. destruct (snd lh <? 128)%N eqn:E1; [|destruct (128 <=? fst lh)%N eqn:E2].
  - exists lh. split; [apply in_flat_map; exists lh; split; [exact Hin|]; unfold la_part; rewrite E1; now left|].
    unfold in_range. lia.
  - lia.
  - exists (fst lh, 127%N). split; [apply in_flat_map; exists lh; split; [exact Hin|]; unfold la_part; rewrite E1, E2; now left|].
    unfold in_range. cbn [fst snd]. lia.
Qed.

(* every well-formed member of such a class is matched ... *)
Theorem class_covers_all_spec_le_code ranges bs : is_covers_all_class ranges = true ->
  as_class spec_atoms ranges bs -> as_class code_atoms ranges bs.
Proof.
  intros Hca. cbn [as_class code_atoms spec_atoms]. rewrite (covers_all_seqs ranges Hca).
  intros [c [Hc [Hs ->]]]. unfold in_seqs. rewrite !existsb_app.
  destruct (N.ltb_spec c 128) as [Hlt|Hge].
  - destruct (encode_ascii c Hlt) as [-> _]. apply orb_true_iff. left.
    apply (in_seqs_singletons [c] (ascii_part ranges)). exists c. split; [reflexivity|now apply ascii_part_in].
  - apply orb_true_iff. right. apply orb_true_iff. left. apply multibyte_spec. exists c. auto.
Qed.

(* ... and so is ANY single byte 80..FF (compileUnicodeClassLarge: "invalidUTF8"), including a
   continuation byte in the middle of a well-formed rune: the class then matches a PIECE of
   a rune *)
Theorem class_covers_all_matches_cont_byte ranges b : is_covers_all_class ranges = true ->
  (128 <= b <= 255)%N -> as_class code_atoms ranges [b].
Proof.
  intros Hca Hb. cbn [as_class code_atoms]. rewrite (covers_all_seqs ranges Hca).
  unfold in_seqs. rewrite !existsb_app. apply orb_true_iff. right. apply orb_true_iff. right.
  cbn [existsb in_seq]. unfold in_range. lia.
Qed.

(* ------------------------------------------------------------------ patterns *)
(* atoms for which the automaton matches every well-formed member *)
Definition atom_complete_known (r : re) : Prop :=
  match r with
  | RClass ranges => ranges = [] \/ is_ascii_class ranges = true \/ is_small_class ranges = true \/
                     is_covers_all_class ranges = true
  | _ => True
  end.

(* atoms compiled exactly *)
Definition atom_exact_known (r : re) : Prop :=
  match r with
  | RClass ranges => ranges = [] \/ is_ascii_class ranges = true \/
                     (is_small_class ranges = true /\ no_surrogates ranges = true)
  | RAnyChar | RAnyCharNotNL => False
  | _ => True
  end.

Lemma atoms_all_impl (Q1 Q2 : re -> Prop) r : (forall x, Q1 x -> Q2 x) -> atoms_all Q1 r -> atoms_all Q2 r.
Proof.
  intros HQ. induction r using re_ind'; cbn [atoms_all]; auto.
  - intros H1. apply atoms_all_list. apply atoms_all_list in H1. rewrite Forall_forall in *. auto.
  - intros H1. apply atoms_all_list. apply atoms_all_list in H1. rewrite Forall_forall in *. auto.
Qed.

(* C01/C02 against the SPECIFICATION (well-formed UTF-8), completeness direction: whatever the
   pattern matches, the compiled automaton accepts *)
Theorem compile_spec_complete_partial r : re_ok r = true -> atoms_all atom_complete_known r ->
  forall h i j, re_match spec_atoms r h i j -> nfa_path (compile r) h (start_anch (compile r)) i j.
Proof.
  intros Hok Ha h i j Hm. apply compile_complete; [exact Hok|].
  revert Hm. apply re_match_mono. revert Ha. apply atoms_all_impl.
  intros [] H; cbn [atom_complete_known atom_incl] in *; auto.
  - intros bs Hs. destruct H as [->|[H|[H|H]]].
    + destruct Hs as [c [Hc _]]. discriminate.
    + now apply class_ascii_exact.
    + now apply class_small_spec_le_code.
    + now apply class_covers_all_spec_le_code.
  - intros bs. apply any_spec_le_code.
  - intros bs. apply any_spec_le_code.
Qed.

(* soundness direction, for patterns whose atoms are compiled exactly (no dot, classes that are
   all-ASCII or small without surrogates) *)
Theorem compile_spec_sound_partial r : re_ok r = true -> atoms_all atom_exact_known r ->
  forall h i j, i <= length h ->
  nfa_path (compile r) h (start_anch (compile r)) i j -> re_match spec_atoms r h i j.
Proof.
  intros Hok Ha h i j Hi Hp. apply (compile_sound r Hok h i j Hi) in Hp.
  revert Hp. apply re_match_mono. revert Ha. apply atoms_all_impl.
  intros [] H; cbn [atom_exact_known atom_incl] in *; auto; try contradiction.
  intros bs Hs. destruct H as [->|[H|[H1 H2]]].
  - cbn in Hs. discriminate.
  - now apply class_ascii_exact.
  - now apply class_small_code_le_spec.
Qed.

(* ------------------------------------------------------------------ refutation *)
(* The full soundness statement — every span found is a match of the pattern over well-formed
   UTF-8 — is FALSE for the code, already on a well-formed haystack: `[^a][^a]` on "é" (C3 A9).
   The automaton accepts C3 and A9 as two "characters" through the 80..FF branch that
   compileUnicodeClassLarge adds to classes covering all of non-ASCII. *)
Definition not_a : re := RClass [(0, 96); (98, 0x10FFFF)]%N.
Definition not_a_twice : re := RCat [not_a; not_a].
Definition e_acute : hay := [0xC3; 0xA9]%N.

Theorem compile_spec_sound_refuted :
  re_ok not_a_twice = true /\ e_acute = encode 0xE9 /\
  (exists sl, find_at (compile not_a_twice) e_acute 0 = Done (Some (0, 2, sl))) /\
  nfa_path (compile not_a_twice) e_acute (start_anch (compile not_a_twice)) 0 2 /\
  forall i j, ~ re_match spec_atoms not_a_twice e_acute i j.
Proof.
  assert (Hok : re_ok not_a_twice = true) by (vm_compute; reflexivity).
  assert (Hf : exists sl, find_at (compile not_a_twice) e_acute 0 = Done (Some (0, 2, sl))).
  { eexists. vm_compute. reflexivity. }
  split; [exact Hok|]. split; [reflexivity|]. split; [exact Hf|]. split.
  - destruct Hf as [sl Hf]. apply (find_at_some _ _ (compile_wf _ Hok) _ _ _ _ Hf).
  - intros i j Hm. unfold re_match, not_a_twice in Hm. cbn [re_lang map l_cats] in Hm.
    destruct Hm as [k [[Hb1 [c1 [_ [Hs1 H1]]]] [k2 [[Hb2 [c2 [_ [Hs2 H2]]]] [-> Hj]]]]].
    cbn [as_class spec_atoms] in *.
    assert (Hl1 := encode_len_bounds c1). assert (Hl2 := encode_len_bounds c2).
    rewrite <- H1, slice_len in Hl1 by exact Hb1. rewrite <- H2, slice_len in Hl2 by exact Hb2.
    cbn [length e_acute] in *.
    assert (i = 0) by lia. assert (k = 1) by lia. subst i k.
    change (slice e_acute 0 1) with [195%N] in H1. symmetry in H1.
    destruct (encode_single c1 195%N Hs1 H1) as [_ Hlt]. lia.
Qed.
