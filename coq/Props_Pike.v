(* C01 / C02 / C14 for the PikeVM (nfa/pikevm.go, model: Pike.v) — statements only.
   For every NFA with wf_nfa A = true, every haystack and every offset.
   The statements named `…_partial` here give the START of SearchAt (leftmost start with an
   accepting path, equal to the reference's) and a valid END; the full statement (the whole
   span equals Nfa.find_at's) is C14_pike_search_is_ref in Props_PikeSpan.v. *)
From Coq Require Import List NArith.
From CV Require Import Nfa NfaRef Backtrack Pike.
Import ListNotations.

Theorem C14_pike_fuel_ok :
  forall A h, wf_nfa A = true ->
  (forall p q s vs, closure A h (cfuel A) p q s vs <> OutOfFuel) /\
  pike_is_match A h <> OutOfFuel /\ (forall at_, pike_search_at A h at_ <> OutOfFuel) /\
  (forall s0, search_anchored A h s0 <> OutOfFuel).
Proof. exact pike_fuel_ok. Qed.
Print Assumptions C14_pike_fuel_ok.

Theorem C14_pike_is_match_correct :
  forall A h, wf_nfa A = true -> forall b,
  pike_is_match A h = Done b ->
  (b = true <-> exists s e, s <= length h /\ nfa_path A h (start_anch A) s e).
Proof. exact pike_is_match_correct. Qed.
Print Assumptions C14_pike_is_match_correct.

Theorem C14_pike_is_match_is_ref :
  forall A h, wf_nfa A = true -> pike_is_match A h = is_match_ref A h.
Proof. exact pike_is_match_is_ref. Qed.
Print Assumptions C14_pike_is_match_is_ref.

Theorem C14_pike_is_match_anchored_correct :
  forall A h, wf_nfa A = true -> forall b,
  pike_is_match_g A h true = Done b -> (b = true <-> exists e, nfa_path A h (start_anch A) 0 e).
Proof. exact pike_is_match_anchored_correct. Qed.
Print Assumptions C14_pike_is_match_anchored_correct.

Theorem C14_pike_search_start_leftmost_end_valid_partial :
  forall A h, wf_nfa A = true -> forall at_ r,
  pike_search_at A h at_ = Done r ->
  match r with
  | Some (s, e) => at_ <= s /\ s <= e /\ e <= length h /\ nfa_path A h (start_anch A) s e /\
                   forall s' e', at_ <= s' -> s' < s -> ~ nfa_path A h (start_anch A) s' e'
  | None => forall s e, at_ <= s -> s <= length h -> ~ nfa_path A h (start_anch A) s e
  end.
Proof. exact pike_search_start_leftmost_end_valid_partial. Qed.
Print Assumptions C14_pike_search_start_leftmost_end_valid_partial.

Theorem C14_pike_search_start_is_ref_partial :
  forall A h, wf_nfa A = true -> forall at_,
  match pike_search_at A h at_, find_at A h at_ with
  | Done None, Done None => True
  | Done (Some (s, e)), Done (Some (s', e', _)) => s = s' /\ nfa_path A h (start_anch A) s e
  | _, _ => False
  end.
Proof. exact pike_search_start_is_ref_partial. Qed.
Print Assumptions C14_pike_search_start_is_ref_partial.

Theorem C14_pike_search_anchored_valid :
  forall A h, wf_nfa A = true -> forall at_ r,
  at_ < length h -> pike_search_at_g A h true at_ = Done r ->
  match r with
  | Some (s, e) => s = at_ /\ nfa_path A h (start_anch A) at_ e
  | None => forall e, ~ nfa_path A h (start_anch A) at_ e
  end.
Proof. exact pike_search_anchored_valid. Qed.
Print Assumptions C14_pike_search_anchored_valid.

Theorem C14_pike_search_unique_end_is_ref_partial :
  forall A h, wf_nfa A = true -> forall at_,
  (forall s e1 e2, nfa_path A h (start_anch A) s e1 -> nfa_path A h (start_anch A) s e2 -> e1 = e2) ->
  pike_search_at A h at_ = span_of (find_at A h at_).
Proof. exact pike_search_unique_end_is_ref_partial. Qed.
Print Assumptions C14_pike_search_unique_end_is_ref_partial.

Theorem C14_pike_stack_closure_is_closure :
  forall A h p q s vs T vs',
  closure A h (cfuel A) p q s vs = Done (T, vs') ->
  exists c, forall f acc, sclosure A h (c + f) p [(q, s)] acc vs = Done (acc ++ T, vs').
Proof. exact sclosure_is_closure. Qed.
Print Assumptions C14_pike_stack_closure_is_closure.
