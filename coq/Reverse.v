(* Reverse.v — a Gallina model of the reverse-NFA construction nfa/reverse.go
   (Reverse / ReverseAnchored = reverseWithOptions) and the theorem that the reversed
   automaton accepts exactly the reversed paths of the forward automaton (property C14;
   every reverse strategy of the meta engine searches with a DFA built on this automaton).

   THE MODEL.  `reverse_nfa anchored A` replays reverseWithOptions on the Builder: the
   builder is the list of states appended so far (ids = positions), placeholders carry the
   target `invalid` (InvalidState as the dumper nfadump.go:tgt renders it), Patch /
   PatchSplit / updateByteRangeState / updateSparseState are in-place updates that test the
   kind of the state exactly as the Go code does, and lookups `revStateMap[x]` WITHOUT the
   ", ok" test return 0 (= the id of the reverse Match state) for an unmapped key, as a Go
   map does.  The state list therefore comes out in the Builder's allocation order and the
   correspondence run compares it with the dumped nfa.Reverse(n) / nfa.ReverseAnchored(n)
   by plain equality (nfa_eqb).

   REVERSE AUTOMATA ARE NOT wf_nfa (Nfa.v) in general: a Sparse state built by
   fillSparseState lists one transition per incoming byte edge, in edge order, so its ranges
   overlap and are unsorted; unreferenced forward states leave Fail placeholders.  Their
   semantics here is `rstep` / `rpath`: ALL matching Sparse transitions are followed (what
   nfa/pikevm.go:step and the lazy DFA's move do), and the haystack is read BACKWARDS: a
   configuration (x, k) reads h[k-1] and moves to k-1 — how lazy.DFA.SearchReverse scans
   from `end` down to `start`.  No list reversal of the haystack is involved.

   THE THEOREMS, for every forward automaton A with wf_nfa A, WITHOUT Look states (no_look)
   and with the unanchored prefix the compiler builds (prefix_shape: start_unanch =
   start_anch, or start_unanch = Split(start_anch, lp), lp = ByteRange -> start_unanch, and
   no other edge enters start_unanch or lp), for BOTH anchored = true (nfa.ReverseAnchored)
   and anchored = false (nfa.Reverse), every haystack h and all positions i, j:
     reverse_sound / reverse_complete   nfa_path A h (start_anch A) i j  <->
                                        rpath (reverse_nfa anchored A) h start j i
     reverse_leftmost_start             the smallest i reached by a reverse path from j is the
                                        leftmost start of a forward match ending at j
     reverse_unanchored_no_overrun      Reverse: the proxy of the unanchored start does not let
                                        a reverse path run on to the left of the match start
     reverse_look_refuted               with a Look state (`a\b` on "ab") both reversed
                                        automata accept where the forward one does not
     reverse_start_loop_original_refuted  the code before commit 1f8e25e, `[a-z]*foo` on
                                        "acagfoo": no reverse path from 7 reaches Match at 0
   Proof structure: Section Layout derives both directions from a content-level description
   of the reversed automaton (rev_layout: which reverse states belong to which forward state
   and where their transitions lead); fill_pure / chain_pure describe what fillReverseState /
   buildSplitChain write, fill_state_pure / fill_one_desc prove the Builder operations equal
   to them, Section Build follows the two passes and proves reverse_layout. *)
From Coq Require Import List NArith ZArith Lia Bool Arith PeanoNat.
From Coq Require Import ZifyBool ZifyNat ZifyN.
From CV Require Import Nfa NfaRef.
Import ListNotations.

(* ================================================================== the model *)

(* nfa/nfa.go: InvalidState (0xFFFFFFFF), as rendered by harness/nfadump.go:tgt *)
Definition invalid : nat := N.to_nat 999999.
Global Opaque invalid.   (* never unfolded by tactics; vm_compute ignores opacity *)

(* nfa/reverse.go: type reverseEdge / edgeKind.  EByte sp: edgeByteRange (sp = false) or
   edgeSparse (sp = true) — the code never distinguishes the two. *)
Inductive redge := EByte (sp : bool) (from : nat) (lo hi : N) | EEps (from : nat).

Definition e_from (e : redge) : nat := match e with EByte _ f _ _ => f | EEps f => f end.
Definition e_is_byte (e : redge) : bool := match e with EByte _ _ _ _ => true | EEps _ => false end.
Definition e_is_eps (e : redge) : bool := negb (e_is_byte e).

(* nfa/reverse.go: collectEdgesFromState — the (to, edge) pairs in append order.  The test
   `to != InvalidState` is not needed: the entry of an out-of-range key is never read. *)
Definition edges_of_state (from : nat) (st : nstate) : list (nat * redge) :=
  match st with
  | SByteRange lo hi to => [(to, EByte false from lo hi)]
  | SSparse trs => map (fun t => (snd t, EByte true from (fst (fst t)) (snd (fst t)))) trs
  | SSplit l r => [(l, EEps from); (r, EEps from)]
  | SEpsilon to => [(to, EEps from)]
  | SCapture _ _ to => [(to, EEps from)]
  | SLook _ to => [(to, EEps from)]      (* "treat as epsilon for edge collection" *)
  | SMatch | SFail => []
  end.

(* nfa/reverse.go: collectReverseEdges *)
Fixpoint all_edges_from (i : nat) (sts : list nstate) : list (nat * redge) :=
  match sts with
  | [] => []
  | st :: t => edges_of_state i st ++ all_edges_from (S i) t
  end.
Definition all_edges (A : nfa) : list (nat * redge) := all_edges_from 0 (states A).

(* reverseEdges[q] *)
Definition edges_to (E : list (nat * redge)) (q : nat) : list redge :=
  map snd (filter (fun x => fst x =? q) E).

(* revStateMap: forward id -> reverse id *)
Definition rmap := list (option nat).
Definition get (m : rmap) (q : nat) : option nat :=
  match nth_error m q with Some (Some r) => Some r | _ => None end.
(* revStateMap[q] without the ok test: the zero value for an absent key *)
Definition lookup0 (m : rmap) (q : nat) : nat := match get m q with Some r => r | None => 0 end.
Definition mapped (m : rmap) (q : nat) : bool := match get m q with Some _ => true | None => false end.

(* the Builder: states appended so far *)
Definition bld := list nstate.
Definition add (B : bld) (st : nstate) : bld * nat := (B ++ [st], length B).

Definition is_nil {T} (l : list T) : bool := match l with [] => true | _ => false end.

(* nfa/reverse.go: countEdgeTypes *)
Definition count_bytes (es : list redge) : nat := length (filter e_is_byte es).
Definition count_eps (es : list redge) : nat := length (filter e_is_eps es).

(* nfa/reverse.go: allocatePlaceholder — the state it appends *)
Definition placeholder (es : list redge) : nstate :=
  if is_nil es then SFail else
  let b := count_bytes es in
  let e := count_eps es in
  if (b =? 0) && (0 <? e) then (if e =? 1 then SEpsilon invalid else SSplit invalid invalid)
  else if (b =? 1) && (e =? 0) then SByteRange 0 0 invalid
  else if (0 <? b) && (0 <? e) then SSplit invalid invalid
  else SSparse [(0%N, 0%N, invalid)].

(* nfa/reverse.go: mapSingleStartState (matchID = 0: the first state of the builder) *)
Definition map_single_start (B : bld) (has_in : bool) : bld * nat :=
  if has_in then add B (SEpsilon 0) else (B, 0).

(* nfa/reverse.go: mapStartStates *)
Definition map_starts (B : bld) (E : list (nat * redge)) (aa ua : nat) (anchored : bool) (m : rmap)
  : bld * rmap :=
  let '(B1, r1) := map_single_start B (negb (is_nil (edges_to E aa))) in
  let m1 := set_nth m aa (Some r1) in
  if negb anchored && negb (ua =? aa) then
    let '(B2, r2) := map_single_start B1 (negb (is_nil (edges_to E ua))) in
    (B2, set_nth m1 ua (Some r2))
  else (B1, m1).

(* nfa/reverse.go: findLoopStates — the test on the state `start` *)
Definition loops_to (st : nstate) (target : nat) : bool :=
  match st with
  | SByteRange _ _ nx => nx =? target
  | SSplit l r => (l =? target) || (r =? target)
  | SEpsilon nx => nx =? target
  | _ => false
  end.

(* nfa/reverse.go: findUnanchoredPrefixStates *)
Definition find_prefix (A : nfa) (ua : nat) : list nat :=
  match nth_error (states A) ua with
  | Some (SSplit _ rt) =>
      if rt =? ua then [ua]
      else match nth_error (states A) rt with
           | Some st => if loops_to st ua then [ua; rt] else [ua]
           | None => [ua]
           end
  | _ => [ua]
  end.

Definition memb (q : nat) (l : list nat) : bool := existsb (Nat.eqb q) l.

(* nfa/reverse.go: allocatePlaceholders *)
Fixpoint alloc_placeholders (qs : list nat) (E : list (nat * redge)) (skip : list nat)
         (B : bld) (m : rmap) : bld * rmap :=
  match qs with
  | [] => (B, m)
  | q :: t =>
      if memb q skip then alloc_placeholders t E skip B m
      else if mapped m q then alloc_placeholders t E skip B m
      else let '(B', r) := add B (placeholder (edges_to E q)) in
           alloc_placeholders t E skip B' (set_nth m q (Some r))
  end.

(* nfa/builder.go: Patch (errors are ignored by every caller in reverse.go) *)
Definition patch (B : bld) (id tgt : nat) : bld :=
  match nth_error B id with
  | Some (SByteRange lo hi _) => set_nth B id (SByteRange lo hi tgt)
  | Some (SEpsilon _) => set_nth B id (SEpsilon tgt)
  | Some (SCapture i s _) => set_nth B id (SCapture i s tgt)
  | Some (SLook k _) => set_nth B id (SLook k tgt)
  | _ => B
  end.

(* nfa/builder.go: PatchSplit *)
Definition patch_split (B : bld) (id l r : nat) : bld :=
  match nth_error B id with
  | Some (SSplit _ _) => set_nth B id (SSplit l r)
  | _ => B
  end.

(* nfa/reverse.go: updateByteRangeState *)
Definition upd_byte (B : bld) (id : nat) (lo hi : N) (nx : nat) : bld :=
  match nth_error B id with
  | Some (SByteRange _ _ _) | Some (SEpsilon _) => set_nth B id (SByteRange lo hi nx)
  | _ => B
  end.

(* nfa/reverse.go: updateSparseState *)
Definition upd_sparse (B : bld) (id : nat) (trs : list (N * N * nat)) : bld :=
  match nth_error B id with
  | Some (SSparse _) | Some (SByteRange _ _ _) | Some (SEpsilon _) => set_nth B id (SSparse trs)
  | _ => B
  end.

(* nfa/reverse.go: buildSplitChain — the innermost split is allocated first *)
Fixpoint build_chain (B : bld) (ts : list nat) : bld * nat :=
  match ts with
  | [] => add B SFail
  | t0 :: tl =>
      match tl with
      | [] => (B, t0)
      | _ => let '(B', r) := build_chain B tl in add B' (SSplit t0 r)
      end
  end.

(* the `if revTarget, ok := revStateMap[edge.from]; ok { append }` loops *)
Definition targets_of (m : rmap) (es : list redge) : list nat :=
  flat_map (fun e => match get m (e_from e) with Some r => [r] | None => [] end) es.

(* nfa/reverse.go: fillEpsilonState *)
Definition fill_eps (B : bld) (rid : nat) (es : list redge) (m : rmap) : bld :=
  match es with
  | [e] => patch B rid (lookup0 m (e_from e))
  | _ =>
      match targets_of m es with
      | [] => B
      | [t] => patch B rid t
      | t0 :: tl => let '(B', r) := build_chain B tl in patch_split B' rid t0 r
      end
  end.

(* the transitions built by fillSparseState: revStateMap[edge.from] without the ok test *)
Definition trans_of (m : rmap) (bs : list redge) : list (N * N * nat) :=
  map (fun e => match e with
                | EByte _ f lo hi => (lo, hi, lookup0 m f)
                | EEps f => (0%N, 0%N, lookup0 m f)     (* never: bs are byte edges *)
                end) bs.

(* nfa/reverse.go: fillSparseState *)
Definition fill_sparse (B : bld) (id : nat) (bs : list redge) (m : rmap) : bld :=
  upd_sparse B id (trans_of m bs).

(* nfa/reverse.go: fillMixedState *)
Definition fill_mixed (B : bld) (rid : nat) (bs es : list redge) (m : rmap) : bld :=
  let '(B1, sid) := add B (SSparse [(0%N, 0%N, invalid)]) in
  let B2 := fill_sparse B1 sid bs m in
  match targets_of m es with
  | [] => fill_sparse (upd_sparse B2 rid []) rid bs m
  | [t] => patch_split B2 rid sid t
  | ts => let '(B3, r) := build_chain B2 ts in patch_split B3 rid sid r
  end.

(* nfa/reverse.go: fillReverseState *)
Definition fill_state (B : bld) (rid : nat) (edges : list redge) (m : rmap) : bld :=
  if is_nil edges then B else
  let bs := filter e_is_byte edges in
  let es := filter e_is_eps edges in
  match bs with
  | [] => fill_eps B rid es m
  | b1 :: bt =>
      if is_nil bt && is_nil es then
        match b1 with
        | EByte _ f lo hi => upd_byte B rid lo hi (lookup0 m f)
        | EEps _ => B
        end
      else if negb (is_nil es) then fill_mixed B rid bs es m
      else fill_sparse B rid bs m
  end.

(* nfa/reverse.go: fillStartStateWithIncoming (current code) *)
Definition fill_start (B : bld) (proxy : nat) (edges : list redge) (m : rmap) : bld :=
  let kept := filter (fun e => mapped m (e_from e)) edges in
  if is_nil kept then B else
  let '(B1, lid) := add B (placeholder kept) in
  let B2 := fill_state B1 lid kept m in
  set_nth B2 proxy (SSplit lid 0).

(* FLAGGED VARIANT — fillStartStateWithIncoming as it was before commit 1f8e25e
   ("reverse NFA keeps byte edges into a looping start state"): every incoming edge of the
   start, byte edges included, becomes an epsilon alternative. *)
Definition fill_start_original (B : bld) (proxy : nat) (edges : list redge) (m : rmap) : bld :=
  match targets_of m edges with
  | [] => B
  | [t] => set_nth B proxy (SSplit t 0)
  | ts => let '(B1, c) := build_chain B ts in set_nth B1 proxy (SSplit c 0)
  end.

(* nfa/reverse.go: fillAllTransitions — the body of the loop for forward state q.
   orig = true selects the code before commit 1f8e25e (no proxy exception for the
   unanchored start, fill_start_original). *)
Definition fill_one (orig anchored : bool) (E : list (nat * redge)) (aa ua : nat)
           (skip : list nat) (m : rmap) (B : bld) (q : nat) : bld :=
  if memb q skip then B else
  let is_start := (q =? aa) || (negb anchored && (q =? ua)) in
  let es := edges_to E q in
  let has_in := negb (is_nil es) in
  if is_start && negb has_in then B else
  match get m q with
  | None => B
  | Some rid =>
      if negb orig && is_start && (q =? ua) && negb (ua =? aa) then B
      else if is_start && has_in then
             (if orig then fill_start_original B rid es m else fill_start B rid es m)
      else fill_state B rid es m
  end.

(* nfa/reverse.go: collectMatchStates *)
Definition match_ids (A : nfa) : list nat :=
  filter (fun q => match nth_error (states A) q with Some st => is_match_state st | None => false end)
         (seq 0 (nstates A)).

Definition targets_of_ids (m : rmap) (qs : list nat) : list nat :=
  flat_map (fun q => match get m q with Some r => [r] | None => [] end) qs.

(* nfa/reverse.go: buildReverseStarts *)
Definition build_starts (B : bld) (ms : list nat) (m : rmap) : bld * nat :=
  match ms with
  | [] => add B SFail
  | [q] => (B, lookup0 m q)
  | _ => build_chain B (targets_of_ids m ms)
  end.

(* nfa/reverse.go: reverseWithOptions (+ buildFinalNFA: capture count 0; Validate cannot
   fail: every target is an allocated id or InvalidState) *)
Definition reverse_gen (orig anchored : bool) (A : nfa) : nfa :=
  let E := all_edges A in
  let n := nstates A in
  let aa := start_anch A in
  let ua := start_unanch A in
  let '(B0, _) := add [] SMatch in
  let '(B1, m1) := map_starts B0 E aa ua anchored (repeat None n) in
  let skip := if anchored && negb (ua =? aa) then find_prefix A ua else [] in
  let '(B2, m2) := alloc_placeholders (seq 0 n) E skip B1 m1 in
  let B3 := fold_left (fill_one orig anchored E aa ua skip m2) (seq 0 n) B2 in
  let '(B4, s) := build_starts B3 (match_ids A) m2 in
  mkNfa B4 s s 0.

(* nfa.ReverseAnchored(A) = reverse_nfa true A, nfa.Reverse(A) = reverse_nfa false A *)
Definition reverse_nfa (anchored : bool) (A : nfa) : nfa := reverse_gen false anchored A.
Definition reverse_nfa_original (anchored : bool) (A : nfa) : nfa := reverse_gen true anchored A.

(* ================================================================== reversed reading *)
Section RSem.
  Variable R : nfa.
  Variable h : hay.

  (* all matching transitions of a Sparse state (nfa/pikevm.go: step; reverse automata
     have overlapping ranges) *)
  Definition sparse_all (trs : list (N * N * nat)) (b : N) : list nat :=
    flat_map (fun t => if in_range (fst (fst t)) (snd (fst t)) b then [snd t] else []) trs.

  (* successors of (st at position k): a byte state reads h[k-1] and moves to k-1 *)
  Definition rsuccs (st : nstate) (k : nat) : list (nat * nat) :=
    match st with
    | SMatch | SFail => []
    | SByteRange lo hi nx =>
        match k with
        | 0 => []
        | S k' => match nth_error h k' with
                  | Some b => if in_range lo hi b then [(nx, k')] else []
                  | None => []
                  end
        end
    | SSparse trs =>
        match k with
        | 0 => []
        | S k' => match nth_error h k' with
                  | Some b => map (fun nx => (nx, k')) (sparse_all trs b)
                  | None => []
                  end
        end
    | SSplit l r => [(l, k); (r, k)]
    | SEpsilon nx => [(nx, k)]
    | SCapture _ _ nx => [(nx, k)]
    | SLook lk nx => if look_ok lk h k then [(nx, k)] else []
    end.

  Definition rstep (c c' : nat * nat) : Prop :=
    exists st, nth_error (states R) (fst c) = Some st /\ In c' (rsuccs st (snd c)).

  Inductive rreach : nat * nat -> nat * nat -> Prop :=
  | rreach_refl c : rreach c c
  | rreach_step c c' c'' : rstep c c' -> rreach c' c'' -> rreach c c''.

  (* rpath x j i: reading h[j-1], h[j-2], ..., h[i] from state x reaches a Match state *)
  Definition rpath (x j i : nat) : Prop :=
    exists y, rreach (x, j) (y, i) /\ nth_error (states R) y = Some SMatch.

  Lemma rreach_trans c1 c2 c3 : rreach c1 c2 -> rreach c2 c3 -> rreach c1 c3.
  Proof. induction 1; intros; auto. econstructor; eauto. Qed.

  Lemma rreach_one c c' : rstep c c' -> rreach c c'.
  Proof. intros H. econstructor; [exact H|constructor]. Qed.

  Lemma rsuccs_pos st k c : In c (rsuccs st k) -> snd c <= k.
  Proof.
    destruct st; cbn [rsuccs]; intros H; try (now destruct H).
    - destruct k as [|k']; [now destruct H|]. destruct (nth_error h k'); [|now destruct H].
      destruct (in_range lo hi n); [|now destruct H]. destruct H as [H|[]]. subst c. cbn. lia.
    - destruct k as [|k']; [now destruct H|]. destruct (nth_error h k'); [|now destruct H].
      apply in_map_iff in H as [nx [<- _]]. cbn. lia.
    - destruct H as [H|[H|[]]]; subst c; cbn; lia.
    - destruct H as [H|[]]; subst c; cbn; lia.
    - destruct H as [H|[]]; subst c; cbn; lia.
    - destruct (look_ok lk h k); [|now destruct H]. destruct H as [H|[]]; subst c; cbn; lia.
  Qed.

  Lemma rreach_pos c c' : rreach c c' -> snd c' <= snd c.
  Proof.
    induction 1 as [c|c c1 c2 [st [_ Hin]] _ IH]; [lia|].
    apply rsuccs_pos in Hin. lia.
  Qed.
End RSem.

(* ================================================================== equality of automata *)
Definition look_eqb (a b : look) : bool :=
  match a, b with
  | LStartText, LStartText | LEndText, LEndText | LStartLine, LStartLine
  | LEndLine, LEndLine | LWordB, LWordB | LNoWordB, LNoWordB => true
  | _, _ => false
  end.

Fixpoint trs_eqb (a b : list (N * N * nat)) : bool :=
  match a, b with
  | [], [] => true
  | (l1, h1, n1) :: t1, (l2, h2, n2) :: t2 => (l1 =? l2)%N && (h1 =? h2)%N && (n1 =? n2) && trs_eqb t1 t2
  | _, _ => false
  end.

Definition nstate_eqb (a b : nstate) : bool :=
  match a, b with
  | SMatch, SMatch | SFail, SFail => true
  | SByteRange l1 h1 n1, SByteRange l2 h2 n2 => (l1 =? l2)%N && (h1 =? h2)%N && (n1 =? n2)
  | SSparse t1, SSparse t2 => trs_eqb t1 t2
  | SSplit l1 r1, SSplit l2 r2 => (l1 =? l2) && (r1 =? r2)
  | SEpsilon n1, SEpsilon n2 => n1 =? n2
  | SCapture i1 b1 n1, SCapture i2 b2 n2 => (i1 =? i2) && Bool.eqb b1 b2 && (n1 =? n2)
  | SLook k1 n1, SLook k2 n2 => look_eqb k1 k2 && (n1 =? n2)
  | _, _ => false
  end.

Fixpoint states_eqb (a b : list nstate) : bool :=
  match a, b with
  | [], [] => true
  | x :: t1, y :: t2 => nstate_eqb x y && states_eqb t1 t2
  | _, _ => false
  end.

Definition nfa_eqb (a b : nfa) : bool :=
  states_eqb (states a) (states b) && (start_anch a =? start_anch b) &&
  (start_unanch a =? start_unanch b) && (ncaps a =? ncaps b).

Lemma trs_eqb_eq a : forall b, trs_eqb a b = true -> a = b.
Proof.
  induction a as [|[[l1 h1] n1] t IH]; intros [|[[l2 h2] n2] t2] H; cbn [trs_eqb] in H; try discriminate; [reflexivity|].
  apply andb_prop in H as [H H4]. apply andb_prop in H as [H H3]. apply andb_prop in H as [H1 H2].
  apply N.eqb_eq in H1, H2. apply Nat.eqb_eq in H3. apply IH in H4. now subst.
Qed.

Lemma nstate_eqb_eq a b : nstate_eqb a b = true -> a = b.
Proof.
  destruct a, b; cbn [nstate_eqb]; intros H; try discriminate; try reflexivity.
  - apply andb_prop in H as [H H3]. apply andb_prop in H as [H1 H2].
    apply N.eqb_eq in H1, H2. apply Nat.eqb_eq in H3. now subst.
  - apply trs_eqb_eq in H. now subst.
  - apply andb_prop in H as [H1 H2]. apply Nat.eqb_eq in H1, H2. now subst.
  - apply Nat.eqb_eq in H. now subst.
  - apply andb_prop in H as [H H3]. apply andb_prop in H as [H1 H2].
    apply Nat.eqb_eq in H1, H3. apply Bool.eqb_prop in H2. now subst.
  - apply andb_prop in H as [H1 H2]. apply Nat.eqb_eq in H2. destruct lk, lk0; try discriminate; now subst.
Qed.

Lemma states_eqb_eq a : forall b, states_eqb a b = true -> a = b.
Proof.
  induction a as [|x t IH]; intros [|y t2] H; cbn [states_eqb] in H; try discriminate; [reflexivity|].
  apply andb_prop in H as [H1 H2]. apply nstate_eqb_eq in H1. apply IH in H2. now subst.
Qed.

Theorem nfa_eqb_eq a b : nfa_eqb a b = true -> a = b.
Proof.
  unfold nfa_eqb. intros H. apply andb_prop in H as [H H4]. apply andb_prop in H as [H H3].
  apply andb_prop in H as [H1 H2]. apply states_eqb_eq in H1. apply Nat.eqb_eq in H2, H3, H4.
  destruct a, b; cbn in *. now subst.
Qed.

(* ================================================================== hypotheses *)
(* no Look state: the construction turns assertions into epsilon edges *)
Definition no_look (A : nfa) : bool :=
  forallb (fun st => match st with SLook _ _ => false | _ => true end) (states A).

(* nfa/compile.go: CompileRegexp / compileUnanchoredPrefix — the shape of the unanchored
   prefix: either there is none (start_unanch = start_anch), or start_unanch is
   Split(start_anch, lp) with lp = ByteRange _ _ -> start_unanch, and no other edge of the
   automaton enters start_unanch or lp. *)
Definition prefix_shape (A : nfa) : bool :=
  let aa := start_anch A in
  let ua := start_unanch A in
  if ua =? aa then true else
  match nth_error (states A) ua with
  | Some (SSplit l lp) =>
      (l =? aa) && negb (lp =? aa) && negb (lp =? ua) &&
      match nth_error (states A) lp with
      | Some (SByteRange _ _ nx) =>
          (nx =? ua) &&
          forallb (fun x => let '(to, e) := x in
                            (negb (to =? ua) || (e_from e =? lp)) &&
                            (negb (to =? lp) || (e_from e =? ua))) (all_edges A)
      | _ => false
      end
  | _ => false
  end.

(* ================================================================== edges of the forward automaton *)
Lemma all_edges_from_spec sts : forall i to e,
  In (to, e) (all_edges_from i sts) <->
  exists j st, nth_error sts j = Some st /\ In (to, e) (edges_of_state (i + j) st).
Proof.
  induction sts as [|s t IH]; intros i to e; cbn [all_edges_from].
  - split; [intros []|]. intros [j [st [H _]]]. destruct j; discriminate.
  - rewrite in_app_iff, IH. split.
    + intros [H|[j [st [H1 H2]]]].
      * exists 0, s. rewrite Nat.add_0_r. split; [reflexivity|exact H].
      * exists (S j), st. split; [exact H1|]. now replace (i + S j) with (S i + j) by lia.
    + intros [[|j] [st [H1 H2]]].
      * left. cbn in H1. inversion H1; subst. now rewrite Nat.add_0_r in H2.
      * right. exists j, st. split; [exact H1|]. now replace (S i + j) with (i + S j) by lia.
Qed.

Lemma edges_of_state_from p st to e : In (to, e) (edges_of_state p st) -> e_from e = p.
Proof.
  destruct st; cbn [edges_of_state]; intros H; try (now destruct H).
  - destruct H as [H|[]]. now inversion H.
  - apply in_map_iff in H as [[[lo hi] nx] [H _]]. now inversion H.
  - destruct H as [H|[H|[]]]; now inversion H.
  - destruct H as [H|[]]. now inversion H.
  - destruct H as [H|[]]. now inversion H.
  - destruct H as [H|[]]. now inversion H.
Qed.

Lemma all_edges_spec A to e :
  In (to, e) (all_edges A) <->
  exists st, nth_error (states A) (e_from e) = Some st /\ In (to, e) (edges_of_state (e_from e) st).
Proof.
  unfold all_edges. rewrite all_edges_from_spec. cbn [Nat.add]. split.
  - intros [j [st [H1 H2]]]. pose proof (edges_of_state_from _ _ _ _ H2) as Hf. subst j. eauto.
  - intros [st [H1 H2]]. eauto.
Qed.

Lemma edges_to_in E q e : In e (edges_to E q) <-> In (q, e) E.
Proof.
  unfold edges_to. rewrite in_map_iff. split.
  - intros [[to e'] [<- H]]. apply filter_In in H as [H Hq]. cbn in Hq. apply Nat.eqb_eq in Hq. now subst.
  - intros H. exists (q, e). split; [reflexivity|]. apply filter_In. split; [exact H|]. cbn. apply Nat.eqb_refl.
Qed.

(* sorted disjoint ranges (wf_nfa): the first matching transition is the only one *)
Lemma sparse_ok_above n ph trs b lo hi nx :
  sparse_ok n (Some ph) trs = true -> In (lo, hi, nx) trs -> in_range lo hi b = true -> (ph < b)%N.
Proof.
  revert ph. induction trs as [|[[l1 h1] n1] t IH]; intros ph Hok Hin Hr; [now destruct Hin|].
  cbn [sparse_ok] in Hok. apply andb_prop in Hok as [Hok Ht]. apply andb_prop in Hok as [Hok Hp].
  apply andb_prop in Hok as [Hok _]. apply andb_prop in Hok as [Hlh _].
  destruct Hin as [Hin|Hin].
  - inversion Hin; subst. unfold in_range in Hr. lia.
  - specialize (IH h1 Ht Hin Hr). lia.
Qed.

Lemma sparse_next_of_in n prev trs b lo hi nx :
  sparse_ok n prev trs = true -> In (lo, hi, nx) trs -> in_range lo hi b = true ->
  sparse_next trs b = Some nx.
Proof.
  revert prev. induction trs as [|[[l1 h1] n1] t IH]; intros prev Hok Hin Hr; [now destruct Hin|].
  cbn [sparse_ok] in Hok. apply andb_prop in Hok as [Hok Ht]. cbn [sparse_next].
  destruct Hin as [Hin|Hin].
  - inversion Hin; subst. now rewrite Hr.
  - destruct (in_range l1 h1 b) eqn:E1.
    + pose proof (sparse_ok_above _ _ _ _ _ _ _ Ht Hin Hr). unfold in_range in E1. lia.
    + eapply IH; eauto.
Qed.

Lemma sparse_next_in trs b nx : sparse_next trs b = Some nx ->
  exists lo hi, In (lo, hi, nx) trs /\ in_range lo hi b = true.
Proof.
  induction trs as [|[[l1 h1] n1] t IH]; cbn [sparse_next]; intros H; [discriminate|].
  destruct (in_range l1 h1 b) eqn:E1.
  - inversion H; subst. exists l1, h1. split; [now left|exact E1].
  - destruct (IH H) as [lo [hi [H1 H2]]]. exists lo, hi. split; [now right|exact H2].
Qed.

Lemma wf_state_ok A q st : wf_nfa A = true -> nth_error (states A) q = Some st ->
  state_ok (nstates A) (ncaps A) st = true.
Proof.
  unfold wf_nfa. intros Hwf Hst. apply andb_prop in Hwf as [Hwf _]. apply andb_prop in Hwf as [Hall _].
  rewrite forallb_forall in Hall. apply Hall. eapply nth_error_In; eauto.
Qed.

Section FwdEdges.
  Variable A : nfa.
  Variable h : hay.
  Hypothesis Hwf : wf_nfa A = true.

  (* a forward step is an entry of the edge list *)
  Lemma edge_in_E p k q k' :
    edge A h (p, k) (q, k') ->
    (k' = k /\ In (q, EEps p) (all_edges A)) \/
    (exists sp lo hi b, k' = S k /\ nth_error h k = Some b /\ in_range lo hi b = true /\
                        In (q, EByte sp p lo hi) (all_edges A)).
  Proof.
    intros [st [sl [sl' [Hst Hin]]]]. cbn [fst snd] in *.
    destruct st; cbn [succs] in Hin; try (now destruct Hin).
    - destruct (nth_error h k) as [b|] eqn:Hb; [|now destruct Hin].
      destruct (in_range lo hi b) eqn:Hr; [|now destruct Hin]. destruct Hin as [Hin|[]]. inversion Hin; subst.
      right. exists false, lo, hi, b. repeat split; auto. apply all_edges_spec. cbn [e_from].
      exists (SByteRange lo hi q). split; [exact Hst|]. now left.
    - destruct (nth_error h k) as [b|] eqn:Hb; [|now destruct Hin].
      destruct (sparse_next trs b) as [nx|] eqn:Hn; [|now destruct Hin]. destruct Hin as [Hin|[]]. inversion Hin; subst.
      destruct (sparse_next_in _ _ _ Hn) as [lo [hi [H1 H2]]].
      right. exists true, lo, hi, b. repeat split; auto. apply all_edges_spec. cbn [e_from].
      exists (SSparse trs). split; [exact Hst|]. cbn [edges_of_state]. apply in_map_iff.
      exists (lo, hi, q). split; [reflexivity|exact H1].
    - left. split; [destruct Hin as [H|[H|[]]]; now inversion H|].
      apply all_edges_spec. cbn [e_from]. exists (SSplit l r). split; [exact Hst|].
      destruct Hin as [H|[H|[]]]; inversion H; subst; cbn; auto.
    - destruct Hin as [H|[]]. inversion H; subst. left. split; [reflexivity|].
      apply all_edges_spec. cbn [e_from]. exists (SEpsilon q). split; [exact Hst|]. now left.
    - destruct Hin as [H|[]]. inversion H; subst. left. split; [reflexivity|].
      apply all_edges_spec. cbn [e_from]. exists (SCapture idx is_start q). split; [exact Hst|]. now left.
    - destruct (look_ok lk h k); [|now destruct Hin]. destruct Hin as [H|[]]. inversion H; subst.
      left. split; [reflexivity|]. apply all_edges_spec. cbn [e_from]. exists (SLook lk q). split; [exact Hst|]. now left.
  Qed.

  Hypothesis Hnl : no_look A = true.

  (* an epsilon entry of the edge list is a forward step (no assertion to check) *)
  Lemma E_eps_edge p q k : In (q, EEps p) (all_edges A) -> edge A h (p, k) (q, k).
  Proof.
    intros H. apply all_edges_spec in H as [st [Hst Hin]]. cbn [e_from] in *.
    unfold edge. exists st, [], (match st with SCapture idx s _ => set_nth [] (slot_of idx s) (Z.of_nat k) | _ => [] end).
    split; [exact Hst|]. cbn [fst snd].
    destruct st; cbn [edges_of_state] in Hin.
    - destruct Hin.
    - destruct Hin as [H|[]]; discriminate.
    - apply in_map_iff in Hin as [[[lo hi] nx] [H _]]. discriminate.
    - cbn [succs]. destruct Hin as [H|[H|[]]]; inversion H; subst; [now left|right; now left].
    - destruct Hin as [H|[]]. inversion H; subst. now left.
    - destruct Hin as [H|[]]. inversion H; subst. cbn [succs]. now left.
    - exfalso. unfold no_look in Hnl. rewrite forallb_forall in Hnl.
      specialize (Hnl _ (nth_error_In _ _ Hst)). discriminate.
    - destruct Hin.
  Qed.

  Lemma E_byte_edge sp p q lo hi k b :
    In (q, EByte sp p lo hi) (all_edges A) -> nth_error h k = Some b -> in_range lo hi b = true ->
    edge A h (p, k) (q, S k).
  Proof.
    intros H Hb Hr. apply all_edges_spec in H as [st [Hst Hin]]. cbn [e_from] in *.
    unfold edge. exists st, [], []. split; [exact Hst|]. cbn [fst snd].
    destruct st; cbn [edges_of_state] in Hin.
    - destruct Hin.
    - destruct Hin as [H|[]]. inversion H; subst. cbn [succs]. rewrite Hb, Hr. now left.
    - apply in_map_iff in Hin as [[[l1 h1] nx] [H Hin]]. cbn [fst snd] in H. inversion H; subst.
      cbn [succs]. rewrite Hb.
      pose proof (wf_state_ok _ _ _ Hwf Hst) as Hok. cbn [state_ok] in Hok.
      rewrite (sparse_next_of_in _ _ _ _ _ _ _ Hok Hin Hr). now left.
    - destruct Hin as [H|[H|[]]]; discriminate.
    - destruct Hin as [H|[]]; discriminate.
    - destruct Hin as [H|[]]; discriminate.
    - destruct Hin as [H|[]]; discriminate.
    - destruct Hin.
  Qed.
End FwdEdges.

(* ================================================================== content-level edges of R *)
Definition eps_tgts (st : nstate) : list nat :=
  match st with
  | SEpsilon y => [y]
  | SSplit l r => [l; r]
  | _ => []
  end.

Definition byte_trs (st : nstate) : list (N * N * nat) :=
  match st with
  | SByteRange lo hi y => [(lo, hi, y)]
  | SSparse trs => trs
  | _ => []
  end.

(* reverse automata contain neither Capture nor Look states *)
Definition plain_state (st : nstate) : Prop :=
  match st with SCapture _ _ _ | SLook _ _ => False | _ => True end.

Inductive eps_reach (L : list nstate) : nat -> nat -> Prop :=
| er_refl x : eps_reach L x x
| er_step x y z st : nth_error L x = Some st -> In y (eps_tgts st) -> eps_reach L y z -> eps_reach L x z.

Lemma eps_reach_trans L x y z : eps_reach L x y -> eps_reach L y z -> eps_reach L x z.
Proof. induction 1; intros; auto. econstructor; eauto. Qed.

Lemma sparse_all_in trs b y :
  In y (sparse_all trs b) <-> exists lo hi, In (lo, hi, y) trs /\ in_range lo hi b = true.
Proof.
  unfold sparse_all. rewrite in_flat_map. split.
  - intros [[[lo hi] nx] [H1 H2]]. cbn [fst snd] in H2. destruct (in_range lo hi b) eqn:E; [|now destruct H2].
    destruct H2 as [H2|[]]. subst. eauto.
  - intros [lo [hi [H1 H2]]]. exists (lo, hi, y). split; [exact H1|]. cbn [fst snd]. rewrite H2. now left.
Qed.

Lemma rsuccs_spec h st k y k' : plain_state st ->
  (In (y, k') (rsuccs h st k) <->
   (k' = k /\ In y (eps_tgts st)) \/
   (exists lo hi b, k = S k' /\ nth_error h k' = Some b /\ in_range lo hi b = true /\ In (lo, hi, y) (byte_trs st))).
Proof.
  intros Hp. destruct st; cbn [rsuccs eps_tgts byte_trs]; try (now destruct Hp).
  - split; [intros []|]. intros [[_ []]|[lo [hi [b [_ [_ [_ []]]]]]]].
  - split.
    + destruct k as [|k0]; [intros []|]. destruct (nth_error h k0) as [b|] eqn:Hb; [|intros []].
      destruct (in_range lo hi b) eqn:Hr; [|intros []]. intros [H|[]]. inversion H; subst.
      right. exists lo, hi, b. repeat split; auto. now left.
    + intros [[_ []]|[l1 [h1 [b [-> [Hb [Hr [H|[]]]]]]]]]. inversion H; subst. rewrite Hb, Hr. now left.
  - split.
    + destruct k as [|k0]; [intros []|]. destruct (nth_error h k0) as [b|] eqn:Hb; [|intros []].
      intros H. apply in_map_iff in H as [nx [Heq Hin]]. inversion Heq; subst.
      apply sparse_all_in in Hin as [lo [hi [H1 H2]]]. right. exists lo, hi, b. repeat split; auto.
    + intros [[_ []]|[l1 [h1 [b [-> [Hb [Hr Hin]]]]]]]. rewrite Hb. apply in_map_iff. exists y. split; [reflexivity|].
      apply sparse_all_in. eauto.
  - split.
    + intros [H|[H|[]]]; inversion H; subst; left; (split; [reflexivity|]); cbn; auto.
    + intros [[-> [H|[H|[]]]]|[lo [hi [b [_ [_ [_ []]]]]]]]; subst; cbn; auto.
  - split.
    + intros [H|[]]; inversion H; subst. left. split; [reflexivity|now left].
    + intros [[-> [H|[]]]|[lo [hi [b [_ [_ [_ []]]]]]]]; subst. now left.
  - split; [intros []|]. intros [[_ []]|[lo [hi [b [_ [_ [_ []]]]]]]].
Qed.

Lemma eps_reach_rreach R h x y : eps_reach (states R) x y -> forall k, rreach R h (x, k) (y, k).
Proof.
  induction 1 as [x|x y z st Hst Hin _ IH]; intros k; [constructor|].
  econstructor; [|apply IH]. exists st. split; [exact Hst|]. cbn [fst snd].
  destruct st; cbn [eps_tgts] in Hin; try (now destruct Hin); cbn [rsuccs].
  - destruct Hin as [H|[H|[]]]; subst; cbn; auto.
  - destruct Hin as [H|[]]; subst. now left.
Qed.

(* a byte transition of R read backwards *)
Lemma byte_rstep R h x st lo hi y k b :
  nth_error (states R) x = Some st -> In (lo, hi, y) (byte_trs st) ->
  nth_error h k = Some b -> in_range lo hi b = true -> rstep R h (x, S k) (y, k).
Proof.
  intros Hst Hin Hb Hr. exists st. split; [exact Hst|]. cbn [fst snd].
  destruct st; cbn [byte_trs] in Hin; try (now destruct Hin).
  - destruct Hin as [H|[]]. inversion H; subst. cbn [rsuccs]. rewrite Hb, Hr. now left.
  - cbn [rsuccs]. rewrite Hb. apply in_map_iff. exists y. split; [reflexivity|]. apply sparse_all_in. eauto.
Qed.

(* ================================================================== the layout of a reversed automaton *)
(* What the proofs need to know about R = the reversal of A, at the level of state CONTENTS
   (no haystack): `own q x` — the reverse state x belongs to forward state q (x is its mapped
   state, its loop state, its Sparse state or a split of one of its chains); `ownF x` — x is
   the start of R or a split of the chain over the forward Match states. *)
Section Layout.
  Variable A : nfa.
  Variable anchored : bool.
  Variable R : nfa.
  Variable m : rmap.
  Variable own : nat -> nat -> Prop.
  Variable ownF : nat -> Prop.

  Let E := all_edges A.
  Let aa := start_anch A.
  Let ua := start_unanch A.

  (* the unanchored start of Reverse keeps its proxy: edges INTO it are not reversed *)
  Definition frozen (q : nat) : Prop := anchored = false /\ ua <> aa /\ q = ua.
  Definition is_st (q : nat) : Prop := q = aa \/ (anchored = false /\ q = ua).
  (* the states of the unanchored prefix (?s:.)*? *)
  Definition in_prefix (q : nat) : Prop :=
    ua <> aa /\ (q = ua \/ exists l lp, nth_error (states A) ua = Some (SSplit l lp) /\ q = lp).

  Definition eps_ok (q y : nat) : Prop :=
    own q y \/ (exists p, In (q, EEps p) E /\ ~ frozen q /\ get m p = Some y) \/ (y = 0 /\ is_st q).
  Definition byte_ok (q : nat) (lo hi : N) (y : nat) : Prop :=
    exists sp p, In (q, EByte sp p lo hi) E /\ ~ frozen q /\ get m p = Some y.
  Definition tgt_ok (q : nat) (st : nstate) : Prop :=
    plain_state st /\ (forall y, In y (eps_tgts st) -> eps_ok q y) /\
    (forall lo hi y, In (lo, hi, y) (byte_trs st) -> byte_ok q lo hi y).

  (* the route in R that reverses one forward edge into q *)
  Definition eroute (x : nat) (e : redge) : Prop :=
    match e with
    | EEps p => eps_reach (states R) x (lookup0 m p)
    | EByte _ p lo hi => exists z st, eps_reach (states R) x z /\ nth_error (states R) z = Some st /\
                                      In (lo, hi, lookup0 m p) (byte_trs st)
    end.

  Definition fin_ok (st : nstate) : Prop :=
    match st with SSplit l r => ownF l /\ ownF r | SFail => True | _ => False end.

  Record rev_layout : Prop := {
    rl_match0 : nth_error (states R) 0 = Some SMatch;
    rl_match_only : forall x, nth_error (states R) x = Some SMatch -> x = 0;
    rl_live : forall q, q < nstates A -> ~ in_prefix q -> mapped m q = true;
    rl_own_rid : forall q r, get m q = Some r -> own q r;
    rl_own0 : forall q, own q 0 -> is_st q;
    rl_sound : forall q x st, own q x -> nth_error (states R) x = Some st -> tgt_ok q st;
    rl_complete : forall q e, In (q, e) E -> mapped m q = true -> mapped m (e_from e) = true ->
                              ~ frozen q -> eroute (lookup0 m q) e;
    rl_start : forall q, is_st q -> mapped m q = true -> eps_reach (states R) (lookup0 m q) 0;
    rl_final_c : forall q, nth_error (states A) q = Some SMatch -> mapped m q = true ->
                           eps_reach (states R) (start_anch R) (lookup0 m q);
    rl_final_s : ownF (start_anch R);
    rl_final_step : forall x, ownF x ->
        (exists q, nth_error (states A) q = Some SMatch /\ own q x) \/
        (x <> 0 /\ forall st, nth_error (states R) x = Some st -> fin_ok st)
  }.

  Variable h : hay.
  Hypothesis Hwf : wf_nfa A = true.
  Hypothesis Hnl : no_look A = true.
  Hypothesis Hps : prefix_shape A = true.
  Hypothesis HL : rev_layout.

  (* forward reachability that never ENTERS a frozen state *)
  Inductive reachE : nat * nat -> nat * nat -> Prop :=
  | reachE_refl c : reachE c c
  | reachE_step c c' c'' : edge A h c c' -> ~ frozen (fst c') -> reachE c' c'' -> reachE c c''.

  Lemma reachE_snoc c c1 c2 : reachE c c1 -> edge A h c1 c2 -> ~ frozen (fst c2) -> reachE c c2.
  Proof.
    induction 1 as [c|c c' c'' He Hf _ IH]; intros He2 Hf2.
    - econstructor; [exact He2|exact Hf2|constructor].
    - econstructor; [exact He|exact Hf|]. now apply IH.
  Qed.

  Lemma reachE_reach c c' : reachE c c' -> reach A h c c'.
  Proof. induction 1; [constructor|econstructor; eauto]. Qed.

  Lemma rreach_from_match c c' : rreach R h c c' -> nth_error (states R) (fst c) = Some SMatch -> c' = c.
  Proof.
    intros [c0|c0 c1 c2 [st [Hst Hin]] _] Hm; [reflexivity|].
    rewrite Hm in Hst. inversion Hst; subst. destruct Hin.
  Qed.

  (* ---------------- soundness: a reverse path is a forward path read backwards *)
  Lemma own_sound c c' : rreach R h c c' -> forall q, own q (fst c) ->
    nth_error (states R) (fst c') = Some SMatch ->
    exists s, is_st s /\ reachE (s, snd c') (q, snd c).
  Proof.
    induction 1 as [c|c c1 c2 Hstep Hr IH]; intros q Hown Hm.
    - pose proof (rl_match_only HL _ Hm) as H0. rewrite H0 in Hown.
      exists q. split; [exact (rl_own0 HL _ Hown)|constructor].
    - destruct Hstep as [st [Hst Hin]]. destruct c as [x k], c1 as [y k']. cbn [fst snd] in *.
      destruct (rl_sound HL _ _ _ Hown Hst) as [Hpl [Heps Hbyte]].
      apply (rsuccs_spec h st k y k' Hpl) in Hin.
      destruct Hin as [[-> Hy]|[lo [hi [b [-> [Hb [Hrg Hy]]]]]]].
      + destruct (Heps _ Hy) as [Ho|[[p [HinE [Hnf Hg]]]|[-> Hs]]].
        * exact (IH q Ho Hm).
        * destruct (IH p (rl_own_rid HL _ _ Hg) Hm) as [s [Hs Hre]].
          exists s. split; [exact Hs|]. eapply reachE_snoc; [exact Hre| |exact Hnf].
          apply E_eps_edge; assumption.
        * pose proof (rreach_from_match _ _ Hr (rl_match0 HL)) as Heq. subst c2. cbn [snd].
          exists q. split; [exact Hs|constructor].
      + destruct (Hbyte _ _ _ Hy) as [sp [p [HinE [Hnf Hg]]]].
        destruct (IH p (rl_own_rid HL _ _ Hg) Hm) as [s [Hs Hre]].
        exists s. split; [exact Hs|]. eapply reachE_snoc; [exact Hre| |exact Hnf].
        eapply E_byte_edge; eauto.
  Qed.

  Lemma final_sound c c' : rreach R h c c' -> ownF (fst c) ->
    nth_error (states R) (fst c') = Some SMatch ->
    exists s q, is_st s /\ nth_error (states A) q = Some SMatch /\ reachE (s, snd c') (q, snd c).
  Proof.
    induction 1 as [c|c c1 c2 Hstep Hr IH]; intros HF Hm.
    - destruct (rl_final_step HL _ HF) as [[q [Hq Ho]]|[Hne Hfin]].
      + destruct (own_sound _ _ (rreach_refl R h c) q Ho Hm) as [s [Hs Hre]]. eauto.
      + exfalso. apply Hne. now apply (rl_match_only HL).
    - destruct (rl_final_step HL _ HF) as [[q [Hq Ho]]|[Hne Hfin]].
      + destruct (own_sound _ _ (rreach_step R h _ _ _ Hstep Hr) q Ho Hm) as [s [Hs Hre]]. eauto.
      + destruct Hstep as [st [Hst Hin]]. specialize (Hfin _ Hst).
        destruct st; cbn [fin_ok] in Hfin; try (now destruct Hfin); try (now destruct Hin).
        destruct Hfin as [Hl Hr']. destruct Hin as [Hin|[Hin|[]]]; subst c1; cbn [fst snd] in *.
        * apply (IH Hl Hm).
        * apply (IH Hr' Hm).
  Qed.

  (* ---------------- the unanchored prefix *)
  Lemma prefix_facts : ua <> aa ->
    exists lp lo hi, nth_error (states A) ua = Some (SSplit aa lp) /\
      nth_error (states A) lp = Some (SByteRange lo hi ua) /\ lp <> aa /\ lp <> ua /\
      forall to e, In (to, e) E -> (to = ua -> e_from e = lp) /\ (to = lp -> e_from e = ua).
  Proof.
    intros Hne. pose proof Hps as H. unfold prefix_shape in H. fold aa ua in H.
    destruct (Nat.eqb_spec ua aa) as [Heq|_]; [contradiction|].
    destruct (nth_error (states A) ua) as [[| | |l lp| | | |]|] eqn:Hua; try discriminate.
    apply andb_prop in H as [H H4]. apply andb_prop in H as [H H3]. apply andb_prop in H as [H1 H2].
    apply Nat.eqb_eq in H1. subst l.
    destruct (nth_error (states A) lp) as [[|lo hi nx| | | | | |]|] eqn:Hlp; try discriminate.
    apply andb_prop in H4 as [H4 H5]. apply Nat.eqb_eq in H4. subst nx.
    exists lp, lo, hi. split; [reflexivity|]. split; [exact Hlp|].
    split; [intros ->; now rewrite Nat.eqb_refl in H2|]. split; [intros ->; now rewrite Nat.eqb_refl in H3|].
    intros to e Hin. rewrite forallb_forall in H5. specialize (H5 _ Hin). cbn beta iota in H5.
    apply andb_prop in H5 as [Ha Hb]. split; intros ->; rewrite Nat.eqb_refl in *; cbn in *; now apply Nat.eqb_eq.
  Qed.

  Lemma edge_not_prefix c c' : edge A h c c' -> ~ in_prefix (fst c) -> ~ in_prefix (fst c').
  Proof.
    intros He Hn [Hne Hin]. destruct (prefix_facts Hne) as [lp [lo [hi [Hua [Hlp [_ [Hlu HE]]]]]]].
    destruct c as [p k], c' as [q k']. cbn [fst] in *.
    assert (HinE : exists e, In (q, e) E /\ e_from e = p).
    { destruct (edge_in_E A h p k q k' He) as [[_ H]|[sp [lo' [hi' [b [_ [_ [_ H]]]]]]]]; eexists; (split; [exact H|reflexivity]). }
    destruct HinE as [e [HinE Hfrom]]. destruct (HE _ _ HinE) as [H1 H2].
    apply Hn. split; [exact Hne|]. destruct Hin as [->|[l' [lp' [Hua' ->]]]].
    - right. exists aa, lp. split; [exact Hua|]. rewrite <- Hfrom. now apply H1.
    - rewrite Hua in Hua'. inversion Hua'; subst lp'. left. rewrite <- Hfrom. now apply H2.
  Qed.

  Lemma reach_not_prefix c c' : reach A h c c' -> ~ in_prefix (fst c) -> ~ in_prefix (fst c').
  Proof. induction 1 as [c|c c1 c2 He _ IH]; intros Hn; [exact Hn|]. apply IH. eapply edge_not_prefix; eauto. Qed.

  Lemma aa_not_prefix : ~ in_prefix aa.
  Proof.
    intros [Hne Hin]. destruct (prefix_facts Hne) as [lp [lo [hi [Hua [_ [Hla _]]]]]].
    destruct Hin as [H|[l' [lp' [Hua' H]]]]; [congruence|].
    rewrite Hua in Hua'. inversion Hua'; subst. contradiction.
  Qed.

  Lemma frozen_prefix q : frozen q -> in_prefix q.
  Proof. intros [_ [Hne ->]]. split; [exact Hne|now left]. Qed.

  Lemma reachE_of_reach c c' : reach A h c c' -> ~ in_prefix (fst c) -> reachE c c'.
  Proof.
    induction 1 as [c|c c1 c2 He _ IH]; intros Hn; [constructor|].
    pose proof (edge_not_prefix _ _ He Hn) as Hn1.
    econstructor; [exact He| |exact (IH Hn1)]. intros Hf. apply Hn1. now apply frozen_prefix.
  Qed.

  (* a frozen-free path from the unanchored start goes straight to the anchored start *)
  Lemma ua_start i q j : ua <> aa -> anchored = false -> reachE (ua, i) (q, j) ->
    nth_error (states A) q = Some SMatch -> reachE (aa, i) (q, j).
  Proof.
    intros Hne Hb Hre Hm. destruct (prefix_facts Hne) as [lp [lo [hi [Hua [Hlp [_ [Hlu _]]]]]]].
    inversion Hre as [c|c c1 c2 He Hf Hr1]; subst.
    - rewrite Hua in Hm. discriminate.
    - destruct He as [st [sl [sl' [Hst Hin]]]]. cbn [fst snd] in *. rewrite Hua in Hst. inversion Hst; subst st.
      cbn [succs] in Hin. destruct c1 as [q1 k1]. destruct Hin as [Hin|[Hin|[]]]; inversion Hin; subst; [exact Hr1|].
      inversion Hr1 as [c|c c1 c2 He2 Hf2 Hr2]; subst.
      + rewrite Hlp in Hm. discriminate.
      + exfalso. apply Hf2. destruct He2 as [st [sl2 [sl2' [Hst2 Hin2]]]]. cbn [fst snd] in *.
        rewrite Hlp in Hst2. inversion Hst2; subst st. cbn [succs] in Hin2.
        match type of Hin2 with context [nth_error h ?pp] => destruct (nth_error h pp) as [b|] end; [|now destruct Hin2].
        destruct (in_range lo hi b); [|now destruct Hin2].
        destruct Hin2 as [Hin2|[]]. destruct c1 as [q2 k2]. inversion Hin2; subst. cbn [fst].
        split; [exact Hb|]. split; [exact Hne|reflexivity].
  Qed.

  (* ---------------- soundness *)
  Theorem layout_sound i j : rpath R h (start_anch R) j i -> nfa_path A h aa i j.
  Proof.
    intros [y [Hr Hm]].
    destruct (final_sound _ _ Hr (rl_final_s HL) Hm) as [s [q [Hs [Hq Hre]]]]. cbn [fst snd] in Hre.
    assert (Hre' : reachE (aa, i) (q, j)).
    { destruct Hs as [->|[Hb ->]]; [exact Hre|].
      destruct (Nat.eq_dec ua aa) as [Heq|Hne]; [now rewrite Heq in Hre|].
      now apply ua_start. }
    exists q. split; [now apply reachE_reach|exact Hq].
  Qed.

  (* ---------------- completeness *)
  Lemma route_rreach x e q p k k' :
    eroute x e -> e_from e = p ->
    match e with
    | EEps _ => k' = k
    | EByte _ _ lo hi => exists b, k' = S k /\ nth_error h k = Some b /\ in_range lo hi b = true
    end ->
    q = lookup0 m p -> rreach R h (x, k') (q, k).
  Proof.
    intros Hro Hf Hlab ->. destruct e as [sp f lo hi|f]; cbn [eroute e_from] in *; subst f.
    - destruct Hro as [z [st [Her [Hst Hin]]]]. destruct Hlab as [b [-> [Hb Hr]]].
      eapply rreach_trans; [apply eps_reach_rreach; exact Her|].
      apply rreach_one. eapply byte_rstep; eauto.
    - subst k'. now apply eps_reach_rreach.
  Qed.

  Lemma complete_reach c c' : reach A h c c' -> fst c < nstates A -> ~ in_prefix (fst c) ->
    rreach R h (lookup0 m (fst c'), snd c') (lookup0 m (fst c), snd c).
  Proof.
    induction 1 as [c|c c1 c2 He _ IH]; intros Hlt Hn; [constructor|].
    pose proof (edge_not_prefix _ _ He Hn) as Hn1.
    assert (Hlt1 : fst c1 < nstates A).
    { destruct He as [st [sl [sl' [Hst Hin]]]]. eapply succs_target_ok; eauto. }
    eapply rreach_trans; [exact (IH Hlt1 Hn1)|].
    destruct c as [p k], c1 as [q k']. cbn [fst snd] in *.
    assert (Hnf : ~ frozen q) by (intros Hf; apply Hn1; now apply frozen_prefix).
    pose proof (rl_live HL _ Hlt Hn) as Hmp. pose proof (rl_live HL _ Hlt1 Hn1) as Hmq.
    destruct (edge_in_E A h p k q k' He) as [[-> HinE]|[sp [lo [hi [b [-> [Hb [Hr HinE]]]]]]]].
    - eapply route_rreach; [exact (rl_complete HL _ _ HinE Hmq Hmp Hnf)|reflexivity|reflexivity|reflexivity].
    - eapply route_rreach; [exact (rl_complete HL _ _ HinE Hmq Hmp Hnf)|reflexivity| |reflexivity].
      exists b. auto.
  Qed.

  Theorem layout_complete i j : nfa_path A h aa i j -> rpath R h (start_anch R) j i.
  Proof.
    intros [q [Hr Hm]]. unfold accepting in Hm. cbn [fst] in Hm.
    assert (Haa : aa < nstates A).
    { unfold wf_nfa in Hwf. apply andb_prop in Hwf as [H1 _]. apply andb_prop in H1 as [_ H1]. now apply Nat.ltb_lt. }
    pose proof (complete_reach _ _ Hr Haa aa_not_prefix) as Hrr. cbn [fst snd] in Hrr.
    assert (Hq : q < nstates A) by (apply nth_error_Some; unfold nstates; congruence).
    assert (Hnq : ~ in_prefix q).
    { exact (reach_not_prefix _ _ Hr aa_not_prefix). }
    exists 0. split; [|exact (rl_match0 HL)].
    eapply rreach_trans; [apply eps_reach_rreach; exact (rl_final_c HL _ Hm (rl_live HL _ Hq Hnq))|].
    eapply rreach_trans; [exact Hrr|].
    apply eps_reach_rreach. apply (rl_start HL); [now left|]. apply (rl_live HL _ Haa aa_not_prefix).
  Qed.
End Layout.

(* ================================================================== the construction, state by state *)
(* What buildSplitChain appends, and its root, for a builder of length `base`. *)
Fixpoint chain_pure (base : nat) (ts : list nat) : list nstate * nat :=
  match ts with
  | [] => ([SFail], base)
  | t0 :: tl =>
      match tl with
      | [] => ([], t0)
      | _ => let '(ex, r) := chain_pure base tl in (ex ++ [SSplit t0 r], base + length ex)
      end
  end.

Lemma build_chain_pure ts : forall B,
  build_chain B ts = (B ++ fst (chain_pure (length B) ts), snd (chain_pure (length B) ts)).
Proof.
  induction ts as [|t0 tl IH]; intros B; [reflexivity|].
  cbn [build_chain chain_pure]. destruct tl as [|t1 tl']; [cbn; now rewrite app_nil_r|].
  rewrite IH. destruct (chain_pure (length B) (t1 :: tl')) as [ex r]. cbn [fst snd]. unfold add.
  rewrite app_length, <- app_assoc. reflexivity.
Qed.

Definition at_range (L : list nstate) (base : nat) (l : list nstate) : Prop :=
  forall i st, nth_error l i = Some st -> nth_error L (base + i) = Some st.

Lemma at_range_app_l L base l1 l2 : at_range L base (l1 ++ l2) -> at_range L base l1.
Proof. intros H i st Hi. apply H. rewrite nth_error_app1; [exact Hi|]. apply nth_error_Some. congruence. Qed.

Lemma at_range_last L base l1 st : at_range L base (l1 ++ [st]) -> nth_error L (base + length l1) = Some st.
Proof. intros H. apply H. rewrite nth_error_app2 by lia. now rewrite Nat.sub_diag. Qed.

Lemma at_range_cons L base st l : at_range L base (st :: l) -> nth_error L base = Some st /\ at_range L (S base) l.
Proof.
  intros H. split; [rewrite <- (Nat.add_0_r base); now apply H|].
  intros i s Hi. replace (S base + i) with (base + S i) by lia. now apply H.
Qed.

(* every split of a chain over ts (two or more targets) points to targets or to earlier splits *)
Lemma chain_tgts base ts : ts <> [] ->
  let '(ex, r) := chain_pure base ts in
  (In r ts \/ (base <= r < base + length ex)) /\
  forall st, In st ex -> exists t0 r', st = SSplit t0 r' /\ In t0 ts /\ (In r' ts \/ base <= r' < base + length ex).
Proof.
  induction ts as [|t0 tl IH]; intros Hne; [contradiction|].
  cbn [chain_pure]. destruct tl as [|t1 tl'].
  - split; [left; now left|]. intros st [].
  - specialize (IH ltac:(discriminate)). destruct (chain_pure base (t1 :: tl')) as [ex r].
    destruct IH as [Hr Hex]. rewrite app_length. cbn [length]. split; [right; lia|].
    intros st Hin. apply in_app_iff in Hin as [Hin|[Hin|[]]].
    + destruct (Hex _ Hin) as [a [r' [-> [Ha Hr']]]]. exists a, r'. split; [reflexivity|]. split; [now right|].
      destruct Hr' as [Hr'|Hr']; [left; now right|right; lia].
    + subst st. exists t0, r. split; [reflexivity|]. split; [now left|].
      destruct Hr as [Hr|Hr]; [left; now right|right; lia].
Qed.

Lemma chain_route L base ts : ts <> [] ->
  at_range L base (fst (chain_pure base ts)) ->
  forall t, In t ts -> eps_reach L (snd (chain_pure base ts)) t.
Proof.
  induction ts as [|t0 tl IH]; intros Hne Hat t Hin; [contradiction|].
  cbn [chain_pure] in *. destruct tl as [|t1 tl'].
  - destruct Hin as [->|[]]. constructor.
  - destruct (chain_pure base (t1 :: tl')) as [ex r] eqn:Ec. cbn [fst snd] in *.
    pose proof (at_range_last _ _ _ _ Hat) as Hroot.
    destruct Hin as [->|Hin].
    + eapply er_step; [exact Hroot|cbn; now left|constructor].
    + eapply er_step; [exact Hroot|cbn; right; now left|].
      apply IH; [discriminate|eapply at_range_app_l; exact Hat|exact Hin].
Qed.

(* What fillReverseState writes into the placeholder (first component) and appends (second
   component) for a non-empty edge list whose sources are all mapped. *)
Definition fill_pure (base : nat) (es : list redge) (m : rmap) : nstate * list nstate :=
  let bs := filter e_is_byte es in
  let ep := filter e_is_eps es in
  let ts := map (fun e => lookup0 m (e_from e)) ep in
  match bs with
  | [] => match ts with
          | [] => (SFail, [])
          | [t] => (SEpsilon t, [])
          | t0 :: tl => let '(ex, r) := chain_pure base tl in (SSplit t0 r, ex)
          end
  | b1 :: bt =>
      if is_nil bt && is_nil ep then
        (match b1 with EByte _ f lo hi => SByteRange lo hi (lookup0 m f) | EEps _ => SFail end, [])
      else if negb (is_nil ep) then
        let '(ex, r) := chain_pure (S base) ts in (SSplit base r, SSparse (trans_of m bs) :: ex)
      else (SSparse (trans_of m bs), [])
  end.

Lemma in_ts m es f : In (EEps f) es -> In (lookup0 m f) (map (fun e => lookup0 m (e_from e)) (filter e_is_eps es)).
Proof. intros H. apply in_map_iff. exists (EEps f). split; [reflexivity|]. apply filter_In. split; [exact H|reflexivity]. Qed.

Lemma ts_in m es y : In y (map (fun e => lookup0 m (e_from e)) (filter e_is_eps es)) ->
  exists f, In (EEps f) es /\ y = lookup0 m f.
Proof.
  intros H. apply in_map_iff in H as [e [<- He]]. apply filter_In in He as [He Hk].
  destruct e; [discriminate|]. eauto.
Qed.

Lemma in_trans m es sp f lo hi : In (EByte sp f lo hi) es -> In (lo, hi, lookup0 m f) (trans_of m (filter e_is_byte es)).
Proof.
  intros H. unfold trans_of. apply in_map_iff. exists (EByte sp f lo hi). split; [reflexivity|].
  apply filter_In. split; [exact H|reflexivity].
Qed.

Lemma trans_in m es lo hi y : In (lo, hi, y) (trans_of m (filter e_is_byte es)) ->
  exists sp f, In (EByte sp f lo hi) es /\ y = lookup0 m f.
Proof.
  unfold trans_of. intros H. apply in_map_iff in H as [e [Heq He]]. apply filter_In in He as [He Hk].
  destruct e; [|discriminate]. inversion Heq; subst. eauto.
Qed.

Definition local_ok (base len : nat) (es : list redge) (m : rmap) (st : nstate) : Prop :=
  plain_state st /\
  (forall y, In y (eps_tgts st) -> (base <= y < base + len) \/ exists f, In (EEps f) es /\ y = lookup0 m f) /\
  (forall lo hi y, In (lo, hi, y) (byte_trs st) -> exists sp f, In (EByte sp f lo hi) es /\ y = lookup0 m f).

Lemma local_ok_split base len es m a b :
  ((base <= a < base + len) \/ exists f, In (EEps f) es /\ a = lookup0 m f) ->
  ((base <= b < base + len) \/ exists f, In (EEps f) es /\ b = lookup0 m f) ->
  local_ok base len es m (SSplit a b).
Proof.
  intros Ha Hb. split; [exact I|]. split.
  - intros y [<-|[<-|[]]]; assumption.
  - intros lo hi y [].
Qed.

Lemma local_ok_sparse base len es m :
  local_ok base len es m (SSparse (trans_of m (filter e_is_byte es))).
Proof.
  split; [exact I|]. split; [intros y []|]. intros lo hi y H. now apply trans_in.
Qed.

(* the states of a chain over (a sublist of) the epsilon targets *)
Lemma chain_local base0 len base es m ts :
  ts <> [] -> (forall t, In t ts -> exists f, In (EEps f) es /\ t = lookup0 m f) ->
  base0 <= base -> base + length (fst (chain_pure base ts)) <= base0 + len ->
  (forall st, In st (fst (chain_pure base ts)) -> local_ok base0 len es m st) /\
  ((base0 <= snd (chain_pure base ts) < base0 + len) \/
   exists f, In (EEps f) es /\ snd (chain_pure base ts) = lookup0 m f).
Proof.
  intros Hne Hts Hb Hl. pose proof (chain_tgts base ts Hne) as H.
  destruct (chain_pure base ts) as [ex r]. cbn [fst snd] in *. destruct H as [Hr Hex]. split.
  - intros st Hin. destruct (Hex _ Hin) as [t0 [r' [-> [Ht0 Hr']]]].
    apply local_ok_split; [right; now apply Hts|]. destruct Hr' as [Hr'|Hr']; [right; now apply Hts|left; lia].
  - destruct Hr as [Hr|Hr]; [right; now apply Hts|left; lia].
Qed.

Lemma filter_cons_in {T} (f : T -> bool) l x t : filter f l = x :: t -> In x l /\ f x = true.
Proof. intros H. apply filter_In. rewrite H. now left. Qed.

Lemma fill_pure_local base es m : es <> [] ->
  forall st, (st = fst (fill_pure base es m) \/ In st (snd (fill_pure base es m))) ->
  local_ok base (length (snd (fill_pure base es m))) es m st.
Proof.
  intros Hne. unfold fill_pure.
  set (ts := map (fun e => lookup0 m (e_from e)) (filter e_is_eps es)).
  assert (Hts : forall t, In t ts -> exists f, In (EEps f) es /\ t = lookup0 m f) by (intros t; apply ts_in).
  destruct (filter e_is_byte es) as [|b1 bt] eqn:Ebs.
  - destruct ts as [|t0 [|t1 tl]] eqn:Ets.
    + cbn [fst snd]. intros st [->|[]]. split; [exact I|]. split; [intros y []|intros lo hi y []].
    + cbn [fst snd]. intros st [->|[]]. split; [exact I|]. split; [|intros lo hi y []].
      intros y [<-|[]]. right. apply Hts. now left.
    + assert (Hts' : forall t, In t (t1 :: tl) -> exists f, In (EEps f) es /\ t = lookup0 m f)
        by (intros t Ht; apply Hts; now right).
      pose proof (chain_local base (length (fst (chain_pure base (t1 :: tl)))) base es m (t1 :: tl)
                    ltac:(discriminate) Hts' (le_n _) (le_n _)) as [Hex Hr].
      destruct (chain_pure base (t1 :: tl)) as [ex r]. cbn [fst snd] in *.
      intros st [->|Hin]; [|now apply Hex].
      apply local_ok_split; [right; apply Hts; now left|exact Hr].
  - destruct (is_nil bt && is_nil (filter e_is_eps es)) eqn:E1.
    + cbn [fst snd]. intros st [->|[]]. destruct (filter_cons_in _ _ _ _ Ebs) as [Hin Hk].
      destruct b1 as [sp f lo hi|f]; [|discriminate]. split; [exact I|]. split; [intros y []|].
      intros l1 h1 y [H|[]]. inversion H; subst. eauto.
    + destruct (is_nil (filter e_is_eps es)) eqn:E2; cbn [negb].
      * cbn [fst snd]. intros st [->|[]]. rewrite <- Ebs. apply local_ok_sparse.
      * assert (Hne2 : ts <> []).
        { unfold ts. destruct (filter e_is_eps es); [discriminate|]. discriminate. }
        pose proof (chain_local base (S (length (fst (chain_pure (S base) ts)))) (S base) es m ts
                      Hne2 Hts ltac:(lia) ltac:(lia)) as [Hex Hr].
        destruct (chain_pure (S base) ts) as [ex r]. cbn [fst snd length] in *.
        intros st [->|[<-|Hin]].
        -- apply local_ok_split; [left; lia|exact Hr].
        -- rewrite <- Ebs. apply local_ok_sparse.
        -- now apply Hex.
Qed.

Definition route_in (L : list nstate) (m : rmap) (x : nat) (e : redge) : Prop :=
  match e with
  | EEps f => eps_reach L x (lookup0 m f)
  | EByte _ f lo hi => exists z st, eps_reach L x z /\ nth_error L z = Some st /\
                                    In (lo, hi, lookup0 m f) (byte_trs st)
  end.

Lemma fill_pure_routes L rid base es m :
  nth_error L rid = Some (fst (fill_pure base es m)) ->
  at_range L base (snd (fill_pure base es m)) ->
  forall e, In e es -> route_in L m rid e.
Proof.
  unfold fill_pure.
  set (ts := map (fun e => lookup0 m (e_from e)) (filter e_is_eps es)).
  intros Hrid Hat e Hin.
  assert (Heps : forall f, e = EEps f -> In (lookup0 m f) ts) by (intros f ->; now apply in_ts).
  assert (Hbyte : forall sp f lo hi, e = EByte sp f lo hi -> In e (filter e_is_byte es))
    by (intros sp f lo hi ->; apply filter_In; split; [exact Hin|reflexivity]).
  destruct (filter e_is_byte es) as [|b1 bt] eqn:Ebs.
  - destruct e as [sp f lo hi|f]; [now destruct (Hbyte _ _ _ _ eq_refl)|]. specialize (Heps f eq_refl). cbn [route_in].
    destruct ts as [|t0 [|t1 tl]] eqn:Ets; [now destruct Heps| |].
    + cbn [fst snd] in *. destruct Heps as [<-|[]]. eapply er_step; [exact Hrid|now left|constructor].
    + pose proof (chain_route L base (t1 :: tl) ltac:(discriminate)) as Hcr.
      destruct (chain_pure base (t1 :: tl)) as [ex r]. cbn [fst snd] in *.
      destruct Heps as [<-|Heps].
      * eapply er_step; [exact Hrid|now left|constructor].
      * eapply er_step; [exact Hrid|right; now left|]. now apply Hcr.
  - destruct (is_nil bt && is_nil (filter e_is_eps es)) eqn:E1.
    + apply andb_prop in E1 as [Ebt Eep]. destruct bt; [|discriminate].
      destruct (filter e_is_eps es) eqn:Eep'; [|discriminate]. cbn [fst snd] in *.
      destruct e as [sp f lo hi|f]; [|now destruct (Heps f eq_refl)].
      destruct (Hbyte _ _ _ _ eq_refl) as [->|[]]. cbn [route_in].
      exists rid, (SByteRange lo hi (lookup0 m f)). split; [constructor|]. split; [exact Hrid|now left].
    + destruct (is_nil (filter e_is_eps es)) eqn:E2; cbn [negb] in *.
      * cbn [fst snd] in *. destruct e as [sp f lo hi|f].
        -- cbn [route_in]. eexists rid, _. split; [constructor|]. split; [exact Hrid|].
           cbn [byte_trs]. rewrite <- Ebs. eapply in_trans; eauto.
        -- specialize (Heps f eq_refl). unfold ts in Heps. destruct (filter e_is_eps es); [now destruct Heps|discriminate].
      * assert (Hne2 : ts <> []).
        { unfold ts. destruct (filter e_is_eps es); [discriminate|]. discriminate. }
        pose proof (chain_route L (S base) ts Hne2) as Hcr.
        destruct (chain_pure (S base) ts) as [ex r]. cbn [fst snd] in *.
        apply at_range_cons in Hat as [Hsp Hat].
        destruct e as [sp f lo hi|f]; cbn [route_in].
        -- eexists base, _. split; [eapply er_step; [exact Hrid|now left|constructor]|]. split; [exact Hsp|].
           cbn [byte_trs]. rewrite <- Ebs. eapply in_trans; eauto.
        -- eapply er_step; [exact Hrid|right; now left|]. apply Hcr; [exact Hat|now apply Heps].
Qed.

Lemma chain_nomatch base ts : ts <> [] -> forall st, In st (fst (chain_pure base ts)) -> st <> SMatch.
Proof.
  intros Hne st Hin. pose proof (chain_tgts base ts Hne) as H. destruct (chain_pure base ts) as [ex r].
  destruct H as [_ H]. destruct (H _ Hin) as [t0 [r' [-> _]]]. discriminate.
Qed.

Lemma fill_pure_nomatch base es m st :
  (st = fst (fill_pure base es m) \/ In st (snd (fill_pure base es m))) -> st <> SMatch.
Proof.
  unfold fill_pure.
  set (ts := map (fun e => lookup0 m (e_from e)) (filter e_is_eps es)).
  destruct (filter e_is_byte es) as [|b1 bt].
  - destruct ts as [|t0 [|t1 tl]]; cbn [fst snd]; try (intros [->|[]]; discriminate).
    pose proof (chain_nomatch base (t1 :: tl) ltac:(discriminate)) as Hc.
    destruct (chain_pure base (t1 :: tl)) as [ex r]. cbn [fst snd] in *. intros [->|Hin]; [discriminate|now apply Hc].
  - destruct (is_nil bt && is_nil (filter e_is_eps es)).
    + cbn [fst snd]. intros [->|[]]. destruct b1; discriminate.
    + destruct (is_nil (filter e_is_eps es)) eqn:E2; cbn [negb].
      * cbn [fst snd]. intros [->|[]]. discriminate.
      * assert (Hne : ts <> []) by (unfold ts; destruct (filter e_is_eps es); discriminate).
        pose proof (chain_nomatch (S base) ts Hne) as Hc.
        destruct (chain_pure (S base) ts) as [ex r]. cbn [fst snd] in *.
        intros [->|[<-|Hin]]; [discriminate|discriminate|now apply Hc].
Qed.

(* ================================================================== the Builder operations = the pure description *)
Lemma set_nth_len {T} (l : list T) i v : length (set_nth l i v) = length l.
Proof. revert i. induction l as [|x l IH]; intros [|i]; cbn; auto. Qed.

Lemma set_nth_app {T} (B X : list T) i v : i < length B -> set_nth (B ++ X) i v = set_nth B i v ++ X.
Proof.
  revert i. induction B as [|x B IH]; intros i Hi; [cbn in Hi; lia|].
  destruct i; cbn; [reflexivity|]. f_equal. apply IH. cbn in Hi. lia.
Qed.

Lemma set_nth_last {T} (B : list T) a v : set_nth (B ++ [a]) (length B) v = B ++ [v].
Proof. induction B as [|x B IH]; [reflexivity|]. cbn [app length set_nth]. now rewrite IH. Qed.

Lemma nth_set_nth_same {T} (l : list T) i v : i < length l -> nth_error (set_nth l i v) i = Some v.
Proof.
  revert i. induction l as [|x l IH]; intros i Hi; [cbn in Hi; lia|].
  destruct i; cbn; [reflexivity|]. apply IH. cbn in Hi. lia.
Qed.

Lemma nth_set_nth_other {T} (l : list T) i j v : i <> j -> nth_error (set_nth l i v) j = nth_error l j.
Proof.
  revert i j. induction l as [|x l IH]; intros i j Hne; [now destruct i|].
  destruct i, j; cbn; try reflexivity; try lia. apply IH. lia.
Qed.

Lemma targets_of_mapped m es : (forall e, In e es -> mapped m (e_from e) = true) ->
  targets_of m es = map (fun e => lookup0 m (e_from e)) es.
Proof.
  induction es as [|e t IH]; intros H; [reflexivity|]. cbn [targets_of flat_map map].
  fold (targets_of m t). rewrite IH by (intros; apply H; now right).
  specialize (H e (or_introl eq_refl)). unfold mapped, lookup0 in *. destruct (get m (e_from e)); [reflexivity|discriminate].
Qed.

Lemma filter_all_mapped (f : redge -> bool) m es : (forall e, In e es -> mapped m (e_from e) = true) ->
  forall e, In e (filter f es) -> mapped m (e_from e) = true.
Proof. intros H e He. apply filter_In in He as [He _]. now apply H. Qed.

Lemma filter_partition_nil es : filter e_is_byte es = [] -> filter e_is_eps es = [] -> es = [].
Proof.
  destruct es as [|e t]; [reflexivity|]. cbn [filter]. unfold e_is_eps. destruct (e_is_byte e); cbn; discriminate.
Qed.

Lemma fill_state_pure B rid es m :
  es <> [] -> (forall e, In e es -> mapped m (e_from e) = true) ->
  rid < length B -> nth_error B rid = Some (placeholder es) ->
  fill_state B rid es m =
  set_nth B rid (fst (fill_pure (length B) es m)) ++ snd (fill_pure (length B) es m).
Proof.
  intros Hne Hmap Hlt Hph. unfold fill_state, fill_pure.
  assert (Hnil : is_nil es = false) by (destruct es; [contradiction|reflexivity]). rewrite Hnil.
  unfold placeholder in Hph. rewrite Hnil in Hph. unfold count_bytes, count_eps in Hph.
  pose proof (targets_of_mapped m _ (filter_all_mapped e_is_eps m es Hmap)) as Hts.
  pose proof (filter_partition_nil es) as Hpart.
  destruct (filter e_is_byte es) as [|b1 bt] eqn:Ebs.
  - unfold fill_eps. rewrite Hts.
    destruct (filter e_is_eps es) as [|e1 [|e2 et]] eqn:Eep.
    + exfalso. now apply Hne, Hpart.
    + cbn [map fst snd]. cbn in Hph. unfold patch. rewrite Hph. now rewrite app_nil_r.
    + cbn [map]. set (t0 := lookup0 m (e_from e1)). set (tl := lookup0 m (e_from e2) :: map _ et).
      rewrite build_chain_pure. destruct (chain_pure (length B) tl) as [ex r]. cbn [fst snd].
      cbn in Hph. unfold patch_split. rewrite nth_error_app1 by exact Hlt. rewrite Hph.
      now apply set_nth_app.
  - destruct (is_nil bt && is_nil (filter e_is_eps es)) eqn:E1.
    + apply andb_prop in E1 as [Ebt Eep]. destruct bt; [|discriminate].
      destruct (filter e_is_eps es); [|discriminate]. cbn in Hph. cbn [fst snd]. rewrite app_nil_r.
      destruct b1 as [sp f lo hi|f]; [|exfalso; destruct (filter_cons_in _ _ _ _ Ebs); discriminate].
      unfold upd_byte. now rewrite Hph.
    + destruct (is_nil (filter e_is_eps es)) eqn:E2; cbn [negb].
      * destruct (filter e_is_eps es); [|discriminate]. destruct bt as [|b2 bt']; [discriminate|].
        cbn in Hph. cbn [fst snd]. rewrite app_nil_r. unfold fill_sparse, upd_sparse. now rewrite Hph.
      * unfold fill_mixed. cbn [add]. rewrite Hts.
        destruct (filter e_is_eps es) as [|e1 et] eqn:Eep; [discriminate|].
        assert (Hph' : nth_error B rid = Some (SSplit invalid invalid)).
        { rewrite Hph. cbn [length]. destruct (length bt); reflexivity. }
        set (ts := map (fun e => lookup0 m (e_from e)) (e1 :: et)).
        set (trs := trans_of m (b1 :: bt)).
        assert (Hfs : fill_sparse (B ++ [SSparse [(0%N, 0%N, invalid)]]) (length B) (b1 :: bt) m = B ++ [SSparse trs]).
        { unfold fill_sparse, upd_sparse. rewrite nth_error_app2 by lia. rewrite Nat.sub_diag. cbn [nth_error].
          clear. induction B as [|x B IH]; [reflexivity|]. cbn. now f_equal. }
        rewrite Hfs.
        assert (Hgen : (let '(B3, r) := build_chain (B ++ [SSparse trs]) ts in patch_split B3 rid (length B) r) =
                       set_nth B rid (fst (let '(ex, r) := chain_pure (S (length B)) ts in (SSplit (length B) r, SSparse trs :: ex))) ++
                       snd (let '(ex, r) := chain_pure (S (length B)) ts in (SSplit (length B) r, SSparse trs :: ex))).
        { rewrite build_chain_pure. rewrite app_length. cbn [length]. rewrite Nat.add_1_r.
          destruct (chain_pure (S (length B)) ts) as [ex r]. cbn [fst snd].
          unfold patch_split. rewrite <- app_assoc. rewrite nth_error_app1 by exact Hlt. rewrite Hph'.
          cbn [app]. now apply set_nth_app. }
        destruct ts as [|t0 [|t1 tl]] eqn:Ets; [discriminate| |exact Hgen].
        cbn [chain_pure fst snd]. unfold patch_split. rewrite nth_error_app1 by exact Hlt. rewrite Hph'.
        now apply set_nth_app.
Qed.

(* ================================================================== pass 1: the state map *)
Lemma get_set_same (m : rmap) q r : q < length m -> get (set_nth m q (Some r)) q = Some r.
Proof. intros H. unfold get. now rewrite nth_set_nth_same. Qed.

Lemma get_set_other (m : rmap) q q' r : q <> q' -> get (set_nth m q (Some r)) q' = get m q'.
Proof. intros H. unfold get. now rewrite nth_set_nth_other. Qed.

Lemma get_lt (m : rmap) q r : get m q = Some r -> q < length m.
Proof. unfold get. intros H. apply nth_error_Some. destruct (nth_error m q); [discriminate|discriminate]. Qed.

Section Build.
  Variable A : nfa.
  Variable anchored : bool.
  Let E := all_edges A.
  Let n := nstates A.
  Let aa := start_anch A.
  Let ua := start_unanch A.

  Definition is_stb (q : nat) : bool := (q =? aa) || (negb anchored && (q =? ua)).
  Definition rv_skip : list nat := if anchored && negb (ua =? aa) then find_prefix A ua else [].
  Definition rv_pass1 : bld * rmap :=
    let '(B1, m1) := map_starts [SMatch] E aa ua anchored (repeat None n) in
    alloc_placeholders (seq 0 n) E rv_skip B1 m1.
  Definition rv_B2 : bld := fst rv_pass1.
  Definition rv_m : rmap := snd rv_pass1.
  Definition rv_Bq (q : nat) : bld :=
    fold_left (fill_one false anchored E aa ua rv_skip rv_m) (seq 0 q) rv_B2.

  Lemma reverse_nfa_unfold :
    reverse_nfa anchored A =
    let '(B4, s) := build_starts (rv_Bq n) (match_ids A) rv_m in mkNfa B4 s s 0.
  Proof.
    unfold reverse_nfa, reverse_gen, rv_Bq, rv_B2, rv_m, rv_pass1, rv_skip. cbn [add app length].
    fold E n aa ua.
    destruct (map_starts [SMatch] E aa ua anchored (repeat None n)) as [B1 m1].
    destruct (alloc_placeholders (seq 0 n) E (if anchored && negb (ua =? aa) then find_prefix A ua else []) B1 m1) as [B2 m2].
    reflexivity.
  Qed.

  Record inv1 (B : bld) (m : rmap) : Prop := {
    i1_match : nth_error B 0 = Some SMatch;
    i1_lt : forall q r, get m q = Some r -> r < length B;
    i1_content : forall q r, get m q = Some r -> r <> 0 ->
        nth_error B r = Some (if is_stb q then SEpsilon 0 else placeholder (edges_to E q));
    i1_zero : forall q, get m q = Some 0 -> is_stb q = true /\ edges_to E q = [];
    i1_start_in : forall q r, get m q = Some r -> is_stb q = true -> r <> 0 -> edges_to E q <> [];
    i1_inj : forall q q' r, get m q = Some r -> get m q' = Some r -> r <> 0 -> q = q';
    i1_nomatch : forall x st, nth_error B x = Some st -> x <> 0 -> st <> SMatch;
    i1_len : length m = n
  }.

  Lemma placeholder_not_match es : placeholder es <> SMatch.
  Proof.
    unfold placeholder. destruct (is_nil es); [discriminate|].
    repeat match goal with |- context [if ?c then _ else _] => destruct c end; discriminate.
  Qed.

  Lemma get_repeat_none q : get (repeat None n) q = None.
  Proof.
    unfold get. destruct (nth_error (repeat None n) q) as [o|] eqn:Hq; [|reflexivity].
    apply nth_error_In, repeat_spec in Hq. now subst.
  Qed.

  Lemma inv1_base : inv1 [SMatch] (repeat None n).
  Proof.
    constructor; try (intros q r H; now rewrite get_repeat_none in H); try (intros q H; now rewrite get_repeat_none in H).
    - reflexivity.
    - intros q q' r H. now rewrite get_repeat_none in H.
    - intros [|x] st H Hx; [lia|]. destruct x; discriminate.
    - apply repeat_length.
  Qed.

  (* a fresh state is appended for q *)
  Lemma inv1_add B m q st : inv1 B m -> get m q = None -> q < n ->
    st = (if is_stb q then SEpsilon 0 else placeholder (edges_to E q)) ->
    (is_stb q = true -> edges_to E q <> []) ->
    inv1 (B ++ [st]) (set_nth m q (Some (length B))).
  Proof.
    intros I Hq Hlt Hst Hin.
    assert (Hpos : 0 < length B) by (apply nth_error_Some; rewrite (i1_match _ _ I); discriminate).
    assert (Hlm : q < length m) by (rewrite (i1_len _ _ I); exact Hlt).
    assert (Hg : forall q' r, get (set_nth m q (Some (length B))) q' = Some r ->
                   (q' = q /\ r = length B) \/ (q' <> q /\ get m q' = Some r)).
    { intros q' r H. destruct (Nat.eq_dec q q') as [<-|Hne].
      - rewrite get_set_same in H by exact Hlm. inversion H. now left.
      - rewrite get_set_other in H by exact Hne. right. split; [congruence|exact H]. }
    constructor.
    - rewrite nth_error_app1 by exact Hpos. apply (i1_match _ _ I).
    - intros q' r H. rewrite app_length. cbn. destruct (Hg _ _ H) as [[-> ->]|[_ H']]; [lia|].
      pose proof (i1_lt _ _ I _ _ H'). lia.
    - intros q' r H Hr. destruct (Hg _ _ H) as [[-> ->]|[_ H']].
      + rewrite nth_error_app2 by lia. rewrite Nat.sub_diag. cbn. now rewrite Hst.
      + rewrite nth_error_app1 by (apply (i1_lt _ _ I _ _ H')). now apply (i1_content _ _ I).
    - intros q' H. destruct (Hg _ _ H) as [[-> Hr]|[_ H']]; [lia|]. now apply (i1_zero _ _ I).
    - intros q' r H Hs Hr. destruct (Hg _ _ H) as [[-> ->]|[_ H']]; [now apply Hin|]. now apply (i1_start_in _ _ I _ _ H').
    - intros q1 q2 r H1 H2 Hr. destruct (Hg _ _ H1) as [[-> ->]|[_ H1']]; destruct (Hg _ _ H2) as [[-> Hr2]|[_ H2']]; try reflexivity.
      + pose proof (i1_lt _ _ I _ _ H2'). lia.
      + pose proof (i1_lt _ _ I _ _ H1'). lia.
      + now apply (i1_inj _ _ I _ _ _ H1' H2').
    - intros x s H Hx. destruct (Nat.lt_ge_cases x (length B)) as [Hl|Hl].
      + rewrite nth_error_app1 in H by exact Hl. now apply (i1_nomatch _ _ I _ _ H).
      + rewrite nth_error_app2 in H by exact Hl. destruct (x - length B) as [|d]; [|destruct d; discriminate].
        cbn in H. inversion H; subst s. rewrite Hst. destruct (is_stb q); [discriminate|apply placeholder_not_match].
    - rewrite set_nth_len. apply (i1_len _ _ I).
  Qed.

  (* a start state without incoming edges is mapped to the Match state itself *)
  Lemma inv1_zero B m q : inv1 B m -> get m q = None -> q < n -> is_stb q = true -> edges_to E q = [] ->
    inv1 B (set_nth m q (Some 0)).
  Proof.
    intros I Hq Hlt Hs Hnil.
    assert (Hpos : 0 < length B) by (apply nth_error_Some; rewrite (i1_match _ _ I); discriminate).
    assert (Hlm : q < length m) by (rewrite (i1_len _ _ I); exact Hlt).
    assert (Hg : forall q' r, get (set_nth m q (Some 0)) q' = Some r ->
                   (q' = q /\ r = 0) \/ (q' <> q /\ get m q' = Some r)).
    { intros q' r H. destruct (Nat.eq_dec q q') as [<-|Hne].
      - rewrite get_set_same in H by exact Hlm. inversion H. now left.
      - rewrite get_set_other in H by exact Hne. right. split; [congruence|exact H]. }
    constructor.
    - apply (i1_match _ _ I).
    - intros q' r H. destruct (Hg _ _ H) as [[-> ->]|[_ H']]; [lia|]. now apply (i1_lt _ _ I _ _ H').
    - intros q' r H Hr. destruct (Hg _ _ H) as [[-> ->]|[_ H']]; [lia|]. now apply (i1_content _ _ I).
    - intros q' H. destruct (Hg _ _ H) as [[-> _]|[_ H']]; [now split|]. now apply (i1_zero _ _ I).
    - intros q' r H Hs' Hr. destruct (Hg _ _ H) as [[-> ->]|[_ H']]; [lia|]. now apply (i1_start_in _ _ I _ _ H').
    - intros q1 q2 r H1 H2 Hr. destruct (Hg _ _ H1) as [[-> ->]|[_ H1']]; [lia|].
      destruct (Hg _ _ H2) as [[-> ->]|[_ H2']]; [lia|]. now apply (i1_inj _ _ I _ _ _ H1' H2').
    - apply (i1_nomatch _ _ I).
    - rewrite set_nth_len. apply (i1_len _ _ I).
  Qed.

  Hypothesis Haa : aa < n.
  Hypothesis Hua : ua < n.

  Lemma mapped_set_same (m : rmap) q r : q < length m -> mapped (set_nth m q (Some r)) q = true.
  Proof. intros H. unfold mapped. now rewrite get_set_same. Qed.

  Lemma mapped_set_other (m : rmap) q q' r : q <> q' -> mapped (set_nth m q (Some r)) q' = mapped m q'.
  Proof. intros H. unfold mapped. now rewrite get_set_other. Qed.

  Lemma mapped_none (m : rmap) q : mapped m q = false -> get m q = None.
  Proof. unfold mapped. destruct (get m q); [discriminate|reflexivity]. Qed.

  Lemma is_nil_false {T} (l : list T) : is_nil l = false -> l <> [].
  Proof. destruct l; [discriminate|discriminate]. Qed.
  Lemma is_nil_true {T} (l : list T) : is_nil l = true -> l = [].
  Proof. destruct l; [reflexivity|discriminate]. Qed.

  (* one mapSingleStartState for an unmapped start state q *)
  Lemma inv1_single B m q : inv1 B m -> get m q = None -> q < n -> is_stb q = true ->
    let '(B', r) := map_single_start B (negb (is_nil (edges_to E q))) in
    inv1 B' (set_nth m q (Some r)).
  Proof.
    intros I Hq Hlt Hs. unfold map_single_start. destruct (is_nil (edges_to E q)) eqn:En; cbn [negb add].
    - apply inv1_zero; auto. now apply is_nil_true.
    - apply inv1_add; auto; [now rewrite Hs|]. intros _. now apply is_nil_false.
  Qed.

  Lemma inv1_map_starts :
    let '(B1, m1) := map_starts [SMatch] E aa ua anchored (repeat None n) in
    inv1 B1 m1 /\ (forall q, q < n -> is_stb q = true -> mapped m1 q = true).
  Proof.
    unfold map_starts.
    assert (Hsa : is_stb aa = true) by (unfold is_stb; now rewrite Nat.eqb_refl).
    pose proof (inv1_single _ _ aa inv1_base (get_repeat_none aa) Haa Hsa) as I1.
    destruct (map_single_start [SMatch] (negb (is_nil (edges_to E aa)))) as [B1 r1].
    assert (Hl1 : aa < length (repeat (@None nat) n)) by (rewrite repeat_length; exact Haa).
    destruct (negb anchored && negb (ua =? aa)) eqn:Hb.
    - apply andb_prop in Hb as [Hanch Hne]. apply negb_true_iff in Hne. apply Nat.eqb_neq in Hne.
      assert (Hsu : is_stb ua = true) by (unfold is_stb; rewrite Hanch, Nat.eqb_refl; cbn; apply orb_true_r).
      assert (Hgu : get (set_nth (repeat None n) aa (Some r1)) ua = None).
      { rewrite get_set_other by congruence. apply get_repeat_none. }
      pose proof (inv1_single _ _ ua I1 Hgu Hua Hsu) as I2.
      destruct (map_single_start B1 (negb (is_nil (edges_to E ua)))) as [B2 r2].
      split; [exact I2|]. intros q Hq Hs. unfold is_stb in Hs.
      assert (Hl2 : ua < length (set_nth (repeat (@None nat) n) aa (Some r1))) by (rewrite set_nth_len, repeat_length; exact Hua).
      destruct (Nat.eq_dec ua q) as [<-|Hq']; [now apply mapped_set_same|].
      rewrite mapped_set_other by exact Hq'.
      apply orb_prop in Hs as [Hs|Hs]; [apply Nat.eqb_eq in Hs; subst q; now apply mapped_set_same|].
      apply andb_prop in Hs as [_ Hs]. apply Nat.eqb_eq in Hs. congruence.
    - split; [exact I1|]. intros q Hq Hs. unfold is_stb in Hs.
      apply orb_prop in Hs as [Hs|Hs]; [apply Nat.eqb_eq in Hs; subst q; now apply mapped_set_same|].
      apply andb_prop in Hs as [Ha Hs]. apply Nat.eqb_eq in Hs. subst q. rewrite Ha in Hb. cbn in Hb.
      apply negb_false_iff, Nat.eqb_eq in Hb. rewrite Hb. now apply mapped_set_same.
  Qed.

  Lemma alloc_inv skip : forall qs B m,
    inv1 B m -> (forall q, In q qs -> q < n) -> (forall q, q < n -> is_stb q = true -> mapped m q = true) ->
    let '(B', m') := alloc_placeholders qs E skip B m in
    inv1 B' m' /\ (forall q, mapped m q = true -> mapped m' q = true) /\
    (forall q, In q qs -> memb q skip = false -> mapped m' q = true) /\
    (forall q, mapped m' q = true -> mapped m q = true \/ memb q skip = false).
  Proof.
    induction qs as [|q t IH]; intros B m I Hqs Hst; cbn [alloc_placeholders].
    - split; [exact I|]. split; [auto|]. split; [intros q []|auto].
    - assert (Ht : forall q', In q' t -> q' < n) by (intros; apply Hqs; now right).
      destruct (memb q skip) eqn:Hsk.
      + specialize (IH B m I Ht Hst). destruct (alloc_placeholders t E skip B m) as [B' m'].
        destruct IH as [I' [H1 [H2 H3]]]. split; [exact I'|]. split; [exact H1|]. split; [|exact H3].
        intros q' [<-|Hin] Hq'; [congruence|now apply H2].
      + destruct (mapped m q) eqn:Hmq.
        * specialize (IH B m I Ht Hst). destruct (alloc_placeholders t E skip B m) as [B' m'].
          destruct IH as [I' [H1 [H2 H3]]]. split; [exact I'|]. split; [exact H1|]. split; [|exact H3].
          intros q' [<-|Hin] Hq'; [now apply H1|now apply H2].
        * cbn [add].
          assert (Hqn : q < n) by (apply Hqs; now left).
          assert (Hns : is_stb q = false).
          { destruct (is_stb q) eqn:Hs; [|reflexivity]. rewrite (Hst q Hqn Hs) in Hmq. discriminate. }
          assert (Hlm : q < length m) by (rewrite (i1_len _ _ I); exact Hqn).
          assert (I2 : inv1 (B ++ [placeholder (edges_to E q)]) (set_nth m q (Some (length B)))).
          { apply inv1_add; auto; [now apply mapped_none|now rewrite Hns|]. intros Hs. congruence. }
          assert (Hmono : forall q', mapped m q' = true -> mapped (set_nth m q (Some (length B))) q' = true).
          { intros q' Hq'. destruct (Nat.eq_dec q q') as [<-|Hne]; [now apply mapped_set_same|].
            now rewrite mapped_set_other. }
          specialize (IH _ _ I2 Ht (fun q' Hq' Hs => Hmono q' (Hst q' Hq' Hs))).
          destruct (alloc_placeholders t E skip (B ++ [placeholder (edges_to E q)]) (set_nth m q (Some (length B)))) as [B' m'].
          destruct IH as [I' [H1 [H2 H3]]]. split; [exact I'|]. split; [intros q' Hq'; now apply H1, Hmono|].
          split.
          -- intros q' [<-|Hin] Hq'; [apply H1; now apply mapped_set_same|now apply H2].
          -- intros q' Hq'. destruct (H3 _ Hq') as [H|H]; [|now right].
             destruct (Nat.eq_dec q q') as [<-|Hne]; [now right|]. rewrite mapped_set_other in H by exact Hne. now left.
  Qed.

  Lemma pass1_facts :
    inv1 rv_B2 rv_m /\
    (forall q, q < n -> is_stb q = true -> mapped rv_m q = true) /\
    (forall q, q < n -> memb q rv_skip = false -> mapped rv_m q = true) /\
    (forall q, mapped rv_m q = true -> is_stb q = true \/ memb q rv_skip = false).
  Proof.
    unfold rv_B2, rv_m, rv_pass1. pose proof inv1_map_starts as H0.
    destruct (map_starts [SMatch] E aa ua anchored (repeat None n)) as [B1 m1] eqn:Ems. destruct H0 as [I1 Hst].
    assert (Hqs : forall q, In q (seq 0 n) -> q < n) by (intros q Hq; apply in_seq in Hq; lia).
    pose proof (alloc_inv rv_skip (seq 0 n) B1 m1 I1 Hqs Hst) as H.
    destruct (alloc_placeholders (seq 0 n) E rv_skip B1 m1) as [B2 m2]. cbn [fst snd].
    destruct H as [I2 [H1 [H2 H3]]]. split; [exact I2|]. split; [intros q Hq Hs; now apply H1, Hst|].
    split; [intros q Hq Hs; apply H2; [apply in_seq; lia|exact Hs]|].
    intros q Hq. destruct (H3 _ Hq) as [H|H]; [|now right]. left.
    (* mapped by map_starts: only start states *)
    revert Ems H. unfold map_starts, map_single_start. clear.
    assert (Hnone : forall r x q0, mapped (set_nth (repeat None n) x (Some r)) q0 = true -> q0 = x).
    { intros r x q0 H. destruct (Nat.eq_dec x q0) as [->|Hne]; [reflexivity|].
      rewrite mapped_set_other in H by exact Hne. unfold mapped in H. now rewrite get_repeat_none in H. }
    destruct (negb (is_nil (edges_to E aa))); cbn [add];
    destruct (negb anchored && negb (ua =? aa)) eqn:Hb;
    try destruct (negb (is_nil (edges_to E ua))); cbn [add]; intros Ems H; inversion Ems; subst m1; clear Ems;
    unfold is_stb;
    try (apply Hnone in H; subst q; now rewrite Nat.eqb_refl);
    (destruct (Nat.eq_dec ua q) as [<-|Hne];
     [apply andb_prop in Hb as [-> _]; rewrite Nat.eqb_refl; cbn; apply orb_true_r
     |rewrite mapped_set_other in H by exact Hne; apply Hnone in H; subst q; now rewrite Nat.eqb_refl]).
  Qed.

  (* ================================================================ pass 2 *)
  Hypothesis Hwf : wf_nfa A = true.
  Hypothesis Hps : prefix_shape A = true.

  Lemma skip_shape : rv_skip = [] \/
    (anchored = true /\ ua <> aa /\ exists lp lo hi, rv_skip = [ua; lp] /\
       nth_error (states A) ua = Some (SSplit aa lp) /\ nth_error (states A) lp = Some (SByteRange lo hi ua) /\
       lp <> aa).
  Proof.
    unfold rv_skip. destruct anchored; [|now left]. cbn [andb].
    destruct (Nat.eqb_spec ua aa) as [Heq|Hne]; [now left|]. right. split; [reflexivity|]. split; [exact Hne|].
    destruct (prefix_facts A Hps Hne) as [lp [lo [hi [H1 [H2 [H3 [H4 _]]]]]]].
    exists lp, lo, hi. split; [|auto]. unfold find_prefix. fold ua. change (nth_error (states A) ua = Some (SSplit aa lp)) in H1. rewrite H1.
    destruct (Nat.eqb_spec lp ua) as [Heq|_]; [contradiction|]. change (nth_error (states A) lp = Some (SByteRange lo hi ua)) in H2. rewrite H2. cbn [loops_to]. now rewrite Nat.eqb_refl.
  Qed.

  Lemma start_not_skipped q : is_stb q = true -> memb q rv_skip = false.
  Proof.
    intros Hs. destruct skip_shape as [->|[Ha [Hne [lp [lo [hi [-> [_ [_ Hla]]]]]]]]]; [reflexivity|].
    unfold is_stb in Hs. rewrite Ha in Hs. cbn in Hs. rewrite orb_false_r in Hs. apply Nat.eqb_eq in Hs. subst q.
    cbn. destruct (Nat.eqb_spec aa ua); [congruence|]. destruct (Nat.eqb_spec aa lp); [congruence|reflexivity].
  Qed.

  Lemma edge_src_lt q e : In (q, e) E -> e_from e < n.
  Proof. intros H. apply all_edges_spec in H as [st [Hst _]]. apply nth_error_Some. unfold nstates. congruence. Qed.

  (* a state that is neither a start nor skipped has only mapped sources *)
  Lemma sources_mapped q e : In (q, e) E -> memb q rv_skip = false -> is_stb q = false ->
    mapped rv_m (e_from e) = true.
  Proof.
    intros Hin Hsk Hns. destruct pass1_facts as [_ [_ [Hlive _]]].
    destruct (memb (e_from e) rv_skip) eqn:Hsrc; [|apply Hlive; [now apply edge_src_lt with q|exact Hsrc]].
    exfalso. destruct skip_shape as [Hnil|[Ha [Hne [lp [lo [hi [Hskip [Hsu [Hsl Hla]]]]]]]]]; [rewrite Hnil in Hsrc; discriminate|].
    rewrite Hskip in Hsrc, Hsk. cbn in Hsrc, Hsk. rewrite !orb_false_r in *.
    apply all_edges_spec in Hin as [st [Hst Hine]].
    apply orb_false_elim in Hsk as [Hqu Hql]. apply Nat.eqb_neq in Hqu, Hql.
    apply orb_prop in Hsrc as [Hsrc|Hsrc]; apply Nat.eqb_eq in Hsrc; rewrite Hsrc in Hst.
    - rewrite Hsu in Hst. inversion Hst; subst st. cbn in Hine. destruct Hine as [H|[H|[]]]; inversion H; subst.
      + unfold is_stb in Hns. now rewrite Nat.eqb_refl in Hns.
      + congruence.
    - rewrite Hsl in Hst. inversion Hst; subst st. cbn in Hine. destruct Hine as [H|[]]. inversion H; subst. congruence.
  Qed.

  (* what fillAllTransitions does for forward state q on a builder of length `base`:
     None — nothing; Some (st', ex) — the mapped state becomes st' and ex is appended *)
  Definition q_desc (q base : nat) : option (nstate * list nstate) :=
    if memb q rv_skip then None else
    let es := edges_to E q in
    if is_stb q && is_nil es then None else
    match get rv_m q with
    | None => None
    | Some _ =>
        if is_stb q && (q =? ua) && negb (ua =? aa) then None
        else if is_stb q then
          let kept := filter (fun e => mapped rv_m (e_from e)) es in
          if is_nil kept then None
          else Some (SSplit base 0, fst (fill_pure (S base) kept rv_m) :: snd (fill_pure (S base) kept rv_m))
        else if is_nil es then None else Some (fill_pure base es rv_m)
    end.

  Definition step (B : bld) (q : nat) : bld :=
    match q_desc q (length B) with
    | None => B
    | Some (st', ex) => set_nth B (lookup0 rv_m q) st' ++ ex
    end.

  Lemma fill_one_desc B q :
    (forall r, get rv_m q = Some r -> r <> 0 ->
       r < length B /\ nth_error B r = Some (if is_stb q then SEpsilon 0 else placeholder (edges_to E q))) ->
    (get rv_m q = Some 0 -> is_stb q = true /\ edges_to E q = []) ->
    fill_one false anchored E aa ua rv_skip rv_m B q = step B q.
  Proof.
    intros Hr H0. unfold fill_one, step, q_desc. fold (is_stb q).
    destruct (memb q rv_skip) eqn:Hsk; [reflexivity|].
    destruct (is_nil (edges_to E q)) eqn:Hnil; cbn [negb].
    - rewrite andb_false_r, andb_true_r. destruct (is_stb q) eqn:Hs; [reflexivity|].
      destruct (get rv_m q) as [r|]; [|reflexivity]. cbn [andb negb].
      unfold fill_state. now rewrite Hnil.
    - rewrite andb_true_r, andb_false_r. destruct (get rv_m q) as [r|] eqn:Hg; [|reflexivity].
      assert (Hr0 : r <> 0).
      { intros ->. destruct (H0 eq_refl) as [_ He]. rewrite He in Hnil. discriminate. }
      destruct (Hr r eq_refl Hr0) as [Hlt Hc]. unfold lookup0. rewrite Hg.
      cbn [negb andb]. destruct (is_stb q) eqn:Hs; cbn [andb].
      + destruct ((q =? ua) && negb (ua =? aa)); [reflexivity|].
        unfold fill_start. destruct (is_nil (filter (fun e => mapped rv_m (e_from e)) (edges_to E q))) eqn:Hk; [reflexivity|].
        set (kept := filter (fun e => mapped rv_m (e_from e)) (edges_to E q)) in *. cbn [add].
        rewrite fill_state_pure.
        * rewrite app_length. cbn [length]. rewrite Nat.add_1_r.
          rewrite set_nth_last, <- app_assoc. cbn [app]. now apply set_nth_app.
        * now apply is_nil_false.
        * intros e He. unfold kept in He. apply filter_In in He. tauto.
        * rewrite app_length. cbn. lia.
        * rewrite nth_error_app2 by lia. now rewrite Nat.sub_diag.
      + destruct (fill_pure (length B) (edges_to E q) rv_m) as [st' ex] eqn:Efp.
        replace st' with (fst (fill_pure (length B) (edges_to E q) rv_m)) by now rewrite Efp.
        replace ex with (snd (fill_pure (length B) (edges_to E q) rv_m)) by now rewrite Efp.
        apply fill_state_pure; [now apply is_nil_false| |exact Hlt|exact Hc].
        intros e He. apply edges_to_in in He. now apply sources_mapped with q.
  Qed.

  Lemma step_pres B q :
    length B <= length (step B q) /\
    forall x, x < length B -> (x <> lookup0 rv_m q \/ q_desc q (length B) = None) ->
              nth_error (step B q) x = nth_error B x.
  Proof.
    unfold step. destruct (q_desc q (length B)) as [[st' ex]|]; [|split; [lia|reflexivity]].
    split; [rewrite app_length, set_nth_len; lia|]. intros x Hx [Hne|Hd]; [|discriminate].
    rewrite nth_error_app1 by (rewrite set_nth_len; exact Hx). apply nth_set_nth_other. congruence.
  Qed.

  Lemma step_new B q st' ex : q_desc q (length B) = Some (st', ex) -> lookup0 rv_m q < length B ->
    nth_error (step B q) (lookup0 rv_m q) = Some st' /\ at_range (step B q) (length B) ex /\
    length (step B q) = length B + length ex.
  Proof.
    intros Hd Hlt. unfold step. rewrite Hd. split; [|split].
    - rewrite nth_error_app1 by (rewrite set_nth_len; exact Hlt). now apply nth_set_nth_same.
    - intros i st Hi. rewrite nth_error_app2 by (rewrite set_nth_len; lia). rewrite set_nth_len.
      now replace (length B + i - length B) with i by lia.
    - now rewrite app_length, set_nth_len.
  Qed.

  Lemma Bq_S k : rv_Bq (S k) = fill_one false anchored E aa ua rv_skip rv_m (rv_Bq k) k.
  Proof. unfold rv_Bq. rewrite seq_S, fold_left_app. reflexivity. Qed.

  Lemma lookup0_get q r : lookup0 rv_m q = r -> r <> 0 -> get rv_m q = Some r.
  Proof. unfold lookup0. destruct (get rv_m q); intros; subst; [reflexivity|contradiction]. Qed.

  Lemma Bq_inv k :
    length rv_B2 <= length (rv_Bq k) /\
    (forall q r, k <= q -> get rv_m q = Some r -> r <> 0 -> nth_error (rv_Bq k) r = nth_error rv_B2 r) /\
    rv_Bq (S k) = step (rv_Bq k) k.
  Proof.
    destruct pass1_facts as [I _].
    assert (Hstep : forall k, length rv_B2 <= length (rv_Bq k) ->
              (forall q r, k <= q -> get rv_m q = Some r -> r <> 0 -> nth_error (rv_Bq k) r = nth_error rv_B2 r) ->
              rv_Bq (S k) = step (rv_Bq k) k).
    { intros k0 Hl Hc. rewrite Bq_S. apply fill_one_desc.
      - intros r Hg Hr. pose proof (i1_lt _ _ I _ _ Hg). split; [lia|].
        rewrite (Hc k0 r (le_n _) Hg Hr). now apply (i1_content _ _ I).
      - intros Hg. now apply (i1_zero _ _ I). }
    induction k as [|k [IH1 [IH2 IH3]]].
    - assert (H0 : rv_Bq 0 = rv_B2) by reflexivity. rewrite H0 at 1 2.
      split; [lia|]. split; [intros; now rewrite H0|]. apply Hstep; [rewrite H0; lia|intros; now rewrite H0].
    - destruct (step_pres (rv_Bq k) k) as [Hlen Hpres]. rewrite <- IH3 in Hlen, Hpres.
      assert (H2 : forall q r, S k <= q -> get rv_m q = Some r -> r <> 0 -> nth_error (rv_Bq (S k)) r = nth_error rv_B2 r).
      { intros q r Hq Hg Hr. rewrite <- (IH2 q r ltac:(lia) Hg Hr). apply Hpres.
        - pose proof (i1_lt _ _ I _ _ Hg). lia.
        - left. intros Heq. symmetry in Heq. apply lookup0_get in Heq; [|exact Hr].
          pose proof (i1_inj _ _ I _ _ _ Hg Heq Hr). lia. }
      split; [lia|]. split; [exact H2|]. apply Hstep; [lia|exact H2].
  Qed.

  Lemma Bq_mono k k' : k <= k' -> length (rv_Bq k) <= length (rv_Bq k').
  Proof.
    induction 1 as [|k' _ IH]; [lia|]. destruct (Bq_inv k') as [_ [_ HS]]. rewrite HS.
    destruct (step_pres (rv_Bq k') k') as [Hl _]. lia.
  Qed.

  Lemma Bq_later k k' x : k <= k' -> x < length (rv_Bq k) ->
    (forall q', k <= q' < k' -> lookup0 rv_m q' <> x \/ q_desc q' (length (rv_Bq q')) = None) ->
    nth_error (rv_Bq k') x = nth_error (rv_Bq k) x.
  Proof.
    induction 1 as [|k' Hle IH]; intros Hx Hq; [reflexivity|].
    destruct (Bq_inv k') as [_ [_ HS]]. rewrite HS.
    destruct (step_pres (rv_Bq k') k') as [_ Hp]. rewrite Hp.
    - apply IH; [exact Hx|]. intros q' Hq'. apply Hq. lia.
    - pose proof (Bq_mono k k' Hle). lia.
    - destruct (Hq k' ltac:(lia)) as [Hne|Hd]; [left; congruence|now right].
  Qed.

  (* later states never touch what forward state q owns *)
  Lemma later_ok q x : (x = lookup0 rv_m q /\ x <> 0) \/ length rv_B2 <= x ->
    forall q', S q <= q' -> lookup0 rv_m q' <> x \/ q_desc q' (length (rv_Bq q')) = None.
  Proof.
    destruct pass1_facts as [I _]. intros Hx q' Hq'. left. intros Heq. destruct Hx as [[Hx H0]|Hx].
    - subst x. apply lookup0_get in Heq; [|exact H0]. pose proof (lookup0_get q _ eq_refl H0) as Hg.
      pose proof (i1_inj _ _ I _ _ _ Hg Heq H0). lia.
    - destruct (Nat.eq_dec x 0) as [->|H0].
      + assert (0 < length rv_B2) by (apply nth_error_Some; rewrite (i1_match _ _ I); discriminate). lia.
      + apply lookup0_get in Heq; [|exact H0]. pose proof (i1_lt _ _ I _ _ Heq). lia.
  Qed.

  Lemma final_some q st' ex : q < n -> q_desc q (length (rv_Bq q)) = Some (st', ex) ->
    lookup0 rv_m q <> 0 /\
    nth_error (rv_Bq n) (lookup0 rv_m q) = Some st' /\ at_range (rv_Bq n) (length (rv_Bq q)) ex /\
    length (rv_Bq (S q)) = length (rv_Bq q) + length ex.
  Proof.
    intros Hq Hd. destruct pass1_facts as [I _].
    assert (Hg : exists r, get rv_m q = Some r /\ r <> 0).
    { unfold q_desc in Hd. destruct (memb q rv_skip); [discriminate|].
      destruct (is_stb q && is_nil (edges_to E q)) eqn:Hc; [discriminate|].
      destruct (get rv_m q) as [r|] eqn:Hg; [|discriminate]. exists r. split; [reflexivity|].
      intros ->. destruct (i1_zero _ _ I _ Hg) as [Hs He]. rewrite Hs, He in Hc. discriminate. }
    destruct Hg as [r [Hg Hr]]. assert (Hl : lookup0 rv_m q = r) by (unfold lookup0; now rewrite Hg).
    assert (Hlt : lookup0 rv_m q < length (rv_Bq q)).
    { rewrite Hl. pose proof (i1_lt _ _ I _ _ Hg) as Hlt0. destruct (Bq_inv q) as [Hb2 _]. lia. }
    destruct (step_new _ _ _ _ Hd Hlt) as [H1 [H2 H3]]. destruct (Bq_inv q) as [HB2 [_ HS]]. rewrite <- HS in H1, H2, H3.
    split; [now rewrite Hl|]. split; [|split; [|exact H3]].
    - rewrite <- H1. apply Bq_later; [lia| |].
      + pose proof (Bq_mono q (S q) ltac:(lia)). lia.
      + intros q' Hq'. apply (later_ok q); [left; split; [reflexivity|now rewrite Hl]|lia].
    - intros i st Hi. rewrite <- (H2 i st Hi). apply Bq_later; [lia| |].
      + rewrite H3. assert (i < length ex) by (apply nth_error_Some; congruence). lia.
      + intros q' Hq'. apply (later_ok q); [right; lia|lia].
  Qed.

  Lemma final_none q r : q < n -> get rv_m q = Some r -> r <> 0 -> q_desc q (length (rv_Bq q)) = None ->
    nth_error (rv_Bq n) r = nth_error rv_B2 r /\ length (rv_Bq (S q)) = length (rv_Bq q).
  Proof.
    intros Hq Hg Hr Hd. destruct pass1_facts as [I _]. destruct (Bq_inv q) as [HB2 [Hc HS]].
    assert (Hl : lookup0 rv_m q = r) by (unfold lookup0; now rewrite Hg).
    assert (Heq : rv_Bq (S q) = rv_Bq q) by (rewrite HS; unfold step; now rewrite Hd).
    split; [|now rewrite Heq]. rewrite <- (Hc q r (le_n _) Hg Hr). rewrite <- Heq.
    apply Bq_later; [lia| |].
    - rewrite Heq. pose proof (i1_lt _ _ I _ _ Hg). lia.
    - intros q' Hq'. apply (later_ok q); [left; split; [now rewrite Hl|exact Hr]|lia].
  Qed.

  Lemma q_desc_nomatch q base st' ex st : q_desc q base = Some (st', ex) -> st = st' \/ In st ex -> st <> SMatch.
  Proof.
    unfold q_desc. destruct (memb q rv_skip); [discriminate|].
    destruct (is_stb q && is_nil (edges_to E q)); [discriminate|]. destruct (get rv_m q); [|discriminate].
    destruct (is_stb q && (q =? ua) && negb (ua =? aa)); [discriminate|]. destruct (is_stb q).
    - destruct (is_nil (filter (fun e => mapped rv_m (e_from e)) (edges_to E q))); [discriminate|].
      intros H. inversion H; subst. intros [->|[<-|Hin]]; [discriminate| |]; eapply fill_pure_nomatch; eauto.
    - destruct (is_nil (edges_to E q)); [discriminate|]. intros H Hin.
      apply (fill_pure_nomatch base (edges_to E q) rv_m). inversion H as [H']. rewrite H'. cbn [fst snd]. exact Hin.
  Qed.

  Lemma Bq_nomatch k : forall x st, nth_error (rv_Bq k) x = Some st -> x <> 0 -> st <> SMatch.
  Proof.
    destruct pass1_facts as [I _]. induction k as [|k IH]; [apply (i1_nomatch _ _ I)|].
    destruct (Bq_inv k) as [_ [_ HS]]. rewrite HS. unfold step.
    destruct (q_desc k (length (rv_Bq k))) as [[st' ex]|] eqn:Hd; [|exact IH].
    intros x st Hx H0. destruct (Nat.lt_ge_cases x (length (rv_Bq k))) as [Hlt|Hge].
    - rewrite nth_error_app1 in Hx by (now rewrite set_nth_len).
      destruct (Nat.eq_dec (lookup0 rv_m k) x) as [Heq|Hne].
      + rewrite Heq, nth_set_nth_same in Hx by exact Hlt. inversion Hx; subst. eapply q_desc_nomatch; eauto.
      + rewrite nth_set_nth_other in Hx by exact Hne. eapply IH; eauto.
    - rewrite nth_error_app2 in Hx by (now rewrite set_nth_len). apply nth_error_In in Hx. eapply q_desc_nomatch; eauto.
  Qed.

  Lemma Bq_match0 k : nth_error (rv_Bq k) 0 = Some SMatch.
  Proof.
    destruct pass1_facts as [I _]. induction k as [|k IH]; [apply (i1_match _ _ I)|].
    destruct (Bq_inv k) as [_ [_ HS]]. rewrite HS. destruct (step_pres (rv_Bq k) k) as [_ Hp]. rewrite Hp; [exact IH| |].
    - apply nth_error_Some. rewrite IH. discriminate.
    - destruct (Nat.eq_dec (lookup0 rv_m k) 0) as [H0|Hne]; [|left; congruence]. right.
      unfold q_desc. destruct (memb k rv_skip); [reflexivity|].
      unfold lookup0 in H0. destruct (get rv_m k) as [r|] eqn:Hg.
      + subst r. destruct (i1_zero _ _ I _ Hg) as [Hs He]. now rewrite Hs, He.
      + now destruct (is_stb k && is_nil (edges_to E k)).
  Qed.

  (* ================================================================ the reversed automaton *)
  Definition Rv : nfa := reverse_nfa anchored A.
  Definition own_q (q x : nat) : Prop :=
    q < n /\ (get rv_m q = Some x \/ length (rv_Bq q) <= x < length (rv_Bq (S q))).
  Definition own_f (x : nat) : Prop :=
    (exists q, nth_error (states A) q = Some SMatch /\ get rv_m q = Some x) \/ length (rv_Bq n) <= x.

  Lemma match_ids_spec q : In q (match_ids A) <-> nth_error (states A) q = Some SMatch.
  Proof.
    unfold match_ids. rewrite filter_In, in_seq. split.
    - intros [_ H]. destruct (nth_error (states A) q) as [[]|]; try discriminate. reflexivity.
    - intros H. split; [|now rewrite H]. assert (q < nstates A) by (apply nth_error_Some; unfold nstates; congruence). lia.
  Qed.

  Lemma match_mapped q : nth_error (states A) q = Some SMatch -> mapped rv_m q = true.
  Proof.
    intros Hm. destruct pass1_facts as [_ [_ [Hlive _]]].
    apply Hlive; [apply nth_error_Some; unfold n, nstates; congruence|].
    destruct skip_shape as [->|[_ [_ [lp [lo [hi [-> [Hsu [Hsl _]]]]]]]]]; [reflexivity|].
    cbn. destruct (Nat.eqb_spec q ua) as [->|_]; [congruence|]. destruct (Nat.eqb_spec q lp) as [->|_]; [congruence|reflexivity].
  Qed.

  Lemma targets_ids_mapped qs : (forall q, In q qs -> mapped rv_m q = true) ->
    targets_of_ids rv_m qs = map (lookup0 rv_m) qs.
  Proof.
    induction qs as [|q t IH]; intros H; [reflexivity|]. cbn [targets_of_ids flat_map map]. fold (targets_of_ids rv_m t).
    rewrite IH by (intros; apply H; now right). specialize (H q (or_introl eq_refl)).
    unfold mapped, lookup0 in *. destruct (get rv_m q); [reflexivity|discriminate].
  Qed.

  Lemma R_struct :
    exists ex, states Rv = rv_Bq n ++ ex /\
      ((match_ids A = [] /\ ex = [SFail] /\ start_anch Rv = length (rv_Bq n)) \/
       (exists q, match_ids A = [q] /\ ex = [] /\ start_anch Rv = lookup0 rv_m q) \/
       (2 <= length (match_ids A) /\
        ex = fst (chain_pure (length (rv_Bq n)) (map (lookup0 rv_m) (match_ids A))) /\
        start_anch Rv = snd (chain_pure (length (rv_Bq n)) (map (lookup0 rv_m) (match_ids A))))).
  Proof.
    unfold Rv. rewrite reverse_nfa_unfold. unfold build_starts.
    assert (Hm : forall q, In q (match_ids A) -> mapped rv_m q = true)
      by (intros q Hq; apply match_mapped; now apply match_ids_spec).
    destruct (match_ids A) as [|q1 [|q2 t]] eqn:Ems.
    - cbn [add]. exists [SFail]. split; [reflexivity|]. left. auto.
    - exists []. split; [cbn; now rewrite app_nil_r|]. right. left. exists q1. auto.
    - rewrite (targets_ids_mapped _ Hm). rewrite build_chain_pure.
      destruct (chain_pure (length (rv_Bq n)) (map (lookup0 rv_m) (q1 :: q2 :: t))) as [ex r] eqn:Ec. cbn [fst snd].
      exists ex. split; [reflexivity|]. right. right. split; [cbn; lia|]. split; reflexivity.
  Qed.

  Lemma R_low x : x < length (rv_Bq n) -> nth_error (states Rv) x = nth_error (rv_Bq n) x.
  Proof. intros H. destruct R_struct as [ex [-> _]]. now apply nth_error_app1. Qed.

  Lemma R_at_range base l : at_range (rv_Bq n) base l -> at_range (states Rv) base l.
  Proof.
    intros H i st Hi. specialize (H i st Hi). rewrite R_low; [exact H|]. apply nth_error_Some. congruence.
  Qed.

  Lemma R_of_Bq x st : nth_error (rv_Bq n) x = Some st -> nth_error (states Rv) x = Some st.
  Proof. intros H. rewrite R_low; [exact H|]. apply nth_error_Some. congruence. Qed.

  (* the states above the builder of pass 2: the chain over the Match states *)
  Lemma R_high x st : length (rv_Bq n) <= x -> nth_error (states Rv) x = Some st ->
    st = SFail \/ exists t0 r', st = SSplit t0 r' /\ own_f t0 /\ own_f r'.
  Proof.
    intros Hx Hst. destruct R_struct as [ex [Hs Hc]]. rewrite Hs in Hst.
    rewrite nth_error_app2 in Hst by exact Hx. apply nth_error_In in Hst.
    destruct Hc as [[_ [-> _]]|[[q [_ [-> _]]]|[Hlen [Hex _]]]].
    - destruct Hst as [<-|[]]. now left.
    - destruct Hst.
    - right. assert (Hne : map (lookup0 rv_m) (match_ids A) <> []) by (destruct (match_ids A); [cbn in Hlen; lia|discriminate]).
      pose proof (chain_tgts (length (rv_Bq n)) _ Hne) as H.
      destruct (chain_pure (length (rv_Bq n)) (map (lookup0 rv_m) (match_ids A))) as [ex' r]. cbn [fst] in Hex. subst ex'.
      destruct H as [_ H]. destruct (H _ Hst) as [t0 [r' [-> [Ht0 Hr']]]]. exists t0, r'. split; [reflexivity|].
      assert (Hin : forall t, In t (map (lookup0 rv_m) (match_ids A)) -> own_f t).
      { intros t Ht. apply in_map_iff in Ht as [q [<- Hq]]. left. exists q. apply match_ids_spec in Hq. split; [exact Hq|].
        pose proof (match_mapped q Hq) as Hm. unfold mapped, lookup0 in *. destruct (get rv_m q); [reflexivity|discriminate]. }
      split; [now apply Hin|]. destruct Hr' as [Hr'|Hr']; [now apply Hin|right; lia].
  Qed.

  Definition kept_of (q : nat) : list redge := filter (fun e => mapped rv_m (e_from e)) (edges_to E q).

  (* the final contents of what forward state q owns *)
  Lemma q_cases q r : get rv_m q = Some r -> r <> 0 ->
    let base := length (rv_Bq q) in
    let es := edges_to E q in
    (is_stb q = true /\ nth_error (states Rv) r = Some (SEpsilon 0) /\ length (rv_Bq (S q)) = base /\
       (((q =? ua) && negb (ua =? aa) = true) \/ kept_of q = [])) \/
    (is_stb q = true /\ (q =? ua) && negb (ua =? aa) = false /\ kept_of q <> [] /\
       nth_error (states Rv) r = Some (SSplit base 0) /\
       nth_error (states Rv) base = Some (fst (fill_pure (S base) (kept_of q) rv_m)) /\
       at_range (states Rv) (S base) (snd (fill_pure (S base) (kept_of q) rv_m)) /\
       length (rv_Bq (S q)) = S base + length (snd (fill_pure (S base) (kept_of q) rv_m))) \/
    (is_stb q = false /\ es = [] /\ nth_error (states Rv) r = Some SFail /\ length (rv_Bq (S q)) = base) \/
    (is_stb q = false /\ es <> [] /\
       nth_error (states Rv) r = Some (fst (fill_pure base es rv_m)) /\
       at_range (states Rv) base (snd (fill_pure base es rv_m)) /\
       length (rv_Bq (S q)) = base + length (snd (fill_pure base es rv_m))).
  Proof.
    intros Hg Hr base es. subst es. destruct pass1_facts as [I [_ [_ Hm4]]].
    assert (Hq : q < n) by (rewrite <- (i1_len _ _ I); now apply get_lt with r).
    assert (Hl : lookup0 rv_m q = r) by (unfold lookup0; now rewrite Hg).
    assert (Hsk : memb q rv_skip = false).
    { destruct (Hm4 q) as [Hs|Hs]; [unfold mapped; now rewrite Hg|now apply start_not_skipped|exact Hs]. }
    pose proof (i1_content _ _ I _ _ Hg Hr) as Hc0.
    destruct (q_desc q base) as [[st' ex]|] eqn:Hd.
    - destruct (final_some q st' ex Hq Hd) as [_ [H1 [H2 H3]]]. rewrite Hl in H1.
      apply R_of_Bq in H1. apply R_at_range in H2.
      unfold q_desc in Hd. rewrite Hsk, Hg in Hd.
      destruct (is_stb q && is_nil (edges_to E q)) eqn:Hc1; [discriminate|].
      destruct (is_stb q) eqn:Hs; cbn [andb] in Hd.
      + destruct ((q =? ua) && negb (ua =? aa)) eqn:Hfz; [discriminate|].
        fold (kept_of q) in Hd. destruct (is_nil (kept_of q)) eqn:Hk; [discriminate|].
        inversion Hd; subst st' ex. right. left. apply at_range_cons in H2 as [H2a H2b].
        repeat split; auto; [now apply is_nil_false|]. rewrite H3. cbn [length]. lia.
      + destruct (is_nil (edges_to E q)) eqn:Hn; [discriminate|]. inversion Hd as [Hd']. right. right. right.
        rewrite Hd'. cbn [fst snd]. repeat split; auto. now apply is_nil_false.
    - destruct (final_none q r Hq Hg Hr Hd) as [H1 H2]. rewrite Hc0 in H1.
      assert (H1' : nth_error (states Rv) r = Some (if is_stb q then SEpsilon 0 else placeholder (edges_to E q))).
      { rewrite R_low; [exact H1|]. apply nth_error_Some. congruence. }
      unfold q_desc in Hd. rewrite Hsk, Hg in Hd.
      destruct (is_stb q) eqn:Hs; cbn [andb] in Hd.
      + left. split; [reflexivity|]. split; [exact H1'|]. split; [exact H2|].
        destruct (is_nil (edges_to E q)) eqn:Hn.
        * right. unfold kept_of. apply is_nil_true in Hn. now rewrite Hn.
        * destruct ((q =? ua) && negb (ua =? aa)); [now left|]. fold (kept_of q) in Hd.
          destruct (is_nil (kept_of q)) eqn:Hk; [|discriminate]. right. now apply is_nil_true.
      + right. right. left. destruct (is_nil (edges_to E q)) eqn:Hn; [|discriminate]. apply is_nil_true in Hn.
        rewrite Hn in H1'. split; [reflexivity|]. split; [exact Hn|]. split; [exact H1'|exact H2].
  Qed.

  Lemma range_state L base l x st : at_range L base l -> base <= x < base + length l ->
    nth_error L x = Some st -> In st l.
  Proof.
    intros Hat Hx Hst. destruct (nth_error l (x - base)) as [s|] eqn:Hs.
    - pose proof (Hat _ _ Hs) as H. replace (base + (x - base)) with x in H by lia.
      rewrite Hst in H. inversion H; subst. eapply nth_error_In; eauto.
    - apply nth_error_None in Hs. lia.
  Qed.

  Lemma is_stb_spec q : is_stb q = true <-> is_st A anchored q.
  Proof.
    unfold is_stb, is_st. fold aa ua. split.
    - intros H. apply orb_prop in H as [H|H]; [left; now apply Nat.eqb_eq|].
      apply andb_prop in H as [Ha Hq]. right. split; [now apply negb_true_iff|now apply Nat.eqb_eq].
    - intros [->|[-> ->]]; [now rewrite Nat.eqb_refl|]. rewrite Nat.eqb_refl. cbn. apply orb_true_r.
  Qed.

  Lemma frozen_spec q : is_stb q = true -> (frozen A anchored q <-> (q =? ua) && negb (ua =? aa) = true).
  Proof.
    intros Hs. unfold frozen. fold aa ua. split.
    - intros [_ [Hne ->]]. rewrite Nat.eqb_refl. cbn. apply negb_true_iff. now apply Nat.eqb_neq.
    - intros H. apply andb_prop in H as [Hq Hne]. apply Nat.eqb_eq in Hq. apply negb_true_iff, Nat.eqb_neq in Hne.
      subst q. split; [|split; [exact Hne|reflexivity]].
      unfold is_stb in Hs. apply orb_prop in Hs as [Hs|Hs]; [apply Nat.eqb_eq in Hs; congruence|].
      apply andb_prop in Hs as [Ha _]. now apply negb_true_iff.
  Qed.

  Lemma not_start_not_frozen q : is_stb q = false -> ~ frozen A anchored q.
  Proof.
    intros Hs [Ha [_ ->]]. unfold is_stb in Hs. rewrite Ha, Nat.eqb_refl in Hs. cbn in Hs. now rewrite orb_true_r in Hs.
  Qed.

  Lemma mapped_get q : mapped rv_m q = true -> get rv_m q = Some (lookup0 rv_m q).
  Proof. unfold mapped, lookup0. destruct (get rv_m q); [reflexivity|discriminate]. Qed.

  Lemma local_to_tgt q base0 len L st :
    (forall e, In e L -> In (q, e) E /\ mapped rv_m (e_from e) = true) -> ~ frozen A anchored q ->
    (forall y, base0 <= y < base0 + len -> own_q q y) ->
    local_ok base0 len L rv_m st -> tgt_ok A anchored rv_m own_q q st.
  Proof.
    intros HL Hnf Hown [Hp [He Hb]]. split; [exact Hp|]. split.
    - intros y Hy. destruct (He y Hy) as [Hr|[f [Hf ->]]]; [left; now apply Hown|].
      right. left. exists f. destruct (HL _ Hf) as [H1 H2]. split; [exact H1|]. split; [exact Hnf|now apply mapped_get].
    - intros lo hi y Hy. destruct (Hb _ _ _ Hy) as [sp [f [Hf ->]]]. exists sp, f.
      destruct (HL _ Hf) as [H1 H2]. split; [exact H1|]. split; [exact Hnf|now apply mapped_get].
  Qed.

  Lemma kept_ok q e : In e (kept_of q) -> In (q, e) E /\ mapped rv_m (e_from e) = true.
  Proof. unfold kept_of. intros H. apply filter_In in H as [H1 H2]. split; [now apply edges_to_in|exact H2]. Qed.

  Lemma unmapped_range_empty q : (get rv_m q = None \/ get rv_m q = Some 0) -> rv_Bq (S q) = rv_Bq q.
  Proof.
    intros Hg. destruct pass1_facts as [I _]. destruct (Bq_inv q) as [_ [_ HS]]. rewrite HS. unfold step.
    assert (Hd : q_desc q (length (rv_Bq q)) = None); [|now rewrite Hd].
    unfold q_desc. destruct (memb q rv_skip); [reflexivity|]. destruct Hg as [Hg|Hg]; rewrite Hg.
    - now destruct (is_stb q && is_nil (edges_to E q)).
    - destruct (i1_zero _ _ I _ Hg) as [Hs He]. now rewrite Hs, He.
  Qed.

  Lemma mapped_not_skipped q : mapped rv_m q = true -> memb q rv_skip = false.
  Proof.
    intros Hm. destruct pass1_facts as [_ [_ [_ H4]]]. destruct (H4 q Hm) as [Hs|Hs]; [now apply start_not_skipped|exact Hs].
  Qed.

  Lemma es_ok q : mapped rv_m q = true -> is_stb q = false ->
    forall e, In e (edges_to E q) -> In (q, e) E /\ mapped rv_m (e_from e) = true.
  Proof.
    intros Hm Hs e He. apply edges_to_in in He. split; [exact He|].
    apply sources_mapped with q; [exact He|now apply mapped_not_skipped|exact Hs].
  Qed.

  Lemma layout_sound_field q x st : own_q q x -> nth_error (states Rv) x = Some st ->
    tgt_ok A anchored rv_m own_q q st.
  Proof.
    intros [Hq Hown] Hst.
    assert (Htriv : tgt_ok A anchored rv_m own_q q SMatch /\ tgt_ok A anchored rv_m own_q q SFail)
      by (split; (split; [exact I|split; [intros y []|intros lo hi y []]])).
    destruct (get rv_m q) as [r|] eqn:Hg.
    2:{ destruct Hown as [H|H]; [discriminate|]. rewrite (unmapped_range_empty q (or_introl Hg)) in H. lia. }
    destruct (Nat.eq_dec r 0) as [->|Hr].
    { destruct Hown as [H|H]; [|rewrite (unmapped_range_empty q (or_intror Hg)) in H; lia].
      inversion H; subst x. rewrite (R_of_Bq _ _ (Bq_match0 n)) in Hst. inversion Hst. apply Htriv. }
    assert (Hm : mapped rv_m q = true) by (unfold mapped; now rewrite Hg).
    pose proof (q_cases q r Hg Hr) as HC. cbn zeta in HC.
    destruct HC as [[Hs [Hc [Hlen Hwhy]]]|[[Hs [Hfz [Hk [Hc [Hc2 [Hat Hlen]]]]]]|[[Hs [He [Hc Hlen]]]|[Hs [He [Hc [Hat Hlen]]]]]]].
    - destruct Hown as [H|H]; [|lia]. inversion H; subst x. rewrite Hc in Hst. inversion Hst; subst st.
      split; [exact I|]. split; [|intros lo hi y []]. intros y [<-|[]]. right. right. split; [reflexivity|now apply is_stb_spec].
    - assert (Hnf : ~ frozen A anchored q) by (intros Hf; apply (frozen_spec q Hs) in Hf; congruence).
      assert (Hrange : forall y, S (length (rv_Bq q)) <= y < S (length (rv_Bq q)) + length (snd (fill_pure (S (length (rv_Bq q))) (kept_of q) rv_m)) -> own_q q y)
        by (intros y Hy; split; [exact Hq|right; lia]).
      destruct Hown as [H|H].
      + inversion H; subst x. rewrite Hc in Hst. inversion Hst; subst st.
        split; [exact I|]. split; [|intros lo hi y []]. intros y [<-|[<-|[]]].
        * left. split; [exact Hq|right; lia].
        * right. right. split; [reflexivity|now apply is_stb_spec].
      + destruct (Nat.eq_dec x (length (rv_Bq q))) as [->|Hne].
        * rewrite Hc2 in Hst. inversion Hst; subst st.
          eapply local_to_tgt; [apply kept_ok|exact Hnf|exact Hrange|]. apply fill_pure_local; [exact Hk|now left].
        * pose proof (range_state _ _ _ x st Hat ltac:(lia) Hst) as Hin.
          eapply local_to_tgt; [apply kept_ok|exact Hnf|exact Hrange|]. apply fill_pure_local; [exact Hk|now right].
    - destruct Hown as [H|H]; [|lia]. inversion H; subst x. rewrite Hc in Hst. inversion Hst. apply Htriv.
    - assert (Hnf : ~ frozen A anchored q) by now apply not_start_not_frozen.
      assert (Hrange : forall y, length (rv_Bq q) <= y < length (rv_Bq q) + length (snd (fill_pure (length (rv_Bq q)) (edges_to E q) rv_m)) -> own_q q y)
        by (intros y Hy; split; [exact Hq|right; lia]).
      destruct Hown as [H|H].
      + inversion H; subst x. rewrite Hc in Hst. inversion Hst; subst st.
        eapply local_to_tgt; [now apply es_ok|exact Hnf|exact Hrange|]. apply fill_pure_local; [exact He|now left].
      + pose proof (range_state _ _ _ x st Hat ltac:(lia) Hst) as Hin.
        eapply local_to_tgt; [now apply es_ok|exact Hnf|exact Hrange|]. apply fill_pure_local; [exact He|now right].
  Qed.

  Lemma route_prepend L x y e : eps_reach L x y -> route_in L rv_m y e -> route_in L rv_m x e.
  Proof.
    intros Hxy. destruct e as [sp f lo hi|f]; cbn [route_in].
    - intros [z [st [H1 H2]]]. exists z, st. split; [eapply eps_reach_trans; eauto|exact H2].
    - intros H. eapply eps_reach_trans; eauto.
  Qed.

  Lemma layout_complete_field q e : In (q, e) E -> mapped rv_m q = true -> mapped rv_m (e_from e) = true ->
    ~ frozen A anchored q -> eroute Rv rv_m (lookup0 rv_m q) e.
  Proof.
    intros Hin Hm Hme Hnf. destruct pass1_facts as [I _].
    change (route_in (states Rv) rv_m (lookup0 rv_m q) e).
    pose proof (mapped_get q Hm) as Hg. set (r := lookup0 rv_m q) in *.
    assert (Hes : In e (edges_to E q)) by now apply edges_to_in.
    assert (Hkept : In e (kept_of q)) by (unfold kept_of; apply filter_In; now split).
    destruct (Nat.eq_dec r 0) as [H0|Hr].
    { rewrite H0 in Hg. destruct (i1_zero _ _ I _ Hg) as [_ He]. rewrite He in Hes. destruct Hes. }
    pose proof (q_cases q r Hg Hr) as HC. cbn zeta in HC.
    destruct HC as [[Hs [Hc [Hlen Hwhy]]]|[[Hs [Hfz [Hk [Hc [Hc2 [Hat Hlen]]]]]]|[[Hs [He [Hc Hlen]]]|[Hs [He [Hc [Hat Hlen]]]]]]].
    - exfalso. destruct Hwhy as [Hf|Hk]; [apply Hnf; now apply (frozen_spec q Hs)|rewrite Hk in Hkept; destruct Hkept].
    - eapply route_prepend; [eapply er_step; [exact Hc|now left|constructor]|].
      eapply fill_pure_routes; [exact Hc2|exact Hat|exact Hkept].
    - rewrite He in Hes. destruct Hes.
    - eapply fill_pure_routes; [exact Hc|exact Hat|exact Hes].
  Qed.

  Lemma layout_start_field q : is_st A anchored q -> mapped rv_m q = true -> eps_reach (states Rv) (lookup0 rv_m q) 0.
  Proof.
    intros Hs Hm. apply is_stb_spec in Hs. pose proof (mapped_get q Hm) as Hg. set (r := lookup0 rv_m q) in *.
    destruct (Nat.eq_dec r 0) as [->|Hr]; [constructor|].
    pose proof (q_cases q r Hg Hr) as HC. cbn zeta in HC.
    destruct HC as [[_ [Hc _]]|[[_ [_ [_ [Hc _]]]]|[[Hs' _]|[Hs' _]]]]; try congruence.
    - apply (er_step _ r 0 0 (SEpsilon 0) Hc); [now left|apply er_refl].
    - apply (er_step _ r 0 0 _ Hc); [right; now left|apply er_refl].
  Qed.

  Lemma B2_pos : 0 < length rv_B2.
  Proof. destruct pass1_facts as [I _]. apply nth_error_Some. rewrite (i1_match _ _ I). discriminate. Qed.

  Lemma Bq_pos k : 0 < length (rv_Bq k).
  Proof. destruct (Bq_inv k) as [H _]. pose proof B2_pos. lia. Qed.

  Theorem reverse_layout : rev_layout A anchored Rv rv_m own_q own_f.
  Proof.
    destruct pass1_facts as [I [Hst [Hlive Hm4]]].
    constructor.
    - apply R_of_Bq, Bq_match0.
    - intros x Hx. destruct (Nat.lt_ge_cases x (length (rv_Bq n))) as [Hlt|Hge].
      + rewrite R_low in Hx by exact Hlt. destruct (Nat.eq_dec x 0) as [H0|H0]; [exact H0|].
        exfalso. now apply (Bq_nomatch n x SMatch Hx H0).
      + destruct (R_high x SMatch Hge Hx) as [H|[t0 [r' [H _]]]]; discriminate.
    - intros q Hq Hnp. apply Hlive; [exact Hq|].
      destruct skip_shape as [->|[_ [Hne [lp [lo [hi [-> [Hsu _]]]]]]]]; [reflexivity|].
      cbn. destruct (Nat.eqb_spec q ua) as [->|_]; [exfalso; apply Hnp; split; [exact Hne|now left]|].
      destruct (Nat.eqb_spec q lp) as [->|_]; [|reflexivity].
      exfalso. apply Hnp. split; [exact Hne|]. right. exists aa, lp. split; [exact Hsu|reflexivity].
    - intros q r Hg. split; [rewrite <- (i1_len _ _ I); now apply get_lt with r|now left].
    - intros q [Hq [Hg|Hr]]; [apply is_stb_spec; now apply (i1_zero _ _ I)|]. pose proof (Bq_pos q). lia.
    - apply layout_sound_field.
    - apply layout_complete_field.
    - apply layout_start_field.
    - intros q Hq Hm. destruct R_struct as [ex [Hs Hc]]. pose proof (proj2 (match_ids_spec q) Hq) as Hin.
      destruct Hc as [[Hms _]|[[q' [Hms [_ Hstart]]]|[Hlen [Hex Hstart]]]].
      + rewrite Hms in Hin. destruct Hin.
      + rewrite Hms in Hin. destruct Hin as [<-|[]]. rewrite Hstart. constructor.
      + rewrite Hstart. apply chain_route.
        * destruct (match_ids A); [cbn in Hlen; lia|discriminate].
        * rewrite <- Hex. intros i st Hi. rewrite Hs. rewrite nth_error_app2 by lia.
          now replace (length (rv_Bq n) + i - length (rv_Bq n)) with i by lia.
        * apply in_map_iff. exists q. split; [reflexivity|exact Hin].
    - destruct R_struct as [ex [Hs Hc]].
      destruct Hc as [[_ [_ Hstart]]|[[q' [Hms [_ Hstart]]]|[Hlen [Hex Hstart]]]].
      + right. rewrite Hstart. lia.
      + left. exists q'. assert (Hq' : nth_error (states A) q' = Some SMatch) by (apply match_ids_spec; rewrite Hms; now left).
        split; [exact Hq'|]. rewrite Hstart. apply mapped_get. now apply match_mapped.
      + assert (Hne : map (lookup0 rv_m) (match_ids A) <> []) by (destruct (match_ids A); [cbn in Hlen; lia|discriminate]).
        pose proof (chain_tgts (length (rv_Bq n)) _ Hne) as H. rewrite Hstart.
        destruct (chain_pure (length (rv_Bq n)) (map (lookup0 rv_m) (match_ids A))) as [ex' r]. cbn [snd].
        destruct H as [[Hr|Hr] _]; [|right; lia].
        apply in_map_iff in Hr as [q [<- Hq]]. apply match_ids_spec in Hq. left. exists q. split; [exact Hq|].
        apply mapped_get. now apply match_mapped.
    - intros x [[q [Hq Hg]]|Hge].
      + left. exists q. split; [exact Hq|]. split; [rewrite <- (i1_len _ _ I); now apply get_lt with x|now left].
      + right. split; [pose proof (Bq_pos n); lia|]. intros st Hxs.
        destruct (R_high x st Hge Hxs) as [->|[t0 [r' [-> [H1 H2]]]]]; [exact Logic.I|]. split; assumption.
  Qed.
End Build.

(* ================================================================== executable witnesses *)
(* a bounded search for a reverse path: true only if one exists *)
Fixpoint rfind (R : nfa) (h : hay) (fuel x k i : nat) : bool :=
  match fuel with
  | 0 => false
  | S f =>
      match nth_error (states R) x with
      | None => false
      | Some st => (is_match_state st && (k =? i)) ||
                   existsb (fun c => rfind R h f (fst c) (snd c) i) (rsuccs h st k)
      end
  end.

Lemma rfind_sound R h fuel : forall x k i, rfind R h fuel x k i = true -> rpath R h x k i.
Proof.
  induction fuel as [|f IH]; intros x k i H; [discriminate|]. cbn [rfind] in H.
  destruct (nth_error (states R) x) as [st|] eqn:Hst; [|discriminate].
  apply orb_prop in H as [H|H].
  - apply andb_prop in H as [Hm Hk]. apply Nat.eqb_eq in Hk. subst i. destruct st; try discriminate.
    exists x. split; [constructor|exact Hst].
  - apply existsb_exists in H as [[y k'] [Hin Hf]]. cbn [fst snd] in Hf.
    destruct (IH _ _ _ Hf) as [z [Hr Hz]]. exists z. split; [|exact Hz].
    econstructor; [|exact Hr]. exists st. split; [exact Hst|exact Hin].
Qed.

(* a bounded search for a forward path *)
Fixpoint ffind (A : nfa) (h : hay) (fuel q p e : nat) : bool :=
  match fuel with
  | 0 => false
  | S f =>
      match nth_error (states A) q with
      | None => false
      | Some st => (is_match_state st && (p =? e)) ||
                   existsb (fun c => ffind A h f (fst (fst c)) (snd (fst c)) e) (succs h st p [])
      end
  end.

Lemma ffind_sound A h fuel : forall q p e, ffind A h fuel q p e = true -> nfa_path A h q p e.
Proof.
  induction fuel as [|f IH]; intros q p e H; [discriminate|]. cbn [ffind] in H.
  destruct (nth_error (states A) q) as [st|] eqn:Hst; [|discriminate].
  apply orb_prop in H as [H|H].
  - apply andb_prop in H as [Hm Hk]. apply Nat.eqb_eq in Hk. subst e. destruct st; try discriminate.
    exists q. split; [constructor|exact Hst].
  - apply existsb_exists in H as [[[q' p'] sl] [Hin Hf]]. cbn [fst snd] in Hf.
    destruct (IH _ _ _ Hf) as [z [Hr Hz]]. exists z. split; [|exact Hz].
    econstructor; [|exact Hr]. exists st, [], sl. split; [exact Hst|exact Hin].
Qed.

(* a table T (position -> set of states) closed under rstep contains everything reachable *)
Definition rclosed (R : nfa) (h : hay) (T : list (list nat)) : bool :=
  forallb (fun k =>
    forallb (fun x => match nth_error (states R) x with
                      | None => true
                      | Some st => forallb (fun c => memb (fst c) (nth (snd c) T [])) (rsuccs h st k)
                      end) (nth k T [])) (seq 0 (S (length h))).

Lemma memb_in q l : memb q l = true <-> In q l.
Proof.
  unfold memb. rewrite existsb_exists. split.
  - intros [x [H1 H2]]. apply Nat.eqb_eq in H2. now subst.
  - intros H. exists q. split; [exact H|apply Nat.eqb_refl].
Qed.

Lemma rclosed_reach R h T : rclosed R h T = true ->
  forall c c', rreach R h c c' -> snd c <= length h -> In (fst c) (nth (snd c) T []) ->
  In (fst c') (nth (snd c') T []).
Proof.
  intros Hc c c' Hr. induction Hr as [c|c c1 c2 [st [Hst Hin]] _ IH]; intros Hk Hx; [exact Hx|].
  pose proof (rsuccs_pos h st (snd c) c1 Hin) as Hle. apply IH; [lia|].
  unfold rclosed in Hc. rewrite forallb_forall in Hc. specialize (Hc (snd c) ltac:(apply in_seq; lia)).
  rewrite forallb_forall in Hc. specialize (Hc _ Hx). rewrite Hst in Hc.
  rewrite forallb_forall in Hc. specialize (Hc _ Hin). now apply memb_in.
Qed.

Definition no_match_in (R : nfa) (l : list nat) : bool :=
  forallb (fun x => match nth_error (states R) x with Some SMatch => false | _ => true end) l.

Lemma rclosed_no_path R h T x j i : rclosed R h T = true -> j <= length h ->
  memb x (nth j T []) = true -> no_match_in R (nth i T []) = true -> ~ rpath R h x j i.
Proof.
  intros Hc Hj Hx Hn [y [Hr Hm]].
  pose proof (rclosed_reach R h T Hc _ _ Hr Hj (proj1 (memb_in _ _) Hx)) as Hy. cbn [fst snd] in Hy.
  unfold no_match_in in Hn. rewrite forallb_forall in Hn. specialize (Hn _ Hy). now rewrite Hm in Hn.
Qed.

(* computing a closed table by saturation *)
Definition tadd (T : list (list nat)) (c : nat * nat) : list (list nat) :=
  if memb (fst c) (nth (snd c) T []) then T else set_nth T (snd c) (fst c :: nth (snd c) T []).

Definition tstep (R : nfa) (h : hay) (T : list (list nat)) : list (list nat) :=
  fold_left (fun T k =>
    fold_left (fun T x => match nth_error (states R) x with
                          | None => T
                          | Some st => fold_left tadd (rsuccs h st k) T
                          end) (nth k T []) T) (seq 0 (S (length h))) T.

Fixpoint titer (R : nfa) (h : hay) (fuel : nat) (T : list (list nat)) : list (list nat) :=
  match fuel with 0 => T | S f => titer R h f (tstep R h T) end.

Definition rtable (R : nfa) (h : hay) (x j : nat) : list (list nat) :=
  titer R h (nstates R * (length h + 1)) (tadd (repeat [] (S (length h))) (x, j)).

(* ================================================================== refutations *)
(* Look states become epsilon edges: for an automaton WITH assertions the reversed automaton
   accepts where the forward one does not.  Forward automaton of `a\b` (as dumped from the
   compiler), haystack "ab": reading 'a' backwards from 1 reaches Match at 0, but no forward
   path starts at 0 (position 1 is not a word boundary). *)
Definition look_nfa : nfa :=
  mkNfa [SByteRange 97 97 1; SLook LWordB 2; SMatch; SByteRange 0 255 4; SSplit 0 3] 0 4 1.

Theorem reverse_look_refuted :
  exists A h i j, wf_nfa A = true /\ prefix_shape A = true /\ no_look A = false /\
    rpath (reverse_nfa true A) h (start_anch (reverse_nfa true A)) j i /\
    rpath (reverse_nfa false A) h (start_anch (reverse_nfa false A)) j i /\
    ~ nfa_path A h (start_anch A) i j.
Proof.
  exists look_nfa, [97; 98]%N, 0, 1.
  split; [vm_compute; reflexivity|]. split; [vm_compute; reflexivity|]. split; [vm_compute; reflexivity|].
  split; [apply (rfind_sound _ _ 12); vm_compute; reflexivity|].
  split; [apply (rfind_sound _ _ 12); vm_compute; reflexivity|].
  apply (search_with_complete look_nfa [97; 98]%N eq_refl 20 0); [cbn; lia|vm_compute; reflexivity].
Qed.

(* The code BEFORE commit 1f8e25e (fillStartStateWithIncoming turned the incoming byte edges
   of a looping start state into epsilon alternatives): `[a-z]*foo` on "acagfoo" — the
   forward automaton matches [0,7), the reversed automaton cannot walk back through the loop:
   no reverse path from 7 reaches Match at 0.  The current code does (second conjunct). *)
Definition loop_nfa : nfa :=
  mkNfa [SByteRange 97 122 2; SEpsilon 3; SSplit 0 1; SByteRange 102 102 4; SByteRange 111 111 5;
         SByteRange 111 111 6; SMatch; SByteRange 0 255 8; SSplit 2 7] 2 8 1.
Definition loop_hay : hay := [97; 99; 97; 103; 102; 111; 111]%N.

Theorem reverse_start_loop_original_refuted :
  wf_nfa loop_nfa = true /\ no_look loop_nfa = true /\ prefix_shape loop_nfa = true /\
  nfa_path loop_nfa loop_hay (start_anch loop_nfa) 0 7 /\
  rpath (reverse_nfa true loop_nfa) loop_hay (start_anch (reverse_nfa true loop_nfa)) 7 0 /\
  ~ rpath (reverse_nfa_original true loop_nfa) loop_hay (start_anch (reverse_nfa_original true loop_nfa)) 7 0 /\
  ~ rpath (reverse_nfa_original false loop_nfa) loop_hay (start_anch (reverse_nfa_original false loop_nfa)) 7 0.
Proof.
  split; [vm_compute; reflexivity|]. split; [vm_compute; reflexivity|]. split; [vm_compute; reflexivity|].
  split; [apply (ffind_sound _ _ 40); vm_compute; reflexivity|].
  split; [apply (rfind_sound _ _ 40); vm_compute; reflexivity|].
  split.
  - apply (rclosed_no_path _ _ (rtable (reverse_nfa_original true loop_nfa) loop_hay
                                        (start_anch (reverse_nfa_original true loop_nfa)) 7));
      [vm_compute; reflexivity|cbn; lia|vm_compute; reflexivity|vm_compute; reflexivity].
  - apply (rclosed_no_path _ _ (rtable (reverse_nfa_original false loop_nfa) loop_hay
                                        (start_anch (reverse_nfa_original false loop_nfa)) 7));
      [vm_compute; reflexivity|cbn; lia|vm_compute; reflexivity|vm_compute; reflexivity].
Qed.

(* ================================================================== the theorems *)
(* THE FULL STATEMENTS (anchored = true: nfa.ReverseAnchored, anchored = false: nfa.Reverse),
   for every well-formed forward automaton without Look states whose unanchored prefix has
   the shape the compiler builds: *)
Definition reverse_sound_stmt : Prop := forall anchored A h i j,
  wf_nfa A = true -> no_look A = true -> prefix_shape A = true ->
  rpath (reverse_nfa anchored A) h (start_anch (reverse_nfa anchored A)) j i ->
  nfa_path A h (start_anch A) i j.

Definition reverse_complete_stmt : Prop := forall anchored A h i j,
  wf_nfa A = true -> no_look A = true -> prefix_shape A = true ->
  nfa_path A h (start_anch A) i j ->
  rpath (reverse_nfa anchored A) h (start_anch (reverse_nfa anchored A)) j i.

(* the smallest i reached by a reverse path from j — what lazy.DFA.SearchReverse(h, 0, j)
   with BreakAtMatch = false computes on the determinised automaton *)
Definition leftmost_rstart (R : nfa) (h : hay) (j i : nat) : Prop :=
  rpath R h (start_anch R) j i /\ forall i', i' < i -> ~ rpath R h (start_anch R) j i'.
Definition leftmost_fstart (A : nfa) (h : hay) (j i : nat) : Prop :=
  nfa_path A h (start_anch A) i j /\ forall i', i' < i -> ~ nfa_path A h (start_anch A) i' j.

Definition reverse_leftmost_start_stmt : Prop := forall anchored A h i j,
  wf_nfa A = true -> no_look A = true -> prefix_shape A = true ->
  (leftmost_rstart (reverse_nfa anchored A) h j i <-> leftmost_fstart A h j i).

(* side condition of the _partial theorems: the reversed automaton has the layout of
   Section Layout for some state map and ownership relation *)
Definition has_layout (anchored : bool) (A : nfa) : Prop :=
  exists m own ownF, rev_layout A anchored (reverse_nfa anchored A) m own ownF.

Theorem reverse_sound_partial anchored A h i j :
  wf_nfa A = true -> no_look A = true -> prefix_shape A = true -> has_layout anchored A ->
  rpath (reverse_nfa anchored A) h (start_anch (reverse_nfa anchored A)) j i ->
  nfa_path A h (start_anch A) i j.
Proof. intros Hwf Hnl Hps [m [own [ownF HL]]]. eapply layout_sound; eauto. Qed.

Theorem reverse_complete_partial anchored A h i j :
  wf_nfa A = true -> no_look A = true -> prefix_shape A = true -> has_layout anchored A ->
  nfa_path A h (start_anch A) i j ->
  rpath (reverse_nfa anchored A) h (start_anch (reverse_nfa anchored A)) j i.
Proof. intros Hwf Hnl Hps [m [own [ownF HL]]]. eapply layout_complete; eauto. Qed.

Theorem reverse_leftmost_start_partial anchored A h i j :
  wf_nfa A = true -> no_look A = true -> prefix_shape A = true -> has_layout anchored A ->
  (leftmost_rstart (reverse_nfa anchored A) h j i <-> leftmost_fstart A h j i).
Proof.
  intros Hwf Hnl Hps HL. unfold leftmost_rstart, leftmost_fstart. split; intros [H1 H2].
  - split; [eapply reverse_sound_partial; eauto|]. intros i' Hi' Hp. apply (H2 i' Hi').
    eapply reverse_complete_partial; eauto.
  - split; [eapply reverse_complete_partial; eauto|]. intros i' Hi' Hp. apply (H2 i' Hi').
    eapply reverse_sound_partial; eauto.
Qed.

(* the reverse path never runs on to the left of the forward match: a reverse path from j
   ends (reaches Match) only at positions that START a forward match ending at j; in
   particular no reverse path exists from j when no forward match ends at j *)
Corollary reverse_no_overrun_partial anchored A h j :
  wf_nfa A = true -> no_look A = true -> prefix_shape A = true -> has_layout anchored A ->
  (forall i, ~ nfa_path A h (start_anch A) i j) ->
  forall i, ~ rpath (reverse_nfa anchored A) h (start_anch (reverse_nfa anchored A)) j i.
Proof. intros Hwf Hnl Hps HL Hno i Hp. apply (Hno i). eapply reverse_sound_partial; eauto. Qed.

(* ---------------- the side condition holds for every well-formed automaton with the
   compiler's prefix shape: the _partial theorems become the full statements *)
Lemma wf_starts A : wf_nfa A = true -> start_anch A < nstates A /\ start_unanch A < nstates A.
Proof.
  unfold wf_nfa. intros H. apply andb_prop in H as [H H2]. apply andb_prop in H as [_ H1].
  split; now apply Nat.ltb_lt.
Qed.

Theorem reverse_has_layout anchored A : wf_nfa A = true -> prefix_shape A = true -> has_layout anchored A.
Proof.
  intros Hwf Hps. destruct (wf_starts A Hwf) as [Ha Hu].
  exists (rv_m A anchored), (own_q A anchored), (own_f A anchored).
  apply reverse_layout; assumption.
Qed.

Theorem reverse_sound : reverse_sound_stmt.
Proof. intros anchored A h i j Hwf Hnl Hps. apply reverse_sound_partial; auto. now apply reverse_has_layout. Qed.

Theorem reverse_complete : reverse_complete_stmt.
Proof. intros anchored A h i j Hwf Hnl Hps. apply reverse_complete_partial; auto. now apply reverse_has_layout. Qed.

Theorem reverse_leftmost_start : reverse_leftmost_start_stmt.
Proof. intros anchored A h i j Hwf Hnl Hps. apply reverse_leftmost_start_partial; auto. now apply reverse_has_layout. Qed.

(* nfa.Reverse (anchored = false): the proxy decision — no reverse path from j reaches
   Match at a position that does not start a forward match ending at j; in particular the
   reversed unanchored prefix does not let the path run on to the left *)
Theorem reverse_unanchored_no_overrun A h i j :
  wf_nfa A = true -> no_look A = true -> prefix_shape A = true ->
  ~ nfa_path A h (start_anch A) i j ->
  ~ rpath (reverse_nfa false A) h (start_anch (reverse_nfa false A)) j i.
Proof. intros Hwf Hnl Hps Hno Hp. apply Hno. now apply (reverse_sound false). Qed.

(* ================================================================== case checker *)
(* One case of the correspondence run (harness reverse-cases): the forward automaton and
   the two reversed automata dumped from the real code. *)
Record case := mkCase { c_id : N; c_fwd : nfa; c_rev_anch : nfa; c_rev_unanch : nfa }.

(* 0 = ok; 1 = the forward automaton violates a hypothesis of the theorems (wf_nfa /
   prefix_shape; Look states are allowed here: the equality of the construction does not
   depend on them); 2 = ReverseAnchored differs from the model; 3 = Reverse differs *)
Definition case_verdict (c : case) : N :=
  if negb (wf_nfa (c_fwd c) && prefix_shape (c_fwd c)) then 1%N
  else if negb (nfa_eqb (reverse_nfa true (c_fwd c)) (c_rev_anch c)) then 2%N
  else if negb (nfa_eqb (reverse_nfa false (c_fwd c)) (c_rev_unanch c)) then 3%N
  else 0%N.

Definition check_case (c : case) : bool := (case_verdict c =? 0)%N.

Definition mismatches (cs : list case) : list N :=
  map c_id (filter (fun c => negb (check_case c)) cs).

Definition mismatch_kinds (cs : list case) : list (N * N) :=
  map (fun c => (c_id c, case_verdict c)) (filter (fun c => negb (check_case c)) cs).

(* a passing case transfers the reversal theorems to the automata dumped from the real code *)
Theorem check_case_sound c : check_case c = true -> no_look (c_fwd c) = true ->
  forall h i j,
    (nfa_path (c_fwd c) h (start_anch (c_fwd c)) i j <->
     rpath (c_rev_anch c) h (start_anch (c_rev_anch c)) j i) /\
    (nfa_path (c_fwd c) h (start_anch (c_fwd c)) i j <->
     rpath (c_rev_unanch c) h (start_anch (c_rev_unanch c)) j i).
Proof.
  unfold check_case, case_verdict. intros H Hnl h i j.
  destruct (wf_nfa (c_fwd c) && prefix_shape (c_fwd c)) eqn:Hh; [|discriminate]. cbn [negb] in H.
  apply andb_prop in Hh as [Hwf Hps].
  destruct (nfa_eqb (reverse_nfa true (c_fwd c)) (c_rev_anch c)) eqn:E1; [|discriminate]. cbn [negb] in H.
  destruct (nfa_eqb (reverse_nfa false (c_fwd c)) (c_rev_unanch c)) eqn:E2; [|discriminate].
  apply nfa_eqb_eq in E1, E2. rewrite <- E1, <- E2. split; split.
  - now apply reverse_complete.
  - now apply reverse_sound.
  - now apply reverse_complete.
  - now apply reverse_sound.
Qed.
