(* Property C09: Compile accepts stdlib's language and reports stdlib's metadata.
   Statements only; models and proofs are in Quote.v.  The accepted language, the error
   texts and LiteralPrefix are compared with package regexp by the harness (c09) only. *)
Require Import List NArith ZArith Bool Arith.
From CV Require Import Quote.
Import ListNotations.

(* --- QuoteMeta ------------------------------------------------------------ *)

Theorem C09_quote_meta_eq_std : forall s : list N, quote_meta s = quote_meta_std s.
Proof. exact Quote.quote_meta_eq_std. Qed.
Print Assumptions C09_quote_meta_eq_std.

Theorem C09_special_std_eq : forall c : N, special_std c = is_special c.
Proof. exact Quote.special_std_eq. Qed.
Print Assumptions C09_special_std_eq.

Theorem C09_quote_unquote : forall s : list N, unquote (quote_meta s) = Some s.
Proof. exact Quote.quote_unquote. Qed.
Print Assumptions C09_quote_unquote.

Theorem C09_quote_all_specials_escaped : forall s : list N, escaped (quote_meta s).
Proof. exact Quote.quote_all_specials_escaped. Qed.
Print Assumptions C09_quote_all_specials_escaped.

Theorem C09_escaped_iff_unquote : forall p : list N,
  escaped p <-> exists s, unquote p = Some s.
Proof. exact Quote.escaped_iff_unquote. Qed.
Print Assumptions C09_escaped_iff_unquote.

Theorem C09_unquote_some_iff : forall p s : list N,
  unquote p = Some s <-> p = quote_meta s.
Proof. exact Quote.unquote_some_iff. Qed.
Print Assumptions C09_unquote_some_iff.

Theorem C09_quote_matches_exactly : forall s h : list N,
  lit_matches (quote_meta s) h <-> h = s.
Proof. exact Quote.quote_matches_exactly. Qed.
Print Assumptions C09_quote_matches_exactly.

Theorem C09_quote_meta_injective : forall a b : list N,
  quote_meta a = quote_meta b -> a = b.
Proof. exact Quote.quote_meta_injective. Qed.
Print Assumptions C09_quote_meta_injective.

Theorem C09_quote_meta_id_iff : forall s : list N,
  quote_meta s = s <-> forallb (fun c => negb (is_special c)) s = true.
Proof. exact Quote.quote_meta_id_iff. Qed.
Print Assumptions C09_quote_meta_id_iff.

Theorem C09_quote_meta_idempotent_iff : forall s : list N,
  quote_meta (quote_meta s) = quote_meta s <-> quote_meta s = s.
Proof. exact Quote.quote_meta_idempotent_iff. Qed.
Print Assumptions C09_quote_meta_idempotent_iff.

Theorem C09_quote_meta_length : forall s : list N,
  length (quote_meta s) = length s + count_special s.
Proof. exact Quote.quote_meta_length. Qed.
Print Assumptions C09_quote_meta_length.

Theorem C09_quote_meta_length_bound : forall s : list N,
  length s <= length (quote_meta s) <= 2 * length s.
Proof. exact Quote.quote_meta_length_bound. Qed.
Print Assumptions C09_quote_meta_length_bound.

Theorem C09_quote_meta_app : forall a b : list N,
  quote_meta (a ++ b) = quote_meta a ++ quote_meta b.
Proof. exact Quote.quote_meta_app. Qed.
Print Assumptions C09_quote_meta_app.

(* --- NumSubexp, SubexpNames, SubexpIndex ---------------------------------- *)

Theorem C09_names_length : forall r : re,
  length (subexp_names r) = num_subexp r + 1.
Proof. exact Quote.names_length. Qed.
Print Assumptions C09_names_length.

Theorem C09_names_zero_empty : forall r : re, nth_error (subexp_names r) 0 = Some [].
Proof. exact Quote.names_zero_empty. Qed.
Print Assumptions C09_names_zero_empty.

(* coregex's traversal (nfa.collectCaptureInfo) = stdlib's (syntax.MaxCap, CapNames) on
   every numbered tree *)
Theorem C09_cx_traversal_eq_std : forall p : pre,
  cx_capture_count p = max_cap p /\ cx_subexp_names p = std_cap_names p.
Proof. exact Quote.cx_traversal_eq_std. Qed.
Print Assumptions C09_cx_traversal_eq_std.

(* both produce the names in the order of the opening parentheses *)
Theorem C09_std_names_spec : forall r : re,
  std_cap_names (parse r) = subexp_names r /\ max_cap (parse r) = num_subexp r.
Proof. exact Quote.std_names_spec. Qed.
Print Assumptions C09_std_names_spec.

Theorem C09_cx_names_spec : forall r : re,
  cx_subexp_names (parse r) = subexp_names r /\ cx_num_subexp (parse r) = num_subexp r.
Proof. exact Quote.cx_names_spec. Qed.
Print Assumptions C09_cx_names_spec.

Theorem C09_subexp_index_eq_std : forall (names : list (list N)) (name : list N),
  subexp_index_cx names name = subexp_index_std names name.
Proof. exact Quote.subexp_index_eq_std. Qed.
Print Assumptions C09_subexp_index_eq_std.

Theorem C09_subexp_index_spec : forall (r : re) (name : list N),
  let names := subexp_names r in
  (name = [] -> subexp_index r name = (-1)%Z) /\
  (name <> [] ->
     (subexp_index r name = (-1)%Z /\ ~ In name names) \/
     (exists i, subexp_index r name = Z.of_nat i /\ 1 <= i <= num_subexp r /\
                nth_error names i = Some name /\
                forall j, j < i -> nth_error names j <> Some name)).
Proof. exact Quote.subexp_index_spec. Qed.
Print Assumptions C09_subexp_index_spec.

(* --- Copy, Longest, MarshalText, UnmarshalText ----------------------------- *)

Theorem C09_copy_independent : forall (st : store) (a : nat) (r : regex),
  get st a = Some r ->
  exists a', copy_at st a = (st ++ [copy r], Some a') /\ a' <> a /\
    let st1 := fst (copy_at st a) in
    get st1 a = Some r /\ get st1 a' = Some r /\
    get (longest_at st1 a') a = Some r /\
    get (longest_at st1 a') a' = Some (set_longest r) /\
    get (longest_at st1 a) a' = Some r /\
    get (longest_at st1 a) a = Some (set_longest r).
Proof. exact Quote.copy_independent. Qed.
Print Assumptions C09_copy_independent.

Theorem C09_marshal_roundtrip : forall (compiles : list N -> bool) (r : regex),
  compiles (pattern r) = true ->
  unmarshal compiles (marshal r) = Some (mkRegex (pattern r) false) /\
  (longest r = false -> unmarshal compiles (marshal r) = Some r) /\
  (forall r', unmarshal compiles (marshal r) = Some r' -> marshal r' = marshal r).
Proof. exact Quote.marshal_roundtrip. Qed.
Print Assumptions C09_marshal_roundtrip.

(* --- nesting depth: REFUTED for the default configuration ------------------- *)

Theorem C09_accepts_equiv_refuted :
  exists r, accepts_depth_parser r = true /\ accepts_depth_cx r = false.
Proof. exact Quote.accepts_equiv_refuted. Qed.
Print Assumptions C09_accepts_equiv_refuted.

Theorem C09_accepts_equiv_refuted_min :
  accepts_depth_parser (nest 100 Leaf) = true /\ accepts_depth_cx (nest 100 Leaf) = false /\
  accepts_depth_cx (nest 99 Leaf) = true.
Proof. exact Quote.accepts_equiv_refuted_min. Qed.
Print Assumptions C09_accepts_equiv_refuted_min.

Theorem C09_accepts_equiv_partial : forall r : re,
  (depth r <= 100 -> accepts_depth_cx r = true /\ accepts_depth_parser r = true) /\
  (1000 < depth r -> accepts_depth_cx r = false /\ accepts_depth_parser r = false) /\
  (accepts_depth_cx r = true -> accepts_depth_parser r = true) /\
  (100 < depth r <= 1000 -> accepts_depth_cx r = false /\ accepts_depth_parser r = true).
Proof. exact Quote.accepts_equiv_partial. Qed.
Print Assumptions C09_accepts_equiv_partial.

Theorem C09_accepts_equiv_config_1000 : forall r : re,
  accepts_depth_cfg 1000 r = accepts_depth_parser r.
Proof. exact Quote.accepts_equiv_config_1000. Qed.
Print Assumptions C09_accepts_equiv_config_1000.
