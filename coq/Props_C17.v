(* Property C17: extracted literals are necessary for every match.
   Statements only; models and proofs are in Literal.v. *)
Require Import List NArith ZArith Bool Arith.
From CV Require Import Nfa Literal.
Import ListNotations.

(* ---- certified cover checkers on (dumped NFA, extracted literal set): a Covered verdict
   holds for ALL haystacks and ALL matches of the compiled pattern *)
Theorem C17_prefix_cover_sound : forall (A : nfa) (L : list (list N)),
  wf_nfa A = true -> prefix_cover A L = Covered ->
  forall h s e, nfa_path A h (start_anch A) s e -> exists l, In l L /\ is_prefix l (sub h s e).
Proof. exact Literal.prefix_cover_sound. Qed.
Print Assumptions C17_prefix_cover_sound.

Theorem C17_suffix_cover_sound : forall (A : nfa) (L : list (list N)),
  wf_nfa A = true -> suffix_cover A L = Covered ->
  forall h s e, nfa_path A h (start_anch A) s e -> exists l, In l L /\ is_suffix l (sub h s e).
Proof. exact Literal.suffix_cover_sound. Qed.
Print Assumptions C17_suffix_cover_sound.

Theorem C17_inner_cover_sound : forall (A : nfa) (L : list (list N)),
  wf_nfa A = true -> inner_cover A L = Covered ->
  forall h s e, nfa_path A h (start_anch A) s e -> exists l, In l L /\ is_infix l (sub h s e).
Proof. exact Literal.inner_cover_sound. Qed.
Print Assumptions C17_inner_cover_sound.

(* a literal accepted by complete_ok is by itself an entire match *)
Theorem C17_complete_ok_sound : forall (A : nfa) (l : list N),
  complete_ok A l = true -> nfa_path A l (start_anch A) 0 (length l).
Proof. exact Literal.complete_ok_sound. Qed.
Print Assumptions C17_complete_ok_sound.

(* every real NFA path is a path of the relaxed graph (Look states as epsilon moves) over
   exactly the bytes it consumes *)
Theorem C17_path_relaxed : forall (A : nfa) (h : hay) (c c' : nat * nat), reach A h c c' ->
  snd c <= snd c' /\ gpath (Ef A) (fst c) (sub h (snd c) (snd c')) (fst c').
Proof. exact Literal.path_relaxed. Qed.
Print Assumptions C17_path_relaxed.

Theorem C17_check_case_sound : forall c : case,
  wf_nfa (c_nfa c) = true -> case_skipped c = false -> check_case c = Covered ->
  forall h s e, nfa_path (c_nfa c) h (start_anch (c_nfa c)) s e ->
  exists l, In l (c_lits c) /\
    match c_kind c with
    | KPrefix => is_prefix (lit_bytes l) (sub h s e)
    | KSuffix => is_suffix (lit_bytes l) (sub h s e)
    | KInner => is_infix (lit_bytes l) (sub h s e)
    end.
Proof. exact Literal.check_case_sound. Qed.
Print Assumptions C17_check_case_sound.

(* ---- the Seq algebra keeps coverage of an arbitrary set of strings M *)
Theorem C17_minimize_preserves_cover : forall (L : list literal) (M : list N -> Prop),
  covers_prefix L M -> covers_prefix (minimize L) M.
Proof. exact Literal.minimize_preserves_cover. Qed.
Print Assumptions C17_minimize_preserves_cover.

Theorem C17_dedup_preserves_cover : forall (L : list literal) (M : list N -> Prop),
  covers_prefix L M -> covers_prefix (dedup L) M.
Proof. exact Literal.dedup_preserves_cover. Qed.
Print Assumptions C17_dedup_preserves_cover.

Theorem C17_keep_first_bytes_preserves_cover : forall (n : nat) (L : list literal) (M : list N -> Prop),
  covers_prefix L M -> covers_prefix (keep_first_bytes n L) M.
Proof. exact Literal.keep_first_bytes_preserves_cover. Qed.
Print Assumptions C17_keep_first_bytes_preserves_cover.

Theorem C17_keep_first_bytes_clears_complete : forall (n : nat) (L : list literal) (l' : literal),
  In l' (keep_first_bytes n L) -> lit_complete l' = true -> In l' L.
Proof. exact Literal.keep_first_bytes_clears_complete. Qed.
Print Assumptions C17_keep_first_bytes_clears_complete.

Theorem C17_enforce_max_literal_len_clears_complete : forall (mx : nat) (L : list literal) (l' : literal),
  In l' (enforce_max_literal_len mx L) -> lit_complete l' = true -> In l' L.
Proof. exact Literal.enforce_max_literal_len_clears_complete. Qed.
Print Assumptions C17_enforce_max_literal_len_clears_complete.

Theorem C17_cross_forward_sound : forall (L1 L2 : list literal) (M1 M2 : list N -> Prop),
  covers_exact L1 M1 -> covers_prefix L2 M2 -> covers_prefix (cross_forward L1 L2) (cat_lang M1 M2).
Proof. exact Literal.cross_forward_sound. Qed.
Print Assumptions C17_cross_forward_sound.

Theorem C17_cross_forward_exact : forall (L1 L2 : list literal) (M1 M2 : list N -> Prop),
  covers_exact L1 M1 -> covers_exact L2 M2 -> covers_exact (cross_forward L1 L2) (cat_lang M1 M2).
Proof. exact Literal.cross_forward_exact. Qed.
Print Assumptions C17_cross_forward_exact.

Theorem C17_lcp_is_common_prefix : forall (L : list literal) (l : literal),
  In l L -> is_prefix (longest_common_prefix L) (lit_bytes l).
Proof. exact Literal.lcp_is_common_prefix. Qed.
Print Assumptions C17_lcp_is_common_prefix.

Theorem C17_lcp_covers : forall (L : list literal) (M : list N -> Prop) (m : list N),
  covers_prefix L M -> M m -> is_prefix (longest_common_prefix L) m.
Proof. exact Literal.lcp_covers. Qed.
Print Assumptions C17_lcp_covers.

Theorem C17_lcs_is_common_suffix : forall (L : list literal) (l : literal),
  In l L -> is_suffix (longest_common_suffix L) (lit_bytes l).
Proof. exact Literal.lcs_is_common_suffix. Qed.
Print Assumptions C17_lcs_is_common_suffix.

Theorem C17_lcs_covers : forall (L : list literal) (M : list N -> Prop) (m : list N),
  covers_suffix L M -> M m -> is_suffix (longest_common_suffix L) m.
Proof. exact Literal.lcs_covers. Qed.
Print Assumptions C17_lcs_covers.

(* ---- where the faithful model of the Go code violates the guarantee *)

(* extractor.go extractPrefixes/OpLiteral (also generateCaseFoldVariants, expandCharClass):
   truncation to MaxLiteralLen keeps Complete = true *)
Theorem C17_literal_truncation_keeps_complete_refuted : exists mx bytes l,
  In l (literal_prefix_seq mx bytes) /\ lit_complete l = true /\ lit_bytes l <> bytes /\
  ~ covers_exact (literal_prefix_seq mx bytes) (fun m => m = bytes).
Proof. exact Literal.literal_truncation_keeps_complete_refuted. Qed.
Print Assumptions C17_literal_truncation_keeps_complete_refuted.

(* ... and such a literal breaks the cross product *)
Theorem C17_cross_forward_needs_exact_refuted : exists L1 L2 M1 M2,
  covers_prefix L1 M1 /\ covers_prefix L2 M2 /\ ~ covers_prefix (cross_forward L1 L2) (cat_lang M1 M2).
Proof. exact Literal.cross_forward_needs_exact_refuted. Qed.
Print Assumptions C17_cross_forward_needs_exact_refuted.

(* extractor.go extractPrefixesConcat: an empty (non-nil) contribution is skipped as if it
   were the empty string *)
Theorem C17_concat_step_empty_contribution_refuted : exists acc M1 M2 M3 c3,
  covers_exact acc M1 /\ covers_exact c3 M3 /\
  ~ covers_prefix (concat_step (concat_step acc (Some [])) (Some c3)) (cat_lang (cat_lang M1 M2) M3).
Proof. exact Literal.concat_step_empty_contribution_refuted. Qed.
Print Assumptions C17_concat_step_empty_contribution_refuted.

(* extractor.go handleCrossProductOverflow: literals[:MaxLiterals] without partialCoverage *)
Theorem C17_handle_cross_product_overflow_refuted : exists maxlits L M,
  covers_prefix L M /\ ~ covers_prefix (handle_cross_product_overflow maxlits L) M.
Proof. exact Literal.handle_cross_product_overflow_refuted. Qed.
Print Assumptions C17_handle_cross_product_overflow_refuted.

(* the bare list truncation used in the other extraction paths *)
Theorem C17_truncate_list_refuted : exists maxlits L M,
  covers_prefix L M /\ ~ covers_prefix (firstn maxlits L) M.
Proof. exact Literal.truncate_list_refuted. Qed.
Print Assumptions C17_truncate_list_refuted.

(* seq.go Clone forgets partialCoverage *)
Theorem C17_clone_drops_partial_refuted : exists s, partial (clone s) <> partial s.
Proof. exact Literal.clone_drops_partial_refuted. Qed.
Print Assumptions C17_clone_drops_partial_refuted.

(* Minimize is a prefix operation: it loses coverage on suffix sets *)
Theorem C17_minimize_suffix_refuted : exists L M,
  covers_suffix L M /\ ~ covers_suffix (minimize L) M.
Proof. exact Literal.minimize_suffix_refuted. Qed.
Print Assumptions C17_minimize_suffix_refuted.
