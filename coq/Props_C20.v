(* Property C20 (bounded memory).  Statements only; models and proofs are in Cache.v (lazy DFA
   cache accounting, dfa/lazy/cache.go + lazy.go) and Backtrack.v (visited table).
   NOTE: the property's wording "never exceeds its configured capacity by more than one state"
   is refuted for the code (C20_cache_mem_bound_refuted); the bounds that do hold follow. *)
From Coq Require Import List NArith Arith.
From CV Require Import Nfa Backtrack Cache.
Import ListNotations.

Theorem C20_cache_base_bound : forall (max_clears max_k : nat) (ops : list op) (cap str : nat),
  Forall (wf_op max_k) ops ->
  base_usage (run max_clears ops (new_cache cap str)) < cap + state_cost max_k str + slot0_cost str.
Proof. exact Cache.cache_base_bound. Qed.
Print Assumptions C20_cache_base_bound.

Theorem C20_cache_mem_bound : forall (max_clears max_k : nat) (ops : list op) (cap str : nat),
  Forall (wf_op max_k) ops ->
  let c := run max_clears ops (new_cache cap str) in
  memory_usage c < cap + state_cost max_k str + slot0_cost str + 3 * state_list_len c.
Proof. exact Cache.cache_mem_bound. Qed.
Print Assumptions C20_cache_mem_bound.

Theorem C20_cache_mem_bound_obs : forall (max_clears max_k : nat) (ops : list op) (cap str : nat),
  Forall (wf_op max_k) ops ->
  let c := run max_clears ops (new_cache cap str) in
  memory_usage c < cap + state_cost max_k str + slot0_cost str + 3 * (nstates_in_map c + 1).
Proof. exact Cache.cache_mem_bound_obs. Qed.
Print Assumptions C20_cache_mem_bound_obs.

Theorem C20_cache_mem_bound_closed : forall (max_clears max_k : nat) (ops : list op) (cap str : nat),
  Forall (wf_op max_k) ops ->
  8 * memory_usage (run max_clears ops (new_cache cap str)) < 11 * (cap + state_cost max_k str + slot0_cost str).
Proof. exact Cache.cache_mem_bound_closed. Qed.
Print Assumptions C20_cache_mem_bound_closed.

Theorem C20_cache_mem_bound_no_accel : forall (max_clears max_k : nat) (ops : list op) (cap str : nat),
  Forall (wf_op max_k) ops -> Forall (fun o => match o with OpAccel a => a = 0 | _ => True end) ops ->
  memory_usage (run max_clears ops (new_cache cap str)) < cap + state_cost max_k str + slot0_cost str.
Proof. exact Cache.cache_mem_bound_no_accel. Qed.
Print Assumptions C20_cache_mem_bound_no_accel.

Theorem C20_cache_mem_bound_refuted :
  exists (mc max_k cap str : nat) (ops : list op),
    Forall (wf_op max_k) ops /\
    memory_usage (run mc ops (new_cache cap str)) > cap + (state_cost max_k str + 3) + slot0_cost str.
Proof. exact Cache.cache_mem_bound_refuted. Qed.
Print Assumptions C20_cache_mem_bound_refuted.

Theorem C20_clear_count_bounded : forall (max_clears : nat) (ops : list op) (c : dcache),
  clear_count (run max_clears ops c) <= Nat.max max_clears (clear_count c).
Proof. exact Cache.clear_count_bounded. Qed.
Print Assumptions C20_clear_count_bounded.

Theorem C20_clear_count_bounded_fresh : forall (max_clears : nat) (ops : list op) (cap str : nat),
  clear_count (run max_clears ops (new_cache cap str)) <= max_clears.
Proof. exact Cache.clear_count_bounded_fresh. Qed.
Print Assumptions C20_clear_count_bounded_fresh.

Theorem C20_insert_refused_when_full : forall (c : dcache) (fixed : bool),
  capacity c <= memory_usage c -> insert c fixed = (c, false, 0).
Proof. exact Cache.insert_refused_when_full. Qed.
Print Assumptions C20_insert_refused_when_full.

Theorem C20_insert_monotone : forall (c : dcache) (fixed : bool),
  memory_usage c < capacity c ->
  let '(c', ok, _) := insert c fixed in
  ok = true /\ memory_usage c + 48 <= memory_usage c' /\
  nstates_in_map c' = S (nstates_in_map c) /\ flat_len c <= flat_len c' /\
  flat_len c' <= Nat.max (flat_len c) ((next_id c + 1) * stride c).
Proof. exact Cache.insert_monotone. Qed.
Print Assumptions C20_insert_monotone.

Theorem C20_clear_releases : forall c : dcache,
  memory_usage (clear_keep_memory c) = 0 /\ memory_usage (Cache.reset c) = 0.
Proof. exact Cache.clear_releases. Qed.
Print Assumptions C20_clear_releases.

Theorem C20_try_clear_inserts_start : forall (c : dcache) (k0 : nat),
  0 < capacity c -> nstates_in_map (try_clear c k0) = 1.
Proof. exact Cache.try_clear_inserts_start. Qed.
Print Assumptions C20_try_clear_inserts_start.

(* ---- the bounded backtracker's visited table *)
Theorem C20_visited_cap_bound : forall (W : N), (2 <= W)%N -> forall (A : nfa) (max_visited : nat),
  wf_nfa A = true -> forall (cs : list (call)) (st : bstate),
  bt_inv W st -> length (cells st) <= max_visited ->
  length (cells (run_calls W A max_visited st cs)) <= max_visited.
Proof. exact Backtrack.visited_cap_bound. Qed.
Print Assumptions C20_visited_cap_bound.

Theorem C20_visited_cap_exact : forall (W : N), (2 <= W)%N -> forall (A : nfa) (max_visited : nat),
  wf_nfa A = true -> forall (cs : list (call)) (st : bstate), bt_inv W st ->
  length (cells (run_calls W A max_visited st cs)) =
  fold_left (fun m c => Nat.max m (call_need A max_visited c)) cs (length (cells st)).
Proof. exact Backtrack.visited_cap_exact. Qed.
Print Assumptions C20_visited_cap_exact.
