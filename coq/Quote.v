(* Quote.v — property C09 "Compile accepts stdlib's language and reports stdlib's
   metadata".

   Models (Go code of /repo, oracle = Go 1.25.4 $GOROOT/src/regexp):

     /repo/regex.go:QuoteMeta, isSpecial          two passes: count the special bytes,
                                                   return s unchanged when there are none,
                                                   else fill a buffer of len(s)+n bytes
     regexp/regexp.go:QuoteMeta, special, init     bitmap test, scan to the first special
                                                   byte, copy the prefix, escape the rest
     /repo/nfa/compile.go:collectCaptureInfo       countCapturesRecursive (running maximum of
       countCapturesRecursive, collectNamesRecursive  re.Cap), then names[re.Cap] = re.Name
     regexp/syntax/regexp.go:MaxCap, CapNames      the stdlib traversal
     /repo/nfa/nfa.go:SubexpNames, /repo/meta/engine.go:SubexpNames, NumCaptures
     /repo/regex.go:NumSubexp, SubexpNames, SubexpIndex, Copy, Longest, MarshalText,
                    UnmarshalText
     /repo/nfa/compile.go:compileRegexp            the recursion guard
                                                   `c.depth++; if c.depth > MaxRecursionDepth`
     regexp/syntax/parse.go:checkHeight            maxHeight = 1000

   What is NOT modelled: regexp/syntax.Parse itself (the set of accepted patterns and the
   error texts are compared by the harness sub-command c09 only); LiteralPrefix (compared by
   the harness only); matching, except for the escaped-literal fragment [unquote].

   Bytes are N (< 256 in every case that comes from Go; the theorems hold for every N). *)

From Coq Require Import List NArith ZArith Lia Bool Arith.
Require Import ZifyBool ZifyNat ZifyN.
Import ListNotations.

(* ------------------------------------------------------------------------- *)
(* 1. QuoteMeta                                                               *)
(* ------------------------------------------------------------------------- *)

Local Open Scope N_scope.

(* regex.go:QuoteMeta  const special = `\.+*?()|[]{}^$` *)
Definition special : list N :=
  [92; 46; 43; 42; 63; 40; 41; 124; 91; 93; 123; 125; 94; 36].

(* regex.go:isSpecial — linear scan of the string *)
Fixpoint is_special_in (c : N) (sp : list N) : bool :=
  match sp with
  | [] => false
  | x :: t => if N.eqb c x then true else is_special_in c t
  end.

Definition is_special (c : N) : bool := is_special_in c special.

(* regex.go:QuoteMeta, first loop: n = number of bytes that need escaping *)
Fixpoint count_special (s : list N) : nat :=
  match s with
  | [] => O
  | c :: t => if is_special c then S (count_special t) else count_special t
  end.

(* regex.go:QuoteMeta, second loop *)
Fixpoint escape_all (s : list N) : list N :=
  match s with
  | [] => []
  | c :: t => if is_special c then 92 :: c :: escape_all t else c :: escape_all t
  end.

(* regex.go:QuoteMeta *)
Definition quote_meta (s : list N) : list N :=
  if Nat.eqb (count_special s) 0 then s else escape_all s.

(* regexp.go:init — specialBytes[b%16] |= 1 << (b/16) for each b of the same string *)
Fixpoint set_nth (l : list N) (i : nat) (f : N -> N) : list N :=
  match l, i with
  | [], _ => []
  | x :: t, O => f x :: t
  | x :: t, S i' => x :: set_nth t i' f
  end.

Definition special_bytes_init : list N :=
  fold_left (fun tbl b => set_nth tbl (N.to_nat (b mod 16)) (fun v => N.lor v (N.shiftl 1 (b / 16))))
            special (repeat 0 16).

Definition special_bytes : list N := Eval vm_compute in special_bytes_init.

(* regexp.go:special — b < utf8.RuneSelf && specialBytes[b%16]&(1<<(b/16)) != 0 *)
Definition special_std (b : N) : bool :=
  (b <? 128) && negb (N.land (nth (N.to_nat (b mod 16)) special_bytes 0) (N.shiftl 1 (b / 16)) =? 0).

Fixpoint escape_all_std (s : list N) : list N :=
  match s with
  | [] => []
  | c :: t => if special_std c then 92 :: c :: escape_all_std t else c :: escape_all_std t
  end.

(* regexp.go:QuoteMeta, first loop: index of the first special byte, len(s) if none *)
Fixpoint first_special (s : list N) : nat :=
  match s with
  | [] => O
  | c :: t => if special_std c then O else S (first_special t)
  end.

(* regexp.go:QuoteMeta *)
Definition quote_meta_std (s : list N) : list N :=
  let i := first_special s in
  if (length s <=? i)%nat then s
  else firstn i s ++ escape_all_std (skipn i s).

(* --- the two "special" tests agree on every N ---------------------------- *)

Lemma is_special_in_In c sp : is_special_in c sp = true <-> In c sp.
Proof.
  induction sp as [|x t IH]; cbn [is_special_in In].
  - split; [discriminate | tauto].
  - destruct (N.eqb_spec c x) as [E|E].
    + split; auto.
    + rewrite IH. split; [auto | intros [H|H]; [congruence | exact H]].
Qed.

Lemma special_lt_128 c : is_special c = true -> c < 128.
Proof.
  unfold is_special. rewrite is_special_in_In. unfold special.
  cbn [In]. intros H.
  repeat (destruct H as [H|H]; [subst c; reflexivity|]). contradiction.
Qed.

Definition bytes_below (n : nat) : list N := map N.of_nat (seq 0 n).

Lemma special_agree_table :
  forallb (fun b => Bool.eqb (special_std b) (is_special b)) (bytes_below 128) = true.
Proof. vm_compute. reflexivity. Qed.

Lemma special_std_eq c : special_std c = is_special c.
Proof.
  destruct (N.ltb_spec c 128) as [L|L].
  - pose proof special_agree_table as T. rewrite forallb_forall in T.
    specialize (T c). apply eqb_prop. apply T.
    unfold bytes_below. apply in_map_iff. exists (N.to_nat c). split; [lia|].
    apply in_seq. lia.
  - unfold special_std. destruct (N.ltb_spec c 128) as [L'|L']; [lia|].
    cbn [andb]. destruct (is_special c) eqn:E; [|reflexivity].
    apply special_lt_128 in E. lia.
Qed.

Lemma escape_all_std_eq s : escape_all_std s = escape_all s.
Proof.
  induction s as [|c t IH]; [reflexivity|]. cbn [escape_all_std escape_all].
  rewrite special_std_eq, IH. reflexivity.
Qed.

(* --- facts on the coregex function --------------------------------------- *)

Lemma escape_all_nospecial s : count_special s = O -> escape_all s = s.
Proof.
  induction s as [|c t IH]; [reflexivity|]. cbn [count_special escape_all].
  destruct (is_special c); [discriminate|]. intros H. rewrite IH; auto.
Qed.

(* the early return is only an optimisation *)
Lemma quote_meta_escape_all s : quote_meta s = escape_all s.
Proof.
  unfold quote_meta. destruct (Nat.eqb_spec (count_special s) 0) as [E|E]; [|reflexivity].
  symmetry. apply escape_all_nospecial. exact E.
Qed.

(* the buffer make([]byte, len(s)+n) is filled exactly *)
Lemma quote_meta_length s : length (quote_meta s) = (length s + count_special s)%nat.
Proof.
  rewrite quote_meta_escape_all.
  induction s as [|c t IH]; [reflexivity|]. cbn [escape_all count_special].
  destruct (is_special c); cbn [length]; lia.
Qed.

Lemma count_special_le s : (count_special s <= length s)%nat.
Proof.
  induction s as [|c t IH]; [cbn; lia|]. cbn [count_special length].
  destruct (is_special c); lia.
Qed.

Lemma quote_meta_length_bound s :
  (length s <= length (quote_meta s) <= 2 * length s)%nat.
Proof. rewrite quote_meta_length. pose proof (count_special_le s). lia. Qed.

Lemma quote_meta_app a b : quote_meta (a ++ b) = quote_meta a ++ quote_meta b.
Proof.
  rewrite !quote_meta_escape_all.
  induction a as [|c t IH]; [reflexivity|]. cbn [app escape_all].
  rewrite IH. destruct (is_special c); reflexivity.
Qed.

Lemma count_special_zero_iff s :
  count_special s = O <-> forallb (fun c => negb (is_special c)) s = true.
Proof.
  induction s as [|c t IH]; cbn [count_special forallb]; [tauto|].
  destruct (is_special c); cbn [negb andb]; [split; discriminate | exact IH].
Qed.

(* QuoteMeta is the identity exactly on the strings without a special byte *)
Lemma quote_meta_id_iff s :
  quote_meta s = s <-> forallb (fun c => negb (is_special c)) s = true.
Proof.
  rewrite <- count_special_zero_iff. split.
  - intros H. pose proof (quote_meta_length s) as L. rewrite H in L. lia.
  - intros H. rewrite quote_meta_escape_all. apply escape_all_nospecial. exact H.
Qed.

(* --- coregex = stdlib ------------------------------------------------------ *)

Lemma first_special_split s :
  escape_all_std s = firstn (first_special s) s ++ escape_all_std (skipn (first_special s) s).
Proof.
  induction s as [|c t IH]; [reflexivity|]. cbn [first_special].
  destruct (special_std c) eqn:E.
  - reflexivity.
  - cbn [firstn skipn app]. cbn [escape_all_std]. rewrite E. f_equal. exact IH.
Qed.

Lemma first_special_none s :
  (length s <= first_special s)%nat -> escape_all_std s = s.
Proof.
  induction s as [|c t IH]; [reflexivity|]. cbn [first_special length escape_all_std].
  destruct (special_std c); [lia|]. intros H. f_equal. apply IH. lia.
Qed.

Theorem quote_meta_eq_std s : quote_meta s = quote_meta_std s.
Proof.
  rewrite quote_meta_escape_all, <- escape_all_std_eq. unfold quote_meta_std.
  destruct (Nat.leb_spec (length s) (first_special s)) as [L|L].
  - apply first_special_none. exact L.
  - apply first_special_split.
Qed.

(* ------------------------------------------------------------------------- *)
(* 2. The escaped-literal fragment: a parser/matcher for what QuoteMeta emits  *)
(* ------------------------------------------------------------------------- *)

(* `\c` with c special stands for c; a byte that is not special stands for itself; an
   unescaped special byte, `\` before a non-special byte, or a trailing `\` leaves the
   fragment (None).  For these patterns regexp/syntax produces the literal string. *)
Fixpoint unquote (p : list N) : option (list N) :=
  match p with
  | [] => Some []
  | c :: t =>
      if N.eqb c 92 then
        match t with
        | d :: t' => if is_special d then option_map (cons d) (unquote t') else None
        | [] => None
        end
      else if is_special c then None
      else option_map (cons c) (unquote t)
  end.

(* every special byte is immediately preceded by its own escaping backslash *)
Inductive escaped : list N -> Prop :=
| esc_nil : escaped []
| esc_plain c t : is_special c = false -> escaped t -> escaped (c :: t)
| esc_pair c t : is_special c = true -> escaped t -> escaped (92 :: c :: t).

Definition lit_matches (p h : list N) : Prop :=
  exists s', unquote p = Some s' /\ h = s'.

Lemma special_92 : is_special 92 = true.
Proof. reflexivity. Qed.

Lemma unquote_escape_all s : unquote (escape_all s) = Some s.
Proof.
  induction s as [|c t IH]; [reflexivity|]. cbn [escape_all].
  destruct (is_special c) eqn:E.
  - cbn [unquote]. rewrite N.eqb_refl, E, IH. reflexivity.
  - cbn [unquote]. destruct (N.eqb_spec c 92) as [E92|E92].
    + subst c. rewrite special_92 in E. discriminate.
    + rewrite E, IH. reflexivity.
Qed.

Theorem quote_unquote s : unquote (quote_meta s) = Some s.
Proof. rewrite quote_meta_escape_all. apply unquote_escape_all. Qed.

Lemma escaped_escape_all s : escaped (escape_all s).
Proof.
  induction s as [|c t IH]; [constructor|]. cbn [escape_all].
  destruct (is_special c) eqn:E; constructor; assumption.
Qed.

Theorem quote_all_specials_escaped s : escaped (quote_meta s).
Proof. rewrite quote_meta_escape_all. apply escaped_escape_all. Qed.

(* strong induction on the length, used for the two-byte steps of unquote *)
Lemma list_len_ind {A} (P : list A -> Prop) :
  (forall l, (forall l', (length l' < length l)%nat -> P l') -> P l) -> forall l, P l.
Proof.
  intros H l. remember (length l) as n eqn:En. revert l En.
  induction n as [n IH] using lt_wf_ind. intros l En. apply H.
  intros l' Hl'. apply (IH (length l')); [lia | reflexivity].
Qed.

(* unquote inverts QuoteMeta and nothing else *)
Lemma unquote_some_escape_all p : forall s, unquote p = Some s -> p = escape_all s.
Proof.
  induction p as [p IH] using list_len_ind. intros s H.
  destruct p as [|c t]; cbn [unquote] in H.
  - injection H as <-. reflexivity.
  - destruct (N.eqb_spec c 92) as [E92|E92].
    + subst c. destruct t as [|d t']; [discriminate|].
      destruct (is_special d) eqn:Ed; [|discriminate].
      destruct (unquote t') as [s'|] eqn:Eu; [|discriminate].
      cbn [option_map] in H. injection H as <-.
      cbn [escape_all]. rewrite Ed. f_equal. f_equal.
      apply IH; [cbn [length]; lia | exact Eu].
    + destruct (is_special c) eqn:Ec; [discriminate|].
      destruct (unquote t) as [s'|] eqn:Eu; [|discriminate].
      cbn [option_map] in H. injection H as <-.
      cbn [escape_all]. rewrite Ec. f_equal.
      apply IH; [cbn [length]; lia | exact Eu].
Qed.

Theorem unquote_some_iff p s : unquote p = Some s <-> p = quote_meta s.
Proof.
  rewrite quote_meta_escape_all. split.
  - apply unquote_some_escape_all.
  - intros ->. apply unquote_escape_all.
Qed.

Theorem quote_meta_injective a b : quote_meta a = quote_meta b -> a = b.
Proof.
  intros H. pose proof (quote_unquote a) as Ha. rewrite H, quote_unquote in Ha.
  congruence.
Qed.

Theorem escaped_iff_unquote p : escaped p <-> exists s, unquote p = Some s.
Proof.
  split.
  - induction 1 as [|c t Hc _ [s IH]|c t Hc _ [s IH]].
    + exists []. reflexivity.
    + exists (c :: s). cbn [unquote]. destruct (N.eqb_spec c 92) as [E|E].
      * subst c. rewrite special_92 in Hc. discriminate.
      * rewrite Hc, IH. reflexivity.
    + exists (c :: s). cbn [unquote]. rewrite N.eqb_refl, Hc, IH. reflexivity.
  - intros [s H]. apply unquote_some_escape_all in H. subst p. apply escaped_escape_all.
Qed.

(* the pattern QuoteMeta(s), read as an escaped literal, matches exactly s *)
Theorem quote_matches_exactly s h : lit_matches (quote_meta s) h <-> h = s.
Proof.
  unfold lit_matches. split.
  - intros [s' [H ->]]. rewrite quote_unquote in H. congruence.
  - intros ->. exists s. split; [apply quote_unquote | reflexivity].
Qed.

(* QuoteMeta applied twice is not idempotent unless nothing was escaped *)
Theorem quote_meta_idempotent_iff s :
  quote_meta (quote_meta s) = quote_meta s <-> quote_meta s = s.
Proof.
  split.
  - intros H. apply quote_meta_injective in H. exact H.
  - intros H. rewrite !H. reflexivity.
Qed.

Close Scope N_scope.

(* ------------------------------------------------------------------------- *)
(* 3. Capture metadata                                                        *)
(* ------------------------------------------------------------------------- *)

(* Source-level shape of a pattern: only what the metadata depends on.  Leaf = any node
   without sub-expressions, Cap = a capturing group, Node = any other operator. *)
Inductive re : Type :=
| Leaf : re
| Cap (name : list N) (r : re) : re
| Node (rs : list re) : re.

Section re_induction.
  Variable P : re -> Prop.
  Hypothesis HL : P Leaf.
  Hypothesis HC : forall n r, P r -> P (Cap n r).
  Hypothesis HN : forall rs, Forall P rs -> P (Node rs).
  Fixpoint re_ind' (r : re) : P r :=
    match r with
    | Leaf => HL
    | Cap n r' => HC n r' (re_ind' r')
    | Node rs => HN rs ((fix go (l : list re) : Forall P l :=
                           match l with
                           | [] => Forall_nil P
                           | x :: t => Forall_cons x (re_ind' x) (go t)
                           end) rs)
    end.
End re_induction.

(* the specification: captures in the order of their opening parenthesis *)
Fixpoint names_pre (r : re) : list (list N) :=
  match r with
  | Leaf => []
  | Cap n r' => n :: names_pre r'
  | Node rs => flat_map names_pre rs
  end.

Fixpoint num_subexp (r : re) : nat :=
  match r with
  | Leaf => O
  | Cap _ r' => S (num_subexp r')
  | Node rs => fold_right (fun x a => (num_subexp x + a)%nat) O rs
  end.

Definition subexp_names (r : re) : list (list N) := [] :: names_pre r.

Definition names_list (rs : list re) : list (list N) := flat_map names_pre rs.
Definition num_list (rs : list re) : nat := fold_right (fun x a => (num_subexp x + a)%nat) O rs.

Lemma names_pre_length r : length (names_pre r) = num_subexp r.
Proof.
  induction r as [|n r IH|rs IH] using re_ind'; [reflexivity|cbn; congruence|].
  cbn [names_pre num_subexp]. induction IH as [|x t Hx _ IHt]; [reflexivity|].
  cbn [flat_map fold_right]. rewrite app_length, Hx, IHt. reflexivity.
Qed.

Theorem names_length r : length (subexp_names r) = (num_subexp r + 1)%nat.
Proof. unfold subexp_names. cbn [length]. rewrite names_pre_length. lia. Qed.

Theorem names_zero_empty r : nth_error (subexp_names r) 0 = Some [].
Proof. reflexivity. Qed.

(* --- the parser numbers the groups; both libraries then work on the numbers ---- *)

(* regexp/syntax tree restricted to what MaxCap/CapNames look at: re.Cap, re.Name, re.Sub *)
Inductive pre : Type :=
| PLeaf : pre
| PCap (idx : nat) (name : list N) (r : pre) : pre
| PNode (rs : list pre) : pre.

(* regexp/syntax/parse.go: at `(` the parser does p.numCap++; re.Cap = p.numCap.
   number c r = (tree, numCap afterwards) when numCap = c before. *)
Fixpoint number (c : nat) (r : re) : pre * nat :=
  match r with
  | Leaf => (PLeaf, c)
  | Cap n r' => let (p, c') := number (S c) r' in (PCap (S c) n p, c')
  | Node rs =>
      let (ps, c') :=
        (fix go (c : nat) (l : list re) : list pre * nat :=
           match l with
           | [] => ([], c)
           | x :: t => let (p, c1) := number c x in
                       let (ps, c2) := go c1 t in (p :: ps, c2)
           end) c rs in
      (PNode ps, c')
  end.

Fixpoint number_list (c : nat) (l : list re) : list pre * nat :=
  match l with
  | [] => ([], c)
  | x :: t => let (p, c1) := number c x in
              let (ps, c2) := number_list c1 t in (p :: ps, c2)
  end.

Lemma number_node c rs :
  number c (Node rs) = let (ps, c') := number_list c rs in (PNode ps, c').
Proof.
  cbn [number].
  assert (E : forall l c0,
    (fix go (c : nat) (l : list re) : list pre * nat :=
           match l with
           | [] => ([], c)
           | x :: t => let (p, c1) := number c x in
                       let (ps, c2) := go c1 t in (p :: ps, c2)
           end) c0 l = number_list c0 l).
  { induction l as [|x t IH]; intros c0; [reflexivity|].
    cbn [number_list]. destruct (number c0 x) as [p c1]. rewrite IH. reflexivity. }
  rewrite E. reflexivity.
Qed.

Definition parse (r : re) : pre := fst (number 0 r).

(* writes names[i] = v; Go would panic on i >= len(names), the model leaves the slice *)
Fixpoint upd (l : list (list N)) (i : nat) (v : list N) : list (list N) :=
  match l, i with
  | [], _ => []
  | _ :: t, O => v :: t
  | x :: t, S i' => x :: upd t i' v
  end.

(* regexp/syntax/regexp.go:MaxCap *)
Fixpoint max_cap (p : pre) : nat :=
  match p with
  | PLeaf => O
  | PCap i _ r => Nat.max i (max_cap r)
  | PNode rs => fold_left (fun m x => Nat.max m (max_cap x)) rs O
  end.

(* regexp/syntax/regexp.go:capNames *)
Fixpoint cap_names_into (p : pre) (names : list (list N)) : list (list N) :=
  match p with
  | PLeaf => names
  | PCap i n r => cap_names_into r (upd names i n)
  | PNode rs => fold_left (fun a x => cap_names_into x a) rs names
  end.

(* regexp/syntax/regexp.go:CapNames; regexp.go:compile stores it as subexpNames *)
Definition std_cap_names (p : pre) : list (list N) :=
  cap_names_into p (repeat [] (max_cap p + 1)).

(* nfa/compile.go:countCapturesRecursive — `if re.Cap > c.captureCount { c.captureCount = re.Cap }`
   with the compiler field as an accumulator *)
Fixpoint count_caps (p : pre) (m : nat) : nat :=
  match p with
  | PLeaf => m
  | PCap i _ r => count_caps r (if (m <? i)%nat then i else m)
  | PNode rs => fold_left (fun a x => count_caps x a) rs m
  end.

(* nfa/compile.go:collectNamesRecursive — `if re.Cap >= 0 && re.Cap < len(c.captureNames)` *)
Fixpoint collect_names (p : pre) (names : list (list N)) : list (list N) :=
  match p with
  | PLeaf => names
  | PCap i n r =>
      collect_names r (if (i <? length names)%nat then upd names i n else names)
  | PNode rs => fold_left (fun a x => collect_names x a) rs names
  end.

(* nfa/compile.go:collectCaptureInfo + nfa.go:SubexpNames (captureNames is never empty, so
   the copy branch is taken) + meta/engine.go:SubexpNames + regex.go:SubexpNames *)
Definition cx_capture_count (p : pre) : nat := count_caps p 0.
Definition cx_subexp_names (p : pre) : list (list N) :=
  collect_names p (repeat [] (cx_capture_count p + 1)).

(* regex.go:NumSubexp — engine.NumCaptures() - 1 clamped at 0; NumCaptures = captureCount+1 *)
Definition cx_num_subexp (p : pre) : nat := (cx_capture_count p + 1 - 1)%nat.

Section pre_induction.
  Variable P : pre -> Prop.
  Hypothesis HL : P PLeaf.
  Hypothesis HC : forall i n r, P r -> P (PCap i n r).
  Hypothesis HN : forall rs, Forall P rs -> P (PNode rs).
  Fixpoint pre_ind' (r : pre) : P r :=
    match r with
    | PLeaf => HL
    | PCap i n r' => HC i n r' (pre_ind' r')
    | PNode rs => HN rs ((fix go (l : list pre) : Forall P l :=
                            match l with
                            | [] => Forall_nil P
                            | x :: t => Forall_cons x (pre_ind' x) (go t)
                            end) rs)
    end.
End pre_induction.

Lemma upd_length l : forall i v, length (upd l i v) = length l.
Proof.
  induction l as [|x t IH]; intros [|i] v; cbn [upd length]; auto.
Qed.

Lemma upd_oob l : forall i v, (length l <= i)%nat -> upd l i v = l.
Proof.
  induction l as [|x t IH]; intros [|i] v H; cbn [upd length] in *; auto; try lia.
  f_equal. apply IH. lia.
Qed.

(* the bounds test of collectNamesRecursive changes nothing *)
Lemma collect_names_eq p : forall names, collect_names p names = cap_names_into p names.
Proof.
  induction p as [|i n r IH|rs IH] using pre_ind'; intros names.
  - reflexivity.
  - cbn [collect_names cap_names_into]. rewrite IH.
    destruct (Nat.ltb_spec i (length names)) as [L|L]; [reflexivity|].
    rewrite upd_oob; [reflexivity | exact L].
  - cbn [collect_names cap_names_into]. revert names.
    induction IH as [|x t Hx _ IHt]; intros names; [reflexivity|].
    cbn [fold_left]. rewrite Hx. apply IHt.
Qed.

(* the running maximum equals the functional maximum *)
Lemma count_caps_max p : forall m, count_caps p m = Nat.max m (max_cap p).
Proof.
  induction p as [|i n r IH|rs IH] using pre_ind'; intros m.
  - cbn. lia.
  - cbn [count_caps max_cap]. rewrite IH.
    destruct (Nat.ltb_spec m i); lia.
  - cbn [count_caps max_cap].
    assert (G : forall l, Forall (fun p => forall m, count_caps p m = Nat.max m (max_cap p)) l ->
              forall m k, fold_left (fun a x => count_caps x a) l (Nat.max m k) =
                          Nat.max m (fold_left (fun a x => Nat.max a (max_cap x)) l k)).
    { intros l Hl. induction Hl as [|x t Hx _ IHt]; intros m0 k; [reflexivity|].
      cbn [fold_left]. rewrite Hx.
      replace (Nat.max (Nat.max m0 k) (max_cap x)) with (Nat.max m0 (Nat.max k (max_cap x))) by lia.
      apply IHt. }
    specialize (G rs IH m O). rewrite Nat.max_0_r in G. exact G.
Qed.

(* The traversal of coregex (nfa.collectCaptureInfo) and the traversal of stdlib
   (syntax.MaxCap/CapNames) agree on EVERY tree, whatever its numbering. *)
Theorem cx_traversal_eq_std p :
  cx_capture_count p = max_cap p /\ cx_subexp_names p = std_cap_names p.
Proof.
  assert (E : cx_capture_count p = max_cap p).
  { unfold cx_capture_count. rewrite count_caps_max. lia. }
  split; [exact E|]. unfold cx_subexp_names, std_cap_names. rewrite E. apply collect_names_eq.
Qed.

(* --- the numbered traversal yields the pre-order list of names ------------- *)

Lemma number_snd r : forall c, snd (number c r) = (c + num_subexp r)%nat.
Proof.
  induction r as [|n r IH|rs IH] using re_ind'; intros c.
  - cbn. lia.
  - cbn [number num_subexp]. specialize (IH (S c)).
    destruct (number (S c) r) as [p c']. cbn [snd] in *. lia.
  - rewrite number_node. cbn [num_subexp]. fold (num_list rs).
    assert (G : snd (number_list c rs) = (c + num_list rs)%nat).
    { revert c. induction IH as [|x t Hx _ IHt]; intros c; [cbn; lia|].
      cbn [number_list num_list fold_right]. fold (num_list t).
      specialize (Hx c). destruct (number c x) as [p c1]. cbn [snd] in Hx. subst c1.
      specialize (IHt (c + num_subexp x)%nat).
      destruct (number_list (c + num_subexp x) t) as [ps c2]. cbn [snd] in *. lia. }
    destruct (number_list c rs) as [ps c']. cbn [snd] in *. exact G.
Qed.

Lemma upd_at pfx : forall x rest v,
  upd (pfx ++ x :: rest) (length pfx) v = pfx ++ v :: rest.
Proof.
  induction pfx as [|y t IH]; intros x rest v; [reflexivity|].
  cbn [app length upd]. rewrite IH. reflexivity.
Qed.

Lemma split_length {A} (l : list A) a b :
  length l = (a + b)%nat -> exists l1 l2, l = l1 ++ l2 /\ length l1 = a /\ length l2 = b.
Proof.
  intros H. exists (firstn a l), (skipn a l). split; [symmetry; apply firstn_skipn|].
  split; [rewrite firstn_length; lia | rewrite skipn_length; lia].
Qed.

Lemma cap_names_into_number r : forall c pfx mid sfx,
  length pfx = S c -> length mid = num_subexp r ->
  cap_names_into (fst (number c r)) (pfx ++ mid ++ sfx) = pfx ++ names_pre r ++ sfx.
Proof.
  induction r as [|n r IH|rs IH] using re_ind'; intros c pfx mid sfx Hp Hm.
  - cbn [number fst cap_names_into names_pre num_subexp] in *.
    destruct mid; [reflexivity | discriminate].
  - cbn [number names_pre num_subexp] in *.
    destruct mid as [|m0 mid']; [discriminate|]. cbn [length] in Hm.
    specialize (IH (S c) (pfx ++ [n]) mid' sfx).
    destruct (number (S c) r) as [p c']. cbn [fst cap_names_into] in *.
    rewrite <- Hp. cbn [app]. rewrite upd_at.
    replace (pfx ++ n :: mid' ++ sfx) with ((pfx ++ [n]) ++ mid' ++ sfx)
      by (rewrite <- app_assoc; reflexivity).
    rewrite IH; [rewrite <- app_assoc; reflexivity | rewrite app_length; cbn; lia | lia].
  - rewrite number_node. cbn [names_pre num_subexp] in *. fold (num_list rs) in Hm.
    fold (names_list rs).
    assert (G : forall c pfx mid sfx, length pfx = S c -> length mid = num_list rs ->
      fold_left (fun a x => cap_names_into x a) (fst (number_list c rs)) (pfx ++ mid ++ sfx)
      = pfx ++ names_list rs ++ sfx).
    { clear c pfx mid sfx Hp Hm.
      induction IH as [|x t Hx _ IHt]; intros c pfx mid sfx Hp Hm.
      - cbn in Hm. destruct mid; [reflexivity | discriminate].
      - cbn [num_list fold_right] in Hm. fold (num_list t) in Hm.
        destruct (split_length mid _ _ Hm) as [m1 [m2 [-> [H1 H2]]]].
        cbn [number_list names_list flat_map]. fold (names_list t).
        pose proof (number_snd x c) as Hs.
        specialize (Hx c pfx m1 (m2 ++ sfx) Hp H1).
        destruct (number c x) as [p c1]. cbn [snd fst] in *. subst c1.
        specialize (IHt (c + num_subexp x)%nat (pfx ++ names_pre x) m2 sfx).
        destruct (number_list (c + num_subexp x) t) as [ps c2]. cbn [fst fold_left] in *.
        rewrite <- app_assoc. rewrite Hx.
        rewrite app_assoc. rewrite IHt.
        + rewrite <- !app_assoc. reflexivity.
        + rewrite app_length, names_pre_length. lia.
        + exact H2. }
    specialize (G c pfx mid sfx Hp Hm).
    destruct (number_list c rs) as [ps c']. cbn [fst cap_names_into] in *. exact G.
Qed.

Lemma max_cap_number r : forall c,
  max_cap (fst (number c r)) = if Nat.eqb (num_subexp r) 0 then O else (c + num_subexp r)%nat.
Proof.
  induction r as [|n r IH|rs IH] using re_ind'; intros c.
  - reflexivity.
  - cbn [number num_subexp]. specialize (IH (S c)).
    destruct (number (S c) r) as [p c']. cbn [fst max_cap] in *. rewrite IH.
    destruct (Nat.eqb_spec (num_subexp r) 0); cbn [Nat.eqb]; lia.
  - rewrite number_node. cbn [num_subexp]. fold (num_list rs).
    assert (G : forall c k,
      fold_left (fun m x => Nat.max m (max_cap x)) (fst (number_list c rs)) k =
      if Nat.eqb (num_list rs) 0 then k else Nat.max k (c + num_list rs)%nat).
    { clear c. induction IH as [|x t Hx _ IHt]; intros c k; [reflexivity|].
      cbn [number_list num_list fold_right]. fold (num_list t).
      pose proof (number_snd x c) as Hs. specialize (Hx c).
      destruct (number c x) as [p c1]. cbn [snd fst] in *. subst c1.
      specialize (IHt (c + num_subexp x)%nat (Nat.max k (max_cap p))).
      destruct (number_list (c + num_subexp x) t) as [ps c2]. cbn [fst fold_left] in *.
      rewrite IHt, Hx.
      destruct (Nat.eqb_spec (num_subexp x) 0); destruct (Nat.eqb_spec (num_list t) 0);
        destruct (Nat.eqb_spec (num_subexp x + num_list t) 0); lia. }
    specialize (G c O).
    destruct (number_list c rs) as [ps c']. cbn [fst max_cap] in *. rewrite G.
    destruct (Nat.eqb_spec (num_list rs) 0); lia.
Qed.

Lemma max_cap_parse r : max_cap (parse r) = num_subexp r.
Proof.
  unfold parse. rewrite max_cap_number. destruct (Nat.eqb_spec (num_subexp r) 0); lia.
Qed.

(* stdlib's SubexpNames / NumSubexp are the pre-order specification *)
Theorem std_names_spec r :
  std_cap_names (parse r) = subexp_names r /\ max_cap (parse r) = num_subexp r.
Proof.
  split; [|apply max_cap_parse].
  unfold std_cap_names. rewrite max_cap_parse.
  replace (num_subexp r + 1)%nat with (S (num_subexp r)) by lia. cbn [repeat].
  pose proof (cap_names_into_number r 0 [[]] (repeat [] (num_subexp r)) []) as H.
  rewrite !app_nil_r in H. unfold parse, subexp_names. cbn [app] in H. apply H.
  - reflexivity.
  - apply repeat_length.
Qed.

(* ... and so are coregex's *)
Theorem cx_names_spec r :
  cx_subexp_names (parse r) = subexp_names r /\ cx_num_subexp (parse r) = num_subexp r.
Proof.
  destruct (cx_traversal_eq_std (parse r)) as [E1 E2].
  destruct (std_names_spec r) as [S1 S2]. split.
  - rewrite E2. exact S1.
  - unfold cx_num_subexp. rewrite E1, S2. lia.
Qed.

(* --- SubexpIndex ------------------------------------------------------------ *)

Fixpoint list_eqb (a b : list N) : bool :=
  match a, b with
  | [], [] => true
  | x :: a', y :: b' => N.eqb x y && list_eqb a' b'
  | _, _ => false
  end.

Lemma list_eqb_spec a : forall b, list_eqb a b = true <-> a = b.
Proof.
  induction a as [|x a IH]; intros [|y b]; cbn [list_eqb]; try (split; [discriminate | congruence]).
  - tauto.
  - rewrite andb_true_iff, IH, N.eqb_eq. split; [intros [-> ->]; reflexivity | intros H; injection H; auto].
Qed.

(* `for i, n := range names { if n == name { return i } }; return -1` *)
Fixpoint index_from (name : list N) (names : list (list N)) (i : Z) : Z :=
  match names with
  | [] => (-1)%Z
  | n :: t => if list_eqb n name then i else index_from name t (i + 1)%Z
  end.

(* regex.go:SubexpIndex — `if name == "" { return -1 }` first *)
Definition subexp_index_cx (names : list (list N)) (name : list N) : Z :=
  match name with
  | [] => (-1)%Z
  | _ => index_from name names 0%Z
  end.

(* regexp.go:SubexpIndex — `if name != "" { loop }; return -1` *)
Definition subexp_index_std (names : list (list N)) (name : list N) : Z :=
  if negb (list_eqb name []) then index_from name names 0%Z else (-1)%Z.

Definition subexp_index (r : re) (name : list N) : Z :=
  subexp_index_cx (subexp_names r) name.

Lemma index_from_spec name names : forall base,
  (0 <= base)%Z ->
  (index_from name names base = (-1)%Z /\ ~ In name names) \/
  (exists i, index_from name names base = (base + Z.of_nat i)%Z /\
             nth_error names i = Some name /\
             forall j, (j < i)%nat -> nth_error names j <> Some name).
Proof.
  induction names as [|n t IH]; intros base Hb.
  - left. split; [reflexivity | intros []].
  - cbn [index_from]. destruct (list_eqb n name) eqn:E.
    + apply list_eqb_spec in E. subst n. right. exists O. split; [lia|].
      split; [reflexivity | intros j Hj; lia].
    + assert (Hne : n <> name).
      { intros ->. assert (list_eqb name name = true) by (apply list_eqb_spec; reflexivity). congruence. }
      destruct (IH (base + 1)%Z ltac:(lia)) as [[H1 H2]|[i [H1 [H2 H3]]]].
      * left. split; [exact H1 | intros [H|H]; [exact (Hne H) | exact (H2 H)]].
      * right. exists (S i). split; [lia|]. split; [exact H2|].
        intros [|j] Hj; cbn [nth_error]; [congruence | apply H3; lia].
Qed.

Theorem subexp_index_eq_std names name :
  subexp_index_cx names name = subexp_index_std names name.
Proof.
  unfold subexp_index_cx, subexp_index_std. destruct name; reflexivity.
Qed.

(* SubexpIndex returns the least index i >= 1 whose name is [name], or -1 when the name
   is empty or absent. *)
Theorem subexp_index_spec r name :
  let names := subexp_names r in
  (name = [] -> subexp_index r name = (-1)%Z) /\
  (name <> [] ->
     (subexp_index r name = (-1)%Z /\ ~ In name names) \/
     (exists i, subexp_index r name = Z.of_nat i /\ (1 <= i <= num_subexp r)%nat /\
                nth_error names i = Some name /\
                forall j, (j < i)%nat -> nth_error names j <> Some name)).
Proof.
  cbn zeta. split.
  - intros ->. reflexivity.
  - intros Hne. unfold subexp_index, subexp_index_cx.
    destruct name as [|c name']; [congruence|].
    destruct (index_from_spec (c :: name') (subexp_names r) 0%Z ltac:(lia))
      as [[H1 H2]|[i [H1 [H2 H3]]]].
    + left. split; assumption.
    + right. exists i. split; [lia|]. split; [|split; assumption].
      split.
      * destruct i; [cbn in H2; discriminate | lia].
      * assert (i < length (subexp_names r))%nat by (apply nth_error_Some; congruence).
        rewrite names_length in H. lia.
Qed.

(* ------------------------------------------------------------------------- *)
(* 4. The Regex value: Copy, Longest, MarshalText, UnmarshalText              *)
(* ------------------------------------------------------------------------- *)

(* regex.go:Regex — engine is a function of (pattern, longest), so it is not represented *)
Record regex := mkRegex { pattern : list N; longest : bool }.

(* *Regex values live in a store; an address is an index *)
Definition store := list regex.

Definition get (st : store) (a : nat) : option regex := nth_error st a.

Fixpoint put (st : store) (a : nat) (v : regex) : store :=
  match st, a with
  | [], _ => []
  | _ :: t, O => v :: t
  | x :: t, S a' => x :: put t a' v
  end.

(* regex.go:Longest — r.longest = true; r.engine.SetLongest(true) *)
Definition set_longest (r : regex) : regex := mkRegex (pattern r) true.

Definition longest_at (st : store) (a : nat) : store :=
  match get st a with
  | Some r => put st a (set_longest r)
  | None => st
  end.

(* regex.go:Copy — re := Compile(r.pattern); if r.longest { re.Longest() }; a fresh object *)
Definition copy (r : regex) : regex :=
  let re := mkRegex (pattern r) false in
  if longest r then set_longest re else re.

Definition copy_at (st : store) (a : nat) : store * option nat :=
  match get st a with
  | Some r => (st ++ [copy r], Some (length st))
  | None => (st, None)
  end.

Lemma copy_eq r : copy r = r.
Proof. destruct r as [p [|]]; reflexivity. Qed.

Lemma get_put_same st : forall a v, (a < length st)%nat -> get (put st a v) a = Some v.
Proof.
  induction st as [|x t IH]; intros [|a] v H; cbn [length] in H; try lia; cbn [put get nth_error].
  - reflexivity.
  - apply IH. lia.
Qed.

Lemma get_put_other st : forall a b v, a <> b -> get (put st a v) b = get st b.
Proof.
  induction st as [|x t IH]; intros [|a] [|b] v H; cbn [put get nth_error]; try reflexivity; try lia.
  apply IH. lia.
Qed.

(* Copy returns a new object with the same pattern and flag; calling Longest on either
   object afterwards does not change the other one. *)
Theorem copy_independent st a r :
  get st a = Some r ->
  exists a', copy_at st a = (st ++ [copy r], Some a') /\ a' <> a /\
    let st1 := fst (copy_at st a) in
    get st1 a = Some r /\ get st1 a' = Some r /\
    get (longest_at st1 a') a = Some r /\
    get (longest_at st1 a') a' = Some (set_longest r) /\
    get (longest_at st1 a) a' = Some r /\
    get (longest_at st1 a) a = Some (set_longest r).
Proof.
  intros H. exists (length st). unfold copy_at. rewrite H. split; [reflexivity|].
  assert (La : (a < length st)%nat) by (apply nth_error_Some; unfold get in H; congruence).
  split; [lia|]. cbn [fst]. rewrite copy_eq.
  assert (G1 : get (st ++ [r]) a = Some r).
  { unfold get. rewrite nth_error_app1; [exact H | exact La]. }
  assert (G2 : get (st ++ [r]) (length st) = Some r).
  { unfold get. rewrite nth_error_app2; [|lia]. rewrite Nat.sub_diag. reflexivity. }
  assert (Ll : (length st < length (st ++ [r]))%nat) by (rewrite app_length; cbn; lia).
  assert (La' : (a < length (st ++ [r]))%nat) by lia.
  repeat split; try assumption.
  - unfold longest_at. rewrite G2. rewrite get_put_other; [exact G1 | lia].
  - unfold longest_at. rewrite G2. apply get_put_same. exact Ll.
  - unfold longest_at. rewrite G1. rewrite get_put_other; [exact G2 | lia].
  - unfold longest_at. rewrite G1. apply get_put_same. exact La'.
Qed.

Section marshal.
  (* the set of patterns Compile accepts; the theorems hold for any such set *)
  Variable compiles : list N -> bool.

  (* regex.go:MarshalText — []byte(r.pattern) *)
  Definition marshal (r : regex) : list N := pattern r.

  (* regex.go:UnmarshalText — Compile(string(text)); *r = *newRe *)
  Definition unmarshal (text : list N) : option regex :=
    if compiles text then Some (mkRegex text false) else None.

  (* A value that was obtained from Compile round-trips; the pattern text always does;
     the Longest flag does not survive (as in stdlib, whose UnmarshalText also calls
     Compile). *)
  Theorem marshal_roundtrip r :
    compiles (pattern r) = true ->
    unmarshal (marshal r) = Some (mkRegex (pattern r) false) /\
    (longest r = false -> unmarshal (marshal r) = Some r) /\
    (forall r', unmarshal (marshal r) = Some r' -> marshal r' = marshal r).
  Proof.
    intros H. unfold unmarshal, marshal. rewrite H. split; [reflexivity|]. split.
    - intros L. destruct r as [p l]. cbn in *. subst l. reflexivity.
    - intros r' E. injection E as <-. reflexivity.
  Qed.

  Theorem unmarshal_rejects text : compiles text = false -> unmarshal text = None.
  Proof. intros H. unfold unmarshal. rewrite H. reflexivity. Qed.
End marshal.

(* ------------------------------------------------------------------------- *)
(* 5. Nesting depth: the NFA compiler's guard vs the parser's limit           *)
(* ------------------------------------------------------------------------- *)

(* nfa/compile.go:compileRegexp is entered once per node of the syntax tree on the path from
   the root (c.depth++ on entry, c.depth-- on exit): c.depth at a node = number of nodes on
   that path.  regexp/syntax/parse.go:calcHeight computes the same quantity (1 + max over
   the sub-expressions).  (`x{m,n}` with m < n is compiled through a synthetic OpQuest node
   and therefore counts as Node [Node [x]] in the compiler; this only makes coregex
   stricter.) *)
Fixpoint depth (r : re) : nat :=
  match r with
  | Leaf => 1
  | Cap _ r' => S (depth r')
  | Node rs => S (fold_right (fun x a => Nat.max (depth x) a) O rs)
  end.

(* nfa/compile.go:compileRegexp — `if c.depth > c.config.MaxRecursionDepth` → ErrTooComplex *)
Definition accepts_depth_cfg (maxdepth : nat) (r : re) : bool := (depth r <=? maxdepth)%nat.

(* meta/config.go:DefaultConfig — MaxRecursionDepth: 100 *)
Definition accepts_depth_cx (r : re) : bool := accepts_depth_cfg 100 r.

(* regexp/syntax/parse.go:checkHeight — `if p.calcHeight(re, true) > maxHeight` (1000) →
   ErrNestingDepth *)
Definition accepts_depth_parser (r : re) : bool := (depth r <=? 1000)%nat.

Fixpoint nest (n : nat) (r : re) : re :=
  match n with
  | O => r
  | S n' => Cap [] (nest n' r)
  end.

Lemma depth_nest n r : depth (nest n r) = (n + depth r)%nat.
Proof. induction n as [|n IH]; [reflexivity|]. cbn [nest depth]. rewrite IH. lia. Qed.

(* 150 nested groups `((…(a)…))`: stdlib accepts, coregex answers "pattern too complex" *)
Theorem accepts_equiv_refuted :
  exists r, accepts_depth_parser r = true /\ accepts_depth_cx r = false.
Proof. exists (nest 150 Leaf). split; vm_compute; reflexivity. Qed.

(* the smallest counterexample: 100 groups around one leaf *)
Theorem accepts_equiv_refuted_min :
  accepts_depth_parser (nest 100 Leaf) = true /\ accepts_depth_cx (nest 100 Leaf) = false /\
  accepts_depth_cx (nest 99 Leaf) = true.
Proof. repeat split; vm_compute; reflexivity. Qed.

(* the two guards agree outside the window 100 < depth <= 1000, and coregex never accepts
   more than the parser *)
Theorem accepts_equiv_partial r :
  ((depth r <= 100)%nat -> accepts_depth_cx r = true /\ accepts_depth_parser r = true) /\
  ((1000 < depth r)%nat -> accepts_depth_cx r = false /\ accepts_depth_parser r = false) /\
  (accepts_depth_cx r = true -> accepts_depth_parser r = true) /\
  ((100 < depth r <= 1000)%nat -> accepts_depth_cx r = false /\ accepts_depth_parser r = true).
Proof.
  unfold accepts_depth_cx, accepts_depth_cfg, accepts_depth_parser.
  repeat split; intros; lia.
Qed.

(* with Config.MaxRecursionDepth = 1000 (the maximum Validate allows) the guards coincide *)
Theorem accepts_equiv_config_1000 r : accepts_depth_cfg 1000 r = accepts_depth_parser r.
Proof. reflexivity. Qed.

(* ------------------------------------------------------------------------- *)
(* 6. Case checker (correspondence run of harness sub-command c09)            *)
(* ------------------------------------------------------------------------- *)

Local Open Scope N_scope.

(* one QuoteMeta call: input bytes and the bytes coregex.QuoteMeta returned *)
Record case := mkCase {
  case_id : N;
  case_in : list N;
  case_out : list N
}.

Fixpoint bytes_eqb (a b : list N) : bool :=
  match a, b with
  | [], [] => true
  | x :: a', y :: b' => N.eqb x y && bytes_eqb a' b'
  | _, _ => false
  end.

Definition check_case (c : case) : bool :=
  bytes_eqb (quote_meta (case_in c)) (case_out c) &&
  bytes_eqb (quote_meta_std (case_in c)) (case_out c) &&
  match unquote (case_out c) with
  | Some s => bytes_eqb s (case_in c)
  | None => false
  end.

Definition mismatches (cs : list case) : list N :=
  map case_id (filter (fun c => negb (check_case c)) cs).
