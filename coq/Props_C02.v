(* C02 — statements only.  The reference search reports the leftmost start position that
   has any accepting path, inside the haystack; among the paths from that start the
   priority-ordered DFS picks the first (leftmost-first by definition of dfs).  The bounded
   backtracker equals it from any reusable state. *)
From Coq Require Import List NArith.
From CV Require Import Nfa NfaRef Backtrack.

Theorem C02_find_at_leftmost :
  forall A h, wf_nfa A = true -> forall at_ s e sl,
  find_at A h at_ = Done (Some (s, e, sl)) ->
  at_ <= s /\ s <= e /\ e <= length h /\ nfa_path A h (start_anch A) s e /\
  forall s', at_ <= s' < s -> forall e', ~ nfa_path A h (start_anch A) s' e'.
Proof. exact find_at_some. Qed.
Print Assumptions C02_find_at_leftmost.

Theorem C02_find_at_total : forall A h, wf_nfa A = true -> forall at_, find_at A h at_ <> OutOfFuel.
Proof. exact find_at_total. Qed.
Print Assumptions C02_find_at_total.

Theorem C02_backtracker_is_reference :
  forall W, (2 <= W)%N -> forall A max_visited, wf_nfa A = true ->
  forall st h at_, bt_inv W st -> longest st = false -> at_ <= length h ->
  can_handle A max_visited (length h - at_) = true ->
  fst (bt_search_at W A max_visited st h at_) = span_of (find_at A h at_).
Proof. exact bt_search_at_is_ref. Qed.
Print Assumptions C02_backtracker_is_reference.
