(* DfaTop.v — the lazy DFA model end to end: cache machine (DfaCache.v) + pure layer against the
   reference (DfaRef.v), for NFAs without look-around states and the CURRENT code (all variant
   flags false).  The only remaining guards are about the byte classes of the NFA (class_sound:
   they separate what determinisation distinguishes; runs_ok: consecutive runs covering 0..255).
   For EVERY history of forward calls on a cache since NewCache() — any capacity, any number of
   clears, acceleration included — the answer delivered to the caller (DFA result or NFA fallback)
   is the reference answer for IsMatchAt (C01/C13/C14); for SearchAt: none iff the reference finds
   none, and a reported end is the end of an accepting path from the LEFTMOST start (C02/C13/C14,
   partial: the priority among the ends of the leftmost start is not proved); for
   SearchAtAnchored: none iff no path anchored at the offset, a reported end is such a path's. *)
From Coq Require Import List NArith ZArith Lia Bool Arith PeanoNat.
From CV Require Import Nfa NfaRef Dfa DfaRef DfaCache.
Import ListNotations.

Lemma bytes_ok_255 h : bytes_ok h -> bytes255 h.
Proof. unfold bytes_ok, bytes255. intros H. eapply Forall_impl; [|exact H]. cbn. intros b Hb. lia. Qed.

Section Top.
  Variable A : nfa.
  Variable cfg : dconfig.
  Hypothesis Hwf : wf_nfa A = true.
  Hypothesis Hnl : no_look A = true.
  Hypothesis Hpre : prefix_ok A = true.
  Hypothesis Hcls : forall ids b b', class_of cfg b = class_of cfg b' -> cdet A cfg ids b = cdet A cfg ids b'.
  Hypothesis Hruns : runs_ok 0%N (cfg_classes cfg) (stride cfg) = true.
  (* the current code *)
  Hypothesis Hkey : cfg_sorted_key cfg = false.
  Hypothesis Hloose : cfg_loose_accel cfg = false.
  Hypothesis Hentry : cfg_old_entry cfg = false.
  Hypothesis Hnoeoi : cfg_accel_no_eoi cfg = false.

  Let Hwb : has_wb A = false := has_wb_nl A Hnl.
  Let Hel : has_endline A = false := has_endline_nl A Hnl.
  Let Hempty := start_match_empty A Hwf Hnl Hpre.

  Lemma ref_end_none h at_ : ref_end A h at_ = None <-> find_at A h at_ = Done None.
  Proof.
    unfold ref_end. pose proof (find_at_total A h Hwf at_) as Ht.
    destruct (find_at A h at_) as [|[[[s e] sl]|]]; split; intros H; try discriminate; try reflexivity.
    now elim Ht.
  Qed.

  (* C01 / C14 with any cache satisfying the invariants *)
  Theorem dfa_is_match_cached_correct h c at_ :
    bytes_ok h -> at_ <= length h -> cinv A cfg c -> accel_sound A cfg c ->
    snd (dfa_is_match_at A cfg c h at_) = ref_bool A h at_.
  Proof.
    intros Hb Hat Hc Ha. unfold dfa_is_match_at.
    destruct (c_is_match_at A cfg h c at_) as [c' o] eqn:E.
    destruct (c_is_match_at_eq_pure A cfg Hwb Hcls Hkey Hentry Hloose Hnoeoi Hel Hruns Hempty h c at_ c' o
                (bytes_ok_255 h Hb) Hc Ha E) as [_ [_ [->|Ho]]].
    - reflexivity.
    - subst o. cbn [snd]. destruct (p_is_match_at A cfg h at_) as [r|] eqn:Ep; [|reflexivity].
      cbn. eapply p_is_match_correct; eauto.
  Qed.

  Theorem dfa_search_at_cached_none_iff h c at_ :
    bytes_ok h -> cinv A cfg c -> accel_sound A cfg c ->
    (snd (dfa_search_at A cfg c h at_) = None <-> find_at A h at_ = Done None).
  Proof.
    intros Hb Hc Ha. unfold dfa_search_at.
    destruct (c_search_at A cfg h c at_) as [c' o] eqn:E.
    destruct (c_search_at_eq_pure A cfg Hwb Hcls Hkey Hentry Hloose Hnoeoi Hel Hruns Hempty h c at_ c' o
                (bytes_ok_255 h Hb) Hc Ha E) as [_ [_ [->|Ho]]].
    - cbn. apply ref_end_none.
    - subst o. cbn [snd]. destruct (p_search_at A cfg h at_) as [r|] eqn:Ep.
      + cbn. eapply p_search_at_none_iff; eauto.
      + cbn. apply ref_end_none.
  Qed.

  Theorem dfa_search_at_cached_leftmost_partial h c at_ e s0 e0 sl :
    bytes_ok h -> cfg_break cfg = true -> cinv A cfg c -> accel_sound A cfg c ->
    snd (dfa_search_at A cfg c h at_) = Some e ->
    find_at A h at_ = Done (Some (s0, e0, sl)) ->
    nfa_path A h (start_anch A) s0 e.
  Proof.
    intros Hb Hbrk Hc Ha. unfold dfa_search_at.
    destruct (c_search_at A cfg h c at_) as [c' o] eqn:E.
    destruct (c_search_at_eq_pure A cfg Hwb Hcls Hkey Hentry Hloose Hnoeoi Hel Hruns Hempty h c at_ c' o
                (bytes_ok_255 h Hb) Hc Ha E) as [_ [_ [->|Ho]]].
    - cbn. unfold ref_end. intros H Hf. rewrite Hf in H. inversion H; subst.
      now destruct (find_at_some A h Hwf _ _ _ _ Hf) as [_ [_ [_ [Hp _]]]].
    - subst o. cbn [snd]. destruct (p_search_at A cfg h at_) as [r|] eqn:Ep.
      + cbn. intros -> Hf. eapply p_search_at_leftmost_partial; eauto.
      + cbn. unfold ref_end. intros H Hf. rewrite Hf in H. inversion H; subst.
        now destruct (find_at_some A h Hwf _ _ _ _ Hf) as [_ [_ [_ [Hp _]]]].
  Qed.

  Theorem dfa_search_anchored_cached_correct h c at_ :
    at_ <= length h -> cinv A cfg c ->
    (snd (dfa_search_anchored A cfg c h at_) = None <-> forall e, ~ nfa_path A h (start_anch A) at_ e) /\
    (forall e, snd (dfa_search_anchored A cfg c h at_) = Some e ->
               at_ <= e /\ e <= length h /\ nfa_path A h (start_anch A) at_ e).
  Proof.
    intros Hat Hc. unfold dfa_search_anchored.
    destruct (c_search_anchored A cfg h c at_) as [c' o] eqn:E.
    assert (Hfb : (anch_fallback A h at_ = None <-> forall e, ~ nfa_path A h (start_anch A) at_ e) /\
                  (forall e, anch_fallback A h at_ = Some e -> at_ <= e /\ e <= length h /\ nfa_path A h (start_anch A) at_ e)).
    { split; [now apply anch_fallback_none_iff|]. intros e. now apply anch_fallback_end_sound. }
    destruct (c_search_anchored_eq_pure A cfg Hwb Hcls Hkey Hentry Hempty h c at_ c' o Hc E) as [_ [->|Ho]].
    - cbn. rewrite Hentry. exact Hfb.
    - subst o. cbn [snd]. destruct (p_search_anchored A cfg h at_) as [r|] eqn:Ep.
      + cbn. split.
        * eapply p_search_anchored_none_iff; eauto.
        * intros e ->. eapply p_search_anchored_end_sound; eauto.
      + cbn. rewrite Hentry. exact Hfb.
  Qed.

  (* the same for every history of forward calls since NewCache() *)
  Definition fwd_hist (ks : list call) : Prop :=
    Forall (fun k => (k_op k <= 4)%N /\ bytes_ok (k_hay k)) ks.

  Lemma fwd_hist_calls ks : fwd_hist ks -> Forall fwd_call ks.
  Proof.
    unfold fwd_hist, fwd_call. intros H. eapply Forall_impl; [|exact H]. cbn.
    intros k [H1 H2]. split; [exact H1|now apply bytes_ok_255].
  Qed.

  Lemma hist_inv ks : fwd_hist ks ->
    cinv A cfg (run_calls A cfg new_cache ks) /\ accel_sound A cfg (run_calls A cfg new_cache ks).
  Proof.
    intros H. apply (run_calls_inv A cfg Hwb Hcls Hkey Hentry Hloose Hnoeoi Hel Hruns Hempty ks new_cache
                       (fwd_hist_calls ks H)); [apply cinv_new|apply accel_sound_new].
  Qed.

  Theorem dfa_is_match_any_history ks h at_ :
    fwd_hist ks -> bytes_ok h -> at_ <= length h ->
    snd (dfa_is_match_at A cfg (run_calls A cfg new_cache ks) h at_) = ref_bool A h at_.
  Proof. intros Hk Hb Hat. destruct (hist_inv ks Hk). now apply dfa_is_match_cached_correct. Qed.

  Theorem dfa_search_at_any_history_none_iff ks h at_ :
    fwd_hist ks -> bytes_ok h ->
    (snd (dfa_search_at A cfg (run_calls A cfg new_cache ks) h at_) = None <-> find_at A h at_ = Done None).
  Proof. intros Hk Hb. destruct (hist_inv ks Hk). now apply dfa_search_at_cached_none_iff. Qed.

  Theorem dfa_search_at_any_history_leftmost_partial ks h at_ e s0 e0 sl :
    fwd_hist ks -> bytes_ok h -> cfg_break cfg = true ->
    snd (dfa_search_at A cfg (run_calls A cfg new_cache ks) h at_) = Some e ->
    find_at A h at_ = Done (Some (s0, e0, sl)) ->
    nfa_path A h (start_anch A) s0 e.
  Proof. intros Hk Hb Hbrk. destruct (hist_inv ks Hk). now apply dfa_search_at_cached_leftmost_partial. Qed.

  Theorem dfa_search_anchored_any_history ks h at_ :
    fwd_hist ks -> at_ <= length h ->
    let r := snd (dfa_search_anchored A cfg (run_calls A cfg new_cache ks) h at_) in
    (r = None <-> forall e, ~ nfa_path A h (start_anch A) at_ e) /\
    (forall e, r = Some e -> at_ <= e /\ e <= length h /\ nfa_path A h (start_anch A) at_ e).
  Proof. intros Hk Hat. destruct (hist_inv ks Hk). now apply dfa_search_anchored_cached_correct. Qed.
End Top.
