(* DfaTop.v — the lazy DFA model end to end: cache machine (DfaCache.v) + pure layer against the
   reference (DfaRef.v), for NFAs without look-around states.  Under the guards of DfaCache.v
   (sound byte classes, the current order-preserving key and entry-point code, no acceleration
   bytes in the cache for searchAt / searchEarliestMatch)
   the answer delivered to the caller — DFA result or NFA fallback — is the reference answer for
   IsMatchAt (C01/C14), and for SearchAt: none iff the reference finds none, and a reported end is
   the end of an accepting path from the LEFTMOST start (C02/C14, partial: the priority among the
   ends of the leftmost start is not proved). *)
From Coq Require Import List NArith ZArith Lia Bool Arith PeanoNat.
From CV Require Import Nfa NfaRef Dfa DfaRef DfaCache.
Import ListNotations.

Section Top.
  Variable A : nfa.
  Variable cfg : dconfig.
  Hypothesis Hwf : wf_nfa A = true.
  Hypothesis Hnl : no_look A = true.
  Hypothesis Hpre : prefix_ok A = true.
  Hypothesis Hcls : forall ids b b', class_of cfg b = class_of cfg b' -> cdet A cfg ids b = cdet A cfg ids b'.
  Hypothesis Hkey : cfg_sorted_key cfg = false.
  Hypothesis Hentry : cfg_old_entry cfg = false.
  Hypothesis Hstride : 2 <= stride cfg.

  Let Hwb : has_wb A = false := has_wb_nl A Hnl.
  Let Hempty := start_match_empty A Hwf Hnl Hpre.

  Lemma ref_end_none h at_ : ref_end A h at_ = None <-> find_at A h at_ = Done None.
  Proof.
    unfold ref_end. pose proof (find_at_total A h Hwf at_) as Ht.
    destruct (find_at A h at_) as [|[[[s e] sl]|]]; split; intros H; try discriminate; try reflexivity.
    now elim Ht.
  Qed.

  (* C01 / C14 for the cached entry point *)
  Theorem dfa_is_match_cached_correct h c at_ :
    bytes_ok h -> at_ <= length h ->
    cinv A cfg c -> accel_ok c ->
    snd (dfa_is_match_at A cfg c h at_) = ref_bool A h at_.
  Proof.
    intros Hb Hat Hc Ha. unfold dfa_is_match_at.
    destruct (c_is_match_at A cfg h c at_) as [c' o] eqn:E.
    destruct (c_is_match_at_eq_pure A cfg Hwb Hcls Hkey Hentry Hstride Hempty h c at_ c' o Hc Ha E) as [_ [_ [->|Ho]]].
    - reflexivity.
    - subst o. cbn [snd]. destruct (p_is_match_at A cfg h at_) as [r|] eqn:Ep; [|reflexivity].
      cbn. eapply p_is_match_correct; eauto.
  Qed.

  (* C02 / C14, existence part *)
  Theorem dfa_search_at_cached_none_iff h c at_ :
    bytes_ok h ->
    cinv A cfg c -> accel_ok c ->
    (snd (dfa_search_at A cfg c h at_) = None <-> find_at A h at_ = Done None).
  Proof.
    intros Hb Hc Ha. unfold dfa_search_at.
    destruct (c_search_at A cfg h c at_) as [c' o] eqn:E.
    destruct (c_search_at_eq_pure A cfg Hwb Hcls Hkey Hentry Hstride Hempty h c at_ c' o Hc Ha E) as [_ [_ [->|Ho]]].
    - cbn. apply ref_end_none.
    - subst o. cbn [snd]. destruct (p_search_at A cfg h at_) as [r|] eqn:Ep.
      + cbn. eapply p_search_at_none_iff; eauto.
      + cbn. apply ref_end_none.
  Qed.

  (* C02 / C14, the end: an end of the leftmost start (break-at-match on, the default) *)
  Theorem dfa_search_at_cached_leftmost_partial h c at_ e s0 e0 sl :
    bytes_ok h -> cfg_break cfg = true ->
    cinv A cfg c -> accel_ok c ->
    snd (dfa_search_at A cfg c h at_) = Some e ->
    find_at A h at_ = Done (Some (s0, e0, sl)) ->
    nfa_path A h (start_anch A) s0 e.
  Proof.
    intros Hb Hbrk Hc Ha. unfold dfa_search_at.
    destruct (c_search_at A cfg h c at_) as [c' o] eqn:E.
    destruct (c_search_at_eq_pure A cfg Hwb Hcls Hkey Hentry Hstride Hempty h c at_ c' o Hc Ha E) as [_ [_ [->|Ho]]].
    - cbn. unfold ref_end. intros H Hf. rewrite Hf in H. inversion H; subst.
      now destruct (find_at_some A h Hwf _ _ _ _ Hf) as [_ [_ [_ [Hp _]]]].
    - subst o. cbn [snd]. destruct (p_search_at A cfg h at_) as [r|] eqn:Ep.
      + cbn. intros -> Hf. eapply p_search_at_leftmost_partial; eauto.
      + cbn. unfold ref_end. intros H Hf. rewrite Hf in H. inversion H; subst.
        now destruct (find_at_some A h Hwf _ _ _ _ Hf) as [_ [_ [_ [Hp _]]]].
  Qed.

  (* SearchAtAnchored, DFA answer or (anchored) NFA fallback: complete and sound for the paths
     anchored at at_, with ANY cache satisfying cinv (no acceleration in this loop) *)
  Theorem dfa_search_anchored_cached_correct h c at_ :
    at_ <= length h -> cinv A cfg c ->
    (snd (dfa_search_anchored A cfg c h at_) = None <-> forall e, ~ nfa_path A h (start_anch A) at_ e) /\
    (forall e, snd (dfa_search_anchored A cfg c h at_) = Some e ->
               at_ <= e /\ e <= length h /\ nfa_path A h (start_anch A) at_ e).
  Proof.
    intros Hat Hc. unfold dfa_search_anchored.
    destruct (c_search_anchored A cfg h c at_) as [c' o] eqn:E.
    assert (Hfb : (anch_fallback A h at_ = None <-> forall e, ~ nfa_path A h (start_anch A) at_ e) /\
                  (forall e, anch_fallback A h at_ = Some e -> at_ <= e /\ e <= length h /\ nfa_path A h (start_anch A) at_ e)).
    { split; [now apply anch_fallback_none_iff|]. intros e. now apply anch_fallback_end_sound. }
    destruct (c_search_anchored_eq_pure A cfg Hwb Hcls Hkey Hentry Hempty h c at_ c' o Hc E) as [_ [->|Ho]].
    - cbn. rewrite Hentry. exact Hfb.
    - subst o. cbn [snd]. destruct (p_search_anchored A cfg h at_) as [r|] eqn:Ep.
      + cbn. split.
        * eapply p_search_anchored_none_iff; eauto.
        * intros e ->. eapply p_search_anchored_end_sound; eauto.
      + cbn. rewrite Hentry. exact Hfb.
  Qed.
End Top.
