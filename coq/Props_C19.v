(* Props_C19.v — property C19: specialised fast paths are exact on every pattern they accept.
   Statements only; models and proofs are in FastPath.v.
   Part 1: the CURRENT code (repaired tree): positive theorems, for every pattern the current
           applicability test accepts, every haystack, every offset.  wf_re is the parser invariant
           "x{n,m} has n <= m"; is_pattern_anchored / is_end_anchored are the conditions under
           which SelectStrategy consults the predicate.
   Part 2: the ORIGINAL code before the fix named next to each statement. *)
From Coq Require Import List NArith ZArith.
From CV Require Import FastPath.
Import ListNotations.

(* ---------------------------------------------------------------- 1. current code *)

Theorem C19_charclass_exact :
  forall r s, cc_build r = Some s -> forall h at_, cc_search_at s h at_ = first_match h r at_.
Proof. exact FastPath.charclass_exact. Qed.
Print Assumptions C19_charclass_exact.

Theorem C19_charclass_is_match_exact :
  forall r s, cc_build r = Some s -> forall h, cc_is_match s h = isSome (first_match h r 0).
Proof. exact FastPath.charclass_is_match_exact. Qed.
Print Assumptions C19_charclass_is_match_exact.

Theorem C19_composite_exact :
  forall r ps, comp_build r = Some ps -> wf_re r = true ->
  forall h at_, comp_search_at ps h at_ = first_match h r at_.
Proof. exact FastPath.composite_exact. Qed.
Print Assumptions C19_composite_exact.

Theorem C19_composite_dfa_exact :
  forall r ps, cdfa_applicable r = true -> comp_build r = Some ps -> wf_re r = true ->
  forall h at_, cdfa_search_at ps h at_ = first_match h r at_.
Proof. exact FastPath.composite_dfa_exact. Qed.
Print Assumptions C19_composite_dfa_exact.

Theorem C19_branch_dispatch_exact :
  forall r d, is_pattern_anchored r = true -> bd_applicable r = true -> bd_build r = Some d ->
  forall h at_, bd_search_at d h at_ = first_match h r at_.
Proof. exact FastPath.branch_dispatch_exact. Qed.
Print Assumptions C19_branch_dispatch_exact.

Theorem C19_anchored_literal_exact :
  forall r a, is_pattern_anchored r = true -> is_end_anchored r = true -> al_detect r = Some a ->
  forall h at_, al_search_at_c a h at_ = first_match h r at_.
Proof. exact FastPath.anchored_literal_exact. Qed.
Print Assumptions C19_anchored_literal_exact.

Theorem C19_first_bytes_sound :
  forall r fs, first_bytes r = Some fs ->
  forall h e, bt h r 0 = Some e -> exists b, nth_error h 0 = Some b /\ fs b = true.
Proof. exact FastPath.first_bytes_sound. Qed.
Print Assumptions C19_first_bytes_sound.

Theorem C19_first_bytes_filter_sound :
  forall r fs, first_bytes r = Some fs ->
  forall h e, bt h r 0 = Some e -> fb_filter_rejects fs h = false.
Proof. exact FastPath.first_bytes_filter_sound. Qed.
Print Assumptions C19_first_bytes_filter_sound.

Theorem C19_digit_skip_sound :
  forall r, digit_run_skip_safe r = true -> digit_skip_claim r.
Proof. exact FastPath.digit_skip_sound. Qed.
Print Assumptions C19_digit_skip_sound.

Theorem C19_digit_skip_partial :
  forall r rs, digit_run_skip_safe_original r = true -> lead_class r = Some rs ->
  (forall b, cls_byte rs b = is_digit b) -> digit_skip_claim r.
Proof. exact FastPath.digit_skip_partial. Qed.
Print Assumptions C19_digit_skip_partial.


(* ---------------------------------------------------------------- 2. original code before the fixes *)

(* original code before fix fb3838d *)
Theorem C19_cc_original_refuted :
  exists r s h at_, cc_applicable_original r = true /\ cc_build_original r = Some s /\
                    cc_search_at s h at_ <> first_match h r at_.
Proof. exact FastPath.cc_original_refuted. Qed.
Print Assumptions C19_cc_original_refuted.

(* original code before fix 3a29455 *)
Theorem C19_comp_original_refuted :
  exists r ps h at_, comp_applicable_original r = true /\ comp_build_original r = Some ps /\
                     comp_search_at ps h at_ <> first_match h r at_.
Proof. exact FastPath.comp_original_refuted. Qed.
Print Assumptions C19_comp_original_refuted.

(* original code before fix 3a29455 *)
Theorem C19_comp_original_repeat0_refuted :
  exists r ps h at_, comp_applicable_original r = true /\ all_greedy r = true /\ comp_build_original r = Some ps /\
                     comp_search_at ps h at_ <> first_match h r at_.
Proof. exact FastPath.comp_original_repeat0_refuted. Qed.
Print Assumptions C19_comp_original_repeat0_refuted.

(* original code before fix 3a29455 *)
Theorem C19_comp_original_latin1_refuted :
  exists r ps h at_, comp_applicable_original r = true /\ all_greedy r = true /\ comp_build_original r = Some ps /\
                     comp_search_at ps h at_ <> first_match h r at_.
Proof. exact FastPath.comp_original_latin1_refuted. Qed.
Print Assumptions C19_comp_original_latin1_refuted.

(* original code before fix ef62930 *)
Theorem C19_cdfa_original_refuted :
  exists r ps h at_, cdfa_applicable_original r = true /\ comp_guard r = true /\ comp_build_original r = Some ps /\
                     cdfa_search_at_original ps h at_ <> first_match h r at_.
Proof. exact FastPath.cdfa_original_refuted. Qed.
Print Assumptions C19_cdfa_original_refuted.

(* original code before fix d884383 *)
Theorem C19_first_bytes_original_refuted :
  exists r fs h e, first_bytes_original r = Some fs /\ bt h r 0 = Some e /\ e > 0 /\ fb_filter_rejects fs h = true.
Proof. exact FastPath.first_bytes_original_refuted. Qed.
Print Assumptions C19_first_bytes_original_refuted.

(* original code before fix fdea5a8 *)
Theorem C19_bd_original_refuted :
  exists r d h at_, bd_applicable_original r = true /\ all_greedy r = true /\ bd_build_original r = Some d /\
                    bd_search_at d h at_ <> first_match h r at_.
Proof. exact FastPath.bd_original_refuted. Qed.
Print Assumptions C19_bd_original_refuted.

(* original code before fix fdea5a8 *)
Theorem C19_bd_original_fallback_refuted :
  exists r d h at_, bd_applicable_original r = true /\ all_greedy r = true /\ bd_build_original r = Some d /\
                    bd_search_at d h at_ <> first_match h r at_.
Proof. exact FastPath.bd_original_fallback_refuted. Qed.
Print Assumptions C19_bd_original_fallback_refuted.

(* original code before fix fdea5a8 *)
Theorem C19_bd_original_lazy_refuted :
  exists r d h at_, bd_applicable_original r = true /\ bd_build_original r = Some d /\
                    bd_search_at d h at_ <> first_match h r at_.
Proof. exact FastPath.bd_original_lazy_refuted. Qed.
Print Assumptions C19_bd_original_lazy_refuted.

(* original code before fix fdea5a8 *)
Theorem C19_bd_original_empty_branch_refuted :
  exists r d h at_, bd_applicable_original r = true /\ all_greedy r = true /\ bd_build_original r = Some d /\
                    bd_search_at d h at_ <> first_match h r at_.
Proof. exact FastPath.bd_original_empty_branch_refuted. Qed.
Print Assumptions C19_bd_original_empty_branch_refuted.

(* original code before fix 59ae723 *)
Theorem C19_al_original_refuted :
  exists r a h at_, al_applicable_original r = true /\ all_greedy r = true /\ al_detect_original r = Some a /\
                    al_search_at a h at_ <> first_match h r at_.
Proof. exact FastPath.al_original_refuted. Qed.
Print Assumptions C19_al_original_refuted.

(* original code before fix 59ae723 *)
Theorem C19_al_original_latin1_refuted :
  exists r a h at_, al_applicable_original r = true /\ all_greedy r = true /\ al_detect_original r = Some a /\
                    al_search_at a h at_ <> first_match h r at_.
Proof. exact FastPath.al_original_latin1_refuted. Qed.
Print Assumptions C19_al_original_latin1_refuted.

(* original code before fix 59ae723 *)
Theorem C19_al_original_fold_refuted :
  exists r a h at_, al_applicable_original r = true /\ all_greedy r = true /\ al_detect_original r = Some a /\
                    al_search_at a h at_ <> first_match h r at_.
Proof. exact FastPath.al_original_fold_refuted. Qed.
Print Assumptions C19_al_original_fold_refuted.

(* original code before fix 22419a2 *)
Theorem C19_digit_skip_original_refuted :
  exists r, digit_run_skip_safe_original r = true /\ all_greedy r = true /\ ~ digit_skip_claim r.
Proof. exact FastPath.digit_skip_original_refuted. Qed.
Print Assumptions C19_digit_skip_original_refuted.

(* original code before fix 22419a2 *)
Theorem C19_dp_original_refuted :
  exists r h at_, digit_run_skip_safe_original r = true /\ all_greedy r = true /\
                 dp_search_at_original r h at_ <> first_match h r at_.
Proof. exact FastPath.dp_original_refuted. Qed.
Print Assumptions C19_dp_original_refuted.

(* original code before fix f33db41 (after ef62930): x{n,} with n >= 2 accepted and run as x+ *)
Theorem C19_composite_dfa_original_refuted :
  exists r ps h at_, cdfa_applicable_original_f33db41 r = true /\ comp_build r = Some ps /\ wf_re r = true /\
                     cdfa_search_at ps h at_ <> first_match h r at_.
Proof. exact FastPath.composite_dfa_original_refuted. Qed.
Print Assumptions C19_composite_dfa_original_refuted.

(* the code before f33db41 was already exact on the patterns whose parts all have minimum 1 *)
Theorem C19_composite_dfa_original_partial :
  forall r ps, cdfa_applicable_original_f33db41 r = true -> comp_build r = Some ps -> wf_re r = true ->
  forallb (fun p => p_min p =? 1) ps = true ->
  forall h at_, cdfa_search_at ps h at_ = first_match h r at_.
Proof. exact FastPath.composite_dfa_original_partial. Qed.
Print Assumptions C19_composite_dfa_original_partial.
