(* Onepass.v — executable model of the one-pass DFA of coregex (dfa/onepass/builder.go,
   onepass.go, search.go, transition.go) over the NFA model of Nfa.v.

   What is modelled (the code as it stands after the repairs 4001814, 92ad1cb and 2b09251):
     closure      builder.go:epsilonClosureOnePass  explicit stack, `seen` set, ErrNotOnePass on a
                  second visit, slot masks accumulated along the path, one Match per closure,
                  look handling (start assertions only in the closure of the start state, end of
                  text only when leadsOnlyToMatch, everything else rejected)
     bt_scan      builder.go:buildTransitions       conflict -> ErrNotOnePass, equal targets keep the
                  first mask, transitions after a Match that is not end-only dropped
     build_state  builder.go:buildState             memo map NFA root -> DFA state, row allocated
                  before the recursion, recursion on explicit fuel (out of fuel = build error)
     build        builder.go:Build                  capture limit, IsOnePass, dead state 0, the
                  re-entry check of a start state that assumed position 0
     op_search / op_is_match   search.go:Search / onepass.go:IsMatch

   Simplifications (stated once, used everywhere):
     * byte classes are not modelled: a row has 256 entries, one per byte.  nfa.ByteClasses
       puts two bytes into one class only if no range of the NFA separates them, so a conflict
       between classes is a conflict between bytes and conversely.
     * buildTransitions iterates "closure entry, then byte" and keeps a map byte -> (target,
       mask); the model iterates "byte, then closure entry" (bt_scan).  Every error of the loop
       is the same ErrNotOnePass and aborts Build, and for one byte the entries are met in the
       same order, so the table is the same.
     * the Go map iteration order (order in which the targets are built) is random; the model
       takes ascending bytes.  Only the numbering of the DFA states depends on it.
     * a Sparse state contributes its first matching range (wf_nfa: ranges disjoint).
     * the limit MaxStateID = 2^21-1 cannot be reached (one DFA state per NFA state).
   The ORIGINAL behaviours (before the repairs; the last two flags are the defects found with
   this model and repaired in 2b09251) are kept as flags of `variant`; `cur` is the code as it
   stands.                                                                                   *)
From Coq Require Import List NArith ZArith Lia Bool Arith PeanoNat.
From Coq Require Import FSets.FSetPositive.
From CV Require Import Nfa.
Import ListNotations.

Record variant := mkVar {
  v_right_first : bool;      (* ORIGINAL: Split pushes left then right: right branch explored first *)
  v_keep_after_match : bool; (* ORIGINAL: byte transitions listed after Match are kept *)
  v_look_eps : bool;         (* ORIGINAL: every assertion is an epsilon transition *)
  v_end_only : bool;         (* ORIGINAL Search: match only at the end of the input, dead -> nil;
                                ORIGINAL IsMatch: any match state on the way -> true *)
  v_start_zero : bool;       (* ORIGINAL: no dead row, the start state gets id 0 = DeadState *)
  v_break_endonly : bool;    (* BEFORE 2b09251: buildTransitions breaks at every Match, also at one that
                                lies behind an end-of-text assertion (now: `continue` when endOnly) *)
  v_or_masks : bool          (* BEFORE 2b09251: two entries with the same target on a byte OR their slot
                                masks (now: the first, preferred, entry's mask is kept) *)
}.
Definition cur : variant := mkVar false false false false false false false.
Definition before_2b09251 : variant := mkVar false false false false false true true.
Definition original : variant := mkVar true true true true true true true.

(* ------------------------------------------------------------------ slot masks *)
Definition bit (i : nat) : N := N.shiftl 1 (N.of_nat i).

(* builder.go:epsilonClosureOnePass, case StateCapture: slotIdx < 32 *)
Definition cap_mask (m : N) (idx : nat) (is_start : bool) : N :=
  if slot_of idx is_start <? 32 then N.lor m (bit (slot_of idx is_start)) else m.

(* transition.go:UpdateSlots / search.go:applyMatchSlots: slots[i] = pos for every set bit i *)
Fixpoint apply_from (i : nat) (m : N) (pos : Z) (sl : slots) : slots :=
  match sl with
  | [] => []
  | x :: t => (if N.testbit m (N.of_nat i) then pos else x) :: apply_from (S i) m pos t
  end.
Definition apply_mask (m : N) (pos : nat) (sl : slots) : slots := apply_from 0 m (Z.of_nat pos) sl.

(* ------------------------------------------------------------------ epsilon closure *)
Record clo := mkClo {
  c_ents : list (nat * N);   (* closure entries (NFA state, mask) in the order they are popped *)
  c_match : bool;            (* b.matched *)
  c_mask : N;                (* b.matchMask *)
  c_atend : bool;            (* b.matchAtEnd *)
  c_slook : bool             (* this closure set b.startHasLook *)
}.
Definition clo0 : clo := mkClo [] false 0 false false.
Definition add_ent (c : clo) (x : nat) (m : N) : clo :=
  mkClo (c_ents c ++ [(x, m)]) (c_match c) (c_mask c) (c_atend c) (c_slook c).
Definition set_match (c : clo) (m : N) : clo := mkClo (c_ents c) true m (c_atend c) (c_slook c).
Definition set_atend (c : clo) : clo := mkClo (c_ents c) (c_match c) (c_mask c) true (c_slook c).
Definition set_slook (c : clo) : clo := mkClo (c_ents c) (c_match c) (c_mask c) (c_atend c) true.

Definition mem_nat (x : nat) (l : list nat) : bool := existsb (Nat.eqb x) l.

(* builder.go:stackPush *)
Definition push (x : nat) (m : N) (ss : list (nat * N) * list nat) : option (list (nat * N) * list nat) :=
  if mem_nat x (snd ss) then None else Some ((x, m) :: fst ss, x :: snd ss).

(* builder.go:leadsOnlyToMatch (steps = 0 .. States(): States()+1 iterations) *)
Fixpoint leads_only (A : nfa) (fuel : nat) (x : nat) : bool :=
  match fuel with
  | 0 => false
  | S f =>
      match nth_error (states A) x with
      | Some SMatch => true
      | Some (SEpsilon nx) => leads_only A f nx
      | Some (SCapture _ _ nx) => leads_only A f nx
      | _ => false
      end
  end.
Definition leads_only_to_match (A : nfa) (x : nat) : bool := leads_only A (S (nstates A)) x.

(* what an assertion does to the closure: None = ErrNotOnePass *)
Definition look_step (v : variant) (A : nfa) (root : nat) (lk : look) (nx : nat) (c : clo) : option clo :=
  if v_look_eps v then Some c else
  match lk with
  | LStartText | LStartLine => if root =? start_anch A then Some (set_slook c) else None
  | LEndText => if leads_only_to_match A nx then Some (set_atend c) else None
  | _ => None
  end.

(* builder.go:epsilonClosureOnePass — the loop `for len(b.stack) > 0`.  One unit of fuel per
   popped entry; every state is pushed at most once, so |N|+2 units are never exhausted *)
Fixpoint clo_loop (v : variant) (A : nfa) (root : nat) (fuel : nat)
         (stk : list (nat * N)) (seen : list nat) (c : clo) : option clo :=
  match fuel with
  | 0 => None
  | S f =>
      match stk with
      | [] => Some c
      | (x, m) :: stk' =>
          let c1 := add_ent c x m in
          match nth_error (states A) x with
          | None => clo_loop v A root f stk' seen c1                  (* state == nil: continue *)
          | Some SMatch =>
              if c_match c1 then None else clo_loop v A root f stk' seen (set_match c1 m)
          | Some (SSplit l r) =>
              let fst_pushed := if v_right_first v then l else r in
              let snd_pushed := if v_right_first v then r else l in
              match push fst_pushed m (stk', seen) with
              | None => None
              | Some ss1 =>
                  match push snd_pushed m ss1 with
                  | None => None
                  | Some ss2 => clo_loop v A root f (fst ss2) (snd ss2) c1
                  end
              end
          | Some (SEpsilon nx) =>
              match push nx m (stk', seen) with
              | None => None
              | Some ss1 => clo_loop v A root f (fst ss1) (snd ss1) c1
              end
          | Some (SCapture idx is_start nx) =>
              match push nx (cap_mask m idx is_start) (stk', seen) with
              | None => None
              | Some ss1 => clo_loop v A root f (fst ss1) (snd ss1) c1
              end
          | Some (SLook lk nx) =>
              match look_step v A root lk nx c1 with
              | None => None
              | Some c2 =>
                  match push nx m (stk', seen) with
                  | None => None
                  | Some ss1 => clo_loop v A root f (fst ss1) (snd ss1) c2
                  end
              end
          | Some _ => clo_loop v A root f stk' seen c1     (* ByteRange, Sparse, Fail: leaves *)
          end
      end
  end.

Definition closure (v : variant) (A : nfa) (root : nat) : option clo :=
  clo_loop v A root (nstates A + 2) [(root, 0%N)] [root] clo0.

(* ------------------------------------------------------------------ byte transitions *)
(* the byte transition of NFA state x on byte b *)
Definition ent_target (A : nfa) (x : nat) (b : N) : option nat :=
  match nth_error (states A) x with
  | Some (SByteRange lo hi nx) => if in_range lo hi b then Some nx else None
  | Some (SSparse trs) => sparse_next trs b
  | _ => None
  end.

Definition is_match_at (A : nfa) (x : nat) : bool :=
  match nth_error (states A) x with Some SMatch => true | _ => false end.

(* builder.go:buildTransitions, restricted to one byte.  stop = the `break` at Match;
   result None = ErrNotOnePass, Some None = no transition, Some (Some (target, mask)) *)
Fixpoint bt_scan (A : nfa) (stop keep_first : bool) (b : N) (es : list (nat * N))
         (acc : option (nat * N)) : option (option (nat * N)) :=
  match es with
  | [] => Some acc
  | (x, m) :: es' =>
      if stop && is_match_at A x then Some acc else
      match ent_target A x b with
      | None => bt_scan A stop keep_first b es' acc
      | Some t =>
          match acc with
          | None => bt_scan A stop keep_first b es' (Some (t, m))
          | Some (t0, m0) =>
              if t0 =? t then bt_scan A stop keep_first b es' (Some (t0, if keep_first then m0 else N.lor m0 m))
              else None
          end
      end
  end.

(* builder.go:buildState passes endOnly = isMatch && b.matchAtEnd to buildTransitions, which
   `continue`s instead of `break`ing at a Match when it is set *)
Definition stops (v : variant) (c : clo) : bool :=
  negb (v_keep_after_match v) && (v_break_endonly v || negb (c_match c && c_atend c)).

Definition bt_for (v : variant) (A : nfa) (c : clo) (b : N) : option (option (nat * N)) :=
  bt_scan A (stops v c) (negb (v_or_masks v)) b (c_ents c) None.

Definition bytes256 : list N := map N.of_nat (seq 0 256).

(* all byte transitions of a closure: (byte, target NFA state, mask) in ascending bytes *)
Fixpoint all_bts (v : variant) (A : nfa) (c : clo) (bs : list N) : option (list (N * nat * N)) :=
  match bs with
  | [] => Some []
  | b :: bs' =>
      match bt_for v A c b with
      | None => None
      | Some None => all_bts v A c bs'
      | Some (Some (t, m)) =>
          match all_bts v A c bs' with None => None | Some l => Some ((b, t, m) :: l) end
      end
  end.

(* ------------------------------------------------------------------ the table *)
Record row := mkRow {
  r_tr : list (nat * N);     (* 256 transitions (next DFA state, slot mask); next = 0: dead *)
  r_match : bool;            (* matchFlags *)
  r_mslots : N;              (* matchSlots *)
  r_endonly : bool           (* endOnly *)
}.
Definition dead_tr : nat * N := (0, 0%N).
Definition dead_row : row := mkRow (repeat dead_tr 256) false 0 false.

Record bst := mkBst {
  b_rows : list row;             (* numStates = length *)
  b_map : list (nat * nat);      (* nfaToDFA *)
  b_slook : bool                 (* startHasLook *)
}.

Fixpoint lookup (q : nat) (mp : list (nat * nat)) : option nat :=
  match mp with
  | [] => None
  | (k, x) :: t => if k =? q then Some x else lookup q t
  end.

Definition set_row_tr (r : row) (b : N) (t : nat * N) : row :=
  mkRow (set_nth (r_tr r) (N.to_nat b) t) (r_match r) (r_mslots r) (r_endonly r).

Definition set_tr (s : bst) (sid : nat) (b : N) (t : nat * N) : bst :=
  match nth_error (b_rows s) sid with
  | None => s
  | Some r => mkBst (set_nth (b_rows s) sid (set_row_tr r b t)) (b_map s) (b_slook s)
  end.

(* builder.go:buildTransitions, second loop: build the target, then store the transition *)
Fixpoint fill (rec : nat -> bst -> option (nat * bst)) (sid : nat) (bts : list (N * nat * N))
         (s : bst) : option bst :=
  match bts with
  | [] => Some s
  | (b, t, m) :: rest =>
      match rec t s with
      | None => None
      | Some (nx, s') => fill rec sid rest (set_tr s' sid b (nx, m))
      end
  end.

Definition new_row (c : clo) : row :=
  mkRow (repeat dead_tr 256) (c_match c) (if c_match c then c_mask c else 0%N) (c_match c && c_atend c).

(* builder.go:buildState *)
Fixpoint build_state (v : variant) (A : nfa) (fuel : nat) (root : nat) (s : bst) : option (nat * bst) :=
  match fuel with
  | 0 => None
  | S f =>
      match lookup root (b_map s) with
      | Some sid => Some (sid, s)
      | None =>
          match closure v A root with
          | None => None
          | Some c =>
              let sid := length (b_rows s) in
              let s1 := mkBst (b_rows s ++ [new_row c]) ((root, sid) :: b_map s) (b_slook s || c_slook c) in
              match all_bts v A c bytes256 with
              | None => None
              | Some bts =>
                  match fill (build_state v A f) sid bts s1 with
                  | None => None
                  | Some s2 => Some (sid, s2)
                  end
              end
          end
      end
  end.

(* ------------------------------------------------------------------ Build *)
Record dfa := mkDfa {
  d_rows : list row;
  d_start : nat;
  d_ncaps : nat;
  d_map : list (nat * nat)   (* ghost: nfaToDFA, not kept by the Go DFA, never read by the searches *)
}.

(* builder.go:Build, the loop over b.table when b.startHasLook *)
Definition reenters (rows : list row) (st : nat) : bool :=
  existsb (fun r => existsb (fun t => negb (fst t =? 0) && (fst t =? st)) (r_tr r)) rows.

(* builder.go:Build (+ IsOnePass: IsAlwaysAnchored, CaptureCount <= 16) *)
Definition build (v : variant) (A : nfa) : option dfa :=
  if 16 <? ncaps A then None else
  if negb (start_anch A =? start_unanch A) then None else
  let s0 := mkBst (if v_start_zero v then [] else [dead_row]) [] false in
  match build_state v A (S (nstates A)) (start_anch A) s0 with
  | None => None
  | Some (st, s) =>
      if b_slook s && reenters (b_rows s) st then None
      else Some (mkDfa (b_rows s) st (ncaps A) (b_map s))
  end.

(* ------------------------------------------------------------------ Search *)
(* onepass.go:isMatchState / getMatchSlots / isEndOnly / getTransition: out of range = dead *)
Definition row_of (D : dfa) (s : nat) : row := nth s (d_rows D) dead_row.
Definition trans (D : dfa) (s : nat) (b : N) : nat * N := nth (N.to_nat b) (r_tr (row_of D s)) dead_tr.

(* search.go:Search, the loop; h = input[pos:], sl = cache.slots, saved = cache.saved if haveMatch *)
Fixpoint op_loop (v : variant) (D : dfa) (h : hay) (pos : nat) (st : nat) (sl : slots)
         (saved : option slots) : option slots :=
  let r := row_of D st in
  match h with
  | [] =>
      if r_match r then Some (set_nth (apply_mask (r_mslots r) pos sl) 1 (Z.of_nat pos)) else saved
  | b :: h' =>
      let saved' :=
        if negb (v_end_only v) && r_match r && negb (r_endonly r)
        then Some (set_nth (apply_mask (r_mslots r) pos sl) 1 (Z.of_nat pos)) else saved in
      let t := trans D st b in
      if fst t =? 0 then (if v_end_only v then None else saved')
      else op_loop v D h' (S pos) (fst t) (apply_mask (snd t) pos sl) saved'
  end.

(* search.go:Search *)
Definition op_search (v : variant) (D : dfa) (h : hay) : option slots :=
  op_loop v D h 0 (d_start D) (set_nth (repeat (-1)%Z (2 * d_ncaps D)) 0 0%Z) None.

(* onepass.go:IsMatch *)
Fixpoint im_loop (v : variant) (D : dfa) (h : hay) (st : nat) : bool :=
  let r := row_of D st in
  match h with
  | [] => r_match r
  | b :: h' =>
      if r_match r && (v_end_only v || negb (r_endonly r)) then true else
      let t := trans D st b in
      if fst t =? 0 then false else im_loop v D h' (fst t)
  end.
Definition op_is_match (v : variant) (D : dfa) (h : hay) : bool := im_loop v D h (d_start D).

(* ------------------------------------------------------------------ the reference *)
(* anchored leftmost-first search at 0 of Nfa.v, as (slots with group 0 filled in) *)
Definition ref_anchored (A : nfa) (h : hay) : res (option slots) :=
  match search_with (fuel_for A h) A h 0 with
  | OutOfFuel => OutOfFuel
  | Done None => Done None
  | Done (Some (e, sl)) => Done (Some (caps_of 0 e sl))
  end.

(* ------------------------------------------------------------------ case checker *)
Record obs := mkObs { o_hay : hay; o_found : bool; o_slots : list Z; o_ismatch : bool }.
Record case := mkCase { c_id : N; c_nfa : nfa; c_built : bool; c_obs : list obs }.

Fixpoint zlist_eqb (a b : list Z) : bool :=
  match a, b with
  | [], [] => true
  | x :: a', y :: b' => Z.eqb x y && zlist_eqb a' b'
  | _, _ => false
  end.

Definition oslots_eqb (r : option slots) (found : bool) (sl : list Z) : bool :=
  match r with
  | None => negb found
  | Some s => found && zlist_eqb s sl
  end.

Definition check_obs (D : dfa) (o : obs) : bool :=
  oslots_eqb (op_search cur D (o_hay o)) (o_found o) (o_slots o) &&
  Bool.eqb (op_is_match cur D (o_hay o)) (o_ismatch o).

(* model output = observed output: Build succeeds in the model iff it did in Go, and every
   observed Search / IsMatch result is the model's *)
Definition check_case (c : case) : bool :=
  match build cur (c_nfa c) with
  | None => negb (c_built c)
  | Some D => c_built c && forallb (check_obs D) (c_obs c)
  end.

Definition mismatches (cs : list case) : list N :=
  map c_id (filter (fun c => negb (check_case c)) cs).

(* observed output = reference output (a finding about the code when it fails) *)
Definition ref_obs (A : nfa) (o : obs) : bool :=
  match ref_anchored A (o_hay o) with
  | OutOfFuel => false
  | Done r => oslots_eqb r (o_found o) (o_slots o) &&
              Bool.eqb (match r with Some _ => true | None => false end) (o_ismatch o)
  end.

Definition ref_mismatches (cs : list case) : list N :=
  map c_id (filter (fun c => negb (forallb (ref_obs (c_nfa c)) (c_obs c))) cs).

(* the hypotheses of the theorems, evaluated on every dumped NFA *)
Definition nocap0 (A : nfa) : bool :=
  forallb (fun st => match st with SCapture 0 _ _ => false | _ => true end) (states A).
Definition hyp_failures (cs : list case) : list N :=
  map c_id (filter (fun c => negb (wf_nfa (c_nfa c) && nocap0 (c_nfa c))) cs).
